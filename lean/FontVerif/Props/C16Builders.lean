/-
C16 (builders) — `PairPosBuilder` class rules (`ClassPairPosBuilder`), the whole `PairPosBuilder`,
`MarkToBaseBuilder`, and the class information / size loop of the MarkToBase split.
Model: Model/LayoutLookup.lean ⇄ write-fonts/src/tables/gpos/builders.rs,
write-fonts/src/graph/splitting/mark2base.rs.  Helper lemmas: Lemmas/LayoutClassPair.lean,
Lemmas/LayoutMarkBuilder.lean.
-/
import FontVerif.Props.C16Lookup
import FontVerif.Lemmas.LayoutClassPair
import FontVerif.Lemmas.LayoutMarkBuilder
set_option linter.unusedVariables false
namespace FontVerif.C16
open FontVerif FontVerif.Layout

/-! ## class-pair rules

THE RULE OF THE CODE.  `insert_classes` rules are partitioned greedily into subtables: a rule joins
the current subtable iff each of its two classes either IS one of the subtable's classes (on that
side) or shares no glyph with any of them; otherwise a new subtable is started (never revisited).
Within a subtable a repeated (class 1, class 2) cell is OVERWRITTEN (`BTreeMap::insert`): the LAST
rule wins.  Across subtables the FIRST subtable whose first classes contain `g1` decides — with the
cell's value, or with the all-zero record if the cell has no rule (a PairPos format 2 subtable
matches every covered first glyph): the FIRST subtable wins. -/

/-- **class_pair_first_subtable_last_rule_wins.**  Feed ANY sequence of `insert_classes(class1, v,
class2, ..)` rules (glyphs of the first classes < 65536; any classes — overlapping, equal, empty —,
any values, repeated cells) to `ClassPairPosBuilder`.  `build` does not panic (no missing class id,
no row / cell index out of range, no empty subtable), emits one PairPos format 2 subtable per rule
group of `groupClassRules`, and for EVERY glyph pair the first-match lookup over the compiled
subtables is what the rules say (`classRulesValue`): the first group covering `g1` decides, with the
value of the LAST rule of that group whose classes contain `g1` and `g2`, or the empty record. -/
theorem class_pair_first_subtable_last_rule_wins {V : Type} (fmt : V → Nat × Nat)
    (rules : List (ClassRule V)) (hb : ∀ r ∈ rules, ∀ x ∈ r.c1, x < 65536) :
    ∃ outs, buildClassPairs fmt (ClassPairs.ofRules rules) = some outs ∧
      outs.length = (groupClassRules rules).length ∧
      ∀ g1 g2, firstMatch2 (outs.map (·.tbl)) g1 g2 = classRulesValue rules g1 g2 := by
  obtain ⟨heq, hok⟩ := ofRules_eq_groups (fun r => ∀ x ∈ r.c1, x < 65536) rules hb
  obtain ⟨outs, h1, h2, h3, _⟩ := mapOpt_groups fmt (groupClassRules rules) hok
  exact ⟨outs, by unfold buildClassPairs; rw [heq]; exact h1, h2, h3⟩

/-- **class_pair_cell_last_rule_wins.**  When all rules fit one subtable, a pair whose glyphs are in
the classes of several rules gets the value of the LAST such rule; a pair whose first glyph is
covered but whose second glyph is in no second class (or in a cell without rule) gets the all-zero
record — it still matches. -/
theorem class_pair_cell_last_rule_wins {V : Type} (fmt : V → Nat × Nat)
    (rules : List (ClassRule V)) (hb : ∀ r ∈ rules, ∀ x ∈ r.c1, x < 65536)
    (hone : groupClassRules rules = [rules]) (g1 g2 : Nat)
    (hcov : ∃ r ∈ rules, g1 ∈ r.c1) :
    ∃ outs, buildClassPairs fmt (ClassPairs.ofRules rules) = some outs ∧
      firstMatch2 (outs.map (·.tbl)) g1 g2 =
        some ((rules.reverse.find? (fun r => r.c1.contains g1 && r.c2.contains g2)).map (·.v)) := by
  obtain ⟨outs, a, _, c⟩ := class_pair_first_subtable_last_rule_wins fmt rules hb
  refine ⟨outs, a, ?_⟩
  rw [c g1 g2]
  unfold classRulesValue
  rw [hone]
  obtain ⟨r, hr, hg⟩ := hcov
  have : rules.any (fun r => r.c1.contains g1) = true :=
    List.any_eq_true.mpr ⟨r, hr, List.contains_iff_mem.mpr hg⟩
  simp [classGroupValue]
  exact ⟨r, hr, hg⟩

/-- **class_pair_no_rule_nothing.**  A first glyph that is in no first class of any rule matches
no class subtable: the lookup yields nothing for every second glyph. -/
theorem class_pair_no_rule_nothing {V : Type} (fmt : V → Nat × Nat)
    (rules : List (ClassRule V)) (hb : ∀ r ∈ rules, ∀ x ∈ r.c1, x < 65536) (g1 g2 : Nat)
    (hno : ∀ r ∈ rules, g1 ∉ r.c1) :
    ∃ outs, buildClassPairs fmt (ClassPairs.ofRules rules) = some outs ∧
      firstMatch2 (outs.map (·.tbl)) g1 g2 = none := by
  obtain ⟨outs, a, _, c⟩ := class_pair_first_subtable_last_rule_wins fmt rules hb
  refine ⟨outs, a, ?_⟩
  rw [c g1 g2]
  unfold classRulesValue
  rw [List.findSome?_eq_none_iff]
  intro grp hgrp
  have hsub := ((ofRules_eq_groups (fun r => r ∈ rules) rules (fun r hr => hr)).2 grp hgrp).2.2
  unfold classGroupValue
  have : grp.any (fun r => r.c1.contains g1) = false := by
    rw [List.any_eq_false]
    intro r hr hcon
    exact hno r (hsub r hr) (List.contains_iff_mem.mp hcon)
  simp
  exact fun x hx => hno x (hsub x hx)

/-- **class_pair_value_format_covers_all_cells.**  Every compiled class subtable is written with
value formats (`compute_value_formats`: the union over its cells) that contain every field of
every value the subtable can return: for any pair answered with a rule's value `v`, all bits of
`fmt v` are set in the subtable's two value formats — `with_explicit_value_format` drops nothing. -/
theorem class_pair_value_format_covers_all_cells {V : Type} (fmt : V → Nat × Nat)
    (rules : List (ClassRule V)) (hb : ∀ r ∈ rules, ∀ x ∈ r.c1, x < 65536) :
    ∃ outs, buildClassPairs fmt (ClassPairs.ofRules rules) = some outs ∧
      ∀ out ∈ outs, ∀ g1 g2 v, out.tbl.lookup g1 g2 = some (some v) →
        (fmt v).1 ||| out.vf1 = out.vf1 ∧ (fmt v).2 ||| out.vf2 = out.vf2 := by
  obtain ⟨heq, hok⟩ := ofRules_eq_groups (fun r => ∀ x ∈ r.c1, x < 65536) rules hb
  obtain ⟨outs, h1, h2, _, h4⟩ := mapOpt_groups fmt (groupClassRules rules) hok
  refine ⟨outs, by unfold buildClassPairs; rw [heq]; exact h1, ?_⟩
  intro out hout g1 g2 v hl
  obtain ⟨i, hi, rfl⟩ := List.getElem_of_mem hout
  have hi' : i < (groupClassRules rules).length := by rw [← h2]; exact hi
  obtain ⟨hv1, hv2⟩ := h4 i hi hi'
  -- the subtable is the one compiled from group i
  have hg := hok _ (List.getElem_mem hi')
  obtain ⟨out', hb', _, _, hlook⟩ := subOf_build_lookup fmt _ hg.1 hg.2.1 hg.2.2
  have hsame : out' = outs[i] := by
    have : ∀ (gs : List (List (ClassRule V))) (os : List (ClassPairOut V)),
        mapOpt (ClassPairSub.build fmt) (gs.map subOf) = some os →
        ∀ j (hj : j < os.length) (hj' : j < gs.length), (subOf gs[j]).build fmt = some os[j] := by
      intro gs
      induction gs with
      | nil => intro os h j hj hj'; exact absurd hj' (by simp)
      | cons g gs ih =>
        intro os h j hj hj'
        simp only [List.map_cons, mapOpt] at h
        split at h
        · rename_i b bs hb1 hb2
          cases h
          cases j with
          | zero => exact hb1
          | succ j => exact ih bs hb2 j (by simpa using hj) (by simpa using hj')
        · cases h
    have := this _ _ h1 i hi hi'
    rw [hb'] at this
    exact Option.some.inj this
  subst hsame
  rw [hlook] at hl
  obtain ⟨e, he, rfl⟩ := classGroupValue_mem_items _ g1 g2 v hl
  have := (computeValueFormats_covers fmt (subOf (groupClassRules rules)[i]).items (0, 0)).2 e he
  rw [hv1, hv2]
  exact this

/-! ## the whole `PairPosBuilder` -/

/-- **pair_builder_first_match.**  Feed ANY `insert_pair` rules and ANY `insert_classes` rules (in
any interleaving: the two halves are independent) to `PairPosBuilder`.  `build` emits the glyph-pair
subtables (format 1, one per value-format key) BEFORE the class subtables (format 2, one per rule
group), and for EVERY glyph pair the first match of the compiled lookup is what the input rules say
(`pairRulesValue`): the FIRST `insert_pair` rule for the pair if there is one — whatever its value,
also all-zero —, else the class rules' answer (first group covering `g1`, last rule of the cell, or
the empty record), else nothing. -/
theorem pair_builder_first_match {V : Type} (fmtKey : V → Nat) (fmt : V → Nat × Nat)
    (pairRules : List ((Nat × Nat) × V)) (classRules : List (ClassRule V))
    (hb1 : ∀ r ∈ pairRules, r.1.1 < 65536) (hb2 : ∀ r ∈ classRules, ∀ x ∈ r.c1, x < 65536) :
    ∃ ts, buildPairPos fmtKey fmt (GlyphPairs.ofRules pairRules) (ClassPairs.ofRules classRules) = some ts ∧
      ∀ g1 g2, firstMatchPair ts g1 g2 = pairRulesValue pairRules classRules g1 g2 := by
  obtain ⟨outs, a, _, c⟩ := class_pair_first_subtable_last_rule_wins fmt classRules hb2
  refine ⟨_, by unfold buildPairPos; rw [a], fun g1 g2 => ?_⟩
  unfold firstMatchPair pairRulesValue
  rw [List.findSome?_append, List.findSome?_map, List.findSome?_map]
  have h1 : ((fun t : PairSub (Option V) => t.lookup g1 g2) ∘ fun t : PairPos1 V =>
      PairSub.f1 ⟨t.cov, t.pairSets.map (·.map (fun p => (p.1, some p.2)))⟩) =
      fun t => (t.lookup g1 g2).map some := by
    funext t
    exact PairPos1.lookup_wrap t g1 g2
  have h2 : ((fun t : PairSub (Option V) => t.lookup g1 g2) ∘ fun c : ClassPairOut V => PairSub.f2 c.tbl) =
      fun c => c.tbl.lookup g1 g2 := rfl
  rw [h1, h2]
  have hg := glyph_pair_first_rule_wins fmtKey pairRules hb1 g1 g2
  unfold firstMatch at hg
  have hc := c g1 g2
  unfold firstMatch2 at hc
  rw [List.findSome?_map] at hc
  have hc' : outs.findSome? (fun c => c.tbl.lookup g1 g2) = classRulesValue classRules g1 g2 := hc
  rw [hc']
  -- first match over `Option.map some`
  have hmap : ∀ (l : List (PairPos1 V)),
      l.findSome? (fun t => (t.lookup g1 g2).map some) = (l.findSome? (fun t => t.lookup g1 g2)).map some := by
    intro l
    induction l with
    | nil => rfl
    | cons t l ih =>
      simp only [List.findSome?_cons]
      cases t.lookup g1 g2 with
      | none => simpa using ih
      | some v => rfl
  rw [hmap, hg]
  cases pairRules.find? (fun r => r.1.1 == g1 && r.1.2 == g2) with
  | none => rfl
  | some r => rfl

/-- **pair_builder_then_split_first_match.**  End to end at the model level: compile ANY `insert_pair`
and `insert_classes` rules with `PairPosBuilder`, then split ANY subset of the resulting subtables at
ANY admissible points (`split_subtables` puts the pieces in place): the lookup does not panic on the
way and for EVERY glyph pair its first match is still what the input rules say. -/
theorem pair_builder_then_split_first_match {V : Type} (fmtKey : V → Nat) (fmt : V → Nat × Nat)
    (pairRules : List ((Nat × Nat) × V)) (classRules : List (ClassRule V))
    (hb1 : ∀ r ∈ pairRules, r.1.1 < 65536) (hb2 : ∀ r ∈ classRules, ∀ x ∈ r.c1, x < 65536)
    (choice : List (Option (List Nat)))
    (hv : ∀ ts, buildPairPos fmtKey fmt (GlyphPairs.ofRules pairRules) (ClassPairs.ofRules classRules) = some ts →
      AllValid PairSub.ValidChoice ts choice) :
    ∃ ts ts', buildPairPos fmtKey fmt (GlyphPairs.ofRules pairRules) (ClassPairs.ofRules classRules) = some ts ∧
      splitLookupWith PairSub.splitAt ts choice = some ts' ∧
      ∀ g1 g2, firstMatchPair ts' g1 g2 = pairRulesValue pairRules classRules g1 g2 := by
  obtain ⟨ts, a, b⟩ := pair_builder_first_match fmtKey fmt pairRules classRules hb1 hb2
  obtain ⟨ts', c, d⟩ := pair_lookup_split_preserves_first_match ts choice (hv ts a)
  exact ⟨ts, ts', a, c, fun g1 g2 => by rw [d, b]⟩

/-! ## non-vacuity -/

/-- three rules: the second overwrites the first's cell, the third overlaps class {5, 6} and opens
a second subtable -/
def exClassRules : List (ClassRule (Nat × Nat × Nat)) :=
  [⟨[5, 6], [9], (4, 0, 100)⟩, ⟨[7], [8], (5, 4, 200)⟩, ⟨[5, 6], [9], (4, 0, 300)⟩, ⟨[5], [9], (4, 0, 400)⟩]

example : (groupClassRules exClassRules).map (·.map (·.v.2.2)) = [[100, 200, 300], [400]] := by
  decide +kernel
example : (buildClassPairs (fun v => (v.1, v.2.1)) (ClassPairs.ofRules exClassRules)).map
    (·.map (fun o => (o.tbl.rows.map (·.map (fun c => (c.map (·.2.2)).getD 0)), o.vf1, o.vf2))) =
    some [([[0, 0, 300], [0, 200, 0]], 5, 4), ([[0, 400]], 4, 0)] := by decide +kernel
/-- pair (5, 9): the LAST rule of the first subtable's cell (300), not the later subtable (400);
pair (5, 8): covered, no rule for the cell: the empty record; glyph 4: nothing -/
example : classRulesValue exClassRules 5 9 = some (some (4, 0, 300)) ∧
    classRulesValue exClassRules 5 8 = some none ∧ classRulesValue exClassRules 4 9 = none := by
  decide +kernel
/-- `pos A V 0;` before a class rule covering A and V: the explicit zero wins -/
example : pairRulesValue [((5, 9), (4, 0, 0))] exClassRules 5 9 = some (some (4, 0, 0)) := by
  decide +kernel

/-! ## `MarkToBaseBuilder` -/

/-- **markbase_builder_reads_back.**  Apply ANY sequence of `insert_mark(glyph, class name, anchor)`
/ `insert_base(glyph, class name, anchor)` calls (glyphs < 65536) that does not panic (`insert_base`
for a class name no mark has used yet panics: `expect("marks added before bases")`) to an empty
`MarkToBaseBuilder`.  `build` does not panic (every class id indexes the base record), the mark
class count is the number of distinct class names, and for EVERY (mark, base) pair the compiled
MarkBasePos subtable answers what the inserts say: the LAST `insert_mark` of the mark glyph gives
its class and mark anchor (also when it moved the glyph to another class and returned `Err`), the
LAST `insert_base` of the base glyph for that class gives the base anchor; a base without an anchor
for the mark's class has a NULL offset there and does not match. -/
theorem markbase_builder_reads_back {A : Type} (ops : List (MbOp A))
    (hg : ∀ op ∈ ops, op.glyph < 65536) (b : MarkToBase A)
    (hb : MarkToBase.ofOps ops MarkToBase.empty = some b) :
    ∃ t, b.build = some t ∧ t.classCount = b.marks.classes.length ∧
      ∀ m bg, t.lookup m bg = mbExpected ops m bg :=
  mbInv_build_lookup ops b (mbInv_ofOps ops hg b hb)

/-- class ids are handed out in the order in which class names first appear: `0, 1, 2, …` -/
theorem markbase_builder_class_ids {A : Type} (ops : List (MbOp A))
    (hg : ∀ op ∈ ops, op.glyph < 65536) (b : MarkToBase A)
    (hb : MarkToBase.ofOps ops MarkToBase.empty = some b) :
    b.marks.classes.map (·.2) = List.range b.marks.classes.length ∧
    (b.marks.classes.map (·.1)).Nodup :=
  ⟨(mbInv_ofOps ops hg b hb).ids, (mbInv_ofOps ops hg b hb).names⟩

/-- the built subtable satisfies the hypotheses of `markbase_split_preserves` whenever its mark
coverage is well formed: it can be split at any points without changing a lookup -/
theorem markbase_builder_then_split {A : Type} (ops : List (MbOp A))
    (hg : ∀ op ∈ ops, op.glyph < 65536) (b : MarkToBase A)
    (hb : MarkToBase.ofOps ops MarkToBase.empty = some b) (t : MarkBase A) (ht : b.build = some t)
    (hrows : ∀ row ∈ t.bases, row.length = t.classCount)
    (pts : List Nat) (hinc : pts.Pairwise (· ≤ ·)) (hlast : pts.getLast? = some t.classCount) :
    ∃ ts, splitMarkBaseGo t 0 pts = some ts ∧ ∀ m bg, firstMatchMB ts m bg = mbExpected ops m bg := by
  have inv := mbInv_ofOps ops hg b hb
  obtain ⟨t', ht', _, hl⟩ := mbInv_build_lookup ops b inv
  rw [ht] at ht'; cases ht'
  have hcov : t.markCov = buildCoverage (b.marks.glyphs.map (·.1)) ∧ t.marks = b.marks.glyphs.map (·.2) := by
    unfold MarkToBase.build at ht
    simp only at ht
    split at ht
    · cases ht
    · cases ht; exact ⟨rfl, rfl⟩
  have ⟨w, e⟩ := buildCoverage_wf (b.marks.glyphs.map (·.1)) inv.mbound
  obtain ⟨ts, a, _, c⟩ := markbase_split_preserves t (by rw [hcov.1]; exact w)
    (by rw [hcov.1, hcov.2, e, sortDedup_of_sorted inv.msorted]; simp) hrows pts hinc hlast
  exact ⟨ts, a, fun m bg => by rw [c, hl]⟩

/-! ## the MarkToBase split: `get_class_info` and the size loop

KNOWN FINDING `C16-markbase-null-anchor-class-info`, as theorems.  `get_class_info` attributes the
base anchors to mark classes by cutting the base array's offset list — which holds only the
NON-NULL anchors — into chunks of `mark_class_count`.  The attribution only feeds the size
estimate (the split points); the marks of a class, which drive the split itself, are taken from the
mark records and are always right. -/

/-- the children of class `c`: its mark anchors, then entry `c` of every complete chunk -/
theorem class_info_children (k : Nat) (recs : List (Nat × Nat)) (offs : List Nat) (c : Nat) (hc : c < k) :
    ((getClassInfo k recs offs)[c]?).map (·.children) =
      some ((((List.range recs.length).filter (fun i => (recs.getD i (0, 0)).1 == c)).map
          (fun i => (recs.getD i (0, 0)).2)) ++
        (chunksExact k offs).filterMap (fun ch => ch[c]?)) := by
  simp [getClassInfo, hc]

/-- **class_info_exact_without_nulls.**  When every base record has an anchor for every mark class,
the real attribution IS the column-wise one. -/
theorem class_info_exact_without_nulls (k : Nat) (recs : List (Nat × Nat))
    (rows : List (List (Option Nat))) (hfull : ∀ row ∈ rows, FullRow k row) :
    getClassInfo k recs (baseOffsetsOf rows) = idealClassInfo k recs rows := by
  unfold getClassInfo idealClassInfo
  by_cases hk : k = 0
  · subst hk; rfl
  · have hk' : 0 < k := Nat.pos_of_ne_zero hk
    have hch : chunksExact k (baseOffsetsOf rows) = rows.map (fun row => row.filterMap id) := by
      unfold baseOffsetsOf
      rw [List.flatMap_def]
      apply chunksExact_flatten k hk'
      intro r hr
      obtain ⟨row, hrow, rfl⟩ := List.mem_map.mp hr
      exact (fullRow_filterMap k row (hfull row hrow)).1
    apply List.map_congr_left
    intro c _
    rw [hch, List.filterMap_map]
    have : List.filterMap ((fun ch : List Nat => ch[c]?) ∘ fun row => List.filterMap id row) rows =
        List.filterMap (fun row => (row[c]?).join) rows := by
      apply filterMap_congr'
      intro row hrow
      exact (fullRow_filterMap k row (hfull row hrow)).2 c
    simp only [this]

/-- **class_info_chunk_position.**  The `p`-th non-null base anchor (row-major) is attributed to class
`p % k` (as entry `p / k` of that class' chunk column) — unless it lies in the incomplete last
chunk, which `chunks_exact` drops: then it is attributed to NO class. -/
theorem class_info_chunk_position (k : Nat) (hk : 0 < k) (offs : List Nat) (p : Nat)
    (hp : p < offs.length) :
    ((chunksExact k offs)[p / k]?).bind (·[p % k]?) =
      if p / k < offs.length / k then offs[p]? else none :=
  chunksExact_getElem k hk offs.length offs rfl p hp

/-- **class_info_misattributes_iff.**  Let `cells` be the base anchor matrix in row-major order
(`k` offsets per base record, `none` = null) and let the cell at flat position `f` hold anchor `x`
(so its true mark class is `f % k`).  In the offset list that `get_class_info` chunks, `x` sits at
position `p = f − (number of null cells before f)`, so it is attributed to class `p % k`; that is
the true class EXACTLY when the number of null offsets before it is a multiple of `k`. -/
theorem class_info_misattributes_iff (k : Nat) (hk : 0 < k) (cells : List (Option Nat)) (f x : Nat)
    (h : cells[f]? = some (some x)) :
    (cells.filterMap id)[nonNullBefore cells f]? = some x ∧
    nonNullBefore cells f + nullsBefore cells f = f ∧
    (nonNullBefore cells f % k = f % k ↔ nullsBefore cells f % k = 0) := by
  have hf : f < cells.length := by
    rcases Nat.lt_or_ge f cells.length with h' | h'
    · exact h'
    · rw [List.getElem?_eq_none h'] at h; cases h
  have hsum := nonNull_add_nulls cells f (Nat.le_of_lt hf)
  refine ⟨baseOffsets_position cells f x h, hsum, ?_⟩
  rw [mod_eq_iff_sub_mod k f _ hk (by omega)]
  have : f - nonNullBefore cells f = nullsBefore cells f := by omega
  rw [this]

/-- **mb_points_valid.**  Whatever the class information says (the real chunked attribution, the
column-wise one, anything) and whatever the object sizes are, the split points the size loop of
`split_mark_to_base_subtable` computes are strictly increasing, never exceed the class count and
end with the class count. -/
theorem mb_points_valid (obj : Nat → AnchorObj) (baseCovSize baseCount : Nat)
    (infos : List MbClassInfo) (pts : List Nat)
    (h : mbSplitPoints obj baseCovSize baseCount infos = some pts) :
    pts.Pairwise (· < ·) ∧ pts.getLast? = some infos.length ∧ ∀ p ∈ pts, p ≤ infos.length := by
  unfold mbSplitPoints at h
  simp only at h
  have inv := mbLoop_inv obj (16 + baseCovSize) baseCount infos ⟨4, 16 + baseCovSize, [], []⟩ 0
    ⟨List.Pairwise.nil, fun p hp => nomatch hp⟩
  generalize mbLoop obj (16 + baseCovSize) baseCount ⟨4, 16 + baseCovSize, [], []⟩ 0 infos = st at h inv
  split at h
  · cases h
  · cases h
    simp only [Nat.zero_add] at inv
    refine ⟨?_, by simp, ?_⟩
    · rw [List.pairwise_append]
      refine ⟨List.pairwise_reverse.mpr (inv.1.imp (fun h => h)), by simp, ?_⟩
      intro a ha b hb
      simp at hb; subst hb
      exact inv.2 a (List.mem_reverse.mp ha)
    · intro p hp
      rcases List.mem_append.mp hp with hp | hp
      · exact Nat.le_of_lt (inv.2 p (List.mem_reverse.mp hp))
      · simp at hp; omega

/-- **markbase_split_real_class_info_preserves.**  Take ANY MarkBasePos subtable (well-formed mark
coverage, one record per mark, `classCount` offsets per base record — null or not) and run the
size loop on the class information the REAL `get_class_info` computes from ANY mark-record object
ids, ANY base offset list (in particular the non-null offsets of a matrix with nulls, where the
attribution is wrong) and ANY object sizes.  If it decides to split, the split does not panic and
every (mark, base) pair keeps its anchors: the mis-attribution changes WHERE the subtable is cut
(hence the size of the pieces, hence possibly `PackingFailed`), never WHAT a lookup answers. -/
theorem markbase_split_real_class_info_preserves {A : Type} (t : MarkBase A) (hwf : t.markCov.WF)
    (hlen : t.marks.length = t.markCov.glyphs.length)
    (hrows : ∀ row ∈ t.bases, row.length = t.classCount)
    (obj : Nat → AnchorObj) (baseCovSize baseCount : Nat) (recs : List (Nat × Nat)) (offs : List Nat)
    (pts : List Nat)
    (h : mbSplitPoints obj baseCovSize baseCount (getClassInfo t.classCount recs offs) = some pts) :
    ∃ ts, splitMarkBaseGo t 0 pts = some ts ∧ ts.length = pts.length ∧
      ∀ m b, firstMatchMB ts m b = t.lookup m b := by
  have ⟨pw, last, _⟩ := mb_points_valid obj baseCovSize baseCount _ pts h
  rw [getClassInfo_length] at last
  exact markbase_split_preserves t hwf hlen hrows pts (pw.imp (fun h => Nat.le_of_lt h)) last

/-! ### non-vacuity -/

/-- marks 20 (class "1", then moved to class "2": `Err`), 21 (class "2"); base 5 gets anchors for
both classes (the second insert for class "2" wins), base 6 only for class "1" -/
def exMbOps : List (MbOp Nat) :=
  [.mark 20 1 100, .mark 21 2 101, .mark 20 2 102, .base 5 1 200, .base 5 2 201, .base 5 2 202, .base 6 1 203]

example : ((MarkToBase.ofOps exMbOps MarkToBase.empty).bind MarkToBase.build).map
    (fun t => (t.classCount, t.marks, t.bases)) =
    some (2, [(1, 102), (1, 101)], [[some 200, some 202], [some 203, none]]) := by decide +kernel
example : mbExpected exMbOps 20 5 = some (102, 202) ∧ mbExpected exMbOps 20 6 = none ∧
    mbExpected exMbOps 22 5 = none := by decide +kernel
/-- a base before any mark of its class: the builder panics -/
example : MarkToBase.ofOps [MbOp.mark 20 1 100, .base 5 2 200] MarkToBase.empty = none := by
  decide +kernel
/-- the finding in miniature: 2 classes, base records `[a1, null]`, `[a2, a3]`.  Column-wise: class 0
has `a1, a2`, class 1 has `a3`.  `get_class_info` chunks `[a1, a2, a3]` by 2: class 0 gets `a1`,
class 1 gets `a2` (wrong), `a3` is dropped. -/
example : (getClassInfo 2 [] (baseOffsetsOf [[some 1, none], [some 2, some 3]])).map (·.children) = [[1], [2]] ∧
    (idealClassInfo 2 [] [[some 1, none], [some 2, some 3]]).map (·.children) = [[1, 2], [3]] := by
  decide +kernel
/-- anchor `a2` (flat position 2, one null before it): 1 % 2 ≠ 0, mis-attributed -/
example : nullsBefore [some 1, none, some 2, some 3] 2 = 1 ∧ nonNullBefore [some 1, none, some 2, some 3] 2 = 1 := by
  decide
/-- the size loop does produce split points: 3 classes of one mark each, 30000-byte anchors -/
example : mbSplitPoints (fun _ => ⟨30000, []⟩) 10 1 (getClassInfo 3 [(0, 1), (1, 2), (2, 3)] []) = some [2, 3] := by
  decide +kernel

end FontVerif.C16
