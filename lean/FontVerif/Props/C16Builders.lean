/-
C16 (builders) — `PairPosBuilder` class rules (`ClassPairPosBuilder`), the whole `PairPosBuilder`,
`MarkToBaseBuilder`, and the class information / size loop of the MarkToBase split.
Model: Model/LayoutLookup.lean ⇄ write-fonts/src/tables/gpos/builders.rs,
write-fonts/src/graph/splitting/mark2base.rs.  Helper lemmas: Lemmas/LayoutClassPair.lean,
Lemmas/LayoutMarkBuilder.lean.
-/
import FontVerif.Props.C16Lookup
import FontVerif.Lemmas.LayoutClassPair
set_option linter.unusedVariables false
namespace FontVerif.C16
open FontVerif FontVerif.Layout

/-! ## class-pair rules

THE RULE OF THE CODE.  `insert_classes` rules are partitioned greedily into subtables: a rule joins
the current subtable iff each of its two classes either IS one of the subtable's classes (on that
side) or shares no glyph with any of them; otherwise a new subtable is started (never revisited).
Within a subtable a repeated (class 1, class 2) cell is OVERWRITTEN (`BTreeMap::insert`): the LAST
rule wins.  Across subtables the FIRST subtable whose first classes contain `g1` decides — with the
cell's value, or with the all-zero record if the cell has no rule (a PairPos format 2 subtable
matches every covered first glyph): the FIRST subtable wins. -/

/-- **class_pair_first_subtable_last_rule_wins.**  Feed ANY sequence of `insert_classes(class1, v,
class2, ..)` rules (glyphs of the first classes < 65536; any classes — overlapping, equal, empty —,
any values, repeated cells) to `ClassPairPosBuilder`.  `build` does not panic (no missing class id,
no row / cell index out of range, no empty subtable), emits one PairPos format 2 subtable per rule
group of `groupClassRules`, and for EVERY glyph pair the first-match lookup over the compiled
subtables is what the rules say (`classRulesValue`): the first group covering `g1` decides, with the
value of the LAST rule of that group whose classes contain `g1` and `g2`, or the empty record. -/
theorem class_pair_first_subtable_last_rule_wins {V : Type} (fmt : V → Nat × Nat)
    (rules : List (ClassRule V)) (hb : ∀ r ∈ rules, ∀ x ∈ r.c1, x < 65536) :
    ∃ outs, buildClassPairs fmt (ClassPairs.ofRules rules) = some outs ∧
      outs.length = (groupClassRules rules).length ∧
      ∀ g1 g2, firstMatch2 (outs.map (·.tbl)) g1 g2 = classRulesValue rules g1 g2 := by
  obtain ⟨heq, hok⟩ := ofRules_eq_groups (fun r => ∀ x ∈ r.c1, x < 65536) rules hb
  obtain ⟨outs, h1, h2, h3, _⟩ := mapOpt_groups fmt (groupClassRules rules) hok
  exact ⟨outs, by unfold buildClassPairs; rw [heq]; exact h1, h2, h3⟩

/-- **class_pair_cell_last_rule_wins.**  When all rules fit one subtable, a pair whose glyphs are in
the classes of several rules gets the value of the LAST such rule; a pair whose first glyph is
covered but whose second glyph is in no second class (or in a cell without rule) gets the all-zero
record — it still matches. -/
theorem class_pair_cell_last_rule_wins {V : Type} (fmt : V → Nat × Nat)
    (rules : List (ClassRule V)) (hb : ∀ r ∈ rules, ∀ x ∈ r.c1, x < 65536)
    (hone : groupClassRules rules = [rules]) (g1 g2 : Nat)
    (hcov : ∃ r ∈ rules, g1 ∈ r.c1) :
    ∃ outs, buildClassPairs fmt (ClassPairs.ofRules rules) = some outs ∧
      firstMatch2 (outs.map (·.tbl)) g1 g2 =
        some ((rules.reverse.find? (fun r => r.c1.contains g1 && r.c2.contains g2)).map (·.v)) := by
  obtain ⟨outs, a, _, c⟩ := class_pair_first_subtable_last_rule_wins fmt rules hb
  refine ⟨outs, a, ?_⟩
  rw [c g1 g2]
  unfold classRulesValue
  rw [hone]
  obtain ⟨r, hr, hg⟩ := hcov
  have : rules.any (fun r => r.c1.contains g1) = true :=
    List.any_eq_true.mpr ⟨r, hr, List.contains_iff_mem.mpr hg⟩
  simp [classGroupValue]
  exact ⟨r, hr, hg⟩

/-- **class_pair_no_rule_nothing.**  A first glyph that is in no first class of any rule matches
no class subtable: the lookup yields nothing for every second glyph. -/
theorem class_pair_no_rule_nothing {V : Type} (fmt : V → Nat × Nat)
    (rules : List (ClassRule V)) (hb : ∀ r ∈ rules, ∀ x ∈ r.c1, x < 65536) (g1 g2 : Nat)
    (hno : ∀ r ∈ rules, g1 ∉ r.c1) :
    ∃ outs, buildClassPairs fmt (ClassPairs.ofRules rules) = some outs ∧
      firstMatch2 (outs.map (·.tbl)) g1 g2 = none := by
  obtain ⟨outs, a, _, c⟩ := class_pair_first_subtable_last_rule_wins fmt rules hb
  refine ⟨outs, a, ?_⟩
  rw [c g1 g2]
  unfold classRulesValue
  rw [List.findSome?_eq_none_iff]
  intro grp hgrp
  have hsub := ((ofRules_eq_groups (fun r => r ∈ rules) rules (fun r hr => hr)).2 grp hgrp).2.2
  unfold classGroupValue
  have : grp.any (fun r => r.c1.contains g1) = false := by
    rw [List.any_eq_false]
    intro r hr hcon
    exact hno r (hsub r hr) (List.contains_iff_mem.mp hcon)
  simp
  exact fun x hx => hno x (hsub x hx)

/-- **class_pair_value_format_covers_all_cells.**  Every compiled class subtable is written with
value formats (`compute_value_formats`: the union over its cells) that contain every field of
every value the subtable can return: for any pair answered with a rule's value `v`, all bits of
`fmt v` are set in the subtable's two value formats — `with_explicit_value_format` drops nothing. -/
theorem class_pair_value_format_covers_all_cells {V : Type} (fmt : V → Nat × Nat)
    (rules : List (ClassRule V)) (hb : ∀ r ∈ rules, ∀ x ∈ r.c1, x < 65536) :
    ∃ outs, buildClassPairs fmt (ClassPairs.ofRules rules) = some outs ∧
      ∀ out ∈ outs, ∀ g1 g2 v, out.tbl.lookup g1 g2 = some (some v) →
        (fmt v).1 ||| out.vf1 = out.vf1 ∧ (fmt v).2 ||| out.vf2 = out.vf2 := by
  obtain ⟨heq, hok⟩ := ofRules_eq_groups (fun r => ∀ x ∈ r.c1, x < 65536) rules hb
  obtain ⟨outs, h1, h2, _, h4⟩ := mapOpt_groups fmt (groupClassRules rules) hok
  refine ⟨outs, by unfold buildClassPairs; rw [heq]; exact h1, ?_⟩
  intro out hout g1 g2 v hl
  obtain ⟨i, hi, rfl⟩ := List.getElem_of_mem hout
  have hi' : i < (groupClassRules rules).length := by rw [← h2]; exact hi
  obtain ⟨hv1, hv2⟩ := h4 i hi hi'
  -- the subtable is the one compiled from group i
  have hg := hok _ (List.getElem_mem hi')
  obtain ⟨out', hb', _, _, hlook⟩ := subOf_build_lookup fmt _ hg.1 hg.2.1 hg.2.2
  have hsame : out' = outs[i] := by
    have : ∀ (gs : List (List (ClassRule V))) (os : List (ClassPairOut V)),
        mapOpt (ClassPairSub.build fmt) (gs.map subOf) = some os →
        ∀ j (hj : j < os.length) (hj' : j < gs.length), (subOf gs[j]).build fmt = some os[j] := by
      intro gs
      induction gs with
      | nil => intro os h j hj hj'; exact absurd hj' (by simp)
      | cons g gs ih =>
        intro os h j hj hj'
        simp only [List.map_cons, mapOpt] at h
        split at h
        · rename_i b bs hb1 hb2
          cases h
          cases j with
          | zero => exact hb1
          | succ j => exact ih bs hb2 j (by simpa using hj) (by simpa using hj')
        · cases h
    have := this _ _ h1 i hi hi'
    rw [hb'] at this
    exact Option.some.inj this
  subst hsame
  rw [hlook] at hl
  obtain ⟨e, he, rfl⟩ := classGroupValue_mem_items _ g1 g2 v hl
  have := (computeValueFormats_covers fmt (subOf (groupClassRules rules)[i]).items (0, 0)).2 e he
  rw [hv1, hv2]
  exact this

/-! ## the whole `PairPosBuilder` -/

/-- **pair_builder_first_match.**  Feed ANY `insert_pair` rules and ANY `insert_classes` rules (in
any interleaving: the two halves are independent) to `PairPosBuilder`.  `build` emits the glyph-pair
subtables (format 1, one per value-format key) BEFORE the class subtables (format 2, one per rule
group), and for EVERY glyph pair the first match of the compiled lookup is what the input rules say
(`pairRulesValue`): the FIRST `insert_pair` rule for the pair if there is one — whatever its value,
also all-zero —, else the class rules' answer (first group covering `g1`, last rule of the cell, or
the empty record), else nothing. -/
theorem pair_builder_first_match {V : Type} (fmtKey : V → Nat) (fmt : V → Nat × Nat)
    (pairRules : List ((Nat × Nat) × V)) (classRules : List (ClassRule V))
    (hb1 : ∀ r ∈ pairRules, r.1.1 < 65536) (hb2 : ∀ r ∈ classRules, ∀ x ∈ r.c1, x < 65536) :
    ∃ ts, buildPairPos fmtKey fmt (GlyphPairs.ofRules pairRules) (ClassPairs.ofRules classRules) = some ts ∧
      ∀ g1 g2, firstMatchPair ts g1 g2 = pairRulesValue pairRules classRules g1 g2 := by
  obtain ⟨outs, a, _, c⟩ := class_pair_first_subtable_last_rule_wins fmt classRules hb2
  refine ⟨_, by unfold buildPairPos; rw [a], fun g1 g2 => ?_⟩
  unfold firstMatchPair pairRulesValue
  rw [List.findSome?_append, List.findSome?_map, List.findSome?_map]
  have h1 : ((fun t : PairSub (Option V) => t.lookup g1 g2) ∘ fun t : PairPos1 V =>
      PairSub.f1 ⟨t.cov, t.pairSets.map (·.map (fun p => (p.1, some p.2)))⟩) =
      fun t => (t.lookup g1 g2).map some := by
    funext t
    exact PairPos1.lookup_wrap t g1 g2
  have h2 : ((fun t : PairSub (Option V) => t.lookup g1 g2) ∘ fun c : ClassPairOut V => PairSub.f2 c.tbl) =
      fun c => c.tbl.lookup g1 g2 := rfl
  rw [h1, h2]
  have hg := glyph_pair_first_rule_wins fmtKey pairRules hb1 g1 g2
  unfold firstMatch at hg
  have hc := c g1 g2
  unfold firstMatch2 at hc
  rw [List.findSome?_map] at hc
  have hc' : outs.findSome? (fun c => c.tbl.lookup g1 g2) = classRulesValue classRules g1 g2 := hc
  rw [hc']
  -- first match over `Option.map some`
  have hmap : ∀ (l : List (PairPos1 V)),
      l.findSome? (fun t => (t.lookup g1 g2).map some) = (l.findSome? (fun t => t.lookup g1 g2)).map some := by
    intro l
    induction l with
    | nil => rfl
    | cons t l ih =>
      simp only [List.findSome?_cons]
      cases t.lookup g1 g2 with
      | none => simpa using ih
      | some v => rfl
  rw [hmap, hg]
  cases pairRules.find? (fun r => r.1.1 == g1 && r.1.2 == g2) with
  | none => rfl
  | some r => rfl

/-! ## non-vacuity -/

/-- three rules: the second overwrites the first's cell, the third overlaps class {5, 6} and opens
a second subtable -/
def exClassRules : List (ClassRule (Nat × Nat × Nat)) :=
  [⟨[5, 6], [9], (4, 0, 100)⟩, ⟨[7], [8], (5, 4, 200)⟩, ⟨[5, 6], [9], (4, 0, 300)⟩, ⟨[5], [9], (4, 0, 400)⟩]

example : (groupClassRules exClassRules).map (·.map (·.v.2.2)) = [[100, 200, 300], [400]] := by
  decide +kernel
example : (buildClassPairs (fun v => (v.1, v.2.1)) (ClassPairs.ofRules exClassRules)).map
    (·.map (fun o => (o.tbl.rows.map (·.map (fun c => (c.map (·.2.2)).getD 0)), o.vf1, o.vf2))) =
    some [([[0, 0, 300], [0, 200, 0]], 5, 4), ([[0, 400]], 4, 0)] := by decide +kernel
/-- pair (5, 9): the LAST rule of the first subtable's cell (300), not the later subtable (400);
pair (5, 8): covered, no rule for the cell: the empty record; glyph 4: nothing -/
example : classRulesValue exClassRules 5 9 = some (some (4, 0, 300)) ∧
    classRulesValue exClassRules 5 8 = some none ∧ classRulesValue exClassRules 4 9 = none := by
  decide +kernel
/-- `pos A V 0;` before a class rule covering A and V: the explicit zero wins -/
example : pairRulesValue [((5, 9), (4, 0, 0))] exClassRules 5 9 = some (some (4, 0, 0)) := by
  decide +kernel

end FontVerif.C16
