/-
C03, part 5 — the glyph loader for composite glyphs (components: simple glyphs without instructions):
skrifa glyf/mod.rs (Model/HintLoad.lean) = FreeType 2.12.1 ttgload.c (Model/FtLoad.lean).

Covered: horizontal phantom points (`setup_phantom_points` ⇄ `tt_loader_set_pp`), scaling of the component
and of its phantom points, the phantom point rounding of `TT_Hint_Glyph` for instruction-free components
when hinting is requested and backward compatibility is off (⇄ `round_phantom_points`), USE_MY_METRICS
propagation, the 2x2 transform (`FT_Outline_Transform`), offsets (SCALED_COMPONENT_OFFSET with the two
vector lengths as inputs, scaling, ROUND_XY_TO_GRID on y only), point anchors, translation, the final
shift by the first phantom point, the advance (hdmx only when hinted, not in backward compatibility mode
and not fixed pitch — after fix 20350f1) and its rounding when hinting is requested.
Ranges: font-unit coordinates, bearings and offsets within ±2^15 / advances within [0, 2^16), scale at
most 64 px per font unit (2^22 in 16.16), transform entries F2Dot14, vector lengths at most 2^18,
and every accumulated point within ±2^29 (`AccOk`: the running outline of FreeType stays in range —
with n components it is bounded by (2n + 1)·2^25).
-/
import FontVerif.Lemmas.LoadEq
import FontVerif.Props.C03Vec
set_option linter.unusedVariables false
set_option linter.unusedSimpArgs false
set_option maxRecDepth 8000
namespace FontVerif.C03
open FontVerif FontVerif.Tt FontVerif.HintLoad

/-- metrics of a glyph in range: i16 header box and bearing, u16 advance. -/
def GMOk (m : GM) : Prop :=
  (-32768 ≤ m.xMin ∧ m.xMin ≤ 32767) ∧ (-32768 ≤ m.lsb ∧ m.lsb ≤ 32767) ∧ (0 ≤ m.adv ∧ m.adv ≤ 65535)

/-- a 16.16 scale of at most 64 px per font unit. -/
def ScaleOk (s : Int) : Prop := 0 ≤ s ∧ s ≤ 4194304

/-- **phantom points** (horizontal pair): same values, skrifa's checked subtraction does not trap. -/
theorem phantom_eq (m : GM) (hm : GMOk m) : HintLoad.setupPhantom m = some (FtLoad.setPp m) := by
  obtain ⟨hx, hl, ha⟩ := hm
  unfold HintLoad.setupPhantom FtLoad.setPp HintLoad.wadd
  have c : HintMath.chk (m.xMin - m.lsb) = some (m.xMin - m.lsb) := by
    unfold HintMath.chk; rw [if_pos (by omega)]
  rw [c]
  simp only [Option.map_some, Option.some.injEq, Prod.mk.injEq, true_and]
  exact wI32 (by omega) (by omega)

/-- a font-unit point within ±2^15. -/
def Unit15 (q : Vec) : Prop := (-32768 ≤ q.x ∧ q.x ≤ 32768) ∧ (-32768 ≤ q.y ∧ q.y ≤ 32768)

/-- a scaled point within ±2^22 (the scaled image of a `Unit15` point at a scale ≤ 64 px / unit is
within ±(2^21 + 1)). -/
def Pos22 (q : Vec) : Prop := (-4194304 ≤ q.x ∧ q.x ≤ 4194304) ∧ (-4194304 ≤ q.y ∧ q.y ≤ 4194304)

/-- the phantom coordinate after an instruction-free component, for a scaled value within ±2^24. -/
theorem ph_round_eq (hinted bc : Bool) (v : Int) (hv : -16777216 ≤ v ∧ v ≤ 16777216) :
    HintLoad.phRound hinted bc v = FtLoad.phRound hinted bc v ∧
    -16777280 ≤ FtLoad.phRound hinted bc v ∧ FtLoad.phRound hinted bc v ≤ 16777280 := by
  unfold HintLoad.phRound FtLoad.phRound
  rw [rnd_eq v (by omega)]
  refine ⟨rfl, ?_⟩
  split
  · unfold FtLoad.pixRound; omega
  · omega

/-- **loading a simple component**: scaled points, the phantom pair it leaves (rounded when hinting is
requested, there are no instructions and backward compatibility is off), and the bounds used below. -/
theorem load_simple_eq (hinted bc : Bool) (scale : Int) (m : GM) (pts : List Vec) (hs : ScaleOk scale)
    (hm : GMOk m) (hp : ∀ q ∈ pts, Unit15 q) :
    HintLoad.loadSimple hinted bc scale m pts = some (FtLoad.loadSimple hinted bc scale m pts) ∧
    (∀ q ∈ (FtLoad.loadSimple hinted bc scale m pts).1, Pos22 q) ∧
    (-16777280 ≤ (FtLoad.loadSimple hinted bc scale m pts).2.1 ∧ (FtLoad.loadSimple hinted bc scale m pts).2.1 ≤ 16777280) ∧
    (-16777280 ≤ (FtLoad.loadSimple hinted bc scale m pts).2.2 ∧ (FtLoad.loadSimple hinted bc scale m pts).2.2 ≤ 16777280) := by
  have hph := phantom_eq m hm
  obtain ⟨hx, hl, ha⟩ := hm
  unfold ScaleOk at hs
  have hpp : -131072 ≤ (FtLoad.setPp m).1 ∧ (FtLoad.setPp m).1 ≤ 131072 ∧
      -131072 ≤ (FtLoad.setPp m).2 ∧ (FtLoad.setPp m).2 ≤ 131072 := by
    unfold FtLoad.setPp; simp only []; omega
  unfold HintLoad.loadSimple FtLoad.loadSimple
  rw [hph]
  simp only [Option.map_some]
  generalize (FtLoad.setPp m).1 = p0 at hpp ⊢
  generalize (FtLoad.setPp m).2 = p1 at hpp ⊢
  have b0 := fixmul_bound (A := 131072) (B := 4194304) (a := p0) (b := scale) (by omega) (by omega) (by omega) (by omega) (by omega)
  have b1 := fixmul_bound (A := 131072) (B := 4194304) (a := p1) (b := scale) (by omega) (by omega) (by omega) (by omega) (by omega)
  have hpt : ∀ q ∈ pts, Vec.mk (Fixed.mul q.x scale) (Fixed.mul q.y scale) = Vec.mk (FtCalc.mulFix q.x scale) (FtCalc.mulFix q.y scale)
      ∧ Pos22 (Vec.mk (FtCalc.mulFix q.x scale) (FtCalc.mulFix q.y scale)) := by
    intro q hq
    have h := hp q hq
    have bx := fixmul_bound (A := 32768) (B := 4194304) (a := q.x) (b := scale) h.1 (by omega) (by omega) (by omega) (by omega)
    have by_ := fixmul_bound (A := 32768) (B := 4194304) (a := q.y) (b := scale) h.2 (by omega) (by omega) (by omega) (by omega)
    refine ⟨by rw [bx.1, by_.1], ?_⟩
    unfold Pos22; simp only []; omega
  have hmap : pts.map (fun q => Vec.mk (Fixed.mul q.x scale) (Fixed.mul q.y scale))
      = pts.map (fun q => Vec.mk (FtCalc.mulFix q.x scale) (FtCalc.mulFix q.y scale)) :=
    List.map_congr_left (fun q hq => (hpt q hq).1)
  have hall : ∀ q ∈ pts.map (fun q => Vec.mk (FtCalc.mulFix q.x scale) (FtCalc.mulFix q.y scale)), Pos22 q := by
    intro q hq
    rw [List.mem_map] at hq
    obtain ⟨q0, hq0, e⟩ := hq
    rw [← e]; exact (hpt q0 hq0).2
  rw [hmap, b0.1, b1.1]
  have r0 := ph_round_eq hinted bc (FtCalc.mulFix p0 scale) (by omega)
  have r1 := ph_round_eq hinted bc (FtCalc.mulFix p1 scale) (by omega)
  rw [r0.1, r1.1]
  exact ⟨rfl, hall, r0.2, r1.2⟩

/-- **the phantom points handed to the interpreter** (glyph with instructions): the original positions are
the UNROUNDED scaled phantom points and the current positions have pp1.x, pp2.x, pp3.y, pp4.y rounded, on
both sides (copy first, round second), for coordinates away from the i32 boundary. -/
theorem hint_phantom_eq (pp : List Vec)
    (h : ∀ q ∈ pp, (-2147483648 ≤ q.x ∧ q.x < 2147483616) ∧ (-2147483648 ≤ q.y ∧ q.y < 2147483616)) :
    HintLoad.hintPhantom pp = FtLoad.hintPhantom pp := by
  unfold HintLoad.hintPhantom FtLoad.hintPhantom
  match pp, h with
  | [p1, p2, p3, p4], h =>
    have h1 := h p1 (by simp)
    have h2 := h p2 (by simp)
    have h3 := h p3 (by simp)
    have h4 := h p4 (by simp)
    simp only [rnd_eq _ h1.1, rnd_eq _ h2.1, rnd_eq _ h3.2, rnd_eq _ h4.2]
  | [], _ => rfl
  | [_], _ => rfl
  | [_, _], _ => rfl
  | [_, _, _], _ => rfl
  | _ :: _ :: _ :: _ :: _ :: _, _ => rfl

-- advance 549 at scale 1.0: the interpreter sees pp2 at 549 originally and at 576 currently (not 576 / 576,
-- which the reverse order would give); vertical phantom points round in y only
example : HintLoad.hintPhantom [⟨0, 0⟩, ⟨549, 0⟩, ⟨274, 816⟩, ⟨274, -204⟩]
      = ([⟨0, 0⟩, ⟨549, 0⟩, ⟨274, 816⟩, ⟨274, -204⟩], [⟨0, 0⟩, ⟨576, 0⟩, ⟨274, 832⟩, ⟨274, -192⟩])
    ∧ FtLoad.hintPhantom [⟨0, 0⟩, ⟨549, 0⟩, ⟨274, 816⟩, ⟨274, -204⟩]
      = ([⟨0, 0⟩, ⟨549, 0⟩, ⟨274, 816⟩, ⟨274, -204⟩], [⟨0, 0⟩, ⟨576, 0⟩, ⟨274, 832⟩, ⟨274, -192⟩]) := by decide

/-- a component whose transform entries are F2Dot14 values, whose arguments are i16 and whose two vector
lengths are at most 2^18. -/
def CompOk (c : Comp) : Prop :=
  (-32768 ≤ c.xx ∧ c.xx ≤ 32767) ∧ (-32768 ≤ c.yx ∧ c.yx ≤ 32767) ∧ (-32768 ≤ c.xy ∧ c.xy ≤ 32767) ∧
  (-32768 ≤ c.yy ∧ c.yy ≤ 32767) ∧ (-32768 ≤ c.arg1 ∧ c.arg1 ≤ 32767) ∧ (-32768 ≤ c.arg2 ∧ c.arg2 ≤ 32767) ∧
  (0 ≤ c.hx ∧ c.hx ≤ 262144) ∧ (0 ≤ c.hy ∧ c.hy ≤ 262144) ∧ GMOk c.m ∧ (∀ q ∈ c.pts, Unit15 q)

/-- **the 2x2 transform** of a scaled point: `point.x * xx + point.y * xy` (wrapping) =
`FT_MulFix( x, xx ) + FT_MulFix( y, xy )`, and the image is within ±2^25. -/
theorem xform_eq (c : Comp) (q : Vec) (hc : CompOk c) (hq : Pos22 q) :
    HintLoad.xform c q = FtLoad.xform c q ∧
    (-33554432 ≤ (FtLoad.xform c q).x ∧ (FtLoad.xform c q).x ≤ 33554432) ∧
    (-33554432 ≤ (FtLoad.xform c q).y ∧ (FtLoad.xform c q).y ≤ 33554432) := by
  obtain ⟨hxx, hyx, hxy, hyy, _⟩ := hc
  unfold Pos22 at hq
  unfold HintLoad.xform FtLoad.xform HintLoad.wadd
  simp only []
  have b1 := fixmul_bound (A := 4194304) (B := 131072) (a := q.x) (b := c.xx * 4) hq.1 (by omega) (by omega) (by omega) (by omega)
  have b2 := fixmul_bound (A := 4194304) (B := 131072) (a := q.y) (b := c.xy * 4) hq.2 (by omega) (by omega) (by omega) (by omega)
  have b3 := fixmul_bound (A := 4194304) (B := 131072) (a := q.x) (b := c.yx * 4) hq.1 (by omega) (by omega) (by omega) (by omega)
  have b4 := fixmul_bound (A := 4194304) (B := 131072) (a := q.y) (b := c.yy * 4) hq.2 (by omega) (by omega) (by omega) (by omega)
  rw [b1.1, b2.1, b3.1, b4.1]
  rw [wI32 (by omega) (by omega), wI32 (by omega) (by omega)]
  refine ⟨rfl, ?_, ?_⟩ <;> omega

/-- **the offset of an `ARGS_ARE_XY_VALUES` component**: SCALED_COMPONENT_OFFSET (`Fixed * hypot` ⇄
`FT_MulFix( x, FT_Hypot(…) )`), scaling, ROUND_XY_TO_GRID on y when hinting is requested; FreeType's early
return for a zero offset gives the same (zero) translation. -/
theorem offset_eq (hinted : Bool) (scale : Int) (c : Comp) (hs : ScaleOk scale) (hc : CompOk c) :
    HintLoad.offsetXY hinted scale c = FtLoad.offsetXY hinted scale c ∧
    (-33554500 ≤ (FtLoad.offsetXY hinted scale c).x ∧ (FtLoad.offsetXY hinted scale c).x ≤ 33554500) ∧
    (-33554500 ≤ (FtLoad.offsetXY hinted scale c).y ∧ (FtLoad.offsetXY hinted scale c).y ≤ 33554500) := by
  obtain ⟨_, _, _, _, ha1, ha2, hhx, hhy, _, _⟩ := hc
  unfold ScaleOk at hs
  unfold HintLoad.offsetXY FtLoad.offsetXY
  have hsame : HintLoad.haveXform c = FtLoad.haveScale c := rfl
  simp only [hsame]
  have sx := fixmul_bound (A := 32768) (B := 262144) (a := c.arg1) (b := c.hx) (by omega) (by omega) (by omega) (by omega) (by omega)
  have sy := fixmul_bound (A := 32768) (B := 262144) (a := c.arg2) (b := c.hy) (by omega) (by omega) (by omega) (by omega) (by omega)
  by_cases hz : c.arg1 = 0 ∧ c.arg2 = 0
  · -- FreeType returns before doing anything; skrifa computes a zero offset
    simp only [hz, and_self, if_true]
    simp only [(fixmul_zero c.hx).1, (fixmul_zero c.hy).1, ite_self, (fixmul_zero scale).1,
      show HintLoad.rnd 0 = 0 from by decide]
    refine ⟨by first | rfl | trivial, by omega, by omega⟩
  · simp only [hz, if_false]
    -- the offset before scaling, on both sides, within ±(2^17 + 1)
    have hpre : ∀ sc : Prop, [Decidable sc] →
        ((if sc then Fixed.mul c.arg1 c.hx else c.arg1) = (if sc then FtCalc.mulFix c.arg1 c.hx else c.arg1) ∧
         (if sc then Fixed.mul c.arg2 c.hy else c.arg2) = (if sc then FtCalc.mulFix c.arg2 c.hy else c.arg2) ∧
         (-131073 ≤ (if sc then FtCalc.mulFix c.arg1 c.hx else c.arg1) ∧ (if sc then FtCalc.mulFix c.arg1 c.hx else c.arg1) ≤ 131073) ∧
         (-131073 ≤ (if sc then FtCalc.mulFix c.arg2 c.hy else c.arg2) ∧ (if sc then FtCalc.mulFix c.arg2 c.hy else c.arg2) ≤ 131073)) := by
      intro sc _
      by_cases h : sc
      · simp only [h, if_true, sx.1, sy.1]
        refine ⟨by first | rfl | trivial, by first | rfl | trivial, ?_, ?_⟩ <;> omega
      · simp only [h, if_false]
        refine ⟨by first | rfl | trivial, by first | rfl | trivial, ?_, ?_⟩ <;> omega
    have hp := hpre (FtLoad.haveScale c = true ∧ flag c.flags SCALED_OFFSET = true)
    rw [hp.1, hp.2.1]
    generalize (if FtLoad.haveScale c = true ∧ flag c.flags SCALED_OFFSET = true then FtCalc.mulFix c.arg1 c.hx else c.arg1) = x at hp ⊢
    generalize (if FtLoad.haveScale c = true ∧ flag c.flags SCALED_OFFSET = true then FtCalc.mulFix c.arg2 c.hy else c.arg2) = y at hp ⊢
    have hsc : -4194304 ≤ scale ∧ scale ≤ 4194304 := by omega
    have tx := fixmul_bound (A := 131073) (B := 4194304) (a := x) (b := scale) hp.2.2.1 hsc (by omega) (by omega) (by omega)
    have ty := fixmul_bound (A := 131073) (B := 4194304) (a := y) (b := scale) hp.2.2.2 hsc (by omega) (by omega) (by omega)
    rw [tx.1, ty.1, rnd_eq _ (by omega)]
    by_cases hr : hinted = true ∧ flag c.flags ROUND_XY = true
    · have hr' : flag c.flags ROUND_XY = true ∧ hinted = true := ⟨hr.2, hr.1⟩
      simp only [hr, hr', and_self, if_true]
      refine ⟨by first | rfl | trivial, by omega, ?_⟩
      unfold FtLoad.pixRound; omega
    · have hr' : ¬ (flag c.flags ROUND_XY = true ∧ hinted = true) := fun h => hr ⟨h.2, h.1⟩
      simp only [hr, hr', if_false]
      refine ⟨by first | rfl | trivial, by omega, by omega⟩


/-! ### one component, all components, the whole glyph -/

/-- every point of an accumulated outline within ±2^29. -/
def AllPos29 (l : List Vec) : Prop := ∀ q ∈ l, Pos29 q

/-- a transformed, not yet translated point of a component: within ±2^25. -/
def Pos25 (q : Vec) : Prop := (-33554432 ≤ q.x ∧ q.x ≤ 33554432) ∧ (-33554432 ≤ q.y ∧ q.y ≤ 33554432)

/-- **point anchors**: `base - component` (wrapping ⇄ `SUB_LONG`), within ±2^30. -/
theorem point_anchor_eq (acc sp : List Vec) (a1 a2 : Int) (hacc : AllPos29 acc) (hsp : ∀ q ∈ sp, Pos25 q) :
    HintLoad.pointAnchor acc sp a1 a2 = FtLoad.pointAnchor acc sp a1 a2 ∧
    ∀ off, FtLoad.pointAnchor acc sp a1 a2 = some off →
      (-1073741824 ≤ off.x ∧ off.x ≤ 1073741824) ∧ (-1073741824 ≤ off.y ∧ off.y ≤ 1073741824) := by
  unfold HintLoad.pointAnchor FtLoad.pointAnchor
  by_cases hneg : a1 < 0 ∨ a2 < 0
  · simp only [hneg, if_true, true_and]
    intro off e; exact absurd e (by simp)
  · simp only [hneg, if_false]
    cases hb : acc[a1.toNat]? with
    | none => simp
    | some b =>
      cases hq : sp[a2.toNat]? with
      | none => simp
      | some q =>
        have hbm := hacc b (List.mem_of_getElem? hb)
        have hqm := hsp q (List.mem_of_getElem? hq)
        unfold Pos29 Dist29 at hbm
        unfold Pos25 at hqm
        have ex : HintLoad.wsub b.x q.x = b.x - q.x ∧ FtCalc.subLong b.x q.x = b.x - q.x := by
          unfold HintLoad.wsub FtCalc.subLong
          exact ⟨wI32 (by omega) (by omega), wI64 (by omega) (by omega)⟩
        have ey : HintLoad.wsub b.y q.y = b.y - q.y ∧ FtCalc.subLong b.y q.y = b.y - q.y := by
          unfold HintLoad.wsub FtCalc.subLong
          exact ⟨wI32 (by omega) (by omega), wI64 (by omega) (by omega)⟩
        simp only [ex.1, ex.2, ey.1, ey.2, true_and, Option.some.injEq]
        intro off e
        rw [← e]; simp only []; omega

/-- **translation** by an offset within ±2^30 of points within ±2^25. -/
theorem translate_eq (sp : List Vec) (off : Vec) (hsp : ∀ q ∈ sp, Pos25 q)
    (ho : (-1073741824 ≤ off.x ∧ off.x ≤ 1073741824) ∧ (-1073741824 ≤ off.y ∧ off.y ≤ 1073741824)) :
    HintLoad.translate sp off = FtLoad.translate sp off := by
  unfold HintLoad.translate FtLoad.translate
  by_cases hnz : off.x ≠ 0 ∨ off.y ≠ 0
  · simp only [hnz, if_true]
    apply List.map_congr_left
    intro q hq
    have hqb := hsp q hq
    unfold Pos25 at hqb
    unfold HintLoad.wadd FtCalc.addLong
    rw [wI32 (by omega) (by omega), wI32 (by omega) (by omega), wI64 (by omega) (by omega), wI64 (by omega) (by omega)]
  · simp only [hnz, if_false]

/-- **one component of `load_composite`** = one iteration of FreeType's subglyph loop +
`TT_Process_Composite_Component`: same accumulated points, same phantom pair (USE_MY_METRICS), for a
non-empty component (FreeType skips components without points; skrifa's point-anchor lookup for such a
component reads past its points — a malformed-font case that is not compared). -/
theorem component_eq (hinted bc : Bool) (scale : Int) (acc : List Vec) (ph : Int × Int) (c : Comp)
    (hs : ScaleOk scale) (hc : CompOk c) (hacc : AllPos29 acc) (hne : c.pts ≠ []) :
    HintLoad.component hinted bc scale acc ph c = FtLoad.component hinted bc scale acc ph c := by
  have hls := load_simple_eq hinted bc scale c.m c.pts hs hc.2.2.2.2.2.2.2.2.1 hc.2.2.2.2.2.2.2.2.2
  unfold HintLoad.component FtLoad.component
  rw [hls.1]
  simp only [Option.bind_some]
  have hne' : (FtLoad.loadSimple hinted bc scale c.m c.pts).1.isEmpty = false := by
    unfold FtLoad.loadSimple; simp only [List.isEmpty_map]
    cases hp : c.pts with
    | nil => exact absurd hp hne
    | cons a t => rfl
  generalize hL : FtLoad.loadSimple hinted bc scale c.m c.pts = L at hls hne' ⊢
  obtain ⟨sp, c0, c1⟩ := L
  simp only [] at hls hne' ⊢
  simp only [hne', Bool.false_eq_true, if_false]
  have hsame : HintLoad.haveXform c = FtLoad.haveScale c := rfl
  simp only [hsame]
  -- the transformed points: equal, within ±2^25
  have hx : (if FtLoad.haveScale c = true then sp.map (HintLoad.xform c) else sp) =
      (if FtLoad.haveScale c = true then sp.map (FtLoad.xform c) else sp) ∧
      ∀ q ∈ (if FtLoad.haveScale c = true then sp.map (FtLoad.xform c) else sp), Pos25 q := by
    by_cases h : FtLoad.haveScale c = true
    · simp only [h, if_true]
      refine ⟨List.map_congr_left (fun q hq => (xform_eq c q hc (hls.2.1 q hq)).1), ?_⟩
      intro q hq
      rw [List.mem_map] at hq
      obtain ⟨q0, hq0, e⟩ := hq
      rw [← e]
      exact (xform_eq c q0 hc (hls.2.1 q0 hq0)).2
    · rw [if_neg h, if_neg h]
      refine ⟨rfl, ?_⟩
      intro q hq
      have := hls.2.1 q hq
      unfold Pos22 at this; unfold Pos25; omega
  rw [hx.1]
  generalize (if FtLoad.haveScale c = true then sp.map (FtLoad.xform c) else sp) = tp at hx ⊢
  have hoff := offset_eq hinted scale c hs hc
  have hpa := point_anchor_eq acc tp c.arg1 c.arg2 hacc hx.2
  rw [hoff.1, hpa.1]
  cases ho : (if flag c.flags ARGS_ARE_XY = true then some (FtLoad.offsetXY hinted scale c)
      else FtLoad.pointAnchor acc tp c.arg1 c.arg2) with
  | none => simp only [Option.map_none]
  | some off =>
    have hob : (-1073741824 ≤ off.x ∧ off.x ≤ 1073741824) ∧ (-1073741824 ≤ off.y ∧ off.y ≤ 1073741824) := by
      by_cases hxy : flag c.flags ARGS_ARE_XY = true
      · rw [if_pos hxy] at ho
        simp only [Option.some.injEq] at ho
        rw [← ho]; omega
      · rw [if_neg hxy] at ho
        exact hpa.2 off ho
    simp only [Option.map_some, translate_eq tp off hx.2 hob]

/-- the accumulated outline of FreeType stays within ±2^29 from component to component (an explicit range
condition on the input: with n components the outline is bounded by (2n + 1)·2^25). -/
def AccOk (hinted bc : Bool) (scale : Int) : List Comp → List Vec → (Int × Int) → Prop
  | [], acc, _ => AllPos29 acc
  | c :: rest, acc, pp =>
    AllPos29 acc ∧
    match FtLoad.component hinted bc scale acc pp c with
    | some (acc', pp') => AccOk hinted bc scale rest acc' pp'
    | none => True

/-- **all components**. -/
theorem components_eq (hinted bc : Bool) (scale : Int) (hs : ScaleOk scale) :
    ∀ (cs : List Comp) (acc : List Vec) (ph : Int × Int), (∀ c ∈ cs, CompOk c ∧ c.pts ≠ []) →
      AccOk hinted bc scale cs acc ph →
      HintLoad.components hinted bc scale cs acc ph = FtLoad.components hinted bc scale cs acc ph := by
  intro cs
  induction cs with
  | nil => intro acc ph _ _; rfl
  | cons c rest ih =>
    intro acc ph hcs hok
    have hc := hcs c List.mem_cons_self
    unfold AccOk at hok
    simp only [HintLoad.components, FtLoad.components]
    rw [component_eq hinted bc scale acc ph c hs hc.1 hok.1 hc.2]
    cases hr : FtLoad.component hinted bc scale acc ph c with
    | none => rfl
    | some r =>
      obtain ⟨acc', pp'⟩ := r
      simp only [Option.bind_some]
      have hok2 := hok.2
      rw [hr] at hok2
      exact ih acc' pp' (fun c' hc' => hcs c' (List.mem_cons_of_mem c hc')) hok2

/-- a phantom pair within ±(2^24 + 64). -/
def PhOk (pp : Int × Int) : Prop := (-16777280 ≤ pp.1 ∧ pp.1 ≤ 16777280) ∧ (-16777280 ≤ pp.2 ∧ pp.2 ≤ 16777280)

/-- what `AccOk` gives at the end: the final outline is in range and so is the phantom pair. -/
theorem components_final (hinted bc : Bool) (scale : Int) (hs : ScaleOk scale) :
    ∀ (cs : List Comp) (acc : List Vec) (pp : Int × Int) (r : List Vec × (Int × Int)),
      (∀ c ∈ cs, CompOk c ∧ c.pts ≠ []) → AccOk hinted bc scale cs acc pp → PhOk pp →
      FtLoad.components hinted bc scale cs acc pp = some r → AllPos29 r.1 ∧ PhOk r.2 := by
  intro cs
  induction cs with
  | nil =>
    intro acc pp r _ hok hpp h
    simp only [FtLoad.components, Option.some.injEq] at h
    rw [← h]; exact ⟨hok, hpp⟩
  | cons c rest ih =>
    intro acc pp r hcs hok hpp h
    have hc := hcs c List.mem_cons_self
    unfold AccOk at hok
    simp only [FtLoad.components] at h
    cases hr : FtLoad.component hinted bc scale acc pp c with
    | none => rw [hr] at h; simp at h
    | some r1 =>
      obtain ⟨acc', pp'⟩ := r1
      rw [hr] at h
      simp only [Option.bind_some] at h
      have hok2 := hok.2
      rw [hr] at hok2
      -- the phantom pair after the component: the old one, or the component's (bounded by `load_simple_eq`)
      have hpp' : PhOk pp' := by
        have hls := load_simple_eq hinted bc scale c.m c.pts hs hc.1.2.2.2.2.2.2.2.2.1 hc.1.2.2.2.2.2.2.2.2.2
        unfold FtLoad.component at hr
        generalize FtLoad.loadSimple hinted bc scale c.m c.pts = L at hls hr
        obtain ⟨sp, c0, c1⟩ := L
        simp only [] at hls hr
        have hcand : PhOk (if flag c.flags USE_MY_METRICS = true then (c0, c1) else pp) := by
          split
          · exact ⟨hls.2.2.1, hls.2.2.2⟩
          · exact hpp
        split at hr
        · simp only [Option.some.injEq, Prod.mk.injEq] at hr
          rw [← hr.2]; exact hcand
        · simp only [Option.map_eq_some_iff, Prod.mk.injEq] at hr
          obtain ⟨_, _, _, e⟩ := hr
          rw [← e]; exact hcand
      exact ih acc' pp' r (fun c' hc' => hcs c' (List.mem_cons_of_mem c hc')) hok2 hpp' h

/-- **the final shift** by the first phantom point (`ScaledOutline::new` ⇄ `FT_Outline_Translate( -pp1.x, 0 )`). -/
theorem final_shift_eq (pts : List Vec) (q0 : Int) (hp : AllPos29 pts) (hq : -16777280 ≤ q0 ∧ q0 ≤ 16777280) :
    (if q0 ≠ 0 then pts.map fun q => Vec.mk (HintLoad.wsub q.x q0) q.y else pts) =
    (if q0 ≠ 0 then pts.map fun q => Vec.mk (FtCalc.addLong q.x (-q0)) q.y else pts) := by
  by_cases hz : q0 ≠ 0
  · rw [if_pos hz, if_pos hz]
    apply List.map_congr_left
    intro q hq'
    have hqb := hp q hq'
    unfold Pos29 Dist29 at hqb
    unfold HintLoad.wsub FtCalc.addLong
    rw [wI32 (by omega) (by omega), wI64 (by omega) (by omega)]
    congr 1
  · rw [if_neg hz, if_neg hz]

/-- **the advance**: hdmx (a `u8`) or the phantom pair, rounded when hinting is requested. -/
theorem advance_eq (hinted : Bool) (sel : Option Int) (q0 q1 : Int) (hq : PhOk (q0, q1))
    (hh : ∀ w, sel = some w → 0 ≤ w ∧ w ≤ 255) :
    (if hinted = true then HintLoad.rnd (HintLoad.advPick sel q0 q1) else HintLoad.advPick sel q0 q1) =
    (if hinted = true then FtLoad.pixRound (FtLoad.advPick sel q0 q1) else FtLoad.advPick sel q0 q1) := by
  unfold PhOk at hq
  simp only [] at hq
  have e : HintLoad.advPick sel q0 q1 = FtLoad.advPick sel q0 q1 ∧
      -33554560 ≤ FtLoad.advPick sel q0 q1 ∧ FtLoad.advPick sel q0 q1 ≤ 33554560 := by
    unfold HintLoad.advPick FtLoad.advPick
    cases sel with
    | none =>
      simp only []
      unfold HintLoad.wsub FtCalc.subLong
      rw [wI32 (by omega) (by omega), wI64 (by omega) (by omega)]; omega
    | some w =>
      have hwb := hh w rfl
      simp only []
      rw [wI32 (by omega) (by omega)]; omega
  rw [e.1, rnd_eq _ (by omega)]

/-- **the whole composite glyph**: same final points (after the shift by the first phantom point) and
the same advance — from the phantom pair, or from `hdmx` when hinting is requested, backward compatibility
is off and the font is not fixed pitch — rounded to the pixel grid when hinting is requested. -/
theorem load_eq (hinted bc fixedPitch : Bool) (scale : Int) (hdmx : Option Int) (m : GM) (cs : List Comp)
    (hs : ScaleOk scale) (hm : GMOk m) (hcs : ∀ c ∈ cs, CompOk c ∧ c.pts ≠ [])
    (hh : ∀ w, hdmx = some w → 0 ≤ w ∧ w ≤ 255)
    (hok : AccOk hinted bc scale cs [] (FtCalc.mulFix (FtLoad.setPp m).1 scale, FtCalc.mulFix (FtLoad.setPp m).2 scale)) :
    HintLoad.load hinted bc fixedPitch scale hdmx m cs = FtLoad.load hinted bc fixedPitch scale hdmx m cs := by
  have hph := phantom_eq m hm
  have hs' := hs
  unfold ScaleOk at hs'
  have hpp : (-131072 ≤ (FtLoad.setPp m).1 ∧ (FtLoad.setPp m).1 ≤ 131072) ∧
      (-131072 ≤ (FtLoad.setPp m).2 ∧ (FtLoad.setPp m).2 ≤ 131072) := by
    obtain ⟨hx, hl, ha⟩ := hm
    unfold FtLoad.setPp; simp only []; omega
  have b0 := fixmul_bound (A := 131072) (B := 4194304) (a := (FtLoad.setPp m).1) (b := scale) hpp.1 (by omega) (by omega) (by omega) (by omega)
  have b1 := fixmul_bound (A := 131072) (B := 4194304) (a := (FtLoad.setPp m).2) (b := scale) hpp.2 (by omega) (by omega) (by omega) (by omega)
  have hpp0 : PhOk (FtCalc.mulFix (FtLoad.setPp m).1 scale, FtCalc.mulFix (FtLoad.setPp m).2 scale) := by
    unfold PhOk; simp only []; omega
  have hce := components_eq hinted bc scale hs cs [] _ hcs hok
  unfold HintLoad.load FtLoad.load
  rw [hph]
  simp only [Option.bind_some]
  rw [b0.1, b1.1, hce]
  generalize hr : FtLoad.components hinted bc scale cs [] (FtCalc.mulFix (FtLoad.setPp m).1 scale, FtCalc.mulFix (FtLoad.setPp m).2 scale) = res
  cases res with
  | none => simp only [Option.map_none]
  | some r =>
    have hfin := components_final hinted bc scale hs cs [] _ r hcs hok hpp0 hr
    obtain ⟨pts, q0, q1⟩ := r
    simp only [Option.map_some, Option.some.injEq, Prod.mk.injEq]
    have hq0 : -16777280 ≤ q0 ∧ q0 ≤ 16777280 := hfin.2.1
    refine ⟨final_shift_eq pts q0 hfin.1 hq0, ?_⟩
    have hsel : ∀ w, (if hinted = true ∧ ¬ bc = true ∧ ¬ fixedPitch = true then hdmx else none) = some w → 0 ≤ w ∧ w ≤ 255 := by
      intro w hw
      split at hw
      · exact hh w hw
      · exact absurd hw (by simp)
    exact advance_eq hinted _ q0 q1 hfin.2 hsel

-- a composite of one component shifted by (64, 32) at scale 1.0 with ROUND_XY_TO_GRID: hinted rounds y only
example : HintLoad.load true false false 65536 none ⟨0, 0, 500⟩
      [⟨2 + 4, 16384, 0, 0, 16384, 70, 40, 65536, 65536, ⟨0, 0, 400⟩, [⟨0, 0⟩, ⟨100, 0⟩, ⟨100, 200⟩]⟩]
      = some ([⟨70, 64⟩, ⟨170, 64⟩, ⟨170, 264⟩], 512)
    ∧ FtLoad.load true false false 65536 none ⟨0, 0, 500⟩
      [⟨2 + 4, 16384, 0, 0, 16384, 70, 40, 65536, 65536, ⟨0, 0, 400⟩, [⟨0, 0⟩, ⟨100, 0⟩, ⟨100, 200⟩]⟩]
      = some ([⟨70, 64⟩, ⟨170, 64⟩, ⟨170, 264⟩], 512)
    ∧ HintLoad.load false false false 65536 none ⟨0, 0, 500⟩
      [⟨2 + 4, 16384, 0, 0, 16384, 70, 40, 65536, 65536, ⟨0, 0, 400⟩, [⟨0, 0⟩, ⟨100, 0⟩, ⟨100, 200⟩]⟩]
      = some ([⟨70, 40⟩, ⟨170, 40⟩, ⟨170, 240⟩], 500) := by decide
-- USE_MY_METRICS (512): the component's advance 400 replaces 500; hdmx (7 px) wins when hinted without
-- backward compatibility — unless the font is fixed pitch
example : (HintLoad.load false false false 65536 none ⟨0, 0, 500⟩
      [⟨2 + 512, 16384, 0, 0, 16384, 0, 0, 65536, 65536, ⟨0, 0, 400⟩, [⟨0, 0⟩, ⟨100, 0⟩, ⟨100, 200⟩]⟩]).map Prod.snd = some 400
    ∧ (FtLoad.load true false false 65536 (some 7) ⟨0, 0, 500⟩
      [⟨2, 16384, 0, 0, 16384, 0, 0, 65536, 65536, ⟨0, 0, 400⟩, [⟨0, 0⟩, ⟨100, 0⟩, ⟨100, 200⟩]⟩]).map Prod.snd = some 448
    ∧ (FtLoad.load true false true 65536 (some 7) ⟨0, 0, 500⟩
      [⟨2, 16384, 0, 0, 16384, 0, 0, 65536, 65536, ⟨0, 0, 400⟩, [⟨0, 0⟩, ⟨100, 0⟩, ⟨100, 200⟩]⟩]).map Prod.snd = some 512
    ∧ (FtLoad.load true true false 65536 (some 7) ⟨0, 0, 500⟩
      [⟨2, 16384, 0, 0, 16384, 0, 0, 65536, 65536, ⟨0, 0, 400⟩, [⟨0, 0⟩, ⟨100, 0⟩, ⟨100, 200⟩]⟩]).map Prod.snd = some 512 := by decide

end FontVerif.C03
