/-
C20 — no arithmetic overflow / debug assertion is reachable from font data.

For every kernel of Model/Checked.lean (a transcription of a /repo function through the
checked-integer layer, `none` = the function panics in the overflow-checked profile) either

  `kernel_no_trap : ∀ inputs in the machine ranges, (kernel inputs).isSome`

or a proved characterisation of the trapping inputs with a concrete witness
(`kernel_traps_at : kernel w = none`), which the harness replays on the real code.
-/
import FontVerif.Lemmas.Checked
namespace FontVerif.C20
open FontVerif.Checked
set_option linter.unusedVariables false

/-- `x` is a value of Rust type `i32` / `i16` (literal bounds, convenient for `omega`). -/
def I32 (x : Int) : Prop := -2147483648 ≤ x ∧ x ≤ 2147483647
def I16 (x : Int) : Prop := -32768 ≤ x ∧ x ≤ 32767

/-! ## font-types/src/fixed.rs -/

/-- `round` and `floor` use only `wrapping_add` and `&`: they cannot trap, at any type. -/
theorem fxRound_no_trap (t : IntTy) (fb : Nat) (a : Int) : (fxRound t fb a).isSome := rfl
theorem fxFloor_no_trap (t : IntTy) (fb : Nat) (a : Int) : (fxFloor t fb a).isSome := rfl

/-- `fract` = `self.0 - self.floor().0` is a raw subtraction, but its value is `a mod 2^fb`,
which is a value of the type as soon as `2^fb - 1` is (Fixed: 16, F26Dot6: 6, F2Dot14: 14). -/
theorem fxFract_no_trap (t : IntTy) (fb : Nat) (a : Int) (h0 : t.lo ≤ 0) (h1 : 2 ^ fb - 1 ≤ t.hi) :
    (fxFract t fb a).isSome := by
  have hp : (0 : Int) < 2 ^ fb := Int.pow_pos (by omega)
  have h2 := Int.emod_nonneg a (Int.ne_of_gt hp)
  have h3 := Int.emod_lt_of_pos a hp
  simp only [fxFract, IntTy.sub, maskInt, chk_isSome_iff, IntTy.inR]
  omega

example : (fxFract i32 16 (-2147483648)).isSome := fxFract_no_trap i32 16 _ (by decide) (by decide)
example : (fxFract i32 6 2147483647).isSome := fxFract_no_trap i32 6 _ (by decide) (by decide)
example : (fxFract i16 14 (-32768)).isSome := fxFract_no_trap i16 14 _ (by decide) (by decide)

/-- `abs` and `Neg` (after fix 7d0f778: `wrapping_abs` / `wrapping_neg`) cannot trap. -/
theorem fxAbs_no_trap (t : IntTy) (a : Int) : (fxAbs t a).isSome := rfl
theorem fxNeg_no_trap (a : Int) : (fxNeg a).isSome := rfl

/-- before the fix `abs` (`self.0.abs()`) trapped exactly on the minimum value … -/
theorem fxAbsPreFix_i32_isSome_iff (a : Int) (h : I32 a) :
    (fxAbsPreFix i32 a).isSome ↔ a ≠ -2147483648 := by
  simp only [fxAbsPreFix, IntTy.abs, chk_isSome_iff, IntTy.inR, i32]; unfold I32 at h; split <;> omega
theorem fxAbsPreFix_i16_isSome_iff (a : Int) (h : I16 a) :
    (fxAbsPreFix i16 a).isSome ↔ a ≠ -32768 := by
  simp only [fxAbsPreFix, IntTy.abs, chk_isSome_iff, IntTy.inR, i16]; unfold I16 at h; split <;> omega
/-- … and so did `Neg` (`-self.0`) of `Fixed` / `F26Dot6` (reached from TrueType bytecode:
`SMD[] 0x80000000` then `MDRP[]` with the minimum-distance flag evaluates `-min_distance`). -/
theorem fxNegPreFix_isSome_iff (a : Int) (h : I32 a) :
    (fxNegPreFix a).isSome ↔ a ≠ -2147483648 := by
  simp only [fxNegPreFix, IntTy.neg, chk_isSome_iff, IntTy.inR, i32]; unfold I32 at h; omega
theorem fxAbsPreFix_i32_traps_at : fxAbsPreFix i32 (-2147483648) = none := by decide
theorem fxAbsPreFix_i16_traps_at : fxAbsPreFix i16 (-32768) = none := by decide
theorem fxNegPreFix_traps_at : fxNegPreFix (-2147483648) = none := by decide
example : fxNeg (-2147483648) = some (-2147483648) := by decide
example : fxAbs i16 (-32768) = some (-32768) := by decide

/-- `Mul`: the i64 product, `+ 0x8000`, `- (ab < 0)` and `>> 16` never trap for i32 operands. -/
theorem fxMul_no_trap (a b : Int) (ha : I32 a) (hb : I32 b) : (fxMul a b).isSome := by
  unfold I32 at ha hb
  have hm := mul_bound (a := a) (b := b) (A := 2147483648) (B := 2147483648) (by omega) (by omega)
  generalize hab : a * b = ab at hm
  have h1 : i64.mul a b = some ab := by simp only [IntTy.mul, hab]; apply chk_i64; omega
  have h2 : i64.add ab 32768 = some (ab + 32768) := by
    simp only [IntTy.add]; apply chk_i64; omega
  have h3 : i64.sub (ab + 32768) (if ab < 0 then 1 else 0)
      = some (ab + 32768 - (if ab < 0 then 1 else 0)) := by
    simp only [IntTy.sub]; apply chk_i64; split <;> omega
  simp [fxMul, h1, h2, h3, shr_i64_16]

/-- the quotient step of `Div`: `((a as u64) << 16) + (b >> 1)) / b` for magnitudes ≤ 2^31. -/
theorem fxDivQ_no_trap (a b : Int) (ha : 0 ≤ a ∧ a ≤ 2147483648) (hb : 0 ≤ b ∧ b ≤ 2147483648) :
    (fxDivQ a b).isSome := by
  unfold fxDivQ
  by_cases hb0 : b = 0
  · simp [hb0]
  · have hw : u64.wrap (a * 65536) = a * 65536 := by apply wrap_u64_id; omega
    have hq := ediv_range (n := a * 65536 + b / 2) (d := b) (by omega) (by omega)
    have hd : Int.tdiv (a * 65536 + b / 2) b = (a * 65536 + b / 2) / b :=
      Int.tdiv_eq_ediv_of_nonneg (by omega)
    have h1 : u64.shl a 16 = some (a * 65536) := by rw [shl_u64_16, hw]
    have h2 := shr_u64_1 b
    have h3 : u64.add (a * 65536) (b / 2) = some (a * 65536 + b / 2) := by
      simp only [IntTy.add]; apply chk_u64; omega
    have h4 : u64.div (a * 65536 + b / 2) b = some ((a * 65536 + b / 2) / b) := by
      simp only [IntTy.div, hb0, if_false, hd]; apply chk_u64; omega
    simp [hb0, h1, h2, h3, h4]

/-- `Div` (after fix ff115fd): unsigned magnitudes, no trap for any i32 operands (incl. MIN, 0). -/
theorem fxDiv_no_trap (x y : Int) (hx : I32 x) (hy : I32 y) : (fxDiv x y).isSome := by
  unfold I32 at hx hy
  have ha := uabs_range (x := x) (A := 2147483648) (by omega)
  have hb := uabs_range (x := y) (A := 2147483648) (by omega)
  obtain ⟨sg, _, hsg⟩ := negIf_sign (decide (y < 0)) _ (sign_init (x < 0))
  have hq := fxDivQ_no_trap _ _ ha hb
  obtain ⟨q, hq⟩ := Option.isSome_iff_exists.mp hq
  simp [fxDiv, hsg, hq]

/-- the quotient step of `mul_div` is wrapping u64 arithmetic and a division by `bu > 0`. -/
theorem fxMulDivQ_no_trap (su au bu : Int) (hb : 0 ≤ bu ∧ bu ≤ 18446744073709551615) :
    (fxMulDivQ su au bu).isSome := by
  unfold fxMulDivQ
  by_cases hb0 : bu > 0
  · have hn := wrap_u64_range (u64.wrap (su * au) + bu / 2)
    generalize hnn : u64.wrap (u64.wrap (su * au) + bu / 2) = n at hn
    have hq := ediv_range (n := n) (d := bu) (by omega) (by omega)
    have hd : Int.tdiv n bu = n / bu := Int.tdiv_eq_ediv_of_nonneg (by omega)
    have hne : bu ≠ 0 := by omega
    have h2 := shr_u64_1 bu
    have h4 : u64.div n bu = some (n / bu) := by
      simp only [IntTy.div, hne, if_false, hd]; apply chk_u64; omega
    simp [hb0, h2, IntTy.wrappingAdd, IntTy.wrappingMul, hnn, h4]
  · simp [hb0]

theorem u64Mag_range (x : Int) : 0 ≤ u64Mag x ∧ u64Mag x ≤ 18446744073709551615 := by
  unfold u64Mag; split
  · exact wrap_u64_range _
  · exact wrap_u64_range _

/-- `mul_div`: wrapping u64 arithmetic throughout; cannot trap for ANY operands. -/
theorem fxMulDiv_no_trap (s a b : Int) : (fxMulDiv s a b).isSome := by
  obtain ⟨sg1, hsg1r, hsg1⟩ := negIf_sign (decide (a < 0)) _ (sign_init (s < 0))
  obtain ⟨sg2, _, hsg2⟩ := negIf_sign (decide (b < 0)) sg1 hsg1r
  have hq := fxMulDivQ_no_trap (u64Mag s) (u64Mag a) (u64Mag b) (u64Mag_range b)
  obtain ⟨q, hq⟩ := Option.isSome_iff_exists.mp hq
  simp [fxMulDiv, hsg1, hsg2, hq]

/-- shifts by the literal amounts 16 / 10 / 2 / 6 are in range: the conversions cannot trap. -/
theorem fxFromI32_no_trap (i : Int) : (fxFromI32 i).isSome := by simp [fxFromI32, IntTy.shl, i32]
theorem fxToI32_no_trap (a : Int) : (fxToI32 a).isSome := by simp [fxToI32, IntTy.shr, i32]
theorem fxToF26Dot6_no_trap (a : Int) : (fxToF26Dot6 a).isSome := by
  simp [fxToF26Dot6, IntTy.shr, i32]
theorem fxToF2Dot14_no_trap (a : Int) : (fxToF2Dot14 a).isSome := by
  simp [fxToF2Dot14, IntTy.shr, i32]
theorem f26FromI32_no_trap (i : Int) : (f26FromI32 i).isSome := by simp [f26FromI32, IntTy.shl, i32]
theorem f26ToI32_no_trap (a : Int) : (f26ToI32 a).isSome := by simp [f26ToI32, IntTy.shr, i32]

/-- `F2Dot14::to_fixed` = `self.0 as i32 * 4`: raw `*`, but `|self.0| ≤ 2^15`. -/
theorem f2ToFixed_eq (a : Int) (h : I16 a) : f2ToFixed a = some (a * 4) := by
  unfold I16 at h
  have : i32.cast a = a := by simp only [IntTy.cast]; apply wrap_i32_id; omega
  simp only [f2ToFixed, this, IntTy.mul]; apply chk_i32; omega
theorem f2ToFixed_no_trap (a : Int) (h : I16 a) : (f2ToFixed a).isSome := by
  rw [f2ToFixed_eq a h]; rfl

/-! ## skrifa/src/outline/glyf/hint/math.rs (after fix fafa2bb) -/

theorem hFloor_no_trap (x : Int) : (hFloor x).isSome := rfl
theorem hRound_no_trap (x : Int) : (hRound x).isSome := rfl
theorem hCeil_no_trap (x : Int) : (hCeil x).isSome := rfl

/-- before the fix `round(x) = floor(x + 32)` trapped on the top 32 values (CEILING[]/ROUND[] on a
font-program value) … -/
theorem hRoundPreFix_isSome_iff (x : Int) (h : I32 x) : (hRoundPreFix x).isSome ↔ x ≤ 2147483615 := by
  unfold I32 at h
  by_cases hx : x ≤ 2147483615
  · have : i32.add x 32 = some (x + 32) := by simp only [IntTy.add]; apply chk_i32; omega
    simp [hRoundPreFix, this, hx, hFloor]
  · have : i32.add x 32 = none := by simp only [IntTy.add]; apply chk_none_i32; omega
    simp [hRoundPreFix, this, hx]
theorem hRoundPreFix_traps_at : hRoundPreFix 2147483646 = none := by decide
theorem hCeilPreFix_traps_at : hCeilPreFix 2147483646 = none := by decide

/-- `round_pad(x, n)`: `n / 2` and `n - 1` are raw, so only `n = i32::MIN` traps; the single
caller passes the literal 32. -/
theorem hRoundPad_no_trap (x n : Int) (hn : I32 n) (hmin : n ≠ -2147483648) :
    (hRoundPad x n).isSome := by
  unfold I32 at hn
  have hb := tdiv_bounds (n := n) (d := 2) (by omega)
  have h1 : i32.div n 2 = some (Int.tdiv n 2) := by
    simp only [IntTy.div]; rw [if_neg (by omega)]; apply chk_i32; omega
  have h2 : i32.sub n 1 = some (n - 1) := by simp only [IntTy.sub]; apply chk_i32; omega
  simp [hRoundPad, hFloorPad, h1, h2]
theorem hRoundPad_32_no_trap (x : Int) : (hRoundPad x 32).isSome :=
  hRoundPad_no_trap x 32 (by unfold I32; omega) (by omega)
/-- witness for the unreachable case (no caller passes it) -/
theorem hRoundPad_traps_at : hRoundPad 0 (-2147483648) = none := by decide

theorem hMul_no_trap (a b : Int) (ha : I32 a) (hb : I32 b) : (hMul a b).isSome := fxMul_no_trap a b ha hb
theorem hDiv_no_trap (a b : Int) (ha : I32 a) (hb : I32 b) : (hDiv a b).isSome := fxDiv_no_trap a b ha hb
theorem hMulDiv_no_trap (a b c : Int) : (hMulDiv a b c).isSome := fxMulDiv_no_trap a b c

/-- `mul_div_no_round` (after the fix): u64 product of two magnitudes ≤ 2^31 and a division. -/
theorem hMulDivNoRound_no_trap (a b c : Int) (ha : I32 a) (hb : I32 b) (hc : I32 c) :
    (hMulDivNoRound a b c).isSome := by
  unfold I32 at ha hb hc
  have hua := uabs_range (x := a) (A := 2147483648) (by omega)
  have hub := uabs_range (x := b) (A := 2147483648) (by omega)
  have huc := uabs_range (x := c) (A := 2147483648) (by omega)
  obtain ⟨sg1, hsg1r, hsg1⟩ := negIf_sign (decide (b < 0)) _ (sign_init (a < 0))
  obtain ⟨sg2, _, hsg2⟩ := negIf_sign (decide (c < 0)) sg1 hsg1r
  have hq : (mdnrQ (uabs a) (uabs b) (uabs c)).isSome := by
    generalize uabs a = ua at hua
    generalize uabs b = ub at hub
    generalize uabs c = uc at huc
    unfold mdnrQ
    by_cases hc0 : uc > 0
    · have hm := mul_bound_nonneg hua hub
      generalize hp : ua * ub = p at hm
      have h1 : u64.mul ua ub = some p := by simp only [IntTy.mul, hp]; apply chk_u64; omega
      have hq := ediv_range (n := p) (d := uc) (by omega) (by omega)
      have hd : Int.tdiv p uc = p / uc := Int.tdiv_eq_ediv_of_nonneg (by omega)
      have h2 : u64.div p uc = some (p / uc) := by
        simp only [IntTy.div]; rw [if_neg (by omega), hd]; apply chk_u64; omega
      simp [hc0, h1, h2]
    · simp [hc0]
  obtain ⟨q, hq⟩ := Option.isSome_iff_exists.mp hq
  simp [hMulDivNoRound, hsg1, hsg2, hq]

/-- before the fix: `a = -a` trapped for `a = i32::MIN` (DIV[] computes
`mul_div_no_round(a, 64, b)` on two font-program values). -/
theorem hMulDivNoRoundPreFix_traps_at : hMulDivNoRoundPreFix (-2147483648) 64 1 = none := by decide

/-- `mul14`: i64 product of i32 operands, `+ 0x2000 + (v >> 63)`, `>> 14`. -/
theorem hMul14_no_trap (a b : Int) (ha : I32 a) (hb : I32 b) : (hMul14 a b).isSome := by
  unfold I32 at ha hb
  have hm := mul_bound (a := a) (b := b) (A := 2147483648) (B := 2147483648) (by omega) (by omega)
  generalize hab : a * b = v at hm
  have h1 : i64.mul a b = some v := by simp only [IntTy.mul, hab]; apply chk_i64; omega
  have h2 : i64.add 8192 (v / 9223372036854775808) = some (8192 + v / 9223372036854775808) := by
    simp only [IntTy.add]; apply chk_i64; omega
  have h3 : i64.add v (8192 + v / 9223372036854775808) = some (v + (8192 + v / 9223372036854775808)) := by
    simp only [IntTy.add]; apply chk_i64; omega
  simp [hMul14, h1, shr_i64_63, h2, h3, shr_i64_14]

/-! ## skrifa/src/outline/glyf/hint/round.rs (after fix fafa2bb) -/

theorem roundSym_no_trap (f : Int → Option Int) (hf : ∀ x, (f x).isSome) (d : Int) :
    (roundSym f d).isSome := by
  unfold roundSym
  split
  · obtain ⟨v, hv⟩ := Option.isSome_iff_exists.mp (hf d); simp [hv]
  · obtain ⟨v, hv⟩ := Option.isSome_iff_exists.mp (hf (i32.wrappingNeg d)); simp [hv]

/-- the five grid modes and `Off` cannot trap on any distance, whatever the round state. -/
theorem roundStateRound_grid_no_trap (mode thr ph per d : Int) (hm : mode ≠ 6 ∧ mode ≠ 7) :
    (roundStateRound mode thr ph per d).isSome := by
  unfold roundStateRound
  split
  · exact roundSym_no_trap _ (fun x => by simp [hFloor]) d
  split
  · exact roundSym_no_trap _ hRound_no_trap d
  split
  · exact roundSym_no_trap _ hRoundPad_32_no_trap d
  split
  · exact roundSym_no_trap _ hFloor_no_trap d
  split
  · exact roundSym_no_trap _ hCeil_no_trap d
  split
  · omega
  split
  · omega
  · rfl

/-- `Super`: the raw operators left are `threshold - phase`, `-period`, `-phase` on the round
state; they cannot trap when the state is small (it is: see `superRoundF_small`). -/
theorem roundSuper_no_trap (thr ph per d : Int)
    (ht : -536870912 ≤ thr ∧ thr ≤ 536870912) (hp : -536870912 ≤ ph ∧ ph ≤ 536870912)
    (hper : -2147483647 ≤ per ∧ per ≤ 2147483647) :
    (roundSuper thr ph per d).isSome := by
  have h1 : i32.sub thr ph = some (thr - ph) := by simp only [IntTy.sub]; apply chk_i32; omega
  have h2 : i32.neg per = some (-per) := by simp only [IntTy.neg]; apply chk_i32; omega
  have h3 : i32.neg ph = some (-ph) := by simp only [IntTy.neg]; apply chk_i32; omega
  simp only [roundSuper, h1, h2, Option.bind_eq_bind, Option.bind_some]
  split
  · rfl
  · simp only [h3]; split <;> rfl

/-- `Super45`: additionally `/ period` and `* period`; no trap when `period > 0`. -/
theorem roundSuper45_no_trap (thr ph per d : Int)
    (ht : -536870912 ≤ thr ∧ thr ≤ 536870912) (hp : -536870912 ≤ ph ∧ ph ≤ 536870912)
    (hper : 0 < per ∧ per ≤ 2147483647) :
    (roundSuper45 thr ph per d).isSome := by
  have h1 : i32.sub thr ph = some (thr - ph) := by simp only [IntTy.sub]; apply chk_i32; omega
  have h3 : i32.neg ph = some (-ph) := by simp only [IntTy.neg]; apply chk_i32; omega
  simp only [roundSuper45, h1, Option.bind_eq_bind, Option.bind_some]
  generalize hsd : (if d ≥ 0 then i32.wrappingAdd d (thr - ph) else i32.wrappingSub (thr - ph) d) = s
  have hs : -2147483648 ≤ s ∧ s ≤ 2147483647 := by
    rw [← hsd]; split
    · exact wrap_i32_range _
    · exact wrap_i32_range _
  have hb := tdiv_bounds (n := s) (d := per) hper.1
  have hmb := tdiv_mul_bounds (n := s) (d := per) hper.1
  have hq : i32.div s per = some (Int.tdiv s per) := by
    simp only [IntTy.div]; rw [if_neg (by omega)]; apply chk_i32; omega
  have hm : i32.mul (Int.tdiv s per) per = some (Int.tdiv s per * per) := by
    simp only [IntTy.mul]; apply chk_i32; omega
  simp only [hq, hm, Option.bind_some]
  split
  · rfl
  · simp only [h3]; split <;> rfl

/-- `RoundState::round` cannot trap for any distance in the states a font program can install
(`superRoundF_small` below: `|threshold|, |phase| ≤ 2^29`, `0 < period`). -/
theorem roundStateRound_no_trap (mode thr ph per d : Int)
    (ht : -536870912 ≤ thr ∧ thr ≤ 536870912) (hp : -536870912 ≤ ph ∧ ph ≤ 536870912)
    (hper : 0 < per ∧ per ≤ 2147483647) :
    (roundStateRound mode thr ph per d).isSome := by
  by_cases h6 : mode = 6
  · subst h6; exact roundSuper_no_trap thr ph per d ht hp (by omega)
  · by_cases h7 : mode = 7
    · subst h7; exact roundSuper45_no_trap thr ph per d ht hp hper
    · exact roundStateRound_grid_no_trap mode thr ph per d ⟨h6, h7⟩

/-- a zero period would divide by zero — no font program can install it (`superRoundF_small`). -/
theorem roundStateRound_super45_traps_at : roundStateRound 7 0 0 0 5 = none := by decide

/-- before the fix every grid mode negated the distance with a raw `-` (ROUND[] on `i32::MIN`). -/
theorem roundGridPreFix_traps_at : roundGridPreFix (-2147483648) = none := by decide
example : roundStateRound 0 0 0 64 (-2147483648) = some (-2147483648) := by decide

/-! ### `Engine::super_round`: the states a font program can install -/

/-- For the two grid periods the interpreter passes (`0x4000` for SROUND, `0x2D41` for S45ROUND)
and any selector fields, `super_round` cannot trap and installs a small state with a positive
period — the hypotheses of `roundStateRound_no_trap`. -/
theorem superRoundF_small (grid f76 f54 f30 : Int) (hg : grid = 16384 ∨ grid = 11585)
    (h30 : 0 ≤ f30 ∧ f30 ≤ 15) :
    ∃ thr ph per, superRoundF grid f76 f54 f30 = some (thr, ph, per) ∧
      (-536870912 ≤ thr ∧ thr ≤ 536870912) ∧ (-536870912 ≤ ph ∧ ph ≤ 536870912) ∧
      (0 < per ∧ per ≤ 2147483647) := by
  -- period
  have hP : ∃ p, srPeriod grid f76 = some p ∧ 5792 ≤ p ∧ p ≤ 32768 := by
    unfold srPeriod
    have hb := tdiv_bounds (n := grid) (d := 2) (by omega)
    have hlow : 5792 ≤ Int.tdiv grid 2 := by
      rcases hg with h | h <;> subst h <;> decide
    split
    · refine ⟨Int.tdiv grid 2, ?_, by omega, by omega⟩
      simp only [IntTy.div]; rw [if_neg (by omega)]; apply chk_i32; omega
    split
    · exact ⟨grid, rfl, by omega, by omega⟩
    split
    · refine ⟨grid * 2, ?_, by omega, by omega⟩
      simp only [IntTy.mul]; apply chk_i32; omega
    · exact ⟨grid, rfl, by omega, by omega⟩
  obtain ⟨p, hp, hp1, hp2⟩ := hP
  -- phase
  have hdivp : ∀ n d : Int, 0 ≤ n → n ≤ 2147483647 → 0 < d → i32.div n d = some (Int.tdiv n d) := by
    intro n d hn hn2 hd
    have hb := tdiv_bounds (n := n) (d := d) hd
    simp only [IntTy.div]; rw [if_neg (by omega)]; apply chk_i32; omega
  have hPh : ∃ ph, srPhase p f54 = some ph ∧ 0 ≤ ph ∧ ph ≤ 98304 := by
    unfold srPhase
    split
    · exact ⟨0, rfl, by omega, by omega⟩
    split
    · have hb := tdiv_bounds (n := p) (d := 4) (by omega)
      exact ⟨_, hdivp p 4 (by omega) (by omega) (by omega), by omega, by omega⟩
    split
    · have hb := tdiv_bounds (n := p) (d := 2) (by omega)
      exact ⟨_, hdivp p 2 (by omega) (by omega) (by omega), by omega, by omega⟩
    · have hb := tdiv_bounds (n := p * 3) (d := 4) (by omega)
      have hm : i32.mul p 3 = some (p * 3) := by simp only [IntTy.mul]; apply chk_i32; omega
      refine ⟨Int.tdiv (p * 3) 4, ?_, by omega, by omega⟩
      simp [hm, hdivp (p * 3) 4 (by omega) (by omega) (by omega)]
  obtain ⟨ph, hph, hph1, hph2⟩ := hPh
  -- threshold
  have hT : ∃ t, srThreshold p f30 = some t ∧ -360448 ≤ t ∧ t ≤ 360448 := by
    unfold srThreshold
    split
    · refine ⟨p - 1, ?_, by omega, by omega⟩
      simp only [IntTy.sub]; apply chk_i32; omega
    · have hk : i32.sub f30 4 = some (f30 - 4) := by simp only [IntTy.sub]; apply chk_i32; omega
      have hm := mul_bound (a := f30 - 4) (b := p) (A := 11) (B := 32768) (by omega) (by omega)
      generalize hkp : (f30 - 4) * p = kp at hm
      have hmul : i32.mul (f30 - 4) p = some kp := by
        simp only [IntTy.mul, hkp]; apply chk_i32; omega
      have hb := tdiv_bounds (n := kp) (d := 8) (by omega)
      have hdiv : i32.div kp 8 = some (Int.tdiv kp 8) := by
        simp only [IntTy.div]; rw [if_neg (by omega)]; apply chk_i32; omega
      exact ⟨Int.tdiv kp 8, by simp [hk, hmul, hdiv], by omega, by omega⟩
  obtain ⟨t, ht, ht1, ht2⟩ := hT
  refine ⟨t / 256, ph / 256, p / 256, ?_, by omega, by omega, by omega⟩
  simp [superRoundF, hp, hph, ht, shr_i32_8]

/-- the selector fields are `selector & 0xC0 / 0x30 / 0x0F`; the low field is in `0..=15`. -/
theorem land15_range (sel : Int) : 0 ≤ i32.land sel 15 ∧ i32.land sel 15 ≤ 15 := by
  have h15 : ((15 : Int) % i32.mod).toNat = 15 := by decide
  have hle : Nat.land (sel % i32.mod).toNat 15 ≤ 15 := Nat.and_le_right
  unfold IntTy.land
  rw [h15]
  generalize Nat.land (sel % i32.mod).toNat 15 = n at hle
  simp only [IntTy.wrap, i32, Int.ofNat_eq_natCast]
  omega

theorem superRound_small (grid sel : Int) (hg : grid = 16384 ∨ grid = 11585) :
    ∃ thr ph per, superRound grid sel = some (thr, ph, per) ∧
      (-536870912 ≤ thr ∧ thr ≤ 536870912) ∧ (-536870912 ≤ ph ∧ ph ≤ 536870912) ∧
      (0 < per ∧ per ≤ 2147483647) :=
  superRoundF_small grid _ _ _ hg (land15_range sel)

/-- `RoundState::round` in any state reachable from the default state by SROUND / S45ROUND,
on any distance: no trap. -/
theorem round_after_super_round_no_trap (grid sel mode d : Int) (hg : grid = 16384 ∨ grid = 11585) :
    ∃ thr ph per, superRound grid sel = some (thr, ph, per) ∧
      (roundStateRound mode thr ph per d).isSome := by
  obtain ⟨thr, ph, per, h, ht, hp, hper⟩ := superRound_small grid sel hg
  exact ⟨thr, ph, per, h, roundStateRound_no_trap mode thr ph per d ht hp hper⟩
/-- the default state `{threshold 0, phase 0, period 64}` -/
theorem round_default_state_no_trap (mode d : Int) : (roundStateRound mode 0 0 64 d).isSome :=
  roundStateRound_no_trap mode 0 0 64 d (by omega) (by omega) (by omega)

example : superRound 16384 0x48 = some (32, 0, 64) := by decide
example : superRound 11585 0x1B = some (19, 5, 22) := by decide

/-! ## read-fonts/src/tables/avar.rs -/

theorem fxSub_range (a b : Int) : I32 (fxSub a b) := wrap_i32_range _

/-- `SegmentMaps::apply`: F2Dot14 map entries, ANY 16.16 coordinate: no trap. -/
theorem avarGo_no_trap (coord : Int) (maps : List (Int × Int))
    (hmaps : ∀ m ∈ maps, I16 m.1 ∧ I16 m.2) (prev : Int × Int) (hprev : I16 prev.1 ∧ I16 prev.2)
    (first : Bool) : (avarGo coord maps prev first).isSome := by
  induction maps generalizing prev first with
  | nil => rfl
  | cons m rest ih =>
    obtain ⟨f, t⟩ := m
    have hm := hmaps (f, t) (by simp)
    have hrest : ∀ m ∈ rest, I16 m.1 ∧ I16 m.2 := fun m hm' => hmaps m (by simp [hm'])
    simp only [avarGo, f2ToFixed_eq f hm.1, f2ToFixed_eq t hm.2, f2ToFixed_eq _ hprev.1,
      f2ToFixed_eq _ hprev.2, Option.bind_eq_bind, Option.bind_some]
    split
    · rfl
    split
    · split
      · rfl
      · obtain ⟨q, hq⟩ := Option.isSome_iff_exists.mp
          (fxMulDiv_no_trap (fxSub (t * 4) (prev.2 * 4)) (fxSub coord (prev.1 * 4)) (fxSub (f * 4) (prev.1 * 4)))
        simp [hq]
    · exact ih hrest (f, t) hm false

theorem avarApply_no_trap (maps : List (Int × Int)) (coord : Int)
    (hmaps : ∀ m ∈ maps, I16 m.1 ∧ I16 m.2) : (avarApply maps coord).isSome :=
  avarGo_no_trap coord maps hmaps (0, 0) (by unfold I16; simp) true

example : avarApply [(-16384, -16384), (0, 0), (8192, 12288), (16384, 16384)] 16384 = some 24576 := by
  decide

/-! ## read-fonts/src/tables/variations.rs -/

/-- `scalar.mul_div(a, b)` with `0 ≤ scalar ≤ 1.0`, `0 ≤ a ≤ b`, `0 < b`: no trap and the result
stays in `[0, scalar]` — the tent scalar never grows. -/
theorem fxMulDiv_frac (s a b : Int) (hs : 0 ≤ s ∧ s ≤ 65536) (ha : 0 ≤ a ∧ a ≤ b)
    (hb : 0 < b ∧ b ≤ 524288) : ∃ r, fxMulDiv s a b = some r ∧ 0 ≤ r ∧ r ≤ s := by
  have hsu : u64Mag s = s := by
    unfold u64Mag; rw [if_neg (by omega)]; simp only [IntTy.cast]; apply wrap_u64_id; omega
  have hau : u64Mag a = a := by
    unfold u64Mag; rw [if_neg (by omega)]; simp only [IntTy.cast]; apply wrap_u64_id; omega
  have hbu : u64Mag b = b := by
    unfold u64Mag; rw [if_neg (by omega)]; simp only [IntTy.cast]; apply wrap_u64_id; omega
  have hs1 : negIf (decide (a < 0)) (if s < 0 then -1 else 1) = some 1 := by
    have : ¬ a < 0 := by omega
    simp [negIf, this]; omega
  have hs2 : negIf (decide (b < 0)) 1 = some 1 := by
    have : ¬ b < 0 := by omega
    simp [negIf, this]
  have hm := mul_bound_nonneg (a := s) (b := a) (A := 65536) (B := 524288) hs (by omega)
  have hle : s * a ≤ s * b := Int.mul_le_mul_of_nonneg_left ha.2 hs.1
  generalize hsa : s * a = sa at hm hle
  have hq0 : 0 ≤ (sa + b / 2) / b := Int.ediv_nonneg (by omega) (by omega)
  have hq1 : (sa + b / 2) / b < s + 1 := by
    apply Int.ediv_lt_of_lt_mul hb.1
    rw [Int.add_mul]; omega
  have hQ : fxMulDivQ s a b = some ((sa + b / 2) / b) := by
    unfold fxMulDivQ
    have hd : Int.tdiv (sa + b / 2) b = (sa + b / 2) / b := Int.tdiv_eq_ediv_of_nonneg (by omega)
    have h4 : u64.div (sa + b / 2) b = some ((sa + b / 2) / b) := by
      simp only [IntTy.div]; rw [if_neg (by omega), hd]; apply chk_u64; omega
    have hw1 : u64.wrap sa = sa := by apply wrap_u64_id; omega
    have hw2 : u64.wrap (sa + b / 2) = sa + b / 2 := by apply wrap_u64_id; omega
    rw [if_pos (by omega)]
    simp [shr_u64_1, IntTy.wrappingAdd, IntTy.wrappingMul, hsa, hw1, hw2, h4]
  refine ⟨(sa + b / 2) / b, ?_, hq0, by omega⟩
  have hc : i32.cast ((sa + b / 2) / b) = (sa + b / 2) / b := by
    simp only [IntTy.cast]; apply wrap_i32_id; omega
  simp [fxMulDiv, hsu, hau, hbu, hs1, hs2, hQ, hc]

theorem fxSub_small (a b : Int) (ha : -131072 ≤ a ∧ a ≤ 131072) (hb : -131072 ≤ b ∧ b ≤ 131072) :
    fxSub a b = a - b := by
  simp only [fxSub, IntTy.wrappingSub]; apply wrap_i32_id; omega

/-- `VariationRegion::compute_scalar`: for F2Dot14 region axes and coordinates no operation traps
and the scalar stays within `[0, 1.0]` (so that `compute_delta` cannot overflow its i64
accumulator, below). -/
theorem regionScalarGo_bounded (axes : List (Int × Int × Int)) (coords : List Int) (scalar : Int)
    (haxes : ∀ a ∈ axes, I16 a.1 ∧ I16 a.2.1 ∧ I16 a.2.2) (hcoords : ∀ c ∈ coords, I16 c)
    (hs : 0 ≤ scalar ∧ scalar ≤ 65536) :
    ∃ r, regionScalarGo axes coords scalar = some r ∧ 0 ≤ r ∧ r ≤ 65536 := by
  induction axes generalizing coords scalar with
  | nil => exact ⟨scalar, rfl, hs⟩
  | cons ax rest ih =>
    obtain ⟨st, pk, en⟩ := ax
    have hax := haxes (st, pk, en) (by simp)
    have hrest : ∀ a ∈ rest, I16 a.1 ∧ I16 a.2.1 ∧ I16 a.2.2 := fun a h => haxes a (by simp [h])
    have htail : ∀ c ∈ coords.tail, I16 c := fun c h => hcoords c (List.mem_of_mem_tail h)
    -- the coordinate for this axis
    have hcoord : ∃ c, I16 c ∧ coordHead coords = some (c * 4) := by
      cases coords with
      | nil => exact ⟨0, by unfold I16; omega, rfl⟩
      | cons c cs => exact ⟨c, hcoords c (by simp), f2ToFixed_eq c (hcoords c (by simp))⟩
    obtain ⟨c, hc, hceq⟩ := hcoord
    obtain ⟨h1, h2, h3⟩ := hax
    simp only [] at h1 h2 h3
    unfold I16 at h1 h2 h3 hc
    simp only [regionScalarGo, hceq, f2ToFixed_eq st h1, f2ToFixed_eq en h3, f2ToFixed_eq pk h2,
      Option.bind_eq_bind, Option.bind_some]
    split
    · exact ih coords.tail scalar hrest htail hs
    split
    · exact ⟨0, rfl, by omega, by omega⟩
    split
    · exact ih coords.tail scalar hrest htail hs
    split
    · rename_i hn1 hn2 hn3 hlt
      have e1 := fxSub_small (c * 4) (st * 4) (by omega) (by omega)
      have e2 := fxSub_small (pk * 4) (st * 4) (by omega) (by omega)
      obtain ⟨r, hr, hr0, hr1⟩ := fxMulDiv_frac scalar (fxSub (c * 4) (st * 4)) (fxSub (pk * 4) (st * 4)) hs
        (by rw [e1, e2]; omega) (by rw [e2]; omega)
      simp only [hr, Option.bind_some]
      exact ih coords.tail r hrest htail (by omega)
    · rename_i hn1 hn2 hn3 hlt
      have e1 := fxSub_small (en * 4) (c * 4) (by omega) (by omega)
      have e2 := fxSub_small (en * 4) (pk * 4) (by omega) (by omega)
      obtain ⟨r, hr, hr0, hr1⟩ := fxMulDiv_frac scalar (fxSub (en * 4) (c * 4)) (fxSub (en * 4) (pk * 4)) hs
        (by rw [e1, e2]; omega) (by rw [e2]; omega)
      simp only [hr, Option.bind_some]
      exact ih coords.tail r hrest htail (by omega)

theorem regionScalar_no_trap (axes : List (Int × Int × Int)) (coords : List Int)
    (haxes : ∀ a ∈ axes, I16 a.1 ∧ I16 a.2.1 ∧ I16 a.2.2) (hcoords : ∀ c ∈ coords, I16 c) :
    (regionScalar axes coords).isSome := by
  obtain ⟨r, hr, _⟩ := regionScalarGo_bounded axes coords 65536 haxes hcoords (by omega)
  simp [regionScalar, hr]

/-- `ItemVariationStore::compute_delta`: for at most 65535 delta columns (the count is a u16),
any i32 deltas (long-word rows) and F2Dot14 regions/coordinates, the i64 accumulator
`accum += region_delta as i64 * scalar as i64` and the final `accum + 0x8000` cannot overflow:
`65535 · 2^31 · 2^16 + 2^15 < 2^63`. -/
theorem computeDeltaGo_no_trap (coords : List Int) (hcoords : ∀ c ∈ coords, I16 c)
    (cols : List (List (Int × Int × Int) × Int))
    (hcols : ∀ col ∈ cols, (∀ a ∈ col.1, I16 a.1 ∧ I16 a.2.1 ∧ I16 a.2.2) ∧ I32 col.2)
    (accum K : Int) (hacc : -K ≤ accum ∧ accum ≤ K)
    (hK : 0 ≤ K ∧ K + cols.length * 140737488355328 ≤ 9223372036854743039) :
    (computeDeltaGo coords cols accum).isSome := by
  induction cols generalizing accum K with
  | nil =>
    have h1 : i64.add accum 32768 = some (accum + 32768) := by
      simp only [IntTy.add]; apply chk_i64; simp at hK; omega
    simp [computeDeltaGo, deltaFinish, h1, shr_i64_16]
  | cons col rest ih =>
    obtain ⟨axes, d⟩ := col
    obtain ⟨hax, hd⟩ := hcols (axes, d) (by simp)
    have hrest : ∀ col ∈ rest, (∀ a ∈ col.1, I16 a.1 ∧ I16 a.2.1 ∧ I16 a.2.2) ∧ I32 col.2 :=
      fun c h => hcols c (by simp [h])
    obtain ⟨sc, hsc, hsc0, hsc1⟩ := regionScalarGo_bounded axes coords 65536 hax hcoords (by omega)
    simp only [] at hd
    unfold I32 at hd
    have hm := mul_bound (a := d) (b := sc) (A := 2147483648) (B := 65536) (by omega) (by omega)
    generalize hp : d * sc = p at hm
    simp only [List.length_cons] at hK
    have hlen : (0 : Int) ≤ (rest.length : Int) := by omega
    have hK' : K + (rest.length : Int) * 140737488355328 + 140737488355328 ≤ 9223372036854743039 := by
      have : ((rest.length + 1 : Nat) : Int) * 140737488355328
          = (rest.length : Int) * 140737488355328 + 140737488355328 := by
        rw [Int.natCast_add, Int.add_mul]; simp
      omega
    have h1 : i64.mul d sc = some p := by simp only [IntTy.mul, hp]; apply chk_i64; omega
    have h2 : i64.add accum p = some (accum + p) := by
      simp only [IntTy.add]; apply chk_i64; omega
    simp only [computeDeltaGo, regionScalar, hsc, h1, h2, Option.bind_eq_bind, Option.bind_some]
    exact ih hrest (accum + p) (K + 140737488355328) (by omega) (by omega)

theorem computeDelta_no_trap (cols : List (List (Int × Int × Int) × Int)) (coords : List Int)
    (hcoords : ∀ c ∈ coords, I16 c)
    (hcols : ∀ col ∈ cols, (∀ a ∈ col.1, I16 a.1 ∧ I16 a.2.1 ∧ I16 a.2.2) ∧ I32 col.2)
    (hlen : cols.length ≤ 65535) : (computeDelta cols coords).isSome := by
  unfold computeDelta
  split
  · rfl
  · apply computeDeltaGo_no_trap coords hcoords cols hcols 0 0 (by omega)
    have : (cols.length : Int) ≤ 65535 := by omega
    omega

/-- `item_delta` / `advance_delta` = `Fixed::from_i32(compute_delta(..))`: no trap (the shift
drops the high bits — that wrap is C11's known finding, not a trap). -/
theorem itemDelta_no_trap (cols : List (List (Int × Int × Int) × Int)) (coords : List Int)
    (hcoords : ∀ c ∈ coords, I16 c)
    (hcols : ∀ col ∈ cols, (∀ a ∈ col.1, I16 a.1 ∧ I16 a.2.1 ∧ I16 a.2.2) ∧ I32 col.2)
    (hlen : cols.length ≤ 65535) : (itemDelta cols coords).isSome := by
  obtain ⟨v, hv⟩ := Option.isSome_iff_exists.mp (computeDelta_no_trap cols coords hcoords hcols hlen)
  have := fxFromI32_no_trap v
  simp [itemDelta, hv, this]

/-- the worst case is attained within the bound: 65535 columns of `i32::MIN` at scalar 1.0 -/
example : computeDelta [([(0, 16384, 16384)], -2147483648), ([(0, 16384, 16384)], -2147483648)] [16384]
    = some 0 := by decide

theorem getD_I16 (l : List Int) (h : ∀ c ∈ l, I16 c) (i : Nat) : I16 (l.getD i 0) := by
  rw [List.getD_eq_getElem?_getD]
  cases hg : l[i]? with
  | none => unfold I16; simp
  | some v => exact h v (List.mem_of_getElem? hg)

/-- `TupleVariation::compute_scalar` (gvar / cvar tuples): F2Dot14 peak / intermediate tuples and
coordinates; every `mul_div` is total, every `to_fixed` in range: no trap. -/
theorem tupleScalarGo_no_trap (inter : Option (List Int × List Int)) (coords : List Int)
    (hcoords : ∀ c ∈ coords, I16 c)
    (hinter : ∀ p, inter = some p → (∀ c ∈ p.1, I16 c) ∧ (∀ c ∈ p.2, I16 c))
    (peaks : List Int) (hpeaks : ∀ c ∈ peaks, I16 c) (i : Nat) (scalar : Int) :
    (tupleScalarGo inter coords peaks i scalar).isSome := by
  induction peaks generalizing i scalar with
  | nil => simp [tupleScalarGo]
  | cons pk rest ih =>
    have hpk := hpeaks pk (by simp)
    have hrest : ∀ c ∈ rest, I16 c := fun c h => hpeaks c (by simp [h])
    have hc := getD_I16 coords hcoords i
    unfold tupleScalarGo
    split
    · exact ih hrest _ _
    simp only [f2ToFixed_eq pk hpk, f2ToFixed_eq _ hc, Option.bind_eq_bind, Option.bind_some]
    split
    · exact ih hrest _ _
    split
    · rfl
    · cases inter with
      | none =>
        simp only []
        split
        · rfl
        · obtain ⟨q, hq⟩ := Option.isSome_iff_exists.mp (fxMulDiv_no_trap scalar (coords.getD i 0 * 4) (pk * 4))
          simp only [hq, Option.bind_some]
          exact ih hrest _ _
      | some p =>
        obtain ⟨starts, ends⟩ := p
        obtain ⟨hst, hen⟩ := hinter (starts, ends) rfl
        have h1 := getD_I16 starts hst i
        have h2 := getD_I16 ends hen i
        simp only [f2ToFixed_eq _ h1, f2ToFixed_eq _ h2, Option.bind_some]
        split
        · rfl
        split
        · obtain ⟨q, hq⟩ := Option.isSome_iff_exists.mp (fxMulDiv_no_trap scalar
            (fxSub (coords.getD i 0 * 4) (starts.getD i 0 * 4)) (fxSub (pk * 4) (starts.getD i 0 * 4)))
          simp only [hq, Option.bind_some]
          exact ih hrest _ _
        · obtain ⟨q, hq⟩ := Option.isSome_iff_exists.mp (fxMulDiv_no_trap scalar
            (fxSub (ends.getD i 0 * 4) (coords.getD i 0 * 4)) (fxSub (ends.getD i 0 * 4) (pk * 4)))
          simp only [hq, Option.bind_some]
          exact ih hrest _ _

theorem tupleScalar_no_trap (peaks : List Int) (inter : Option (List Int × List Int))
    (coords : List Int) (hpeaks : ∀ c ∈ peaks, I16 c) (hcoords : ∀ c ∈ coords, I16 c)
    (hinter : ∀ p, inter = some p → (∀ c ∈ p.1, I16 c) ∧ (∀ c ∈ p.2, I16 c)) :
    (tupleScalar peaks inter coords).isSome :=
  tupleScalarGo_no_trap inter coords hcoords hinter peaks hpeaks 0 65536

/-! ## read-fonts/src/tables/fvar.rs — `VariationAxisRecord::normalize` -/

theorem sat_i32_range (x : Int) : I32 (i32.sat x) := by
  unfold I32; simp only [IntTy.sat, i32]
  by_cases h1 : x < -2147483648
  · simp [h1]
  · by_cases h2 : x > 2147483647
    · simp [h1, h2]
    · simp [h1, h2]; omega

/-- `normalize`: saturating subtractions, the (total) `Div`, the wrapping `Neg`: no trap for any
axis record and any user value. -/
theorem normalizeAxis_no_trap (minV defV maxV value : Int) : (normalizeAxis minV defV maxV value).isSome := by
  have hr : ∀ a b c d, (normalizeRatio a b c d).isSome := by
    intro a b c d
    unfold normalizeRatio
    split
    · obtain ⟨q, hq⟩ := Option.isSome_iff_exists.mp
        (fxDiv_no_trap _ _ (sat_i32_range (b - d)) (sat_i32_range (b - a)))
      simp only [IntTy.saturatingSub, hq, Option.bind_eq_bind, Option.bind_some]; rfl
    · split
      · exact fxDiv_no_trap _ _ (sat_i32_range _) (sat_i32_range _)
      · rfl
  obtain ⟨r, hr'⟩ := Option.isSome_iff_exists.mp (hr minV defV (imax maxV minV) (clampI value minV (imax maxV minV)))
  simp [normalizeAxis, hr', fxNeg]

theorem axisNormalize_no_trap (minV defV maxV value : Int) : (axisNormalize minV defV maxV value).isSome := by
  obtain ⟨r, hr⟩ := Option.isSome_iff_exists.mp (normalizeAxis_no_trap minV defV maxV value)
  have := fxToF2Dot14_no_trap r
  simp [axisNormalize, hr, this]

example : normalizeAxis (100 * 65536) (400 * 65536) (900 * 65536) (650 * 65536) = some 32768 := by decide
example : normalizeAxis (-2147483648) 0 2147483647 (-2147483648) = some (-65536) := by decide

/-! ## read-fonts/src/tables/cmap.rs — `Cmap4` -/

def U16 (x : Int) : Prop := 0 ≤ x ∧ x ≤ 65535

/-- the glyph id array index: `codepoint - start_code` is a raw u16 subtraction; both callers
(`map_codepoint`'s binary search and the iterator) only pass `start_code ≤ codepoint`. -/
theorem cmap4Offset_no_trap (ro cp st n i : Int) (hro : U16 ro) (hcp : U16 cp) (hst : 0 ≤ st ∧ st ≤ cp)
    (hi : 0 ≤ i ∧ i < n) (hn : n ≤ 65535) : (cmap4Offset ro cp st n i).isSome := by
  unfold U16 at hro hcp
  have hb := tdiv_bounds (n := ro) (d := 2) (by omega)
  have h1 : usize.div ro 2 = some (Int.tdiv ro 2) := by
    simp only [IntTy.div]; rw [if_neg (by omega)]; apply chk_usize; omega
  have h2 : u16.sub cp st = some (cp - st) := by simp only [IntTy.sub]; apply chk_u16; omega
  have h3 : usize.add (Int.tdiv ro 2) (cp - st) = some (Int.tdiv ro 2 + (cp - st)) := by
    simp only [IntTy.add]; apply chk_usize; omega
  have h4 : usize.sub n i = some (n - i) := by simp only [IntTy.sub]; apply chk_usize; omega
  simp [cmap4Offset, h1, h2, h3, h4]
/-- witness of the excluded case (no caller reaches it) -/
theorem cmap4Offset_traps_at : cmap4Offset 2 0 1 1 0 = none := by decide

theorem cmap4AddDelta_no_trap (x d : Int) (hx : U16 x) (hd : I16 d) : (cmap4AddDelta x d).isSome := by
  unfold U16 at hx; unfold I16 at hd
  have : i32.add x d = some (x + d) := by simp only [IntTy.add]; apply chk_i32; omega
  simp [cmap4AddDelta, this]

theorem getElemOpt_all {P : Int → Prop} (l : List Int) (h : ∀ c ∈ l, P c) (i : Nat) (v : Int)
    (hv : l[i]? = some v) : P v := h v (List.mem_of_getElem? hv)

theorem cmap4Lookup_no_trap (deltas ros gids : List Int) (cp i st : Int)
    (hd : ∀ c ∈ deltas, I16 c) (hr : ∀ c ∈ ros, U16 c) (hg : ∀ c ∈ gids, U16 c)
    (hcp : U16 cp) (hst : 0 ≤ st ∧ st ≤ cp) (hi : 0 ≤ i) (hlen : ros.length ≤ 65535) :
    (cmap4Lookup deltas ros gids cp i st).isSome := by
  unfold cmap4Lookup
  split
  · rename_i d ro hde hro
    have hdI := getElemOpt_all deltas hd _ _ hde
    have hroU := getElemOpt_all ros hr _ _ hro
    have hlt : i.toNat < ros.length := by
      have := List.getElem?_eq_some_iff.mp hro; exact this.1
    split
    · obtain ⟨v, hv⟩ := Option.isSome_iff_exists.mp (cmap4AddDelta_no_trap cp d hcp hdI); simp [hv]
    · obtain ⟨off, hoff⟩ := Option.isSome_iff_exists.mp
        (cmap4Offset_no_trap ro cp st ros.length i hroU hcp hst ⟨hi, by omega⟩ (by omega))
      simp only [hoff]
      split
      · rfl
      · rename_i gid hgid
        have hgU := getElemOpt_all gids hg _ _ hgid
        split
        · obtain ⟨v, hv⟩ := Option.isSome_iff_exists.mp (cmap4AddDelta_no_trap gid d hgU hdI); simp [hv]
        · rfl
  · rfl

/-- `Cmap4::map_codepoint`: the binary search indices stay below the segment count and the lookup
precondition `start_code ≤ codepoint` is established by the comparison: no trap for any subtable
arrays and any 16-bit code point. -/
theorem cmap4MapGo_no_trap (starts ends deltas ros gids : List Int) (cp : Int)
    (hs : ∀ c ∈ starts, U16 c) (he : ∀ c ∈ ends, U16 c)
    (hd : ∀ c ∈ deltas, I16 c) (hr : ∀ c ∈ ros, U16 c) (hg : ∀ c ∈ gids, U16 c)
    (hcp : U16 cp) (hlen : ros.length ≤ 65535) (fuel : Nat) (lo hi : Int)
    (hlo : 0 ≤ lo) (hhi : hi ≤ 65535) :
    (cmap4MapGo starts ends deltas ros gids cp fuel lo hi).isSome := by
  induction fuel generalizing lo hi with
  | zero => rfl
  | succ f ih =>
    unfold cmap4MapGo
    split
    · rename_i hlt
      have h1 : usize.add lo hi = some (lo + hi) := by simp only [IntTy.add]; apply chk_usize; omega
      have hb := tdiv_bounds (n := lo + hi) (d := 2) (by omega)
      have hq : Int.tdiv (lo + hi) 2 = (lo + hi) / 2 := Int.tdiv_eq_ediv_of_nonneg (by omega)
      have h2 : usize.div (lo + hi) 2 = some ((lo + hi) / 2) := by
        simp only [IntTy.div]; rw [if_neg (by omega), hq]; apply chk_usize; omega
      simp only [h1, h2]
      split
      · rfl
      · rename_i st hst
        have hstU := getElemOpt_all starts hs _ _ hst
        unfold U16 at hstU
        split
        · exact ih lo ((lo + hi) / 2) hlo (by omega)
        · split
          · rfl
          · split
            · have h3 : usize.add ((lo + hi) / 2) 1 = some ((lo + hi) / 2 + 1) := by
                simp only [IntTy.add]; apply chk_usize; omega
              simp only [h3]
              exact ih ((lo + hi) / 2 + 1) hi (by omega) hhi
            · exact cmap4Lookup_no_trap deltas ros gids cp _ st hd hr hg hcp ⟨hstU.1, by omega⟩
                (by omega) hlen
    · rfl

theorem cmap4Map_no_trap (sc2 : Int) (starts ends deltas ros gids : List Int) (cp : Int)
    (hsc : U16 sc2) (hs : ∀ c ∈ starts, U16 c) (he : ∀ c ∈ ends, U16 c)
    (hd : ∀ c ∈ deltas, I16 c) (hr : ∀ c ∈ ros, U16 c) (hg : ∀ c ∈ gids, U16 c)
    (hcp : U16 cp) (hlen : ros.length ≤ 65535) :
    (cmap4Map sc2 starts ends deltas ros gids cp).isSome := by
  unfold U16 at hsc
  have hb := tdiv_bounds (n := sc2) (d := 2) (by omega)
  have h2 : usize.div sc2 2 = some (Int.tdiv sc2 2) := by
    simp only [IntTy.div]; rw [if_neg (by omega)]; apply chk_usize; omega
  simp only [cmap4Map, h2]
  exact cmap4MapGo_no_trap starts ends deltas ros gids cp hs he hd hr hg hcp hlen 40 0 _ (by omega) (by omega)

example : cmap4Map 4 [65, 65535] [90, 65535] [-64, 1] [0, 0] [] 66 = some (some 2) := by decide

/-! ## read-fonts/src/tables/glyf.rs — simple glyph decoding -/

/-- one accumulation step of `resolve_coords_len`: for at most 65535 points in total the u32
lengths cannot overflow (invariant `len + 2·flags_left ≤ 2·65535`). -/
theorem coordsLenStep_no_trap (xs xl ys yl rep xLen yLen fl : Int)
    (hx : (xs = 0 ∨ xs = 1) ∧ (xl = 0 ∨ xl = 1) ∧ xs + xl ≤ 1)
    (hy : (ys = 0 ∨ ys = 1) ∧ (yl = 0 ∨ yl = 1) ∧ ys + yl ≤ 1)
    (hrep : 1 ≤ rep ∧ rep ≤ fl) (hfl : fl ≤ 65535)
    (hxl : 0 ≤ xLen ∧ xLen + 2 * fl ≤ 131070) (hyl : 0 ≤ yLen ∧ yLen + 2 * fl ≤ 131070) :
    ∃ x2 y2 fl2, coordsLenStep xs xl ys yl rep xLen yLen fl = some (x2, y2, fl2) ∧
      fl2 = fl - rep ∧ (0 ≤ x2 ∧ x2 + 2 * fl2 ≤ 131070) ∧ (0 ≤ y2 ∧ y2 + 2 * fl2 ≤ 131070) := by
  have key : ∀ (a b len : Int), (a = 0 ∨ a = 1) → (b = 0 ∨ b = 1) → a + b ≤ 1 →
      (0 ≤ len ∧ len + 2 * fl ≤ 131070) →
      ∃ r, (do let p ← u32.mul a rep; let l1 ← u32.add len p; let q0 ← u32.mul b rep
               let q ← u32.mul q0 2; u32.add l1 q) = some r ∧ 0 ≤ r ∧ r + 2 * (fl - rep) ≤ 131070 := by
    intro a b len ha hb hab hlen
    rcases ha with ha | ha <;> rcases hb with hb | hb <;> subst ha <;> subst hb
    · refine ⟨len, ?_, by omega, by omega⟩
      have e1 : u32.add len 0 = some len := by simp only [IntTy.add, Int.add_zero]; apply chk_u32; omega
      simp [IntTy.mul, chk_u32, e1]
    · refine ⟨len + rep * 2, ?_, by omega, by omega⟩
      have e0 : u32.chk 0 = some 0 := chk_u32 (by omega)
      have e1 : u32.add len 0 = some len := by simp only [IntTy.add, Int.add_zero]; apply chk_u32; omega
      have e2 : u32.chk rep = some rep := chk_u32 (by omega)
      have e3 : u32.chk (rep * 2) = some (rep * 2) := chk_u32 (by omega)
      have e4 : u32.add len (rep * 2) = some (len + rep * 2) := by
        simp only [IntTy.add]; apply chk_u32; omega
      simp [IntTy.mul, e0, e1, e2, e3, e4]
    · refine ⟨len + rep, ?_, by omega, by omega⟩
      have e0 : u32.chk 0 = some 0 := chk_u32 (by omega)
      have e2 : u32.chk rep = some rep := chk_u32 (by omega)
      have e4 : u32.add len rep = some (len + rep) := by simp only [IntTy.add]; apply chk_u32; omega
      have e5 : u32.add (len + rep) 0 = some (len + rep) := by
        simp only [IntTy.add, Int.add_zero]; apply chk_u32; omega
      simp [IntTy.mul, e0, e2, e4, e5]
    · omega
  obtain ⟨x2, hx2, hx2r⟩ := key xs xl xLen hx.1 hx.2.1 hx.2.2 hxl
  obtain ⟨y2, hy2, hy2r⟩ := key ys yl yLen hy.1 hy.2.1 hy.2.2 hyl
  have hfl2 : u32.sub fl rep = some (fl - rep) := by simp only [IntTy.sub]; apply chk_u32; omega
  refine ⟨x2, y2, fl - rep, ?_, rfl, hx2r, hy2r⟩
  simp only [Option.bind_eq_bind] at hx2 hy2
  unfold coordsLenStep
  simp only [Option.bind_eq_bind]
  cases h1 : u32.mul xs rep with
  | none => simp [h1] at hx2
  | some a =>
    simp only [h1, Option.bind_some] at hx2 ⊢
    cases h2 : u32.add xLen a with
    | none => simp [h2] at hx2
    | some x1 =>
      simp only [h2, Option.bind_some] at hx2 ⊢
      cases h3 : u32.mul xl rep with
      | none => simp [h3] at hx2
      | some b0 =>
        simp only [h3, Option.bind_some] at hx2 ⊢
        cases h4 : u32.mul b0 2 with
        | none => simp [h4] at hx2
        | some b =>
          simp only [h4, Option.bind_some] at hx2 ⊢
          simp only [hx2, Option.bind_some]
          cases g1 : u32.mul ys rep with
          | none => simp [g1] at hy2
          | some c =>
            simp only [g1, Option.bind_some] at hy2 ⊢
            cases g2 : u32.add yLen c with
            | none => simp [g2] at hy2
            | some y1 =>
              simp only [g2, Option.bind_some] at hy2 ⊢
              cases g3 : u32.mul yl rep with
              | none => simp [g3] at hy2
              | some d0 =>
                simp only [g3, Option.bind_some] at hy2 ⊢
                cases g4 : u32.mul d0 2 with
                | none => simp [g4] at hy2
                | some d =>
                  simp only [g4, Option.bind_some] at hy2 ⊢
                  simp [hy2, hfl2]

/-- one loop iteration of `resolve_coords_len` keeps the invariant and cannot trap -/
theorem resolveByte_no_trap (f : Int) (rest : List Int) (hrest : ∀ b ∈ rest, 0 ≤ b ∧ b ≤ 255)
    (xLen yLen fl : Int) (hfl : fl ≤ 65535)
    (hxl : 0 ≤ xLen ∧ xLen + 2 * fl ≤ 131070) (hyl : 0 ≤ yLen ∧ yLen + 2 * fl ≤ 131070) :
    resolveByte f rest xLen yLen fl = some none ∨
    ∃ x2 y2 fl2 rest' c, resolveByte f rest xLen yLen fl = some (some (x2, y2, fl2, rest', c)) ∧
      (∀ b ∈ rest', 0 ≤ b ∧ b ≤ 255) ∧ fl2 ≤ 65535 ∧
      (0 ≤ x2 ∧ x2 + 2 * fl2 ≤ 131070) ∧ (0 ≤ y2 ∧ y2 + 2 * fl2 ≤ 131070) := by
  unfold resolveByte
  simp only []
  split
  · exact Or.inl rfl
  · rename_i r hr
    have hrR : 0 ≤ r ∧ r ≤ 255 := by
      split at hr
      · cases rest with
        | nil => simp at hr
        | cons a t => simp at hr; subst hr; exact hrest a (by simp)
      · simp at hr; omega
    have hadd : u32.add r 1 = some (r + 1) := by simp only [IntTy.add]; apply chk_u32; omega
    split
    · rename_i hnone
      split at hnone
      · simp [hadd] at hnone
      · simp at hnone
    · rename_i repeats hrep
      have hrepR : 1 ≤ repeats ∧ repeats ≤ 256 := by
        split at hrep
        · simp [hadd] at hrep; omega
        · simp at hrep; omega
      split
      · exact Or.inl rfl
      · rename_i hle
        have hx : ((if flagBit f 1 then (1 : Int) else 0) = 0 ∨ (if flagBit f 1 then (1 : Int) else 0) = 1) ∧
            ((if ¬ flagBit f 1 ∧ ¬ flagBit f 4 then (1 : Int) else 0) = 0 ∨
             (if ¬ flagBit f 1 ∧ ¬ flagBit f 4 then (1 : Int) else 0) = 1) ∧
            (if flagBit f 1 then (1 : Int) else 0) + (if ¬ flagBit f 1 ∧ ¬ flagBit f 4 then (1 : Int) else 0) ≤ 1 := by
          cases flagBit f 1 <;> cases flagBit f 4 <;> simp
        have hy : ((if flagBit f 2 then (1 : Int) else 0) = 0 ∨ (if flagBit f 2 then (1 : Int) else 0) = 1) ∧
            ((if ¬ flagBit f 2 ∧ ¬ flagBit f 5 then (1 : Int) else 0) = 0 ∨
             (if ¬ flagBit f 2 ∧ ¬ flagBit f 5 then (1 : Int) else 0) = 1) ∧
            (if flagBit f 2 then (1 : Int) else 0) + (if ¬ flagBit f 2 ∧ ¬ flagBit f 5 then (1 : Int) else 0) ≤ 1 := by
          cases flagBit f 2 <;> cases flagBit f 5 <;> simp
        obtain ⟨x2, y2, fl2, hstep, hfl2, hx2, hy2⟩ :=
          coordsLenStep_no_trap _ _ _ _ repeats xLen yLen fl hx hy ⟨hrepR.1, by omega⟩ hfl hxl hyl
        refine Or.inr ⟨x2, y2, fl2, (if flagBit f 3 = true then rest.tail else rest),
          (if flagBit f 3 = true then 2 else 1), ?_, ?_, by omega, hx2, hy2⟩
        · simp only [hstep]
        · intro b hbm
          split at hbm
          · exact hrest b (List.mem_of_mem_tail hbm)
          · exact hrest b hbm

/-- `resolve_coords_len`: for any flag bytes and any point count (a u16) no u32 operation traps. -/
theorem resolveCoordsLenGo_no_trap (fuel : Nat) (bytes : List Int) (hb : ∀ b ∈ bytes, 0 ≤ b ∧ b ≤ 255)
    (pos xLen yLen fl : Int) (hfl : fl ≤ 65535)
    (hxl : 0 ≤ xLen ∧ xLen + 2 * fl ≤ 131070) (hyl : 0 ≤ yLen ∧ yLen + 2 * fl ≤ 131070) :
    (resolveCoordsLenGo fuel bytes pos xLen yLen fl).isSome := by
  induction fuel generalizing bytes pos xLen yLen fl with
  | zero => rfl
  | succ n ih =>
    unfold resolveCoordsLenGo
    split
    · rfl
    · cases bytes with
      | nil => rfl
      | cons f rest =>
        have hrest : ∀ b ∈ rest, 0 ≤ b ∧ b ≤ 255 := fun b h => hb b (by simp [h])
        rcases resolveByte_no_trap f rest hrest xLen yLen fl hfl hxl hyl with h | h
        · simp only [h]; rfl
        · obtain ⟨x2, y2, fl2, rest', c, h, hr', hfl2, hx2, hy2⟩ := h
          simp only [h]
          exact ih rest' hr' _ x2 y2 fl2 hfl2 hx2 hy2

theorem resolveCoordsLen_no_trap (bytes : List Int) (hb : ∀ b ∈ bytes, 0 ≤ b ∧ b ≤ 255)
    (total : Int) (ht : 0 ≤ total ∧ total ≤ 65535) : (resolveCoordsLen bytes total).isSome :=
  resolveCoordsLenGo_no_trap _ bytes hb 0 0 0 total ht.2 (by omega) (by omega)

example : resolveCoordsLen [0x09, 0xFF, 0x37] 257 = some (some (3, 513, 513)) := by decide

/-- `PointIter::advance_flags`: `repeat as u16 + 1` and `flag_repeats -= 1` -/
theorem advanceFlagsCount_no_trap (fr rb : Int) (hfr : 0 ≤ fr ∧ fr ≤ 256) (hrb : 0 ≤ rb ∧ rb ≤ 255) :
    (advanceFlagsCount fr rb).isSome := by
  unfold advanceFlagsCount
  by_cases h : fr = 0
  · have e1 : u16.add rb 1 = some (rb + 1) := by simp only [IntTy.add]; apply chk_u16; omega
    have e2 : u16.sub (rb + 1) 1 = some (rb + 1 - 1) := by simp only [IntTy.sub]; apply chk_u16; omega
    simp [h, e1, e2]
  · have e2 : u16.sub fr 1 = some (fr - 1) := by simp only [IntTy.sub]; apply chk_u16; omega
    simp [h, e2]

/-- point coordinate accumulation: short deltas are bytes (their negation cannot overflow), the
running coordinate is `wrapping_add`. -/
theorem pointIterAxis_no_trap (short same : Bool) (raw cur : Int)
    (h : short = true → 0 ≤ raw ∧ raw ≤ 255) : (pointIterAxis short same raw cur).isSome := by
  unfold pointIterAxis
  cases short <;> cases same <;> simp
  have := h rfl
  have e : i16.neg raw = some (-raw) := by simp only [IntTy.neg]; apply chk_i16; omega
  simp [e]
theorem readFastAxis_no_trap (short same : Bool) (raw cur : Int)
    (h : short = true → 0 ≤ raw ∧ raw ≤ 255) : (readFastAxis short same raw cur).isSome := by
  unfold readFastAxis
  cases short <;> cases same <;> simp
  have := h rfl
  have e : i32.neg raw = some (-raw) := by simp only [IntTy.neg]; apply chk_i32; omega
  simp [e]

theorem decodeAxis_no_trap (step : Bool → Bool → Int → Int → Option Int)
    (hstep : ∀ sh sa raw cur, (sh = true → 0 ≤ raw ∧ raw ≤ 255) → (step sh sa raw cur).isSome)
    (pts : List (Bool × Bool × Int)) (hp : ∀ p ∈ pts, p.1 = true → 0 ≤ p.2.2 ∧ p.2.2 ≤ 255) (cur : Int) :
    (decodeAxis step pts cur).isSome := by
  induction pts generalizing cur with
  | nil => rfl
  | cons p rest ih =>
    obtain ⟨sh, sa, raw⟩ := p
    obtain ⟨c, hc⟩ := Option.isSome_iff_exists.mp (hstep sh sa raw cur (hp (sh, sa, raw) (by simp)))
    have := ih (fun q hq => hp q (by simp [hq])) c
    obtain ⟨l, hl⟩ := Option.isSome_iff_exists.mp this
    simp [decodeAxis, hc, hl]

example : decodeAxis pointIterAxis [(true, false, 255), (false, false, -32768)] 0 = some [-255, 32513] := by
  decide

/-! ## cvar deltas and the hinting CVT -/

theorem fxFromI32_range (d v : Int) (h : fxFromI32 d = some v) : I32 v := by
  simp only [fxFromI32, shl_i32_16] at h
  cases h; exact wrap_i32_range _

/-- `Cvar::deltas` (after fix be803b9): `wrapping_add` of `Fixed::from_i32(delta) * scalar`. -/
theorem cvarAccum_no_trap (terms : List (Int × Int)) (h : ∀ t ∈ terms, I32 t.2) (acc : Int) :
    (cvarAccum terms acc).isSome := by
  induction terms generalizing acc with
  | nil => rfl
  | cons t rest ih =>
    obtain ⟨d, sc⟩ := t
    obtain ⟨fd, hfd⟩ := Option.isSome_iff_exists.mp (fxFromI32_no_trap d)
    obtain ⟨m, hm⟩ := Option.isSome_iff_exists.mp
      (fxMul_no_trap fd sc (fxFromI32_range d fd hfd) (h (d, sc) (by simp)))
    simp only [cvarAccum, hfd, hm]
    exact ih (fun t ht => h t (by simp [ht])) _

/-- before the fix the accumulation was a raw `+=`: two tuples of 16384 units at scalar 1.0 -/
theorem cvarAccumPreFix_traps_at : cvarAccumPreFix [(16384, 65536), (16384, 65536)] 0 = none := by
  decide
example : cvarAccum [(16384, 65536), (16384, 65536)] 0 = some (-2147483648) := by decide

/-- `HintInstance::setup`: `base as i32 * 64 + to_f26dot6(delta)` — both summands are below 2^21
in magnitude — then the scale multiplication. -/
theorem cvtSetup_no_trap (base acc scale : Int) (hb : I16 base) (ha : I32 acc) (hs : I32 scale) :
    (cvtSetup base acc scale).isSome := by
  unfold I16 at hb; unfold I32 at ha hs
  have hw := wrap_i32_range (acc + 512)
  have h1 : fxToF26Dot6 acc = some (i32.wrap (acc + 512) / 1024) := by
    simp only [fxToF26Dot6, IntTy.wrappingAdd]; exact shr_some i32 _ 10 (by decide)
  have hc : i32.cast base = base := by simp only [IntTy.cast]; apply wrap_i32_id; omega
  have h2 : i32.mul (i32.cast base) 64 = some (base * 64) := by
    simp only [hc, IntTy.mul]; apply chk_i32; omega
  generalize i32.wrap (acc + 512) = w at hw h1
  have h3 : i32.add (base * 64) (w / 1024) = some (base * 64 + w / 1024) := by
    simp only [IntTy.add]; apply chk_i32; omega
  have h4 : i32.shr scale 6 = some (scale / 64) := shr_some i32 scale 6 (by decide)
  obtain ⟨m, hm⟩ := Option.isSome_iff_exists.mp
    (fxMul_no_trap (base * 64 + w / 1024) (scale / 64) (by unfold I32; omega) (by unfold I32; omega))
  simp [cvtSetup, h1, h2, h3, h4, hm]

/-! ## klippa/src/glyf_loca.rs -/

theorem paddedSize_eq (len : Int) (h : 0 ≤ len ∧ len ≤ 18446744073709551614) :
    paddedSize len = some (len + len % 2) := by
  have hr : usize.rem len 2 = some (len % 2) := by
    simp only [IntTy.rem]; rw [if_neg (by omega), if_neg (by omega)]
    rw [Int.tmod_eq_emod_of_nonneg h.1]
  have ha : usize.add len (len % 2) = some (len + len % 2) := by
    simp only [IntTy.add]; apply chk_usize; omega
  simp [paddedSize, hr, ha]
/-- `usize::MAX` is odd: padding it overflows — no slice has that length. -/
theorem paddedSize_traps_at : paddedSize 18446744073709551615 = none := by decide

/-- the loca offsets are u32: no trap as long as the (padded) glyph data fits in 4 GiB — which
`write_glyf_loca` does not check.  Long format: -/
theorem locaLong_no_trap (lens : List Int) (offset : Int) (hl : ∀ l ∈ lens, 0 ≤ l ∧ l ≤ 4294967295)
    (ho : 0 ≤ offset) (hsum : offset + lens.sum ≤ 4294967295) : (locaLong lens offset).isSome := by
  induction lens generalizing offset with
  | nil => rfl
  | cons l rest ih =>
    have hl0 := hl l (by simp)
    simp only [List.sum_cons] at hsum
    have hrs : 0 ≤ rest.sum := by
      clear ih hsum
      induction rest with
      | nil => simp
      | cons a r ih2 =>
        have := hl a (by simp)
        have := ih2 (fun x hx => hl x (by
          simp only [List.mem_cons] at hx ⊢
          rcases hx with hx | hx
          · exact Or.inl hx
          · exact Or.inr (Or.inr hx)))
        simp only [List.sum_cons]; omega
    have hc : u32.cast l = l := by simp only [IntTy.cast]; apply wrap_u32_id; omega
    have h1 : u32.add offset (u32.cast l) = some (offset + l) := by
      simp only [hc, IntTy.add]; apply chk_u32; omega
    obtain ⟨r, hr⟩ := Option.isSome_iff_exists.mp
      (ih (offset + l) (fun x hx => hl x (by simp [hx])) (by omega) (by omega))
    simp [locaLong, h1, hr]
/-- witness: 4 GiB of glyph data (model level only: replaying it needs > 4 GiB of memory). -/
theorem locaLong_traps_at : locaLong [4294967295, 1] 0 = none := by decide
theorem locaShort_traps_at : locaShort [4294967294, 2] 0 = none := by decide
example : locaShort [3, 5, 0, 131054] 0 = some [2, 5, 5, 65532] := by decide

/-! ## read-fonts/src/tables/variations.rs — `DeltaSetIndexMap::get` -/

def U8 (x : Int) : Prop := 0 ≤ x ∧ x ≤ 255
def U32 (x : Int) : Prop := 0 ≤ x ∧ x ≤ 4294967295

theorem bitField_range (x : Int) (lo n : Nat) : 0 ≤ bitField x lo n ∧ bitField x lo n < 2 ^ n := by
  have hp : (0 : Int) < 2 ^ n := Int.pow_pos (by omega)
  exact ⟨Int.emod_nonneg _ (Int.ne_of_gt hp), Int.emod_lt_of_pos _ hp⟩

/-- `entry_size` is `1 + bits[5:4]`: the raw `>> 4` and `+ 1` in `u8` never trap (any bits). -/
theorem entrySize_eq (bits : Int) : entrySize bits = some (bitField bits 4 2 + 1) := by
  have h := bitField_range bits 4 2
  unfold entrySize
  generalize bitField bits 4 2 = k at h
  have h4 : (2 : Int) ^ 2 = 4 := by decide
  rw [h4] at h
  have hk : k = 0 ∨ k = 1 ∨ k = 2 ∨ k = 3 := by omega
  rcases hk with rfl | rfl | rfl | rfl <;> decide

theorem entrySize_range (bits : Int) : ∃ es, entrySize bits = some es ∧ 1 ≤ es ∧ es ≤ 4 := by
  have h := bitField_range bits 4 2
  have h4 : (2 : Int) ^ 2 = 4 := by decide
  rw [h4] at h
  exact ⟨_, entrySize_eq bits, by omega, by omega⟩

/-- `bit_count` is `1 + bits[3:0]` ∈ 1..16. -/
theorem bitCount_range (bits : Int) : ∃ bc, bitCount bits = some bc ∧ 1 ≤ bc ∧ bc ≤ 16 := by
  have h := bitField_range bits 0 4
  have h16 : (2 : Int) ^ 4 = 16 := by decide
  rw [h16] at h
  refine ⟨bitField bits 0 4 + 1, ?_, by omega, by omega⟩
  simp only [bitCount, IntTy.add]
  exact chk_u8 (by omega)

/-- `1 << bit_count` in `u32` for the 16 possible bit counts: a power of two ≥ 2, so the raw `- 1`
that builds the inner-index mask cannot underflow. -/
theorem shl_one_bitCount (bc : Int) (h : 1 ≤ bc ∧ bc ≤ 16) :
    ∃ v, u32.shl 1 bc = some v ∧ 2 ≤ v ∧ v ≤ 65536 := by
  have hb : bc = 1 ∨ bc = 2 ∨ bc = 3 ∨ bc = 4 ∨ bc = 5 ∨ bc = 6 ∨ bc = 7 ∨ bc = 8 ∨ bc = 9 ∨ bc = 10 ∨
      bc = 11 ∨ bc = 12 ∨ bc = 13 ∨ bc = 14 ∨ bc = 15 ∨ bc = 16 := by omega
  rcases hb with rfl | rfl | rfl | rfl | rfl | rfl | rfl | rfl | rfl | rfl | rfl | rfl | rfl | rfl | rfl | rfl <;>
    exact ⟨_, rfl, by decide, by decide⟩

theorem dsimClamp_range (mc ix : Int) (hmc : U32 mc) (hix : U32 ix) :
    ∃ v, dsimClamp mc ix = some v ∧ 0 ≤ v ∧ v ≤ 4294967295 := by
  unfold U32 at *
  have hm : 0 ≤ u32.saturatingSub mc 1 ∧ u32.saturatingSub mc 1 ≤ 4294967295 := by
    simp only [IntTy.saturatingSub, IntTy.sat, u32]
    by_cases h1 : mc - 1 < 0
    · simp [h1]
    · by_cases h2 : mc - 1 > 4294967295
      · simp [h1, h2]
      · simp [h1, h2]; omega
  generalize hmm : u32.saturatingSub mc 1 = m at hm
  refine ⟨imin ix m, ?_, ?_, ?_⟩
  · simp only [dsimClamp, hmm]; rfl
  · unfold imin; split <;> omega
  · unfold imin; split <;> omega

/-- **`DeltaSetIndexMap::get` never traps**: for every entry format byte, every `mapCount` (including 0),
every lookup index and every data array. -/
theorem dsimGet_no_trap (ef mc ix : Int) (data : List Int) (hmc : U32 mc) (hix : U32 ix) :
    (dsimGet ef mc ix data).isSome := by
  obtain ⟨es, hes, hes1, hes4⟩ := entrySize_range ef
  obtain ⟨v, hv, hv0, hv1⟩ := dsimClamp_range mc ix hmc hix
  obtain ⟨bc, hbc, hbc1, hbc16⟩ := bitCount_range ef
  obtain ⟨one, hone, hone2, hone3⟩ := shl_one_bitCount bc ⟨hbc1, hbc16⟩
  have hoff : usize.mul v es = some (v * es) := by
    have he : es = 1 ∨ es = 2 ∨ es = 3 ∨ es = 4 := by omega
    simp only [IntTy.mul]
    rcases he with rfl | rfl | rfl | rfl <;> exact chk_usize (by omega)
  have hsub : u32.sub one 1 = some (one - 1) := by
    simp only [IntTy.sub]; exact chk_u32 (by omega)
  simp only [dsimGet, dsimGetWith, hes, hv, hoff, hbc, bind, Option.bind]
  cases readBE data (v * es).toNat es.toNat with
  | none => rfl
  | some entry =>
    have h1 : u32.shr entry bc = some (entry / 2 ^ bc.toNat) := if_pos (by simp only [u32]; omega)
    simp only [h1, hone, hsub]
    rfl

/-- with a raw `map_count - 1` the clamp traps exactly for an empty map. -/
theorem dsimClampRawSub_isSome_iff (mc ix : Int) (hmc : U32 mc) :
    (dsimClampRawSub mc ix).isSome ↔ 1 ≤ mc := by
  unfold U32 at hmc
  simp only [dsimClampRawSub, IntTy.sub, bind, Option.bind]
  by_cases h : 1 ≤ mc
  · rw [chk_u32 (by omega)]; simp [h]
  · have : u32.chk (mc - 1) = none := if_neg (by simp only [u32]; omega)
    rw [this]; simp [h]

theorem dsimGetRawSub_traps_at : dsimGetRawSub 0 0 0 [] = none := by decide
/-- the code as it is: an empty map is a read error, not a trap. -/
example : dsimGet 0 0 7 [] = some none := by decide
example : dsimGet 0x11 0 4294967295 [] = some none := by decide
example : dsimGet 0x13 3 9 [0, 0x12, 0, 0x25, 0xFF, 0xFF] = some (some (4095, 15)) := by decide


/-! ## SDS / SDB and DELTAP / DELTAC (skrifa hint engine) -/

/-- the unsigned range check of `op_sds` admits exactly 0..6. -/
theorem opSds_range (n s : Int) (h : opSds n = some s) : 0 ≤ s ∧ s ≤ 6 := by
  unfold opSds at h
  split at h
  · cases h
  · rename_i hn
    cases h
    simp only [IntTy.cast, IntTy.wrap, u32, u16] at hn ⊢
    omega

theorem opSdb_range (n : Int) : U16 (opSdb n) := wrap_u16_range n

/-- the shift factor `1 << (6 - delta_shift as i32)`: defined exactly for delta shifts 0..6
(`delta_shift` is a `u16`). -/
theorem deltaFactor_isSome_iff (shift : Int) (hs : U16 shift) :
    (do let sh ← i32.sub 6 (i32.cast shift); i32.shl 1 sh : Option Int).isSome ↔ shift ≤ 6 := by
  unfold U16 at hs
  have hcs : i32.cast shift = shift := wrap_i32_id (by omega)
  have hsh : i32.sub 6 (i32.cast shift) = some (6 - shift) := by
    rw [hcs]; simp only [IntTy.sub]; exact chk_i32 (by omega)
  simp only [hsh, bind, Option.bind]
  by_cases h : shift ≤ 6
  · have e : i32.shl 1 (6 - shift) = some (i32.wrap (1 * 2 ^ (6 - shift).toNat)) :=
      if_pos (by simp only [i32]; omega)
    simp [e, h]
  · have e : i32.shl 1 (6 - shift) = none := if_neg (by simp only [i32]; omega)
    simp [e, h]

/-- the seven values of the factor -/
theorem deltaFactor_values (shift : Int) (hs : 0 ≤ shift ∧ shift ≤ 6) :
    ∃ f, i32.shl 1 (6 - shift) = some f ∧ 1 ≤ f ∧ f ≤ 64 := by
  have hsv : shift = 0 ∨ shift = 1 ∨ shift = 2 ∨ shift = 3 ∨ shift = 4 ∨ shift = 5 ∨ shift = 6 := by omega
  rcases hsv with rfl | rfl | rfl | rfl | rfl | rfl | rfl <;> exact ⟨_, rfl, by decide, by decide⟩

/-- does the exception with argument `b` apply at `ppem` (`ppem == ((b & 0xF0) >> 4) + variant + delta_base`
in `u32`)? -/
def deltaApplies (ppem base variant b : Int) : Prop :=
  u32.cast ppem = bitField (u32.cast b) 4 4 + (variant + base)

/-- **exact trap characterisation of one DELTAP / DELTAC exception** over the whole `u16` range of the
delta shift: it traps iff the exception applies at the current ppem and the shift exceeds 6. -/
theorem deltaException_isSome_iff (ppem base shift variant b : Int) (hb : U16 base) (hs : U16 shift)
    (hv : variant = 0 ∨ variant = 16 ∨ variant = 32) :
    (deltaException ppem base shift variant b).isSome ↔ (¬ deltaApplies ppem base variant b ∨ shift ≤ 6) := by
  unfold U16 at hb hs
  unfold deltaApplies deltaException
  have hk := bitField_range (u32.cast b) 4 4
  have hl := bitField_range (u32.cast b) 0 4
  have h16 : (2 : Int) ^ 4 = 16 := by decide
  rw [h16] at hk hl
  generalize bitField (u32.cast b) 4 4 = k at hk ⊢
  generalize bitField (u32.cast b) 0 4 = lo at hl ⊢
  have hcb : u32.cast base = base := wrap_u32_id (by omega)
  have hbias : u32.add variant (u32.cast base) = some (variant + base) := by
    rw [hcb]; simp only [IntTy.add]; exact chk_u32 (by omega)
  have hc0 : u32.shr (k * 16) 4 = some k := by
    have h2 : (2 : Int) ^ (4 : Int).toNat = 16 := by decide
    have : (k * 16) / 2 ^ (4 : Int).toNat = k := by rw [h2]; omega
    have e : u32.shr (k * 16) 4 = some ((k * 16) / 2 ^ (4 : Int).toNat) := if_pos (by simp only [u32]; omega)
    rw [e, this]
  have hc : u32.add k (variant + base) = some (k + (variant + base)) := by
    simp only [IntTy.add]; exact chk_u32 (by omega)
  simp only [hbias, hc0, hc, bind, Option.bind]
  by_cases happ : u32.cast ppem = k + (variant + base)
  · simp only [happ, if_true, not_true_eq_false, false_or]
    have hb1 : i32.sub lo 8 = some (lo - 8) := by simp only [IntTy.sub]; exact chk_i32 (by omega)
    have hcs : i32.cast shift = shift := wrap_i32_id (by omega)
    have hsh : i32.sub 6 (i32.cast shift) = some (6 - shift) := by
      rw [hcs]; simp only [IntTy.sub]; exact chk_i32 (by omega)
    simp only [hb1, hsh]
    by_cases h6 : shift ≤ 6
    · obtain ⟨f, hf, hf1, hf64⟩ := deltaFactor_values shift ⟨hs.1, h6⟩
      have hmul : ∀ x : Int, -8 ≤ x → x ≤ 8 → i32.mul x f = some (x * f) := by
        intro x hx1 hx2
        simp only [IntTy.mul]
        apply chk_i32
        have h1 : x * f ≥ -8 * f := Int.mul_le_mul_of_nonneg_right hx1 (by omega)
        have h2 : x * f ≤ 8 * f := Int.mul_le_mul_of_nonneg_right hx2 (by omega)
        omega
      simp only [hf, h6, iff_true]
      split
      · have ha : i32.add (lo - 8) 1 = some (lo - 8 + 1) := by
          simp only [IntTy.add]; exact chk_i32 (by omega)
        simp [ha, hmul (lo - 8 + 1) (by omega) (by omega)]
      · simp [pure, hmul (lo - 8) (by omega) (by omega)]
    · have hn : i32.shl 1 (6 - shift) = none := if_neg (by simp only [i32]; omega)
      simp only [hn, h6, iff_false]
      split
      · have ha : i32.add (lo - 8) 1 = some (lo - 8 + 1) := by
          simp only [IntTy.add]; exact chk_i32 (by omega)
        simp [ha]
      · simp [pure]
  · simp [happ]

/-- **one DELTAP / DELTAC exception never traps** when the delta shift is in the range `op_sds`
admits: for every ppem, delta base, variant bias and exception argument. -/
theorem deltaException_no_trap (ppem base shift variant b : Int) (hb : U16 base)
    (hs : 0 ≤ shift ∧ shift ≤ 6) (hv : variant = 0 ∨ variant = 16 ∨ variant = 32) :
    (deltaException ppem base shift variant b).isSome :=
  (deltaException_isSome_iff ppem base shift variant b hb ⟨hs.1, by omega⟩ hv).2 (Or.inr hs.2)

/-- **SDB / SDS followed by a DELTA instruction never traps**, whatever the operands of SDB and SDS
(as the code has it: unsigned range check in SDS). -/
theorem deltaProgram_no_trap (ppem : Int) (sdb sds : Option Int) (variant b : Int)
    (hv : variant = 0 ∨ variant = 16 ∨ variant = 32) : (deltaProgram ppem sdb sds variant b).isSome := by
  have key : ∀ base, U16 base →
      (match sds with
        | none => (deltaException ppem base 3 variant b).map some
        | some n =>
          match opSds n with
          | none => some none
          | some sh => (deltaException ppem base sh variant b).map some).isSome := by
    intro base hbase
    cases sds with
    | none =>
      have := deltaException_no_trap ppem base 3 variant b hbase ⟨by decide, by decide⟩ hv
      simp only [Option.isSome_map]; exact this
    | some n =>
      simp only []
      cases hn : opSds n with
      | none => rfl
      | some sh =>
        have hr := opSds_range n sh hn
        have := deltaException_no_trap ppem base sh variant b hbase hr hv
        simp only [Option.isSome_map]; exact this
  unfold deltaProgram deltaProgramWith
  cases sdb with
  | none => exact key 9 ⟨by decide, by decide⟩
  | some n => exact key (opSdb n) (opSdb_range n)

/-- with a SIGNED range check SDS accepts a negative operand and stores 65535 … -/
theorem opSdsSigned_accepts_negative : opSdsSigned (-1) = some 65535 := by decide
/-- … and the untouched DELTA site then traps as soon as an exception applies (ppem 9 = delta base 9 +
nibble 0): the witness the harness replays on the real interpreter. -/
theorem deltaProgramSigned_traps_at : deltaProgramWith opSdsSigned 9 none (some (-1)) 0 0 = none := by decide
example : deltaProgram 9 none (some (-1)) 0 0 = some none := by decide
example : deltaProgram 9 none none 0 0 = some (some (some (-64))) := by decide
example : deltaProgram 12 (some 3) (some 6) 0 0x9F = some (some (some 8))  := by decide
example : deltaProgram 10 none none 0 0 = some (some none) := by decide

/-! ## incremental-font-transfer/src/patchmap.rs — format 2 entry ids -/

def I24 (x : Int) : Prop := -8388608 ≤ x ∧ x ≤ 8388607
def OptI24 (d : Option Int) : Prop := ∀ x, d = some x → I24 x

theorem f2NewEntryIndex_spec (last : Int) (delta : Option Int) (hl : U32 last) (hd : OptI24 delta) :
    f2NewEntryIndex last delta =
      some (if last + 1 + delta.getD 0 < 0 then .negative
            else if last + 1 + delta.getD 0 > 4294967295 then .tooBig else .ok (last + 1 + delta.getD 0)) := by
  unfold U32 at hl
  have hdd : I24 (delta.getD 0) := by
    cases delta with
    | none => exact ⟨by decide, by decide⟩
    | some x => exact hd x rfl
  unfold I24 at hdd
  unfold f2NewEntryIndex
  generalize delta.getD 0 = d at hdd ⊢
  have h1 : i64.add last 1 = some (last + 1) := by simp only [IntTy.add]; exact chk_i64 (by omega)
  have h2 : i64.add (last + 1) d = some (last + 1 + d) := by simp only [IntTy.add]; exact chk_i64 (by omega)
  simp only [h1, h2, bind, Option.bind]
  by_cases c1 : last + 1 + d < 0
  · simp [c1, pure]
  · by_cases c2 : last + 1 + d > 4294967295
    · simp [c1, c2, pure]
    · simp [c1, c2, pure]

/-- **`compute_format2_new_entry_index` never traps** (the i64 path): for every previous id and every
Int24 delta, present or absent. -/
theorem f2NewEntryIndex_no_trap (last : Int) (delta : Option Int) (hl : U32 last) (hd : OptI24 delta) :
    (f2NewEntryIndex last delta).isSome := by
  rw [f2NewEntryIndex_spec last delta hl hd]; rfl

/-- the 32-bit variant (`last_entry_index + 1` in `u32`) traps exactly when the previous id is
`u32::MAX` … -/
theorem f2NewEntryIndexU32_isSome_iff (last : Int) (delta : Option Int) (hl : U32 last) :
    (f2NewEntryIndexU32 last delta).isSome ↔ last ≠ 4294967295 := by
  unfold U32 at hl
  unfold f2NewEntryIndexU32
  by_cases h : last = 4294967295
  · subst h
    have : u32.add 4294967295 1 = none := by decide
    simp [this]
  · have e : u32.add last 1 = some (last + 1) := by simp only [IntTy.add]; exact chk_u32 (by omega)
    simp only [e, bind, Option.bind, h, ne_eq, not_false_eq_true, iff_true]
    by_cases c1 : last + 1 + delta.getD 0 < 0
    · simp [c1, pure]
    · by_cases c2 : last + 1 + delta.getD 0 > 4294967295
      · simp [c1, c2, pure]
      · simp [c1, c2, pure]

/-- … and agrees with the i64 path everywhere else (so no test on other inputs can tell them apart). -/
theorem f2NewEntryIndexU32_agrees (last : Int) (delta : Option Int) (hl : U32 last) (hd : OptI24 delta)
    (h : last ≠ 4294967295) : f2NewEntryIndexU32 last delta = f2NewEntryIndex last delta := by
  rw [f2NewEntryIndex_spec last delta hl hd]
  unfold U32 at hl
  unfold f2NewEntryIndexU32
  have e : u32.add last 1 = some (last + 1) := by simp only [IntTy.add]; exact chk_u32 (by omega)
  simp only [e, bind, Option.bind]
  by_cases c1 : last + 1 + delta.getD 0 < 0
  · simp [c1, pure]
  · by_cases c2 : last + 1 + delta.getD 0 > 4294967295
    · simp [c1, c2, pure]
    · simp [c1, c2, pure]

theorem f2NewEntryIndexU32_traps_at : f2NewEntryIndexU32 4294967295 (some (-5)) = none := by decide
example : f2NewEntryIndex 4294967295 (some (-5)) = some (.ok 4294967291) := by decide
example : f2NewEntryIndex 4294967295 none = some .tooBig := by decide
example : f2NewEntryIndex 0 (some (-2)) = some .negative := by decide

/-- **decoding the ids of a whole run of entries never traps**: every id that is produced is again a
`u32`, so the invariant carries through any number of entries. -/
theorem f2EntryIds_no_trap (deltas : List (Option Int)) (hd : ∀ d ∈ deltas, OptI24 d) :
    (f2EntryIds deltas).isSome := by
  unfold f2EntryIds
  have key : ∀ (ds : List (Option Int)) (last : Int), (∀ d ∈ ds, OptI24 d) → U32 last →
      (f2EntryIdsWith f2NewEntryIndex ds last).isSome := by
    intro ds
    induction ds with
    | nil => intro last _ _; rfl
    | cons d rest ih =>
      intro last hds hl
      have hd0 : OptI24 d := hds d (List.mem_cons_self ..)
      have hrest : ∀ x ∈ rest, OptI24 x := fun x hx => hds x (List.mem_cons_of_mem _ hx)
      unfold f2EntryIdsWith
      rw [f2NewEntryIndex_spec last d hl hd0]
      by_cases h1 : last + 1 + d.getD 0 < 0
      · simp [h1]
      · by_cases h2 : last + 1 + d.getD 0 > 4294967295
        · simp [h1, h2]
        · simp only [h1, h2, if_false]
          have hv : U32 (last + 1 + d.getD 0) := ⟨by omega, by omega⟩
          have := ih (last + 1 + d.getD 0) hrest hv
          simp only [Option.isSome_map]; exact this
  exact key deltas 0 hd ⟨by decide, by decide⟩

example : f2EntryIds [some (-1), some 5, some 7, none] = some ([0, 6, 14, 15], false) := by decide

/-! ## skrifa/src/color/instance.rs — variable paint delta indices -/

theorem colrVarIndex_no_trap (base i : Int) : (colrVarIndex base i).isSome := rfl

/-- the pre-fix raw add trapped exactly when the index passes `u32::MAX`: for a paint with `N` deltas
every `VarIndexBase` in `u32::MAX - N + 2 ..= u32::MAX - 1` (the value `u32::MAX` itself was excluded). -/
theorem colrVarIndexPreFix_isSome_iff (base i : Int) (hb : U32 base) (hi : 0 ≤ i) :
    (colrVarIndexPreFix base i).isSome ↔ base + i ≤ 4294967295 := by
  unfold U32 at hb
  simp only [colrVarIndexPreFix, IntTy.add, chk_isSome_iff, IntTy.inR, u32]
  omega

theorem colrVarIndexPreFix_traps_at : colrVarIndexPreFix 4294967294 2 = none := by decide
example : colrVarIndex 4294967294 2 = some 4294967295 := by decide

/-! ## the rejection guard of `resolve_coords_len` is exactly the no-trap condition of `flags_left -= repeats` -/

/-- `if repeats > flags_left { return Err }` guards the raw `flags_left -= repeats` (u32) at the end of the
loop body: the subtraction is defined iff the guard does not fire.  A clamp of `repeats` that is not also
applied to this line (seeded change C20-4) leaves every overshooting repeat count trapping. -/
theorem flagsLeft_sub_isSome_iff (flagsLeft repeats : Int) (hf : U32 flagsLeft) (hr : 0 ≤ repeats) :
    (u32.sub flagsLeft repeats).isSome ↔ ¬ (repeats > flagsLeft) := by
  unfold U32 at hf
  simp only [IntTy.sub, chk_isSome_iff, IntTy.inR, u32]
  omega

/-- with the guard, a byte whose repeat count overshoots is a rejection (`some none`), never a trap -/
example : resolveCoordsLen [0x09, 5, 0, 0] 2 = some none := by decide
example : resolveCoordsLen [0x09, 1, 0, 0] 2 = some (some (2, 4, 4)) := by decide

end FontVerif.C20
