/-
C02 — skrifa and IFT client APIs are total on hostile fonts and arguments.

Core 2b: caller-supplied scratch memory for `glyf` outlines.  `OutlineGlyph::draw_memory_size(hinting)` is
`Outline::required_buffer_size` of the per-glyph metrics that `Outlines::outline` / `outline_rec` accumulate over the
component graph (Model/Composite.lean: points, contours, largest simple glyph, largest hinted composite, deepest
component delta stack, has-instructions flag) and of the per-font limits (`maxp` stack / storage / twilight sizes,
`cvt` length, presence of `gvar`).  Here the graph model is tied to the carve model of C12 (Model/Carve.lean):

* `advertised_memory_suffices_ft` / `_hb`: for EVERY glyph table, glyph id, font limits, hinting choice and buffer
  address, a buffer of the advertised size carves — `draw` does not return `InsufficientMemory` (Props/C12.lean
  `ft_carve_sufficient`, `hb_carve_sufficient`);
* `smaller_memory_is_error`: a buffer shorter than the payload (advertised size − 4 bytes of alignment slack) is
  `InsufficientMemory` — an error VALUE of the checked `split_at_mut` carve (Props/C12.lean `ft_carve_none_iff`), at
  every address; between payload and advertised size the outcome is decided by the address (`ft_carve_none_iff`);
* `outline_counts_fit`: the `usize` additions of `outline_rec` and the multiplications of `required_buffer_size` cannot
  wrap for any glyph table whose walk ends in practice (at most 2^40 activations).
-/
import FontVerif.Lemmas.CompositeMem
import FontVerif.Props.C12
namespace FontVerif.C02
open FontVerif FontVerif.Composite FontVerif.Carve FontVerif.CompositeMemLemmas
set_option linter.unusedVariables false

/-- the `Outline` metric record `Outlines::outline` returns: the accumulated counters (+ 4 phantom points) and the
    per-font limits -/
def countsOf (o : Out) (f : FontLimits) : Counts :=
  { points := o.points + 4, contours := o.contours, maxSimplePoints := o.maxSimple, maxOtherPoints := o.maxOther,
    maxComponentDeltaStack := o.maxDeltaStack, maxStack := f.maxStack, cvtCount := f.cvtCount,
    storageCount := f.storageCount, maxTwilightPoints := f.maxTwilightPoints, hasHinting := o.hasHinting,
    hasVariations := f.hasGvar }

/-- `OutlineGlyph::draw_memory_size(hinting)` of glyph `gid` (`none`: `outline_glyphs().get(gid)` is `None`) -/
def drawMemorySize (G : Nat → GlyphInfo) (f : FontLimits) (gid : Nat) (embedded : Bool) : Option Nat :=
  match Composite.outline G gid with
  | .ok o => some (requiredBufferSize (countsOf o f) embedded)
  | .error _ => none

/-- **FreeType-style draws (unhinted or hinted) with a buffer of the advertised size never fail for lack of memory**,
    whatever the glyph table, the glyph, the font limits, the buffer address -/
theorem advertised_memory_suffices_ft (G : Nat → GlyphInfo) (f : FontLimits) (gid : Nat) (embedded : Bool) (o : Out)
    (ho : Composite.outline G gid = .ok o) (b : Buf) (hb : b.addr + b.len < 18446744073709551616)
    (hlen : requiredBufferSize (countsOf o f) embedded ≤ b.len) :
    ∃ ss, ftCarve (countsOf o f) embedded b = some ss ∧ C12.GoodLayout (ftProgram (countsOf o f) embedded) b ss :=
  C12.ft_carve_sufficient (countsOf o f) embedded b hb hlen

/-- **HarfBuzz-style draws with a buffer of the advertised size never fail for lack of memory** -/
theorem advertised_memory_suffices_hb (G : Nat → GlyphInfo) (f : FontLimits) (gid : Nat) (o : Out)
    (ho : Composite.outline G gid = .ok o) (b : Buf) (hb : b.addr + b.len < 18446744073709551616)
    (hlen : requiredBufferSize (countsOf o f) false ≤ b.len) :
    ∃ ss, hbCarve (countsOf o f) b = some ss ∧ C12.GoodLayout (hbProgram (countsOf o f)) b ss := by
  -- either a simple glyph was reached (`max_other_points ≥ 5`: spare bytes) or only the phantom points are carved
  have hinv : o.maxOther = 0 → o.points = 0 ∧ o.contours = 0 ∧ o.maxSimple = 0 :=
    outline_shape G gid o ho
  by_cases h0 : o.maxOther = 0
  · obtain ⟨h1, h2, h3⟩ := hinv h0
    have hal := hb_allAlign (countsOf o f)
    have hneed := Nat.le_trans (C12.hb_need_phantom_only (countsOf o f) b.addr
      ⟨by simp [countsOf, h1], by simp [countsOf, h2], by simp [countsOf, h3]⟩) hlen
    have hs : (carve (hbProgram (countsOf o f)) b).isSome = true := (carve_isSome_iff _ b hal hb).mpr hneed
    obtain ⟨ss, hss⟩ := Option.isSome_iff_exists.mp hs
    exact ⟨ss, hss, C12.carve_good _ b ss hal hb hss⟩
  · exact C12.hb_carve_sufficient (countsOf o f) b hb hlen (Or.inl (by simp only [countsOf]; omega))

/-- **a buffer shorter than the payload is `InsufficientMemory`** at every address: more than 4 bytes (the alignment
    slack) below the advertised size, `FreeTypeOutlineMemory::new` returns `None` — an error value, not a panic: every
    slice is carved with a checked split (Model/Carve.lean `allocSlice`) -/
theorem smaller_memory_is_error (G : Nat → GlyphInfo) (f : FontLimits) (gid : Nat) (embedded : Bool) (o : Out)
    (ho : Composite.outline G gid = .ok o) (b : Buf) (hb : b.addr + b.len < 18446744073709551616)
    (hlen : b.len + 4 < requiredBufferSize (countsOf o f) embedded) :
    ftCarve (countsOf o f) embedded b = none := by
  rw [C12.ft_carve_none_iff _ _ _ hb]
  have ht := ft_total (countsOf o f) embedded
  have hn := total_le_need (ftProgram (countsOf o f) embedded) b.addr
  rw [ht] at hlen
  split at hlen <;> omega

/-- the advertised size is at least the payload: with exactly the advertised size the carve succeeds at every
    address, with less than the payload it fails at every address (the two theorems above); in between the address
    decides (`C12.ft_carve_none_iff`) -/
theorem draw_memory_size_eq (G : Nat → GlyphInfo) (f : FontLimits) (gid : Nat) (embedded : Bool) (o : Out)
    (ho : Composite.outline G gid = .ok o) :
    drawMemorySize G f gid embedded = some (requiredBufferSize (countsOf o f) embedded) := by
  unfold drawMemorySize; rw [ho]

/-- a glyph that does not load (`RecursionLimitExceeded`, unreadable glyph data) has no `OutlineGlyph` at all: there
    is nothing to draw and no size to advertise -/
theorem draw_memory_size_none_iff (G : Nat → GlyphInfo) (f : FontLimits) (gid : Nat) (embedded : Bool) :
    drawMemorySize G f gid embedded = none ↔ ∃ e, Composite.outline G gid = .error e := by
  unfold drawMemorySize
  cases h : Composite.outline G gid with
  | ok o => simp
  | error e => simp

/-- **the metric computation fits `usize`**: with at most `P` points / contours per simple glyph and `C` components
    per composite (a `glyf` table: both below 65537), the advertised size is bounded by the number of activations
    `visits` of `outline_rec` -/
theorem outline_counts_fit (G : Nat → GlyphInfo) (P C : Nat) (hG : ∀ i, GOk P C (G i)) (f : FontLimits) (gid : Nat)
    (embedded : Bool) (o : Out) (ho : Composite.outline G gid = .ok o) :
    o.points ≤ P * o.visits ∧ o.contours ≤ P * o.visits ∧ o.maxSimple ≤ P + 4 ∧ o.maxOther ≤ o.points + 4 ∧
    o.maxDeltaStack ≤ 33 * (C + 4) ∧
    requiredBufferSize (countsOf o f) embedded ≤
      27 * (P * o.visits + 4) + 16 * (P + 4) + 264 * (C + 4) + 4 * f.maxStack + 4 * (f.cvtCount + f.storageCount)
        + 17 * f.maxTwilightPoints + 4 := by
  obtain ⟨⟨b1, b2, b3, b4, _⟩, b6⟩ := outline_bnd G P C hG gid o ho
  refine ⟨b1, b2, b3, b4, b6, ?_⟩
  unfold requiredBufferSize countsOf
  simp only []
  generalize P * o.visits = pv at *
  repeat' split
  all_goals omega

/-- in a real font (`P, C ≤ 65536`, limits below 2^32) a walk of at most 2^40 activations (days of CPU time) keeps every
    counter and the advertised size far below 2^64: the plain `usize` `+=` / `*` of `outline_rec` and
    `required_buffer_size` do not wrap -/
theorem outline_counts_no_wrap (G : Nat → GlyphInfo) (hG : ∀ i, GOk 65536 65536 (G i)) (f : FontLimits) (gid : Nat)
    (embedded : Bool) (o : Out) (ho : Composite.outline G gid = .ok o) (hv : o.visits ≤ 1099511627776)
    (hf : f.maxStack < 4294967296 ∧ f.cvtCount < 4294967296 ∧ f.storageCount < 4294967296 ∧
          f.maxTwilightPoints < 4294967296) :
    requiredBufferSize (countsOf o f) embedded < 18446744073709551616 := by
  have := (outline_counts_fit G 65536 65536 hG f gid embedded o ho).2.2.2.2.2
  omega

/-! ### non-vacuity -/

/-- a composite of a 3-point glyph, an empty glyph and a hinted nested composite of a 1-point glyph; `maxp` stack 10,
    cvt 5, storage 6, twilight 7, variable font -/
def memG : Nat → GlyphInfo := fun i =>
  if i = 0 then .composite [1, 2, 3] false else if i = 1 then .simple 3 2 false else if i = 2 then .empty
  else if i = 3 then .composite [4] true else if i = 4 then .simple 1 1 false else .readErr
def memF : FontLimits := ⟨10, 5, 6, 7, true⟩
example : (Composite.outline memG 0).toOption.map (fun o => countsOf o memF)
    = some ⟨8, 3, 7, 7, 12, 10, 5, 6, 7, true, true⟩ := by decide +kernel
example : drawMemorySize memG memF 0 false = some 346 := by decide +kernel
example : drawMemorySize memG memF 0 true = some 605 := by decide +kernel
example : drawMemorySize memG memF 5 true = none := by decide +kernel
/-- advertised size at a misaligned address: carves; 5 bytes less: InsufficientMemory -/
example : (ftCarve ⟨8, 3, 7, 7, 12, 10, 5, 6, 7, true, true⟩ true ⟨3, 605⟩).isSome = true := by decide +kernel
example : ftCarve ⟨8, 3, 7, 7, 12, 10, 5, 6, 7, true, true⟩ true ⟨3, 600⟩ = none := by decide +kernel

end FontVerif.C02
