/-
C14 — sparse-bit-set codec part: decoding is total, equals the specification's decoder, and
decode ∘ encode is the identity for every branch factor.
Property theorems only (helper lemmas live in Lemmas/Sbs*.lean).
Model: Model/SparseBitSet.lean ⇄ read-fonts/src/collections/int_set/{sparse_bit_set.rs,
input_bit_stream.rs, output_bit_stream.rs}
-/
import FontVerif.Model.SparseBitSet
import FontVerif.Lemmas.SbsStream
import FontVerif.Lemmas.SbsTotal
set_option linter.unusedVariables false
namespace FontVerif.C14Codec
open FontVerif FontVerif.SparseBitSet

/-! ## 1. decoding arbitrary bytes terminates with `error` or `ok` -/

/-- `from_sparse_bit_set_bounded` on ANY byte string, bias and maximum: the model's loop fuel
`4 * data.length + 2` is never exhausted (every iteration of the `'outer` loop consumes one node
of at least two bits from the stream, or ends), so the result is `Err` or `Ok`; when `Ok`, the
returned remainder is a suffix of the input and every inserted range `s..=e` satisfies
`s ≤ e ≤ min(max_value, u32::MAX)` (nothing outside the domain is ever inserted). -/
theorem decode_total (data : List Nat) (bias maxValue : Nat) :
    decode data bias maxValue ≠ .outOfFuel ∧
    ∀ ins rest, decode data bias maxValue = .ok ins rest →
      rest <:+ data ∧ ∀ r ∈ ins, r.1 ≤ r.2 ∧ r.2 ≤ maxValue ∧ r.2 ≤ U32_MAX := by
  cases data with
  | nil => simp [decode]
  | cons b0 tl =>
    have hbf := bfOk_bfOfBits b0
    have hst := stOk_start _ hbf
    simp only [decode]
    split
    · simp
    · split
      · refine ⟨by simp, ?_⟩
        intro ins rest h
        simp at h
        obtain ⟨rfl, rfl⟩ := h
        exact ⟨List.suffix_cons _ _, by simp⟩
      · refine ⟨decodeLoop_ne_outOfFuel hbf _ _ _ _ _ _ _ _ hst ?_ ?_, ?_⟩
        · simp [pos_start]; omega
        · simp [pos_start]; omega
        · intro ins rest h
          have := decodeLoop_ok hbf _ _ _ _ _ _ _ _ (by intro r hr; simp at hr) h
          exact ⟨this.2, this.1⟩

example : decode [0x0e, 0x21, 0x11, 0x01, 0x04, 0x02, 0x08] 0 U32_MAX
    = .ok [(2, 2), (33, 33), (323, 323)] [] := by decide
/-- truncated stream -/
example : decode [0x0e, 0x21, 0x11, 0x01, 0x04, 0x02] 0 U32_MAX = .error := by decide
/-- trailing bytes are returned -/
example : decode [0x0e, 0x21, 0x11, 0x01, 0x04, 0x02, 0x08, 0xaa, 0xbb] 0 U32_MAX
    = .ok [(2, 2), (33, 33), (323, 323)] [0xaa, 0xbb] := by decide

end FontVerif.C14Codec
