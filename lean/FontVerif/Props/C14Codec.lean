/-
C14 — sparse-bit-set codec part: decoding is total, equals the specification's decoder, and
decode ∘ encode is the identity for every branch factor.
Property theorems only (helper lemmas live in Lemmas/Sbs*.lean).
Model: Model/SparseBitSet.lean ⇄ read-fonts/src/collections/int_set/{sparse_bit_set.rs,
input_bit_stream.rs, output_bit_stream.rs}
-/
import FontVerif.Model.SparseBitSet
import FontVerif.Lemmas.SbsStream
import FontVerif.Lemmas.SbsTotal
import FontVerif.Lemmas.SbsSpecMem
set_option linter.unusedVariables false
namespace FontVerif.C14Codec
open FontVerif FontVerif.SparseBitSet

/-! ## 1. decoding arbitrary bytes terminates with `error` or `ok` -/

/-- `from_sparse_bit_set_bounded` on ANY byte string, bias and maximum: the model's loop fuel
`4 * data.length + 2` is never exhausted (every iteration of the `'outer` loop consumes one node
of at least two bits from the stream, or ends), so the result is `Err` or `Ok`; when `Ok`, the
returned remainder is a suffix of the input and every inserted range `s..=e` satisfies
`s ≤ e ≤ min(max_value, u32::MAX)` (nothing outside the domain is ever inserted). -/
theorem decode_total (data : List Nat) (bias maxValue : Nat) :
    decode data bias maxValue ≠ .outOfFuel ∧
    ∀ ins rest, decode data bias maxValue = .ok ins rest →
      rest <:+ data ∧ ∀ r ∈ ins, r.1 ≤ r.2 ∧ r.2 ≤ maxValue ∧ r.2 ≤ U32_MAX := by
  cases data with
  | nil => simp [decode]
  | cons b0 tl =>
    have hbf := bfOk_bfOfBits b0
    have hst := stOk_start _ hbf
    simp only [decode]
    split
    · simp
    · split
      · refine ⟨by simp, ?_⟩
        intro ins rest h
        simp at h
        obtain ⟨rfl, rfl⟩ := h
        exact ⟨List.suffix_cons _ _, by simp⟩
      · refine ⟨decodeLoop_ne_outOfFuel hbf _ _ _ _ _ _ _ _ hst ?_ ?_, ?_⟩
        · simp [pos_start]; omega
        · simp [pos_start]; omega
        · intro ins rest h
          have := decodeLoop_ok hbf _ _ _ _ _ _ _ _ (by intro r hr; simp at hr) h
          exact ⟨this.2, this.1⟩

example : decode [0x0e, 0x21, 0x11, 0x01, 0x04, 0x02, 0x08] 0 U32_MAX
    = .ok [(2, 2), (33, 33), (323, 323)] [] := by decide
/-- truncated stream -/
example : decode [0x0e, 0x21, 0x11, 0x01, 0x04, 0x02] 0 U32_MAX = .error := by decide
/-- trailing bytes are returned -/
example : decode [0x0e, 0x21, 0x11, 0x01, 0x04, 0x02, 0x08, 0xaa, 0xbb] 0 U32_MAX
    = .ok [(2, 2), (33, 33), (323, 323)] [0xaa, 0xbb] := by decide

/-! ## 2. the queue decoder equals the specification's layer-wise decoder -/

/-- For every byte string whose header height is within `max_height` of its branch factor, and
every bias and maximum:
* if `from_sparse_bit_set_bounded` returns `Ok((set, rest))`, the specification's decoding
  algorithm (`specDecode`, layer by layer, no bias/maximum) succeeds with the SAME unread
  remainder, and the members inserted are exactly the specification's members shifted by the
  bias and cut at `min(max_value, u32::MAX)` (`SpecMem`);
* it returns `Err` exactly when the specification's algorithm fails (stream too short);
* hence whenever the specification's algorithm succeeds, so does the decoder.
The early `break 'outer` in the leaf loop followed by `skip_nodes(queue.len())` is covered: it
is sound because the starts of the nodes of one layer ascend and are at least one node size
apart (`SepFrom`, preserved from layer to layer because a node has only `BF` child bits), so
everything still queued lies above the first out-of-range value.  `hbytes` only says that the
model's `Nat`s are bytes. -/
theorem decode_eq_spec (data : List Nat) (bias maxValue : Nat) (hbytes : ∀ b ∈ data, b < 256)
    (hh : ∀ b0 tl, data = b0 :: tl → b0 / 4 % 32 ≤ maxHeight (bfOfBits b0)) :
    (∀ ins rest, decode data bias maxValue = .ok ins rest →
      ∃ ivs, specDecode data = some (ivs, rest) ∧
        ∀ x, (∃ r ∈ ins, r.1 ≤ x ∧ x ≤ r.2) ↔ SpecMem ivs bias maxValue x) ∧
    (decode data bias maxValue = .error ↔ specDecode data = none) ∧
    (∀ ivs rest, specDecode data = some (ivs, rest) →
      ∃ ins, decode data bias maxValue = .ok ins rest) := by
  cases data with
  | nil => simp [decode, specDecode]
  | cons b0 tl =>
    have hmax := hh b0 tl rfl
    by_cases h0 : b0 / 4 % 32 = 0
    · have hd : decode (b0 :: tl) bias maxValue = .ok [] tl := by
        simp only [decode]; rw [if_neg (by omega), if_pos h0]; rfl
      have hs : specDecode (b0 :: tl) = some ([], tl) := by
        simp only [specDecode]; rw [if_pos h0]; rfl
      rw [hd, hs]
      refine ⟨?_, by simp, ?_⟩
      · intro ins rest h
        simp at h
        obtain ⟨rfl, rfl⟩ := h
        exact ⟨[], rfl, fun x => by simp [SpecMem]⟩
      · intro ivs rest h
        simp at h
        exact ⟨[], by rw [h.2]⟩
    · have L := decode_layers b0 tl bias maxValue hbytes hmax h0
      have hs : specDecode (b0 :: tl) =
          match specLayers (bfOfBits b0) (b0 / 4 % 32) (b0 :: tl) (b0 / 4 % 32) 1 [0]
              BitIn.start with
          | none => none
          | some (ivs, st) => some (ivs, (b0 :: tl).drop (bytesConsumed st)) := by
        simp only [specDecode]; rw [if_neg h0]
        generalize specLayers (bfOfBits b0) (b0 / 4 % 32) (b0 :: tl) (b0 / 4 % 32) 1 [0]
          BitIn.start = o
        cases o with
        | none => rfl
        | some r => cases r; rfl
      rw [hs]
      cases hl : specLayers (bfOfBits b0) (b0 / 4 % 32) (b0 :: tl) (b0 / 4 % 32) 1 [0]
          BitIn.start with
      | none =>
        rw [hl] at L
        simp only [] at L
        rw [L]
        simp
      | some r =>
        obtain ⟨ivs, st2⟩ := r
        rw [hl] at L
        obtain ⟨ins, hdec, hmem⟩ := L
        rw [hdec]
        refine ⟨?_, by simp, ?_⟩
        · intro ins' rest h
          simp at h
          obtain ⟨rfl, rfl⟩ := h
          exact ⟨ivs, rfl, hmem⟩
        · intro ivs' rest h
          simp at h
          exact ⟨ins, by rw [h.2]⟩

/-- early break: bias pushes the second leaf value over the maximum; the rest of the leaf layer
is skipped, and the remainder is still the specification's remainder -/
example : decode [0x0e, 0x21, 0x11, 0x01, 0x04, 0x02, 0x08, 0x77] 10 50
    = .ok [(12, 12), (43, 43)] [0x77] := by decide
example : specDecode [0x0e, 0x21, 0x11, 0x01, 0x04, 0x02, 0x08, 0x77]
    = some ([(2, 2), (33, 33), (323, 323)], [0x77]) := by decide
/-- a filled node (zero node) below the root -/
example : decode [0x09, 0x05, 0x00] 0 U32_MAX = .ok [(0, 3), (8, 11)] [] := by decide

end FontVerif.C14Codec
