/-
C14 — sparse-bit-set codec part: decoding is total, equals the specification's decoder, and
decode ∘ encode is the identity for every branch factor.
Property theorems only (helper lemmas live in Lemmas/Sbs*.lean).
Model: Model/SparseBitSet.lean ⇄ read-fonts/src/collections/int_set/{sparse_bit_set.rs,
input_bit_stream.rs, output_bit_stream.rs}
-/
import FontVerif.Model.SparseBitSet
import FontVerif.Lemmas.SbsStream
import FontVerif.Lemmas.SbsTotal
import FontVerif.Lemmas.SbsSpecMem
import FontVerif.Lemmas.SbsEncode
import FontVerif.Lemmas.SbsBits
import FontVerif.Lemmas.SbsHeight
set_option linter.unusedVariables false
namespace FontVerif.C14Codec
open FontVerif FontVerif.SparseBitSet

/-! ## 1. decoding arbitrary bytes terminates with `error` or `ok` -/

/-- `from_sparse_bit_set_bounded` on ANY byte string, bias and maximum: the model's loop fuel
`4 * data.length + 2` is never exhausted (every iteration of the `'outer` loop consumes one node
of at least two bits from the stream, or ends), so the result is `Err` or `Ok`; when `Ok`, the
returned remainder is a suffix of the input and every inserted range `s..=e` satisfies
`s ≤ e ≤ min(max_value, u32::MAX)` (nothing outside the domain is ever inserted). -/
theorem decode_total (data : List Nat) (bias maxValue : Nat) :
    decode data bias maxValue ≠ .outOfFuel ∧
    ∀ ins rest, decode data bias maxValue = .ok ins rest →
      rest <:+ data ∧ ∀ r ∈ ins, r.1 ≤ r.2 ∧ r.2 ≤ maxValue ∧ r.2 ≤ U32_MAX := by
  cases data with
  | nil => simp [decode]
  | cons b0 tl =>
    have hbf := bfOk_bfOfBits b0
    have hst := stOk_start _ hbf
    simp only [decode]
    split
    · simp
    · split
      · refine ⟨by simp, ?_⟩
        intro ins rest h
        simp at h
        obtain ⟨rfl, rfl⟩ := h
        exact ⟨List.suffix_cons _ _, by simp⟩
      · refine ⟨decodeLoop_ne_outOfFuel hbf _ _ _ _ _ _ _ _ hst ?_ ?_, ?_⟩
        · simp [pos_start]; omega
        · simp [pos_start]; omega
        · intro ins rest h
          have := decodeLoop_ok hbf _ _ _ _ _ _ _ _ (by intro r hr; simp at hr) h
          exact ⟨this.2, this.1⟩

example : decode [0x0e, 0x21, 0x11, 0x01, 0x04, 0x02, 0x08] 0 U32_MAX
    = .ok [(2, 2), (33, 33), (323, 323)] [] := by decide
/-- truncated stream -/
example : decode [0x0e, 0x21, 0x11, 0x01, 0x04, 0x02] 0 U32_MAX = .error := by decide
/-- trailing bytes are returned -/
example : decode [0x0e, 0x21, 0x11, 0x01, 0x04, 0x02, 0x08, 0xaa, 0xbb] 0 U32_MAX
    = .ok [(2, 2), (33, 33), (323, 323)] [0xaa, 0xbb] := by decide

/-! ## 2. the queue decoder equals the specification's layer-wise decoder -/

/-- For every byte string whose header height is within `max_height` of its branch factor, and
every bias and maximum:
* if `from_sparse_bit_set_bounded` returns `Ok((set, rest))`, the specification's decoding
  algorithm (`specDecode`, layer by layer, no bias/maximum) succeeds with the SAME unread
  remainder, and the members inserted are exactly the specification's members shifted by the
  bias and cut at `min(max_value, u32::MAX)` (`SpecMem`);
* it returns `Err` exactly when the specification's algorithm fails (stream too short);
* hence whenever the specification's algorithm succeeds, so does the decoder.
The early `break 'outer` in the leaf loop followed by `skip_nodes(queue.len())` is covered: it
is sound because the starts of the nodes of one layer ascend and are at least one node size
apart (`SepFrom`, preserved from layer to layer because a node has only `BF` child bits), so
everything still queued lies above the first out-of-range value.  `hbytes` only says that the
model's `Nat`s are bytes. -/
theorem decode_eq_spec (data : List Nat) (bias maxValue : Nat) (hbytes : ∀ b ∈ data, b < 256)
    (hh : ∀ b0 tl, data = b0 :: tl → b0 / 4 % 32 ≤ maxHeight (bfOfBits b0)) :
    (∀ ins rest, decode data bias maxValue = .ok ins rest →
      ∃ ivs, specDecode data = some (ivs, rest) ∧
        ∀ x, (∃ r ∈ ins, r.1 ≤ x ∧ x ≤ r.2) ↔ SpecMem ivs bias maxValue x) ∧
    (decode data bias maxValue = .error ↔ specDecode data = none) ∧
    (∀ ivs rest, specDecode data = some (ivs, rest) →
      ∃ ins, decode data bias maxValue = .ok ins rest) :=
  decode_vs_spec data bias maxValue hbytes hh

/-- early break: bias pushes the second leaf value over the maximum; the rest of the leaf layer
is skipped, and the remainder is still the specification's remainder -/
example : decode [0x0e, 0x21, 0x11, 0x01, 0x04, 0x02, 0x08, 0x77] 10 50
    = .ok [(12, 12), (43, 43)] [0x77] := by decide
example : specDecode [0x0e, 0x21, 0x11, 0x01, 0x04, 0x02, 0x08, 0x77]
    = some ([(2, 2), (33, 33), (323, 323)], [0x77]) := by decide
/-- a filled node (zero node) below the root -/
example : decode [0x09, 0x05, 0x00] 0 U32_MAX = .ok [(0, 3), (8, 11)] [] := by decide

/-! ## 3. decoding the encoding of a set returns that set, for every branch factor -/

/-- `to_sparse_bit_set_with_bf::<BF>` never reaches its `panic!("Height value exceeds the maximum
for this branch factor.")` for ascending `u32` members (`BF = 2` falls back to `BF = 4`). -/
theorem encodeBf_total (bf : Nat) (hbf : bf = 2 ∨ bf = 4 ∨ bf = 8 ∨ bf = 32) (members : List Nat)
    (hsorted : members.Pairwise (· < ·)) (hu32 : ∀ m ∈ members, m ≤ U32_MAX) :
    encodeBf bf members ≠ none := by
  obtain ⟨bytes, _, he, _⟩ := encodeBf_spec hbf members hsorted hu32
  rw [he]; simp

/-- Round trip, general form: for every branch factor, every ascending duplicate-free list of
`u32` members (of any size, with any number of filled nodes at any level), every bias and every
maximum, `from_sparse_bit_set_bounded(to_sparse_bit_set_with_bf::<BF>(set), bias, max)` is
`Ok`, leaves no unread bytes, and its members are exactly `{m + bias | m ∈ set}` cut at
`min(max, u32::MAX)`. -/
theorem decode_encodeBf_bounded (bf : Nat) (hbf : bf = 2 ∨ bf = 4 ∨ bf = 8 ∨ bf = 32)
    (members : List Nat) (hsorted : members.Pairwise (· < ·)) (hu32 : ∀ m ∈ members, m ≤ U32_MAX)
    (bytes : List Nat) (he : encodeBf bf members = some bytes) (bias maxValue : Nat) :
    ∃ ins, decode bytes bias maxValue = .ok ins [] ∧
      ∀ x, (∃ r ∈ ins, r.1 ≤ x ∧ x ≤ r.2) ↔
        (x ≤ maxValue ∧ x ≤ U32_MAX ∧ ∃ m ∈ members, x = m + bias) := by
  obtain ⟨bytes', ivs, he', hspec, hmem, hb, hh⟩ := encodeBf_spec hbf members hsorted hu32
  rw [he] at he'
  simp only [Option.some.injEq] at he'
  subst he'
  exact decode_of_spec hspec hmem hb hh bias maxValue

/-- Round trip: `from_sparse_bit_set(to_sparse_bit_set_with_bf::<BF>(set)) == set`, nothing left
unread, for every branch factor and every set of `u32`s. -/
theorem decode_encodeBf (bf : Nat) (hbf : bf = 2 ∨ bf = 4 ∨ bf = 8 ∨ bf = 32)
    (members : List Nat) (hsorted : members.Pairwise (· < ·)) (hu32 : ∀ m ∈ members, m ≤ U32_MAX)
    (bytes : List Nat) (he : encodeBf bf members = some bytes) :
    ∃ ins, decode bytes 0 U32_MAX = .ok ins [] ∧
      ∀ x, (∃ r ∈ ins, r.1 ≤ x ∧ x ≤ r.2) ↔ x ∈ members := by
  obtain ⟨ins, hd, hm⟩ := decode_encodeBf_bounded bf hbf members hsorted hu32 bytes he 0 U32_MAX
  refine ⟨ins, hd, fun x => ?_⟩
  rw [hm x]
  constructor
  · rintro ⟨_, _, m, hm, rfl⟩; exact hm
  · intro hx; exact ⟨hu32 x hx, hu32 x hx, x, hx, rfl⟩

/-- `to_sparse_bit_set` returns the FIRST SHORTEST of the admissible candidates
(`min_by_key(len)`): the candidate list (branch factors 2, 4, 8, 32 whose height is within
`max_height`, in this order) splits around the result into strictly longer candidates before
it and not shorter ones after it. -/
theorem encode_first_shortest (members : List Nat) (mx : Nat)
    (hlast : members.getLast? = some mx) (hsorted : members.Pairwise (· < ·))
    (hu32 : ∀ m ∈ members, m ≤ U32_MAX) :
    ∃ pre post,
      [2, 4, 8, 32].filterMap (fun bf =>
          if treeHeightFor bf mx ≤ maxHeight bf then encodeBf bf members else none)
        = pre ++ encode members :: post ∧
      (∀ c ∈ pre, (encode members).length < c.length) ∧
      (∀ c ∈ post, (encode members).length ≤ c.length) := by
  have hmx : mx ≤ U32_MAX := hu32 mx (List.mem_of_getLast? hlast)
  have hne := encodeCands_ne_nil hmx hsorted hu32
  rw [encode_some members mx hlast]
  change ∃ pre post, encodeCands members mx = _ ∧ _
  cases hc : encodeCands members mx with
  | nil => exact absurd hc hne
  | cons c cs =>
    obtain ⟨pre, post, e, a, b⟩ := foldl_min_spec cs [] c [] (by simp) (by simp)
    exact ⟨pre, post, by simpa using e, a, b⟩

/-- Round trip for `to_sparse_bit_set` (the automatically chosen branch factor), with bias and
maximum. -/
theorem decode_encode_bounded (members : List Nat) (hsorted : members.Pairwise (· < ·))
    (hu32 : ∀ m ∈ members, m ≤ U32_MAX) (bias maxValue : Nat) :
    ∃ ins, decode (encode members) bias maxValue = .ok ins [] ∧
      ∀ x, (∃ r ∈ ins, r.1 ≤ x ∧ x ≤ r.2) ↔
        (x ≤ maxValue ∧ x ≤ U32_MAX ∧ ∃ m ∈ members, x = m + bias) := by
  cases hl : members.getLast? with
  | none =>
    have hnil : members = [] := List.getLast?_eq_none_iff.mp hl
    subst hnil
    have : encode [] = [(0 % 32) * 4 + bitId 2] := encode_nil
    have he : encodeBf 2 [] = some (encode []) := by rw [this]; exact encodeBf_nil 2
    exact decode_encodeBf_bounded 2 (Or.inl rfl) [] hsorted hu32 _ he bias maxValue
  | some mx =>
    obtain ⟨pre, post, e, _, _⟩ := encode_first_shortest members mx hl hsorted hu32
    have hin : encode members ∈ encodeCands members mx := by
      simp only [encodeCands]; rw [e]; simp
    obtain ⟨bf, hbf, _, he⟩ := mem_encodeCands hin
    exact decode_encodeBf_bounded bf hbf members hsorted hu32 _ he bias maxValue

/-- Round trip: `from_sparse_bit_set(set.to_sparse_bit_set()) == set`. -/
theorem decode_encode (members : List Nat) (hsorted : members.Pairwise (· < ·))
    (hu32 : ∀ m ∈ members, m ≤ U32_MAX) :
    ∃ ins, decode (encode members) 0 U32_MAX = .ok ins [] ∧
      ∀ x, (∃ r ∈ ins, r.1 ≤ x ∧ x ≤ r.2) ↔ x ∈ members := by
  obtain ⟨ins, hd, hm⟩ := decode_encode_bounded members hsorted hu32 0 U32_MAX
  refine ⟨ins, hd, fun x => ?_⟩
  rw [hm x]
  constructor
  · rintro ⟨_, _, m, hm, rfl⟩; exact hm
  · intro hx; exact ⟨hu32 x hx, hu32 x hx, x, hx, rfl⟩

/-- an encoding with a filled node: {0,1,2,3,8} with BF = 4 is header (height 2), root `0101`,
a zero node for 0..=3, and the leaf `0001` for 8 -/
example : encodeBf 4 [0, 1, 2, 3, 8] = some [9, 5, 1] := by decide
example : decode [9, 5, 1] 0 U32_MAX = .ok [(0, 3), (8, 8)] [] := by decide
example : [0, 1, 2, 3, 8].Pairwise (· < ·) ∧ ∀ m ∈ [0, 1, 2, 3, 8], m ≤ U32_MAX := by decide
/-- BF = 2 cannot hold `u32::MAX` (height 32 > 31): the encoder falls back to BF = 4 -/
example : encodeBf 2 [4294967295] = some [65, 136, 136, 136, 136, 136, 136, 136, 136] := by
  decide
/-- the automatic choice takes the first shortest candidate (here BF = 2, 3 bytes, before the
equally short BF = 4 candidate `[9, 5, 1]`) -/
example : encode [0, 1, 2, 3, 8] = [16, 23, 5] := by decide
example : decode [16, 23, 5] 0 U32_MAX = .ok [(0, 3), (8, 8)] [] := by decide

/-! ## 4. building blocks -/

/-- `BranchFactor::tree_height_for(max)` is the least height whose tree covers `max`:
`h ≥ 1`, `max < BF^h`, and `BF^(h-1) ≤ max` when `max > 0`; and it is within `max_height` for
every `u32` unless `BF = 2`. -/
theorem treeHeightFor_char (bf : Nat) (hbf : bf = 2 ∨ bf = 4 ∨ bf = 8 ∨ bf = 32) (maxValue : Nat)
    (hm : maxValue ≤ U32_MAX) :
    1 ≤ treeHeightFor bf maxValue ∧ maxValue < bf ^ treeHeightFor bf maxValue ∧
      (0 < maxValue → bf ^ (treeHeightFor bf maxValue - 1) ≤ maxValue) ∧
      (bf ≠ 2 → treeHeightFor bf maxValue ≤ maxHeight bf) := by
  have sp := treeHeightFor_spec hbf maxValue (u32_lt_pow33 hbf hm)
  refine ⟨sp.1, sp.2.1, sp.2.2, fun h2 => ?_⟩
  rcases hbf with h | h | h | h
  · exact absurd h h2
  · exact treeHeightFor_le_maxHeight (Or.inl h) hm
  · exact treeHeightFor_le_maxHeight (Or.inr (Or.inl h)) hm
  · exact treeHeightFor_le_maxHeight (Or.inr (Or.inr h)) hm

/-- header byte round trip: `decode_header(write_header(bf, height))` for heights `≤ 31` -/
theorem header_roundtrip (bf : Nat) (hbf : bf = 2 ∨ bf = 4 ∨ bf = 8 ∨ bf = 32) (height : Nat)
    (hh : height ≤ 31) :
    (BitOut.new bf height).bytes = [(height % 32) * 4 + bitId bf] ∧
      bfOfBits ((height % 32) * 4 + bitId bf) = bf ∧
      ((height % 32) * 4 + bitId bf) / 4 % 32 = height ∧ (height % 32) * 4 + bitId bf < 256 := by
  refine ⟨by simp [BitOut.new, BitOut.bytes], bfOfBits_header hbf height, ?_, header_lt hbf height⟩
  rw [height_header hbf]; omega

/-- bit-stream round trip: after `write_header` and any sequence of `write_node(w)` (each `w`
fitting in `BF` bits), `InputBitStream::next` called as many times returns exactly the written
nodes, ends exactly at the end of the data (`bytes_consumed() == len`), and all bytes are
bytes. -/
theorem writeNode_nextNode_roundtrip (bf : Nat) (hbf : bf = 2 ∨ bf = 4 ∨ bf = 8 ∨ bf = 32)
    (height : Nat) (ws : List Nat) (hws : ∀ w ∈ ws, w < 2 ^ bf) :
    ∃ st, readNodes bf (ws.foldl (writeNode bf) (BitOut.new bf height)).bytes ws.length BitIn.start
        = some (ws, st) ∧
      bytesConsumed st = (ws.foldl (writeNode bf) (BitOut.new bf height)).bytes.length ∧
      (∀ b ∈ (ws.foldl (writeNode bf) (BitOut.new bf height)).bytes, b < 256) := by
  obtain ⟨st, h1, h2, h3, _⟩ := readNodes_written hbf height ws hws
  exact ⟨st, h1, h2, h3⟩

example : ([1, 2, 3, 0, 1].foldl (writeNode 2) (BitOut.new 2 3)).bytes = [12, 0x39, 0x01] := by
  decide

end FontVerif.C14Codec
