/-
C01 (hand-written code) — termination, iteration bounds, in-range indices / slices and absence of arithmetic
traps for the models of Model/HandColr.lean ⇄ read-fonts/src/tables/colr.rs / colr/closure.rs / cpal.rs / svg.rs / stat.rs / hdmx.rs / vorg.rs / gasp.rs / meta.rs / tables.rs / offset_array.rs helpers.
Tied to the real functions by harness group `colr.model` (`hc.*` driver commands).

All statements hold for EVERY table: the record arrays may be unsorted or hold duplicates (the binary
search is the transcription of core's `binary_search_by`, whose `Ok(i)` is in range for every comparison
function), counts and offsets are arbitrary.  `Bytes d` (every element of the data is a byte) is only
needed where a field's width matters (`u16 + u16` cannot overflow a `usize`, `num_layers: u8 ≤ 255`).
-/
import FontVerif.Model.HandColr
import FontVerif.Lemmas.ReadIter
import FontVerif.Lemmas.HandColr
set_option linter.unusedVariables false
set_option linter.unusedSimpArgs false
namespace FontVerif.C01HandColr
open FontVerif FontVerif.ReadIter FontVerif.HandRead FontVerif.HandColr FontVerif.Layout

example : Bytes [0, 1, 255] := by unfold Bytes; decide

/-! ## record arrays handed out by the nullable-offset getters -/

/-- **a resolved record array lies inside the table**: `Some(Ok(..))` means the `count` records of
`size` bytes start at a non-null offset and end within the data. -/
theorem resolveArray_in_bounds (len off count size a : Nat)
    (h : resolveArray len off count size = some (.ok a)) :
    a = off ∧ 0 < off ∧ off + count * size ≤ len := by
  unfold resolveArray at h
  split at h
  · cases h
  · split at h
    · cases h
    · split at h
      · injection h with h; injection h with h
        refine ⟨h.symm, by omega, by omega⟩
      · cases h

/-- **a resolved v1 list table lies inside the table**, and holds exactly `count` records -/
theorem resolveList_in_bounds {α : Type} (d : List Nat) (off? : Option Nat) (hdr size : Nat) (f : Nat → α)
    (l : ListT α) (hhdr : 4 ≤ hdr) (h : resolveList d off? hdr size f = some (.ok l)) :
    0 < l.at_ ∧ l.at_ + hdr + l.recs.length * size ≤ d.length := by
  unfold resolveList at h
  split at h
  · cases h
  · rename_i off
    split at h
    · cases h
    · split at h
      · cases h
      · split at h
        · cases h
        · rename_i count hc
          split at h
          · injection h with h; injection h with h
            subst h
            simp only [records_length]
            refine ⟨by omega, by omega⟩
          · cases h

/-! ## `Colr::v0_base_glyph` / `v0_layer` -/

/-- **`v0_base_glyph` never panics and hands out a well-formed layer range**: for every table and glyph
id the `&records[ix]` after the binary search is in range (also for unsorted / duplicate records) and
`first_layer_index + num_layers` cannot overflow; a returned range `start..end` is that of a record
with the requested glyph id, `start ≤ end ≤ start + 0xFFFF`. -/
theorem v0Range_safe (recs : List BaseGlyph) (gid : Nat)
    (h16 : ∀ r ∈ recs, r.first < 65536 ∧ r.num < 65536) :
    v0Range recs gid ≠ .trap ∧
    ∀ s e, v0Range recs gid = .ok (some (s, e)) →
      ∃ r ∈ recs, r.gid = gid ∧ s = r.first ∧ e = r.first + r.num ∧ s ≤ e ∧ e ≤ s + 65535 := by
  unfold v0Range
  cases hb : binarySearchBy recs.length (fun i => natCmp (recs.getD i default).gid gid) with
  | err i => simp
  | ok ix =>
    obtain ⟨hlt, heq⟩ := bs_ok_lt hb
    have hget : recs[ix]? = some recs[ix] := List.getElem?_eq_getElem hlt
    have hmem : recs[ix] ∈ recs := List.getElem_mem hlt
    have hr := h16 _ hmem
    have hgid : recs[ix].gid = gid := by
      have : (recs.getD ix default) = recs[ix] := by simp [List.getD, hget]
      simp only [this, natCmp] at heq
      split at heq
      · cases heq
      · split at heq
        · assumption
        · cases heq
    have hadd : addU recs[ix].first recs[ix].num = some (recs[ix].first + recs[ix].num) := by
      unfold addU checkedAdd MAXU; split
      · rfl
      · omega
    simp only [hget, hadd]
    refine ⟨by simp, ?_⟩
    intro s e hse
    injection hse with hse; injection hse with hse; injection hse with h1 h2
    exact ⟨recs[ix], hmem, hgid, h1.symm, h2.symm, by omega, by omega⟩

/-- the range is reachable, also in an unsorted array with duplicates; a glyph the search misses is `None` -/
example : v0Range [⟨9, 1, 2⟩, ⟨5, 0xFFFF, 0xFFFF⟩] 5 = .ok (some (65535, 131070)) := by
  simp [v0Range, binarySearchBy, bsLoop, natCmp, addU, checkedAdd, MAXU]
example : v0Range [⟨9, 1, 2⟩, ⟨5, 0xFFFF, 0xFFFF⟩] 9 = .ok none := by
  simp [v0Range, binarySearchBy, bsLoop, natCmp, addU, checkedAdd, MAXU]

/-- the records of a parsed table hold `u16` fields -/
theorem baseGlyphRecords_u16 (t : Colr) (hb : Bytes t.d) (recs : List BaseGlyph)
    (h : t.baseGlyphRecords = some (.ok recs)) :
    recs.length = t.numBase ∧ ∀ r ∈ recs, r.gid < 65536 ∧ r.first < 65536 ∧ r.num < 65536 := by
  unfold Colr.baseGlyphRecords at h
  split at h
  · cases h
  · cases h
  · injection h with h; injection h with h
    subst h
    refine ⟨records_length _ _ _ _, ?_⟩
    intro r hr
    obtain ⟨i, _, rfl⟩ := mem_records hr
    exact ⟨be2_lt _ hb _, be2_lt _ hb _, be2_lt _ hb _⟩

/-- **`Colr::v0_base_glyph` on table bytes**: no panic for any table and any `GlyphId`; `Ok(Some(a..b))`
only for a 16-bit glyph id, with `a ≤ b ≤ a + 0xFFFF`. -/
theorem v0BaseGlyph_safe (t : Colr) (hb : Bytes t.d) (gid : Nat) :
    v0BaseGlyph t gid ≠ .trap ∧
    ∀ s e, v0BaseGlyph t gid = .ok (some (s, e)) → gid ≤ 65535 ∧ s ≤ e ∧ e ≤ s + 65535 := by
  unfold v0BaseGlyph orNull
  cases hr : t.baseGlyphRecords with
  | none => simp
  | some x =>
    cases x with
    | error e => simp
    | ok recs =>
      simp only []
      by_cases hg : gid > 65535
      · simp [hg]
      · simp only [hg, ↓reduceIte]
        have h16 := (baseGlyphRecords_u16 t hb recs hr).2
        have := v0Range_safe recs gid (fun r hr => ⟨(h16 r hr).2.1, (h16 r hr).2.2⟩)
        refine ⟨this.1, ?_⟩
        intro s e hse
        obtain ⟨r, _, _, _, _, h1, h2⟩ := this.2 s e hse
        exact ⟨by omega, h1, h2⟩

/-- **`v0_layer` answers exactly the indices inside the layer array**: `Ok` iff the array resolves and
`index < num_layer_records`; every index of a range handed out by `v0_base_glyph` that lies beyond the
array is an `Err(OutOfBounds)`, never a panic. -/
theorem v0Layer_ok_iff (t : Colr) (index : Nat) :
    (∃ l, v0Layer t index = .ok l) ↔ ∃ ls, t.layerRecords = some (.ok ls) ∧ index < ls.length := by
  unfold v0Layer v0LayerOf orNull
  cases hr : t.layerRecords with
  | none => simp
  | some x =>
    cases x with
    | error e => simp
    | ok ls =>
      simp only []
      by_cases hi : index < ls.length
      · simp [List.getElem?_eq_getElem hi, hi]
      · have : ls[index]? = none := List.getElem?_eq_none_iff.mpr (by omega)
        simp [this, hi]

theorem v0Layer_no_trap (t : Colr) (index : Nat) : v0Layer t index ≠ .trap := by
  unfold v0Layer v0LayerOf orNull
  cases t.layerRecords with
  | none => simp
  | some x => cases x with
    | error e => simp
    | ok ls => simp only []; cases ls[index]? <;> simp

/-! ## `Colr::v1_base_glyph` / `v1_layer` / `v1_clip_box` -/

/-- a resolved paint lies inside the table with all the bytes of its format -/
theorem resolvePaint_in_bounds (d : List Nat) (base off fmt p : Nat)
    (h : resolvePaint d base off = .ok (fmt, p)) :
    p = base + off ∧ 0 < off ∧ ∃ sz, paintSize fmt = some sz ∧ p + sz ≤ d.length ∧ p < d.length ∧ 3 ≤ sz := by
  unfold resolvePaint at h
  split at h
  · cases h
  · split at h
    · cases h
    · split at h
      · cases h
      · rename_i f hf
        injection h with h; injection h with h1 h2
        subst h1; subst h2
        unfold paintRead at hf
        split at hf
        · cases hf
        · rename_i fmt' hfmt
          split at hf
          · cases hf
          · rename_i sz hsz
            split at hf
            · injection hf with hf
              subst hf
              have h3 : 3 ≤ sz := by
                unfold paintSize at hsz
                split at hsz <;> first | (injection hsz with hsz; omega) | cases hsz
              exact ⟨rfl, by omega, sz, hsz, by omega, by omega, h3⟩
            · cases hf

/-- **`v1_base_glyph` never panics; the paint it hands out lies inside the table.** -/
theorem v1BaseGlyph_safe (t : Colr) (gid : Nat) :
    v1BaseGlyph t gid ≠ .trap ∧
    ∀ fmt p, v1BaseGlyph t gid = .ok (some (fmt, p)) →
      gid ≤ 65535 ∧ ∃ sz, paintSize fmt = some sz ∧ p + sz ≤ t.d.length := by
  unfold v1BaseGlyph
  by_cases hg : gid > 65535
  · simp [hg]
  · simp only [hg, ↓reduceIte]
    unfold orNull
    cases hl : t.baseGlyphList with
    | none => simp
    | some x =>
      cases x with
      | error e => simp
      | ok l =>
        simp only []
        have hfind : v1Find l.recs gid ≠ .trap ∧ ∀ r, v1Find l.recs gid = .ok (some r) → r ∈ l.recs := by
          unfold v1Find
          cases hb : binarySearchBy l.recs.length (fun i => natCmp (l.recs.getD i default).gid gid) with
          | err i => simp
          | ok ix =>
            have hlt := (bs_ok_lt hb).1
            simp only [List.getElem?_eq_getElem hlt]
            refine ⟨by simp, ?_⟩
            intro r hr
            injection hr with hr; injection hr with hr
            subst hr
            exact List.getElem_mem hlt
        cases hf : v1Find l.recs gid with
        | trap => exact absurd hf hfind.1
        | err e => simp
        | ok o =>
          cases o with
          | none => simp
          | some r =>
            simp only []
            cases hp : resolvePaint t.d l.at_ r.off with
            | error e => simp
            | ok q =>
              refine ⟨by simp, ?_⟩
              intro fmt p h
              injection h with h; injection h with h
              subst h
              obtain ⟨_, _, sz, h1, h2, _⟩ := resolvePaint_in_bounds _ _ _ _ _ hp
              exact ⟨by omega, sz, h1, h2⟩

/-- **`v1_layer(index)` is `Ok` only for `index < num_layers`, with the paint inside the table.** -/
theorem v1Layer_safe (t : Colr) (index : Nat) :
    v1Layer t index ≠ .trap ∧
    ∀ fmt p, v1Layer t index = .ok (fmt, p) →
      (∃ l, t.layerList = some (.ok l) ∧ index < l.recs.length) ∧
      ∃ sz, paintSize fmt = some sz ∧ p + sz ≤ t.d.length := by
  unfold v1Layer orNull
  cases hl : t.layerList with
  | none => simp
  | some x =>
    cases x with
    | error e => simp
    | ok l =>
      simp only []
      by_cases hi : index < l.recs.length
      · simp only [List.getElem?_eq_getElem hi]
        cases hp : resolvePaint t.d l.at_ l.recs[index] with
        | error e => simp
        | ok q =>
          refine ⟨by simp, ?_⟩
          intro fmt p h
          injection h with h
          subst h
          obtain ⟨_, _, sz, h1, h2, _⟩ := resolvePaint_in_bounds _ _ _ _ _ hp
          exact ⟨⟨l, rfl, hi⟩, sz, h1, h2⟩
      · have : l.recs[index]? = none := List.getElem?_eq_none_iff.mpr (by omega)
        simp [this]

/-- **`v1_clip_box` never panics; the box it hands out belongs to a clip record whose glyph range
contains the glyph and lies inside the table** (9 bytes for format 1, 13 for format 2). -/
theorem v1ClipBox_safe (t : Colr) (gid : Nat) :
    v1ClipBox t gid ≠ .trap ∧
    ∀ fmt p, v1ClipBox t gid = .ok (some (fmt, p)) →
      gid ≤ 65535 ∧
      (∃ l c, t.clipList = some (.ok l) ∧ c ∈ l.recs ∧ c.start ≤ gid ∧ gid ≤ c.end_ ∧ p = l.at_ + c.off) ∧
      ((fmt = 1 ∧ p + 9 ≤ t.d.length) ∨ (fmt = 2 ∧ p + 13 ≤ t.d.length)) := by
  unfold v1ClipBox
  by_cases hg : gid > 65535
  · simp [hg]
  · simp only [hg, ↓reduceIte]
    unfold orNull
    cases hl : t.clipList with
    | none => simp
    | some x =>
      cases x with
      | error e => simp
      | ok l =>
        simp only []
        cases hb : binarySearchBy l.recs.length (fun i => clipCmp (l.recs.getD i default) gid) with
        | err i => simp
        | ok ix =>
          obtain ⟨hlt, heq⟩ := bs_ok_lt hb
          have hget : l.recs[ix]? = some l.recs[ix] := List.getElem?_eq_getElem hlt
          have hD : l.recs.getD ix default = l.recs[ix] := by simp [List.getD, hget]
          simp only [hget]
          cases hc : resolveClipBox t.d l.at_ l.recs[ix].off with
          | error e => simp
          | ok q =>
            refine ⟨by simp, ?_⟩
            intro fmt p h
            injection h with h; injection h with h
            subst h
            have hin : l.recs[ix].start ≤ gid ∧ gid ≤ l.recs[ix].end_ := by
              rw [hD] at heq
              unfold clipCmp at heq
              split at heq
              · cases heq
              · split at heq
                · cases heq
                · omega
            unfold resolveClipBox at hc
            split at hc
            · cases hc
            · split at hc
              · cases hc
              · split at hc
                · cases hc
                · rename_i f hf
                  split at hc
                  · split at hc
                    · injection hc with hc; injection hc with h1 h2
                      exact ⟨by omega, ⟨l, l.recs[ix], rfl, List.getElem_mem hlt, hin.1, hin.2, h2.symm⟩,
                        Or.inl ⟨h1.symm, by omega⟩⟩
                    · cases hc
                  · split at hc
                    · split at hc
                      · injection hc with hc; injection hc with h1 h2
                        exact ⟨by omega, ⟨l, l.recs[ix], rfl, List.getElem_mem hlt, hin.1, hin.2, h2.symm⟩,
                          Or.inr ⟨h1.symm, by omega⟩⟩
                      · cases hc
                    · cases hc

/-! ## COLR v0 closures -/

/-- one member of the glyph set: no panic, at most `0xFFFF` trips of the layer loop -/
theorem v0ClosureStep_total (t : Colr) (recs : List BaseGlyph) (pick : Layer → Nat)
    (h16 : ∀ r ∈ recs, r.first < 65536 ∧ r.num < 65536) (acc : List Nat) (gid : Nat) :
    ∃ out, v0ClosureStep t recs pick acc gid = some out ∧ out.length ≤ acc.length + 65535 := by
  unfold v0ClosureStep
  by_cases hg : gid > 65535
  · simp [hg]
  · simp only [hg, ↓reduceIte]
    have hs := v0Range_safe recs gid h16
    cases hr : v0Range recs gid with
    | trap => exact absurd hr hs.1
    | err e => exact ⟨acc, rfl, by omega⟩
    | ok o =>
      cases o with
      | none => exact ⟨acc, rfl, by omega⟩
      | some p =>
        obtain ⟨s, e⟩ := p
        obtain ⟨r, _, _, _, _, h1, h2⟩ := hs.2 s e hr
        refine ⟨_, rfl, ?_⟩
        have := v0LayerLoop_length t pick s e acc
        omega

theorem v0ClosureLoop_total (t : Colr) (recs : List BaseGlyph) (pick : Layer → Nat)
    (h16 : ∀ r ∈ recs, r.first < 65536 ∧ r.num < 65536) :
    ∀ (gs acc : List Nat), ∃ out, v0ClosureLoop t recs pick gs acc = some out ∧
      out.length ≤ acc.length + gs.length * 65535 := by
  intro gs
  induction gs with
  | nil => intro acc; exact ⟨acc, rfl, by simp⟩
  | cons g gs ih =>
    intro acc
    obtain ⟨a1, h1, l1⟩ := v0ClosureStep_total t recs pick h16 acc g
    obtain ⟨a2, h2, l2⟩ := ih a1
    refine ⟨a2, by simp only [v0ClosureLoop, h1, h2], ?_⟩
    simp only [List.length_cons, Nat.succ_mul]
    omega

/-- **the COLR v0 closures terminate without panic for every table and glyph set**, after at most
`0xFFFF` trips of the layer loop per member of the glyph set (the `start..end` range comes from two
`u16` fields); every `v0_layer` call beyond the layer array is an `Err`, not a panic
(`v0Layer_ok_iff`). -/
theorem v0Closure_total (t : Colr) (hb : Bytes t.d) (glyphs : List Nat) :
    (∃ out, v0ClosureGlyphs t glyphs = some out ∧ out.length ≤ glyphs.length + glyphs.length * 65535) ∧
    (∃ out, v0ClosurePalettes t glyphs = some out ∧ out.length ≤ glyphs.length * 65535) := by
  unfold v0ClosureGlyphs v0ClosurePalettes
  cases hr : t.baseGlyphRecords with
  | none => exact ⟨⟨glyphs, rfl, by omega⟩, ⟨[], rfl, by simp⟩⟩
  | some x =>
    cases x with
    | error e => exact ⟨⟨glyphs, rfl, by omega⟩, ⟨[], rfl, by simp⟩⟩
    | ok recs =>
      have h16 := (baseGlyphRecords_u16 t hb recs hr).2
      have h16' : ∀ r ∈ recs, r.first < 65536 ∧ r.num < 65536 := fun r hr => ⟨(h16 r hr).2.1, (h16 r hr).2.2⟩
      obtain ⟨o1, e1, l1⟩ := v0ClosureLoop_total t recs (·.gid) h16' glyphs glyphs
      obtain ⟨o2, e2, l2⟩ := v0ClosureLoop_total t recs (·.pal) h16' glyphs []
      exact ⟨⟨o1, e1, l1⟩, ⟨o2, e2, by simpa using l2⟩⟩

/-! ## COLR v1 closure -/

/-- **the COLR v1 closure terminates within a bound linear in the number of paints, on every paint graph
— cyclic, shared, arbitrarily deep**: the model's fuel (65 for the 64 nesting levels) is never
exhausted, no `u8` / index panic occurs (`nesting_level_left` returns to 64; the `&records[ix]` of
`PaintColrGlyph` is in range for unsorted records too), every paint body runs at most once (the visited
set is duplicate free and holds only positions of paints), and the total number of `dispatch` calls is
at most `#base records + 255 · #visited paints`. -/
theorem v1Closure_bounded (G : Graph) (hG : LayersU8 G)
    (clips : Option (List (Nat × Nat × Option (Option Nat)))) (glyphSet : List Nat) :
    let c := (v1Closure G clips glyphSet).1
    c.starved = false ∧ c.trap = false ∧ c.level = 64 ∧ Vis G c ∧
    c.calls ≤ G.numRoots + 255 * c.visited.length := by
  have hroots : Step G {} (v1Roots G glyphSet) G.numRoots := by
    unfold v1Roots Graph.numRoots
    cases hb : G.baseList with
    | none => exact step_refl _
    | some recs =>
      simp only []
      have hrec : ∀ (c : Ctx) (p : Nat), c.level = 64 → Step G c (dispatch G 65 c p) 1 :=
        fun c p hl => dispatch_step hG 64 c p (by omega) (by omega)
      refine step_mono (dispatchAll_step hrec _ {} rfl) ?_
      exact List.length_filterMap_le _ _
  have hcore : core (v1Closure G clips glyphSet).1 = core (v1Roots G glyphSet) := by
    unfold v1Closure
    simp only []
    cases clips with
    | none => rfl
    | some cl => simp only []; rw [core_v1Clips]; rfl
  obtain ⟨h1, h2, h3, ⟨ext, h4⟩, h5, h6⟩ := hroots
  simp only [core, Prod.mk.injEq] at hcore
  obtain ⟨c1, c2, c3, c4, c5⟩ := hcore
  have hvis0 : Vis G ({} : Ctx) := ⟨List.nodup_nil, by intro v hv; cases hv⟩
  have hvis := h6 hvis0
  simp only []
  refine ⟨by rw [c5, h1], by rw [c4, h2], by rw [c2, h3], ?_, ?_⟩
  · unfold Vis at *; rw [c1]; exact hvis
  · rw [c3, c1]
    have : ({} : Ctx).visited.length = 0 := rfl
    have : ({} : Ctx).calls = 0 := rfl
    omega

/-- hypothesis of `v1Closure_bounded` is satisfiable, and the bound is attained by a self-referencing
glyph: one record, `PaintColrGlyph` painting itself -/
example : LayersU8 ⟨fun p => if p = 10 then some (.colrGlyph 7) else none, none, some [(7, some 10)]⟩ := by
  intro p num first h
  simp only at h
  split at h <;> simp at h

example :
    let G : Graph := ⟨fun p => if p = 10 then some (.colrGlyph 7) else none, none, some [(7, some 10)]⟩
    let c := (v1Closure G none [7]).1
    c.calls = 2 ∧ c.visited = [10] ∧ c.glyphs = [7] := by decide +kernel

/-! ### the graph of table bytes -/

/-- **every paint the closure dispatches is a node of the graph**: a child / layer / base-glyph paint
that resolves (`resolvePaint … = ok`) has a node at its position — the `none` arm of the model's
`dispatch` is not reachable on table bytes. -/
theorem resolvePaint_node (d : List Nat) (base off fmt q : Nat) (h : resolvePaint d base off = .ok (fmt, q)) :
    (nodeAt d q).isSome = true := by
  unfold resolvePaint at h
  split at h
  · cases h
  · split at h
    · cases h
    · split at h
      · cases h
      · rename_i f hf
        injection h with h; injection h with h1 h2
        subst h2
        unfold nodeAt
        rw [hf]
        simp only []
        unfold paintRead at hf
        split at hf
        · cases hf
        · split at hf
          · cases hf
          · rename_i sz hsz
            split at hf
            · injection hf with hf
              subst hf
              rw [hsz]
              rfl
            · cases hf

theorem graphOf_layersU8 (t : Colr) (hb : Bytes t.d) : LayersU8 (graphOf t) := by
  intro p num first h
  have h : nodeAt t.d p = some (.layers num first) := h
  unfold nodeAt at h
  split at h
  · cases h
  · rename_i fmt hf
    split at h
    · cases h
    · rename_i sz hsz
      injection h with h
      by_cases h1 : fmt = 1
      · rw [if_pos h1] at h
        injection h with h1 h2
        rw [← h1]
        have := be1_lt t.d hb (p + 1)
        omega
      · rw [if_neg h1] at h
        exfalso
        revert h
        repeat' split
        all_goals (intro h; cases h)

/-- **`Colr::v1_closure` on table bytes**: never starved, no panic, at most one body per byte of the
table and at most `256 · len` `dispatch` calls — linear in the table length, whatever cycles, sharing or
nesting depth the paint graph has. -/
theorem v1ClosureOf_bounded (t : Colr) (hb : Bytes t.d) (glyphSet : List Nat) :
    let c := (v1ClosureOf t glyphSet).1
    c.starved = false ∧ c.trap = false ∧ c.visited.length ≤ t.d.length ∧ c.calls ≤ 256 * t.d.length := by
  unfold v1ClosureOf
  by_cases hv : t.version < 1
  · rw [if_pos hv]
    exact ⟨rfl, rfl, Nat.zero_le _, Nat.zero_le _⟩
  · rw [if_neg hv]
    have h := v1Closure_bounded (graphOf t) (graphOf_layersU8 t hb) (clipsOf t) glyphSet
    simp only [] at h ⊢
    obtain ⟨h1, h2, h3, ⟨hnd, hprov⟩, h5⟩ := h
    have hlen : ((v1Closure (graphOf t) (clipsOf t) glyphSet).1).visited.length ≤ t.d.length := by
      apply nodup_length_le _ _ hnd
      intro v hvm
      obtain ⟨p, hp, rfl⟩ := hprov v hvm
      have := nodeAt_some_lt t.d p hp
      have : p % 4294967296 ≤ p := Nat.mod_le _ _
      omega
    have hroots : (graphOf t).numRoots ≤ t.d.length := by
      unfold Graph.numRoots graphOf
      simp only []
      cases hl : t.baseGlyphList with
      | none => simp
      | some x =>
        cases x with
        | error e => simp
        | ok l =>
          simp only [List.length_map]
          have := resolveList_in_bounds t.d _ 4 6 _ l (by omega) hl
          omega
    exact ⟨h1, h2, hlen, by omega⟩

/-! ## `Svg::glyph_data` -/

/-- **the document slice handed out by `Svg::glyph_data` lies inside the document list's data**: it is
`offset .. offset + length` of a record whose glyph range contains the glyph, the sum did not overflow
and `end ≤ data.len()` — for unsorted / overlapping records as well. -/
theorem svgDoc_in_bounds (recs : List SvgRec) (dataLen gid s e : Nat)
    (h : svgDoc recs dataLen gid = some (s, e)) :
    s ≤ e ∧ e ≤ dataLen ∧ ∃ r ∈ recs, r.start ≤ gid ∧ gid ≤ r.end_ ∧ s = r.off ∧ e = r.off + r.len := by
  unfold svgDoc at h
  split at h
  · cases h
  · rename_i ix hb
    obtain ⟨hlt, heq⟩ := bs_ok_lt hb
    have hget : recs[ix]? = some recs[ix] := List.getElem?_eq_getElem hlt
    simp only [hget] at h
    unfold checkedAdd at h
    split at h
    · cases h
    · rename_i e' he
      split at he
      · injection he with he
        split at h
        · injection h with h; injection h with h1 h2
          have hin : recs[ix].start ≤ gid ∧ gid ≤ recs[ix].end_ := by
            simp only [List.getD, hget, Option.getD_some] at heq
            unfold svgCmp at heq
            split at heq
            · cases heq
            · split at heq
              · cases heq
              · omega
          exact ⟨by omega, by omega, recs[ix], List.getElem_mem hlt, hin.1, hin.2, h1.symm, by omega⟩
        · cases h
      · cases he

/-! ## `Hdmx::record_for_size` -/

/-- **`Hdmx::record_for_size` terminates after at most ⌈log₂⌉ trips, without overflow in `lo + hi` /
`mid + 1`** (a slice holds at most `isize::MAX` bytes, so `len() ≤ usize::MAX / 2`), for sorted and
unsorted device records, every record size (0 included) and every `num_glyphs`; a returned record is one
that `ComputedArray::get` read in bounds and whose pixel size is the requested one. -/
theorem hdmxLoop_total (a : HdmxArr) (size : Nat) :
    ∀ (fuel lo hi trips : Nat), lo ≤ hi → hi ≤ MAXU / 2 → bitLen (hi - lo) < fuel →
      ∃ r n, hdmxLoop a size fuel lo hi trips = some (r, n) ∧ r ≠ .trap ∧ n ≤ trips + bitLen (hi - lo) ∧
        ∀ st, r = .ok (some st) → ∃ idx, idx < hi ∧ a.get idx = some (st, size) := by
  intro fuel
  induction fuel with
  | zero => intro lo hi trips _ _ h; omega
  | succ f ih =>
    intro lo hi trips hle hmax hf
    unfold hdmxLoop
    by_cases hlt : lo < hi
    · simp only [hlt, ↓reduceIte]
      unfold hdmxStep addU checkedAdd
      have h1 : lo + hi ≤ MAXU := by unfold MAXU at *; omega
      simp only [h1, ↓reduceIte]
      have hb1 : bitLen 0 = 0 := by simp [bitLen]
      have hpos : 1 ≤ bitLen (hi - lo) := by
        have := bitLen_mono_half (hi - lo) 0 (by omega) (by omega)
        omega
      cases hg : a.get ((lo + hi) / 2) with
      | none => exact ⟨.ok none, trips + 1, rfl, by simp, by omega, by intro st h; cases h⟩
      | some q =>
        obtain ⟨start, px⟩ := q
        simp only []
        by_cases hlt2 : px < size
        · simp only [hlt2, ↓reduceIte]
          have h2 : (lo + hi) / 2 + 1 ≤ MAXU := by unfold MAXU at *; omega
          simp only [h2, ↓reduceIte]
          have hm := bitLen_mono_half (hi - lo) (hi - ((lo + hi) / 2 + 1)) (by omega) (by omega)
          obtain ⟨r, n, e, hr, hn, hst⟩ := ih ((lo + hi) / 2 + 1) hi (trips + 1) (by omega) hmax (by omega)
          exact ⟨r, n, e, hr, by omega, hst⟩
        · simp only [hlt2, ↓reduceIte]
          by_cases hgt : px > size
          · simp only [hgt, ↓reduceIte]
            have hm := bitLen_mono_half (hi - lo) ((lo + hi) / 2 - lo) (by omega) (by omega)
            obtain ⟨r, n, e, hr, hn, hst⟩ := ih lo ((lo + hi) / 2) (trips + 1) (by omega) (by omega) (by omega)
            refine ⟨r, n, e, hr, by omega, ?_⟩
            intro st h
            obtain ⟨idx, hi1, hi2⟩ := hst st h
            exact ⟨idx, by omega, hi2⟩
          · simp only [hgt, ↓reduceIte]
            have hpx : px = size := by omega
            refine ⟨.ok (some start), trips + 1, rfl, by simp, by omega, ?_⟩
            intro st h
            injection h with h; injection h with h
            subst h; subst hpx
            exact ⟨(lo + hi) / 2, by omega, hg⟩
    · simp only [hlt, ↓reduceIte]
      exact ⟨.ok none, trips, rfl, by simp, by omega, by intro st h; cases h⟩

/-- a record `ComputedArray::get` reads lies inside the record bytes -/
theorem hdmxGet_in_bounds (a : HdmxArr) (idx st px : Nat) (h : a.get idx = some (st, px)) :
    st = idx * a.itemLen ∧ st + 2 + a.numGlyphs ≤ a.area.length ∧ px = a.area.getD st 0 := by
  unfold HdmxArr.get checkedMul at h
  split at h
  · cases h
  · rename_i s hs
    split at hs
    · injection hs with hs
      split at h
      · injection h with h; injection h with h1 h2
        subst h1
        exact ⟨by omega, by omega, h2.symm⟩
      · cases h
    · cases hs

theorem hdmxRecordForSize_total (a : HdmxArr) (size : Nat) (hlen : a.area.length ≤ MAXU / 2) :
    ∃ r n, hdmxRecordForSize a size = some (r, n) ∧ r ≠ .trap ∧ n ≤ bitLen a.len ∧
      ∀ st, r = .ok (some st) → st + 2 + a.numGlyphs ≤ a.area.length ∧ a.area.getD st 0 = size := by
  have hl : a.len ≤ a.area.length := by
    unfold HdmxArr.len compLen; split
    · omega
    · exact Nat.div_le_self _ _
  obtain ⟨r, n, e, hr, hn, hst⟩ := hdmxLoop_total a size (a.len + 1) 0 a.len 0 (by omega) (by omega)
    (by have := bitLen_le_self (a.len - 0); omega)
  refine ⟨r, n, e, hr, by simpa using hn, ?_⟩
  intro st h
  obtain ⟨idx, _, hg⟩ := hst st h
  obtain ⟨_, h2, h3⟩ := hdmxGet_in_bounds a idx st size hg
  exact ⟨h2, h3.symm⟩

/-- a hit after two trips in a table of three 4-byte records (`num_glyphs = 2`) -/
example : hdmxRecordForSize ⟨[10, 9, 1, 2, 12, 9, 1, 2, 20, 9, 1, 2], 4, 2⟩ 20 = some (.ok (some 8), 2) := by decide +kernel

/-- the size hypothesis holds for every slice (`≤ isize::MAX` bytes) -/
example : ([10, 9, 1, 2] : List Nat).length ≤ MAXU / 2 := by decide

/-- at most 16 trips for the `u16` record count of an hdmx table -/
example : bitLen 65535 ≤ 16 := bitLen_le_of_lt_pow 16 65535 (by decide)

/-! ## `Vorg::vertical_origin_y` -/

/-- the result is the default or the `vert_origin_y` of a record with the requested glyph index
(`metrics.get(ix)` after `Ok(ix)` never falls back to `0`) -/
theorem vorgY_from_table (recs : List (Nat × Nat)) (dflt gid : Nat) :
    vorgY recs dflt gid = dflt ∨ ∃ r ∈ recs, r.1 = gid ∧ vorgY recs dflt gid = r.2 := by
  unfold vorgY
  cases hb : binarySearchBy recs.length (fun i => natCmp (recs.getD i default).1 gid) with
  | err i => exact Or.inl rfl
  | ok ix =>
    obtain ⟨hlt, heq⟩ := bs_ok_lt hb
    have hget : recs[ix]? = some recs[ix] := List.getElem?_eq_getElem hlt
    have hD : recs.getD ix default = recs[ix] := by simp [List.getD, hget]
    simp only [hget]
    refine Or.inr ⟨recs[ix], List.getElem_mem hlt, ?_, rfl⟩
    rw [hD] at heq
    unfold natCmp at heq
    split at heq
    · cases heq
    · split at heq
      · assumption
      · cases heq

/-! ## `DataMapRecord::data` / `Metadata::read_with_args` -/

/-- **the metadata slice lies inside the table**: `Ok` means a non-null offset and
`offset + length ≤ len` (no wrap-around: `split_off` then `slice(0..len)`). -/
theorem metaData_in_bounds (dataLen off len a b : Nat) (lang l : Bool)
    (h : metaData dataLen off len lang = .ok (a, b, l)) :
    a = off ∧ b = off + len ∧ 0 < off ∧ b ≤ dataLen ∧ l = lang := by
  unfold metaData at h
  split at h
  · cases h
  · split at h
    · cases h
    · split at h
      · injection h with h; injection h with h1 h; injection h with h2 h3
        exact ⟨h1.symm, h2.symm, by omega, by omega, h3.symm⟩
      · cases h

/-! ## `compute_checksum` -/

/-- **`compute_checksum` makes exactly ⌊len / 4⌋ trips of the quad loop, handles the 0–3 remaining
bytes without indexing, and every `u32` addition wraps** (`wrapping_add`): the result is a `u32`. -/
theorem computeChecksum_total (d : List Nat) :
    (computeChecksum d).2 = d.length / 4 ∧ (computeChecksum d).1 < 4294967296 := by
  unfold computeChecksum
  have := checksumLoop_spec d 0 0
  simp only []
  exact ⟨by omega, Nat.mod_lt _ (by decide)⟩

/-! ## `ArrayOfOffsets` / `ArrayOfNullableOffsets` -/

/-- **`ArrayOfOffsets::get(idx)` resolves only offsets of the array, inside the data**: `Ok` implies
`idx < len()`, a non-null offset within the data, and a successful `T::read` there; an index past the
end is `InvalidCollectionIndex`, not a panic. -/
theorem arrGet_ok {α : Type} (offs : List Nat) (dataLen : Nat) (read : Nat → Except CErr α) (idx : Nat) (a : α)
    (h : arrGet offs dataLen read idx = .ok a) :
    idx < offs.length ∧ ∃ off, offs[idx]? = some off ∧ 0 < off ∧ off ≤ dataLen ∧ read off = .ok a := by
  unfold arrGet at h
  split at h
  · cases h
  · rename_i off hoff
    have hlt : idx < offs.length := by
      rcases Nat.lt_or_ge idx offs.length with hl | hl
      · exact hl
      · rw [List.getElem?_eq_none_iff.mpr hl] at hoff; cases hoff
    split at h
    · cases h
    · split at h
      · cases h
      · exact ⟨hlt, off, hoff, by omega, by omega, h⟩

theorem arrGet_past_end {α : Type} (offs : List Nat) (dataLen : Nat) (read : Nat → Except CErr α) (idx : Nat)
    (h : offs.length ≤ idx) : arrGet offs dataLen read idx = .error (.badIndex (idx % 4294967296)) := by
  unfold arrGet
  rw [List.getElem?_eq_none_iff.mpr h]

/-- **`iter()` yields exactly `len()` items** (one per offset, resolved or not) — also for the nullable
variant -/
theorem arrIter_length {α : Type} (offs : List Nat) (dataLen : Nat) (read : Nat → Except CErr α) :
    (arrIter offs dataLen read).length = offs.length ∧
    (arrIterNullable offs dataLen read).length = offs.length := by
  simp [arrIter, arrIterNullable]

/-- the nullable variant answers `Some(Ok)` under the same conditions -/
theorem arrGetNullable_ok {α : Type} (offs : List Nat) (dataLen : Nat) (read : Nat → Except CErr α) (idx : Nat)
    (a : α) (h : arrGetNullable offs dataLen read idx = some (.ok a)) :
    idx < offs.length ∧ ∃ off, offs[idx]? = some off ∧ 0 < off ∧ off ≤ dataLen ∧ read off = .ok a := by
  unfold arrGetNullable at h
  split at h
  · cases h
  · rename_i r hr
    injection h with h
    exact arrGet_ok offs dataLen read idx a h

end FontVerif.C01HandColr
