/-
C01 (hand-written code) — termination, iteration bounds, in-range indices / slices and absence of arithmetic
traps for the models of Model/HandColr.lean ⇄ read-fonts/src/tables/colr.rs / colr/closure.rs / cpal.rs / svg.rs / stat.rs / hdmx.rs / vorg.rs / gasp.rs / meta.rs / tables.rs / offset_array.rs helpers.
Tied to the real functions by harness group `colr.model` (`hc.*` driver commands).
-/
import FontVerif.Model.HandColr
import FontVerif.Lemmas.ReadIter
set_option linter.unusedVariables false
set_option linter.unusedSimpArgs false
namespace FontVerif.C01HandColr
open FontVerif FontVerif.ReadIter FontVerif.HandRead FontVerif.HandColr

end FontVerif.C01HandColr
