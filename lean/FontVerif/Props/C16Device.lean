/-
C16 (Device tables) — the writer `Device::new` (write-fonts/src/tables/layout.rs: format choice from
the delta range, `encode_delta` / `encode_chunk` packing into `u16` words) against the reader
`Device::iter` / `iter_packed_values` (read-fonts/src/tables/layout.rs, transcribed for C01 as
`HandLayout.devIter`; C01's `device_iter_exact` shows that reader never panics).  Model:
Model/LayoutDevice.lean; helper lemmas: Lemmas/LayoutDevice.lean.
-/
import FontVerif.Lemmas.LayoutDevice
set_option linter.unusedVariables false
namespace FontVerif.C16
open FontVerif FontVerif.Layout FontVerif.HandLayout

/-- **device_format_minimal.**  `Device::new` picks the SMALLEST delta format that represents every
delta: 2-bit exactly when all deltas are in −2..=1, 4-bit exactly when all are in −8..=7 but not all
in −2..=1, 8-bit otherwise (an empty list: 2-bit, the default). -/
theorem device_format_minimal (vs : List Int) :
    (chooseFormat vs = 1 ↔ ∀ v ∈ vs, -2 ≤ v ∧ v ≤ 1) ∧
    (chooseFormat vs = 2 ↔ (∀ v ∈ vs, -8 ≤ v ∧ v ≤ 7) ∧ ¬ ∀ v ∈ vs, -2 ≤ v ∧ v ≤ 1) ∧
    (chooseFormat vs = 3 ↔ ¬ ∀ v ∈ vs, -8 ≤ v ∧ v ≤ 7) := by
  have hr := chooseFormat_range vs
  have h1 := chooseFormat_le vs 1 (Nat.le_refl _)
  have h2 := chooseFormat_le vs 2 (by omega)
  have e1 : (∀ v ∈ vs, deltaFormatOf v ≤ 1) ↔ ∀ v ∈ vs, -2 ≤ v ∧ v ≤ 1 :=
    ⟨fun h v hv => (deltaFormatOf_le1 v).mp (h v hv), fun h v hv => (deltaFormatOf_le1 v).mpr (h v hv)⟩
  have e2 : (∀ v ∈ vs, deltaFormatOf v ≤ 2) ↔ ∀ v ∈ vs, -8 ≤ v ∧ v ≤ 7 :=
    ⟨fun h v hv => (deltaFormatOf_le2 v).mp (h v hv), fun h v hv => (deltaFormatOf_le2 v).mpr (h v hv)⟩
  rw [e1] at h1
  rw [e2] at h2
  refine ⟨⟨fun h => h1.mp (by omega), fun h => by have := h1.mpr h; omega⟩,
    ⟨fun h => ⟨h2.mp (by omega), fun hh => by have := h1.mpr hh; omega⟩,
      fun ⟨ha, hb⟩ => by
        have := h2.mpr ha
        have : ¬ chooseFormat vs ≤ 1 := fun hc => hb (h1.mp hc)
        omega⟩,
    ⟨fun h hh => by have := h2.mpr hh; omega, fun h => by
      have : ¬ chooseFormat vs ≤ 2 := fun hc => h (h2.mp hc)
      omega⟩⟩

/-- **device_roundtrip.**  For EVERY start size and EVERY non-empty list of `i8` deltas (`end_size =
start_size + len − 1`, the `debug_assert` of `Device::new`): decoding the Device table that
`Device::new` writes — format word, deltas masked to the format's width and OR-ed into `u16` words
from the high bits down, the last word padded with zero fields — with `Device::iter` yields EXACTLY
the deltas given, for each of the three formats the choice can make.  (With the 4-bit range widened
to −8..=8 — seeded C16-9 — the delta +8 is masked to `0b1000` and reads back as −8: the statement is
false for `[8]`.) -/
theorem device_roundtrip (start : Nat) (vs : List Int) (hne : vs ≠ [])
    (hr : ∀ v ∈ vs, -128 ≤ v ∧ v ≤ 127) :
    devIter (deviceNew start (start + vs.length - 1) vs) = .val vs := by
  have hpos : 0 < vs.length := List.length_pos_iff.mpr hne
  obtain ⟨m1, m2, m3⟩ := device_format_minimal vs
  have hrange := chooseFormat_range vs
  unfold devIter deviceNew encodeDelta
  simp only
  have hn : start + vs.length - 1 - start + 1 = vs.length := by omega
  rw [hn]
  rcases (by omega : chooseFormat vs = 1 ∨ chooseFormat vs = 2 ∨ chooseFormat vs = 3) with h | h | h
  · rw [h]
    exact devWords_roundtrip 1 8 3 2 2 (-2) 1 (by omega) rfl (by decide) rfl (by decide)
      full2_list vs.length vs rfl (m1.mp h)
  · rw [h]
    exact devWords_roundtrip 2 4 15 8 4 (-8) 7 (by omega) rfl (by decide) rfl (by decide)
      full4_list vs.length vs rfl (m2.mp h).1
  · rw [h]
    exact devWords_roundtrip 3 2 255 128 8 (-128) 127 (by omega) rfl (by decide) rfl (by decide)
      full8_list vs.length vs rfl hr

/-! ## non-vacuity -/

example : deviceNew 9 12 [7, 3, -8, 0] = ⟨9, 12, 2, [0x7380]⟩ ∧
    devIter (deviceNew 9 12 [7, 3, -8, 0]) = .val [7, 3, -8, 0] := by decide +kernel
/-- +8 needs the 8-bit format (the seeded change packs it into 4 bits: it would read back as −8) -/
example : (deviceNew 9 12 [8, 3, -5, 0]).fmt = 3 ∧
    devIter (deviceNew 9 12 [8, 3, -5, 0]) = .val [8, 3, -5, 0] := by decide +kernel
example : chooseFormat [1, -2, 0] = 1 ∧ chooseFormat [2] = 2 ∧ chooseFormat [-3] = 2 ∧
    chooseFormat [-8, 7] = 2 ∧ chooseFormat [-9] = 3 ∧ chooseFormat [8] = 3 ∧ chooseFormat [] = 1 := by decide
/-- nine 2-bit deltas: two words, the second with one field -/
example : (deviceNew 10 18 [1, -2, 0, -1, 1, 1, 0, -2, -1]).words.length = 2 := by decide +kernel

end FontVerif.C16
