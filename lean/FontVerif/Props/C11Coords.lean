/-
C11 (continued) — `Fvar::user_to_normalized` as a whole: the loop over several `(tag, value)`
settings (repeated tags, duplicate axis tags, output slice shorter / longer than the axis list).
Model: Model/Normalize.lean (`setAxesFrom`, `userToNormalizedAll`) ⇄ read-fonts/src/tables/fvar.rs.
The per-axis value (`userToNormalized` = normalize → avar segment map → F2Dot14) has its laws in
Props/C11.lean §2–3 (`user_to_normalized_laws`, `user_to_normalized_avar_laws`).
-/
import FontVerif.Model.Normalize
set_option linter.unusedVariables false
namespace FontVerif.C11
open FontVerif FontVerif.Normalize

/-- the value the documentation of `user_to_normalized` promises for slot `j`: `0` when the slot has
no axis or no setting names the axis' tag, otherwise `avar(normalize(axis, value))` as F2Dot14 for
the value of the LAST setting that names the tag. -/
def slotSpec (axes : List AxisRec) (maps : Option (List (List (Int × Int))))
    (settings : List (Nat × Int)) (j : Nat) : Int :=
  match axes[j]? with
  | none => 0
  | some a =>
    match settings.reverse.find? (fun s => s.1 = a.tag) with
    | none => 0
    | some s => userToNormalized a.minV a.defV a.maxV (mapFor maps j) s.2

theorem setAxesFrom_length (maps : Option (List (List (Int × Int)))) (tag : Nat) (value : Int)
    (axes : List AxisRec) : ∀ (i : Nat) (out : List Int),
    (setAxesFrom maps tag value i axes out).length = out.length := by
  induction axes with
  | nil => intro i out; rfl
  | cons a rest ih =>
    intro i out
    simp only [setAxesFrom]
    rw [ih]
    split
    · split <;> simp
    · rfl

/-- one setting: slot `j` (inside the slice) is overwritten exactly when axis `j − i` of the
remaining axes carries the tag. -/
theorem setAxesFrom_get (maps : Option (List (List (Int × Int)))) (tag : Nat) (value : Int)
    (axes : List AxisRec) : ∀ (i : Nat) (out : List Int) (j : Nat), j < out.length →
    (setAxesFrom maps tag value i axes out)[j]? =
      (if i ≤ j then
        match axes[j - i]? with
        | some a => if a.tag = tag then
            some (userToNormalized a.minV a.defV a.maxV (mapFor maps j) value) else out[j]?
        | none => out[j]?
      else out[j]?) := by
  induction axes with
  | nil => intro i out j hj; simp [setAxesFrom]
  | cons a rest ih =>
    intro i out j hj
    simp only [setAxesFrom]
    by_cases hij : i ≤ j
    · simp only [hij, if_true]
      by_cases he : j = i
      · subst he
        -- this axis is slot j; the rest never touches it
        have hlen : ∀ o : List Int, o.length = out.length →
            (setAxesFrom maps tag value (j + 1) rest o)[j]? = o[j]? := by
          intro o ho
          rw [ih (j + 1) o j (by omega)]
          have : ¬ (j + 1 ≤ j) := by omega
          simp [this]
        by_cases ht : a.tag = tag
        · simp only [ht, if_true, hj, Nat.sub_self, List.getElem?_cons_zero]
          rw [hlen _ (by simp)]
          simp [hj]
        · simp only [ht, if_false, Nat.sub_self, List.getElem?_cons_zero]
          rw [hlen _ rfl]
      · have hlt : i + 1 ≤ j := by omega
        have hsub : j - i = (j - (i + 1)) + 1 := by omega
        rw [hsub, List.getElem?_cons_succ]
        -- the update at slot i does not change slot j
        by_cases ht : a.tag = tag
        · simp only [ht, if_true]
          by_cases hi : i < out.length
          · simp only [hi, if_true]
            rw [ih (i + 1) _ j (by simpa using hj)]
            simp only [hlt, if_true]
            have hne : i ≠ j := by omega
            simp [List.getElem?_set_ne hne]
          · omega
        · simp only [ht, if_false]
          rw [ih (i + 1) out j hj]
          simp [hlt]
    · simp only [hij, if_false]
      have hji : j < i := by omega
      have hstep : ∀ o : List Int, o.length = out.length →
          (setAxesFrom maps tag value (i + 1) rest o)[j]? = o[j]? := by
        intro o ho
        rw [ih (i + 1) o j (by omega)]
        have : ¬ (i + 1 ≤ j) := by omega
        simp [this]
      by_cases ht : a.tag = tag
      · simp only [ht, if_true]
        by_cases hi : i < out.length
        · simp only [hi, if_true]
          rw [hstep _ (by simp)]
          have hne : i ≠ j := by omega
          simp [List.getElem?_set_ne hne]
        · simp only [hi, if_false]
          rw [hstep _ rfl]
      · simp only [ht, if_false]
        rw [hstep _ rfl]

theorem foldSettings_length (axes : List AxisRec) (maps : Option (List (List (Int × Int))))
    (settings : List (Nat × Int)) : ∀ (out : List Int),
    (settings.foldl (fun out s => setAxesFrom maps s.1 s.2 0 axes out) out).length = out.length := by
  induction settings with
  | nil => intro out; rfl
  | cons s rest ih => intro out; simp only [List.foldl_cons]; rw [ih, setAxesFrom_length]

/-- the fold over the settings, from any starting slice: slot `j` holds the value of the last
setting that names its axis' tag, or what it held before. -/
theorem foldSettings_get (axes : List AxisRec) (maps : Option (List (List (Int × Int))))
    (settings : List (Nat × Int)) : ∀ (out : List Int) (j : Nat), j < out.length →
    (settings.foldl (fun out s => setAxesFrom maps s.1 s.2 0 axes out) out)[j]? =
      (match axes[j]? with
       | none => out[j]?
       | some a =>
         match settings.reverse.find? (fun s => s.1 = a.tag) with
         | none => out[j]?
         | some s => some (userToNormalized a.minV a.defV a.maxV (mapFor maps j) s.2)) := by
  induction settings with
  | nil => intro out j hj; cases axes[j]? <;> simp
  | cons s rest ih =>
    intro out j hj
    simp only [List.foldl_cons]
    rw [ih _ j (by rw [setAxesFrom_length]; exact hj)]
    rw [setAxesFrom_get maps s.1 s.2 axes 0 out j hj]
    simp only [Nat.zero_le, if_true, Nat.sub_zero, List.reverse_cons, List.find?_append]
    cases ha : axes[j]? with
    | none => simp
    | some a =>
      simp only []
      cases hf : rest.reverse.find? (fun s => s.1 = a.tag) with
      | some s' => simp
      | none =>
        simp only [Option.none_or, List.find?_cons, List.find?_nil]
        by_cases ht : a.tag = s.1
        · have : s.1 = a.tag := ht.symm
          simp [ht]
        · have : ¬ s.1 = a.tag := fun h => ht h.symm
          simp [ht, this]

/-- **out_len_min**: the call never resizes the slice, and only the first
`min(axis count, slice length)` slots can become non-zero: a slice longer than the axis list is
zero-filled beyond it, a shorter one simply has no slot for the later axes. -/
theorem out_len_min (axes : List AxisRec) (maps : Option (List (List (Int × Int))))
    (settings : List (Nat × Int)) (outLen : Nat) :
    (userToNormalizedAll axes maps settings outLen).length = outLen ∧
    ∀ j, min axes.length outLen ≤ j → j < outLen →
      (userToNormalizedAll axes maps settings outLen)[j]? = some 0 := by
  unfold userToNormalizedAll
  refine ⟨by rw [foldSettings_length]; simp, fun j hmin hj => ?_⟩
  rw [foldSettings_get axes maps settings _ j (by simpa using hj)]
  have : axes[j]? = none := by
    apply List.getElem?_eq_none; omega
  simp [this, hj]

/-- **user_to_normalized_slots** (the whole function, avar version ≤ 1): every slot of the output
slice holds exactly the documented value `slotSpec` — `avar(normalize(axis, value))` of the last
setting naming the axis' tag, `0` otherwise — for ANY axis list (duplicate tags included), any
settings (repeated or unknown tags included) and any slice length. -/
theorem user_to_normalized_slots (axes : List AxisRec) (maps : Option (List (List (Int × Int))))
    (settings : List (Nat × Int)) (outLen : Nat) (j : Nat) (hj : j < outLen) :
    (userToNormalizedAll axes maps settings outLen)[j]? = some (slotSpec axes maps settings j) := by
  unfold userToNormalizedAll slotSpec
  rw [foldSettings_get axes maps settings _ j (by simpa using hj)]
  cases axes[j]? with
  | none => simp [hj]
  | some a =>
    simp only []
    cases settings.reverse.find? (fun s => s.1 = a.tag) with
    | none => simp [hj]
    | some s => rfl

/-- **untouched_axes_zero**: an axis none of whose settings carries its tag stays at the default
location `0`. -/
theorem untouched_axes_zero (axes : List AxisRec) (maps : Option (List (List (Int × Int))))
    (settings : List (Nat × Int)) (outLen : Nat) (j : Nat) (hj : j < outLen) (a : AxisRec)
    (ha : axes[j]? = some a) (hno : ∀ s ∈ settings, s.1 ≠ a.tag) :
    (userToNormalizedAll axes maps settings outLen)[j]? = some 0 := by
  rw [user_to_normalized_slots axes maps settings outLen j hj]
  unfold slotSpec
  simp only [ha]
  have : settings.reverse.find? (fun s => s.1 = a.tag) = none := by
    rw [List.find?_eq_none]
    intro s hs
    have := hno s (by simpa using hs)
    simpa using this
  rw [this]

/-- **last_setting_wins**: when the settings are `before ++ [(tag, v)] ++ after` and no setting in
`after` names `tag`, every axis with that tag (there may be several) ends at
`avar(normalize(axis, v))` — whatever `before` contains. -/
theorem last_setting_wins (axes : List AxisRec) (maps : Option (List (List (Int × Int))))
    (before after : List (Nat × Int)) (tag : Nat) (v : Int) (outLen : Nat)
    (hafter : ∀ s ∈ after, s.1 ≠ tag) (j : Nat) (hj : j < outLen) (a : AxisRec)
    (ha : axes[j]? = some a) (ht : a.tag = tag) :
    (userToNormalizedAll axes maps (before ++ (tag, v) :: after) outLen)[j]? =
      some (userToNormalized a.minV a.defV a.maxV (mapFor maps j) v) := by
  rw [user_to_normalized_slots axes maps _ outLen j hj]
  unfold slotSpec
  simp only [ha, List.reverse_append, List.reverse_cons, List.find?_append, List.append_assoc]
  have h1 : after.reverse.find? (fun s => s.1 = a.tag) = none := by
    rw [List.find?_eq_none]
    intro s hs
    have := hafter s (by simpa using hs)
    rw [ht]; simpa using this
  rw [h1]
  simp [ht]

/-- corollary (the form the harness oracle checks): settings that agree on the last value given
to every tag produce the same output. -/
theorem settings_equivalent (axes : List AxisRec) (maps : Option (List (List (Int × Int))))
    (s1 s2 : List (Nat × Int)) (outLen : Nat)
    (h : ∀ tag, (s1.reverse.find? (fun s => s.1 = tag)).map (·.2) =
                (s2.reverse.find? (fun s => s.1 = tag)).map (·.2)) :
    userToNormalizedAll axes maps s1 outLen = userToNormalizedAll axes maps s2 outLen := by
  apply List.ext_getElem?
  intro j
  by_cases hj : j < outLen
  · rw [user_to_normalized_slots axes maps s1 outLen j hj,
        user_to_normalized_slots axes maps s2 outLen j hj]
    unfold slotSpec
    cases ha : axes[j]? with
    | none => rfl
    | some a =>
      simp only []
      have := h a.tag
      cases h1 : s1.reverse.find? (fun s => s.1 = a.tag) <;>
        cases h2 : s2.reverse.find? (fun s => s.1 = a.tag) <;> simp_all
  · have l1 := (out_len_min axes maps s1 outLen).1
    have l2 := (out_len_min axes maps s2 outLen).1
    rw [List.getElem?_eq_none (by omega), List.getElem?_eq_none (by omega)]

/-- each written slot obeys the per-axis laws of Props/C11.lean: e.g. it is always in `[-1, 1]`
when the axis has no segment map. -/
theorem slot_in_range_no_avar (axes : List AxisRec) (settings : List (Nat × Int)) (outLen j : Nat)
    (hj : j < outLen) :
    ∃ x, (userToNormalizedAll axes none settings outLen)[j]? = some x ∧ -16384 ≤ x ∧ x ≤ 16384 := by
  refine ⟨_, user_to_normalized_slots axes none settings outLen j hj, ?_⟩
  unfold slotSpec
  cases axes[j]? with
  | none => simp
  | some a =>
    simp only []
    cases settings.reverse.find? (fun s => s.1 = a.tag) with
    | none => simp
    | some s =>
      simp only [mapFor]
      unfold userToNormalized
      simp only []
      have hn : -65536 ≤ normalize a.minV a.defV a.maxV s.2 ∧ normalize a.minV a.defV a.maxV s.2 ≤ 65536 := by
        unfold normalize clamp; simp only []; split <;> split <;> omega
      unfold Fixed.toF2Dot14 wrapI16 wrapI32
      simp only []
      omega

-- non-vacuity: two axes share a tag, the slice is longer than the axis list, a tag is repeated
example : userToNormalizedAll
    [⟨1, 0, 65536, 131072⟩, ⟨2, 0, 0, 65536⟩, ⟨1, 0, 0, 131072⟩] none
    [(1, 131072), (2, 65536), (1, 0), (9, 5)] 4 = [-16384, 16384, 0, 0] := by decide
example : userToNormalizedAll
    [⟨1, 0, 65536, 131072⟩, ⟨2, 0, 0, 65536⟩, ⟨1, 0, 0, 131072⟩] none
    [(1, 131072), (2, 65536), (1, 0), (9, 5)] 2 = [-16384, 16384] := by decide

end FontVerif.C11
