/-
C01 (hand-written code) — the CFF2 blend state (read-fonts/src/tables/postscript/blend.rs ⇄ Model/HandBlend.lean):
for every item variation store (null / dangling offsets, region indexes beyond the region list, any number of
region indexes) and every store index, `BlendState::new` / `set_store_index` return `Ok` or an `Error` and keep the
16-slot scalar cache intact, and `scalars()` never slices outside the cache or the region index list and yields
EXACTLY `region_count()` items — which is the hypothesis under which `Stack::apply_blend` is proved panic-free
(`C01HandStack.applyBlend_total`).  Tied to the real `BlendState` by harness group `ps.blend.model` (`hz.blend`).
-/
import FontVerif.Model.HandBlend
set_option linter.unusedVariables false
set_option linter.unusedSimpArgs false
namespace FontVerif.C01HandBlend
open FontVerif FontVerif.HandBlend

/-- the precompute loop writes only inside the cache: its length never changes (`zip` with the 16 slots) -/
theorem precompute_length (s : Store) (coords : List Int) :
    ∀ (l : List Nat) (k : Nat) (sc : List Int), (precompute s coords l k sc).2.length = sc.length := by
  intro l
  induction l with
  | nil => intro k sc; rfl
  | cons ri rest ih =>
    intro k sc
    unfold precompute
    by_cases hk : k < sc.length
    · simp only [hk, if_true]
      cases regionScalar s coords ri with
      | error e => rfl
      | ok v => simp only []; rw [ih]; simp
    · simp [hk]

/-- **`update_precomputed_scalars` is total and keeps the cache shape**: for every store and store index the result is
`Ok` or an `Error` value; the cache keeps its 16 slots; after an `Err` the state has no region indices (so
`region_count()` is 0 and `scalars()` is empty), after `Ok` they are the data's region indexes. -/
theorem update_total (s : Store) (coords : List Int) (st : BSt) (h : st.scalars.length = 16) :
    (update s coords st).2.scalars.length = 16 ∧
    (∀ e, (update s coords st).1 = .error e → (update s coords st).2.regionIndices = [] ∧ (update s coords st).2.hasData = false) ∧
    ((update s coords st).1 = .ok () → (update s coords st).2.hasData = true) := by
  unfold update
  cases hd : s.datas[st.storeIndex]? with
  | none => simp [h]
  | some da =>
    cases da with
    | absent => simp [h]
    | bad => simp [h]
    | ok ris =>
      simp only []
      by_cases hr : s.regionListOk = true
      · simp only [hr, Bool.not_true, Bool.false_eq_true, if_false]
        have hl := precompute_length s coords (ris.take MAX_PRECOMPUTED_SCALARS) 0 st.scalars
        rcases hp : precompute s coords (ris.take MAX_PRECOMPUTED_SCALARS) 0 st.scalars with ⟨r, sc⟩
        rw [hp] at hl
        simp only at hl
        cases r with
        | error e => simp [hl, h]
        | ok u => cases u; simp [hl, h]
      · simp [hr, h]

/-- `BlendState::new` and `set_store_index` keep the cache shape, whatever they return -/
theorem new_setStoreIndex_shape (s : Store) (coords : List Int) (i : Nat) (st : BSt) (h : st.scalars.length = 16) :
    (HandBlend.new s coords i).2.scalars.length = 16 ∧ (setStoreIndex s coords st i).2.scalars.length = 16 := by
  refine ⟨(update_total s coords _ (by simp)).1, ?_⟩
  unfold setStoreIndex
  by_cases hi : st.storeIndex ≠ i
  · rw [if_pos hi]; exact (update_total s coords { st with storeIndex := i } h).1
  · rw [if_neg hi]; exact h

/-- **`scalars()` never panics and yields exactly `region_count()` items**: `self.scalars[..min(16, n)]` lies inside
the 16-slot cache and `self.region_indices[16..]` is only taken when there are more than 16 indices; each item is a
`Fixed` or an `Error` (a region index beyond the region list, an unreadable region list). -/
theorem scalars_total (s : Store) (coords : List Int) (st : BSt) (h : st.scalars.length = 16) :
    ∃ xs, scalars s coords st = some xs ∧ xs.length = regionCount st := by
  unfold scalars regionCount MAX_PRECOMPUTED_SCALARS
  have h1 : min 16 st.regionIndices.length ≤ st.scalars.length := by omega
  simp only [h1, if_true]
  by_cases h2 : st.regionIndices.length > 16
  · have h3 : 16 ≤ st.regionIndices.length := by omega
    simp only [h2, h3, if_true]
    refine ⟨_, rfl, ?_⟩
    simp [List.length_append, List.length_map, List.length_take, List.length_drop]; omega
  · simp only [h2, if_false]
    refine ⟨_, rfl, ?_⟩
    simp [List.length_map, List.length_take]; omega

/-! ## non-vacuity -/

/-- two regions on one axis at coordinate 0.5: scalars 0.5 and 0 -/
example :
    let s : Store := ⟨[.ok [0, 1]], true, 1, [[(0, 16384, 16384)], [(-16384, -16384, 0)]]⟩
    let r := HandBlend.new s [8192] 0
    (match r.1 with | .ok _ => true | .error _ => false) = true ∧
    (scalars s [8192] r.2).map (·.map (fun x => match x with | .ok v => some v | .error _ => none)) =
      some [some 32768, some 0] := by decide +kernel

/-- a null data offset is `InvalidVariationStoreIndex`, an index beyond the offsets a read error -/
example :
    (match (HandBlend.new ⟨[.absent], true, 1, []⟩ [] 0).1 with | .error e => some e | .ok _ => none) = some (.invalidStoreIndex 0) ∧
    (match (HandBlend.new ⟨[.absent], true, 1, []⟩ [] 5).1 with | .error e => some e | .ok _ => none) = some .read := by
  decide +kernel

/-- 17 region indexes: the 17th scalar is computed on demand, and is an `Err` item when its region is missing -/
example :
    let s : Store := ⟨[.ok (List.replicate 16 0 ++ [7])], true, 1, [[(0, 16384, 16384)]]⟩
    let r := HandBlend.new s [16384] 0
    (scalars s [16384] r.2).map (·.map (fun x => match x with | .ok v => some v | .error _ => none)) =
      some (List.replicate 16 (some 65536) ++ [none]) := by decide +kernel

end FontVerif.C01HandBlend
