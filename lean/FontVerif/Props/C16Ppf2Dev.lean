/-
C16 (PairPos format 2 split, size bookkeeping with device tables) —
write-fonts/src/graph/splitting/pairpos.rs `split_pair_pos_format_2`: the size loop with
`size_of_class1_record_children` / `size_of_value_record_children` and the `visited` set, as
repaired in /repo 2b4b586.  Model: `ppf2DStep` / `ppf2DLoop` / `ppf2DPieces` (Model/LayoutLookup.lean);
helper lemmas: Lemmas/LayoutPpf2Dev.lean; correspondence `ppf2.dpoints` (piece ends AND the estimate
of every piece against the bytes of the real pieces).  The lookup-preservation theorems
(`ppf2_split_preserves`, `ppf2_split_preserves_devices`) hold for ANY split points and are untouched.
-/
import FontVerif.Lemmas.LayoutPpf2Dev
set_option linter.unusedVariables false
namespace FontVerif.C16
open FontVerif FontVerif.Layout

/-- **ppf2_piece_estimates_exact.**  For EVERY class1 × class2 matrix (record size `recSize`), every
coverage / class assignment, and EVERY pattern of device / variation-index offsets — any object
ids, i.e. any sharing of tables within a record, between records of one piece and ACROSS pieces,
any byte lengths — the running size the (repaired) loop holds for a piece when it closes it is
EXACTLY the piece's true size: 16 header bytes + its class1 records + each DISTINCT device object
it links counted once (`ppf2PieceSize`).  In particular the estimate is never below the true size:
a piece the loop accepted (estimate + coverage / class-def estimates ≤ 65535) does not exceed
64 KiB because of device tables. -/
theorem ppf2_piece_estimates_exact (gc : List (Nat × Nat)) (recSize cd2Size : Nat)
    (rows : List (List (Nat × Nat))) (ps : List (Nat × Nat × Nat))
    (h : ppf2DPieces true gc recSize cd2Size rows = some ps) :
    ∀ p ∈ ps, p.1 ≤ p.2.1 ∧ p.2.2 = ppf2PieceSize recSize rows p.1 p.2.1 := by
  unfold ppf2DPieces at h
  simp only at h
  have hgood := ppf2DLoop_good ⟨gc⟩ recSize cd2Size rows rows ⟨0, 16, 4, 4, [], []⟩ 0 (by simp)
    ⟨Nat.le_refl _, by simp [flatRows, childrenSize], by simp [flatRows, childrenSize]⟩
    (fun p hp => nomatch hp)
  generalize ppf2DLoop true ⟨gc⟩ recSize cd2Size ⟨0, 16, 4, 4, [], []⟩ 0 rows = st at h hgood
  obtain ⟨⟨g1, g2, _⟩, hp⟩ := hgood
  split at h
  · cases h
  · cases h
    have conv : ∀ s e, 16 + (e - s) * recSize + (childrenSize (flatRows rows s e) []).1 =
        ppf2PieceSize recSize rows s e := by
      intro s e
      rw [childrenSize_eq]
      rfl
    intro p hpm
    rcases List.mem_append.mp hpm with hm | hm
    · obtain ⟨a, b⟩ := hp p (List.mem_reverse.mp hm)
      exact ⟨a, by rw [b, conv]⟩
    · simp only [List.mem_singleton] at hm
      subst hm
      simp only [Nat.zero_add] at g1 g2
      exact ⟨g1, by rw [g2, conv]⟩

/-- **ppf2_estimate_bounds_piece.**  (i) as an inequality: whenever the loop's estimate of a piece
is at most a bound, so is the piece's true size. -/
theorem ppf2_estimate_bounds_piece (gc : List (Nat × Nat)) (recSize cd2Size : Nat)
    (rows : List (List (Nat × Nat))) (ps : List (Nat × Nat × Nat))
    (h : ppf2DPieces true gc recSize cd2Size rows = some ps) (p : Nat × Nat × Nat) (hp : p ∈ ps)
    (bound : Nat) (hb : p.2.2 ≤ bound) : ppf2PieceSize recSize rows p.1 p.2.1 ≤ bound := by
  rw [← (ppf2_piece_estimates_exact gc recSize cd2Size rows ps h p hp).2]; exact hb

/-- `childrenSize` is "each object not seen before, once" -/
theorem children_size_counts_each_object_once (devs : List (Nat × Nat)) (visited : List Nat) :
    (childrenSize devs visited).1 = ((dedupDevs devs visited).map (·.2)).sum := by
  rw [childrenSize_eq]

/-! ## the defect repaired in /repo 2b4b586, as a minimal witness

Three class1 records of 30 000 bytes; records 0 and 1 link the SAME 6 000-byte device table (object
1), record 2 a 5 500-byte one (object 2).  Record 1 does not fit the first piece.  The OLD loop sized
it against the first piece's `visited` set — object 1 counted 0 — and started the second piece at
30 016 bytes, so record 2 still "fitted": one piece of records 1..3 estimated at 65 516 bytes whose
true size is 71 516 > 65 535 (the e2e scenario `pairdev:3626:1` in miniature: 'Table packing
failed').  The repaired loop re-counts object 1 and cuts again. -/

def exRows : List (List (Nat × Nat)) := [[(1, 6000)], [(1, 6000)], [(2, 5500)]]

/-- (ii) the pre-fix estimate is BELOW the true size of the piece, which exceeds 64 KiB -/
example : ppf2DPieces false [] 30000 0 exRows = some [(0, 1, 36016), (1, 3, 65516)] ∧
    ppf2PieceSize 30000 exRows 1 3 = 71516 ∧ 65516 < 71516 ∧ 65535 < 71516 := by decide +kernel
/-- the repaired loop: three pieces, every estimate equals the true size -/
example : ppf2DPieces true [] 30000 0 exRows = some [(0, 1, 36016), (1, 2, 36016), (2, 3, 35516)] ∧
    ppf2PieceSize 30000 exRows 1 2 = 36016 ∧ ppf2PieceSize 30000 exRows 2 3 = 35516 := by decide +kernel
/-- a table shared inside one piece is counted once, one shared across pieces once per piece -/
example : childrenSize [(7, 10), (8, 12), (7, 10)] [] = (22, [8, 7]) ∧
    childrenSize [(7, 10)] [8, 7] = (0, [8, 7]) := by decide

end FontVerif.C16
