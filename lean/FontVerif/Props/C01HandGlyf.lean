/-
C01 (hand-written code) — termination, iteration bounds, in-range indices / slices and absence of arithmetic
traps for the models of Model/HandGlyf.lean ⇄ read-fonts/src/tables/glyf.rs / loca.rs (SimpleGlyph points, PointIter, resolve_coords_len, CompositeGlyph components / instructions, Anchor / Transform, Loca::get_raw / get_glyf / all_offsets_are_ascending).
Tied to the real functions by harness group `glyf.model` (`hg.*` driver commands).

Standing hypotheses (all satisfiable, see the `example`s): the data are bytes (`Bytes d`: every element
< 256), end points are u16 values (`U16s`), a slice is no longer than `usize::MAX` (`d.length ≤ MAXU`), a
glyph id is a u32.
-/
import FontVerif.Model.HandGlyf
import FontVerif.Lemmas.ReadIter
import FontVerif.Lemmas.HandGlyf
set_option linter.unusedVariables false
set_option linter.unusedSimpArgs false
namespace FontVerif.C01HandGlyf
open FontVerif FontVerif.ReadIter FontVerif.HandRead FontVerif.HandGlyf
open FontVerif.Glyf (hasBit ARG_WORDS ARGS_XY HAVE_SCALE HAVE_XY_SCALE HAVE_2X2)

/-! ## simple glyphs -/

/-- **`num_points` never overflows and is at most 65536.** -/
theorem numPoints_bounded (ends : List Nat) (he : U16s ends) :
    ∃ n, numPoints ends = some n ∧ n ≤ 65536 := by
  obtain ⟨n, h1, h2, _⟩ := numPoints_some ends he
  exact ⟨n, h1, h2⟩

/-- **`resolve_coords_len` terminates without a panic for every byte string and every point count**:
`data.len() + 1` trips of the `while` loop suffice (the result is never the out-of-fuel artefact), none
of the unchecked `u32` operations (`+ 1`, `* repeats`, `* 2`, `+=`, `-=`) overflows, the result is
`Ok` or a `ReadError`, and the lengths of an `Ok` are bounded: the flags lie inside the data, and no
length exceeds twice the point count (so `flags + x + y` cannot overflow a u32 either). -/
theorem resolveCoordsLen_total (d : List Nat) (hb : Bytes d) (total : Nat) (ht : total ≤ 65535) :
    (∃ e, resolveCoordsLen d total = .err e) ∨
    (∃ l, resolveCoordsLen d total = .ok l ∧ l.flags ≤ d.length ∧ l.flags ≤ 2 * total ∧
      l.x ≤ 2 * total ∧ l.y ≤ 2 * total) := by
  rcases resolveCoordsLen_facts d hb total ht with h | ⟨l, h1, h2, h3, h4, h5, _⟩
  · exact Or.inl h
  · exact Or.inr ⟨l, h1, h2, h3, h4, h5⟩

/-- **the two transcriptions of `resolve_coords_len` agree**: the cursor model with explicit traps used
here and the list-tail value model of Model/Glyf.lean (check C09, `Glyf.resolveCoordsLen`) return the same
`Ok` lengths, and an `Err` here is a `none` there — for all bytes and point counts. -/
theorem resolveCoordsLen_eq_glyf (d : List Nat) (hb : Bytes d) (total : Nat) (ht : total ≤ 65535) :
    Glyf.resolveCoordsLen d 0 total 0 0 = lensOpt (resolveCoordsLen d total) := by
  have := rclLoop_eq_glyf d hb total ht (d.length + 1) ⟨Cur.init, total, 0, 0⟩ (rinv_init d total)
    (by simp [Cur.init])
  simpa [Cur.init, resolveCoordsLen] using this

/-- **`points_impl` never panics and splits inside the data**: the unchecked sum
`flags + x_coords + y_coords` does not overflow, both `split_at` positions are in range, and the three
slices handed to `PointIter::new` are consecutive parts of `glyph_data()` of the resolved lengths. -/
theorem pointsImpl_safe (ends gd : List Nat) (hb : Bytes gd) (he : U16s ends) :
    pointsImpl ends gd = .none ∨
    ∃ l : Lens, l.flags + l.x + l.y ≤ gd.length ∧
      pointsImpl ends gd = .some (PiSt.new (gd.take l.flags) ((gd.drop l.flags).take l.x) ((gd.drop l.flags).drop l.x)) := by
  rcases pointsImpl_facts ends gd hb he with h | ⟨l, _, _, _, h1, h2, _⟩
  · exact Or.inl h
  · exact Or.inr ⟨l, h1, h2⟩

/-- **`PointIter` is bounded by its flag bytes and its repeat counter never overflows**: for ANY three
slices the iterator stops after at most `256 · flags.len()` points, and neither `as u16 + 1` nor
`flag_repeats -= 1` traps. -/
theorem pointIter_bounded (flags xs ys : List Nat) (hb : Bytes flags) (hl : flags.length ≤ MAXU) :
    ∃ evs, run piStep (256 * flags.length + 1) (PiSt.new flags xs ys) = some evs ∧
      evs.length ≤ 256 * flags.length ∧ (items evs).length = evs.length ∧ trapped evs = false := by
  have hi := pinv_new flags xs ys hb hl
  have hphi : phi (PiSt.new flags xs ys) ≤ 256 * flags.length := by
    simp only [phi, PiSt.new, Cur.init, List.drop_zero, Nat.zero_add]
    exact cnt_le flags hb
  obtain ⟨evs, h1, h2, h3, h4⟩ := pi_run (256 * flags.length + 1) _ hi (by omega)
  exact ⟨evs, h1, by omega, by omega, h4⟩

/-- **`points()` yields exactly `num_points()` points or none at all**, without a panic: when
`points_impl` accepts the glyph the iterator produces precisely the `last end point + 1` points the flag
bytes were resolved for (so at most 65535, and at most 256 per flag byte); otherwise it is empty. -/
theorem points_exact (ends gd : List Nat) (hb : Bytes gd) (he : U16s ends) (hl : gd.length ≤ MAXU) :
    ∃ evs, points ends gd = some evs ∧ trapped evs = false ∧
      ((items evs).length = 0 ∨ numPoints ends = some (items evs).length) ∧
      (items evs).length ≤ 65535 ∧ (items evs).length ≤ 256 * gd.length := by
  unfold points
  rcases pointsImpl_facts ends gd hb he with h | ⟨l, last, hlast, hres, hlen, himpl, hcnt⟩
  · rw [h]
    refine ⟨[], ?_, rfl, Or.inl rfl, by simp [items], by simp [items]⟩
    simp [run, piStep, advanceFlags, PiSt.new, Cur.init, Cur.read, readAt, checkedAdd, MAXU]
  · rw [himpl]
    dsimp only
    have hbt := bytes_take hb l.flags
    have hlt : (gd.take l.flags).length ≤ MAXU := by simp; omega
    have hi := pinv_new (gd.take l.flags) ((gd.drop l.flags).take l.x) ((gd.drop l.flags).drop l.x) hbt hlt
    have hphi : phi (PiSt.new (gd.take l.flags) ((gd.drop l.flags).take l.x) ((gd.drop l.flags).drop l.x)) = last + 1 := by
      simp only [phi, PiSt.new, Cur.init, List.drop_zero, Nat.zero_add]
      exact hcnt
    have hle := cnt_le _ hbt
    have hfd : (PiSt.new (gd.take l.flags) ((gd.drop l.flags).take l.x) ((gd.drop l.flags).drop l.x)).fd = gd.take l.flags := rfl
    rw [hfd]
    obtain ⟨evs, h1, h2, h3, h4⟩ := pi_run (256 * (gd.take l.flags).length + 1) _ hi (by omega)
    obtain ⟨n, hn, _, _, hn2⟩ := numPoints_some ends he
    have hlast65 : last < 65536 := he last (List.mem_of_getLast? hlast)
    have hT : last + 1 ≤ 65535 := by
      rcases resolveCoordsLen_facts gd hb (last + 1) (by
        -- `points_impl` only calls `resolve_coords_len` when `checked_add(1)` succeeded
        unfold pointsImpl at himpl
        rw [hlast] at himpl
        dsimp only at himpl
        by_cases hov : last + 1 > U16_MAX
        · simp [hov] at himpl
        · simp [U16_MAX] at hov; omega) with _ | _ <;> (
        unfold pointsImpl at himpl
        rw [hlast] at himpl
        dsimp only at himpl
        by_cases hov : last + 1 > U16_MAX
        · simp [hov] at himpl
        · simp [U16_MAX] at hov; omega)
    refine ⟨evs, h1, h4, Or.inr ?_, by omega, ?_⟩
    · rw [hn, hn2 last hlast]; congr 1; omega
    · have : (gd.take l.flags).length ≤ gd.length := by
        simp only [List.length_take]; exact Nat.min_le_right _ _
      have h256 : 256 * (gd.take l.flags).length ≤ 256 * gd.length := Nat.mul_le_mul_left _ this
      omega

/-- **`read_points_fast` never panics**: `n_points - i` does not underflow, `flags[i..i + count]` and
`flags[i]` are in range, the byte counters do not overflow; the result is `Ok` with `num_points()`
points or `Err(InvalidArrayLen)` (wrong buffer lengths) / `Err(OutOfBounds)` (missing bytes) — for every
glyph, every pair of buffer lengths and every content of the caller's flag buffer. -/
theorem readPointsFast_safe (ends gd : List Nat) (he : U16s ends) (hb : Bytes gd) (hl : gd.length ≤ MAXU)
    (pl : Nat) (flags0 : List Nat) (mask : Nat) :
    readPointsFast ends gd pl flags0 mask = .err .invalidArrayLen ∨
    readPointsFast ends gd pl flags0 mask = .err .oob ∨
    ∃ pts, readPointsFast ends gd pl flags0 mask = .ok pts ∧ numPoints ends = some pts.length ∧
      pl = pts.length ∧ flags0.length = pts.length :=
  readPointsFast_facts ends gd he hb hl pl flags0 mask

/-! ## composite glyphs -/

/-- **`components()` terminates within one component per six bytes**: `len + 1` calls of `next`
suffice, at most `len / 6` components are yielded (each consumed at least flags + glyph id + two
argument bytes, all inside the data), and no call traps. -/
theorem components_bounded (d : List Nat) :
    ∃ evs, components d = some evs ∧ evs.length ≤ d.length ∧ (items evs).length ≤ d.length / 6 ∧
      trapped evs = false :=
  components_facts d

/-- **`component_glyphs_and_flags()` and `count_and_instructions()`**: the light iterator terminates
with at most `(len + 2) / 6 ≤ len / 4` items although it skips with `advance_by` (which may leave the
data); `count += 1` cannot overflow, the count equals the number of items, and an instruction slice
`start .. start + len` handed out lies inside `component_data()`. -/
theorem countAndInstructions_safe (d : List Nat) (hl : d.length ≤ MAXU) :
    ∃ evs count instr, glyphsAndFlags d = some evs ∧ countAndInstructions d = .ok (count, instr) ∧
      count = (items evs).length ∧ count ≤ (d.length + 2) / 6 ∧ count ≤ d.length / 4 ∧
      trapped evs = false ∧ (∀ a k, instr = some (a, k) → a + k ≤ d.length) := by
  obtain ⟨evs, count, instr, h1, h2, h3, h4, h5, _, h7⟩ := countAndInstructions_facts d hl
  exact ⟨evs, count, instr, h1, h2, h3, h4, by omega, h5, h7⟩

/-- `instructions()` is the second component of `count_and_instructions()` -/
theorem instructions_eq (d : List Nat) (hl : d.length ≤ MAXU) :
    ∃ count instr, countAndInstructions d = .ok (count, instr) ∧ instructions d = .ok instr := by
  obtain ⟨_, count, instr, _, h2, _⟩ := countAndInstructions_facts d hl
  exact ⟨count, instr, h2, by simp [instructions, h2]⟩

/-! ## `Anchor::compute_flags` / `Transform::compute_flags` (models: Model/Glyf.lean, check C09) -/

/-- **a decoded anchor never needs wider arguments than its record had**: `Anchor::compute_flags` of an
anchor read from byte arguments does not ask for `ARG_1_AND_2_ARE_WORDS`, and it reproduces the
record's `ARGS_ARE_XY_VALUES` bit. -/
theorem anchorFlags_consistent (flags a b : Nat) (ha : a < 256) (hb : b < 256)
    (hw : hasBit flags ARG_WORDS = false) :
    (decodeAnchor flags a b).computeFlags = if hasBit flags ARGS_XY then ARGS_XY else 0 := by
  unfold decodeAnchor
  by_cases hxy : hasBit flags ARGS_XY = true
  · simp only [hxy, hw, if_true]
    unfold Glyf.Anchor.computeFlags wrapI8
    have h1 : ¬ (¬ (-128 ≤ (let m := (a : Int) % 256; if m < 128 then m else m - 256) ∧ (let m := (a : Int) % 256; if m < 128 then m else m - 256) < 128) ∨
        ¬ (-128 ≤ (let m := (b : Int) % 256; if m < 128 then m else m - 256) ∧ (let m := (b : Int) % 256; if m < 128 then m else m - 256) < 128)) := by
      simp only []
      omega
    simp only [h1, if_false]
    decide
  · have hxy' : hasBit flags ARGS_XY = false := by simpa using hxy
    simp only [hxy', Bool.false_eq_true, if_false]
    unfold Glyf.Anchor.computeFlags
    have : ¬ (a > 255 ∨ b > 255) := by omega
    simp [this]

/-- `Transform::compute_flags` names at most one of the three transform layouts -/
theorem transformFlags_range (t : Glyf.Transform) :
    t.computeFlags = 0 ∨ t.computeFlags = HAVE_SCALE ∨ t.computeFlags = HAVE_XY_SCALE ∨ t.computeFlags = HAVE_2X2 := by
  unfold Glyf.Transform.computeFlags
  split
  · right; right; right; rfl
  · split
    · right; right; left; rfl
    · split
      · right; left; rfl
      · left; rfl

/-! ## loca -/

/-- **`all_offsets_are_ascending` is exactly "no entry is larger than its successor"** (the `zip` with
`skip(1)` pairs every entry with the next one and nothing else). -/
theorem allAscending_iff (l : Loca) :
    l.allAscending = true ↔
      ∀ i a b, l.entries[i]? = some a → l.entries[i + 1]? = some b → a ≤ b := by
  unfold Loca.allAscending
  simp only [Bool.not_eq_true', List.any_eq_false, decide_eq_true_eq, Nat.not_lt]
  constructor
  · intro h i a b ha hb
    have hz : (l.entries.zip (l.entries.drop 1))[i]? = some (a, b) := by
      rw [List.getElem?_zip_eq_some]
      refine ⟨ha, ?_⟩
      rw [List.getElem?_drop, Nat.add_comm]; exact hb
    exact h (a, b) (List.mem_of_getElem? hz)
  · intro h p hp
    obtain ⟨i, hi⟩ := List.getElem?_of_mem hp
    have : (l.entries.zip (l.entries.drop 1))[i]? = some (p.1, p.2) := hi
    rw [List.getElem?_zip_eq_some] at this
    obtain ⟨ha, hb⟩ := this
    rw [List.getElem?_drop, Nat.add_comm] at hb
    exact h i p.1 p.2 ha hb


/-- **`Loca::read` succeeds exactly on whole entries**: `Ok` iff the length is a multiple of the entry
size (then `entries · size = len`, and short entries are u16s), else `InvalidArrayLen`. -/
theorem locaRead_total (d : List Nat) (hb : Bytes d) (isLong : Bool) :
    (∃ l, locaRead d isLong = .ok l ∧ l.long = isLong ∧
      l.entries.length * (if isLong then 4 else 2) = d.length ∧ LocaWf l) ∨
    (locaRead d isLong = .error .invalidArrayLen ∧ d.length % (if isLong then 4 else 2) ≠ 0) :=
  locaRead_facts d hb isLong

/-- **`get_raw` answers exactly the indices below the entry count** and the doubling of a short
entry does not overflow (`< 2^17`). -/
theorem getRaw_in_range (l : Loca) (hw : LocaWf l) (idx : Nat) :
    (idx < l.entries.length → ∃ v, l.getRaw idx = .ok (some v) ∧ (l.long = false → v < 131072)) ∧
    (l.entries.length ≤ idx → l.getRaw idx = .ok none) :=
  getRaw_facts l hw idx

/-- **the range `get_glyf` slices out of the glyf table is in bounds**: for every glyph id (u32) no
panic (`idx + 1` cannot overflow a usize); the only error is `OutOfBounds`; `Ok(None)` and a slice
need `gid + 1 < entries`, i.e. `gid < len()`; a slice satisfies `start < end ≤ glyf.len()`. -/
theorem getGlyf_range (l : Loca) (hw : LocaWf l) (glyfLen gid : Nat) (hg : gid ≤ 4294967295) :
    l.getGlyf glyfLen gid ≠ .trap ∧ (∀ e, l.getGlyf glyfLen gid = .err e → e = .oob) ∧
    (∀ a b, l.getGlyf glyfLen gid = .slice a b → a < b ∧ b ≤ glyfLen ∧ gid < l.len) ∧
    (l.getGlyf glyfLen gid = .none → gid < l.len) := by
  obtain ⟨h1, h2, h3, h4⟩ := getGlyf_facts l hw glyfLen gid hg
  refine ⟨h1, h2, ?_, ?_⟩
  · intro a b h
    obtain ⟨x, y, z⟩ := h3 a b h
    exact ⟨x, y, by unfold Loca.len; omega⟩
  · intro h
    have := h4 h
    unfold Loca.len; omega

/-! ## non-vacuity and concrete runs -/

example : Bytes [0x09, 0xFF, 0x37] := by unfold Bytes; decide
example : U16s [3, 7, 0xFFFF] := by unfold U16s; decide
example : LocaWf ⟨false, [0, 5, 0xFFFF]⟩ := by unfold LocaWf; decide
example : LocaWf ⟨true, [0, 70000]⟩ := by unfold LocaWf; decide

-- one flag repeated 256 times + one more: 257 points, 513 coordinate bytes each
example : resolveCoordsLen [0x09, 0xFF, 0x37] 257 = .ok ⟨3, 513, 513⟩ := by decide
-- a repeat count beyond the points left is `MalformedData`, a truncated flag array `OutOfBounds`
example : resolveCoordsLen [0x09, 5, 0, 0] 2 = .err .malformed := by decide
example : resolveCoordsLen [0x01] 2 = .err .oob := by decide
-- contour end 0xFFFF: `checked_add(1)` fails, `points()` is empty although `num_points()` is 65536
example : numPoints [0xFFFF] = some 65536 := by decide
example : pointsImpl [0xFFFF] [0x37] = .none := by decide
example : (points [1] [0x37, 0x37, 1, 2, 3, 4]).map items = some [(1, 3, true), (3, 7, true)] := by decide +kernel
-- three points, the flag bytes cover two: the third keeps the caller's flag
example : readPointsFast [2] [0x37, 0x37] 3 [0, 0, 0] 1 = .err .oob := by decide
example : readPointsFast [1] [0x37, 0x37, 1, 2, 3, 4] 2 [0, 0] 1 = .ok [(1, 3, 1), (3, 7, 1)] := by decide +kernel
example : readPointsFast [1] [0x37, 0x37, 1, 2, 3, 4] 3 [0, 0] 1 = .err .invalidArrayLen := by decide
-- a composite: one component with word arguments and a scale, instructions follow
example : (components [0x01, 0x0B, 0, 5, 0xFF, 0xFE, 0, 2, 0x20, 0, 0, 1, 9]).map items =
    some [⟨0x010B, 5, .offset (-2) 2, ⟨8192, 0, 0, 8192⟩⟩] := by decide
example : countAndInstructions [0x01, 0x0B, 0, 5, 0xFF, 0xFE, 0, 2, 0x20, 0, 0, 1, 9] = .ok (1, some (12, 1)) := by decide
example : (locaRead [0, 0, 0, 5, 0, 5] false).toOption.map (fun l => (l.getGlyf 20 0, l.getGlyf 20 1, l.getGlyf 20 2, l.getGlyf 9 0)) =
    some (.slice 0 10, .none, .err .oob, .err .oob) := by decide

end FontVerif.C01HandGlyf
