/-
C01 (hand-written code) — termination, iteration bounds, in-range indices / slices and absence of arithmetic
traps for the models of Model/HandGlyf.lean ⇄ read-fonts/src/tables/glyf.rs / loca.rs (SimpleGlyph points, PointIter, resolve_coords_len, CompositeGlyph components / instructions, Anchor / Transform, Loca::get_raw / get_glyf / all_offsets_are_ascending).
Tied to the real functions by harness group `glyf.model` (`hg.*` driver commands).
-/
import FontVerif.Model.HandGlyf
import FontVerif.Lemmas.ReadIter
set_option linter.unusedVariables false
set_option linter.unusedSimpArgs false
namespace FontVerif.C01HandGlyf
open FontVerif FontVerif.ReadIter FontVerif.HandRead FontVerif.HandGlyf

end FontVerif.C01HandGlyf
