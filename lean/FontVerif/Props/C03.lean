/-
C03 — scaled and hinted outlines match FreeType (static fonts).  PARTIAL by design: the theorems
below cover the fixed-point kernels and the TrueType round-state functions; everything above them
(interpreter opcode semantics, graphics state, CFF hinter, autohinter, composite assembly) is
checked differentially against the linked FreeType by the harness oracle, not proved.

Two transcriptions are related:
  skrifa side   Model/Fixed.lean (font-types `Fixed` operators), Model/HintMath.lean
                (hint/math.rs, projection.rs `dot14`), Model/HintRound.lean (hint/round.rs
                `RoundState::round`, engine/graphics.rs `super_round`) — in the overflow-checked
                profile, `none` = arithmetic-overflow trap;
  FreeType side Model/FtCalc.lean (ftcalc.c FT_MulFix/FT_DivFix/FT_MulDiv/FT_MulDiv_No_Round,
                ttinterp.c TT_MulFix14/TT_DotFix14, FT_PIX_* macros), Model/FtRound.lean
                (ttinterp.c Round_* and SetSuperRound) — 64-bit `long` arithmetic of the x86-64 build.
Shape of the theorems: for ALL i32 operands the skrifa function equals the FreeType function
(truncated to 32 bits where FreeType returns a 64-bit `long` that skrifa's `i32` API cannot hold, with a
corollary of exact equality whenever FreeType's result fits).  Where skrifa wraps at 32 bits and
FreeType's `long` has 64 (rounding a distance next to ±2^31) equality is stated on an explicit range
that is astronomically larger than any outline (|d| ≤ 2^30 26.6 units = 16.7 million pixels), and an
`example` shows the two really differ outside it.  Where skrifa still uses plain (trapping)
operators the statement is `skrifa = some (FreeType)`, i.e. it also proves "does not trap".
Last section: the unhinted scaling pipeline of a simple glyph (Model/Scale.lean).
Helper lemmas: Lemmas/FtEq.lean.
-/
import FontVerif.Lemmas.FtEq
import FontVerif.Lemmas.MoveEq
import FontVerif.Model.Scale
set_option linter.unusedVariables false
set_option linter.unusedSimpArgs false
set_option maxRecDepth 8000
namespace FontVerif.C03
open FontVerif

/-! ### 16.16 kernels: `Fixed` operators vs ftcalc.c -/

/-- `Fixed * Fixed` = `FT_MulFix` (the x86-64 inline-assembler variant that is compiled and
exported) for all i32 operands. -/
theorem mulfix_eq (a b : Int) (ha : inI32 a) (hb : inI32 b) :
    Fixed.mul a b = FtCalc.mulFix a b := by
  unfold Fixed.mul FtCalc.mulFix FtCalc.mulFixX8664
  rw [wrapI32_id ha, wrapI32_id hb]
  simp only []
  generalize a * b = p
  by_cases hp : p < 0 <;> simp [hp] <;> congr 1 <;> omega

example : Fixed.mul (-98304) 163840 = -245760 ∧ FtCalc.mulFix (-98304) 163840 = -245760 := by decide
example : Fixed.mul (-2147483648) (-2147483648) = FtCalc.mulFix (-2147483648) (-2147483648) := by decide

/-- `Fixed / Fixed` = `FT_DivFix` truncated to 32 bits, for all i32 operands (division by zero
included: both give ±0x7FFFFFFF). -/
theorem divfix_eq (a b : Int) (ha : inI32 a) (hb : inI32 b) :
    Fixed.div a b = wrapI32 (FtCalc.divFix a b) := by
  unfold Fixed.div FtCalc.divFix FtCalc.negLong
  rw [moveSign_abs (i32_i64 ha), moveSign_abs (i32_i64 hb)]
  have ba := iabs_bound ha
  have bb := iabs_bound hb
  generalize iabs a = ua at *
  generalize iabs b = ub at *
  simp only []
  by_cases hz : ub = 0
  · subst hz; simp; unfold wrapI32 wrapI64; split <;> simp
  · have hpos : 0 < ub := by omega
    have e1 : wrapU64 (wrapU64 (ua * 65536) + ub / 2) = ua * 65536 + ub / 2 := by
      unfold wrapU64; omega
    rw [e1]
    have hq0 : 0 ≤ (ua * 65536 + ub / 2) / ub := Int.ediv_nonneg (by omega) (by omega)
    have hq1 : (ua * 65536 + ub / 2) / ub ≤ ua * 65536 + ub / 2 :=
      Int.ediv_le_self _ (by omega)
    generalize (ua * 65536 + ub / 2) / ub = Q at *
    simp [hz, hpos]
    unfold wrapI32 wrapI64 wrapU32
    split <;> simp only [] <;> omega

/-- … and exactly `FT_DivFix` whenever FreeType's 64-bit quotient fits an `i32`. -/
theorem divfix_eq_exact (a b : Int) (ha : inI32 a) (hb : inI32 b) (hf : inI32 (FtCalc.divFix a b)) :
    Fixed.div a b = FtCalc.divFix a b := by
  rw [divfix_eq a b ha hb, wrapI32_id hf]

example : inI32 (FtCalc.divFix 98304 (-163840)) ∧ Fixed.div 98304 (-163840) = -39322 := by decide
example : Fixed.div 5 0 = 2147483647 ∧ FtCalc.divFix 5 0 = 2147483647
    ∧ Fixed.div (-5) 0 = -2147483647 ∧ FtCalc.divFix (-5) 0 = -2147483647 := by decide
-- the truncation is real: FreeType keeps 48 bits here, skrifa's `i32` cannot.
example : FtCalc.divFix (-2147483648) 1 = -140737488355328 ∧ Fixed.div (-2147483648) 1 = 0 := by decide

/-- `Fixed::mul_div` = `FT_MulDiv` truncated to 32 bits, for all i32 operands. -/
theorem muldiv_eq (a b c : Int) (ha : inI32 a) (hb : inI32 b) (hc : inI32 c) :
    Fixed.mulDiv a b c = wrapI32 (FtCalc.mulDiv a b c) := by
  unfold Fixed.mulDiv FtCalc.mulDiv FtCalc.negLong FtCalc.sign3
  rw [moveSign_abs (i32_i64 ha), moveSign_abs (i32_i64 hb), moveSign_abs (i32_i64 hc)]
  have ba := iabs_bound ha
  have bb := iabs_bound hb
  have bc := iabs_bound hc
  have bm := mul_bound ba bb
  simp only []
  generalize iabs a = ua at *
  generalize iabs b = ub at *
  generalize iabs c = uc at *
  generalize ua * ub = p at *
  by_cases hz : uc > 0
  · have e1 : wrapU64 (wrapU64 p + uc / 2) = p + uc / 2 := by unfold wrapU64; omega
    rw [e1]
    have hq0 : 0 ≤ (p + uc / 2) / uc := Int.ediv_nonneg (by omega) (by omega)
    have hq1 : (p + uc / 2) / uc ≤ p + uc / 2 := Int.ediv_le_self _ (by omega)
    generalize (p + uc / 2) / uc = Q at *
    simp [hz]
    unfold wrapI32 wrapI64
    split <;> simp only [] <;> omega
  · simp [hz]; unfold wrapI32 wrapI64; split <;> simp

theorem muldiv_eq_exact (a b c : Int) (ha : inI32 a) (hb : inI32 b) (hc : inI32 c)
    (hf : inI32 (FtCalc.mulDiv a b c)) : Fixed.mulDiv a b c = FtCalc.mulDiv a b c := by
  rw [muldiv_eq a b c ha hb hc, wrapI32_id hf]

example : inI32 (FtCalc.mulDiv 1000 (-2048) 72) ∧ Fixed.mulDiv 1000 (-2048) 72 = -28444 := by decide

/-- hint/math.rs `mul_div_no_round` = `FT_MulDiv_No_Round` truncated to 32 bits, for all i32 operands. -/
theorem muldiv_no_round_eq (a b c : Int) (ha : inI32 a) (hb : inI32 b) (hc : inI32 c) :
    HintMath.mulDivNoRound a b c = wrapI32 (FtCalc.mulDivNoRound a b c) := by
  unfold HintMath.mulDivNoRound
  unfold FtCalc.mulDivNoRound FtCalc.negLong FtCalc.sign3
  rw [moveSign_abs (i32_i64 ha), moveSign_abs (i32_i64 hb), moveSign_abs (i32_i64 hc)]
  have ba := iabs_bound ha
  have bb := iabs_bound hb
  have bc := iabs_bound hc
  have bm := mul_bound ba bb
  simp only []
  generalize iabs a = ua at *
  generalize iabs b = ub at *
  generalize iabs c = uc at *
  generalize ua * ub = p at *
  have e1 : wrapU64 p = p := by unfold wrapU64; omega
  rw [e1]
  by_cases hz : uc > 0
  · have hq0 : 0 ≤ p / uc := Int.ediv_nonneg (by omega) (by omega)
    have hq1 : p / uc ≤ p := Int.ediv_le_self _ (by omega)
    generalize p / uc = Q at *
    simp only [hz, if_true]
    unfold wrapI32 wrapI64
    simp only []
    split <;> split <;> omega
  · simp only [hz, if_false]
    unfold wrapI32 wrapI64
    simp only []
    split <;> simp <;> omega

example : HintMath.mulDivNoRound 1000 (-2048) 72 = -28444
    ∧ FtCalc.mulDivNoRound 1000 (-2048) 72 = -28444 := by decide
example : HintMath.mulDivNoRound (-2147483648) 1 (-1) = -2147483648
    ∧ FtCalc.mulDivNoRound (-2147483648) 1 (-1) = 2147483648 := by decide

/-! ### 2.14 kernels -/

/-- hint/math.rs `mul14` = ttinterp.c `TT_MulFix14` (the two transcriptions coincide term by
term; the correspondence harness is what ties each to its source). -/
theorem mul14_eq (a b : Int) : HintMath.mul14 a b = FtCalc.mulFix14 a b := rfl

/-- projection.rs `dot14` = `TT_DotFix14` whenever the checked i64 additions do not trap. -/
theorem dot14_eq (ax ay bx by_ r : Int) (h : HintMath.dot14 ax ay bx by_ = some r) :
    r = FtCalc.dotFix14 ax ay bx by_ := by
  unfold HintMath.dot14 at h
  unfold FtCalc.dotFix14
  generalize ax * bx + ay * by_ = p at *
  simp only []
  cases h1 : HintMath.chk64 p with
  | none => simp [h1] at h
  | some v1 =>
    have ⟨e1, b1⟩ := chk64_some h1
    subst e1
    simp only [h1, Option.bind_some] at h
    cases h2 : HintMath.chk64 (v1 + (8192 + if v1 < 0 then -1 else 0)) with
    | none => simp [h2] at h
    | some v2 =>
      have ⟨e2, b2⟩ := chk64_some h2
      simp only [h2, Option.map_some, Option.some.injEq] at h
      rw [wrapI64_id b1, wrapI64_id b2, ← e2]; exact h.symm

example : HintMath.dot14 640 (-320) 11585 11585 = some 226 ∧ FtCalc.dotFix14 640 (-320) 11585 11585 = 226 := by decide

/-! ### 26.6 grid helpers: hint/math.rs vs FT_PIX_* / FT_PAD_* -/

theorem floor_eq (x : Int) : HintMath.floor x = FtCalc.pixFloor x := rfl

/-- the model's arithmetic rendering of `x & !63` is the bitwise AND. -/
theorem floor_is_land (x : Int) (h : inI32 x) : HintMath.floor x = landInt x (notInt 63) := by
  unfold HintMath.floor; rw [show notInt 63 = -64 from by decide, land_neg64 x (i32_i64 h)]

/-- `round(x)` = `FT_PIX_ROUND_LONG(x)` unless `x + 32` leaves the i32 range (skrifa wraps there,
FreeType's 64-bit `long` does not). -/
theorem round_eq (x : Int) (h : inI32 x) (hx : x + 32 < 2147483648) :
    HintMath.round x = FtCalc.pixRoundLong x := by
  unfold inI32 at h
  unfold HintMath.round FtCalc.pixRoundLong FtCalc.addLong
  rw [wI32 (by omega) (by omega), wI64 (by omega) (by omega)]; rfl

/-- `ceil(x)` = `FT_PIX_CEIL_LONG(x)` unless `x + 63` leaves the i32 range. -/
theorem ceil_eq (x : Int) (h : inI32 x) (hx : x + 63 < 2147483648) :
    HintMath.ceil x = FtCalc.pixCeilLong x := by
  unfold inI32 at h
  unfold HintMath.ceil FtCalc.pixCeilLong FtCalc.addLong
  rw [wI32 (by omega) (by omega), wI64 (by omega) (by omega)]; rfl

/-- `round_pad(x, 32)` = `FT_PAD_ROUND_LONG(x, 32)` unless `x + 16` leaves the i32 range. -/
theorem round_pad32_eq (x : Int) (h : inI32 x) (hx : x + 16 < 2147483648) :
    HintMath.roundPad x 32 = some (FtCalc.padRoundLong32 x) := by
  unfold inI32 at h
  unfold HintMath.roundPad HintMath.floorPad FtCalc.padRoundLong32 FtCalc.addLong
  have e16 : Int.tdiv 32 2 = 16 := by decide
  have e31 : HintMath.chk (32 - 1) = some 31 := by decide
  rw [e16, e31, wI32 (by omega) (by omega), wI64 (by omega) (by omega)]
  simp only [Option.map_some, show notInt 31 = -32 from by decide]
  rw [land_neg32' _ (by omega) (by omega)]

example : HintMath.round (-33) = -64 ∧ HintMath.ceil (-64) = -64
    ∧ HintMath.roundPad 47 32 = some 32 := by decide
-- outside the hypothesis the two really differ
example : HintMath.round 2147483647 = -2147483648 ∧ FtCalc.pixRoundLong 2147483647 = 2147483648 := by decide

/-! ### round-state functions: `RoundState::round` vs ttinterp.c `Round_*`
(FreeType's engine compensation is 0 for every colour: ttobjs.c).
skrifa wraps at 32 bits where FreeType's `long` has 64, so equality is stated on ranges in which no
intermediate leaves the i32 range; the ranges are orders of magnitude beyond any rasterised
coordinate (2^30 26.6 units = 16.7 million pixels). -/

/-- modes Grid, HalfGrid, DoubleGrid, DownToGrid, UpToGrid, Off (protocol numbers 0‥5): for every
distance with `|d| ≤ 2^31 - 64` skrifa's function returns exactly what FreeType's `Round_To_Grid` /
`Round_To_Half_Grid` / `Round_To_Double_Grid` / `Round_Down_To_Grid` / `Round_Up_To_Grid` /
`Round_None` return (and never traps). -/
theorem round_fixed_modes_eq (mode thr ph per d : Int) (hm : 0 ≤ mode ∧ mode ≤ 5)
    (hd : -2147483584 ≤ d ∧ d ≤ 2147483584) :
    HintRound.round mode thr ph per d = some (FtRound.round mode thr ph per 0 d) := by
  have hm' : mode = 0 ∨ mode = 1 ∨ mode = 2 ∨ mode = 3 ∨ mode = 4 ∨ mode = 5 := by omega
  unfold HintRound.round
  unfold FtRound.round
  have e16 : Int.tdiv 32 2 = 16 := by decide
  have e31 : notInt 31 = -32 := by decide
  rcases hm' with e | e | e | e | e | e <;> subst e <;>
    simp only [show ((0:Int) = 1) = False from by decide, show ((2:Int) = 1) = False from by decide,
      show ((2:Int) = 0) = False from by decide,
      show ((3:Int) = 1) = False from by decide, show ((3:Int) = 0) = False from by decide,
      show ((3:Int) = 2) = False from by decide,
      show ((1:Int) = 0) = False from by decide,
      show ((4:Int) = 0) = False from by decide, show ((4:Int) = 1) = False from by decide,
      show ((4:Int) = 2) = False from by decide, show ((4:Int) = 3) = False from by decide,
      show ((5:Int) = 0) = False from by decide, show ((5:Int) = 1) = False from by decide,
      show ((5:Int) = 2) = False from by decide, show ((5:Int) = 3) = False from by decide,
      show ((5:Int) = 4) = False from by decide, show ((5:Int) = 6) = False from by decide,
      show ((5:Int) = 7) = False from by decide,
      if_false, if_true] <;>
    simp only [FtRound.roundToGrid, FtRound.roundToHalfGrid, FtRound.roundToDoubleGrid,
      FtRound.roundDownToGrid, FtRound.roundUpToGrid, FtRound.roundNone,
      FtCalc.pixRoundLong, FtCalc.pixCeilLong, FtCalc.padRoundLong32, FtCalc.pixFloor,
      FtCalc.addLong, FtCalc.subLong, FtCalc.negLong] <;>
    (by_cases hp : d ≥ 0 <;>
      simp only [hp, if_false, if_true, HintMath.round, HintMath.ceil, HintMath.roundPad,
        HintMath.floorPad, HintRound.wneg, e16, e31,
        Function.comp, HintMath.floor, HintRound.imin, HintRound.imax, Option.map_some,
        Option.some.injEq, show HintMath.chk (32 - 1) = some 31 from by decide])
  all_goals (simp (disch := omega) only [wI64, wI32, land_neg32'])
  all_goals omega

/-- `Round_Super`: every threshold, phase, period within ±2^20 (SROUND/S45ROUND produce values
below 2^8) and every distance within ±2^30. The bitwise AND is not specialised to powers of two. -/
theorem round_super_eq (thr ph per d : Int)
    (ht : -1048576 ≤ thr ∧ thr ≤ 1048576) (hph : -1048576 ≤ ph ∧ ph ≤ 1048576)
    (hper : -1048576 ≤ per ∧ per ≤ 1048576) (hd : -1073741824 ≤ d ∧ d ≤ 1073741824) :
    HintRound.round 6 thr ph per d = some (FtRound.round 6 thr ph per 0 d) := by
  unfold HintRound.round
  unfold FtRound.round
  simp only [show ((6:Int) = 0) = False from by decide, show ((6:Int) = 1) = False from by decide,
    show ((6:Int) = 2) = False from by decide, show ((6:Int) = 3) = False from by decide,
    show ((6:Int) = 4) = False from by decide, show ((6:Int) = 5) = False from by decide,
    if_false, if_true, FtRound.roundSuper, FtCalc.addLong, FtCalc.subLong, FtCalc.negLong,
    HintRound.wneg, Int.add_zero]
  have c1 : HintMath.chk (thr - ph) = some (thr - ph) := by
    rw [chk_iff]; unfold inI32; omega
  have c2 : HintMath.chk (-per) = some (-per) := by
    rw [chk_iff]; unfold inI32; omega
  have c3 : HintMath.chk (-ph) = some (-ph) := by
    rw [chk_iff]; unfold inI32; omega
  by_cases hp : d ≥ 0 <;>
    simp only [hp, if_false, if_true, c1, c2, Option.bind_some, Option.map_some]
  · have hL := land_super_bound (d + (thr - ph)) (-per) (by omega) (by omega)
    simp (disch := omega) only [wI64, wI32]
  · have hL := land_super_bound (thr - ph - d) (-per) (by omega) (by omega)
    simp (disch := omega) only [wI64, wI32]
    generalize landInt (thr - ph - d) (-per) = L at *
    simp (disch := omega) only [wI64, wI32, c3]
    split <;> rfl

/-- `Round_Super_45`, for a positive period (`period = 0` traps in skrifa and faults in FreeType). -/
theorem round_super45_eq (thr ph per d : Int)
    (ht : -1048576 ≤ thr ∧ thr ≤ 1048576) (hph : -1048576 ≤ ph ∧ ph ≤ 1048576)
    (hper : 0 < per ∧ per ≤ 1048576) (hd : -1073741824 ≤ d ∧ d ≤ 1073741824) :
    HintRound.round 7 thr ph per d = some (FtRound.round 7 thr ph per 0 d) := by
  unfold HintRound.round
  unfold FtRound.round
  simp only [show ((7:Int) = 0) = False from by decide, show ((7:Int) = 1) = False from by decide,
    show ((7:Int) = 2) = False from by decide, show ((7:Int) = 3) = False from by decide,
    show ((7:Int) = 4) = False from by decide, show ((7:Int) = 5) = False from by decide,
    show ((7:Int) = 6) = False from by decide,
    if_false, if_true, FtRound.roundSuper45, FtCalc.addLong, FtCalc.subLong, FtCalc.negLong,
    HintRound.wneg, Int.add_zero]
  have c1 : HintMath.chk (thr - ph) = some (thr - ph) := by
    rw [chk_iff]; unfold inI32; omega
  have c3 : HintMath.chk (-ph) = some (-ph) := by
    rw [chk_iff]; unfold inI32; omega
  have hz : ¬ per = 0 := by omega
  by_cases hp : d ≥ 0 <;>
    simp only [hp, hz, if_false, if_true, c1, Option.bind_some, Option.map_some]
  · have hb := tdiv_mul_bound (d + (thr - ph)) per hper.1
    simp (disch := omega) only [wI64, wI32]
    have c4 : HintMath.chk ((d + (thr - ph)).tdiv per) = some ((d + (thr - ph)).tdiv per) := by
      rw [chk_iff]; unfold inI32; omega
    have c5 : HintMath.chk ((d + (thr - ph)).tdiv per * per) = some ((d + (thr - ph)).tdiv per * per) := by
      rw [chk_iff]; unfold inI32; omega
    simp only [c4, c5, Option.bind_some, Option.map_some]
    generalize (d + (thr - ph)).tdiv per * per = M at *
    simp (disch := omega) only [wI64, wI32]
  · have hb := tdiv_mul_bound (thr - ph - d) per hper.1
    simp (disch := omega) only [wI64, wI32]
    have c4 : HintMath.chk ((thr - ph - d).tdiv per) = some ((thr - ph - d).tdiv per) := by
      rw [chk_iff]; unfold inI32; omega
    have c5 : HintMath.chk ((thr - ph - d).tdiv per * per) = some ((thr - ph - d).tdiv per * per) := by
      rw [chk_iff]; unfold inI32; omega
    simp only [c4, c5, Option.bind_some, Option.map_some]
    generalize (thr - ph - d).tdiv per * per = M at *
    simp (disch := omega) only [wI64, wI32, c3]
    split <;> rfl

/-- all eight round modes at once. -/
theorem round_state_eq (mode thr ph per d : Int) (hm : 0 ≤ mode ∧ mode ≤ 7)
    (ht : -1048576 ≤ thr ∧ thr ≤ 1048576) (hph : -1048576 ≤ ph ∧ ph ≤ 1048576)
    (hper : 0 < per ∧ per ≤ 1048576) (hd : -1073741824 ≤ d ∧ d ≤ 1073741824) :
    HintRound.round mode thr ph per d = some (FtRound.round mode thr ph per 0 d) := by
  by_cases h5 : mode ≤ 5
  · exact round_fixed_modes_eq mode thr ph per d ⟨hm.1, h5⟩ (by omega)
  · have : mode = 6 ∨ mode = 7 := by omega
    rcases this with e | e <;> subst e
    · exact round_super_eq thr ph per d ht hph (by omega) hd
    · exact round_super45_eq thr ph per d ht hph hper hd

example : HintRound.round 0 0 0 64 (-33) = some (-64) ∧ FtRound.round 0 0 0 64 0 (-33) = -64 := by decide
example : HintRound.round 1 0 0 64 50 = some 32 ∧ HintRound.round 2 0 0 64 47 = some 32
    ∧ HintRound.round 3 0 0 64 (-65) = some (-64) ∧ HintRound.round 4 0 0 64 1 = some 64 := by decide
-- SROUND 0x48-style state (period 64, phase 0, threshold 32) and an S45ROUND state
example : HintRound.round 6 32 0 64 95 = some 64 ∧ FtRound.round 6 32 0 64 0 95 = 64
    ∧ HintRound.round 7 22 11 45 (-100) = some (-101) ∧ FtRound.round 7 22 11 45 0 (-100) = -101 := by decide
-- beyond the range skrifa wraps and FreeType computes on in 64 bits
example : HintRound.round 0 0 0 64 2147483647 = some 0 ∧ FtRound.round 0 0 0 64 0 2147483647 = 2147483648 := by decide

/-! ### SROUND / S45ROUND selector decomposition -/

/-- `Engine::super_round` never traps at its two call sites (grid period 0x4000 for SROUND,
0x2D41 for S45ROUND) and yields FreeType's `SetSuperRound` (period, phase, threshold) for every
i32 selector. -/
theorem super_round_eq (g sel : Int) (hg : g = 16384 ∨ g = 11585) :
    HintRound.superRound g sel = some (FtRound.setSuperRound g sel) := by
  have hk : 0 ≤ sel % 256 ∧ sel % 256 < 256 := by omega
  rw [(super_round_byte g sel).1, (super_round_byte g sel).2]
  generalize sel % 256 = k at hk
  have := super_round_table ⟨k.toNat, by omega⟩
  have e : ((k.toNat : Nat) : Int) = k := by omega
  simp only [e] at this
  rcases hg with rfl | rfl
  · exact this.1
  · exact this.2

/-- what `SetSuperRound` can produce: period 22‥128, phase 0‥96, threshold −64‥176. -/
theorem super_round_state_bounds (g sel : Int) (hg : g = 16384 ∨ g = 11585) :
    22 ≤ (FtRound.setSuperRound g sel).1 ∧ (FtRound.setSuperRound g sel).1 ≤ 128 ∧
    0 ≤ (FtRound.setSuperRound g sel).2.1 ∧ (FtRound.setSuperRound g sel).2.1 ≤ 96 ∧
    -64 ≤ (FtRound.setSuperRound g sel).2.2 ∧ (FtRound.setSuperRound g sel).2.2 ≤ 176 := by
  have hk : 0 ≤ sel % 256 ∧ sel % 256 < 256 := by omega
  rw [(super_round_byte g sel).2]
  generalize sel % 256 = k at hk
  have T : ∀ k : Fin 256,
      (22 ≤ (FtRound.setSuperRound 16384 k.val).1 ∧ (FtRound.setSuperRound 16384 k.val).1 ≤ 128 ∧
       0 ≤ (FtRound.setSuperRound 16384 k.val).2.1 ∧ (FtRound.setSuperRound 16384 k.val).2.1 ≤ 96 ∧
       -64 ≤ (FtRound.setSuperRound 16384 k.val).2.2 ∧ (FtRound.setSuperRound 16384 k.val).2.2 ≤ 176) ∧
      (22 ≤ (FtRound.setSuperRound 11585 k.val).1 ∧ (FtRound.setSuperRound 11585 k.val).1 ≤ 128 ∧
       0 ≤ (FtRound.setSuperRound 11585 k.val).2.1 ∧ (FtRound.setSuperRound 11585 k.val).2.1 ≤ 96 ∧
       -64 ≤ (FtRound.setSuperRound 11585 k.val).2.2 ∧ (FtRound.setSuperRound 11585 k.val).2.2 ≤ 176) := by
    decide +kernel
  have := T ⟨k.toNat, by omega⟩
  have e : ((k.toNat : Nat) : Int) = k := by omega
  simp only [e] at this
  rcases hg with rfl | rfl
  · exact this.1
  · exact this.2

/-- the instruction sequences `SROUND[] n; ROUND[] d` and `S45ROUND[] n; ROUND[] d` as a whole: for every
i32 selector and every distance within ±2^30, skrifa's handlers leave the state FreeType's leave and
round the distance to the value FreeType rounds it to. -/
theorem sround_then_round_eq (is45 : Bool) (sel d p ph t : Int)
    (hd : -1073741824 ≤ d ∧ d ≤ 1073741824)
    (hst : FtRound.setSuperRound (if is45 then 11585 else 16384) sel = (p, ph, t)) :
    HintRound.superRound (if is45 then 11585 else 16384) sel = some (p, ph, t) ∧
    HintRound.round (if is45 then 7 else 6) t ph p d
      = some (FtRound.round (if is45 then 7 else 6) t ph p 0 d) := by
  have hg : (if is45 then (11585 : Int) else 16384) = 16384 ∨
      (if is45 then (11585 : Int) else 16384) = 11585 := by cases is45 <;> simp
  have hb := super_round_state_bounds _ sel hg
  rw [hst] at hb
  simp only at hb
  refine ⟨by rw [super_round_eq _ sel hg, hst], ?_⟩
  exact round_state_eq _ t ph p d (by cases is45 <;> simp)
    (by omega) (by omega) (by omega) hd

example : HintRound.superRound 16384 0x48 = some (64, 0, 32) := by decide
example : HintRound.superRound 11585 0x9D = some (90, 22, 101) := by decide

/-! ### unhinted scaling of a simple glyph (Model/Scale.lean) -/

/-- one coordinate: skrifa's `coord * scale` with its own scale = FreeType's with FreeType's scale,
for every i32 coordinate, ppem and units-per-em. -/
theorem scale_coord_eq (c p u : Int) (hc : inI32 c) (hp : inI32 p) (hu : inI32 u) :
    Fixed.mul c (Scale.skScale p u) = FtCalc.mulFix c (Scale.ftScale p u) := by
  unfold Scale.skScale Scale.ftScale
  rw [mulFix_wrap_right, ← divfix_eq p u hp hu]
  have hd : inI32 (Fixed.div p u) := by
    unfold Fixed.div; simp only []; unfold inI32 wrapI32; simp only []; split <;> split <;> omega
  exact mulfix_eq c _ hc hd

/-- the whole unhinted simple-glyph pipeline: for every glyph with i16 coordinates, i16 bearing and
box, u16 advance, and every size whose scale is at most 64 pixels per font unit, skrifa produces
exactly FreeType's outline points and advance. -/
theorem scale_simple_eq (p u : Int) (g : Scale.Simple) (hp : inI32 p) (hu : inI32 u)
    (hs : 0 ≤ Scale.skScale p u ∧ Scale.skScale p u ≤ 4194304)
    (hpts : ∀ q ∈ g.pts, (-32768 ≤ q.1 ∧ q.1 ≤ 32767) ∧ (-32768 ≤ q.2 ∧ q.2 ≤ 32767))
    (hx : -32768 ≤ g.xMin ∧ g.xMin ≤ 32767) (hl : -32768 ≤ g.lsb ∧ g.lsb ≤ 32767)
    (ha : 0 ≤ g.adv ∧ g.adv ≤ 65535) :
    Scale.skSimple (Scale.skScale p u) g = Scale.ftSimple (Scale.ftScale p u) g := by
  unfold Scale.skSimple Scale.ftSimple
  have i32 : ∀ c : Int, -131072 ≤ c ∧ c ≤ 131072 → inI32 c := by intro c h; unfold inI32; omega
  have e2 : wrapI32 (g.xMin - g.lsb + g.adv) = g.xMin - g.lsb + g.adv := wI32 (by omega) (by omega)
  have k1 := scale_coord_eq (g.xMin - g.lsb) p u (i32 _ (by omega)) hp hu
  have k2 := scale_coord_eq (g.xMin - g.lsb + g.adv) p u (i32 _ (by omega)) hp hu
  have b1 := mul_small (g.xMin - g.lsb) _ (by omega) hs
  have b2 := mul_small (g.xMin - g.lsb + g.adv) _ (by omega) hs
  simp only [e2]
  rw [← k1, ← k2]
  generalize hP1 : Fixed.mul (g.xMin - g.lsb) (Scale.skScale p u) = P1 at *
  generalize hP2 : Fixed.mul (g.xMin - g.lsb + g.adv) (Scale.skScale p u) = P2 at *
  have eadv : wrapI32 (P2 - P1) = FtCalc.subLong P2 P1 := by
    unfold FtCalc.subLong; rw [wI32 (by omega) (by omega), wI64 (by omega) (by omega)]
  have emap : (g.pts.map fun q => (Fixed.mul q.1 (Scale.skScale p u), Fixed.mul q.2 (Scale.skScale p u)))
      = (g.pts.map fun q => (FtCalc.mulFix q.1 (Scale.ftScale p u), FtCalc.mulFix q.2 (Scale.ftScale p u))) := by
    apply List.map_congr_left
    intro q hq
    have := hpts q hq
    rw [scale_coord_eq q.1 p u (i32 _ (by omega)) hp hu, scale_coord_eq q.2 p u (i32 _ (by omega)) hp hu]
  rw [eadv, ← emap]
  congr 1
  by_cases h0 : P1 = 0
  · simp [h0]
  · simp only [ne_eq, h0, not_false_eq_true, if_true, List.map_map]
    apply List.map_congr_left
    intro q hq
    have hq' := hpts q hq
    have bq := mul_small q.1 _ (by omega) hs
    simp only [Function.comp]
    unfold FtCalc.addLong
    rw [wI32 (by omega) (by omega), wI64 (by omega) (by omega)]
    congr 1

-- 16 ppem at 1000 units per em: scale 0x10625; the hypotheses hold and the pipelines agree
example : Scale.skScale 1024 1000 = 67109 ∧ Scale.ftScale 1024 1000 = 67109 := by decide
example :
    let g : Scale.Simple := { pts := [(100, 0), (700, -20), (350, 1462)], xMin := 100, lsb := 37, adv := 1139 }
    Scale.skSimple (Scale.skScale 1024 1000) g = ([(37, 0), (652, -20), (293, 1497)], 1166)
    ∧ Scale.ftSimple (Scale.ftScale 1024 1000) g = ([(37, 0), (652, -20), (293, 1497)], 1166) := by decide

/-! ### MIRP / MIAP / MDRP: the value handed to `move_point` / `func_move`
(Model/HintMove.lean = skrifa `op_mirp`, `op_miap`, `op_mdrp`; Model/FtMove.lean = ttinterp.c
`Ins_MIRP`, `Ins_MIAP`, `Ins_MDRP`).  For every flag combination, every round state in the range of
`round_state_eq`, every cut-in, and distances within ±2^29 (8.4 million pixels) skrifa's handler
computes exactly FreeType's move and does not trap. -/

/-- MIRP, single-width stage. -/
theorem mirp_sw_eq (g : HintMove.Gs) (c : Int) (hg : MoveRange g) (hc : Dist29 c) :
    HintMove.mirpSw g c = FtMove.mirpSw g c ∧ Dist29 (FtMove.mirpSw g c) := by
  obtain ⟨_, _, _, _, _, _, hsw, _⟩ := hg
  have h1 := wabs_wsub hc (show Dist29 g.sw from hsw)
  unfold HintMove.mirpSw FtMove.mirpSw
  rw [h1.1]
  unfold Dist29 at *
  unfold HintRound.wneg
  rw [wI32 (by omega) (by omega)]
  constructor
  · rfl
  · repeat' split
    all_goals omega

/-- MIRP from the auto-flip test to the move (all 2^4 combinations of round flag, minimum-distance
flag, same-zone and auto-flip). -/
theorem mirp_move_eq (g : HintMove.Gs) (rnd mind same : Bool) (c org cur : Int)
    (hg : MoveRange g) (hc : Dist29 c) (ho : Dist29 org) (hu : Dist29 cur) :
    HintMove.mirpMove g rnd mind same c org cur = some (FtMove.mirpMove g rnd mind same c org cur) := by
  obtain ⟨hm, ht, hph, hper, _, _, _, hmd⟩ := hg
  unfold HintMove.mirpMove FtMove.mirpMove
  -- auto-flip: both sides negate under the same condition
  have hneg : HintRound.wneg c = FtCalc.negLong c ∧ Dist29 (FtCalc.negLong c) := by
    unfold Dist29 at *; unfold HintRound.wneg FtCalc.negLong
    rw [wI32 (by omega) (by omega), wI64 (by omega) (by omega)]; omega
  rw [hneg.1]
  generalize hc1 : (if (g.autoFlip = true ∧ lxorInt org c < 0) then FtCalc.negLong c else c) = c1
  have hc1r : Dist29 c1 := by rw [← hc1]; split; exact hneg.2; exact hc
  simp only []
  have hab := wabs_wsub hc1r ho
  rw [hab.1]
  generalize hc2 : (if (same = true ∧ FtMove.absLong (FtCalc.subLong c1 org) > g.cutin) then org else c1) = c2
  have hc2r : Dist29 c2 := by rw [← hc2]; split; exact ho; exact hc1r
  have hr2 := round_state_eq g.mode g.thr g.ph g.per c2 hm ht hph hper (by unfold Dist29 at hc2r; omega)
  have hb2 := ft_round_bound g.mode g.thr g.ph g.per c2 hm ht hph hper (by unfold Dist29 at hc2r; omega)
  have hnone : FtRound.roundNone 0 c1 = c1 := by
    unfold Dist29 at hc1r
    unfold FtRound.roundNone FtCalc.addLong FtCalc.subLong
    simp (disch := omega) only [wI64, Int.add_zero, Int.sub_zero]
    repeat' split
    all_goals omega
  rw [hnone]
  have hfin : ∀ d : Int, (-1082130432 ≤ d ∧ d ≤ 1082130432) →
      HintMove.wsub d cur = FtCalc.subLong d cur := by
    intro d hd; unfold Dist29 at hu; unfold HintMove.wsub FtCalc.subLong
    rw [wI32 (by omega) (by omega), wI64 (by omega) (by omega)]
  cases rnd <;> cases mind <;>
    simp only [Bool.false_eq_true, if_false, if_true, hr2, Option.map_some, Option.some.injEq,
      minDist_eq hmd]
  · exact hfin _ (by unfold Dist29 at hc1r; omega)
  · exact hfin _ (minDist_bound hmd (by unfold Dist29 at hc1r; omega))
  · exact hfin _ hb2
  · exact hfin _ (minDist_bound hmd hb2)

/-- **MIRP**: `op_mirp` = `Ins_MIRP`. -/
theorem mirp_eq (g : HintMove.Gs) (rnd mind same : Bool) (c org cur : Int)
    (hg : MoveRange g) (hc : Dist29 c) (ho : Dist29 org) (hu : Dist29 cur) :
    HintMove.mirp g rnd mind same c org cur = some (FtMove.mirp g rnd mind same c org cur) := by
  unfold HintMove.mirp FtMove.mirp
  have h := mirp_sw_eq g c hg hc
  rw [h.1]
  exact mirp_move_eq g rnd mind same _ org cur hg h.2 ho hu

/-- **MIAP**: `op_miap` = `Ins_MIAP`. -/
theorem miap_eq (g : HintMove.Gs) (rnd : Bool) (c cur : Int)
    (hg : MoveRange g) (hc : Dist29 c) (hu : Dist29 cur) :
    HintMove.miap g rnd c cur = some (FtMove.miap g rnd c cur) := by
  obtain ⟨hm, ht, hph, hper, _, _, _, _⟩ := hg
  unfold HintMove.miap FtMove.miap
  have hab := wabs_wsub hc hu
  rw [hab.1]
  generalize hc1 : (if FtMove.absLong (FtCalc.subLong c cur) > g.cutin then cur else c) = c1
  have hc1r : Dist29 c1 := by rw [← hc1]; split; exact hu; exact hc
  have hr := round_state_eq g.mode g.thr g.ph g.per c1 hm ht hph hper (by unfold Dist29 at hc1r; omega)
  have hb := ft_round_bound g.mode g.thr g.ph g.per c1 hm ht hph hper (by unfold Dist29 at hc1r; omega)
  have hfin : ∀ d : Int, (-1082130432 ≤ d ∧ d ≤ 1082130432) →
      HintMove.wsub d cur = FtCalc.subLong d cur := by
    intro d hd; unfold Dist29 at hu; unfold HintMove.wsub FtCalc.subLong
    rw [wI32 (by omega) (by omega), wI64 (by omega) (by omega)]
  cases rnd <;> simp only [Bool.false_eq_true, if_false, if_true, hr, Option.map_some, Option.some.injEq]
  · exact hfin _ (by unfold Dist29 at hc; omega)
  · exact hfin _ hb

/-- **MDRP**: `op_mdrp` = `Ins_MDRP` (single-width cut-in, rounding, minimum distance). -/
theorem mdrp_eq (g : HintMove.Gs) (rnd mind : Bool) (org cur : Int)
    (hg : MoveRange g) (hsc : Dist29 g.swci) (ho : Dist29 org) (hu : Dist29 cur) :
    HintMove.mdrp g rnd mind org cur = some (FtMove.mdrp g rnd mind org cur) := by
  obtain ⟨hm, ht, hph, hper, _, _, hsw, hmd⟩ := hg
  unfold HintMove.mdrp FtMove.mdrp
  have e1 : HintMove.wadd g.sw g.swci = g.sw + g.swci := by
    unfold Dist29 at hsc; unfold HintMove.wadd; exact wI32 (by omega) (by omega)
  have e2 : HintMove.wsub g.sw g.swci = g.sw - g.swci := by
    unfold Dist29 at hsc; unfold HintMove.wsub; exact wI32 (by omega) (by omega)
  have e3 : HintRound.wneg g.sw = -g.sw := by
    unfold HintRound.wneg; exact wI32 (by omega) (by omega)
  rw [e1, e2, e3]
  generalize ho1 : (if (g.swci > 0 ∧ org < g.sw + g.swci ∧ org > g.sw - g.swci)
    then (if org ≥ 0 then g.sw else -g.sw) else org) = o1
  have ho1r : Dist29 o1 := by
    unfold Dist29 at *; rw [← ho1]; repeat' split
    all_goals omega
  simp only []
  have hr := round_state_eq g.mode g.thr g.ph g.per o1 hm ht hph hper (by unfold Dist29 at ho1r; omega)
  have hb := ft_round_bound g.mode g.thr g.ph g.per o1 hm ht hph hper (by unfold Dist29 at ho1r; omega)
  have hnone : FtRound.roundNone 0 o1 = o1 := by
    unfold Dist29 at ho1r
    unfold FtRound.roundNone FtCalc.addLong FtCalc.subLong
    simp (disch := omega) only [wI64, Int.add_zero, Int.sub_zero]
    repeat' split
    all_goals omega
  rw [hnone]
  have hfin : ∀ d : Int, (-1082130432 ≤ d ∧ d ≤ 1082130432) →
      HintMove.wsub d cur = FtCalc.subLong d cur := by
    intro d hd; unfold Dist29 at hu; unfold HintMove.wsub FtCalc.subLong
    rw [wI32 (by omega) (by omega), wI64 (by omega) (by omega)]
  cases rnd <;> cases mind <;>
    simp only [Bool.false_eq_true, if_false, if_true, hr, Option.map_some, Option.some.injEq,
      minDist_eq hmd]
  · exact hfin _ (by unfold Dist29 at ho1r; omega)
  · exact hfin _ (minDist_bound hmd (by unfold Dist29 at ho1r; omega))
  · exact hfin _ hb
  · exact hfin _ (minDist_bound hmd hb)


-- non-vacuity: the default graphics state (RTG, cut-in 17/16 px, minimum distance 1 px, auto-flip on)
example : MoveRange ⟨0, 0, 0, 64, 68, 0, 0, 64, true⟩ ∧ Dist29 368 ∧ Dist29 (-300) := by
  unfold MoveRange Dist29 inI32; decide
-- MIRP[round+min] at the cut-in boundary: |cvt - org| = 68 keeps the cvt value (368 → 384), 69 falls back to
-- the outline distance (300 → 320); both engines; the move is relative to the current distance 290
example : HintMove.mirp ⟨0, 0, 0, 64, 68, 0, 0, 64, true⟩ true true true 368 300 290 = some 94
    ∧ FtMove.mirp ⟨0, 0, 0, 64, 68, 0, 0, 64, true⟩ true true true 368 300 290 = 94
    ∧ HintMove.mirp ⟨0, 0, 0, 64, 68, 0, 0, 64, true⟩ true true true 369 300 290 = some 30
    ∧ FtMove.mirp ⟨0, 0, 0, 64, 68, 0, 0, 64, true⟩ true true true 369 300 290 = 30 := by decide
-- auto-flip (cvt -368 against a positive outline distance) and the cut-in skipped for different zones
example : HintMove.mirp ⟨0, 0, 0, 64, 68, 0, 0, 64, true⟩ true false true (-368) 300 0 = some 384
    ∧ HintMove.mirp ⟨0, 0, 0, 64, 68, 0, 0, 64, false⟩ true false true (-368) 300 0 = some 320
    ∧ HintMove.mirp ⟨0, 0, 0, 64, 68, 0, 0, 64, false⟩ true false false (-368) 300 0 = some (-384) := by decide
-- minimum distance with a negative outline distance; single width replacing a cvt value within its cut-in
example : HintMove.mirp ⟨0, 0, 0, 64, 68, 0, 0, 64, true⟩ false true true (-10) (-300) 0 = some (-64)
    ∧ HintMove.mirp ⟨0, 0, 0, 64, 20000, 200, 30, 64, true⟩ false false true 229 300 0 = some 200
    ∧ HintMove.mirp ⟨0, 0, 0, 64, 20000, 200, 30, 64, true⟩ false false true 230 300 0 = some 230 := by decide
-- MIAP and MDRP
example : HintMove.miap ⟨1, 0, 0, 64, 68, 0, 0, 64, true⟩ true 100 168 = some (-72)
    ∧ FtMove.miap ⟨1, 0, 0, 64, 68, 0, 0, 64, true⟩ true 100 168 = -72
    ∧ HintMove.miap ⟨1, 0, 0, 64, 68, 0, 0, 64, true⟩ true 100 169 = some (-9) := by decide
example : HintMove.mdrp ⟨0, 0, 0, 64, 68, 200, 30, 64, true⟩ true true 229 0 = some 192
    ∧ FtMove.mdrp ⟨0, 0, 0, 64, 68, 200, 30, 64, true⟩ true true 229 0 = 192
    ∧ HintMove.mdrp ⟨0, 0, 0, 64, 68, 200, 30, 64, true⟩ true true 230 0 = some 256
    ∧ HintMove.mdrp ⟨0, 0, 0, 64, 68, 200, 30, 64, true⟩ true true 20 0 = some 64 := by decide
-- outside the range skrifa wraps at 32 bits, FreeType's long does not
example : HintMove.mirp ⟨5, 0, 0, 64, 68, 0, 0, 64, true⟩ false false true 2147483647 0 (-1) = some (-2147483648)
    ∧ FtMove.mirp ⟨5, 0, 0, 64, 68, 0, 0, 64, true⟩ false false true 2147483647 0 (-1) = 2147483648 := by decide

end FontVerif.C03
