/-
C11 (continued) — the multi-axis tent scalar against the exact product of per-axis tents.
Separate module because the error-accumulation argument uses Mathlib's `ring` / `nlinarith`.
-/
import FontVerif.Props.C11
import FontVerif.Lemmas.TentSpec
import Mathlib.Tactic.Ring
import Mathlib.Tactic.Linarith
set_option linter.unusedVariables false
namespace FontVerif.C11
open FontVerif FontVerif.Tent

/-- one rounding step adds at most half an ulp to the accumulated error (scaled by the running
denominator): `a' = round(a·n/d)`, `0 ≤ n ≤ d`. -/
theorem error_step (a a' n d P Q k : Int) (hQ : 0 < Q) (hn0 : 0 ≤ n) (hnd : n ≤ d) (hk : 0 ≤ k)
    (h1 : 2 * (a' * d - a * n) ≤ d) (h2 : -d ≤ 2 * (a' * d - a * n))
    (h3 : 2 * (a * Q - 65536 * P) ≤ k * Q) (h4 : -(k * Q) ≤ 2 * (a * Q - 65536 * P)) :
    2 * (a' * (Q * d) - 65536 * (P * n)) ≤ (k + 1) * (Q * d) ∧
    -((k + 1) * (Q * d)) ≤ 2 * (a' * (Q * d) - 65536 * (P * n)) := by
  have e : a' * (Q * d) - 65536 * (P * n) = Q * (a' * d - a * n) + n * (a * Q - 65536 * P) := by ring
  constructor
  · nlinarith [mul_le_mul_of_nonneg_left h1 hQ.le, mul_le_mul_of_nonneg_left h3 hn0,
      mul_le_mul_of_nonneg_right hnd (mul_nonneg hk hQ.le)]
  · nlinarith [mul_le_mul_of_nonneg_left h2 hQ.le, mul_le_mul_of_nonneg_left h4 hn0,
      mul_le_mul_of_nonneg_right hnd (mul_nonneg hk hQ.le)]

theorem scalarGo_product (axes : List (Int × Int × Int)) :
    ∀ (coords : List Int) (sc P0 Q0 k0 : Int), AxesOk axes → CoordsOk coords → 0 ≤ sc → sc ≤ 65536 →
      0 < Q0 → 0 ≤ k0 →
      2 * (sc * Q0 - 65536 * P0) ≤ k0 * Q0 → -(k0 * Q0) ≤ 2 * (sc * Q0 - 65536 * P0) →
      match tentFactors axes coords with
      | none => computeScalarGo sc axes coords = 0
      | some fs =>
        0 < prodD fs ∧
        2 * (computeScalarGo sc axes coords * (Q0 * prodD fs) - 65536 * (P0 * prodN fs)) ≤
          (k0 + fs.length) * (Q0 * prodD fs) ∧
        -((k0 + fs.length) * (Q0 * prodD fs)) ≤
          2 * (computeScalarGo sc axes coords * (Q0 * prodD fs) - 65536 * (P0 * prodN fs)) := by
  induction axes with
  | nil =>
    intro coords sc P0 Q0 k0 _ _ _ _ hQ hk h3 h4
    simp only [tentFactors, computeScalarGo, prodD, prodN, List.length_nil]
    refine ⟨by omega, ?_, ?_⟩ <;> simp <;> linarith
  | cons a rest ih =>
    intro coords sc P0 Q0 k0 ha hc h0 h1 hQ hk h3 h4
    obtain ⟨s, p, e⟩ := a
    have hh := ha (s, p, e) (by simp)
    have hrest : AxesOk rest := fun x hx => ha x (by simp [hx])
    have hct := coordsOk_tail hc
    have hcF := inF_of_f2dot14 (coordsOk_head hc)
    have hsF := inF_of_f2dot14 hh.1
    have hpF := inF_of_f2dot14 hh.2.1
    have heF := inF_of_f2dot14 hh.2.2
    simp only [computeScalarGo, tentFactors]
    generalize hC : Fixed.f2dot14ToFixed (coords.headD 0) = C at *
    generalize hS : Fixed.f2dot14ToFixed s = S at *
    generalize hP : Fixed.f2dot14ToFixed p = P at *
    generalize hE : Fixed.f2dot14ToFixed e = E at *
    rcases axisStep_cases sc C S P E hcF hsF hpF heF h0 h1 with h | h | h | h | h
    · -- ignored axis
      rw [h.2]; simp only [h.1, if_true]
      exact ih coords.tail sc P0 Q0 k0 hrest hct h0 h1 hQ hk h3 h4
    · -- outside the support
      rw [h.2.2]; simp only [h.1, h.2.1, if_false, if_true]
    · -- at the peak
      obtain ⟨hi, hcp, hstep⟩ := h
      have hno : ¬ (C < S ∨ C > E) := by unfold Ignored at hi; omega
      rw [hstep]; simp only [hi, hno, if_false]
      rw [if_pos hcp]
      exact ih coords.tail sc P0 Q0 k0 hrest hct h0 h1 hQ hk h3 h4
    · -- rising leg
      obtain ⟨hi, hsc, hcp, hstep⟩ := h
      have hno : ¬ (C < S ∨ C > E) := by unfold Ignored at hi; omega
      have hne : ¬ C = P := by omega
      obtain ⟨r, hr, hrha, hr0, hr1⟩ := step_spec_up sc C S P E hcF hsF hpF heF h0 h1 hi hsc hcp
      rw [hr]; simp only [hi, hno, hne, hcp, if_false, if_true]
      have hn0 : 0 ≤ C - S := by omega
      have hnd : C - S ≤ P - S := by omega
      have hd0 : 0 < P - S := by omega
      have hp0 : 0 ≤ sc * (C - S) := mul_nonneg h0 hn0
      have hb := hrha.1 hp0
      have hs := error_step sc r (C - S) (P - S) P0 Q0 k0 hQ hn0 hnd hk
        (by nlinarith [hb.1]) (by nlinarith [hb.2]) h3 h4
      have := ih coords.tail r (P0 * (C - S)) (Q0 * (P - S)) (k0 + 1) hrest hct hr0 (by omega)
        (mul_pos hQ hd0) (by omega) hs.1 hs.2
      cases hf : tentFactors rest coords.tail with
      | none => rw [hf] at this; simpa using this
      | some fs =>
        rw [hf] at this
        simp only [Option.map_some, prodD, prodN, List.length_cons]
        obtain ⟨hD, hu, hl⟩ := this
        refine ⟨mul_pos hd0 hD, ?_, ?_⟩
        · have e1 : Q0 * ((P - S) * prodD fs) = Q0 * (P - S) * prodD fs := by ring
          have e2 : P0 * ((C - S) * prodN fs) = P0 * (C - S) * prodN fs := by ring
          rw [e1, e2]; push_cast; linarith
        · have e1 : Q0 * ((P - S) * prodD fs) = Q0 * (P - S) * prodD fs := by ring
          have e2 : P0 * ((C - S) * prodN fs) = P0 * (C - S) * prodN fs := by ring
          rw [e1, e2]; push_cast; linarith
    · -- falling leg
      obtain ⟨hi, hpc, hce, hstep⟩ := h
      have hno : ¬ (C < S ∨ C > E) := by unfold Ignored at hi; omega
      have hne : ¬ C = P := by omega
      have hnlt : ¬ C < P := by omega
      obtain ⟨r, hr, hrha, hr0, hr1⟩ := step_spec_down sc C S P E hcF hsF hpF heF h0 h1 hi hpc hce
      rw [hr]; simp only [hi, hno, hne, hnlt, if_false]
      have hn0 : 0 ≤ E - C := by omega
      have hnd : E - C ≤ E - P := by omega
      have hd0 : 0 < E - P := by omega
      have hp0 : 0 ≤ sc * (E - C) := mul_nonneg h0 hn0
      have hb := hrha.1 hp0
      have hs := error_step sc r (E - C) (E - P) P0 Q0 k0 hQ hn0 hnd hk
        (by nlinarith [hb.1]) (by nlinarith [hb.2]) h3 h4
      have := ih coords.tail r (P0 * (E - C)) (Q0 * (E - P)) (k0 + 1) hrest hct hr0 (by omega)
        (mul_pos hQ hd0) (by omega) hs.1 hs.2
      cases hf : tentFactors rest coords.tail with
      | none => rw [hf] at this; simpa using this
      | some fs =>
        rw [hf] at this
        simp only [Option.map_some, prodD, prodN, List.length_cons]
        obtain ⟨hD, hu, hl⟩ := this
        refine ⟨mul_pos hd0 hD, ?_, ?_⟩
        · have e1 : Q0 * ((E - P) * prodD fs) = Q0 * (E - P) * prodD fs := by ring
          have e2 : P0 * ((E - C) * prodN fs) = P0 * (E - C) * prodN fs := by ring
          rw [e1, e2]; push_cast; linarith
        · have e1 : Q0 * ((E - P) * prodD fs) = Q0 * (E - P) * prodD fs := by ring
          have e2 : P0 * ((E - C) * prodN fs) = P0 * (E - C) * prodN fs := by ring
          rw [e1, e2]; push_cast; linarith

/-- **scalar_product_spec**: for every region (any number of axes) and every location,
`compute_scalar` is 0 when the location is outside the support of a used axis, and otherwise lies
within `k/2` units of 2⁻¹⁶ of the *exact* product `Π nᵢ/dᵢ` of the OpenType per-axis tent factors,
where `k` is the number of axes that contribute a factor (`|scalar·D − 2¹⁶·N| ≤ k·D/2` with
`N/D` the exact product): correctly rounded for one active axis, exact (= 1) when every used axis
sits at its peak, at most half an ulp more per further axis (the code rounds after every axis). -/
theorem scalar_product_spec (axes : List (Int × Int × Int)) (coords : List Int)
    (ha : AxesOk axes) (hc : CoordsOk coords) :
    match tentFactors axes coords with
    | none => computeScalar axes coords = 0
    | some fs =>
      0 < prodD fs ∧
      2 * (computeScalar axes coords * prodD fs - 65536 * prodN fs) ≤ fs.length * prodD fs ∧
      -(fs.length * prodD fs) ≤ 2 * (computeScalar axes coords * prodD fs - 65536 * prodN fs) := by
  have := scalarGo_product axes coords 65536 1 1 0 ha hc (by omega) (by omega) (by omega) (by omega)
    (by omega) (by omega)
  unfold computeScalar
  cases hf : tentFactors axes coords with
  | none => rw [hf] at this; exact this
  | some fs =>
    rw [hf] at this
    simp only [one_mul, zero_add] at this
    exact this

example : tentFactors [(0, 16384, 16384), (-16384, -8192, 0)] [4096, -4096] =
    some [(16384, 65536), (16384, 32768)] := by decide
example : computeScalar [(0, 16384, 16384), (-16384, -8192, 0)] [4096, -4096] = 8192 := by decide

end FontVerif.C11
