/-
C11 (continued) — the multi-axis tent scalar against the exact product of per-axis tents.
Separate module because the error-accumulation argument uses Mathlib's `ring` / `nlinarith`.
-/
import FontVerif.Props.C11
import FontVerif.Lemmas.TentSpec
import Mathlib.Tactic.Ring
import Mathlib.Tactic.Linarith
set_option linter.unusedVariables false
namespace FontVerif.C11
open FontVerif FontVerif.Tent

/-- one rounding step adds at most half an ulp to the accumulated error (scaled by the running
denominator): `a' = round(a·n/d)`, `0 ≤ n ≤ d`. -/
theorem error_step (a a' n d P Q k : Int) (hQ : 0 < Q) (hn0 : 0 ≤ n) (hnd : n ≤ d) (hk : 0 ≤ k)
    (h1 : 2 * (a' * d - a * n) ≤ d) (h2 : -d ≤ 2 * (a' * d - a * n))
    (h3 : 2 * (a * Q - 65536 * P) ≤ k * Q) (h4 : -(k * Q) ≤ 2 * (a * Q - 65536 * P)) :
    2 * (a' * (Q * d) - 65536 * (P * n)) ≤ (k + 1) * (Q * d) ∧
    -((k + 1) * (Q * d)) ≤ 2 * (a' * (Q * d) - 65536 * (P * n)) := by
  have e : a' * (Q * d) - 65536 * (P * n) = Q * (a' * d - a * n) + n * (a * Q - 65536 * P) := by ring
  constructor
  · nlinarith [mul_le_mul_of_nonneg_left h1 hQ.le, mul_le_mul_of_nonneg_left h3 hn0,
      mul_le_mul_of_nonneg_right hnd (mul_nonneg hk hQ.le)]
  · nlinarith [mul_le_mul_of_nonneg_left h2 hQ.le, mul_le_mul_of_nonneg_left h4 hn0,
      mul_le_mul_of_nonneg_right hnd (mul_nonneg hk hQ.le)]

theorem scalarGo_product (axes : List (Int × Int × Int)) :
    ∀ (coords : List Int) (sc P0 Q0 k0 : Int), AxesOk axes → CoordsOk coords → 0 ≤ sc → sc ≤ 65536 →
      0 < Q0 → 0 ≤ k0 →
      2 * (sc * Q0 - 65536 * P0) ≤ k0 * Q0 → -(k0 * Q0) ≤ 2 * (sc * Q0 - 65536 * P0) →
      match tentFactors axes coords with
      | none => computeScalarGo sc axes coords = 0
      | some fs =>
        0 < prodD fs ∧
        2 * (computeScalarGo sc axes coords * (Q0 * prodD fs) - 65536 * (P0 * prodN fs)) ≤
          (k0 + fs.length) * (Q0 * prodD fs) ∧
        -((k0 + fs.length) * (Q0 * prodD fs)) ≤
          2 * (computeScalarGo sc axes coords * (Q0 * prodD fs) - 65536 * (P0 * prodN fs)) := by
  induction axes with
  | nil =>
    intro coords sc P0 Q0 k0 _ _ _ _ hQ hk h3 h4
    simp only [tentFactors, computeScalarGo, prodD, prodN, List.length_nil]
    refine ⟨by omega, ?_, ?_⟩ <;> simp <;> linarith
  | cons a rest ih =>
    intro coords sc P0 Q0 k0 ha hc h0 h1 hQ hk h3 h4
    obtain ⟨s, p, e⟩ := a
    have hh := ha (s, p, e) (by simp)
    have hrest : AxesOk rest := fun x hx => ha x (by simp [hx])
    have hct := coordsOk_tail hc
    have hcF := inF_of_f2dot14 (coordsOk_head hc)
    have hsF := inF_of_f2dot14 hh.1
    have hpF := inF_of_f2dot14 hh.2.1
    have heF := inF_of_f2dot14 hh.2.2
    simp only [computeScalarGo, tentFactors]
    generalize hC : Fixed.f2dot14ToFixed (coords.headD 0) = C at *
    generalize hS : Fixed.f2dot14ToFixed s = S at *
    generalize hP : Fixed.f2dot14ToFixed p = P at *
    generalize hE : Fixed.f2dot14ToFixed e = E at *
    rcases axisStep_cases sc C S P E hcF hsF hpF heF h0 h1 with h | h | h | h | h
    · -- ignored axis
      rw [h.2]; simp only [h.1, if_true]
      exact ih coords.tail sc P0 Q0 k0 hrest hct h0 h1 hQ hk h3 h4
    · -- outside the support
      rw [h.2.2]; simp only [h.1, h.2.1, if_false, if_true]
    · -- at the peak
      obtain ⟨hi, hcp, hstep⟩ := h
      have hno : ¬ (C < S ∨ C > E) := by unfold Ignored at hi; omega
      rw [hstep]; simp only [hi, hno, if_false]
      rw [if_pos hcp]
      exact ih coords.tail sc P0 Q0 k0 hrest hct h0 h1 hQ hk h3 h4
    · -- rising leg
      obtain ⟨hi, hsc, hcp, hstep⟩ := h
      have hno : ¬ (C < S ∨ C > E) := by unfold Ignored at hi; omega
      have hne : ¬ C = P := by omega
      obtain ⟨r, hr, hrha, hr0, hr1⟩ := step_spec_up sc C S P E hcF hsF hpF heF h0 h1 hi hsc hcp
      rw [hr]; simp only [hi, hno, hne, hcp, if_false, if_true]
      have hn0 : 0 ≤ C - S := by omega
      have hnd : C - S ≤ P - S := by omega
      have hd0 : 0 < P - S := by omega
      have hp0 : 0 ≤ sc * (C - S) := mul_nonneg h0 hn0
      have hb := hrha.1 hp0
      have hs := error_step sc r (C - S) (P - S) P0 Q0 k0 hQ hn0 hnd hk
        (by nlinarith [hb.1]) (by nlinarith [hb.2]) h3 h4
      have := ih coords.tail r (P0 * (C - S)) (Q0 * (P - S)) (k0 + 1) hrest hct hr0 (by omega)
        (mul_pos hQ hd0) (by omega) hs.1 hs.2
      cases hf : tentFactors rest coords.tail with
      | none => rw [hf] at this; simpa using this
      | some fs =>
        rw [hf] at this
        simp only [Option.map_some, prodD, prodN, List.length_cons]
        obtain ⟨hD, hu, hl⟩ := this
        refine ⟨mul_pos hd0 hD, ?_, ?_⟩
        · have e1 : Q0 * ((P - S) * prodD fs) = Q0 * (P - S) * prodD fs := by ring
          have e2 : P0 * ((C - S) * prodN fs) = P0 * (C - S) * prodN fs := by ring
          rw [e1, e2]; push_cast; linarith
        · have e1 : Q0 * ((P - S) * prodD fs) = Q0 * (P - S) * prodD fs := by ring
          have e2 : P0 * ((C - S) * prodN fs) = P0 * (C - S) * prodN fs := by ring
          rw [e1, e2]; push_cast; linarith
    · -- falling leg
      obtain ⟨hi, hpc, hce, hstep⟩ := h
      have hno : ¬ (C < S ∨ C > E) := by unfold Ignored at hi; omega
      have hne : ¬ C = P := by omega
      have hnlt : ¬ C < P := by omega
      obtain ⟨r, hr, hrha, hr0, hr1⟩ := step_spec_down sc C S P E hcF hsF hpF heF h0 h1 hi hpc hce
      rw [hr]; simp only [hi, hno, hne, hnlt, if_false]
      have hn0 : 0 ≤ E - C := by omega
      have hnd : E - C ≤ E - P := by omega
      have hd0 : 0 < E - P := by omega
      have hp0 : 0 ≤ sc * (E - C) := mul_nonneg h0 hn0
      have hb := hrha.1 hp0
      have hs := error_step sc r (E - C) (E - P) P0 Q0 k0 hQ hn0 hnd hk
        (by nlinarith [hb.1]) (by nlinarith [hb.2]) h3 h4
      have := ih coords.tail r (P0 * (E - C)) (Q0 * (E - P)) (k0 + 1) hrest hct hr0 (by omega)
        (mul_pos hQ hd0) (by omega) hs.1 hs.2
      cases hf : tentFactors rest coords.tail with
      | none => rw [hf] at this; simpa using this
      | some fs =>
        rw [hf] at this
        simp only [Option.map_some, prodD, prodN, List.length_cons]
        obtain ⟨hD, hu, hl⟩ := this
        refine ⟨mul_pos hd0 hD, ?_, ?_⟩
        · have e1 : Q0 * ((E - P) * prodD fs) = Q0 * (E - P) * prodD fs := by ring
          have e2 : P0 * ((E - C) * prodN fs) = P0 * (E - C) * prodN fs := by ring
          rw [e1, e2]; push_cast; linarith
        · have e1 : Q0 * ((E - P) * prodD fs) = Q0 * (E - P) * prodD fs := by ring
          have e2 : P0 * ((E - C) * prodN fs) = P0 * (E - C) * prodN fs := by ring
          rw [e1, e2]; push_cast; linarith

/-- **scalar_product_spec**: for every region (any number of axes) and every location,
`compute_scalar` is 0 when the location is outside the support of a used axis, and otherwise lies
within `k/2` units of 2⁻¹⁶ of the *exact* product `Π nᵢ/dᵢ` of the OpenType per-axis tent factors,
where `k` is the number of axes that contribute a factor (`|scalar·D − 2¹⁶·N| ≤ k·D/2` with
`N/D` the exact product): correctly rounded for one active axis, exact (= 1) when every used axis
sits at its peak, at most half an ulp more per further axis (the code rounds after every axis). -/
theorem scalar_product_spec (axes : List (Int × Int × Int)) (coords : List Int)
    (ha : AxesOk axes) (hc : CoordsOk coords) :
    match tentFactors axes coords with
    | none => computeScalar axes coords = 0
    | some fs =>
      0 < prodD fs ∧
      2 * (computeScalar axes coords * prodD fs - 65536 * prodN fs) ≤ fs.length * prodD fs ∧
      -(fs.length * prodD fs) ≤ 2 * (computeScalar axes coords * prodD fs - 65536 * prodN fs) := by
  have := scalarGo_product axes coords 65536 1 1 0 ha hc (by omega) (by omega) (by omega) (by omega)
    (by omega) (by omega)
  unfold computeScalar
  cases hf : tentFactors axes coords with
  | none => rw [hf] at this; exact this
  | some fs =>
    rw [hf] at this
    simp only [one_mul, zero_add] at this
    exact this

/-! ### monotonicity -/

/-- the loop is monotone in the scalar it starts from (every step multiplies by a fixed
non-negative factor and rounds). -/
theorem scalarGo_mono_start (axes : List (Int × Int × Int)) :
    ∀ (coords : List Int) (sc sc' : Int), AxesOk axes → CoordsOk coords → 0 ≤ sc → sc ≤ sc' →
      sc' ≤ 65536 → computeScalarGo sc axes coords ≤ computeScalarGo sc' axes coords := by
  induction axes with
  | nil => intro coords sc sc' _ _ _ h _; simpa [computeScalarGo] using h
  | cons a rest ih =>
    intro coords sc sc' ha hc h0 hle h1
    obtain ⟨s, p, e⟩ := a
    have hh := ha (s, p, e) (by simp)
    have hrest : AxesOk rest := fun x hx => ha x (by simp [hx])
    have hct := coordsOk_tail hc
    have hcF := inF_of_f2dot14 (coordsOk_head hc)
    have hsF := inF_of_f2dot14 hh.1
    have hpF := inF_of_f2dot14 hh.2.1
    have heF := inF_of_f2dot14 hh.2.2
    simp only [computeScalarGo]
    generalize Fixed.f2dot14ToFixed (coords.headD 0) = C at *
    generalize Fixed.f2dot14ToFixed s = S at *
    generalize Fixed.f2dot14ToFixed p = P at *
    generalize Fixed.f2dot14ToFixed e = E at *
    rcases axisStep_cases sc C S P E hcF hsF hpF heF h0 (by omega) with h | h | h | h | h <;>
    rcases axisStep_cases sc' C S P E hcF hsF hpF heF (by omega) h1 with h' | h' | h' | h' | h'
    all_goals first
      | (exfalso; have a1 := h.1; have a2 := h'.1; contradiction)
      | (exfalso; have a1 := h.1; have a2 := h'.1; unfold Ignored at *; omega)
      | skip
    -- same branch on both sides
    · rw [h.2, h'.2]; exact ih coords.tail sc sc' hrest hct h0 hle h1
    · rw [h.2.2, h'.2.2]
    · rw [h.2.2, h'.2.2]; exact ih coords.tail sc sc' hrest hct h0 hle h1
    · -- rising leg
      rw [h.2.2.2, h'.2.2.2]
      have hd : 0 < P - S := by have := h.2.1; have := h.2.2.1; omega
      have hn : 0 ≤ C - S := by have := h.2.1; omega
      have hq : (sc * (C - S) + (P - S) / 2) / (P - S) ≤ (sc' * (C - S) + (P - S) / 2) / (P - S) :=
        Int.ediv_le_ediv hd (by nlinarith)
      obtain ⟨r, hr, _, hr0, hr1⟩ := step_spec_up sc C S P E hcF hsF hpF heF h0 (by omega) h.1 h.2.1 h.2.2.1
      obtain ⟨r', hr', _, hr0', hr1'⟩ := step_spec_up sc' C S P E hcF hsF hpF heF (by omega) h1 h'.1 h'.2.1 h'.2.2.1
      rw [h.2.2.2] at hr; rw [h'.2.2.2] at hr'
      cases hr; cases hr'
      exact ih coords.tail _ _ hrest hct hr0 hq (by omega)
    · -- falling leg
      rw [h.2.2.2, h'.2.2.2]
      have hd : 0 < E - P := by have := h.2.1; have := h.2.2.1; omega
      have hn : 0 ≤ E - C := by have := h.2.2.1; omega
      have hq : (sc * (E - C) + (E - P) / 2) / (E - P) ≤ (sc' * (E - C) + (E - P) / 2) / (E - P) :=
        Int.ediv_le_ediv hd (by nlinarith)
      obtain ⟨r, hr, _, hr0, hr1⟩ := step_spec_down sc C S P E hcF hsF hpF heF h0 (by omega) h.1 h.2.1 h.2.2.1
      obtain ⟨r', hr', _, hr0', hr1'⟩ := step_spec_down sc' C S P E hcF hsF hpF heF (by omega) h1 h'.1 h'.2.1 h'.2.2.1
      rw [h.2.2.2] at hr; rw [h'.2.2.2] at hr'
      cases hr; cases hr'
      exact ih coords.tail _ _ hrest hct hr0 hq (by omega)

theorem coordsOk_set {coords : List Int} (h : CoordsOk coords) (i : Nat) {c : Int} (hc : inI16 c) :
    CoordsOk (coords.set i c) := by
  intro x hx
  rcases List.mem_or_eq_of_mem_set hx with h1 | h1
  · exact h x h1
  · rw [h1]; exact hc

theorem scalarGo_mono_coord (axes : List (Int × Int × Int)) :
    ∀ (i : Nat) (coords : List Int) (sc : Int) (a : Int × Int × Int) (c2 : Int), AxesOk axes →
      CoordsOk coords → inI16 c2 → 0 ≤ sc → sc ≤ 65536 → axes[i]? = some a → i < coords.length →
      ¬ Ignored a.1 a.2.1 a.2.2 → coords.getD i 0 ≤ c2 →
      (a.1 ≤ coords.getD i 0 → c2 ≤ a.2.1 →
        computeScalarGo sc axes coords ≤ computeScalarGo sc axes (coords.set i c2)) ∧
      (a.2.1 ≤ coords.getD i 0 → c2 ≤ a.2.2 →
        computeScalarGo sc axes (coords.set i c2) ≤ computeScalarGo sc axes coords) := by
  induction axes with
  | nil => intro i coords sc a c2 _ _ _ _ _ h; simp at h
  | cons b rest ih =>
    intro i coords sc a c2 ha hc hc2 h0 h1 hget hi hni hle
    obtain ⟨s, p, e⟩ := b
    have hh := ha (s, p, e) (by simp)
    have hrest : AxesOk rest := fun x hx => ha x (by simp [hx])
    cases coords with
    | nil => simp at hi
    | cons c1 tl =>
      have hc1 : inI16 c1 := hc c1 (by simp)
      have htl : CoordsOk tl := fun x hx => hc x (by simp [hx])
      have hsF := inF_of_f2dot14 hh.1
      have hpF := inF_of_f2dot14 hh.2.1
      have heF := inF_of_f2dot14 hh.2.2
      cases i with
      | zero =>
        simp at hget; subst hget
        simp only [List.getD_cons_zero] at hle ⊢
        simp only [List.set_cons_zero, computeScalarGo, List.headD_cons, List.tail_cons]
        have hni' : ¬ Ignored (Fixed.f2dot14ToFixed s) (Fixed.f2dot14ToFixed p) (Fixed.f2dot14ToFixed e) :=
          fun h => hni ((ignored_scale s p e).mp h)
        have hC1 := inF_of_f2dot14 hc1
        have hC2 := inF_of_f2dot14 hc2
        have hCle : Fixed.f2dot14ToFixed c1 ≤ Fixed.f2dot14ToFixed c2 := by
          unfold Fixed.f2dot14ToFixed; omega
        have hA : s ≤ c1 → Fixed.f2dot14ToFixed s ≤ Fixed.f2dot14ToFixed c1 := by
          unfold Fixed.f2dot14ToFixed; omega
        have hB : c2 ≤ p → Fixed.f2dot14ToFixed c2 ≤ Fixed.f2dot14ToFixed p := by
          unfold Fixed.f2dot14ToFixed; omega
        have hC : p ≤ c1 → Fixed.f2dot14ToFixed p ≤ Fixed.f2dot14ToFixed c1 := by
          unfold Fixed.f2dot14ToFixed; omega
        have hD : c2 ≤ e → Fixed.f2dot14ToFixed c2 ≤ Fixed.f2dot14ToFixed e := by
          unfold Fixed.f2dot14ToFixed; omega
        generalize Fixed.f2dot14ToFixed c1 = C1 at *
        generalize Fixed.f2dot14ToFixed c2 = C2 at *
        generalize Fixed.f2dot14ToFixed s = S at *
        generalize Fixed.f2dot14ToFixed p = P at *
        generalize Fixed.f2dot14ToFixed e = E at *
        constructor
        · intro hs1 hp2
          have hs1' : S ≤ C1 := hA hs1
          have hp2' : C2 ≤ P := hB hp2
          by_cases heq : C1 = C2
          · subst heq; exact Int.le_refl _
          · have hlt : C1 < P := by omega
            obtain ⟨r1, hr1, _, hr10, hr11⟩ := step_spec_up sc C1 S P E hC1 hsF hpF heF h0 h1 hni' hs1' hlt
            rcases axisStep_cases sc C1 S P E hC1 hsF hpF heF h0 h1 with g | g | g | g | g
            · exact absurd g.1 hni'
            · have := g.2.1; unfold Ignored at hni'; omega
            · have := g.2.1; omega
            · rw [g.2.2.2] at hr1 ⊢; cases hr1
              by_cases hpk : C2 = P
              · have hstep2 : axisStep sc C2 S P E = some sc := by
                  rcases axisStep_cases sc C2 S P E hC2 hsF hpF heF h0 h1 with g2 | g2 | g2 | g2 | g2
                  · exact absurd g2.1 hni'
                  · have := g2.2.1; unfold Ignored at hni'; omega
                  · exact g2.2.2
                  · have := g2.2.2.1; omega
                  · have := g2.2.1; omega
                rw [hstep2]
                exact scalarGo_mono_start rest tl _ sc hrest htl hr10 hr11 h1
              · rcases axisStep_cases sc C2 S P E hC2 hsF hpF heF h0 h1 with g2 | g2 | g2 | g2 | g2
                · exact absurd g2.1 hni'
                · have := g2.2.1; unfold Ignored at hni'; omega
                · exact absurd g2.2.1 hpk
                · rw [g2.2.2.2]
                  have hd : 0 < P - S := by omega
                  have hq : (sc * (C1 - S) + (P - S) / 2) / (P - S) ≤ (sc * (C2 - S) + (P - S) / 2) / (P - S) :=
                    Int.ediv_le_ediv hd (by nlinarith)
                  obtain ⟨r2, hr2, _, hr20, hr21⟩ := step_spec_up sc C2 S P E hC2 hsF hpF heF h0 h1 hni' (by omega) (by omega)
                  rw [g2.2.2.2] at hr2; cases hr2
                  exact scalarGo_mono_start rest tl _ _ hrest htl hr10 hq (by omega)
                · have := g2.2.1; omega
            · have := g.2.1; omega
        · intro hp1 he2
          have hp1' : P ≤ C1 := hC hp1
          have he2' : C2 ≤ E := hD he2
          by_cases heq : C1 = C2
          · subst heq; exact Int.le_refl _
          · have hgt : P < C2 := by omega
            obtain ⟨r2, hr2, _, hr20, hr21⟩ := step_spec_down sc C2 S P E hC2 hsF hpF heF h0 h1 hni' hgt he2'
            rcases axisStep_cases sc C2 S P E hC2 hsF hpF heF h0 h1 with g | g | g | g | g
            · exact absurd g.1 hni'
            · have := g.2.1; unfold Ignored at hni'; omega
            · have := g.2.1; omega
            · have := g.2.2.1; omega
            · rw [g.2.2.2] at hr2 ⊢; cases hr2
              by_cases hpk : C1 = P
              · have hstep1 : axisStep sc C1 S P E = some sc := by
                  rcases axisStep_cases sc C1 S P E hC1 hsF hpF heF h0 h1 with g1 | g1 | g1 | g1 | g1
                  · exact absurd g1.1 hni'
                  · have := g1.2.1; unfold Ignored at hni'; omega
                  · exact g1.2.2
                  · have := g1.2.2.1; omega
                  · have := g1.2.1; omega
                rw [hstep1]
                exact scalarGo_mono_start rest tl _ sc hrest htl hr20 hr21 h1
              · rcases axisStep_cases sc C1 S P E hC1 hsF hpF heF h0 h1 with g1 | g1 | g1 | g1 | g1
                · exact absurd g1.1 hni'
                · have := g1.2.1; unfold Ignored at hni'; omega
                · exact absurd g1.2.1 hpk
                · have := g1.2.2.1; omega
                · rw [g1.2.2.2]
                  have hd : 0 < E - P := by omega
                  have hq : (sc * (E - C2) + (E - P) / 2) / (E - P) ≤ (sc * (E - C1) + (E - P) / 2) / (E - P) :=
                    Int.ediv_le_ediv hd (by nlinarith)
                  obtain ⟨r1, hr1, _, hr10, hr11⟩ := step_spec_down sc C1 S P E hC1 hsF hpF heF h0 h1 hni' (by omega) (by omega)
                  rw [g1.2.2.2] at hr1; cases hr1
                  exact scalarGo_mono_start rest tl _ _ hrest htl hr20 hq (by omega)
      | succ j =>
        simp only [List.getElem?_cons_succ] at hget
        simp only [List.getD_cons_succ] at hle ⊢
        simp only [List.set_cons_succ, computeScalarGo, List.headD_cons, List.tail_cons]
        have hj : j < tl.length := by simpa using hi
        cases hstep : axisStep sc (Fixed.f2dot14ToFixed c1) (Fixed.f2dot14ToFixed s)
            (Fixed.f2dot14ToFixed p) (Fixed.f2dot14ToFixed e) with
        | none => exact ⟨fun _ _ => Int.le_refl 0, fun _ _ => Int.le_refl 0⟩
        | some sc' =>
          have hr := axisStep_range sc _ _ _ _ (inF_of_f2dot14 hc1) hsF hpF heF h0 h1 sc' hstep
          exact ih j tl sc' a c2 hrest htl hc2 hr.1 (by omega) hget hj hni hle

/-- **scalar_monotone_on_leg**: moving one coordinate towards the peak of its (used) axis, all
other coordinates fixed, never decreases the scalar — rising leg `start ≤ c ≤ c' ≤ peak` and,
symmetrically, falling leg `peak ≤ c ≤ c' ≤ end` never increases it; for any number of axes. -/
theorem scalar_monotone_on_leg (axes : List (Int × Int × Int)) (coords : List Int) (i : Nat)
    (a : Int × Int × Int) (c2 : Int) (ha : AxesOk axes) (hc : CoordsOk coords) (hc2 : inI16 c2)
    (hget : axes[i]? = some a) (hi : i < coords.length) (hni : ¬ Ignored a.1 a.2.1 a.2.2)
    (hle : coords.getD i 0 ≤ c2) :
    (a.1 ≤ coords.getD i 0 → c2 ≤ a.2.1 →
      computeScalar axes coords ≤ computeScalar axes (coords.set i c2)) ∧
    (a.2.1 ≤ coords.getD i 0 → c2 ≤ a.2.2 →
      computeScalar axes (coords.set i c2) ≤ computeScalar axes coords) :=
  scalarGo_mono_coord axes i coords 65536 a c2 ha hc hc2 (by omega) (by omega) hget hi hni hle

example : tentFactors [(0, 16384, 16384), (-16384, -8192, 0)] [4096, -4096] =
    some [(16384, 65536), (16384, 32768)] := by decide
example : computeScalar [(0, 16384, 16384), (-16384, -8192, 0)] [4096, -4096] = 8192 := by decide

end FontVerif.C11
