/-
C11 (continued) — scaled glyph metrics, the gvar fallback, HVAR / VVAR / MVAR delta lookup and
vertical metric lookup.
Models: Model/Metrics.lean ⇄ skrifa/src/metrics.rs (FixedScaleFactor, GlyphMetrics, metric_deltas_from_gvar),
        skrifa/src/instance.rs (Size::fixed_linear_scale), read-fonts/src/tables/{variations,hvar,vvar,mvar,
        hmtx,vmtx,vorg,gvar}.rs.
Sections: 1 FixedScaleFactor for every size · 2 advance / lsb composed with HVAR and scaling ·
          3 gvar phantom-point fallback · 4 HVAR / VVAR index selection · 5 MVAR tag search ·
          6 vmtx / VORG lookup
-/
import FontVerif.Model.Metrics
import FontVerif.Lemmas.Round
import FontVerif.Lemmas.MetricsLemmas
import FontVerif.Lemmas.Ieee
import FontVerif.Props.C15
set_option linter.unusedVariables false
namespace FontVerif.C11
open FontVerif FontVerif.Metrics

/-! ## 1. `FixedScaleFactor::apply` for every scale factor -/

theorem roundHalfAway_isRHA (p d : Int) (hd : 0 < d) : IsRHA p d (roundHalfAway p d) := by
  unfold roundHalfAway
  by_cases hp : p < 0
  · simp only [hp, if_true]
    have h := isRHA_formula (p := -p) (d := d) (by omega) hd
    have h2 : (2 * -p + d) / (2 * d) = (-p + d / 2) / d := by
      have h1 := Int.mul_ediv_add_emod (2 * -p + d) (2 * d)
      have h1' := Int.emod_nonneg (2 * -p + d) (by omega : 2 * d ≠ 0)
      have h1'' := Int.emod_lt_of_pos (2 * -p + d) (by omega : 0 < 2 * d)
      have h3 := Int.mul_ediv_add_emod (-p + d / 2) d
      have h3' := Int.emod_nonneg (-p + d / 2) (by omega : d ≠ 0)
      have h3'' := Int.emod_lt_of_pos (-p + d / 2) hd
      generalize (2 * -p + d) / (2 * d) = A at *
      generalize (-p + d / 2) / d = B at *
      have e1 : 2 * d * A = 2 * (d * A) := by rw [Int.mul_assoc]
      -- both are the floor of (−p)/d + 1/2
      apply Classical.byContradiction
      intro hne
      rcases Int.lt_or_gt_of_ne hne with hlt | hgt
      · have : d * (A + 1) ≤ d * B := Int.mul_le_mul_of_nonneg_left (by omega) (by omega)
        rw [Int.mul_add, Int.mul_one] at this
        omega
      · have : d * (B + 1) ≤ d * A := Int.mul_le_mul_of_nonneg_left (by omega) (by omega)
        rw [Int.mul_add, Int.mul_one] at this
        omega
    rw [h2]
    have := isRHA_neg hd h
    simpa using this
  · simp only [hp, if_false]
    have h := isRHA_formula (p := p) (d := d) (by omega) hd
    have h2 : (2 * p + d) / (2 * d) = (p + d / 2) / d := by
      have h1 := Int.mul_ediv_add_emod (2 * p + d) (2 * d)
      have h1' := Int.emod_nonneg (2 * p + d) (by omega : 2 * d ≠ 0)
      have h1'' := Int.emod_lt_of_pos (2 * p + d) (by omega : 0 < 2 * d)
      have h3 := Int.mul_ediv_add_emod (p + d / 2) d
      have h3' := Int.emod_nonneg (p + d / 2) (by omega : d ≠ 0)
      have h3'' := Int.emod_lt_of_pos (p + d / 2) hd
      generalize (2 * p + d) / (2 * d) = A at *
      generalize (p + d / 2) / d = B at *
      have e1 : 2 * d * A = 2 * (d * A) := by rw [Int.mul_assoc]
      apply Classical.byContradiction
      intro hne
      rcases Int.lt_or_gt_of_ne hne with hlt | hgt
      · have : d * (A + 1) ≤ d * B := Int.mul_le_mul_of_nonneg_left (by omega) (by omega)
        rw [Int.mul_add, Int.mul_one] at this
        omega
      · have : d * (B + 1) ≤ d * A := Int.mul_le_mul_of_nonneg_left (by omega) (by omega)
        rw [Int.mul_add, Int.mul_one] at this
        omega
    rw [h2]; exact h

theorem applyScale_inI32 (scale value : Int) : inI32 (applyScale scale value) := by
  unfold applyScale Fixed.mulDiv
  simp only []
  split <;> (unfold wrapI32 inI32; simp only []; split <;> omega)

/-- **apply_scale_exact_iff** (every size, scaled or not): `FixedScaleFactor::apply` returns, as
16.16 bits, the exact product `scale · value / 64` rounded to nearest (ties away from zero) —
EXACTLY when that rounded value fits the 16.16 result type; otherwise the result has wrapped
(known finding `C11-unscaled-metric-wraps-at-32768` is the instance `scale = 64·2¹⁶`). -/
theorem apply_scale_exact_iff (scale value : Int) (hs : inI32 scale) (hv : inI32 value) :
    applyScale scale value = roundHalfAway (scale * value) 64 ↔
      inI32 (roundHalfAway (scale * value) 64) := by
  constructor
  · intro h; rw [← h]; exact applyScale_inI32 scale value
  · intro h
    unfold applyScale
    apply C15.mul_div_spec scale value 64 _ hs hv (by decide) (by decide) h
    unfold IsRHAq
    simp only [show (0 : Int) < 64 by decide, if_true]
    exact roundHalfAway_isRHA _ 64 (by decide)

/-- the no-wrap condition in terms of the operands: the rounded magnitude
`⌊(|scale|·|value| + 32) / 64⌋` must stay below `2³¹` (= 32768 pixels in 16.16). -/
theorem apply_scale_exact_of_small (scale value : Int) (hs : inI32 scale) (hv : inI32 value)
    (h : (iabs (scale * value) + 32) / 64 < 2147483648) :
    applyScale scale value = roundHalfAway (scale * value) 64 := by
  rw [apply_scale_exact_iff scale value hs hv]
  unfold roundHalfAway inI32 iabs at *
  generalize scale * value = p at *
  by_cases hp : p < 0
  · simp only [hp, if_true] at h ⊢; omega
  · simp only [hp, if_false] at h ⊢; omega

/-- `Size::unscaled()` (and `units_per_em = 0`) use the identity factor `64 · 2¹⁶`. -/
theorem unscaled_scale (upem : Nat) :
    fixedLinearScale none upem = 4194304 ∧ ∀ p, fixedLinearScale (some p) 0 = 4194304 := by
  constructor <;> (intros; simp [fixedLinearScale])

/-- **fixed_linear_scale_spec**: for a size `ppem` and `units_per_em > 0` the factor is the 26.6
size `p64 = (ppem · 64.0) as i32` (an `f32` product, truncated and saturated) divided by
`units_per_em` as a 16.16 quotient rounded to nearest — whenever that quotient fits an `i32`. -/
theorem fixed_linear_scale_spec (p : Ieee.FVal) (upem : Nat) (hu : 0 < upem) (hu2 : upem < 65536)
    (r : Int) (hr : inI32 r)
    (h : IsRHA (Ieee.toIntSat (-2147483648) 2147483647 (Ieee.mul Ieee.f32 p (.fin false 1 6)) * 65536)
          upem r) :
    fixedLinearScale (some p) upem = r := by
  unfold fixedLinearScale
  simp only [hu, if_true]
  have hsat : inI32 (Ieee.toIntSat (-2147483648) 2147483647 (Ieee.mul Ieee.f32 p (.fin false 1 6))) := by
    generalize Ieee.mul Ieee.f32 p (.fin false 1 6) = x
    unfold inI32 Ieee.toIntSat
    cases x with
    | nan => simp
    | inf s => cases s <;> simp
    | fin s m e => simp only []; split <;> (try split) <;> omega
  apply C15.div_spec _ _ r hsat (by unfold inI32; omega) (by omega) hr
  unfold IsRHAq
  have : (0 : Int) < (upem : Int) := by omega
  simp only [this, if_true]
  exact h

theorem isRHA_abs {P d r : Int} (h : IsRHA P d r) : 2 * (d * r) - d ≤ 2 * P ∧ 2 * P ≤ 2 * (d * r) + d := by
  unfold IsRHA at h
  by_cases hp : 0 ≤ P
  · have := h.1 hp; omega
  · have := h.2 (by omega); omega

/-- **scaled_metric_error_bound** (the two roundings together): with the scale factor
`scale = round(p64 · 2¹⁶ / upem)` (`p64` = the size in 26.6) and the result
`r = round(scale · value / 64)`, the 16.16 result is within `1/2 + |value| / 128` units of `2⁻¹⁶` px of
the exact scaled metric `value · p64 · 2¹⁶ / (64 · upem)` = `value · ppem / upem` pixels:
`2 · |64 · upem · r − 2¹⁶ · p64 · value| ≤ upem · (64 + |value|)`. -/
theorem scaled_metric_error_bound (p64 upem scale value r : Int) (hu : 0 < upem)
    (hs : IsRHA (p64 * 65536) upem scale) (hr : IsRHA (scale * value) 64 r) :
    2 * (64 * upem * r) - upem * (64 + iabs value) ≤ 2 * (65536 * p64 * value) ∧
    2 * (65536 * p64 * value) ≤ 2 * (64 * upem * r) + upem * (64 + iabs value) := by
  have ha := isRHA_abs hs
  have hb := isRHA_abs hr
  -- A = 2 p64 65536 - 2 upem scale ∈ [-upem, upem];  B = 2 scale value - 128 r ∈ [-64, 64]
  generalize hA : 2 * (p64 * 65536) - 2 * (upem * scale) = A at *
  generalize hB : 2 * (scale * value) - 2 * (64 * r) = B at *
  have hAr : -upem ≤ A ∧ A ≤ upem := by omega
  have hBr : -64 ≤ B ∧ B ≤ 64 := by omega
  -- 2·65536·p64·value − 2·64·upem·r = value·A + upem·B
  have key : 2 * (65536 * p64 * value) - 2 * (64 * upem * r) = value * A + upem * B := by
    rw [← hA, ← hB]
    simp only [Int.mul_sub, Int.mul_add, Int.mul_assoc, Int.mul_comm, Int.mul_left_comm]
    omega
  have hvA : -(iabs value * upem) ≤ value * A ∧ value * A ≤ iabs value * upem := by
    unfold iabs
    by_cases hv : value < 0
    · simp only [hv, if_true]
      have h1 : -value * A ≤ -value * upem := Int.mul_le_mul_of_nonneg_left hAr.2 (by omega)
      have h2 : -value * (-upem) ≤ -value * A := Int.mul_le_mul_of_nonneg_left hAr.1 (by omega)
      simp only [Int.neg_mul, Int.mul_neg, Int.neg_neg] at h1 h2 ⊢
      omega
    · simp only [hv, if_false]
      have h1 : value * A ≤ value * upem := Int.mul_le_mul_of_nonneg_left hAr.2 (by omega)
      have h2 : value * (-upem) ≤ value * A := Int.mul_le_mul_of_nonneg_left hAr.1 (by omega)
      simp only [Int.mul_neg] at h2
      omega
  have huB : -(upem * 64) ≤ upem * B ∧ upem * B ≤ upem * 64 := by
    have h1 : upem * B ≤ upem * 64 := Int.mul_le_mul_of_nonneg_left hBr.2 (by omega)
    have h2 : upem * (-64) ≤ upem * B := Int.mul_le_mul_of_nonneg_left hBr.1 (by omega)
    simp only [Int.mul_neg] at h2
    omega
  have e1 : upem * (64 + iabs value) = upem * 64 + iabs value * upem := by
    rw [Int.mul_add, Int.mul_comm upem (iabs value)]
  rw [e1]
  omega

/-! ## 2. advance width / left side bearing: lookup + HVAR delta + scaling, composed -/

/-- **advance_width_composed**: for a glyph inside the glyph count, `advance_width` is
`scale(base + delta)`: the hmtx advance (last long metric repeated), plus the integer HVAR delta
(or the gvar phantom difference, or nothing), through `FixedScaleFactor::apply`, converted with
`Fixed::to_f32`; `None` beyond the glyph count. -/
theorem advance_width_composed (scale : Int) (glyphCount : Nat) (hMetrics : List (Int × Int))
    (gid : Nat) (src : DeltaSrc) :
    (glyphCount ≤ gid → advanceWidth scale glyphCount hMetrics gid src = none) ∧
    (gid < glyphCount → advanceWidth scale glyphCount hMetrics gid src =
      some (FixedConv.toF32Lossy 16 (applyScale scale (baseAdvance hMetrics gid + advanceDeltaOf src)))) := by
  unfold advanceWidth applyScaleF32
  constructor
  · intro h; simp [h]
  · intro h
    have : ¬ gid ≥ glyphCount := by omega
    simp [this]

/-- the amounts added: an HVAR delta `d` with `|d| < 2¹⁵` is added as is; a failed lookup
(`Err`, e.g. no lsb mapping ⇒ `NullOffset`) adds nothing; no table adds nothing. -/
theorem delta_amounts (d : Int) (hd : inI16 d) :
    advanceDeltaOf (.hvar (some d)) = d ∧ lsbDeltaOf (.hvar (some d)) = d ∧
    advanceDeltaOf (.hvar none) = 0 ∧ lsbDeltaOf (.hvar none) = 0 ∧
    advanceDeltaOf .none = 0 ∧ lsbDeltaOf .none = 0 ∧
    advanceDeltaOf (.gvar none) = 0 ∧ lsbDeltaOf (.gvar none) = 0 := by
  refine ⟨?_, ?_, rfl, rfl, rfl, rfl, rfl, rfl⟩
  · simp only [advanceDeltaOf]; rw [deltaInt_eq, wrapI16_id hd]
  · simp only [lsbDeltaOf]; rw [deltaInt_eq, wrapI16_id hd]

/-- **scaled_advance_value**: the whole pipeline for a scaled size, in exact arithmetic — with an
in-range HVAR delta `d` and a product that fits, the advance is
`round(scale · (base + d) / 64) / 2¹⁶` pixels exactly (no `f32` rounding below `2²⁴` 16.16 units,
i.e. below 256 px). -/
theorem scaled_advance_value (scale : Int) (glyphCount : Nat) (hMetrics : List (Int × Int))
    (gid : Nat) (d : Int) (hg : gid < glyphCount) (hd : inI16 d) (hs : inI32 scale)
    (hb : inI32 (baseAdvance hMetrics gid + d))
    (hfit : (roundHalfAway (scale * (baseAdvance hMetrics gid + d)) 64).natAbs < 2 ^ 24) :
    advanceWidth scale glyphCount hMetrics gid (.hvar (some d)) =
      some (let r := roundHalfAway (scale * (baseAdvance hMetrics gid + d)) 64
            if r = 0 then .fin false 0 0 else .fin (decide (r < 0)) r.natAbs (-16)) := by
  rw [(advance_width_composed scale glyphCount hMetrics gid _).2 hg, (delta_amounts d hd).1]
  have hin : inI32 (roundHalfAway (scale * (baseAdvance hMetrics gid + d)) 64) := by
    unfold inI32; omega
  rw [(apply_scale_exact_iff scale _ hs hb).2 hin]
  generalize roundHalfAway (scale * (baseAdvance hMetrics gid + d)) 64 = r at *
  simp only []
  unfold FixedConv.toF32Lossy
  rw [Ieee.ofInt_exact Ieee.f32 r (by decide) (by decide) hfit]
  by_cases h0 : r = 0
  · subst h0; simp [Ieee.mulPow2, Ieee.roundNE]
  · simp only [h0, if_false, Ieee.mulPow2]
    have hn : r.natAbs ≠ 0 := by omega
    have hL : Ieee.bitLen r.natAbs ≤ 24 := Ieee.bitLen_le_of_lt hfit
    rw [Ieee.roundNE_exact Ieee.f32 _ r.natAbs _ hfit (by decide) (by
      show (0 : Int) + -((16 : Nat) : Int) + (Ieee.bitLen r.natAbs : Int) ≤ 128
      omega)]
    simp [hn]

/-- **lsb_composed**: the same for the left side bearing; without an HVAR lsb mapping
(`src = .hvar none`) the bearing is the scaled hmtx value alone. -/
theorem lsb_composed (scale : Int) (glyphCount : Nat) (hMetrics : List (Int × Int))
    (lsbs : List Int) (gid : Nat) (src : DeltaSrc) :
    (glyphCount ≤ gid → leftSideBearing scale glyphCount hMetrics lsbs gid src = none) ∧
    (gid < glyphCount → leftSideBearing scale glyphCount hMetrics lsbs gid src =
      some (FixedConv.toF32Lossy 16 (applyScale scale (baseLsb hMetrics lsbs gid + lsbDeltaOf src)))) ∧
    (gid < glyphCount → leftSideBearing scale glyphCount hMetrics lsbs gid (.hvar none) =
      some (FixedConv.toF32Lossy 16 (applyScale scale (baseLsb hMetrics lsbs gid)))) := by
  unfold leftSideBearing applyScaleF32
  refine ⟨fun h => by simp [h], fun h => ?_, fun h => ?_⟩
  · have : ¬ gid ≥ glyphCount := by omega
    simp [this]
  · have : ¬ gid ≥ glyphCount := by omega
    simp [this, lsbDeltaOf]

-- 16 ppem at 1000 units per em: scale 67109 (= 1024·65536/1000 rounded), 500 units ↦ 8.0000153 px
example : fixedLinearScale (some (.fin false 1 4)) 1000 = 67109 := by decide
example : applyScale 67109 500 = 524289 ∧ roundHalfAway (67109 * 500) 64 = 524289 := by decide
-- the wrap of the known finding: 40000 units unscaled do not fit
example : ¬ inI32 (roundHalfAway (4194304 * 40000) 64) ∧ applyScale 4194304 40000 = -1673527296 := by
  decide

/-! ## 3. the gvar phantom-point fallback (`metric_deltas_from_gvar`) -/

theorem toI32_small (x : Int) (h1 : -2147483648 ≤ x) (h2 : x + 32768 < 2147483648) :
    Fixed.toI32 x = (x + 32768) / 65536 := by
  unfold Fixed.toI32 wrapI32; simp only []; split <;> omega

/-- **gvar_metric_deltas_spec**: without HVAR the side-bearing delta is phantom point 0's `x` delta
and the advance delta is the DIFFERENCE of the phantom points' `x` deltas (point 1 − point 0), each
rounded from 16.16 to the nearest integer (half up) — as long as the difference fits an `i32`
(`Fixed -` wraps otherwise). -/
theorem gvar_metric_deltas_spec (p0 p1 : Int) (h0 : inI32 p0) (h1 : inI32 p1)
    (hd : inI32 (p1 - p0)) (hr0 : p0 + 32768 < 2147483648) (hr1 : p1 - p0 + 32768 < 2147483648) :
    gvarMetricDeltas p0 p1 = ((p0 + 32768) / 65536, (p1 - p0 + 32768) / 65536) := by
  unfold gvarMetricDeltas inI32 at *
  have e : Tent.fsub p1 p0 = p1 - p0 := by
    unfold Tent.fsub wrapI32; simp only []; split <;> omega
  rw [e, toI32_small p0 h0.1 hr0, toI32_small (p1 - p0) hd.1 hr1]

/-- at integer phantom deltas `a`, `b` (font units): lsb delta `a`, advance delta `b − a`. -/
theorem gvar_metric_deltas_integer (a b : Int) (ha : -16384 ≤ a ∧ a < 16384)
    (hb : -16384 ≤ b ∧ b < 16384) :
    gvarMetricDeltas (a * 65536) (b * 65536) = (a, b - a) := by
  rw [gvar_metric_deltas_spec _ _ (by unfold inI32; omega) (by unfold inI32; omega)
    (by unfold inI32; omega) (by omega) (by omega)]
  congr 1 <;> omega

/-- **gvar_advance_composed**: with a gvar fallback the advance is `scale(base + Δadvance)`. -/
theorem gvar_advance_composed (scale : Int) (glyphCount : Nat) (hMetrics : List (Int × Int))
    (gid : Nat) (hg : gid < glyphCount) (p0 p1 : Int) :
    advanceWidth scale glyphCount hMetrics gid (.gvar (some (p0, p1))) =
      some (FixedConv.toF32Lossy 16 (applyScale scale
        (baseAdvance hMetrics gid + (gvarMetricDeltas p0 p1).2))) := by
  rw [(advance_width_composed scale glyphCount hMetrics gid _).2 hg]; rfl

theorem fadd_wrap (a b : Int) : Tent.fadd (wrapI32 a) b = wrapI32 (a + b) := by
  unfold Tent.fadd wrapI32; simp only []; split <;> split <;> omega

theorem mul_one_fixed (a : Int) (ha : inI32 a) : Fixed.mul a 65536 = a := by
  unfold Fixed.mul wrapI32 inI32 at *
  simp only []
  split <;> split <;> omega

theorem fromI32_inI32 (i : Int) : inI32 (Fixed.fromI32 i) := by
  unfold Fixed.fromI32 wrapI32 inI32; simp only []; split <;> omega

/-- sum of the `x` deltas addressed to position `pos`, all tuples. -/
def xSum (tuples : List TupleX) (pos : Nat) : Int :=
  (tuples.map fun t => ((t.2.filter fun d => d.1 = pos).map (·.2)).sum).sum

theorem inner_fold (ds : List (Nat × Int)) (pos : Nat) : ∀ (acc : Int),
    ds.foldl (fun acc d => if d.1 = pos then Tent.fadd acc (Fixed.mul (Fixed.fromI32 d.2) 65536) else acc)
      (wrapI32 acc) =
    wrapI32 (acc + 65536 * ((ds.filter fun d => d.1 = pos).map (·.2)).sum) := by
  induction ds with
  | nil => intro acc; simp
  | cons d rest ih =>
    intro acc
    simp only [List.foldl_cons]
    by_cases hp : d.1 = pos
    · simp only [hp, if_true, List.filter_cons, decide_true, List.map_cons, List.sum_cons]
      rw [mul_one_fixed _ (fromI32_inI32 _), fadd_wrap]
      have e : Fixed.fromI32 d.2 = wrapI32 (d.2 * 65536) := rfl
      have e2 : wrapI32 (acc + wrapI32 (d.2 * 65536)) = wrapI32 (acc + d.2 * 65536) := by
        unfold wrapI32; simp only []; split <;> split <;> split <;> omega
      rw [e, e2, ih]
      congr 1; rw [Int.mul_add]; omega
    · simp only [hp, if_false, List.filter_cons, decide_false]
      exact ih acc

/-- **phantom_accumulation_unit_scalars**: at a location where every active tuple has scalar 1.0
the accumulated phantom `x` is `2¹⁶ ·` the plain sum of the tuples' `x` deltas for that point
(mod `2³²`): the advance delta is then literally (Σ point 1) − (Σ point 0). -/
theorem phantom_accumulation_unit_scalars (tuples : List TupleX) (start k : Nat)
    (hone : ∀ t ∈ tuples, t.1 = 65536) :
    phantomX tuples start k = wrapI32 (65536 * xSum tuples (start + k)) := by
  unfold phantomX xSum
  have : ∀ (ts : List TupleX) (acc : Int), (∀ t ∈ ts, t.1 = 65536) →
      ts.foldl (fun acc t => t.2.foldl (fun acc d =>
        if d.1 = start + k then Tent.fadd acc (Fixed.mul (Fixed.fromI32 d.2) t.1) else acc) acc) (wrapI32 acc) =
      wrapI32 (acc + 65536 * (ts.map fun t => ((t.2.filter fun d => d.1 = start + k).map (·.2)).sum).sum) := by
    intro ts
    induction ts with
    | nil => intro acc _; simp
    | cons t rest ih =>
      intro acc h
      simp only [List.foldl_cons, List.map_cons, List.sum_cons]
      rw [h t (by simp), inner_fold, ih _ (fun t ht => h t (by simp [ht]))]
      congr 1; rw [Int.mul_add]; omega
  have h0 := this tuples 0 hone
  have w0 : wrapI32 0 = 0 := by decide
  rw [w0] at h0
  rw [h0]; simp

theorem find_glyph_simple (glyphs : List GlyphKind) (fuel gid depth n : Nat) (hd : depth ≤ 64)
    (h : glyphs[gid]? = some (.simple n)) :
    findGlyphAndPointCount glyphs (fuel + 1) gid depth = some (gid, n) := by
  unfold findGlyphAndPointCount
  have : ¬ depth > 64 := by omega
  simp [this, h]

/-- **metrics_glyph_rule**: a simple glyph uses its own phantom points (after its `numPoints`
outline points), an empty glyph its own at index 0; a composite uses the first component that has
USE_MY_METRICS (recursively, one level deeper), else itself with the component count as start. -/
theorem metrics_glyph_rule (glyphs : List GlyphKind) (fuel gid depth : Nat) (hd : depth ≤ 64) :
    (glyphs[gid]? = some .empty → findGlyphAndPointCount glyphs (fuel + 1) gid depth = some (gid, 0)) ∧
    (∀ comps, glyphs[gid]? = some (.composite comps) → comps.find? (fun c => c.2) = none →
      findGlyphAndPointCount glyphs (fuel + 1) gid depth = some (gid, comps.length)) ∧
    (∀ comps c, glyphs[gid]? = some (.composite comps) → comps.find? (fun c => c.2) = some c →
      findGlyphAndPointCount glyphs (fuel + 1) gid depth =
        findGlyphAndPointCount glyphs fuel c.1 (depth + 1)) := by
  have hnd : ¬ depth > 64 := by omega
  refine ⟨fun h => ?_, fun comps h hf => ?_, fun comps c h hf => ?_⟩
  · unfold findGlyphAndPointCount; simp [hnd, h]
  · unfold findGlyphAndPointCount; simp [hnd, h, hf]
  · conv => lhs; unfold findGlyphAndPointCount
    simp [hnd, h, hf]

/-- a USE_MY_METRICS cycle (a composite whose flagged component is itself) is an error, for any
amount of fuel: the recursion is cut at depth 64. -/
theorem metrics_glyph_cycle (glyphs : List GlyphKind) (gid : Nat) (comps : List (Nat × Bool))
    (c : Nat × Bool) (h : glyphs[gid]? = some (.composite comps))
    (hf : comps.find? (fun c => c.2) = some c) (hc : c.1 = gid) :
    ∀ fuel depth, findGlyphAndPointCount glyphs fuel gid depth = none := by
  intro fuel
  induction fuel with
  | zero => intro depth; rfl
  | succ fuel ih =>
    intro depth
    unfold findGlyphAndPointCount
    by_cases hd : depth > 64
    · simp [hd]
    · simp only [hd, if_false, h, hf, hc]
      exact ih (depth + 1)

example : findGlyphAndPointCount [.simple 5, .composite [(0, false), (2, true)], .simple 7] 70 1 0 =
    some (2, 7) := by decide
example : gvarMetricDeltas (10 * 65536) (35 * 65536 + 32768) = (10, 26) := by decide

/-! ## 4. HVAR / VVAR: which delta set, and what comes back -/

/-- **advance_delta_spec** (`Hvar::advance_width_delta`, `Vvar::advance_height_delta` — the same
function on the other table's store and map): at the default location `0`; without a map the delta
set is `(0, gid as u16)`; with a map it is `map.get(gid)` (last entry beyond the map:
`delta_set_index_map_get`); the result is `Fixed::from_i32(compute_delta(..))`. -/
theorem advance_delta_spec (store : Store) (gid : Nat) (coords : List Int) :
    (∀ dsim st, advanceDelta dsim st gid [] = .ok 0) ∧
    (coords ≠ [] → advanceDelta none (some store) gid coords =
      fromDelta (Tent.computeDelta store.1 store.2 0 (gid % 65536) coords)) ∧
    (coords ≠ [] → ∀ fmt cnt data, advanceDelta (some (fmt, cnt, data)) (some store) gid coords =
      match Tent.dsimGet fmt cnt data gid with
      | some (o, i) => fromDelta (Tent.computeDelta store.1 store.2 o i coords)
      | none => .err) := by
  refine ⟨fun dsim st => by simp [advanceDelta], fun hc => ?_, fun hc fmt cnt data => ?_⟩
  · have : coords.isEmpty = false := by cases coords <;> simp_all
    simp [advanceDelta, this, Tent.implicitIndex]
  · have : coords.isEmpty = false := by cases coords <;> simp_all
    simp only [advanceDelta, this, Bool.false_eq_true, if_false]
    cases Tent.dsimGet fmt cnt data gid with
    | none => rfl
    | some p => rfl

/-- **item_delta_spec** (`lsb_delta`, `rsb_delta`, `tsb_delta`, `bsb_delta`, `v_org_delta`): the
same, except that a missing map is an error (`NullOffset`) rather than the implicit index —
skrifa then adds nothing to the side bearing. -/
theorem item_delta_spec (store : Store) (gid : Nat) (coords : List Int) (hc : coords ≠ []) :
    (∀ st, itemDelta none st gid coords = .err) ∧
    (∀ fmt cnt data, itemDelta (some (fmt, cnt, data)) (some store) gid coords =
      match Tent.dsimGet fmt cnt data gid with
      | some (o, i) => fromDelta (Tent.computeDelta store.1 store.2 o i coords)
      | none => .err) := by
  have : coords.isEmpty = false := by cases coords <;> simp_all
  refine ⟨fun st => by simp [itemDelta, this], fun fmt cnt data => ?_⟩
  simp only [itemDelta, this, Bool.false_eq_true, if_false]
  cases Tent.dsimGet fmt cnt data gid with
  | none => rfl
  | some p => rfl

/-- the value that comes back: the integer delta in the high half of a 16.16 number — exactly for
`|delta| < 2¹⁵`, `delta as i16` in general (known finding `C11-metric-delta-wraps-16bit`). -/
theorem from_delta_value (v : Int) :
    fromDelta (.ok v) = .ok (wrapI16 v * 65536) ∧ (inI16 v → fromDelta (.ok v) = .ok (v * 65536)) := by
  simp only [fromDelta]
  refine ⟨by rw [fromI32_eq], fun h => by rw [fromI32_eq, wrapI16_id h]⟩

/-! ## 5. MVAR: binary search by tag -/

theorem mvarSearch_found (records : List (Nat × Nat × Nat)) (tag : Nat)
    (hs : records.Pairwise (fun a b => a.1 < b.1)) (t : Nat) (ht : t < records.length)
    (htag : records[t].1 = tag) :
    ∀ (fuel lo hi : Nat), lo ≤ t → t < hi → hi ≤ records.length → hi - lo < fuel →
      mvarSearch records tag fuel lo hi = some records[t].2 := by
  intro fuel
  induction fuel with
  | zero => intro lo hi _ _ _ h; omega
  | succ fuel ih =>
    intro lo hi hlo hhi hlen hf
    unfold mvarSearch
    have hlt : lo < hi := by omega
    simp only [hlt, if_true]
    have hi_lt : (lo + hi) / 2 < records.length := by omega
    rw [List.getElem?_eq_getElem hi_lt]
    simp only []
    have hsorted := List.pairwise_iff_getElem.mp hs
    by_cases h1 : tag < records[(lo + hi) / 2].1
    · simp only [h1, if_true]
      -- the record lies left of the midpoint
      have : t < (lo + hi) / 2 := by
        apply Classical.byContradiction; intro hc
        have hge : (lo + hi) / 2 ≤ t := by omega
        rcases Nat.lt_or_eq_of_le hge with hlt' | heq
        · have := hsorted _ _ hi_lt ht hlt'; omega
        · subst heq; omega
      exact ih lo ((lo + hi) / 2) hlo this (by omega) (by omega)
    · simp only [h1, if_false]
      by_cases h2 : tag > records[(lo + hi) / 2].1
      · simp only [h2, if_true]
        have : (lo + hi) / 2 < t := by
          apply Classical.byContradiction; intro hc
          have hle : t ≤ (lo + hi) / 2 := by omega
          rcases Nat.lt_or_eq_of_le hle with hlt' | heq
          · have := hsorted _ _ ht hi_lt hlt'; omega
          · subst heq; omega
        exact ih ((lo + hi) / 2 + 1) hi (by omega) hhi hlen (by omega)
      · simp only [h2, if_false]
        -- equal tags: sortedness makes the midpoint the record itself
        have heq : records[(lo + hi) / 2].1 = records[t].1 := by omega
        have : (lo + hi) / 2 = t := by
          apply Classical.byContradiction; intro hne
          rcases Nat.lt_or_gt_of_ne hne with hl | hg
          · have := hsorted _ _ hi_lt ht hl; omega
          · have := hsorted _ _ ht hi_lt hg; omega
        simp [this]

theorem mvarSearch_some_mem (records : List (Nat × Nat × Nat)) (tag : Nat) :
    ∀ (fuel lo hi : Nat) (r : Nat × Nat), mvarSearch records tag fuel lo hi = some r →
      ∃ x ∈ records, x.1 = tag ∧ x.2 = r := by
  intro fuel
  induction fuel with
  | zero => intro lo hi r h; simp [mvarSearch] at h
  | succ fuel ih =>
    intro lo hi r h
    unfold mvarSearch at h
    split at h
    · simp only [] at h
      split at h
      · cases h
      · rename_i rec hrec
        split at h
        · exact ih _ _ _ h
        · split at h
          · exact ih _ _ _ h
          · cases h
            exact ⟨rec, List.mem_of_getElem? hrec, by omega, rfl⟩
    · cases h

/-- **mvar_metric_delta_spec**: with value records sorted by tag (as the specification requires)
`metric_delta(tag)` evaluates the delta set named by THE record with that tag
(`Fixed::from_i32(compute_delta((outer, inner)))`), and fails (`MetricIsMissing`) exactly when no
record has the tag — for any record count. -/
theorem mvar_metric_delta_spec (records : List (Nat × Nat × Nat)) (store : Store) (tag : Nat)
    (coords : List Int) (hs : records.Pairwise (fun a b => a.1 < b.1)) :
    (∀ o i, (tag, o, i) ∈ records → mvarMetricDelta records (some store) tag coords =
      fromDelta (Tent.computeDelta store.1 store.2 o i coords)) ∧
    ((∀ r ∈ records, r.1 ≠ tag) → ∀ st, mvarMetricDelta records st tag coords = .err) := by
  constructor
  · intro o i hmem
    obtain ⟨t, ht, hrt⟩ := List.getElem_of_mem hmem
    have h1 := mvarSearch_found records tag hs t ht (by rw [hrt]) (records.length + 1) 0 records.length
      (by omega) ht (by omega) (by omega)
    unfold mvarMetricDelta
    rw [h1, hrt]
  · intro hno st
    unfold mvarMetricDelta
    cases h : mvarSearch records tag (records.length + 1) 0 records.length with
    | none => rfl
    | some r =>
      obtain ⟨x, hx, hxt, _⟩ := mvarSearch_some_mem records tag _ _ _ r h
      exact absurd hxt (hno x hx)

example : mvarMetricDelta [(10, 0, 0), (20, 0, 1), (30, 1, 0)] (some ([[(0, 16384, 16384)]],
    [some ⟨2, 1, [0], [0, 100, 255, 206]⟩])) 20 [8192] = .ok (-25 * 65536) := by decide +kernel

/-! ## 6. vertical metrics: vmtx is looked up exactly like hmtx; VORG by glyph id -/

/-- **vertical_lookup** (`Vmtx::advance`, `Vmtx::side_bearing` call the hmtx functions): advance =
own long metric, else the LAST long metric (the value `baseAdvance` of the horizontal theorems),
`None` only for an empty table; bearing = own long metric's, else entry `gid − count` of the
trailing array, `None` beyond it (where skrifa's horizontal lookup substitutes 0). -/
theorem vertical_lookup (metrics : List (Int × Int)) (bearings : List Int) (gid : Nat) :
    (metrics ≠ [] → longAdvance metrics gid = some (baseAdvance metrics gid)) ∧
    (metrics = [] → longAdvance metrics gid = none) ∧
    ((longSideBearing metrics bearings gid).getD 0 = baseLsb metrics bearings gid) ∧
    (longSideBearing metrics bearings gid = none ↔
      metrics.length ≤ gid ∧ bearings.length ≤ gid - metrics.length) := by
  unfold longAdvance baseAdvance longSideBearing baseLsb
  refine ⟨fun h => ?_, fun h => by subst h; rfl, ?_, ?_⟩
  · cases hg : metrics[gid]? with
    | some m => rfl
    | none =>
      simp only []
      cases hl : metrics.getLast? with
      | some m => rfl
      | none => exact absurd (List.getLast?_eq_none_iff.mp hl) h
  · cases hg : metrics[gid]? with
    | some m => rfl
    | none => rfl
  · cases hg : metrics[gid]? with
    | some m =>
      simp only []
      have := (List.getElem?_eq_some_iff.mp hg).1
      constructor
      · intro h; cases h
      · intro h; omega
    | none =>
      simp only []
      have := List.getElem?_eq_none_iff.mp hg
      rw [List.getElem?_eq_none_iff]
      constructor
      · intro h; exact ⟨this, h⟩
      · intro h; exact h.2

theorem vorgSearch_inv (records : List (Nat × Int)) (gid : Nat)
    (hs : records.Pairwise (fun a b => a.1 < b.1)) (t : Nat) (ht : t < records.length)
    (htg : records[t].1 = gid) :
    ∀ (fuel base size : Nat), base ≤ t → t < base + size → base + size ≤ records.length →
      size ≤ fuel + 1 → vorgSearch records gid fuel base size = t := by
  intro fuel
  have hsorted := List.pairwise_iff_getElem.mp hs
  induction fuel with
  | zero => intro base size h1 h2 h3 h4; simp only [vorgSearch]; omega
  | succ fuel ih =>
    intro base size h1 h2 h3 h4
    unfold vorgSearch
    by_cases hsz : size > 1
    · simp only [hsz, if_true]
      have hmid : base + size / 2 < records.length := by omega
      rw [List.getElem?_eq_getElem hmid]
      simp only []
      by_cases hgt : records[base + size / 2].1 > gid
      · simp only [hgt, if_true]
        have : t < base + size / 2 := by
          apply Classical.byContradiction; intro hc
          have hge : base + size / 2 ≤ t := by omega
          rcases Nat.lt_or_eq_of_le hge with hl | he
          · have := hsorted _ _ hmid ht hl; omega
          · subst he; omega
        exact ih base (size - size / 2) h1 (by omega) (by omega) (by omega)
      · simp only [hgt, if_false]
        have : base + size / 2 ≤ t := by
          apply Classical.byContradiction; intro hc
          have hl : t < base + size / 2 := by omega
          have := hsorted _ _ ht hmid hl; omega
        exact ih (base + size / 2) (size - size / 2) this (by omega) (by omega) (by omega)
    · simp only [hsz, if_false]; omega

theorem vorgSearch_lt (records : List (Nat × Int)) (gid : Nat) :
    ∀ (fuel base size : Nat), 0 < size → base + size ≤ records.length →
      vorgSearch records gid fuel base size < records.length := by
  intro fuel
  induction fuel with
  | zero => intro base size h1 h2; simp only [vorgSearch]; omega
  | succ fuel ih =>
    intro base size h1 h2
    unfold vorgSearch
    by_cases hsz : size > 1
    · simp only [hsz, if_true]
      have hmid : base + size / 2 < records.length := by omega
      rw [List.getElem?_eq_getElem hmid]
      simp only []
      split
      · exact ih _ _ (by omega) (by omega)
      · exact ih _ _ (by omega) (by omega)
    · simp only [hsz, if_false]; omega

/-- **vorg_lookup**: with the records sorted by glyph id (required by the format),
`vertical_origin_y(gid)` is the `vertOriginY` of the record for `gid` if there is one and the
table's default otherwise. -/
theorem vorg_lookup (dflt : Int) (records : List (Nat × Int)) (gid : Nat)
    (hs : records.Pairwise (fun a b => a.1 < b.1)) :
    (∀ y, (gid, y) ∈ records → vorgY dflt records gid = y) ∧
    ((∀ r ∈ records, r.1 ≠ gid) → vorgY dflt records gid = dflt) := by
  constructor
  · intro y hmem
    obtain ⟨t, ht, hrt⟩ := List.getElem_of_mem hmem
    have hne : records.isEmpty = false := by cases records <;> simp_all
    have := vorgSearch_inv records gid hs t ht (by rw [hrt]) records.length 0 records.length
      (by omega) (by omega) (by omega) (by omega)
    unfold vorgY
    simp only [hne, Bool.false_eq_true, if_false, this, List.getElem?_eq_getElem ht, hrt, if_true]
  · intro hno
    unfold vorgY
    by_cases hne : records.isEmpty
    · simp [hne]
    · simp only [hne, Bool.false_eq_true, if_false]
      have hpos : 0 < records.length := by cases records <;> simp_all
      have hlt := vorgSearch_lt records gid records.length 0 records.length hpos (by omega)
      rw [List.getElem?_eq_getElem hlt]
      simp only []
      have := hno _ (List.getElem_mem hlt)
      simp [this]

example : vorgY 880 [(1, 867), (3, 824)] 3 = 824 ∧ vorgY 880 [(1, 867), (3, 824)] 2 = 880 := by decide
example : longAdvance [(1000, 10), (900, 20)] 7 = some 900 ∧
    longSideBearing [(1000, 10), (900, 20)] [5, 6] 3 = some 6 ∧
    longSideBearing [(1000, 10), (900, 20)] [5, 6] 4 = none := by decide

end FontVerif.C11
