/-
C10 (part 4) — the f64 side of the IUP optimiser: the values written for a delta (`ot_round`) and
where the f64 interpolation of `iup_segment` coincides with the exact rational one.
Model: Model/IupF64.lean (bit exact on the IEEE model, tied to write-fonts by hooks) and
Model/Iup.lean (integer inputs, exact rationals).  `OtRound` itself is C15's (Props/C15Round.lean).
-/
import FontVerif.Model.IupF64
import FontVerif.Model.Iup
import FontVerif.Lemmas.Ieee
import FontVerif.Lemmas.IupF64
import FontVerif.Lemmas.OtRound
import FontVerif.Props.C15Round
set_option linter.unusedVariables false
namespace FontVerif.C10
open FontVerif FontVerif.Ieee FontVerif.IupF64 FontVerif.FixedConv

/-- **values written for integer deltas.**  The integer model of the optimiser (Model/Iup.lean) writes
`otRound16 d` (saturation to i16); for a delta that is an integer below `2^53` the Rust's
`delta.to_point().ot_round()` — `(x + 0.5).floor() as i16` in f64 — gives exactly that. -/
theorem written_value_integer (dx dy : Int) (hx : dx.natAbs < 2 ^ 53) (hy : dy.natAbs < 2 ^ 53) :
    writtenValue (ofI dx) (ofI dy) = (Iup.otRound16 dx, Iup.otRound16 dy) := by
  unfold writtenValue FixedConv.otRoundPoint
  rw [ofI_eq dx hx, ofI_eq dy hy]
  rw [C15Round.ot_round_int_idempotent f64 C15Round.f64_ok (-32768) 32767 (by decide) (by decide) (by decide) dx hx,
    C15Round.ot_round_int_idempotent f64 C15Round.f64_ok (-32768) 32767 (by decide) (by decide) (by decide) dy hy]
  unfold clampI Iup.otRound16
  congr 1 <;> (split <;> split <;> omega)

/-- **values written for any finite delta**: round half up (`⌊x + 1/2⌋`), then saturate — for every
finite f64 except the largest one below one half (where `x + 0.5` rounds up to `1.0`; known
finding C15-otround-below-half, shared with fontTools). -/
theorem written_value_half_up (nx : Bool) (mx : Nat) (ex : Int) (ny : Bool) (my : Nat) (ey : Int)
    (hmx : mx < 2 ^ 53) (hex : -1074 ≤ ex) (hmy : my < 2 ^ 53) (hey : -1074 ≤ ey)
    (hnx : ¬ C15Round.IsBelowHalf f64 nx mx ex) (hny : ¬ C15Round.IsBelowHalf f64 ny my ey) :
    writtenValue (.fin nx mx ex) (.fin ny my ey)
      = (clampI (-32768) 32767 (halfUp nx mx ex), clampI (-32768) 32767 (halfUp ny my ey)) := by
  unfold writtenValue FixedConv.otRoundPoint
  rw [C15Round.ot_round_f64_i16 nx mx ex hmx hex hnx, C15Round.ot_round_f64_i16 ny my ey hmy hey hny]

/-- **where the f64 `iup_segment` is exact without any assumption**: integer inputs below `2^53`
and a point that is not strictly between the two references (or references with the same
coordinate).  There the Rust performs no arithmetic — it copies a reference delta or writes `0.0` —
and the result is the exact model's value (`iupAxis`, denominator 1).
For a point strictly inside, the f64 result is `d1 + (c − c1) · ((d2 − d1) / (c2 − c1))` with three
roundings (`segAxis`, bit exact by correspondence); it equals the exact rational whenever the scale
`(d2 − d1) / (c2 − c1)` is a dyadic rational and all inputs are below `2^26` — this last statement
is an ASSUMPTION checked by the harness oracle `f64-interpolation-exact-when-scale-is-dyadic`, not
proved here; otherwise the two differ by at most a few units in the last place, which can flip the
tolerance comparison only on knife-edge inputs (counted and excluded from the hard diff). -/
theorem seg_f64_exact_outside (c1 d1 c2 d2 c : Int)
    (h1 : c1.natAbs < 2 ^ 53) (h2 : d1.natAbs < 2 ^ 53) (h3 : c2.natAbs < 2 ^ 53)
    (h4 : d2.natAbs < 2 ^ 53) (h5 : c.natAbs < 2 ^ 53)
    (hout : c1 = c2 ∨ c ≤ min c1 c2 ∨ c ≥ max c1 c2) :
    segAxis (ofI c1) (ofI d1) (ofI c2) (ofI d2) (ofI c) = ofI (Iup.iupAxis c1 d1 c2 d2 c).1 ∧
    (Iup.iupAxis c1 d1 c2 d2 c).2 = 1 := by
  unfold segAxis Iup.iupAxis
  rw [feq_ofI c1 c2 h1 h3, feq_ofI d1 d2 h2 h4, gt_ofI c1 c2 h1 h3]
  by_cases hc : c1 = c2
  · subst hc
    by_cases hd : d1 = d2
    · simp [hd]
    · simp [hd, ofI, ofInt, roundNE, zero]
  · have hout' : c ≤ min c1 c2 ∨ c ≥ max c1 c2 := by
      rcases hout with h | h
      · exact absurd h hc
      · exact h
    simp only [hc, decide_false, Bool.false_eq_true, if_false]
    by_cases hgt : c1 > c2
    · have e1 : min c1 c2 = c2 := Int.min_eq_right (by omega)
      have e2 : max c1 c2 = c1 := Int.max_eq_left (by omega)
      rw [e1, e2] at hout'
      simp only [hgt, decide_true, if_true]
      rw [le_ofI c c2 h5 h3]
      unfold IupF64.ge
      rw [le_ofI c1 c h1 h5]
      by_cases ha : c ≤ c2
      · simp [ha]
      · have hb : c ≥ c1 := by omega
        have hb' : c1 ≤ c := hb
        simp [ha, hb, hb']
    · have e1 : min c1 c2 = c1 := Int.min_eq_left (by omega)
      have e2 : max c1 c2 = c2 := Int.max_eq_right (by omega)
      rw [e1, e2] at hout'
      simp only [hgt, decide_false, Bool.false_eq_true, if_false]
      rw [le_ofI c c1 h5 h1]
      unfold IupF64.ge
      rw [le_ofI c2 c h3 h5]
      by_cases ha : c ≤ c1
      · simp [ha]
      · have hb : c ≥ c2 := by omega
        have hb' : c2 ≤ c := hb
        simp [ha, hb, hb']

-- non-vacuity: ties go up, negative ties too; saturation; a point strictly inside with a dyadic scale
example : writtenValue (.fin false 5 (-1)) (.fin true 5 (-1)) = (3, -2) := by decide
example : writtenValue (ofI 40000) (ofI (-40000)) = (32767, -32768) := by decide +kernel
example : (segAxis (ofI 0) (ofI 0) (ofI 4) (ofI 2) (ofI 1)).show = "1e-1" := by decide +kernel

end FontVerif.C10
