/-
C03, part 4 — control values, delta exceptions and the "state" opcodes of the TrueType interpreter:
skrifa (Model/HintStep.lean kernels) = FreeType 2.12.1 (Model/FtStep.lean kernels).

  * CVT scaling at size setup (`HintInstance::setup` ⇄ `tt_size_run_prep`), WCVTF / SSW (`mul(v, scale)` ⇄
    `FT_MulFix( args, tt_metrics.scale )`; `FT_DivFix` appears only in FreeType's *stretched* CVT
    functions, which a square pixel size never installs), WCVTP / RCVT (plain stores and loads);
  * DELTAP1‑3 / DELTAC1‑3: the ppem an exception applies to, its step, and its application;
  * MPS, GETINFO (selector → result word for the emulated v40 interpreter), INSTCTRL (prep and glyph
    program), the state a glyph program starts in after the prep, SCANCTRL.
Stack cells are `i32` in skrifa and 64-bit longs in FreeType: statements are for i32 cells.
-/
import FontVerif.Props.C03Vec
import FontVerif.Model.HintStep
import FontVerif.Model.FtStep
set_option linter.unusedVariables false
set_option linter.unusedSimpArgs false
set_option maxRecDepth 8000
namespace FontVerif.C03
open FontVerif FontVerif.Tt

/-! ### control values -/

/-- **CVT scaling at size setup**: for every `cvt ` entry (i16 font units) and every i32 scale skrifa's
`(units * 64) * (scale >> 6)` (16.16 multiply) is FreeType's `FT_MulFix( face->cvt[i], scale >> 6 )`, and
the `* 64` does not trap. -/
theorem cvt_setup_eq (units scale : Int) (hu : inI16 units) (hs : inI32 scale) :
    HintStep.cvtSetup units scale = some (FtStep.cvtSetup units scale) := by
  unfold inI16 at hu
  unfold inI32 at hs
  unfold HintStep.cvtSetup FtStep.cvtSetup
  have c : HintMath.chk (units * 64) = some (units * 64) := by unfold HintMath.chk; rw [if_pos (by omega)]
  rw [c]
  simp only [Option.map_some, Option.some.injEq]
  exact mulfix_eq _ _ (by unfold inI32; omega) (by unfold inI32; omega)

example : HintStep.cvtSetup 300 53248 = some 244 ∧ FtStep.cvtSetup 300 53248 = 244
    ∧ HintStep.cvtSetup (-37) 65536 = some (-37) ∧ FtStep.cvtSetup (-37) 53248 = -30 := by decide

/-- **WCVTF / SSW**: the value written is the same for every i32 stack cell and scale. -/
theorem wcvtf_eq (v scale : Int) (hv : inI32 v) (hs : inI32 scale) :
    HintMath.mul v scale = FtCalc.mulFix v scale := by
  unfold HintMath.mul; exact mulfix_eq v scale hv hs

/-! ### delta exceptions -/

/-- **DELTA, which ppem**: `((b as u32 & 0xF0) >> 4) + bias` = `( (FT_ULong)B & 0xF0 ) >> 4 (+16/32) +
delta_base` for every cell `b` (only the low byte matters on either side). -/
theorem delta_ppem_eq (b bias : Int) : HintStep.deltaPpem b bias = FtStep.deltaPpem b bias := by
  unfold HintStep.deltaPpem FtStep.deltaPpem wrapU32 wrapU64; omega

/-- the comparison `ppem as u32 == c` = `(FT_ULong)ppem == C` for a ppem and an exception ppem below 2^31. -/
theorem delta_fires_eq (ppem c : Int) (hp : inI32 ppem) (hc : 0 ≤ c ∧ c < 2147483648) :
    (wrapU32 ppem = c) ↔ (wrapU64 ppem = c) := by
  unfold inI32 at hp; unfold wrapU32 wrapU64; omega

/-- **DELTA, the step**: `b = (b & 0xF) - 8; if b >= 0 { b += 1 }; b *= 1 << (6 - delta_shift)` — the same
value, skrifa's checked multiply does not trap, and the magnitude is at most 8 px. -/
theorem delta_step_eq (b shift : Int) (hs : 0 ≤ shift ∧ shift ≤ 6) :
    HintStep.deltaStep b shift = some (FtStep.deltaStep b shift) ∧
    -512 ≤ FtStep.deltaStep b shift ∧ FtStep.deltaStep b shift ≤ 512 := by
  have hsh : shift = 0 ∨ shift = 1 ∨ shift = 2 ∨ shift = 3 ∨ shift = 4 ∨ shift = 5 ∨ shift = 6 := by omega
  unfold HintStep.deltaStep FtStep.deltaStep
  simp only []
  have e : wrapU32 b % 16 = wrapU64 b % 16 := by unfold wrapU32 wrapU64; omega
  rw [e]
  have hm : 0 ≤ wrapU64 b % 16 ∧ wrapU64 b % 16 ≤ 15 := by omega
  generalize wrapU64 b % 16 = m at hm
  rcases hsh with h | h | h | h | h | h | h <;> subst h <;>
    simp only [show ((6:Int) - 0).toNat = 6 from by decide, show ((6:Int) - 1).toNat = 5 from by decide,
      show ((6:Int) - 2).toNat = 4 from by decide, show ((6:Int) - 3).toNat = 3 from by decide,
      show ((6:Int) - 4).toNat = 2 from by decide, show ((6:Int) - 5).toNat = 1 from by decide,
      show ((6:Int) - 6).toNat = 0 from by decide,
      show (2:Int)^6 = 64 from by decide, show (2:Int)^5 = 32 from by decide, show (2:Int)^4 = 16 from by decide,
      show (2:Int)^3 = 8 from by decide, show (2:Int)^2 = 4 from by decide, show (2:Int)^1 = 2 from by decide,
      show (2:Int)^0 = 1 from by decide] <;>
    (unfold HintMath.chk; split <;> (constructor; (rw [if_pos (by omega)]); omega))

-- magnitudes: nibble 0 → -8 steps, 7 → -1, 8 → +1, 15 → +8; delta_shift 3 → step 1/8 px = 8 units
example : FtStep.deltaStep 0x70 3 = -64 ∧ FtStep.deltaStep 0x77 3 = -8 ∧ FtStep.deltaStep 0x78 3 = 8
    ∧ FtStep.deltaStep 0x7F 3 = 64 ∧ FtStep.deltaStep 0x7F 0 = 512 ∧ FtStep.deltaStep 0x7F 6 = 8
    ∧ HintStep.deltaPpem 0x7F 9 = 16 ∧ HintStep.deltaPpem 0x7F (16 + 9) = 32 := by decide

/-- **DELTAP, application**: a firing exception moves the point by its step along the freedom vector
(`move_point` ⇄ `func_move`), same coordinates and touch flags. -/
theorem deltap_move_eq (g : HintVec.Proj) (bc iup : Bool) (p : HintVec.MPt) (b shift : Int) (hg : ProjOk g)
    (hp : MPos29 p) (hs : 0 ≤ shift ∧ shift ≤ 6) :
    (HintStep.deltaStep b shift).map (HintVec.movePoint g bc iup p) =
      some (FtVec.funcMove (toFuncs g) bc iup p (FtStep.deltaStep b shift)) := by
  have h := delta_step_eq b shift hs
  rw [h.1]
  simp only [Option.map_some, Option.some.injEq]
  exact move_point_eq g bc iup p _ hg hp (by unfold Dist24; omega)

/-- **DELTAC, application**: `cvt + step` (wrapping add ⇄ `ADD_LONG`) for a cvt value within ±2^29. -/
theorem deltac_apply_eq (v b shift : Int) (hv : Dist29 v) (hs : 0 ≤ shift ∧ shift ≤ 6) :
    HintMove.wadd v (FtStep.deltaStep b shift) = FtCalc.addLong v (FtStep.deltaStep b shift) := by
  have h := delta_step_eq b shift hs
  unfold Dist29 at hv
  unfold HintMove.wadd FtCalc.addLong
  rw [wI32 (by omega) (by omega), wI64 (by omega) (by omega)]

/-- **one DELTAP1‑3 exception, whole**: for EVERY argument word `b`, every i32 ppem, every bias (0 / 16 / 32
+ delta_base ≤ 2^17), delta_shift 0‥6, in and out of backward compatibility (before / after both IUPs,
composite or not, point touched in y or not): the same decision whether the exception fires, the same
decoded step (magnitude nibble → −8‥−1, +1‥+8 steps of 2^(6−shift), the zero skipped), and the same
resulting point and touch flags (`move_point` ⇄ `func_move`, coordinates within ±2^29). -/
theorem deltap_exception_eq (g : HintVec.Proj) (ppem bias shift : Int) (bc iup composite : Bool) (b : Int)
    (p : HintVec.MPt) (hg : ProjOk g) (hp : MPos29 p) (hpp : inI32 ppem) (hb : 0 ≤ bias ∧ bias ≤ 131072)
    (hs : 0 ≤ shift ∧ shift ≤ 6) :
    HintStep.deltapOne g ppem bias shift bc iup composite b p =
      some (FtStep.deltapOne (toFuncs g) ppem bias shift bc iup composite b p) := by
  unfold HintStep.deltapOne FtStep.deltapOne
  rw [delta_ppem_eq]
  have hc : 0 ≤ FtStep.deltaPpem b bias ∧ FtStep.deltaPpem b bias < 2147483648 := by
    unfold FtStep.deltaPpem wrapU64; omega
  have hst := delta_step_eq b shift hs
  have hmv := move_point_eq g bc iup p (FtStep.deltaStep b shift) hg hp (by unfold Dist24; omega)
  by_cases hf : wrapU64 ppem = FtStep.deltaPpem b bias
  · have hf' := (delta_fires_eq ppem _ hpp hc).mpr hf
    rw [if_pos hf', if_pos hf, hst.1]
    simp only [Option.map_some, Option.some.injEq, hmv]
    rfl
  · have hf' : ¬ wrapU32 ppem = FtStep.deltaPpem b bias := fun h => hf ((delta_fires_eq ppem _ hpp hc).mp h)
    rw [if_neg hf', if_neg hf]

/-- **one DELTAC1‑3 exception, whole**: the same new cvt value for every argument word, for a cvt value
within ±2^29. -/
theorem deltac_exception_eq (ppem bias shift b v : Int) (hpp : inI32 ppem) (hb : 0 ≤ bias ∧ bias ≤ 131072)
    (hs : 0 ≤ shift ∧ shift ≤ 6) (hv : Dist29 v) :
    HintStep.deltacOne ppem bias shift b v = some (FtStep.deltacOne ppem bias shift b v) := by
  unfold HintStep.deltacOne FtStep.deltacOne
  rw [delta_ppem_eq]
  have hc : 0 ≤ FtStep.deltaPpem b bias ∧ FtStep.deltaPpem b bias < 2147483648 := by
    unfold FtStep.deltaPpem wrapU64; omega
  have hst := delta_step_eq b shift hs
  by_cases hf : wrapU64 ppem = FtStep.deltaPpem b bias
  · have hf' := (delta_fires_eq ppem _ hpp hc).mpr hf
    rw [if_pos hf', if_pos hf, hst.1]
    simp only [Option.map_some, Option.some.injEq]
    exact deltac_apply_eq v b shift hv hs
  · have hf' : ¬ wrapU32 ppem = FtStep.deltaPpem b bias := fun h => hf ((delta_fires_eq ppem _ hpp hc).mp h)
    rw [if_neg hf', if_neg hf]

-- the magnitude nibble around the skipped zero: 7 → −1 step, 8 → +1 step (not 0, not +2); y axis, ppem 16,
-- delta_base 9 (nibble 7), delta_shift 3: the point moves by −8 / +8
example :
    let g : HintVec.Proj := ⟨⟨0, 16384⟩, ⟨0, 16384⟩, ⟨0, 16384⟩, 16384, .y, .y, .y⟩
    HintStep.deltapOne g 16 9 3 false false false 0x77 ⟨0, 100, false, false⟩ = some ⟨0, 92, false, true⟩
    ∧ HintStep.deltapOne g 16 9 3 false false false 0x78 ⟨0, 100, false, false⟩ = some ⟨0, 108, false, true⟩
    ∧ FtStep.deltapOne (toFuncs g) 16 9 3 false false false 0x78 ⟨0, 100, false, false⟩ = ⟨0, 108, false, true⟩
    ∧ HintStep.deltapOne g 17 9 3 false false false 0x78 ⟨0, 100, false, false⟩ = some ⟨0, 100, false, false⟩
    ∧ HintStep.deltapOne g 16 9 3 true false false 0x78 ⟨0, 100, false, false⟩ = some ⟨0, 100, false, false⟩
    ∧ HintStep.deltacOne 16 9 3 0x78 500 = some 508 ∧ FtStep.deltacOne 16 9 3 0x70 500 = 436 := by decide

/-! ### MPS, GETINFO, INSTCTRL, SCANCTRL, the start of a glyph program -/

/-- **MPS**: `ppem.saturating_mul(64)` = `exc->pointSize` = `FT_MulDiv( ppem, 64 * 72, 72 )` for every
ppem a size request can produce (0 ≤ ppem < 2^25). -/
theorem mps_eq (ppem : Int) (h : 0 ≤ ppem ∧ ppem < 33554432) :
    (if ppem * 64 > 2147483647 then 2147483647 else if ppem * 64 < -2147483648 then -2147483648 else ppem * 64)
      = FtCalc.mulDiv ppem 4608 72 := by
  rw [if_neg (by omega), if_neg (by omega)]
  unfold FtCalc.mulDiv FtCalc.sign3 FtCalc.moveSign FtCalc.negLong
  simp only [show ¬ ((4608:Int) < 0) from by decide, show ¬ ((72:Int) < 0) from by decide,
    show ¬ (ppem < 0) from by omega, if_false]
  simp only [show wrapU64 4608 = 4608 from by decide, show wrapU64 72 = 72 from by decide,
    show ((72:Int) > 0) = True from by decide, if_true]
  have e1 : wrapU64 ppem = ppem := by unfold wrapU64; omega
  rw [e1]
  have e2 : wrapU64 (ppem * 4608) = ppem * 4608 := by unfold wrapU64; omega
  rw [e2]
  have e3 : wrapU64 (ppem * 4608 + 72 / 2) = ppem * 4608 + 36 := by unfold wrapU64; omega
  rw [e3]
  have e4 : (ppem * 4608 + 36) / 72 = ppem * 64 := by omega
  rw [e4]
  simp only [Bool.false_bne, bne_self_eq_false, Bool.false_eq_true, if_false, show (false != false) = false from rfl]
  exact (wI64 (by omega) (by omega)).symm

/-- **GETINFO**: the same result word for every selector, when skrifa's target predicates are FreeType's
loader flags: `is_smooth` = `subpixel_hinting_lean` (target ≠ mono), `is_vertical_lcd` =
`vertical_lcd_lean`, `symmetric_rendering` = true for smooth targets (what the comparison tool's
`SmoothMode::….into()` sets), `is_grayscale_cleartype` = `grayscale_cleartype`.
(Version 40; `exc->grayscale` — selector bit 5 — is constantly false in the v40 loader; static,
unrotated, unstretched.) -/
theorem getinfo_eq (sel : Int) (lean vlcd grayCt : Bool) :
    HintStep.getinfo sel lean vlcd lean grayCt = FtStep.getinfo sel lean vlcd grayCt := by
  unfold HintStep.getinfo FtStep.getinfo
  cases lean <;> cases vlcd <;> cases grayCt <;> simp

example : HintStep.getinfo 0x1FFF true false true true = 40 + 8192 + 131072 + 262144 + 524288
    ∧ FtStep.getinfo 0x1FFF true false true = 925736 ∧ HintStep.getinfo 0x1FFF false false false false = 40 := by decide

/-- **INSTCTRL** (prep: edits `instruct_control`; glyph program: selector 3 toggles backward
compatibility): the same new state for i32 stack cells. -/
theorem instctrl_eq (s : St) (sel v : Int) (hs : inI32 sel) (hv : inI32 v) (hnn : 0 ≤ sel ∧ 0 ≤ v) :
    HintStep.instctrl s sel v = FtStep.instctrl s sel v := by
  unfold inI32 at hs hv
  unfold HintStep.instctrl FtStep.instctrl
  have e1 : wrapU32 sel = sel := by unfold wrapU32; omega
  have e2 : wrapU64 sel = sel := by unfold wrapU64; omega
  have e3 : wrapU32 v = v := by unfold wrapU32; omega
  have e4 : wrapU64 v = v := by unfold wrapU64; omega
  simp only [e1, e2, e3, e4]
  by_cases h1 : 1 ≤ sel ∧ sel ≤ 3
  · have h1' : ¬ (sel < 1 ∨ sel > 3) := by omega
    rw [if_neg (by simpa using h1), if_neg h1']
  · have h1' : sel < 1 ∨ sel > 3 := by omega
    rw [if_pos (by simpa using h1), if_pos h1']

/-- **SCANCTRL**: the same threshold logic (bits 8 and 11 against the ppem; the rotated / stretched bits
never fire for the unrotated square sizes of the comparison). -/
theorem scanctrl_eq (n ppem : Int) (sc : Bool) : HintStep.scanctrl n ppem sc = FtStep.scanctrl n ppem sc := rfl

example : HintStep.scanctrl (256 + 16) 16 false = true ∧ HintStep.scanctrl (256 + 16) 17 false = false
    ∧ HintStep.scanctrl (2048 + 16) 17 true = false ∧ HintStep.scanctrl (2048 + 16) 16 true = true
    ∧ HintStep.scanctrl 0x1FF 5 false = true ∧ HintStep.scanctrl 0x100 5 true = false := by decide

/-- **start of a glyph program after the prep**: the same state (retained graphics state, cvt, storage,
twilight zone, backward compatibility from the target and instruct control bit 2) — provided the prep
did not set instruct control bit 1 and left the default round-state parameters alone. -/
theorem start_glyph_eq (p : St) (smooth : Bool) (glyph : List ZPt) (ends : List Nat)
    (h2 : p.instructControl / 2 % 2 = 0) (hr : p.rthr = 0 ∧ p.rph = 0 ∧ p.rper = 64) :
    HintStep.startGlyph p smooth glyph ends = FtStep.startGlyph p smooth glyph ends := by
  unfold HintStep.startGlyph FtStep.startGlyph
  have h2' : ¬ (p.instructControl / 2 % 2 = 1) := by omega
  simp only [h2', if_false, hr.1, hr.2.1, hr.2.2]

-- instruct control bit 1 ("use the default graphics state in glyph programs"): skrifa resets the retained
-- state, FreeType 2.12.1 restores the prep's (known finding C03-instctrl-selector2-…): minimum distance 20
example :
    let p : St := { (default : St) with instructControl := 2, md := 20 }
    (HintStep.startGlyph p false [] []).md = 64 ∧ (FtStep.startGlyph p false [] []).md = 20 := by decide

end FontVerif.C03
