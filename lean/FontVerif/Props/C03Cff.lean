/-
C03, part 6 — the one arithmetic step of the CFF hinting set-up that is not structurally shared code:
the hinter's scale `(scale + 32) / 64` (skrifa cff/mod.rs ⇄ FreeType psaux/psft.c).
-/
import FontVerif.Lemmas.FtEq
import FontVerif.Model.CffScale
set_option linter.unusedVariables false
namespace FontVerif.C03
open FontVerif

/-- **CFF hint scale**: for every 16.16 scale that fits an `i32` with `scale + 32` not overflowing, skrifa's
`(scale + 32) / 64` does not trap and is FreeType's `ADD_INT32( x_scale, 32 ) / 64` — a ROUNDING division
(truncation towards zero of `scale + 32`), not the shift `scale >> 6`. -/
theorem cff_hint_scale_eq (scale : Int) (h : -2147483648 ≤ scale ∧ scale ≤ 2147483615) :
    CffScale.skHintScale scale = some (CffScale.ftHintScale scale) := by
  unfold CffScale.skHintScale CffScale.ftHintScale
  have c : HintMath.chk (scale + 32) = some (scale + 32) := by unfold HintMath.chk; rw [if_pos (by omega)]
  rw [c]
  have e : wrapI32 (wrapU32 scale + 32) = scale + 32 := by unfold wrapI32 wrapU32; simp only []; split <;> omega
  rw [e]; rfl

/-- for a non-negative scale the value is `⌊(scale + 32) / 64⌋`: it differs from `scale >> 6` exactly when
the low six bits are ≥ 32. -/
theorem cff_hint_scale_rounds (scale : Int) (h : 0 ≤ scale ∧ scale ≤ 2147483615) :
    CffScale.ftHintScale scale = (scale + 32) / 64 ∧
    (CffScale.ftHintScale scale = scale / 64 ↔ scale % 64 < 32) := by
  unfold CffScale.ftHintScale
  have e : wrapI32 (wrapU32 scale + 32) = scale + 32 := by unfold wrapI32 wrapU32; simp only []; split <;> omega
  rw [e, Int.tdiv_eq_ediv_of_nonneg (by omega)]
  constructor
  · rfl
  · omega

-- 13 ppem at 1000 units per em: scale 53248 → 832 either way; 11 ppem: 45056 → 704; a scale ending in
-- 0b100000 rounds up: 45088 → 705 (the shift gives 704); at the top skrifa traps, FreeType wraps
example : CffScale.skHintScale 53248 = some 832 ∧ CffScale.ftHintScale 45056 = 704
    ∧ CffScale.skHintScale 45088 = some 705 ∧ CffScale.ftHintScale 45088 = 705 ∧ (45088 : Int) / 64 = 704
    ∧ CffScale.skHintScale 2147483616 = none ∧ CffScale.ftHintScale 2147483616 = -33554432 := by decide

end FontVerif.C03
