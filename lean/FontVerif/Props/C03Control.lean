/-
C03 — interpreter CONTROL FLOW: FreeType 2.12.1 (`Model/FtControl.lean`) against skrifa (C02's `Model/Interp.lean`).

What is proved here (for every bytecode, pc, stack, …):
* `fetch_eq`           the two instruction decoders (opcode fetch, `opcode_length` / `OPCODE_LENGTHS`, NPUSHB / NPUSHW counts,
                       truncated operands) are the same function
* `scan_if_eq`, `scan_else_eq`, `scan_def_eq`   the IF / ELSE skip loops and the FDEF / IDEF scan to ENDF land on the same
                       pc or fail together (error kinds through `errRel`)
* `jump_sim`           JMPR / JROT / JROF core: under `CtlCompare.jumpCond = none` both machines jump to the same pc,
                       count the same backward jump, or fail with related errors
* `jump_zero_offset_differs`, `jump_negative_target_differs`   … and outside it they really differ
* `two_pop_underflow_differs_only_when`   non-pedantic stack underflow of the two-argument control opcodes
* `budget_differs_only_when`   the loop / jump budget formulas differ exactly when FreeType's 100 × numGlyphs clamp bites
                       (the recorded finding C03-loop-budget-glyph-count-clamp)
* `def_capacity_eq`, `def_capacity_differs_only_when`, `prep_initial_stack_eq`, `call_depth_limit_eq`, `instruction_cap_eq`,
  `endf_sim`, `eof_sim`
* `control_simulation_partial`   n-step lock step, see the statement and the note above it for what is missing.
-/
import FontVerif.Model.CtlCompare
set_option linter.unusedVariables false
namespace FontVerif.C03Control
open FontVerif FontVerif.CtlCompare

/-! ## decoders -/

/-- the instruction at `pc` as both decoders see it -/
theorem fetch_eq (code : Array Nat) (pc : Nat) :
    match Interp.decode code pc with
    | .eof => FtControl.insLength code pc = none ∧ code.size ≤ pc
    | .bad => FtControl.insLength code pc = none ∧ pc < code.size
    | .ins op bytes ipc next =>
      ipc = pc ∧ ∃ len, FtControl.insLength code pc = some (op, len) ∧ next = pc + len ∧
        bytes = FtControl.inlineBytes code pc op len := by
  unfold Interp.decode FtControl.insLength Interp.insLen
  cases h : code[pc]? with
  | none =>
    simp only []
    exact ⟨trivial, by simpa using h⟩
  | some op =>
    have hlt : pc < code.size := by
      rcases Nat.lt_or_ge pc code.size with h1 | h1
      · exact h1
      · have : code[pc]? = none := by simp [h1]
        rw [this] at h; cases h
    have hl : Interp.opcodeLen op = FtControl.opcodeLength op := rfl
    simp only [hl]
    by_cases hneg : FtControl.opcodeLength op < 0
    · simp only [hneg, if_true]
      cases h1 : code[pc + 1]? with
      | none => simp [hlt]
      | some n =>
        simp only []
        have e : (-FtControl.opcodeLength op).toNat * n + 2 = 2 + (-FtControl.opcodeLength op).toNat * n := by omega
        by_cases hfit : pc + ((-FtControl.opcodeLength op).toNat * n + 2) ≤ code.size
        · simp only [hfit, if_true]
          refine ⟨trivial, _, ?_, rfl, ?_⟩
          · rw [← e]; simp [hfit]
          · unfold FtControl.inlineBytes; simp [hneg, e]
        · simp only [hfit, if_false]
          refine ⟨?_, hlt⟩
          rw [← e]; simp [hfit]
    · simp only [hneg, if_false]
      by_cases hfit : pc + (FtControl.opcodeLength op).toNat ≤ code.size
      · simp only [hfit, if_true]
        refine ⟨trivial, _, rfl, rfl, ?_⟩
        unfold FtControl.inlineBytes; simp [hneg]
      · simp only [hfit, if_false]
        exact ⟨trivial, hlt⟩


/-- `fetch_eq` as a case split -/
theorem fetch_cases (code : Array Nat) (pc : Nat) :
    ((Interp.decode code pc = .eof ∨ Interp.decode code pc = .bad) ∧ FtControl.insLength code pc = none) ∨
    ∃ op bytes len, Interp.decode code pc = .ins op bytes pc (pc + len) ∧ FtControl.insLength code pc = some (op, len) := by
  have h := fetch_eq code pc
  cases hd : Interp.decode code pc with
  | eof => rw [hd] at h; exact .inl ⟨.inl rfl, h.1⟩
  | bad => rw [hd] at h; exact .inl ⟨.inr rfl, h.1⟩
  | ins op bytes ipc next =>
    rw [hd] at h
    obtain ⟨rfl, len, h1, rfl, _⟩ := h
    exact .inr ⟨op, bytes, len, rfl, h1⟩

/-! ## scans -/

/-- error kinds of the scans: a nested definition ↦ `Nested_DEFS`, running off the code ↦ `Code_Overflow` -/
def scanErr : Interp.Err → FtControl.Err
  | .nestedDef => .nestedDefs
  | _ => .codeOverflow

def mapScan {α : Type} (r : Option (Except Interp.Err α)) : Option (Except FtControl.Err α) :=
  r.map fun x => match x with
    | .ok a => .ok a
    | .error e => .error (scanErr e)

/-- `Ins_IF`'s `SkipCode` loop = `op_if`'s decode loop: same landing pc (after the ELSE / EIF), same failure -/
theorem scan_if_eq (code : Array Nat) (fuel pos n : Nat) :
    FtControl.scanIf code fuel pos n = mapScan (Interp.scanIf code fuel pos n) := by
  induction fuel generalizing pos n with
  | zero => rfl
  | succ k ih =>
    unfold FtControl.scanIf Interp.scanIf
    rcases fetch_cases code pos with ⟨h1 | h1, h2⟩ | ⟨op, bytes, len, h1, h2⟩
    · rw [h1, h2]; rfl
    · rw [h1, h2]; rfl
    · rw [h1, h2]
      simp only []
      by_cases a : op = 0x58
      · simp only [a, if_true]; exact ih _ _
      · simp only [a, if_false]
        by_cases b : op = 0x1B
        · simp only [b, if_true]
          by_cases c : n = 1
          · simp [c, mapScan]
          · simp only [c, if_false]; exact ih _ _
        · simp only [b, if_false]
          by_cases c : op = 0x59
          · simp only [c, if_true]
            by_cases d : n - 1 = 0
            · simp [d, mapScan]
            · simp only [d, if_false]; exact ih _ _
          · simp only [c, if_false]; exact ih _ _

/-- `Ins_ELSE` = `op_else` -/
theorem scan_else_eq (code : Array Nat) (fuel pos n : Nat) :
    FtControl.scanElse code fuel pos n = mapScan (Interp.scanElse code fuel pos n) := by
  induction fuel generalizing pos n with
  | zero => rfl
  | succ k ih =>
    unfold FtControl.scanElse Interp.scanElse
    rcases fetch_cases code pos with ⟨h1 | h1, h2⟩ | ⟨op, bytes, len, h1, h2⟩
    · rw [h1, h2]; rfl
    · rw [h1, h2]; rfl
    · rw [h1, h2]
      simp only []
      by_cases a : op = 0x58
      · simp only [a, if_true]; exact ih _ _
      · simp only [a, if_false]
        by_cases c : op = 0x59
        · simp only [c, if_true]
          by_cases d : n - 1 = 0
          · simp [d, mapScan]
          · simp only [d, if_false]; exact ih _ _
        · simp only [c, if_false]; exact ih _ _

/-- the scan of `Ins_FDEF` / `Ins_IDEF` = `do_def`'s: same ENDF, same pc afterwards; nested definition and end of code
fail on both sides with related kinds -/
theorem scan_def_eq (code : Array Nat) (fuel pos : Nat) :
    FtControl.scanDef code fuel pos = mapScan (Interp.scanDef code fuel pos) := by
  induction fuel generalizing pos with
  | zero => rfl
  | succ k ih =>
    unfold FtControl.scanDef Interp.scanDef
    rcases fetch_cases code pos with ⟨h1 | h1, h2⟩ | ⟨op, bytes, len, h1, h2⟩
    · rw [h1, h2]; rfl
    · rw [h1, h2]; rfl
    · rw [h1, h2]
      simp only []
      by_cases a : op = 0x2C ∨ op = 0x89
      · have a' : op = 0x89 ∨ op = 0x2C := a.symm
        simp [a, a', mapScan, scanErr]
      · have a' : ¬ (op = 0x89 ∨ op = 0x2C) := fun h => a h.symm
        simp only [a, a', if_false]
        by_cases c : op = 0x2D
        · simp [c, mapScan]
        · simp only [c, if_false]; exact ih _

theorem scan_errors_related (e : Interp.Err) (h : e = .unexpectedEnd ∨ e = .nestedDef) : errRel e (scanErr e) = true := by
  rcases h with rfl | rfl <;> rfl


/-! ## jumps -/

theorem wrapI32_id (x : Int) (h : -2147483648 ≤ x ∧ x < 2147483648) : wrapI32 x = x := by
  unfold wrapI32; simp only []; split <;> omega

theorem wrapI64_id (x : Int) (h : -9223372036854775808 ≤ x ∧ x < 9223372036854775808) : wrapI64 x = x := by
  unfold wrapI64; simp only []; split <;> omega

theorem pastEnd_indep {D} (t : FtControl.St D) (ip : Nat) (st : List Int) (x : Int) :
    FtControl.pastEnd ({ t with ip := ip, stack := st } : FtControl.St D) x = FtControl.pastEnd t x := rfl

/-- JMPR (and the taken branch of JROT / JROF): with the operand `v` on top, the pc of the jump instruction `ipc` and
no clause of `jumpCond` firing, skrifa's `do_jump` and FreeType's `Ins_JMPR` go to the same pc with the same backward
jump count, or fail with related errors. -/
theorem jump_sim {D} (c : Interp.Cfg D) (fc : FtControl.Cfg D) (s : Interp.St D) (t : FtControl.St D)
    (v : Int) (rest : List Int) (ipc argsIx : Nat)
    (hpc : s.pc = ipc + 1) (hip : t.ip = ipc) (hvs : s.vs = v :: rest) (hbj : s.backJumps = t.negJumps)
    (hsmall : ipc < 4294967296)
    (hc : jumpCond c fc s t v ipc (decide (argsIx ≠ 0)) = none) :
    match Interp.doJump c s true, FtControl.insJmpr fc { t with stack := rest } v argsIx with
    | .ok s', .ok t' => s'.pc = t'.ip ∧ s'.backJumps = t'.negJumps ∧ s'.vs = t'.stack
    | .error e, .error f => errRel e f = true
    | _, _ => False := by
  unfold jumpCond at hc
  by_cases hr : -2147483648 < v ∧ v < 2147483648
  · simp only [hr, not_true_eq_false, if_false] at hc
    have hoff : wrapI32 (v - 1) = v - 1 := wrapI32_id _ (by omega)
    unfold Interp.doJump Interp.pop FtControl.insJmpr
    rw [hvs]
    simp only [hoff, hip, if_true]
    by_cases h0 : v = 0
    · subst h0
      simp only [if_true] at hc
      have ha : argsIx = 0 := by
        by_cases h : argsIx = 0
        · exact h
        · simp [h] at hc
      simp [ha, errRel]
    · simp only [h0, if_false, false_and] at hc ⊢
      by_cases hneg : (ipc : Int) + v < 0
      · simp [hneg] at hc
      · simp only [hneg, if_false] at hc
        have hw : wrapI64 ((ipc : Int) + v) = (ipc : Int) + v := wrapI64_id _ (by omega)
        simp only [hw]
        have hpe0 : FtControl.pastEnd t ((ipc : Int) + v) = false := by
          cases hh : FtControl.pastEnd t ((ipc : Int) + v) with
          | false => rfl
          | true => simp [hh] at hc
        have hbud : ¬ (v < 0 ∧ decide (s.backJumps + 1 > c.limit) ≠ decide (t.negJumps + 1 > fc.negJumpMax)) := by
          intro hb; simp [hpe0, hb] at hc
        clear hc
        simp only [pastEnd_indep, hpe0, hneg, Bool.false_eq_true, or_self, if_false]
        have hwrap : Interp.wrapAddPc s.pc (v - 1) = ((ipc : Int) + v).toNat := by
          unfold Interp.wrapAddPc; rw [hpc]
          have : ((((ipc + 1 : Nat) : Int) + (v - 1)) % 18446744073709551616) = (ipc : Int) + v := by omega
          rw [this]
        by_cases hlt : v < 0
        · have h1 : v - 1 < 0 := by omega
          have h2 : ¬ (v - 1 = -1) := by omega
          simp only [h1, h2, hlt, if_true, if_false]
          by_cases hb : s.backJumps + 1 > c.limit
          · have hb' : t.negJumps + 1 > fc.negJumpMax := by
              by_cases hx : t.negJumps + 1 > fc.negJumpMax
              · exact hx
              · exact absurd ⟨hlt, by simp [hb, hx]⟩ hbud
            simp [hb, hb', errRel]
          · have hb' : ¬ t.negJumps + 1 > fc.negJumpMax := by
              intro hx; exact absurd ⟨hlt, by simp [hb, hx]⟩ hbud
            simp only [hb, hb', if_false]
            exact ⟨hwrap, by simp [hbj], trivial⟩
        · have h1 : ¬ (v - 1 < 0) := by omega
          simp only [h1, hlt, if_false]
          exact ⟨hwrap, hbj, trivial⟩
  · simp [hr] at hc


/-- outside the side condition: a zero offset with further cells below. skrifa fails with InvalidJump; FreeType does
NOT fail and stays on the jump instruction (it will take the next cell as the offset). -/
theorem jump_zero_offset_differs {D} (c : Interp.Cfg D) (fc : FtControl.Cfg D) (s : Interp.St D) (t : FtControl.St D)
    (rest : List Int) (argsIx : Nat) (hvs : s.vs = 0 :: rest) (hdeep : argsIx ≠ 0) (hcall : t.callStack = [])
    (hip : (t.ip : Int) < 9223372036854775808) :
    Interp.doJump c s true = .error .invalidJump ∧
    FtControl.insJmpr fc { t with stack := rest } 0 argsIx = .ok { t with stack := rest } := by
  constructor
  · unfold Interp.doJump Interp.pop; rw [hvs]; simp [wrapI32]
  · unfold FtControl.insJmpr FtControl.pastEnd
    have hw : wrapI64 (t.ip : Int) = (t.ip : Int) := wrapI64_id _ (by omega)
    have hnn : ¬ ((t.ip : Int) < 0) := by omega
    simp [hdeep, hcall, hw, hnn]

/-- a backward jump to a negative address: FreeType fails with Bad_Argument, skrifa's pc wraps around (the next decode
is past the end: the program ENDS WITH `Ok`). -/
theorem jump_negative_target_differs {D} (c : Interp.Cfg D) (fc : FtControl.Cfg D) (s : Interp.St D) (t : FtControl.St D)
    (v : Int) (rest : List Int) (argsIx : Nat) (hvs : s.vs = v :: rest)
    (hv : -2147483648 < v ∧ v < 0) (hneg : (t.ip : Int) + v < 0) (hip : (t.ip : Int) < 4294967296)
    (hbud : s.backJumps + 1 ≤ c.limit) :
    FtControl.insJmpr fc { t with stack := rest } v argsIx = .error .badArgument ∧
    ∃ s', Interp.doJump c s true = .ok s' := by
  constructor
  · unfold FtControl.insJmpr
    have hw : wrapI64 ((t.ip : Int) + v) = (t.ip : Int) + v := wrapI64_id _ (by omega)
    have h0 : ¬ (v = 0 ∧ argsIx = 0) := by omega
    simp only [h0, if_false, hw, hneg, true_or, if_true]
  · unfold Interp.doJump Interp.pop; rw [hvs]
    have hoff : wrapI32 (v - 1) = v - 1 := wrapI32_id _ (by omega)
    have h1 : v - 1 < 0 := by omega
    have h2 : ¬ (v - 1 = -1) := by omega
    have h3 : ¬ (s.backJumps + 1 > c.limit) := by omega
    simp only [hoff, h1, h2, h3, if_true, if_false]
    exact ⟨_, rfl⟩

/-! ## stack underflow of the two-argument control opcodes (JROT, JROF, LOOPCALL) in non-pedantic mode -/

/-- the two cells skrifa's successive `pop`s see (top first) and what is left -/
def skPop2 (vs : List Int) : Int × Int × List Int :=
  match Interp.pop false vs with
  | .ok (a, r1) =>
    match Interp.pop false r1 with
    | .ok (b, r2) => (a, b, r2)
    | .error _ => (a, 0, [])
  | .error _ => (0, 0, [])

/-- the two cells FreeType's handler sees after `prepArgs` -/
def ftPop2 (vs : List Int) : Int × Int × List Int :=
  match FtControl.prepArgs false 2 vs with
  | .ok st =>
    let (a, r1) := FtControl.pop1 st
    let (b, r2) := FtControl.pop1 r1
    (a, b, r2)
  | .error _ => (0, 0, [])

theorem two_pop_underflow_differs_only_when (vs : List Int) :
    skPop2 vs = ftPop2 vs ↔ (2 ≤ vs.length ∨ ∀ v ∈ vs, v = 0) := by
  match vs with
  | [] => simp [skPop2, ftPop2, Interp.pop, FtControl.prepArgs, FtControl.pop1]
  | [a] =>
    simp [skPop2, ftPop2, Interp.pop, FtControl.prepArgs, FtControl.pop1]
  | a :: b :: rest =>
    have h : ¬ (rest.length + 1 + 1 < 2) := by omega
    simp [skPop2, ftPop2, Interp.pop, FtControl.prepArgs, FtControl.pop1, h]

/-- in pedantic mode both fail -/
theorem two_pop_underflow_pedantic (vs : List Int) (h : vs.length < 2) :
    FtControl.prepArgs true 2 vs = .error .tooFewArguments ∧
    (match Interp.pop true vs with
     | .error e => e = .vsUnderflow
     | .ok (_, r) => Interp.pop true r = .error .vsUnderflow) := by
  match vs with
  | [] => simp [FtControl.prepArgs, Interp.pop]
  | [a] => simp [FtControl.prepArgs, Interp.pop]
  | a :: b :: rest => simp at h; omega

/-! ## budgets, capacities, sequencing -/

/-- the loop / backward-jump budget: FreeType 2.12.1's formula differs from skrifa's exactly when the
`100 × numGlyphs` clamp bites (known finding C03-loop-budget-glyph-count-clamp). `n` = points of the glyph zone
(0 for fpgm / prep). -/
theorem budget_differs_only_when (n cvt glyphs : Nat) :
    FtControl.loopMax n cvt glyphs ≠ HintControl.skLimit (if n ≠ 0 then some n else none) cvt ↔
      100 * glyphs < HintControl.skLimit (if n ≠ 0 then some n else none) cvt := by
  unfold FtControl.loopMax HintControl.skLimit
  by_cases h : n = 0
  · subst h; simp only [ne_eq, not_true_eq_false, if_false]; split <;> omega
  · simp only [ne_eq, h, not_false_eq_true, if_true]
    have e : max 50 (10 * n) + max 50 (cvt / 10) = max (n * 10) 50 + max (cvt / 10) 50 := by omega
    rw [e]; split <;> omega

/-- … and when it differs FreeType's is the smaller one -/
theorem budget_ft_le (n cvt glyphs : Nat) :
    FtControl.loopMax n cvt glyphs ≤ HintControl.skLimit (if n ≠ 0 then some n else none) cvt := by
  unfold FtControl.loopMax HintControl.skLimit
  by_cases h : n = 0
  · subst h; simp only [ne_eq, not_true_eq_false, if_false]; split <;> omega
  · simp only [ne_eq, h, not_false_eq_true, if_true]
    have e : max 50 (10 * n) + max 50 (cvt / 10) = max (n * 10) 50 + max (cvt / 10) 50 := by omega
    rw [e]; split <;> omega

/-- function table capacity: since fix 1409846 skrifa sizes the table like FreeType (`max(maxp.maxFunctionDefs, 64)`) -/
theorem def_capacity_eq (n : Nat) : Interp.functionSlots n = FtControl.maxFDefsOf n := by
  unfold FtControl.maxFDefsOf Interp.functionSlots Interp.MIN_FUNCTION_DEFS; split <;> omega

/-- … the `maxp` value itself is the capacity exactly from 64 on -/
theorem def_capacity_differs_only_when (n : Nat) : FtControl.maxFDefsOf n ≠ n ↔ n < 64 := by
  unfold FtControl.maxFDefsOf; split <;> omega

/-- the stack `prep` starts with: `[]` on both sides since fix 83e5236 (`Engine::reset` clears the value stack;
FreeType `exec->top = 0`) -/
theorem prep_initial_stack_eq (fpgmFinal : List Int) : HintControl.prepStack fpgmFinal = [] := rfl

/-- call stack: both refuse the 33rd nested call -/
theorem call_depth_limit_eq {D} (c : Interp.Cfg D) (fc : FtControl.Cfg D) (s : Interp.St D) (t : FtControl.St D)
    (d : Interp.Def) (i : Nat) (fd : FtControl.DefRec) (n : Nat) (v : Int)
    (hlen : s.calls.length = t.callStack.length) (hsz : fc.callSize = 32)
    (hl : FtControl.lookupFunc t v = some (i, fd)) :
    (Interp.enter s d n = .error .csOverflow ↔ 32 ≤ s.calls.length) ∧
    (32 ≤ t.callStack.length → FtControl.insCall fc t v = .error .stackOverflow) := by
  constructor
  · unfold Interp.enter Interp.MAX_DEPTH; split <;> simp <;> omega
  · intro h; unfold FtControl.insCall; simp [hl, hsz, h]

/-- the instruction cap is the same number -/
theorem instruction_cap_eq : Interp.MAX_RUN_INSTRUCTIONS = FtControl.MAX_RUNNABLE_OPCODES := rfl

/-! ## end of code -/

/-- at the end of the code skrifa returns Ok whatever the call stack; FreeType returns Ok only at top level and
`Code_Overflow` inside a call (side condition `end-of-code-inside-call`). -/
theorem eof_sim {D} (c : Interp.Cfg D) (fc : FtControl.Cfg D) (s : Interp.St D) (t : FtControl.St D)
    (hs : s.status = .running) (ht : t.status = .running)
    (hcode : c.code s.current = fc.code t.curRange) (hpc : s.pc = t.ip) (heof : (c.code s.current).size ≤ s.pc) :
    (Interp.step c s).status = .done ∧
    (FtControl.step fc t).status = (if t.callStack = [] then .done else .failed .codeOverflow) := by
  constructor
  · unfold Interp.step Interp.decode
    have : (c.code s.current)[s.pc]? = none := by simp [heof]
    simp [hs, this]
  · unfold FtControl.step
    have h2 : t.ip ≥ (fc.code t.curRange).size := by rw [← hcode, ← hpc]; exact heof
    simp only [ht, h2, if_true]
    cases hcs : t.callStack with
    | nil => simp
    | cons r rs => simp

/-! ## dispatch sequence -/

/-- what skrifa's `Engine::run` decodes next -/
def skFetch {D} (c : Interp.Cfg D) (s : Interp.St D) : Option (Nat × Nat) :=
  match s.status with
  | .running =>
    match Interp.decode (c.code s.current) s.pc with
    | .ins op _ ipc _ => some (ipc, op)
    | _ => none
  | _ => none

/-- FULL statement aimed at (`control_simulation`): for all configurations with the same bytecode, capacities and
pedantic flag and data semantics that agree (`sideCond`'s data clause), for related initial states (`R`: same pc,
program, stacks, data, counters, frame-wise related call stacks, definition tables with equal lookups) and every `n`:
if `sideCond` is `none` at each of the first `n` state pairs, then the two machines fetch the same `n` (pc, opcode)
pairs and end related (same outcome class through `errRel`).
PROVED below: the fetch component for one related pair (`control_simulation_partial`); the per-opcode components are the
theorems above (`scan_*_eq` for IF / ELSE / FDEF / IDEF scans, `jump_sim` for JMPR / JROT / JROF, `call_depth_limit_eq`,
`eof_sim`, the `*_differs*` theorems for the complement of the side conditions).
MISSING: the assembly into one inductive invariant — in particular the preservation of "equal lookups" by
`DefinitionMap::allocate` versus FreeType's append-or-overwrite table, and the frame relation through CALL / ENDF.
That part is covered by the lock-step execution of the two models (`cmp.ctl`) against both real interpreters only. -/
theorem control_simulation_partial {D} (c : Interp.Cfg D) (fc : FtControl.Cfg D) (s : Interp.St D) (t : FtControl.St D)
    (hst : (s.status = .running ↔ t.status = .running))
    (hcode : c.code s.current = fc.code t.curRange) (hpc : s.pc = t.ip) :
    skFetch c s = FtControl.fetch fc t := by
  unfold skFetch FtControl.fetch
  cases hs : s.status with
  | running =>
    have ht : t.status = .running := hst.mp hs
    simp only [ht]
    rw [← hcode, ← hpc]
    rcases fetch_cases (c.code s.current) s.pc with ⟨h1 | h1, h2⟩ | ⟨op, bytes, len, h1, h2⟩
    · rw [h1, h2]; simp
    · rw [h1, h2]; simp
    · rw [h1, h2]
      have hlt : ¬ s.pc ≥ (c.code s.current).size := by
        intro hge
        have := fetch_eq (c.code s.current) s.pc
        rw [h1] at this
        unfold FtControl.insLength at h2
        have : (c.code s.current)[s.pc]? = none := by simp [hge]
        rw [this] at h2; cases h2
      simp [hlt]
  | done =>
    have ht : t.status ≠ .running := fun h => by rw [hst.mpr h] at hs; cases hs
    cases h : t.status <;> simp_all
  | failed e =>
    have ht : t.status ≠ .running := fun h => by rw [hst.mpr h] at hs; cases hs
    cases h : t.status <;> simp_all
  | stuck =>
    have ht : t.status ≠ .running := fun h => by rw [hst.mpr h] at hs; cases hs
    cases h : t.status <;> simp_all


/-! ## non-vacuity / witnesses -/

example : skPop2 [1] ≠ ftPop2 [1] := by decide
example : skPop2 [0] = ftPop2 [0] := by decide
example : FtControl.loopMax 0 40 2 = 200 ∧ HintControl.skLimit none 40 = 1180 := by decide
example : FtControl.loopMax 9 0 2 = 140 ∧ HintControl.skLimit (some 9) 0 = 140 := by decide
example : FtControl.maxFDefsOf 4 = 64 ∧ FtControl.maxFDefsOf 100 = 100 := by decide
-- IF(false) … nested IF … EIF, ELSE taken at depth 1
example : (match FtControl.scanIf #[0x58, 0x58, 0x59, 0x1B, 0xB0, 7, 0x59] 8 1 1 with | some (.ok 4) => true | _ => false) = true := by decide
example : (match Interp.scanIf #[0x58, 0x58, 0x59, 0x1B, 0xB0, 7, 0x59] 8 1 1 with | some (.ok 4) => true | _ => false) = true := by decide
-- a truncated push inside the skipped branch
example : (match FtControl.scanIf #[0x58, 0xB8, 1] 4 1 1 with | some (.error .codeOverflow) => true | _ => false) = true := by decide
example : (match Interp.scanIf #[0x58, 0xB8, 1] 4 1 1 with | some (.error .unexpectedEnd) => true | _ => false) = true := by decide
example : (match FtControl.scanDef #[0x2C, 0x18, 0x2C] 4 1 with | some (.error .nestedDefs) => true | _ => false) = true := by decide
-- NPUSHB with a count running past the end
example : FtControl.insLength #[0x40, 3, 1, 2] 0 = none ∧ Interp.decode #[0x40, 3, 1, 2] 0 = .bad := by decide

def demoSk : Interp.Cfg FtControl.Dat :=
  { font := #[], cv := #[], glyph := #[0xB1, 5, 0, 0x1C, 0xB1, 0, 11, 0x48, 0xB1, 1, 22, 0x48], limit := 100, pedantic := false,
    sem := HintControl.semSubset }
def demoFt : FtControl.Cfg FtControl.Dat :=
  { font := #[], cvt := #[], glyph := demoSk.glyph, stackSize := 40, maxFDefs := 64, maxIDefs := 0, loopcallMax := 100,
    negJumpMax := 100, pedantic := false, sem := FtControl.semSubset }
def demoDat : FtControl.Dat := { xs := [100, 142, 184], store := [], stackSize := 40, pedantic := false }

-- the recorded finding C03-ctl-jump-zero-offset on the two models: skrifa stops with InvalidJump, FreeType moves point 1 only
example : (Interp.iter demoSk 4 (Interp.initSt 2 [] [] [] demoDat)).status = .failed .invalidJump := by decide +kernel
example : (FtControl.iter demoFt 8 (FtControl.initSt 3 [] [] 0 0 [] demoDat)).status = .done := by decide +kernel
example : (FtControl.iter demoFt 8 (FtControl.initSt 3 [] [] 0 0 [] demoDat)).data.xs = [100, 22, 184] := by decide +kernel
-- … and the side condition names it at the second step
example : sideCond demoSk demoFt (Interp.iter demoSk 1 (Interp.initSt 2 [] [] [] demoDat))
    (FtControl.iter demoFt 1 (FtControl.initSt 3 [] [] 0 0 [] demoDat)) = some "jump:zero-offset-with-deeper-stack" := by
  decide +kernel
-- hypotheses of `jump_sim` are satisfiable: a backward jump by 2 from pc 4 with budget left
example : jumpCond demoSk demoFt { Interp.initSt 2 [] [] [-2] demoDat with pc := 5 }
    { FtControl.initSt 3 [] [] 0 0 [] demoDat with ip := 4 } (-2) 4 false = none := by decide +kernel

end FontVerif.C03Control
