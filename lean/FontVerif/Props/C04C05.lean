/-
C04 ⇄ C05 — the bridge: `TableWriter` / `ObjectStore` build, from a `FontWrite` value, exactly the object graph whose
unfolding is that value; hence (C05) the compiled bytes read back, following every offset, as the value that was written.

Model: Model/TableWriter.lean ⇄ write-fonts/src/write.rs (TableWriter, TableData, add_offset, adjust_offsets,
dump_table), write-fonts/src/offsets.rs (OffsetMarker / NullableOffsetMarker), write-fonts/src/graph.rs (ObjectStore::add,
Graph::from_obj_store).  Vocabulary: `Fields` / `Table` (the value tree: the calls of a `write_into`), `Table.tree`
(what a reader is meant to see), `readTable` (the reader guided by the value's shape only) in
Lemmas/TableWriterDefs.lean; `Inv`, `RepLinks`, `RepTable`, `Fields.Ok` in Lemmas/TableWriter*.lean; `unfold`, `readBack`,
`ObjWF`, `Tree` are C05's (Lemmas/GraphSer.lean).
-/
import FontVerif.Lemmas.TableWriter4
import FontVerif.Lemmas.TableWriter5
import FontVerif.Lemmas.FieldNested3
import FontVerif.Props.C05
import FontVerif.Props.C04
set_option linter.unusedVariables false
namespace FontVerif.C04C05
open FontVerif FontVerif.Graph FontVerif.TableWriter

/-! ### (1) content deduplication is sound and complete -/

/-- **`ObjectStore::add` shares an id exactly with equal content.**  In every store the writer can reach (`Inv`), adding
an object returns the id of an object `e` already in the store if and only if `e` has the same bytes and the same offset
records (position, width, target id, adjustment — the `type_` tag is not part of the key).  So sharing never merges
different content (⇒), and equal content is always shared (⇐). -/
theorem store_add_dedup_sound (ids : Nat → Nat) (hinj : Function.Injective ids) (w : Writer) (hinv : Inv ids w)
    (d : TData) (hd : CurOK ids d w) (e : TData × Nat) (he : e ∈ w.tables) :
    (w.add ids d).1 = e.2 ↔ (e.1.bytes = d.bytes ∧ e.1.offsets = d.offsets) := by
  constructor
  · intro h
    cases hf : w.tables.find? d with
    | some id =>
      rw [add_found ids w d id hf] at h
      obtain ⟨d', hm, hb, ho⟩ := find?_some w.tables d id hf
      simp only [] at h
      rw [h] at hm
      have := entry_unique w.tables hinv.nodup d' e.1 e.2 hm he
      rw [← this]
      exact ⟨hb, ho⟩
    | none =>
      rw [add_new ids w d hf] at h
      simp only [] at h
      obtain ⟨j, hj, hid⟩ := hinv.drawn e he
      rw [hid] at h
      have := hinj h
      omega
  · intro h
    have hs : e.1.same d = true := by simp [TData.same, h.1, h.2]
    cases hf : w.tables.find? d with
    | none => exact absurd hf (find?_isSome_of_mem w.tables d e he hs)
    | some id =>
      rw [add_found ids w d id hf]
      obtain ⟨d', hm, hb, ho⟩ := find?_some w.tables d id hf
      have hs' : (d', id).1.same e.1 = true := by simp [TData.same, hb, ho, h.1, h.2]
      have := content_unique w.tables hinv.distinct (d', id) e hm he hs'
      rw [← this]

/-- non-vacuity: the second of two equal leaves gets the first one's id, a different leaf a new one -/
example :
    let w1 := (Writer.init 0).add (fun k => k + 10) ⟨.other, [1, 2], []⟩
    let w2 := w1.2.add (fun k => k + 10) ⟨.gpos 1, [1, 2], []⟩
    let w3 := w2.2.add (fun k => k + 10) ⟨.other, [1, 3], []⟩
    (w1.1, w2.1, w3.1, w3.2.tables.length) = (10, 10, 11, 2) := by decide

/-- **Sharing at the level of values**: if one stored object represents two tables (written under whatever adjustments),
the two tables are the same tree for a reader — same bytes outside offset slots, same children, to every depth. -/
theorem shared_id_same_value (ids : Nat → Nat) (w : Writer) (hinv : Inv ids w) (id : Nat) (fs1 fs2 : Fields) (a1 a2 : Nat)
    (h1 : RepTable w.tables id fs1 a1) (h2 : RepTable w.tables id fs2 a2) : fs1.tree a1 = fs2.tree a2 := by
  have hg := fun d id h => graph_obj ids w hinv 0 d id h
  rw [← unfold_table w.tables _ hg id fs1 a1 (depth fs1 + depth fs2 + 1) h1 (by omega),
    ← unfold_table w.tables _ hg id fs2 a2 (depth fs1 + depth fs2 + 1) h2 (by omega)]

/-! ### (2) the graph the writer builds -/

/-- **Unfolding the writer's graph from its root gives back the value tree** — for every value tree (any nesting, any
repetition of equal subtrees, empty tables, null and non-null offsets of any width ≥ 2, `adjust_offsets` blocks, padding),
from ANY reachable prior state of the writer (so: whatever was written — and is shared — before).  C05's `unfold` of the
graph `Graph::from_obj_store` makes of the store, from the id `add_table` returned, is `t.tree` (bytes with the offset
slots blanked, null slots as the zero bytes they are, and recursively the children behind the non-null slots, in slot
order) at every depth beyond the tree's. -/
theorem writer_graph_unfolds_to_value_from (ids : Nat → Nat) (hinj : Function.Injective ids) (w : Writer)
    (hinv : Inv ids w) (t : Table) (hok : t.Ok) (fuel : Nat) (hf : depth t.fields < fuel) :
    unfold (Graph.fromObjects (addTable ids t w).2.tables.objects (addTable ids t w).1) fuel (addTable ids t w).1
      = t.fields.tree w.adj := by
  obtain ⟨hinv', _, _, hrep⟩ := addTable_spec ids hinj w hinv t hok
  exact unfold_table _ _ (fun d id h => graph_obj ids _ hinv' _ d id h) _ _ _ _ hrep hf

/-- `TableWriter::make_graph` (fresh writer) -/
theorem writer_graph_unfolds_to_value (ids : Nat → Nat) (hinj : Function.Injective ids) (t : Table) (hok : t.Ok)
    (fuel : Nat) (hf : depth t.fields < fuel) :
    unfold (makeGraph ids t) fuel (makeGraph ids t).root = t.tree :=
  writer_graph_unfolds_to_value_from ids hinj (Writer.init 0) (inv_init ids 0) t hok fuel hf

/-- non-vacuity: root `[7] link16→A link16→A null16` with `A = [1,2] link32→[9]`: the two equal children are ONE object
(3 objects in all), and the unfolding shows the child twice -/
example :
    (makeGraph id ⟨.other, .bytes [7] (.link 2 .other (.bytes [1, 2] (.link 4 .other (.bytes [9] .nil) .nil))
      (.link 2 .other (.bytes [1, 2] (.link 4 .other (.bytes [9] .nil) .nil)) (.null 2 .nil)))⟩).objects
      = [(0, ⟨1, [9], []⟩), (1, ⟨6, [1, 2, 255, 255, 255, 255], [⟨2, 4, 0, 0⟩]⟩),
         (2, ⟨7, [7, 255, 255, 255, 255, 0, 0], [⟨1, 2, 1, 0⟩, ⟨3, 2, 1, 0⟩]⟩)] := by decide +kernel

example :
    unfold (makeGraph id ⟨.other, .bytes [7] (.link 2 .other (.bytes [1, 2] (.link 4 .other (.bytes [9] .nil) .nil))
      (.link 2 .other (.bytes [1, 2] (.link 4 .other (.bytes [9] .nil) .nil)) (.null 2 .nil)))⟩) 3 2
      = Tree.node [7, 0, 0, 0, 0, 0, 0] [Tree.node [1, 2, 0, 0, 0, 0] [Tree.node [9] []],
          Tree.node [1, 2, 0, 0, 0, 0] [Tree.node [9] []]] := by rfl

/-- **Every graph the writer builds satisfies C05's input assumptions** (`ObjWF` etc., now proved):
* every object is as `TableData` builds it — offset widths 2/3/4, every offset field inside the object's bytes, the
  fields of one object pairwise disjoint (`ObjWF`);
* object ids are distinct; every offset targets an object of the graph; the graph is acyclic (a rank strictly increases
  along every offset);
* the root is an object. -/
theorem writer_graph_wellformed (ids : Nat → Nat) (hinj : Function.Injective ids) (w : Writer) (hinv : Inv ids w)
    (t : Table) (hok : t.Ok) :
    let s := (addTable ids t w).2.tables
    let root := (addTable ids t w).1
    (∀ id o, (Graph.fromObjects s.objects root).objects.find? id = some o → ObjWF o) ∧
    s.objects.keys.Nodup ∧
    (∀ kv ∈ s.objects, ∀ l ∈ kv.2.links, l.target ∈ s.objects.keys) ∧
    (∃ rank : Nat → Nat, ∀ kv ∈ s.objects, ∀ l ∈ kv.2.links, rank kv.1 < rank l.target) ∧
    root ∈ s.objects.keys := by
  obtain ⟨hinv', _, _, d, hm, _, _⟩ := addTable_spec ids hinj w hinv t hok
  exact ⟨graph_objWF ids _ hinv' _, objects_keys_nodup _, graph_closed ids _ hinv', graph_acyclic ids hinj _ hinv',
    Map.find?_some_mem_keys _ _ _ (objects_find _ hinv'.nodup d _ hm)⟩

/-- **The packer's sorts never hit their cycle panic on a graph the writer built.**  The graph `TableWriter::make_graph`
builds for ANY value tree has distinct ids, is closed under its offsets, acyclic, and every object is reachable from the
root (nothing is written that is not a descendant of the root) — the hypotheses of C05's `sorts_return_on_acyclic`, all
proved here — so `sort_kahn` and `sort_shortest_distance` return on it (no "cycle or something?" panic, loops within
their budgets). -/
theorem writer_graph_sorts_return (ids : Nat → Nat) (hinj : Function.Injective ids) (t : Table) (hok : t.Ok) :
    (∀ k ∈ (makeGraph ids t).objects.keys, Reach (makeGraph ids t) (makeGraph ids t).root k) ∧
    (∃ g', sortKahn (makeGraph ids t) = some g') ∧ (∃ g', sortShortest (makeGraph ids t) = some g') := by
  obtain ⟨hinv, _, _, _⟩ := addTable_spec ids hinj (Writer.init 0) (inv_init ids 0) t hok
  have hreach : ∀ k ∈ (addTable ids t (Writer.init 0)).2.tables.objects.keys,
      Reach (Graph.fromObjects (addTable ids t (Writer.init 0)).2.tables.objects (addTable ids t (Writer.init 0)).1)
        (addTable ids t (Writer.init 0)).1 k := by
    intro k hk
    obtain ⟨kv, hkv, rfl⟩ := List.mem_map.mp hk
    obtain ⟨d, hd, _⟩ := objects_mem _ kv hkv
    exact reach_of_sreach ids _ hinv _ (addTable_reach ids hinj 0 t hok (d, kv.1) hd)
  exact ⟨hreach, C05.sorts_return_on_acyclic _ _ (objects_keys_nodup _) (graph_closed ids _ hinv) hreach
    (graph_acyclic ids hinj _ hinv)⟩

/-- non-vacuity of `Table.Ok` (and of everything that assumes it) -/
example : (⟨.other, .bytes [7] (.link 2 .other (.bytes [1, 2] (.link 4 .other (.bytes [9] .nil) .nil)) (.null 2 .nil))⟩ :
    Table).Ok := by
  simp [Table.Ok, Fields.Ok, TableWriter.flat, U32]

/-! ### (3) composition with C05: the compiled bytes read back as the value -/

/-- **A compiled table reads back, through every offset, as the table that was written.**  If `dump_table`'s pipeline
(`TableWriter::make_graph`, `pack_objects`, `serialize` only on success) returns bytes `out` for the value tree `t`, then
the reader that is guided only by the SHAPE of `t` — field lengths, where the offset slots are, their widths and
adjustments — and that, for every non-null slot of a table starting at `hd`, takes the big-endian number `v` stored in
the slot, goes to `hd + adjustment + v` and reads the child there recursively, sees exactly `t`: every byte outside the
non-null slots as written (null slots read 0), and behind every non-null slot the child that was written, to every
depth.  (So the stored value of a slot is `position(child) − (position(parent) + adjustment)`.)  For EVERY value tree,
whatever sharing the store found and whatever reordering / duplication the packer did.  `fresh`: the ids the packer may
draw, distinct from each other and from the writer's. -/
theorem compile_reads_back_nested (ids : Nat → Nat) (hinj : Function.Injective ids) (t : Table) (hok : t.Ok)
    (fresh : List Nat) (hnd : fresh.Nodup) (hfr : ∀ j, ids j ∉ fresh) (out : List Nat)
    (h : dumpTable ids t fresh = some (some out)) :
    readTable out 0 t = t.tree := by
  by_cases hl : topLinks t.fields = 0
  · rw [dump_leaf ids t fresh hl] at h
    simp only [Option.some.injEq] at h
    subst h
    unfold readTable readFields Table.tree Fields.tree
    rw [(kids_nolinks _ t.fields 0 0 0 hl).1, (kids_nolinks (flat t.fields 0) t.fields 0 0 0 hl).2]
    simp
  · obtain ⟨hinv, _, ⟨j, _, hj⟩, hrep⟩ := addTable_spec ids hinj (Writer.init 0) (inv_init ids 0) t hok
    have hrep' := hrep
    obtain ⟨d, hm, hb, hc⟩ := hrep'
    have hlen := repLinks_length _ _ _ _ _ hc
    obtain ⟨l, hlm⟩ : ∃ l, l ∈ d.offsets := by
      cases hd : d.offsets with
      | nil => rw [hd] at hlen; simp at hlen; omega
      | cons l _ => exact ⟨l, List.mem_cons_self⟩
    have hn := graph_two_nodes ids hinj _ hinv (addTable ids t (Writer.init 0)).1 d _ hm l hlm
    have hfresh := graph_freshFor ids _ hinv (addTable ids t (Writer.init 0)).1 fresh hnd hfr (by rw [hj]; exact hfr j)
    have hwf := graph_objWF ids _ hinv (addTable ids t (Writer.init 0)).1
    have hg := fun d id h => graph_obj ids _ hinv (addTable ids t (Writer.init 0)).1 d id h
    have hend := (C05.dump_end_to_end (makeGraph ids t) fresh out hn hfresh.1 hfresh.2.1 hfresh.2.2 hwf h).1
      (depth t.fields + 1)
    have h1 := readBack_table out _ _ hg _ t.fields 0 (depth t.fields + 1) 0 hrep (by omega)
    have h2 := unfold_table _ _ hg _ t.fields 0 (depth t.fields + 1) hrep (by omega)
    unfold readTable Table.tree
    rw [← h1, ← h2]
    exact hend

/-- non-vacuity: the example tree compiles (the shared child `A` is written once, at 7; its leaf at 13) -/
example :
    dumpTable id ⟨.other, .bytes [7] (.link 2 .other (.bytes [1, 2] (.link 4 .other (.bytes [9] .nil) .nil))
      (.link 2 .other (.bytes [1, 2] (.link 4 .other (.bytes [9] .nil) .nil)) (.null 2 .nil)))⟩ []
      = some (some [7, 0, 7, 0, 7, 0, 0, 1, 2, 0, 0, 0, 6, 9]) := by decide +kernel

/-- non-vacuity: an `adjust_offsets(4, …)` block: the stored offset is relative to byte 4 of the parent -/
example :
    dumpTable id ⟨.other, .bytes [7, 7, 7, 7] (.adjust 4 (.link 2 .other (.bytes [9] .nil) .nil) .nil)⟩ []
      = some (some [7, 7, 7, 7, 0, 2, 9]) := by decide +kernel

/-- **failure returns no bytes** (restating C05 for the composed pipeline): if packing fails, `dump_table` yields the
error and the theorem above has nothing to say -/
theorem compile_fail_no_bytes (ids : Nat → Nat) (t : Table) (fresh fresh' : List Nat) (g' : Graph)
    (h : packObjects (makeGraph ids t) fresh = some (false, g', fresh')) : dumpTable ids t fresh = some none :=
  C05.dump_fail_no_bytes _ g' fresh fresh' h

/-- **The positional form**: where the nested reader goes, the output holds the tables themselves.  If `dump_table`'s
pipeline returns `out` for `t`, then `out` holds at offset 0 a byte-for-byte copy of the root table outside its non-null
offset slots (the whole table lies inside `out`), every non-null slot holds the big-endian encoding, in its width, of a
value `v` that fits the width, and at `position(parent) + adjustment + v` the same is true of the child, recursively
(`TableAt` / `ReadsAs`, Lemmas/TableWriter4.lean). -/
theorem compile_places_nested (ids : Nat → Nat) (hinj : Function.Injective ids) (t : Table) (hok : t.Ok)
    (fresh : List Nat) (hnd : fresh.Nodup) (hfr : ∀ j, ids j ∉ fresh) (out : List Nat)
    (h : dumpTable ids t fresh = some (some out)) : TableAt out 0 t.fields 0 :=
  dumpTable_tableAt ids hinj t hok fresh hnd hfr out h

/-! ### (4) the field DSL of C04 with real offsets -/

section dsl
open FontVerif.Field FontVerif.FieldNested

/-- **`read_write` lifted to nested tables.**  Take a generated (writer program `ws`, reader layout `rs`) pair of C04
(`compatU as ws rs`), declare which of its scalar `.field` statements are offsets (`slots`, checked against the program
by `slotOK`), and a value of it: the scalars / arrays `o` and, for every offset field, the child subtable or null
(`kids`).  `emitN` is its `write_into` on the `TableWriter` — offset statements call `write_offset` / write a null — and
`fs` the resulting value tree.  Wherever the compiled output `out` holds that table (`TableAt out hd fs 0` — at 0 for the
root by `compile_places_nested`, and at the position this very theorem gives for a child), the generated reader run on
`out` at `hd` (`FontRead::read(data.split_off(hd))`)
* returns for every field that is not an offset exactly what was written (`AgreeOff`: scalars, constants, counts,
  arrays, version-gated fields present exactly when the written version says so) and consumes exactly the table's bytes;
* for every offset field that is present: a null child reads 0; for a non-null child `c`, `resolve` — the child's data
  starts at `hd` + the offset read — lands on the child table: `TableAt out (hd + offset) c 0`, so the child's own reader
  (this theorem again, if it is a DSL table) reads the child that was written.
Proved from `read_write_args` (C04) applied to the owned value whose offset scalars are the offsets the packer stored
(`patchObj`), and the positional read-back of C05 + the writer bridge.  Hypotheses: the hand-written `compute_*` fields do
not depend on offset VALUES (`hext`); the pair's named count/length assumptions hold for the value whatever its offset
scalars are (`hassume`; vacuous for the 203 unconditional pairs); the table is below 4 GiB.

PARTIAL in this: `Slots` declares offset fields that are SCALAR statements (`self.f.write_into(writer)` of an
`OffsetMarker` / `NullableOffsetMarker` field).  The full statement `nested_read_write` also lets an element `(i, c)` of
an array field be an offset (`Vec<OffsetMarker<T>>`, records with offset columns: LookupList, ScriptList, Coverage-offset
arrays …): `kids : field id → row → column → Option child`, `emitN` emits `null` / `link` for those cells inside the
array's bytes, and the conclusion gives `TableAt out (hd + offset) c 0` for every non-null cell.  Missing for it: the
cell-wise analogue of `emitAt_emit` through `emitRecs` / `emitRecsV`.  For such tables the offsets stay scalars-in-arrays
as in Props/C04.lean, and what is proved about them is the tree-level `compile_reads_back_nested` / `compile_places_nested`
(which hold for every value tree, arrays of offsets included). -/
theorem nested_read_write_partial (ext : Ext) (as : List Assume) (ws : List WF) (rs : List RF) (o : Field.Obj)
    (slots : Slots) (kids : Kids) (args : View) (out : List Nat) (hd : Nat) (fs : Fields) (vN : View)
    (hc : compatU as ws rs = true) (hs : slotOK slots ws = true)
    (he : emitN ext o slots kids ws args = some (fs, vN))
    (hext : ∀ O' : Field.Obj, (∀ f, slotW slots f = none → O'.get f = o.get f) → ∀ k, ext k O' = ext k o)
    (hassume : ∀ (O' : Field.Obj) (view' : View), (∀ f, slotW slots f = none → O'.get f = o.get f) →
      AgreeOff slots vN view' → ∀ x ∈ as, x.holds O' view')
    (hat : TableAt out hd fs 0) (hsmall : lenN fs < U32)
    (hr : usesRest rs = true → hd + lenN fs = out.length) :
    ∃ view', parse rs args (out.drop hd) = some (view', out.drop (hd + lenN fs)) ∧ AgreeOff slots vN view' ∧
      KidsAt slots kids out hd ws view' := by
  have hwf := C04.compatAux_wfW as ws rs [] hc
  have hsimple := emitN_simple ext o slots kids ws args fs vN he hs
  obtain ⟨hseg, hin⟩ := segAgrees_of_tableAt out hd fs hsimple hsmall hat
  obtain ⟨vA, hrun, hag, hkids⟩ := emitN_emitAt ext o slots kids out hd ws [] args args 0 fs vN he hwf hs
    (AgreeOff.refl slots args) hseg hat.2 (by omega)
  simp only [List.drop_zero] at hrun
  have hO : ∀ f, slotW slots f = none → (patchObj slots o vA).get f = o.get f :=
    fun f hf => patch_get_nonslot slots o vA f hf
  have hemit := emitAt_emit ext o (patchObj slots o vA) slots (out.drop hd) hO (hext _ hO) ws [] args 0 _ vA hrun hwf hs
    (fun w _ hsl x hl => patch_get_slot slots o vA w.id x hsl hl)
  have hrw := C04.read_write_args ext as ws rs (patchObj slots o vA) args ((out.drop hd).take (lenN fs))
    ((out.drop hd).drop (lenN fs)) vA hc (hassume _ vA hO hag) hemit (by
      intro hu
      rw [List.drop_drop, List.drop_eq_nil_iff]
      have := hr hu
      omega)
  rw [List.take_append_drop, List.drop_drop] at hrw
  exact ⟨vA, hrw, hag, hkids⟩

/-- the root table of a compiled value: `nested_read_write_partial` at offset 0 of what `dump_table` returned -/
theorem nested_read_write_root_partial (ext : Ext) (as : List Assume) (ws : List WF) (rs : List RF) (o : Field.Obj)
    (slots : Slots) (kids : Kids) (args : View) (ty : TType) (fs : Fields) (vN : View)
    (ids : Nat → Nat) (hinj : Function.Injective ids) (fresh : List Nat) (hnd : fresh.Nodup) (hfr : ∀ j, ids j ∉ fresh)
    (out : List Nat)
    (hc : compatU as ws rs = true) (hs : slotOK slots ws = true)
    (he : emitN ext o slots kids ws args = some (fs, vN))
    (hext : ∀ O' : Field.Obj, (∀ f, slotW slots f = none → O'.get f = o.get f) → ∀ k, ext k O' = ext k o)
    (hassume : ∀ (O' : Field.Obj) (view' : View), (∀ f, slotW slots f = none → O'.get f = o.get f) →
      AgreeOff slots vN view' → ∀ x ∈ as, x.holds O' view')
    (hok : (⟨ty, fs⟩ : Table).Ok)
    (hr : usesRest rs = true → lenN fs = out.length)
    (h : dumpTable ids ⟨ty, fs⟩ fresh = some (some out)) :
    ∃ view', parse rs args out = some (view', out.drop (lenN fs)) ∧ AgreeOff slots vN view' ∧
      KidsAt slots kids out 0 ws view' := by
  have hat := compile_places_nested ids hinj ⟨ty, fs⟩ hok fresh hnd hfr out h
  have hsimple := emitN_simple ext o slots kids ws args fs vN he hs
  have hsmall : lenN fs < U32 := by
    have := hok.1
    simp only [] at this
    rw [flat_simple fs 0 hsimple] at this
    exact this
  have := nested_read_write_partial ext as ws rs o slots kids args out 0 fs vN hc hs he hext hassume hat hsmall
    (by intro hu; rw [Nat.zero_add]; exact hr hu)
  simpa using this

open FontVerif.Gen.WriteProgs in
/-- instance: the generated `Gdef` pair with all six offsets real -/
theorem gdef_nested_read_write (ext : Ext) (o : Field.Obj) (kids : Kids) (out : List Nat) (hd : Nat) (fs : Fields)
    (vN : View)
    (he : emitN ext o gdefSlots kids gdef_Gdef_w [] = some (fs, vN))
    (hext : ∀ O' : Field.Obj, (∀ f, slotW gdefSlots f = none → O'.get f = o.get f) → ∀ k, ext k O' = ext k o)
    (hat : TableAt out hd fs 0) (hsmall : lenN fs < U32) :
    ∃ view', parse gdef_Gdef_r [] (out.drop hd) = some (view', out.drop (hd + lenN fs)) ∧
      AgreeOff gdefSlots vN view' ∧ KidsAt gdefSlots kids out hd gdef_Gdef_w view' :=
  nested_read_write_partial ext [] _ _ o gdefSlots kids [] out hd fs vN gdef_Gdef_compat (by decide) he hext
    (fun _ _ _ _ x hx => by cases hx) hat hsmall (fun h => absurd h (by decide))

/-- non-vacuity: a GDEF 1.0 with a glyph class def `[0,1,0,5,0,0]` and a lig caret list `[0,2,0,0]`, the other two
offsets null; `compute_version` = 1.0.  The nested writer produces the value tree, the pipeline compiles it, and the
generated reader finds the children where the offsets say. -/
example :
    emitN (fun _ _ => 65536) [] gdefSlots
        (fun f => if f = 1 then some (.other, .bytes [0, 1, 0, 5, 0, 0] .nil)
                  else if f = 3 then some (.other, .bytes [0, 2, 0, 0] .nil) else none)
        FontVerif.Gen.WriteProgs.gdef_Gdef_w []
      = some (.bytes [0, 1, 0, 0] (.link 2 .other (.bytes [0, 1, 0, 5, 0, 0] .nil) (.null 2
          (.link 2 .other (.bytes [0, 2, 0, 0] .nil) (.null 2 .nil)))),
        [(6, .absent), (5, .absent), (4, .num 0), (3, .num 65535), (2, .num 0), (1, .num 65535), (0, .num 65536)]) ∧
    dumpTable id ⟨.other, .bytes [0, 1, 0, 0] (.link 2 .other (.bytes [0, 1, 0, 5, 0, 0] .nil) (.null 2
          (.link 2 .other (.bytes [0, 2, 0, 0] .nil) (.null 2 .nil))))⟩ []
      = some (some [0, 1, 0, 0, 0, 12, 0, 0, 0, 18, 0, 0, 0, 1, 0, 5, 0, 0, 0, 2, 0, 0]) ∧
    parse FontVerif.Gen.WriteProgs.gdef_Gdef_r [] [0, 1, 0, 0, 0, 12, 0, 0, 0, 18, 0, 0, 0, 1, 0, 5, 0, 0, 0, 2, 0, 0]
      = some ([(6, .absent), (5, .absent), (4, .num 0), (3, .num 18), (2, .num 0), (1, .num 12), (0, .num 65536)],
          [0, 1, 0, 5, 0, 0, 0, 2, 0, 0]) := by
  refine ⟨by decide +kernel, by decide +kernel, by decide +kernel⟩

/-- non-vacuity of the theorem itself: every hypothesis of `nested_read_write_root_partial` holds for that GDEF, so the theorem
yields the read-back (here only its shape is kept) -/
example :
    ∃ view', parse FontVerif.Gen.WriteProgs.gdef_Gdef_r []
        [0, 1, 0, 0, 0, 12, 0, 0, 0, 18, 0, 0, 0, 1, 0, 5, 0, 0, 0, 2, 0, 0] = some (view',
          List.drop 12 [0, 1, 0, 0, 0, 12, 0, 0, 0, 18, 0, 0, 0, 1, 0, 5, 0, 0, 0, 2, 0, 0]) := by
  obtain ⟨view', h, _, _⟩ := nested_read_write_root_partial (fun _ _ => 65536) [] FontVerif.Gen.WriteProgs.gdef_Gdef_w
    FontVerif.Gen.WriteProgs.gdef_Gdef_r [] gdefSlots
    (fun f => if f = 1 then some (.other, .bytes [0, 1, 0, 5, 0, 0] .nil)
              else if f = 3 then some (.other, .bytes [0, 2, 0, 0] .nil) else none)
    [] .other
    (.bytes [0, 1, 0, 0] (.link 2 .other (.bytes [0, 1, 0, 5, 0, 0] .nil) (.null 2
      (.link 2 .other (.bytes [0, 2, 0, 0] .nil) (.null 2 .nil)))))
    [(6, .absent), (5, .absent), (4, .num 0), (3, .num 65535), (2, .num 0), (1, .num 65535), (0, .num 65536)]
    id (fun _ _ h => h) [] List.nodup_nil (fun _ h => by cases h)
    [0, 1, 0, 0, 0, 12, 0, 0, 0, 18, 0, 0, 0, 1, 0, 5, 0, 0, 0, 2, 0, 0]
    FontVerif.Gen.WriteProgs.gdef_Gdef_compat (by decide) (by decide +kernel) (fun _ _ _ => rfl)
    (fun _ _ _ _ x hx => by cases hx) (by simp [Table.Ok, Fields.Ok, TableWriter.flat, U32])
    (fun h => absurd h (by decide)) (by decide +kernel)
  exact ⟨view', h⟩

end dsl

end FontVerif.C04C05
