/-
C04 ⇄ C05 — the bridge: `TableWriter` / `ObjectStore` build, from a `FontWrite` value, exactly the object graph whose
unfolding is that value; hence (C05) the compiled bytes read back, following every offset, as the value that was written.

Model: Model/TableWriter.lean ⇄ write-fonts/src/write.rs (TableWriter, TableData, add_offset, adjust_offsets,
dump_table), write-fonts/src/offsets.rs (OffsetMarker / NullableOffsetMarker), write-fonts/src/graph.rs (ObjectStore::add,
Graph::from_obj_store).  Vocabulary: `Fields` / `Table` (the value tree: the calls of a `write_into`), `Table.tree`
(what a reader is meant to see), `readTable` (the reader guided by the value's shape only) in
Lemmas/TableWriterDefs.lean; `Inv`, `RepLinks`, `RepTable`, `Fields.Ok` in Lemmas/TableWriter*.lean; `unfold`, `readBack`,
`ObjWF`, `Tree` are C05's (Lemmas/GraphSer.lean).
-/
import FontVerif.Lemmas.TableWriter3
import FontVerif.Props.C05
set_option linter.unusedVariables false
namespace FontVerif.C04C05
open FontVerif FontVerif.Graph FontVerif.TableWriter

/-! ### (1) content deduplication is sound and complete -/

theorem entry_unique (s : Store) (hnd : (s.map (·.2)).Nodup) (d d' : TData) (id : Nat)
    (h : (d, id) ∈ s) (h' : (d', id) ∈ s) : d = d' := by
  induction s with
  | nil => cases h
  | cons e rest ih =>
    simp only [List.map_cons, List.nodup_cons] at hnd
    rcases List.mem_cons.mp h with h | h <;> rcases List.mem_cons.mp h' with h' | h'
    · rw [← h] at h'; exact ((Prod.mk.injEq _ _ _ _ ▸ h').1).symm
    · exact absurd (List.mem_map.mpr ⟨(d', id), h', by rw [← h]⟩) hnd.1
    · exact absurd (List.mem_map.mpr ⟨(d, id), h, by rw [← h']⟩) hnd.1
    · exact ih hnd.2 h h'

theorem content_unique (s : Store) (hp : s.Pairwise (fun a b => a.1.same b.1 = false)) (e e' : TData × Nat)
    (h : e ∈ s) (h' : e' ∈ s) (hs : e.1.same e'.1 = true) : e = e' := by
  induction s with
  | nil => cases h
  | cons x rest ih =>
    rw [List.pairwise_cons] at hp
    rcases List.mem_cons.mp h with h | h <;> rcases List.mem_cons.mp h' with h' | h'
    · rw [h, h']
    · have := hp.1 e' h'; rw [← h, hs] at this; cases this
    · have := hp.1 e h; rw [← h', same_symm, hs] at this; cases this
    · exact ih hp.2 h h'

/-- **`ObjectStore::add` shares an id exactly with equal content.**  In every store the writer can reach (`Inv`), adding
an object returns the id of an object `e` already in the store if and only if `e` has the same bytes and the same offset
records (position, width, target id, adjustment — the `type_` tag is not part of the key).  So sharing never merges
different content (⇒), and equal content is always shared (⇐). -/
theorem store_add_dedup_sound (ids : Nat → Nat) (hinj : Function.Injective ids) (w : Writer) (hinv : Inv ids w)
    (d : TData) (hd : CurOK ids d w) (e : TData × Nat) (he : e ∈ w.tables) :
    (w.add ids d).1 = e.2 ↔ (e.1.bytes = d.bytes ∧ e.1.offsets = d.offsets) := by
  constructor
  · intro h
    cases hf : w.tables.find? d with
    | some id =>
      rw [add_found ids w d id hf] at h
      obtain ⟨d', hm, hb, ho⟩ := find?_some w.tables d id hf
      simp only [] at h
      rw [h] at hm
      have := entry_unique w.tables hinv.nodup d' e.1 e.2 hm he
      rw [← this]
      exact ⟨hb, ho⟩
    | none =>
      rw [add_new ids w d hf] at h
      simp only [] at h
      obtain ⟨j, hj, hid⟩ := hinv.drawn e he
      rw [hid] at h
      have := hinj h
      omega
  · intro h
    have hs : e.1.same d = true := by simp [TData.same, h.1, h.2]
    cases hf : w.tables.find? d with
    | none => exact absurd hf (find?_isSome_of_mem w.tables d e he hs)
    | some id =>
      rw [add_found ids w d id hf]
      obtain ⟨d', hm, hb, ho⟩ := find?_some w.tables d id hf
      have hs' : (d', id).1.same e.1 = true := by simp [TData.same, hb, ho, h.1, h.2]
      have := content_unique w.tables hinv.distinct (d', id) e hm he hs'
      rw [← this]

/-- non-vacuity: the second of two equal leaves gets the first one's id, a different leaf a new one -/
example :
    let w1 := (Writer.init 0).add (fun k => k + 10) ⟨.other, [1, 2], []⟩
    let w2 := w1.2.add (fun k => k + 10) ⟨.gpos 1, [1, 2], []⟩
    let w3 := w2.2.add (fun k => k + 10) ⟨.other, [1, 3], []⟩
    (w1.1, w2.1, w3.1, w3.2.tables.length) = (10, 10, 11, 2) := by decide

/-- **Sharing at the level of values**: if one stored object represents two tables (written under whatever adjustments),
the two tables are the same tree for a reader — same bytes outside offset slots, same children, to every depth. -/
theorem shared_id_same_value (ids : Nat → Nat) (w : Writer) (hinv : Inv ids w) (id : Nat) (fs1 fs2 : Fields) (a1 a2 : Nat)
    (h1 : RepTable w.tables id fs1 a1) (h2 : RepTable w.tables id fs2 a2) : fs1.tree a1 = fs2.tree a2 := by
  have hg := fun d id h => graph_obj ids w hinv 0 d id h
  rw [← unfold_table w.tables _ hg id fs1 a1 (depth fs1 + depth fs2 + 1) h1 (by omega),
    ← unfold_table w.tables _ hg id fs2 a2 (depth fs1 + depth fs2 + 1) h2 (by omega)]

/-! ### (2) the graph the writer builds -/

/-- **Unfolding the writer's graph from its root gives back the value tree** — for every value tree (any nesting, any
repetition of equal subtrees, empty tables, null and non-null offsets of any width ≥ 2, `adjust_offsets` blocks, padding),
from ANY reachable prior state of the writer (so: whatever was written — and is shared — before).  C05's `unfold` of the
graph `Graph::from_obj_store` makes of the store, from the id `add_table` returned, is `t.tree` (bytes with the offset
slots blanked, null slots as the zero bytes they are, and recursively the children behind the non-null slots, in slot
order) at every depth beyond the tree's. -/
theorem writer_graph_unfolds_to_value_from (ids : Nat → Nat) (hinj : Function.Injective ids) (w : Writer)
    (hinv : Inv ids w) (t : Table) (hok : t.Ok) (fuel : Nat) (hf : depth t.fields < fuel) :
    unfold (Graph.fromObjects (addTable ids t w).2.tables.objects (addTable ids t w).1) fuel (addTable ids t w).1
      = t.fields.tree w.adj := by
  obtain ⟨hinv', _, _, hrep⟩ := addTable_spec ids hinj w hinv t hok
  exact unfold_table _ _ (fun d id h => graph_obj ids _ hinv' _ d id h) _ _ _ _ hrep hf

/-- `TableWriter::make_graph` (fresh writer) -/
theorem writer_graph_unfolds_to_value (ids : Nat → Nat) (hinj : Function.Injective ids) (t : Table) (hok : t.Ok)
    (fuel : Nat) (hf : depth t.fields < fuel) :
    unfold (makeGraph ids t) fuel (makeGraph ids t).root = t.tree :=
  writer_graph_unfolds_to_value_from ids hinj (Writer.init 0) (inv_init ids 0) t hok fuel hf

/-- non-vacuity: root `[7] link16→A link16→A null16` with `A = [1,2] link32→[9]`: the two equal children are ONE object
(3 objects in all), and the unfolding shows the child twice -/
example :
    (makeGraph id ⟨.other, .bytes [7] (.link 2 .other (.bytes [1, 2] (.link 4 .other (.bytes [9] .nil) .nil))
      (.link 2 .other (.bytes [1, 2] (.link 4 .other (.bytes [9] .nil) .nil)) (.null 2 .nil)))⟩).objects
      = [(0, ⟨1, [9], []⟩), (1, ⟨6, [1, 2, 255, 255, 255, 255], [⟨2, 4, 0, 0⟩]⟩),
         (2, ⟨7, [7, 255, 255, 255, 255, 0, 0], [⟨1, 2, 1, 0⟩, ⟨3, 2, 1, 0⟩]⟩)] := by decide +kernel

example :
    unfold (makeGraph id ⟨.other, .bytes [7] (.link 2 .other (.bytes [1, 2] (.link 4 .other (.bytes [9] .nil) .nil))
      (.link 2 .other (.bytes [1, 2] (.link 4 .other (.bytes [9] .nil) .nil)) (.null 2 .nil)))⟩) 3 2
      = Tree.node [7, 0, 0, 0, 0, 0, 0] [Tree.node [1, 2, 0, 0, 0, 0] [Tree.node [9] []],
          Tree.node [1, 2, 0, 0, 0, 0] [Tree.node [9] []]] := by rfl

/-- **Every graph the writer builds satisfies C05's input assumptions** (`ObjWF` etc., now proved):
* every object is as `TableData` builds it — offset widths 2/3/4, every offset field inside the object's bytes, the
  fields of one object pairwise disjoint (`ObjWF`);
* object ids are distinct; every offset targets an object of the graph; the graph is acyclic (a rank strictly increases
  along every offset);
* the root is an object. -/
theorem writer_graph_wellformed (ids : Nat → Nat) (hinj : Function.Injective ids) (w : Writer) (hinv : Inv ids w)
    (t : Table) (hok : t.Ok) :
    let s := (addTable ids t w).2.tables
    let root := (addTable ids t w).1
    (∀ id o, (Graph.fromObjects s.objects root).objects.find? id = some o → ObjWF o) ∧
    s.objects.keys.Nodup ∧
    (∀ kv ∈ s.objects, ∀ l ∈ kv.2.links, l.target ∈ s.objects.keys) ∧
    (∃ rank : Nat → Nat, ∀ kv ∈ s.objects, ∀ l ∈ kv.2.links, rank kv.1 < rank l.target) ∧
    root ∈ s.objects.keys := by
  obtain ⟨hinv', _, _, d, hm, _, _⟩ := addTable_spec ids hinj w hinv t hok
  exact ⟨graph_objWF ids _ hinv' _, objects_keys_nodup _, graph_closed ids _ hinv', graph_acyclic ids hinj _ hinv',
    Map.find?_some_mem_keys _ _ _ (objects_find _ hinv'.nodup d _ hm)⟩

/-- non-vacuity of `Table.Ok` (and of everything that assumes it) -/
example : (⟨.other, .bytes [7] (.link 2 .other (.bytes [1, 2] (.link 4 .other (.bytes [9] .nil) .nil)) (.null 2 .nil))⟩ :
    Table).Ok := by
  simp [Table.Ok, Fields.Ok, TableWriter.flat, U32]

/-! ### (3) composition with C05: the compiled bytes read back as the value -/

/-- **A compiled table reads back, through every offset, as the table that was written.**  If `dump_table`'s pipeline
(`TableWriter::make_graph`, `pack_objects`, `serialize` only on success) returns bytes `out` for the value tree `t`, then
the reader that is guided only by the SHAPE of `t` — field lengths, where the offset slots are, their widths and
adjustments — and that, for every non-null slot of a table starting at `hd`, takes the big-endian number `v` stored in
the slot, goes to `hd + adjustment + v` and reads the child there recursively, sees exactly `t`: every byte outside the
non-null slots as written (null slots read 0), and behind every non-null slot the child that was written, to every
depth.  (So the stored value of a slot is `position(child) − (position(parent) + adjustment)`.)  For EVERY value tree,
whatever sharing the store found and whatever reordering / duplication the packer did.  `fresh`: the ids the packer may
draw, distinct from each other and from the writer's. -/
theorem compile_reads_back_nested (ids : Nat → Nat) (hinj : Function.Injective ids) (t : Table) (hok : t.Ok)
    (fresh : List Nat) (hnd : fresh.Nodup) (hfr : ∀ j, ids j ∉ fresh) (out : List Nat)
    (h : dumpTable ids t fresh = some (some out)) :
    readTable out 0 t = t.tree := by
  by_cases hl : topLinks t.fields = 0
  · rw [dump_leaf ids t fresh hl] at h
    simp only [Option.some.injEq] at h
    subst h
    unfold readTable readFields Table.tree Fields.tree
    rw [(kids_nolinks _ t.fields 0 0 0 hl).1, (kids_nolinks (flat t.fields 0) t.fields 0 0 0 hl).2]
    simp
  · obtain ⟨hinv, _, ⟨j, _, hj⟩, hrep⟩ := addTable_spec ids hinj (Writer.init 0) (inv_init ids 0) t hok
    have hrep' := hrep
    obtain ⟨d, hm, hb, hc⟩ := hrep'
    have hlen := repLinks_length _ _ _ _ _ hc
    obtain ⟨l, hlm⟩ : ∃ l, l ∈ d.offsets := by
      cases hd : d.offsets with
      | nil => rw [hd] at hlen; simp at hlen; omega
      | cons l _ => exact ⟨l, List.mem_cons_self⟩
    have hn := graph_two_nodes ids hinj _ hinv (addTable ids t (Writer.init 0)).1 d _ hm l hlm
    have hfresh := graph_freshFor ids _ hinv (addTable ids t (Writer.init 0)).1 fresh hnd hfr (by rw [hj]; exact hfr j)
    have hwf := graph_objWF ids _ hinv (addTable ids t (Writer.init 0)).1
    have hg := fun d id h => graph_obj ids _ hinv (addTable ids t (Writer.init 0)).1 d id h
    have hend := (C05.dump_end_to_end (makeGraph ids t) fresh out hn hfresh.1 hfresh.2.1 hfresh.2.2 hwf h).1
      (depth t.fields + 1)
    have h1 := readBack_table out _ _ hg _ t.fields 0 (depth t.fields + 1) 0 hrep (by omega)
    have h2 := unfold_table _ _ hg _ t.fields 0 (depth t.fields + 1) hrep (by omega)
    unfold readTable Table.tree
    rw [← h1, ← h2]
    exact hend

/-- non-vacuity: the example tree compiles (the shared child `A` is written once, at 7; its leaf at 13) -/
example :
    dumpTable id ⟨.other, .bytes [7] (.link 2 .other (.bytes [1, 2] (.link 4 .other (.bytes [9] .nil) .nil))
      (.link 2 .other (.bytes [1, 2] (.link 4 .other (.bytes [9] .nil) .nil)) (.null 2 .nil)))⟩ []
      = some (some [7, 0, 7, 0, 7, 0, 0, 1, 2, 0, 0, 0, 6, 9]) := by decide +kernel

/-- non-vacuity: an `adjust_offsets(4, …)` block: the stored offset is relative to byte 4 of the parent -/
example :
    dumpTable id ⟨.other, .bytes [7, 7, 7, 7] (.adjust 4 (.link 2 .other (.bytes [9] .nil) .nil) .nil)⟩ []
      = some (some [7, 7, 7, 7, 0, 2, 9]) := by decide +kernel

/-- **failure returns no bytes** (restating C05 for the composed pipeline): if packing fails, `dump_table` yields the
error and the theorem above has nothing to say -/
theorem compile_fail_no_bytes (ids : Nat → Nat) (t : Table) (fresh fresh' : List Nat) (g' : Graph)
    (h : packObjects (makeGraph ids t) fresh = some (false, g', fresh')) : dumpTable ids t fresh = some none :=
  C05.dump_fail_no_bytes _ g' fresh fresh' h

end FontVerif.C04C05
