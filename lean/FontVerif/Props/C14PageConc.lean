/-
C14 — concrete `BitPage` (`storage: [u64; 8]` + cached `length: u32`,
read-fonts/src/collections/int_set/bitpage.rs, transcribed word by word in Model/BitPageConc.lean)
refines the 512-bit page of Model/IntSet.lean: every operation commutes with the abstraction
function `CPage.abs` (little-endian packing of the eight words) and preserves the representation
invariant `CPageOk` (8 words, each `< 2^64`, `length == Σ count_ones`).
Property theorems only; the proofs live in Lemmas/IntSetPageConc.lean.
-/
import FontVerif.Lemmas.IntSetPageConc
import FontVerif.Lemmas.IntSetPageIterConc
set_option linter.unusedVariables false
set_option exponentiation.threshold 600
namespace FontVerif.C14PageConc
open FontVerif FontVerif.IntSet

/-- `BitPage::new_zeroes`: well formed, and it is the abstract empty page. -/
theorem page_new_zeroes_refines : CPageOk CPage.zero ∧ CPage.zero.abs = Page.zero :=
  ⟨cpageOk_zero, CPage.abs_zero⟩

/-- The abstraction of a well-formed concrete page is a well-formed abstract page (`bits < 2^512`,
`len = popCount bits`), and bit `j` of it is bit `j % 64` of word `j / 64` (`element_index` /
`elem_index_bit_mask`). -/
theorem page_abs_ok (p : CPage) (h : CPageOk p) :
    PageOk p.abs ∧ ∀ j, p.abs.bits.testBit j = (p.elems.getD (j / 64) 0).testBit (j % 64) :=
  ⟨CPage.abs_ok p h, CPage.testBit_abs p h⟩

/-- `impl PartialEq for BitPage` (`self.storage == other.storage`): two well-formed pages have equal
storage iff they have the same abstract bits. -/
theorem page_eq_refines (p q : CPage) (hp : CPageOk p) (hq : CPageOk q) :
    p.elems = q.elems ↔ p.abs.bits = q.abs.bits :=
  ⟨fun h => by unfold CPage.abs; rw [h],
   fun h => pack_injective _ _ (by rw [hp.1, hq.1]) hp.2.1 hq.2.1 h⟩

/-- `BitPage::insert(val)` on every well-formed page and every `val`: stays well formed (in particular
`length += is_new` keeps the cached length exact), the storage becomes the abstract
`bits | 1 << (val % 512)`, and the returned `is_new` flag is the abstract one. -/
theorem page_insert_refines (p : CPage) (v : Nat) (h : CPageOk p) :
    CPageOk (p.insert v).1 ∧ (p.insert v).1.abs = (pageInsert p.abs v).1 ∧
      (p.insert v).2 = (pageInsert p.abs v).2 :=
  ⟨CPage.insert_ok p v h, CPage.insert_abs p v h⟩

/-- `BitPage::remove(val)`: stays well formed (`length -= ret` never underflows and stays exact),
clears exactly bit `val % 512`, returns the abstract `was_present` flag. -/
theorem page_remove_refines (p : CPage) (v : Nat) (h : CPageOk p) :
    CPageOk (p.remove v).1 ∧ (p.remove v).1.abs = (pageRemove p.abs v).1 ∧
      (p.remove v).2 = (pageRemove p.abs v).2 :=
  ⟨CPage.remove_ok p v h, CPage.remove_abs p v h⟩

/-- `BitPage::contains(val)` = bit `val % 512` of the abstraction. -/
theorem page_contains_refines (p : CPage) (v : Nat) (h : CPageOk p) :
    p.contains v = pageContains p.abs v ∧ p.contains v = p.abs.bits.testBit (v % 512) :=
  ⟨CPage.contains_abs p v h, CPage.contains_abs p v h⟩

/-- `BitPage::insert_range(first, last)`: the per-element mask loop
(`(u64::MAX << (elem_start + end_shift)) >> end_shift` for `elem_idx in first/64 ..= last/64`) keeps the
page well formed for ALL arguments, and when `first & 511 ≤ last & 511` (what `BitSet::insert_range`
guarantees) it is the abstract one-mask update; membership afterwards is `old ∨ first ≤ j ≤ last`. -/
theorem page_insert_range_refines (p : CPage) (a b : Nat) (h : CPageOk p) :
    CPageOk (p.insertRange a b) ∧
      (a % 512 ≤ b % 512 → (p.insertRange a b).abs = pageInsertRange p.abs a b ∧
        ∀ j, (p.insertRange a b).abs.bits.testBit j =
          (p.abs.bits.testBit j || (decide (a % 512 ≤ j) && decide (j ≤ b % 512)))) := by
  refine ⟨CPage.insertRange_ok p a b h, fun hab => ⟨CPage.insertRange_abs p a b h hab, fun j => ?_⟩⟩
  rw [CPage.insertRange_abs p a b h hab, pageInsertRange_bits _ _ _ _ hab]

/-- `BitPage::remove_range(first, last)`: as above with `&= !mask`. -/
theorem page_remove_range_refines (p : CPage) (a b : Nat) (h : CPageOk p) :
    CPageOk (p.removeRange a b) ∧
      (a % 512 ≤ b % 512 → (p.removeRange a b).abs = pageRemoveRange p.abs a b ∧
        ∀ j, (p.removeRange a b).abs.bits.testBit j =
          (p.abs.bits.testBit j && !(decide (a % 512 ≤ j) && decide (j ≤ b % 512)))) := by
  refine ⟨CPage.removeRange_ok p a b h, fun hab => ⟨CPage.removeRange_abs p a b h hab, fun j => ?_⟩⟩
  rw [CPage.removeRange_abs p a b h hab, pageRemoveRange_bits _ _ _ _ hab]

/-- `BitPage::clear`: the result is `new_zeroes()` (well formed, abstract empty page). -/
theorem page_clear_refines (p : CPage) (h : CPageOk p) :
    CPageOk p.clear ∧ p.clear.abs = Page.zero ∧ p.clear = CPage.zero :=
  ⟨CPage.clear_ok p h, CPage.clear_abs p h, CPage.clear_eq_zero p h⟩

/-- `BitPage::process(self, other, op)` for EVERY element operator that acts bitwise on `u64`s through
a Boolean function `f` (with the 512-bit operator acting through the same `f`): the result is well
formed (`recompute_length`) and is the abstract `Page.ofBits (op a b)`. -/
theorem page_process_refines {eop op : Nat → Nat → Nat} {f : Bool → Bool → Bool}
    (he : ElemOp eop f) (ho : BitwiseOp op f) (a b : CPage) (ha : CPageOk a) (hb : CPageOk b) :
    CPageOk (CPage.process eop a b) ∧
      (CPage.process eop a b).abs = Page.ofBits (op a.abs.bits b.abs.bits) :=
  ⟨(CPage.process_refines he ho).ok a b ha hb, (CPage.process_refines he ho).abs a b ha hb⟩

/-- `BitPage::union` / `intersect` / `subtract` and the `|a, b| BitPage::subtract(b, a)` closure of
`BitSet::reversed_subtract`: the closures `a | b`, `a & b`, `a & !b` on `u64` words refine the 512-bit
operators of Model/IntSet.lean. -/
theorem page_set_ops_refine :
    PageOpRefines CPage.union opUnion ∧ PageOpRefines CPage.intersect opIntersect ∧
      PageOpRefines CPage.subtract opSubtract ∧ PageOpRefines CPage.revSubtract opRevSubtract :=
  ⟨refines_union, refines_intersect, refines_subtract, refines_revSubtract⟩

/-- `recompute_length` (`storage.iter().map(u64::count_ones).sum()`) is the population count of the
packed 512 bits, for every 8-word storage; hence `BitPage::len` of a well-formed page is the number of
members of its abstraction. -/
theorem page_len_is_popcount_per_element :
    (∀ es : List Nat, es.length = 8 → (∀ e ∈ es, e < 2 ^ 64) →
      recomputeLength es = popCount (pack es)) ∧
    (∀ p : CPage, CPageOk p → p.length = popCount p.abs.bits ∧
      p.length = (pageMembers p.abs.bits).length ∧ p.length = p.abs.len) :=
  ⟨recomputeLength_eq_popCount, fun p h => ⟨(CPage.abs_ok p h).2, (CPage.abs_ok p h).2, rfl⟩⟩

/-- `BitPage::is_empty` (reads the cached length): true iff the abstraction has no member iff every
word is zero-bit on `0..512`. -/
theorem page_is_empty_refines (p : CPage) (h : CPageOk p) :
    (p.isEmpty = true ↔ pageMembers p.abs.bits = []) ∧
      (p.isEmpty = true ↔ ∀ i, i < 512 → p.abs.bits.testBit i = false) ∧
      (p.isEmpty = true ↔ p.abs.bits = 0) := by
  have hl : p.len = popCount p.abs.bits := (CPage.abs_ok p h).2
  have hlt := (CPage.abs_ok p h).1
  have h1 : p.isEmpty = true ↔ popCount p.abs.bits = 0 := by
    unfold CPage.isEmpty; rw [hl]; simp
  refine ⟨?_, ?_, ?_⟩
  · rw [h1]; unfold popCount; exact List.length_eq_zero_iff
  · rw [h1]; exact popCount_eq_zero_iff
  · rw [h1, popCount_eq_zero_iff]
    constructor
    · intro hz
      apply Nat.eq_of_testBit_eq
      intro i
      rw [Nat.zero_testBit]
      by_cases hi : i < 512
      · exact hz i hi
      · exact Nat.testBit_lt_two_pow
          (Nat.lt_of_lt_of_le hlt (Nat.pow_le_pow_right (by omega) (by omega)))
    · intro hz i _; rw [hz]; exact Nat.zero_testBit i

/-- All page operations at once: for every well-formed page(s) and all arguments, each operation of
bitpage.rs keeps `CPageOk` and commutes with `CPage.abs`. -/
theorem page_ops_refine :
    (CPageOk CPage.zero ∧ CPage.zero.abs = Page.zero) ∧
    (∀ p, CPageOk p → PageOk p.abs) ∧
    (∀ p v, CPageOk p → CPageOk (p.insert v).1 ∧ (p.insert v).1.abs = (pageInsert p.abs v).1 ∧
      (p.insert v).2 = (pageInsert p.abs v).2) ∧
    (∀ p v, CPageOk p → CPageOk (p.remove v).1 ∧ (p.remove v).1.abs = (pageRemove p.abs v).1 ∧
      (p.remove v).2 = (pageRemove p.abs v).2) ∧
    (∀ p v, CPageOk p → p.contains v = pageContains p.abs v) ∧
    (∀ p a b, CPageOk p → CPageOk (p.insertRange a b) ∧
      (a % 512 ≤ b % 512 → (p.insertRange a b).abs = pageInsertRange p.abs a b)) ∧
    (∀ p a b, CPageOk p → CPageOk (p.removeRange a b) ∧
      (a % 512 ≤ b % 512 → (p.removeRange a b).abs = pageRemoveRange p.abs a b)) ∧
    (∀ p, CPageOk p → CPageOk p.clear ∧ p.clear.abs = Page.zero) ∧
    (∀ p, CPageOk p → p.length = popCount p.abs.bits ∧ p.isEmpty = (p.abs.len == 0)) ∧
    (PageOpRefines CPage.union opUnion ∧ PageOpRefines CPage.intersect opIntersect ∧
      PageOpRefines CPage.subtract opSubtract ∧ PageOpRefines CPage.revSubtract opRevSubtract) :=
  ⟨page_new_zeroes_refines,
   fun p h => CPage.abs_ok p h,
   fun p v h => page_insert_refines p v h,
   fun p v h => page_remove_refines p v h,
   fun p v h => CPage.contains_abs p v h,
   fun p a b h => ⟨CPage.insertRange_ok p a b h, CPage.insertRange_abs p a b h⟩,
   fun p a b h => ⟨CPage.removeRange_ok p a b h, CPage.removeRange_abs p a b h⟩,
   fun p h => ⟨CPage.clear_ok p h, CPage.clear_abs p h⟩,
   fun p h => ⟨(CPage.abs_ok p h).2, rfl⟩,
   page_set_ops_refine⟩

/-! ### non-vacuity: the hypotheses are satisfiable, the operations do something -/

example : CPageOk (CPage.zero.insert 70).1 := CPage.insert_ok _ _ cpageOk_zero
example : (CPage.zero.insert 70).1 = ⟨[0, 64, 0, 0, 0, 0, 0, 0], 1⟩ ∧ (CPage.zero.insert 70).2 = true := by
  decide
example : ((CPage.zero.insert 70).1.insert (512 + 70)).2 = false := by decide
example : ((CPage.zero.insert 70).1.remove 70) = (CPage.zero, true) := by decide
example : (CPage.zero.insert 70).1.contains 70 = true ∧ (CPage.zero.insert 70).1.contains 71 = false := by
  decide
/-- an `insert_range` crossing two element boundaries (60..=130 touches words 0, 1, 2) -/
example : CPage.zero.insertRange 60 130 =
    ⟨[0xF000000000000000, 0xFFFFFFFFFFFFFFFF, 0x7, 0, 0, 0, 0, 0], 71⟩ := by decide
example : (CPage.zero.insertRange 60 130).abs = pageInsertRange Page.zero 60 130 := by
  rw [← CPage.abs_zero]; exact CPage.insertRange_abs _ _ _ cpageOk_zero (by decide)
example : (CPage.zero.insertRange 0 511).removeRange 64 447 =
    ⟨[0xFFFFFFFFFFFFFFFF, 0, 0, 0, 0, 0, 0, 0xFFFFFFFFFFFFFFFF], 128⟩ := by decide
example : CPage.subtract (CPage.zero.insertRange 0 100) (CPage.zero.insertRange 10 511) =
    ⟨[0x3FF, 0, 0, 0, 0, 0, 0, 0], 10⟩ := by decide
example : CPageOk (CPage.zero.insertRange 60 130) := CPage.insertRange_ok _ _ _ cpageOk_zero
example : (CPage.zero.insertRange 60 130).clear = CPage.zero := by decide
/-- the `u64` operators satisfy `ElemOp` (hypothesis of `page_process_refines`) -/
example : ElemOp elemSubtract (fun a b => a && !b) := elemOp_subtract

/-! ## the element iterator `Iter { val, forward_index, backward_index }` and `BitPage::iter` -/

/-- `<Iter as Iterator>::next` (mask below `forward_index`, `trailing_zeros`): for every state with
`0 ≤ forward_index`, `backward_index ≤ 63` it yields the LOWEST set bit `x` of `val` with
`forward_index ≤ x ≤ backward_index` and moves `forward_index` to `x + 1`; it returns `None`, leaving
the state unchanged, exactly when there is no such bit. -/
theorem elem_iter_next (it : EIter) (h : it.Ok) :
    it.next = match it.window with
      | [] => (none, it)
      | x :: _ => (some x, { it with fwd := (x : Int) + 1 }) :=
  EIter.next_eq it h

/-- `<Iter as DoubleEndedIterator>::next_back` (`checked_shl` mask, `leading_zeros`): yields the HIGHEST
un-yielded set bit `x` and moves `backward_index` to `x - 1` (possibly `-1`); `None` iff none is left. -/
theorem elem_iter_next_back (it : EIter) (h : it.Ok) :
    it.nextBack = match it.window.getLast? with
      | none => (none, it)
      | some x => (some x, { it with bwd := (x : Int) - 1 }) :=
  EIter.nextBack_eq it h

/-- the window (`EIter.window`) is what its name says: the set bits between the two indices, ascending -/
theorem elem_iter_window (it : EIter) (i : Nat) :
    (i ∈ it.window ↔ i < 64 ∧ it.fwd ≤ (i : Int) ∧ (i : Int) ≤ it.bwd ∧ Nat.testBit it.val i = true) ∧
      it.window.Pairwise (· < ·) :=
  ⟨EIter.mem_window, EIter.window_sorted it⟩

/-- `Iter::new(elem)` / `Iter::from(elem, k)` run forwards to exhaustion yield exactly the set bits
(`≥ k`) ascending; run backwards, the same bits descending. -/
theorem elem_iter_collect (e k : Nat) (he : e < 2 ^ 64) :
    (EIter.new e).toList = (List.range 64).filter (fun i => e.testBit i) ∧
    (EIter.new e).toListRev = ((List.range 64).filter (fun i => e.testBit i)).reverse ∧
    (EIter.from e k).toList = (List.range 64).filter (fun i => decide (k ≤ i) && e.testBit i) ∧
    (EIter.from e k).toListRev =
      ((List.range 64).filter (fun i => decide (k ≤ i) && e.testBit i)).reverse := by
  refine ⟨?_, ?_, ?_, ?_⟩
  · rw [EIter.toList_eq _ (EIter.new_ok e he), EIter.window_new]
  · rw [EIter.toListRev_eq _ (EIter.new_ok e he), EIter.window_new]
  · rw [EIter.toList_eq _ (EIter.from_ok e k he), EIter.window_from]
  · rw [EIter.toListRev_eq _ (EIter.from_ok e k he), EIter.window_from]

/-- EVERY interleaving of `next` (`true`) and `next_back` (`false`) on an element iterator: the values
yielded at the front (call order) ++ the bits still in the window of the final state ++ the values
yielded at the back (reverse call order) = the initial window.  So every set bit is produced exactly
once, the front results ascend, the back results descend, and the two ends meet without overlap. -/
theorem elem_iter_any_schedule (it : EIter) (h : it.Ok) (s : List Bool) :
    (it.runSched s).1 ++ (it.runSched s).2.2.window ++ (it.runSched s).2.1.reverse = it.window ∧
      (it.runSched s).2.2.Ok :=
  EIter.runSched_spec s it h

/-- `BitPage::iter()` (`enumerate`, `filter(elem != 0)`, `flat_map(Iter::new(elem).map(base + idx))`)
collected forwards is `pageMembers` of the abstraction — exactly the set bits below 512, ascending —
and collected backwards (`.rev()`) the same list reversed; hence `first`/`last` are its head/last. -/
theorem page_iter_refines (p : CPage) (h : CPageOk p) :
    p.iterM = pageMembers p.abs.bits ∧ p.iterRevM = (pageMembers p.abs.bits).reverse ∧
      p.iterM = (List.range 512).filter (fun i => p.abs.bits.testBit i) ∧
      p.iterM.length = p.length ∧
      p.iterRevM.head? = p.iterM.getLast? := by
  have h1 := CPage.iterM_eq p h
  have h2 := CPage.iterRevM_eq p h
  refine ⟨h1, h2, by rw [h1, pageMembers_eq], ?_, by rw [h1, h2, List.head?_reverse]⟩
  rw [h1]; exact (CPage.abs_ok p h).2.symm

example : (EIter.new 0b1111110).runSched [true, false, false, true, true, false, true, true, false] =
    ([1, 2, 3], [6, 5, 4], ⟨0b1111110, 4, 3⟩) := by decide
example : (EIter.new (2 ^ 63 + 1)).toListRev = [63, 0] := by decide
example : (EIter.new 1).nextBack = (some 0, ⟨1, 0, -1⟩) := by decide
example : (CPage.zero.insertRange 60 70).iterM = [60, 61, 62, 63, 64, 65, 66, 67, 68, 69, 70] := by decide
example : (CPage.zero.insertRange 60 70).iterAfterM 63 = [64, 65, 66, 67, 68, 69, 70] := by decide
example : (EIter.new 5).Ok := EIter.new_ok 5 (by decide)

/-- `BitPage::iter_after(value)` (`storage[start_index..]`, `Iter::from(elem, (value & 63) + 1)` on the
start element, `Iter::new` on the later ones) collected forwards is exactly the members of the page
strictly greater than `value & 511`, ascending; collected backwards, the same list reversed.  For every
well-formed page and every `value`. -/
theorem page_iter_after_refines (p : CPage) (v : Nat) (h : CPageOk p) :
    p.iterAfterM v = (pageMembers p.abs.bits).filter (fun x => decide (v % 512 < x)) ∧
      p.iterAfterRevM v = ((pageMembers p.abs.bits).filter (fun x => decide (v % 512 < x))).reverse ∧
      (∀ x, x ∈ p.iterAfterM v ↔ x < 512 ∧ v % 512 < x ∧ p.abs.bits.testBit x = true) := by
  refine ⟨CPage.iterAfterM_eq p v h, CPage.iterAfterRevM_eq p v h, fun x => ?_⟩
  rw [CPage.iterAfterM_eq p v h, List.mem_filter, mem_pageMembers]
  simp only [decide_eq_true_eq]
  constructor
  · rintro ⟨⟨a, b⟩, c⟩; exact ⟨a, c, b⟩
  · rintro ⟨a, c, b⟩; exact ⟨⟨a, b⟩, c⟩

example : (CPage.zero.insertRange 500 511).iterAfterM 510 = [511] ∧
    (CPage.zero.insertRange 500 511).iterAfterM 511 = [] ∧
    (CPage.zero.insertRange 60 70).iterAfterRevM 65 = [70, 69, 68, 67, 66] := by decide

end FontVerif.C14PageConc
