/-
C04 — hand-written write-side conversions brought into the model: the GPOS `ValueRecord` (write / read / to-owned for
every `ValueFormat`) and the `name` table string encodings (length field vs. encoded bytes, decode ∘ encode).
Models: Model/ValueRecord.lean, Model/NameStr.lean (each cites the Rust it transcribes).
-/
import FontVerif.Lemmas.ValueRecord
import FontVerif.Lemmas.FieldVR
import FontVerif.Lemmas.NameStr
set_option linter.unusedVariables false

namespace FontVerif.C04Hand
open FontVerif.Field FontVerif.ValueRecord

/-- **ValueRecord round trip, all formats.**  For every owned value record `o` (any explicit or computed format, any
combination of present / absent scalars and device slots) whose scalars fit 16 bits and whose non-null device slots hold
non-zero 16-bit offsets, and any following data: reading the written bytes with the written format consumes exactly the
record, and converting the parsed record to its owned form gives `normalize o` — the format made explicit, every field
of the format present with the value written (absent scalars as 0), every field outside the format absent, and **each of
the four device slots holding its own offset** (not another slot's). -/
theorem value_record_roundtrip (o : Owned) (rest : Bytes) (h : WellSized o) :
    ∃ p, read (format o) (write o ++ rest) = some (p, rest) ∧ toOwned p = normalize o :=
  read_write_normalize o rest h

/-- a record is in normal form when it is what a reader produces: explicit format, scalars present exactly in the format,
no device outside the format -/
def NormalForm (o : Owned) : Prop := normalize o = o

/-- normal-form records (every re-read record, and every record the harness generates) read back unchanged -/
theorem value_record_roundtrip_normal (o : Owned) (rest : Bytes) (h : WellSized o) (hn : NormalForm o) :
    ∃ p, read (format o) (write o ++ rest) = some (p, rest) ∧ toOwned p = o := by
  obtain ⟨p, hp, ho⟩ := value_record_roundtrip o rest h
  exact ⟨p, hp, by rw [ho]; exact hn⟩

/-- the re-read record recompiles to the same bytes -/
theorem value_record_recompile (o : Owned) (h : WellSized o) : write (normalize o) = write o := by
  have hf : format (normalize o) = format o := by simp [normalize, format]
  unfold ValueRecord.write slots
  rw [hf]
  simp only [normalize]
  cases hasBit (format o) 0 <;> cases hasBit (format o) 1 <;> cases hasBit (format o) 2 <;>
    cases hasBit (format o) 3 <;> cases hasBit (format o) 4 <;> cases hasBit (format o) 5 <;>
    cases hasBit (format o) 6 <;> cases hasBit (format o) 7 <;>
    simp [writeSlots, devOff]

/-- `encoded_size` (write side) = `record_byte_len` (read side) = the number of bytes written, for formats `< 256` -/
theorem value_record_size (o : Owned) : (write o).length = encodedSize (format o) :=
  write_length o

/-- non-vacuity: format 0xFF with four different device offsets and four scalars; the y-advance device reads back as
the y-advance device (the seeded defect C04-2 breaks exactly this) -/
example :
    let o : Owned := { explicitFormat := some 0xFF, xPlacement := some 1, yPlacement := some 65535, xAdvance := some 3,
                       yAdvance := some 4, xPlaDev := some 40, yPlaDev := some 50, xAdvDev := some 60, yAdvDev := some 70 }
    (read (format o) (write o ++ [9, 9])).map (fun r => (toOwned r.1, r.2)) = some (o, [9, 9]) := by decide

/-- non-vacuity: computed format (no explicit one), only y-advance and its device: format 0x88, 4 bytes -/
example :
    let o : Owned := { explicitFormat := none, xPlacement := none, yPlacement := none, xAdvance := none,
                       yAdvance := some 7, xPlaDev := none, yPlaDev := none, xAdvDev := none, yAdvDev := some 12 }
    format o = 0x88 ∧ write o = [0, 7, 0, 12] ∧ WellSized o := by
  refine ⟨by decide, by decide, ?_⟩
  simp [WellSized, optLt, devOk]

/-! ## computed-size record arrays and the SinglePos subtables -/

/-- **Arrays of value records (computed-size records).**  `n` records written one after the other, all of the format `f`
the reader is given, read back as `n` records — each the normal form of the one written — consuming exactly the written
bytes. -/
theorem value_records_roundtrip (f : Nat) (rs : List Owned) (rest : Bytes)
    (h : ∀ r ∈ rs, WellSized r ∧ format r = f) :
    ∃ ps, readMany f rs.length (writeMany rs ++ rest) = some (ps, rest) ∧ ps.map toOwned = rs.map normalize :=
  readMany_writeMany f rs rest h

/-- **SinglePosFormat1** (generated writer + hand-written `compute_value_format` and record): the table reads back with
`pos_format = 1`, the coverage offset, and the record in normal form; exactly the written bytes are consumed. -/
theorem single_pos_format1_roundtrip (t : SinglePos1) (rest : Bytes) (hc : t.coverageOffset < 65536)
    (hf : format t.record < 65536) (hw : WellSized t.record) :
    ∃ p, readSP1 (writeSP1 t ++ rest) = some (1, t.coverageOffset, p, rest) ∧ p.format = format t.record
      ∧ toOwned p = normalize t.record := by
  obtain ⟨p, hp, ho⟩ := read_write_normalize t.record rest hw
  refine ⟨p, ?_, ?_, ho⟩
  · simp only [readSP1, writeSP1, List.append_assoc]
    rw [readU16_be 1 _ (by omega)]
    simp only []
    rw [readU16_be _ _ hc]
    simp only []
    rw [readU16_be _ _ hf]
    simp only []
    rw [hp]
  · have := congrArg Owned.explicitFormat ho
    simp only [toOwned, normalize] at this
    exact Option.some.inj this

/-- **SinglePosFormat2** (count + computed-size record array): under the condition the writer does not establish
itself — every record has the format of the first one — and for a non-empty format, the table reads back with the
coverage offset, the first record's format, `value_count = len`, and every record in normal form.  `writeSP2 = none`
(the `u16::try_from(len).unwrap()` panic) only for 65536+ records. -/
theorem single_pos_format2_roundtrip (t : SinglePos2) (rest : Bytes) (hc : t.coverageOffset < 65536)
    (hn : t.records.length < 65536) (hf : valueFormat2 t < 65536)
    (h : ∀ r ∈ t.records, WellSized r ∧ format r = valueFormat2 t) (hz : encodedSize (valueFormat2 t) ≠ 0) :
    ∃ bytes ps, writeSP2 t = some bytes
      ∧ readSP2 (bytes ++ rest) = some (2, t.coverageOffset, valueFormat2 t, t.records.length, ps, rest)
      ∧ ps.map toOwned = t.records.map normalize := by
  obtain ⟨ps, hps, hmap⟩ := readComputed_writeMany (valueFormat2 t) t.records rest h hz
  refine ⟨be 2 2 ++ be 2 t.coverageOffset ++ be 2 (valueFormat2 t) ++ be 2 t.records.length ++ writeMany t.records,
    ps, by simp [writeSP2, hn], ?_, hmap⟩
  simp only [readSP2, List.append_assoc]
  rw [readU16_be 2 _ (by omega)]
  simp only []
  rw [readU16_be _ _ hc]
  simp only []
  rw [readU16_be _ _ hf]
  simp only []
  rw [readU16_be _ _ hn]
  simp only []
  rw [hps]

/-- the same for every table that passes validation (`check_format_consistency` establishes the format condition, the
generated length check the count) -/
theorem single_pos_format2_validated_roundtrip (t : SinglePos2) (rest : Bytes) (hv : validateSP2 t = true)
    (hc : t.coverageOffset < 65536) (hf : valueFormat2 t < 65536) (hw : ∀ r ∈ t.records, WellSized r)
    (hz : encodedSize (valueFormat2 t) ≠ 0) :
    ∃ bytes ps, writeSP2 t = some bytes
      ∧ readSP2 (bytes ++ rest) = some (2, t.coverageOffset, valueFormat2 t, t.records.length, ps, rest)
      ∧ ps.map toOwned = t.records.map normalize := by
  simp only [validateSP2, Bool.and_eq_true, decide_eq_true_eq, List.all_eq_true, beq_iff_eq] at hv
  exact single_pos_format2_roundtrip t rest hc (by omega) hf (fun r hr => ⟨hw r hr, hv.2 r hr⟩) hz

/-- the known finding C04-empty-value-records inside the model: records of the empty format are not read back at all -/
theorem single_pos_format2_empty_format_loses_records (cov n : Nat) (rest : Bytes) (hc : cov < 65536) (hn : n < 65536) :
    readSP2 (be 2 2 ++ be 2 cov ++ be 2 0 ++ be 2 n ++ rest) = some (2, cov, 0, n, [], rest) := by
  simp only [readSP2, List.append_assoc]
  rw [readU16_be 2 _ (by omega)]
  simp only []
  rw [readU16_be _ _ hc]
  simp only []
  rw [readU16_be 0 _ (by omega)]
  simp only []
  rw [readU16_be _ _ hn]
  simp only []
  rw [readComputed_zero_size 0 n rest (by decide)]

/-- non-vacuity: two records of format 0x41 (x placement + x advance device) -/
example :
    ((writeSP2 { coverageOffset := 20, records := [{ explicitFormat := some 0x41, xPlacement := some 5, yPlacement := none, xAdvance := none, yAdvance := none, xPlaDev := none, yPlaDev := none, xAdvDev := some 30, yAdvDev := none }, { explicitFormat := some 0x41, xPlacement := some 65000, yPlacement := none, xAdvance := none, yAdvance := none, xPlaDev := none, yPlaDev := none, xAdvDev := some 44, yAdvDev := none }] }).bind (fun b => readSP2 (b ++ [7]))).map
        (fun x => (x.1, x.2.1, x.2.2.1, x.2.2.2.1, x.2.2.2.2.1.map toOwned, x.2.2.2.2.2))
      = some (2, 20, 0x41, 2, [({ explicitFormat := some 0x41, xPlacement := some 5, yPlacement := none, xAdvance := none, yAdvance := none, xPlaDev := none, yPlaDev := none, xAdvDev := some 30, yAdvDev := none } : Owned), { explicitFormat := some 0x41, xPlacement := some 65000, yPlacement := none, xAdvance := none, yAdvance := none, xPlaDev := none, yPlaDev := none, xAdvDev := some 44, yAdvDev := none }], [7]) := by rfl

/-! ## name strings -/
open FontVerif.NameStr

theorem encodeString_utf16 (s : List Nat) : encodeString .utf16be s = some (s.flatMap charBytes) := rfl

/-- **The `length` field equals the number of encoded bytes** (UTF-16BE: two bytes per UTF-16 code unit, i.e. four per
supplementary-plane char; MacRoman: one byte per char).  For every encoding, every string on which the string writer
and `compute_length` do not panic: the value `compute_length` returns is the length of the bytes the writer emits. -/
theorem name_length_eq_encoded_bytes (enc : Encoding) (s : List Nat) (bytes : Bytes) (n : Nat)
    (hw : encodeString enc s = some bytes) (hl : computeLength enc s = some n) : n = bytes.length := by
  cases enc with
  | utf16be =>
    rw [encodeString_utf16] at hw
    injection hw with hw
    subst hw
    rw [utf16_bytes_length]
    simp only [computeLength] at hl
    rw [sumU16_eq _ 0 (by omega)] at hl
    split at hl
    · injection hl with hl; omega
    · cases hl
  | macRoman =>
    simp only [computeLength] at hl
    have := (mapM_macEncode s bytes hw).1
    split at hl
    · injection hl with hl; omega
    · cases hl
  | unknown =>
    cases s with
    | nil => simp [encodeString] at hw; simp [computeLength] at hl; subst hw; subst hl; rfl
    | cons c r => simp [encodeString] at hw

/-- and `compute_length` is defined (does not panic) whenever the encoded bytes fit the 16-bit length field -/
theorem name_length_defined (enc : Encoding) (s : List Nat) (bytes : Bytes)
    (hw : encodeString enc s = some bytes) (hfit : bytes.length < 65536) :
    computeLength enc s = some bytes.length := by
  cases enc with
  | utf16be =>
    rw [encodeString_utf16] at hw
    injection hw with hw
    subst hw
    rw [utf16_bytes_length] at hfit ⊢
    simp only [computeLength]
    rw [sumU16_eq _ 0 (by omega)]
    simp only [Nat.zero_add, hfit, if_true]
  | macRoman =>
    have h := (mapM_macEncode s bytes hw).1
    simp only [computeLength]
    rw [if_pos (by omega), h]
  | unknown =>
    cases s with
    | nil => simp [encodeString] at hw; subst hw; rfl
    | cons c r => simp [encodeString] at hw

/-- **Validated name strings compile**: whenever `validate_string_data` accepts a record's string, neither the string
writer nor `compute_length` panics, and the length field is the number of bytes written (which fits 16 bits). -/
theorem name_validated_no_panic (enc : Encoding) (s : List Nat) (hv : validateString enc s = true) :
    ∃ bytes, encodeString enc s = some bytes ∧ computeLength enc s = some bytes.length ∧ bytes.length < 65536 := by
  cases enc with
  | unknown => simp [validateString] at hv
  | utf16be =>
    simp only [validateString, decide_eq_true_eq] at hv
    have hfit : (s.flatMap charBytes).length < 65536 := by
      rw [utf16_bytes_length, sum_len_double]; omega
    exact ⟨_, encodeString_utf16 s, name_length_defined .utf16be s _ (encodeString_utf16 s) hfit, hfit⟩
  | macRoman =>
    simp only [validateString, Bool.and_eq_true, decide_eq_true_eq] at hv
    obtain ⟨bs, hb⟩ := mapM_macEncode_some s hv.2
    have hl := (mapM_macEncode s bs hb).1
    have hfit : bs.length < 65536 := by omega
    exact ⟨bs, hb, name_length_defined .macRoman s bs hb hfit, hfit⟩

/-- **Name strings read back**: for the two real encodings, every string of Unicode scalar values the writer can encode
decodes (`CharIter`, i.e. the `FromObjRef<NameString> for String` conversion) to the string that was written. -/
theorem name_string_roundtrip (enc : Encoding) (s : List Nat) (bytes : Bytes) (henc : enc ≠ .unknown)
    (hc : ∀ c ∈ s, isChar c = true) (hw : encodeString enc s = some bytes) : decodeString enc bytes = s := by
  cases enc with
  | utf16be =>
    rw [encodeString_utf16] at hw
    injection hw with hw
    subst hw
    exact decodeUtf16_encode s hc
  | macRoman => exact (mapM_macEncode s bytes hw).2
  | unknown => exact absurd rfl henc

/-- non-vacuity: "a😀" (U+1F600 is a surrogate pair): 3 code units = 6 bytes; the seeded defect C04-1 computed 4 -/
example : encodeString .utf16be [0x61, 0x1F600] = some [0, 0x61, 0xD8, 0x3D, 0xDE, 0x00]
    ∧ computeLength .utf16be [0x61, 0x1F600] = some 6
    ∧ decodeString .utf16be [0, 0x61, 0xD8, 0x3D, 0xDE, 0x00] = [0x61, 0x1F600] := by decide

/-- non-vacuity: MacRoman "Ä™" = bytes 0x80 0xAA; a char outside MacRoman makes the writer panic -/
example : encodeString .macRoman [0xC4, 0x2122] = some [0x80, 0xAA] ∧ computeLength .macRoman [0xC4, 0x2122] = some 2
    ∧ encodeString .macRoman [0x3A9, 0x4E00] = none ∧ Encoding.new 1 0 = .macRoman ∧ Encoding.new 3 10 = .utf16be
    ∧ Encoding.new 3 3 = .unknown := by decide

/-! ## the value record as an element of the field DSL (Props/C04.lean, generated pairs of Gen/WriteProgs.lean)

The translator gives a `ValueRecord` field / `Vec` of records that contain value records the writer item
`WItem.arrayV [] 2` ("any number of 16-bit scalars") and the reader segments `[(popcnt 8 value_format, [2])]`
(`ValueFormat::record_byte_len`).  These two theorems tie that reading to the hand model of this file. -/

/-- **The hand-written `FontWrite for ValueRecord` is the DSL's element writer.**  For every owned record whose scalars
fit 16 bits: writing the flat element `flat o` (the raw values of the slots the format contains, in source order) with
the DSL's `arrayV [] 2` element writer produces exactly `ValueRecord.write o`. -/
theorem value_record_is_arrayV_element (o : Owned) (h : WellSized o) :
    emitRecsV [] 2 [flat o] = some (ValueRecord.write o) := by
  have hs : ∀ e ∈ slots o, e.2 < 65536 := by
    obtain ⟨h1, h2, h3, h4, h5, h6, h7, h8⟩ := h
    intro e he
    simp only [slots, List.mem_cons, List.mem_nil_iff, or_false] at he
    rcases he with he | he | he | he | he | he | he | he <;> subst he
    · exact getD_lt _ h1
    · exact getD_lt _ h2
    · exact getD_lt _ h3
    · exact getD_lt _ h4
    · exact devOff_lt _ h5
    · exact devOff_lt _ h6
    · exact devOff_lt _ h7
    · exact devOff_lt _ h8
  have := emitRec_slotVals (slots o) hs
  simp only [emitRecsV, List.length_nil, Nat.zero_le, if_true, wWidths, List.nil_append, Nat.sub_zero]
  simp only [flat, this, ValueRecord.write, List.append_nil]

/-- **The element size the generated readers compute is the size the record has.**  The flat element has
`popcount 8 (format o)` scalars — the `popcnt 8` segment of the reader layouts (`<ValueRecord as
ComputeSize>::compute_size(&value_format)` = `count_ones * 2`) — so the hypothesis `Assume.elemLen` of the PairPos /
SinglePos pairs says: every record was written with the table's value format. -/
theorem value_record_flat_length (o : Owned) : (flat o).length = popcount 8 (format o) :=
  flat_length o

def exFlatRec : Owned :=
  { explicitFormat := none, xPlacement := none, yPlacement := some 7, xAdvance := some 65535, yAdvance := none,
    xPlaDev := some 40, yPlaDev := none, xAdvDev := none, yAdvDev := none }
example : flat exFlatRec = [7, 65535, 40] := by decide

end FontVerif.C04Hand
