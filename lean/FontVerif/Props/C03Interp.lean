/-
C03, part 3 — interpolation, shifting and alignment opcodes of the TrueType interpreter:
skrifa (Model/HintInterp.lean) = FreeType 2.12.1 (Model/FtInterp.lean), on top of the projection /
movement theorems of Props/C03Vec.lean.  Same conventions: `skrifa = some (FreeType)` for all operands
in explicit ranges (`Pos29`, `Dist24`, `ProjOk`, …); where FreeType's intermediate is a 64-bit product or
quotient (IP's `FT_MulDiv`, ISECT's `FT_MulDiv`s and `19 * |discriminant|`, IUP's `FT_DivFix` scale) the
statement is either the truncated equality for ALL i32 operands or the exact one under an explicit
"fits 32 bits" hypothesis, with `example`s of the two sides differing outside.
-/
import FontVerif.Props.C03Vec
import FontVerif.Lemmas.InterpEq
import FontVerif.Model.HintInterp
import FontVerif.Model.FtInterp
set_option linter.unusedVariables false
set_option linter.unusedSimpArgs false
set_option maxRecDepth 8000
namespace FontVerif.C03
open FontVerif FontVerif.Tt

/-! ### IP -/

/-- **IP, the new distance**: `mul_div(original_distance, cur_range, old_range)` is FreeType's
`FT_MulDiv( org_dist, cur_range, old_range )` truncated to 32 bits, for ALL i32 operands, including the
branches `org_dist == 0` and `old_range == 0`. -/
theorem ip_new_dist_eq (o c r : Int) (ho : inI32 o) (hc : inI32 c) (hr : inI32 r) :
    HintInterp.ipNewDist o c r = wrapI32 (FtInterp.ipNewDist o c r) := by
  unfold HintInterp.ipNewDist FtInterp.ipNewDist HintMath.mulDiv
  by_cases h0 : o = 0
  · subst h0; simp only [ne_eq, not_true_eq_false, if_false]; decide
  · by_cases h1 : r = 0
    · simp only [h0, h1, ne_eq, not_false_eq_true, not_true_eq_false, if_true, if_false]
      exact (wrapI32_id ho).symm
    · simp only [h0, h1, ne_eq, not_false_eq_true, if_true]
      exact muldiv_eq o c r ho hc hr

/-- … and exactly FreeType's whenever that fits an `i32`. -/
theorem ip_new_dist_eq_exact (o c r : Int) (ho : inI32 o) (hc : inI32 c) (hr : inI32 r)
    (hf : inI32 (FtInterp.ipNewDist o c r)) :
    HintInterp.ipNewDist o c r = FtInterp.ipNewDist o c r := by
  rw [ip_new_dist_eq o c r ho hc hr, wrapI32_id hf]

example : HintInterp.ipNewDist 640 (-300) 1000 = -192 ∧ FtInterp.ipNewDist 640 (-300) 1000 = -192
    ∧ HintInterp.ipNewDist 640 (-300) 0 = 640 ∧ HintInterp.ipNewDist 0 5 7 = 0 := by decide
-- FreeType's 64-bit quotient: a huge stretch (cur_range 2^20 over old_range 1) keeps 41 bits
example : FtInterp.ipNewDist 1048576 1048576 1 = 1099511627776
    ∧ HintInterp.ipNewDist 1048576 1048576 1 = 0 := by decide

/-- a zone point whose three positions are within ±2^29. -/
theorem zpos_parts {p : ZPt} (h : ZPos29 p) : Pos29 p.org ∧ Pos29 p.cur ∧ Pos29 p.orus := h

/-- **IP, the ranges** `(old_range, cur_range)`. -/
theorem ip_ranges_eq (g : HintVec.Proj) (tw : Bool) (b r2 : ZPt) (hg : ProjOk g) (hb : ZPos29 b)
    (hr : ZPos29 r2) :
    HintInterp.ipRanges g tw b r2 = some (FtInterp.ipRanges (toFuncs g) tw b r2) := by
  unfold HintInterp.ipRanges FtInterp.ipRanges
  cases tw
  · simp only [Bool.false_eq_true, if_false]
    rw [dual_project_eq g _ _ hg hr.2.2 hb.2.2, project_eq g _ _ hg hr.2.1 hb.2.1]
    rfl
  · simp only [if_true]
    rw [dual_project_eq g _ _ hg hr.1 hb.1, project_eq g _ _ hg hr.2.1 hb.2.1]
    rfl

/-- FreeType's `org_dist` of a point in `Ins_IP`. -/
def ipOrgDist (g : HintVec.Proj) (tw : Bool) (b p : ZPt) : Int :=
  if tw then FtVec.dualproj (toFuncs g) p.org b.org else FtVec.dualproj (toFuncs g) p.orus b.orus

/-- **IP, one point**: same resulting coordinates and touch flags, when FreeType's new distance for
this point fits 32 bits and the move it requests is within ±2^24. -/
theorem ip_point_eq (g : HintVec.Proj) (bc iupd tw : Bool) (oldR curR : Int) (b p : ZPt) (hg : ProjOk g)
    (hb : ZPos29 b) (hp : ZPos29 p) (ho : inI32 oldR) (hc : inI32 curR)
    (hfit : inI32 (FtInterp.ipNewDist (ipOrgDist g tw b p) curR oldR))
    (hmv : Dist24 (FtCalc.subLong (FtInterp.ipNewDist (ipOrgDist g tw b p) curR oldR)
      (FtVec.project (toFuncs g) p.cur b.cur))) :
    HintInterp.ipPoint g bc iupd tw oldR curR b p = some (FtInterp.ipPoint (toFuncs g) bc iupd tw oldR curR b p) := by
  unfold HintInterp.ipPoint FtInterp.ipPoint
  have hmp : MPos29 ⟨p.cur.x, p.cur.y, p.tx, p.ty⟩ := hp.2.1
  -- the two projected distances are i32 values
  have dp_i32 : ∀ v1 v2 : Vec, Pos29 v1 → Pos29 v2 → inI32 (FtVec.dualproj (toFuncs g) v1 v2) := by
    intro v1 v2 h1 h2
    have ex := wsub_exact h1.1 h2.1
    have ey := wsub_exact h1.2 h2.2
    unfold Pos29 Dist29 at h1 h2
    unfold FtVec.dualproj FtVec.funcDualproj toFuncs
    rw [ex.2, ey.2]
    cases hax : g.dualAxis <;> simp only [axisToProj]
    · unfold FtCalc.dotFix14; exact wrapI32_in _
    · unfold inI32; omega
    · unfold inI32; omega
  have pj_i32 : ∀ v1 v2 : Vec, Pos29 v1 → Pos29 v2 → inI32 (FtVec.project (toFuncs g) v1 v2) := by
    intro v1 v2 h1 h2
    have ex := wsub_exact h1.1 h2.1
    have ey := wsub_exact h1.2 h2.2
    unfold Pos29 Dist29 at h1 h2
    unfold FtVec.project FtVec.funcProject toFuncs
    rw [ex.2, ey.2]
    cases hax : g.projAxis <;> simp only [axisToProj]
    · unfold FtCalc.dotFix14; exact wrapI32_in _
    · unfold inI32; omega
    · unfold inI32; omega
  have fin : ∀ od cd : Int, inI32 od → inI32 cd → inI32 (FtInterp.ipNewDist od curR oldR) →
      Dist24 (FtCalc.subLong (FtInterp.ipNewDist od curR oldR) cd) →
      HintVec.movePoint g bc iupd ⟨p.cur.x, p.cur.y, p.tx, p.ty⟩ (HintMove.wsub (HintInterp.ipNewDist od curR oldR) cd)
      = FtVec.funcMove (toFuncs g) bc iupd ⟨p.cur.x, p.cur.y, p.tx, p.ty⟩ (FtCalc.subLong (FtInterp.ipNewDist od curR oldR) cd) := by
    intro od cd hod hcd hn hd
    rw [ip_new_dist_eq_exact od curR oldR hod hc ho hn]
    have e : HintMove.wsub (FtInterp.ipNewDist od curR oldR) cd = FtCalc.subLong (FtInterp.ipNewDist od curR oldR) cd := by
      have hd' := hd
      unfold Dist24 FtCalc.subLong at hd'
      unfold inI32 at hn hcd
      unfold HintMove.wsub FtCalc.subLong
      have h64 : wrapI64 (FtInterp.ipNewDist od curR oldR - cd) = FtInterp.ipNewDist od curR oldR - cd :=
        wI64 (by omega) (by omega)
      rw [h64] at hd' ⊢
      exact wI32 (by omega) (by omega)
    rw [e]
    exact move_point_eq g bc iupd _ _ hg hmp hd
  unfold ipOrgDist at hfit hmv
  cases tw
  · simp only [Bool.false_eq_true, if_false] at hfit hmv ⊢
    rw [dual_project_eq g _ _ hg hp.2.2 hb.2.2, project_eq g _ _ hg hp.2.1 hb.2.1]
    simp only [Option.bind_some, Option.map_some, Option.some.injEq]
    exact fin _ _ (dp_i32 _ _ hp.2.2 hb.2.2) (pj_i32 _ _ hp.2.1 hb.2.1) hfit hmv
  · simp only [if_true] at hfit hmv ⊢
    rw [dual_project_eq g _ _ hg hp.1 hb.1, project_eq g _ _ hg hp.2.1 hb.2.1]
    simp only [Option.bind_some, Option.map_some, Option.some.injEq]
    exact fin _ _ (dp_i32 _ _ hp.1 hb.1) (pj_i32 _ _ hp.2.1 hb.2.1) hfit hmv

-- non-vacuity: y axis, rp1 at 0 → 64 (moved up one pixel), rp2 at 640 → 640, the point at 320:
-- new distance 320 * 576 / 640 = 288 from rp1, i.e. the point goes to y = 352 (a move of +32)
example :
    let g : HintVec.Proj := ⟨⟨0, 16384⟩, ⟨0, 16384⟩, ⟨0, 16384⟩, 16384, .y, .y, .y⟩
    let b : ZPt := ⟨⟨0, 0⟩, ⟨0, 64⟩, ⟨0, 0⟩, true, true, true⟩
    let p : ZPt := ⟨⟨100, 320⟩, ⟨100, 320⟩, ⟨100, 320⟩, false, false, true⟩
    inI32 (FtInterp.ipNewDist (ipOrgDist g false b p) 576 640)
    ∧ Dist24 (FtCalc.subLong (FtInterp.ipNewDist (ipOrgDist g false b p) 576 640) (FtVec.project (toFuncs g) p.cur b.cur))
    ∧ HintInterp.ipPoint g false false false 640 576 b p = some ⟨100, 352, false, true⟩
    ∧ FtInterp.ipPoint (toFuncs g) false false false 640 576 b p = ⟨100, 352, false, true⟩ := by
  unfold inI32 Dist24; decide

/-! ### SHPIX, ALIGNRP, ALIGNPTS, MSIRP, MDAP -/

/-- **SHPIX**: the displacement `(mul14(amount, fv.x), mul14(amount, fv.y))` = `TT_MulFix14( args[0], … )`
for every i32 amount (FreeType truncates `args[0]` to `FT_Int32`), and the backward-compatibility
condition for moving the point is the same boolean function. -/
theorem shpix_eq (fv : Vec) (amount : Int) (ha : inI32 amount) (bc iupd tw comp ty : Bool) :
    HintInterp.shpixDisp fv amount = FtInterp.shpixDisp fv amount ∧
    HintInterp.shpixMoves bc iupd tw comp fv ty = FtInterp.shpixMoves bc iupd tw comp fv ty := by
  unfold HintInterp.shpixDisp FtInterp.shpixDisp
  rw [wrapI32_id ha]
  exact ⟨rfl, rfl⟩

/-- the projection of two points within ±2^20 per coordinate is within ±(2^23 + 1). -/
theorem ft_project_small (g : HintVec.Proj) (v1 v2 : Vec) (hg : ProjOk g)
    (h1 : (-1048576 ≤ v1.x ∧ v1.x ≤ 1048576) ∧ (-1048576 ≤ v1.y ∧ v1.y ≤ 1048576))
    (h2 : (-1048576 ≤ v2.x ∧ v2.x ≤ 1048576) ∧ (-1048576 ≤ v2.y ∧ v2.y ≤ 1048576)) :
    -8388609 ≤ FtVec.project (toFuncs g) v1 v2 ∧ FtVec.project (toFuncs g) v1 v2 ≤ 8388609 := by
  obtain ⟨⟨hpx, hpy⟩, _, _, _, _⟩ := hg
  unfold FtVec.project FtVec.funcProject toFuncs FtCalc.subLong
  rw [wI64 (by omega) (by omega), wI64 (by omega) (by omega)]
  cases hax : g.projAxis <;> simp only [axisToProj]
  · rw [wI32 (by omega) (by omega), wI32 (by omega) (by omega)]
    have m1 := mul_abs_bound (A := 2097152) (B := 32767) (a := v1.x - v2.x) (b := g.pv.x) (by omega) hpx
    have m2 := mul_abs_bound (A := 2097152) (B := 32767) (a := v1.y - v2.y) (b := g.pv.y) (by omega) hpy
    unfold FtCalc.dotFix14
    have hp : -137434759168 ≤ (v1.x - v2.x) * g.pv.x + (v1.y - v2.y) * g.pv.y ∧
        (v1.x - v2.x) * g.pv.x + (v1.y - v2.y) * g.pv.y ≤ 137434759168 := by omega
    generalize (v1.x - v2.x) * g.pv.x + (v1.y - v2.y) * g.pv.y = q at hp ⊢
    have e1 : wrapI64 q = q := wI64 (by omega) (by omega)
    simp only [e1]
    have e2 : wrapI64 (q + (8192 + if q < 0 then -1 else 0)) = q + (8192 + if q < 0 then -1 else 0) :=
      wI64 (by split <;> omega) (by split <;> omega)
    rw [e2]
    have hq : -8388609 ≤ (q + (8192 + if q < 0 then -1 else 0)) / 16384 ∧
        (q + (8192 + if q < 0 then -1 else 0)) / 16384 ≤ 8388609 := by split <;> omega
    rw [wI32 (by omega) (by omega)]
    exact hq
  · omega
  · omega

/-- a point within ±2^20 per coordinate. -/
def Pos20 (v : Vec) : Prop := (-1048576 ≤ v.x ∧ v.x ≤ 1048576) ∧ (-1048576 ≤ v.y ∧ v.y ≤ 1048576)

/-- **ALIGNRP**, one point: moved by minus its projected distance from rp0. -/
theorem alignrp_eq (g : HintVec.Proj) (bc iupd : Bool) (p : HintVec.MPt) (rp0 : Vec) (hg : ProjOk g)
    (hp : MPos20 p) (hr : Pos20 rp0) :
    HintInterp.alignrp g bc iupd p rp0 = some (FtInterp.alignrp (toFuncs g) bc iupd p rp0) := by
  have hp29 : Pos29 ⟨p.x, p.y⟩ := by unfold MPos20 at hp; unfold Pos29 Dist29; simp only []; omega
  have hr29 : Pos29 rp0 := by unfold Pos20 at hr; unfold Pos29 Dist29; omega
  have hmp : MPos29 p := by unfold MPos20 at hp; unfold MPos29 Dist29; omega
  have hb := ft_project_small g ⟨p.x, p.y⟩ rp0 hg hp hr
  unfold HintInterp.alignrp FtInterp.alignrp
  rw [project_eq g _ _ hg hp29 hr29]
  simp only [Option.map_some, Option.some.injEq]
  generalize FtVec.project (toFuncs g) ⟨p.x, p.y⟩ rp0 = d at hb
  have e : HintRound.wneg d = FtCalc.negLong d := by
    unfold HintRound.wneg FtCalc.negLong; rw [wI32 (by omega) (by omega), wI64 (by omega) (by omega)]
  rw [e]
  exact move_point_eq g bc iupd p _ hg hmp (by unfold Dist24 FtCalc.negLong; rw [wI64 (by omega) (by omega)]; omega)

/-- **ALIGNPTS**: half the projected distance, truncating towards zero on both sides. -/
theorem alignpts_eq (g : HintVec.Proj) (p2 p1 : Vec) (hg : ProjOk g) (h2 : Pos29 p2) (h1 : Pos29 p1) :
    HintInterp.alignptsDist g p2 p1 = some (FtInterp.alignptsDist (toFuncs g) p2 p1) := by
  unfold HintInterp.alignptsDist FtInterp.alignptsDist
  rw [project_eq g _ _ hg h2 h1]; rfl

/-- **MSIRP** (glyph-zone part): same resulting coordinates and touch flags. -/
theorem msirp_eq (g : HintVec.Proj) (bc iupd : Bool) (p : HintVec.MPt) (rp0 : Vec) (d : Int) (hg : ProjOk g)
    (hp : MPos20 p) (hr : Pos20 rp0) (hd : -8388607 ≤ d ∧ d ≤ 8388607) :
    HintInterp.msirp g bc iupd p rp0 d = some (FtInterp.msirp (toFuncs g) bc iupd p rp0 d) := by
  have hp29 : Pos29 ⟨p.x, p.y⟩ := by unfold MPos20 at hp; unfold Pos29 Dist29; simp only []; omega
  have hr29 : Pos29 rp0 := by unfold Pos20 at hr; unfold Pos29 Dist29; omega
  have hmp : MPos29 p := by unfold MPos20 at hp; unfold MPos29 Dist29; omega
  have hb := ft_project_small g ⟨p.x, p.y⟩ rp0 hg hp hr
  unfold HintInterp.msirp FtInterp.msirp
  rw [project_eq g _ _ hg hp29 hr29]
  simp only [Option.map_some, Option.some.injEq]
  generalize FtVec.project (toFuncs g) ⟨p.x, p.y⟩ rp0 = k at hb
  have e : HintMove.wsub d k = FtCalc.subLong d k := by
    unfold HintMove.wsub FtCalc.subLong; rw [wI32 (by omega) (by omega), wI64 (by omega) (by omega)]
  rw [e]
  exact move_point_eq g bc iupd p _ hg hmp (by unfold Dist24 FtCalc.subLong; rw [wI64 (by omega) (by omega)]; omega)

/-- FreeType's rounded value is within 2^23 of its argument.  True for every round state SROUND can
produce; proved here for the six fixed modes (`round_near_fixed`), a hypothesis for Super / Super45. -/
def RoundNear (mode thr ph per d : Int) : Prop :=
  -8388608 ≤ FtRound.round mode thr ph per 0 d - d ∧ FtRound.round mode thr ph per 0 d - d ≤ 8388608

theorem round_near_fixed (mode thr ph per d : Int) (hm : 0 ≤ mode ∧ mode ≤ 5)
    (hd : -1073741824 ≤ d ∧ d ≤ 1073741824) : RoundNear mode thr ph per d := by
  have hm' : mode = 0 ∨ mode = 1 ∨ mode = 2 ∨ mode = 3 ∨ mode = 4 ∨ mode = 5 := by omega
  unfold RoundNear FtRound.round
  rcases hm' with e | e | e | e | e | e <;> subst e <;>
    simp only [show ((0:Int) = 1) = False from by decide, show ((2:Int) = 1) = False from by decide,
      show ((2:Int) = 0) = False from by decide,
      show ((3:Int) = 1) = False from by decide, show ((3:Int) = 0) = False from by decide,
      show ((3:Int) = 2) = False from by decide,
      show ((1:Int) = 0) = False from by decide,
      show ((4:Int) = 0) = False from by decide, show ((4:Int) = 1) = False from by decide,
      show ((4:Int) = 2) = False from by decide, show ((4:Int) = 3) = False from by decide,
      show ((5:Int) = 0) = False from by decide, show ((5:Int) = 1) = False from by decide,
      show ((5:Int) = 2) = False from by decide, show ((5:Int) = 3) = False from by decide,
      show ((5:Int) = 4) = False from by decide,
      if_false, if_true] <;>
    simp only [FtRound.roundToGrid, FtRound.roundToHalfGrid, FtRound.roundToDoubleGrid,
      FtRound.roundDownToGrid, FtRound.roundUpToGrid, FtRound.roundNone,
      FtCalc.pixRoundLong, FtCalc.pixCeilLong, FtCalc.padRoundLong32, FtCalc.pixFloor,
      FtCalc.addLong, FtCalc.subLong, FtCalc.negLong] <;>
    (by_cases hp : d ≥ 0 <;> simp only [hp, if_false, if_true] <;>
      simp (disch := omega) only [wI64, land_neg32'] <;> (repeat' split) <;> omega)

/-- **MDAP[a]**: rounding the point's own projection with the current round state (ranges of
`round_state_eq`), or just touching it. -/
theorem mdap_eq (g : HintVec.Proj) (bc iupd a : Bool) (mode thr ph per : Int) (p : HintVec.MPt)
    (hg : ProjOk g) (hp : MPos20 p) (hm : 0 ≤ mode ∧ mode ≤ 7) (ht : -1048576 ≤ thr ∧ thr ≤ 1048576)
    (hph : -1048576 ≤ ph ∧ ph ≤ 1048576) (hper : 0 < per ∧ per ≤ 1048576)
    (hnear : RoundNear mode thr ph per (FtVec.fastProject (toFuncs g) ⟨p.x, p.y⟩)) :
    HintInterp.mdap g bc iupd a mode thr ph per p = some (FtInterp.mdap (toFuncs g) bc iupd a mode thr ph per p) := by
  have hz : Pos29 Vec.zero := by unfold Pos29 Dist29 Vec.zero; simp only []; omega
  have hz20 : Pos20 Vec.zero := by unfold Pos20 Vec.zero; simp only []; omega
  have hp29 : Pos29 ⟨p.x, p.y⟩ := by unfold MPos20 at hp; unfold Pos29 Dist29; simp only []; omega
  have hmp : MPos29 p := by unfold MPos20 at hp; unfold MPos29 Dist29; omega
  unfold HintInterp.mdap FtInterp.mdap
  cases a
  · simp only [Bool.false_eq_true, if_false, Option.some.injEq]
    exact move_point_eq g bc iupd p 0 hg hmp (by unfold Dist24; omega)
  · simp only [if_true]
    have hb := ft_project_small g ⟨p.x, p.y⟩ Vec.zero hg hp hz20
    rw [(ft_project_zero _ _ hp29).1] at hb
    rw [project_eq g _ _ hg hp29 hz, (ft_project_zero _ _ hp29).1]
    simp only [Option.bind_some]
    unfold RoundNear at hnear
    generalize FtVec.fastProject (toFuncs g) ⟨p.x, p.y⟩ = cur at hb hnear
    have hr := round_state_eq mode thr ph per cur hm ht hph hper (by omega)
    rw [hr]
    simp only [Option.map_some, Option.some.injEq]
    generalize FtRound.round mode thr ph per 0 cur = r at hnear
    have e : HintMove.wsub r cur = FtCalc.subLong r cur := by
      unfold HintMove.wsub FtCalc.subLong; rw [wI32 (by omega) (by omega), wI64 (by omega) (by omega)]
    rw [e]
    exact move_point_eq g bc iupd p _ hg hmp (by unfold Dist24 FtCalc.subLong; rw [wI64 (by omega) (by omega)]; omega)

-- MDAP[1] with round-to-grid on the y axis: y = 100 → 128
example : HintInterp.mdap ⟨⟨0, 16384⟩, ⟨0, 16384⟩, ⟨0, 16384⟩, 16384, .y, .y, .y⟩ false false true 0 0 0 64 ⟨7, 100, false, false⟩
      = some ⟨7, 128, false, true⟩
    ∧ FtInterp.mdap (toFuncs ⟨⟨0, 16384⟩, ⟨0, 16384⟩, ⟨0, 16384⟩, 16384, .y, .y, .y⟩) false false true 0 0 0 64 ⟨7, 100, false, false⟩
      = ⟨7, 128, false, true⟩ := by decide

/-! ### ISECT -/

/-- a point within ±2^14 26.6 units (256 px) per coordinate: the range in which every product of ISECT
(`FT_MulDiv( d, d', 0x40 )`, `19 * |discriminant|`) fits 32 bits. -/
def Pos14 (v : Vec) : Prop := (-16384 ≤ v.x ∧ v.x ≤ 16384) ∧ (-16384 ≤ v.y ∧ v.y ≤ 16384)

/-- **ISECT**: the same branch is taken (incl. the parallel-lines fallback `19·|disc| ≤ |dot|`), the
fallback midpoint is identical, and the intersection point is FreeType's truncated to 32 bits
(FreeType's `FT_MulDiv( val, dax, discriminant )` is a 64-bit quotient: nearly parallel lines put the
intersection arbitrarily far away). -/
theorem isect_eq (a0 a1 b0 b1 : Vec) (ha0 : Pos14 a0) (ha1 : Pos14 a1) (hb0 : Pos14 b0) (hb1 : Pos14 b1) :
    HintInterp.isect a0 a1 b0 b1 =
      ⟨wrapI32 (FtInterp.isect a0 a1 b0 b1).x, wrapI32 (FtInterp.isect a0 a1 b0 b1).y⟩ := by
  unfold Pos14 at *
  have sub : ∀ a b : Int, (-16384 ≤ a ∧ a ≤ 16384) → (-16384 ≤ b ∧ b ≤ 16384) →
      HintMove.wsub a b = a - b ∧ FtCalc.subLong a b = a - b := by
    intro a b h1 h2; unfold HintMove.wsub FtCalc.subLong
    exact ⟨wI32 (by omega) (by omega), wI64 (by omega) (by omega)⟩
  unfold HintInterp.isect FtInterp.isect
  simp only []
  rw [(sub b1.x b0.x hb1.1 hb0.1).1, (sub b1.x b0.x hb1.1 hb0.1).2,
    (sub b1.y b0.y hb1.2 hb0.2).1, (sub b1.y b0.y hb1.2 hb0.2).2,
    (sub a1.x a0.x ha1.1 ha0.1).1, (sub a1.x a0.x ha1.1 ha0.1).2,
    (sub a1.y a0.y ha1.2 ha0.2).1, (sub a1.y a0.y ha1.2 ha0.2).2,
    (sub b0.x a0.x hb0.1 ha0.1).1, (sub b0.x a0.x hb0.1 ha0.1).2,
    (sub b0.y a0.y hb0.2 ha0.2).1, (sub b0.y a0.y hb0.2 ha0.2).2]
  have hdbx : -32768 ≤ b1.x - b0.x ∧ b1.x - b0.x ≤ 32768 := by omega
  have hdby : -32768 ≤ b1.y - b0.y ∧ b1.y - b0.y ≤ 32768 := by omega
  have hdax : -32768 ≤ a1.x - a0.x ∧ a1.x - a0.x ≤ 32768 := by omega
  have hday : -32768 ≤ a1.y - a0.y ∧ a1.y - a0.y ≤ 32768 := by omega
  have hdx : -32768 ≤ b0.x - a0.x ∧ b0.x - a0.x ≤ 32768 := by omega
  have hdy : -32768 ≤ b0.y - a0.y ∧ b0.y - a0.y ≤ 32768 := by omega
  generalize b1.x - b0.x = dbx at *
  generalize b1.y - b0.y = dby at *
  generalize a1.x - a0.x = dax at *
  generalize a1.y - a0.y = day at *
  generalize b0.x - a0.x = dx at *
  generalize b0.y - a0.y = dy at *
  have eneg : HintRound.wneg dby = -dby ∧ FtCalc.negLong dby = -dby := by
    unfold HintRound.wneg FtCalc.negLong
    exact ⟨wI32 (by omega) (by omega), wI64 (by omega) (by omega)⟩
  rw [eneg.1, eneg.2]
  have hndby : -32768 ≤ -dby ∧ -dby ≤ 32768 := by omega
  rw [muldiv64_eq dax (-dby) hdax hndby, muldiv64_eq day dbx hday hdbx, muldiv64_eq dax dbx hdax hdbx,
    muldiv64_eq day dby hday hdby, muldiv64_eq dx (-dby) hdx hndby, muldiv64_eq dy dbx hdy hdbx]
  have m1 := ft_muldiv64_bound dax (-dby) hdax hndby
  have m2 := ft_muldiv64_bound day dbx hday hdbx
  have m3 := ft_muldiv64_bound dax dbx hdax hdbx
  have m4 := ft_muldiv64_bound day dby hday hdby
  have m5 := ft_muldiv64_bound dx (-dby) hdx hndby
  have m6 := ft_muldiv64_bound dy dbx hdy hdbx
  generalize FtCalc.mulDiv dax (-dby) 64 = t1 at *
  generalize FtCalc.mulDiv day dbx 64 = t2 at *
  generalize FtCalc.mulDiv dax dbx 64 = t3 at *
  generalize FtCalc.mulDiv day dby 64 = t4 at *
  generalize FtCalc.mulDiv dx (-dby) 64 = t5 at *
  generalize FtCalc.mulDiv dy dbx 64 = t6 at *
  have add : ∀ a b : Int, (-16777217 ≤ a ∧ a ≤ 16777217) → (-16777217 ≤ b ∧ b ≤ 16777217) →
      HintMove.wadd a b = a + b ∧ FtCalc.addLong a b = a + b := by
    intro a b h1 h2; unfold HintMove.wadd FtCalc.addLong
    exact ⟨wI32 (by omega) (by omega), wI64 (by omega) (by omega)⟩
  rw [(add t1 t2 m1 m2).1, (add t1 t2 m1 m2).2, (add t3 t4 m3 m4).1, (add t3 t4 m3 m4).2,
    (add t5 t6 m5 m6).1, (add t5 t6 m5 m6).2]
  have hdisc : -33554434 ≤ t1 + t2 ∧ t1 + t2 ≤ 33554434 := by omega
  have hdot : -33554434 ≤ t3 + t4 ∧ t3 + t4 ≤ 33554434 := by omega
  have hv : -33554434 ≤ t5 + t6 ∧ t5 + t6 ≤ 33554434 := by omega
  generalize t1 + t2 = disc at *
  generalize t3 + t4 = dot at *
  generalize t5 + t6 = v at *
  have eabs : ∀ t : Int, (-33554434 ≤ t ∧ t ≤ 33554434) → HintInterp.wabs32 t = FtInterp.absL t ∧
      0 ≤ FtInterp.absL t ∧ FtInterp.absL t ≤ 33554434 := by
    intro t ht; unfold HintInterp.wabs32 FtInterp.absL
    split
    · rw [wI32 (by omega) (by omega)]; omega
    · omega
  rw [(eabs disc hdisc).1, (eabs dot hdot).1]
  have h19 : wrapI32 (FtInterp.absL disc * 19) = 19 * FtInterp.absL disc ∧
      wrapI64 (19 * FtInterp.absL disc) = 19 * FtInterp.absL disc := by
    have := (eabs disc hdisc).2
    exact ⟨by rw [wI32 (by omega) (by omega)]; omega, wI64 (by omega) (by omega)⟩
  rw [h19.1, h19.2]
  by_cases hbr : 19 * FtInterp.absL disc > FtInterp.absL dot
  · simp only [hbr, if_true, Vec.mk.injEq]
    have hX := ft_muldiv_i64 v dax disc (by unfold inI32; omega) (by unfold inI32; omega) (by unfold inI32; omega)
    have hY := ft_muldiv_i64 v day disc (by unfold inI32; omega) (by unfold inI32; omega) (by unfold inI32; omega)
    have eX : HintMath.mulDiv v dax disc = wrapI32 (FtCalc.mulDiv v dax disc) := by
      unfold HintMath.mulDiv
      exact muldiv_eq v dax disc (by unfold inI32; omega) (by unfold inI32; omega) (by unfold inI32; omega)
    have eY : HintMath.mulDiv v day disc = wrapI32 (FtCalc.mulDiv v day disc) := by
      unfold HintMath.mulDiv
      exact muldiv_eq v day disc (by unfold inI32; omega) (by unfold inI32; omega) (by unfold inI32; omega)
    rw [eX, eY]
    generalize FtCalc.mulDiv v dax disc = X at hX ⊢
    generalize FtCalc.mulDiv v day disc = Y at hY ⊢
    unfold HintMove.wadd FtCalc.addLong
    rw [wrap_add_wrap, wrap_add_wrap, wI64 (by omega) (by omega), wI64 (by omega) (by omega)]
    exact ⟨rfl, rfl⟩
  · simp only [hbr, if_false, Vec.mk.injEq]
    unfold HintMove.wadd FtCalc.addLong
    have q : ∀ p q r s : Int, (-16384 ≤ p ∧ p ≤ 16384) → (-16384 ≤ q ∧ q ≤ 16384) → (-16384 ≤ r ∧ r ≤ 16384) →
        (-16384 ≤ s ∧ s ≤ 16384) →
        Int.tdiv (wrapI32 (wrapI32 (wrapI32 (p + q) + r) + s)) 4 =
          wrapI32 (Int.tdiv (wrapI64 (wrapI64 (p + q) + wrapI64 (r + s))) 4) := by
      intro p q r s hp hq hr hs
      rw [wI32 (show -2147483648 ≤ p + q by omega) (by omega), wI32 (show -2147483648 ≤ p + q + r by omega) (by omega),
        wI32 (show -2147483648 ≤ p + q + r + s by omega) (by omega),
        wI64 (show -9223372036854775808 ≤ p + q by omega) (by omega), wI64 (show -9223372036854775808 ≤ r + s by omega) (by omega),
        wI64 (show -9223372036854775808 ≤ p + q + (r + s) by omega) (by omega)]
      have e : p + q + r + s = p + q + (r + s) := by omega
      rw [e]
      have hb : -65536 ≤ p + q + (r + s) ∧ p + q + (r + s) ≤ 65536 := by omega
      generalize p + q + (r + s) = t at hb
      by_cases ht : 0 ≤ t
      · rw [Int.tdiv_eq_ediv_of_nonneg ht, wI32 (by omega) (by omega)]
      · have : t = -(-t) := by omega
        rw [this, Int.neg_tdiv, Int.tdiv_eq_ediv_of_nonneg (by omega), wI32 (by omega) (by omega)]
    exact ⟨q _ _ _ _ ha0.1 ha1.1 hb0.1 hb1.1, q _ _ _ _ ha0.2 ha1.2 hb0.2 hb1.2⟩

-- perpendicular lines meeting at (100, 200); parallel lines → the middle of the four points
example : HintInterp.isect ⟨0, 200⟩ ⟨400, 200⟩ ⟨100, 0⟩ ⟨100, 300⟩ = ⟨100, 200⟩
    ∧ FtInterp.isect ⟨0, 200⟩ ⟨400, 200⟩ ⟨100, 0⟩ ⟨100, 300⟩ = ⟨100, 200⟩
    ∧ HintInterp.isect ⟨0, 0⟩ ⟨400, 0⟩ ⟨0, 100⟩ ⟨400, 100⟩ = ⟨200, 50⟩
    ∧ FtInterp.isect ⟨0, 0⟩ ⟨400, 0⟩ ⟨0, 100⟩ ⟨400, 100⟩ = ⟨200, 50⟩ := by decide
-- the 1/19 threshold: 19·|disc| = |dot| is still "parallel" (disc = 400·21/64 → 131, dot = 2500 …)
-- outside the range (segments 8192 px long): the dot product needs 33 bits; FreeType finds the lines
-- nearly parallel (midpoint), skrifa's wrapped value does not
example : (HintInterp.isect ⟨8120, -13097⟩ ⟨532367, 3552⟩ ⟨4788, -12655⟩ ⟨532367, 3552⟩).x = 532367
    ∧ (FtInterp.isect ⟨8120, -13097⟩ ⟨532367, 3552⟩ ⟨4788, -12655⟩ ⟨532367, 3552⟩).x = 269410 := by decide

/-! ### IUP -/

/-- the interpolation term of `_iup_worker_interpolate` for a point with unscaled coordinate `u`:
`FT_MulFix( u - orus1, FT_DivFix( cur2 - cur1, orus2 - orus1 ) )`. -/
def iupTermCore (orus1 orus2 cur1 cur2 u : Int) : Int :=
  FtCalc.mulFix (FtCalc.subLong u orus1) (FtCalc.divFix (FtCalc.subLong cur2 cur1) (FtCalc.subLong orus2 orus1))

def iupTerm (ax : Bool) (r1 r2 : ZPt) (u : Int) : Int :=
  iupTermCore (FtInterp.co ax r1.orus) (FtInterp.co ax r2.orus) (FtInterp.co ax r1.cur) (FtInterp.co ax r2.cur) u

/-- **IUP, one interpolated point** on the six reference coordinates: the `<= org1` / `>= org2` shifts,
the snap `cur1` when the references coincide, and the interpolation
`cur1 + mul(u - orus1, div(cur2 - cur1, orus2 - orus1))`.  FreeType's `scale` is a 64-bit `FT_DivFix` that
`FT_MulFix` truncates to 32 bits, exactly what skrifa's `i32` `div` holds, so no bound on the stretch is
needed; the only hypothesis beyond ±2^29 coordinates is that the interpolation term itself is within
±2^30 (it is at most |cur2 − cur1| + 1 when `u` lies between the references' unscaled coordinates). -/
theorem iup_interp_core_eq (orus1 orus2 org1 org2 cur1 cur2 a u : Int)
    (hu1 : Dist29 orus1) (hu2 : Dist29 orus2) (ho1 : Dist29 org1) (ho2 : Dist29 org2)
    (hc1 : Dist29 cur1) (hc2 : Dist29 cur2) (ha : Dist29 a) (hu : Dist29 u)
    (hterm : -1073741824 ≤ iupTermCore orus1 orus2 cur1 cur2 u ∧ iupTermCore orus1 orus2 cur1 cur2 u ≤ 1073741824) :
    HintInterp.interpCore orus1 orus2 org1 org2 cur1 cur2 a u
      = some (FtInterp.interpCore orus1 orus2 org1 org2 cur1 cur2 a u) := by
  unfold iupTermCore at hterm
  unfold HintInterp.interpCore FtInterp.interpCore
  simp only []
  unfold Dist29 at *
  have sub : ∀ p q : Int, (-536870912 ≤ p ∧ p ≤ 536870912) → (-536870912 ≤ q ∧ q ≤ 536870912) →
      HintMove.wsub p q = p - q ∧ FtCalc.subLong p q = p - q := by
    intro p q hp hq; unfold HintMove.wsub FtCalc.subLong
    exact ⟨wI32 (by omega) (by omega), wI64 (by omega) (by omega)⟩
  have add : ∀ p q : Int, (-536870912 ≤ p ∧ p ≤ 536870912) → (-1073741824 ≤ q ∧ q ≤ 1073741824) →
      HintMove.wadd p q = p + q ∧ FtCalc.addLong p q = p + q := by
    intro p q hp hq; unfold HintMove.wadd FtCalc.addLong
    exact ⟨wI32 (by omega) (by omega), wI64 (by omega) (by omega)⟩
  rw [(sub cur1 org1 hc1 ho1).1, (sub cur1 org1 hc1 ho1).2, (sub cur2 org2 hc2 ho2).1, (sub cur2 org2 hc2 ho2).2]
  have e1 := add a (cur1 - org1) ha (by omega)
  have e2 := add a (cur2 - org2) ha (by omega)
  by_cases hsnap : cur1 = cur2 ∨ orus1 = orus2
  · simp only [hsnap, if_true, e1.1, e1.2, e2.1, e2.2]
  · simp only [hsnap, if_false]
    have cd : HintMath.chk (orus2 - orus1) = some (orus2 - orus1) := by
      unfold HintMath.chk; rw [if_pos (by omega)]
    simp only [cd, Option.bind_some]
    by_cases hlo : a ≤ org1
    · simp only [hlo, if_true, e1.1, e1.2]
    · by_cases hhi : a ≥ org2
      · simp only [hlo, hhi, if_true, if_false, e2.1, e2.2]
      · simp only [hlo, hhi, if_false]
        have cu : HintMath.chk (u - orus1) = some (u - orus1) := by
          unfold HintMath.chk; rw [if_pos (by omega)]
        simp only [cu, Option.map_some, Option.some.injEq]
        rw [(sub cur2 cur1 hc2 hc1).2, (sub orus2 orus1 hu2 hu1).2, (sub u orus1 hu hu1).2] at hterm
        rw [(sub cur2 cur1 hc2 hc1).1, (sub cur2 cur1 hc2 hc1).2, (sub orus2 orus1 hu2 hu1).2,
          (sub u orus1 hu hu1).2]
        -- skrifa's scale is FreeType's truncated to 32 bits, which is all FT_MulFix looks at
        have es : HintMath.div (cur2 - cur1) (orus2 - orus1) = wrapI32 (FtCalc.divFix (cur2 - cur1) (orus2 - orus1)) := by
          unfold HintMath.div
          exact divfix_eq _ _ (by unfold inI32; omega) (by unfold inI32; omega)
        rw [es]
        have em : HintMath.mul (u - orus1) (wrapI32 (FtCalc.divFix (cur2 - cur1) (orus2 - orus1)))
            = FtCalc.mulFix (u - orus1) (FtCalc.divFix (cur2 - cur1) (orus2 - orus1)) := by
          unfold HintMath.mul
          rw [mulfix_eq _ _ (by unfold inI32; omega) (wrapI32_in _), ← mulFix_wrap_right]
        rw [em]
        generalize FtCalc.mulFix (u - orus1) (FtCalc.divFix (cur2 - cur1) (orus2 - orus1)) = t at hterm ⊢
        rw [(add cur1 t hc1 hterm).1, (add cur1 t hc1 hterm).2]

theorem iup_interp_coord_eq (ax : Bool) (r1 r2 : ZPt) (a u : Int) (h1 : ZPos29 r1) (h2 : ZPos29 r2)
    (ha : Dist29 a) (hu : Dist29 u)
    (hterm : -1073741824 ≤ iupTerm ax r1 r2 u ∧ iupTerm ax r1 r2 u ≤ 1073741824) :
    HintInterp.interpCoord ax r1 r2 a u = some (FtInterp.interpCoord ax r1 r2 a u) := by
  have c29 : ∀ v : Vec, Pos29 v → Dist29 (FtInterp.co ax v) := by
    intro v hv; unfold FtInterp.co; split; exact hv.1; exact hv.2
  unfold HintInterp.interpCoord FtInterp.interpCoord
  simp only [co_eq]
  exact iup_interp_core_eq _ _ _ _ _ _ a u (c29 _ h1.2.2) (c29 _ h2.2.2) (c29 _ h1.1) (c29 _ h2.1)
    (c29 _ h1.2.1) (c29 _ h2.2.1) ha hu hterm

-- interpolation between references moved by +64 and +128: the midpoint moves by +96
example : HintInterp.interpCore 0 1000 0 1000 64 1128 500 500 = some 596
    ∧ FtInterp.interpCore 0 1000 0 1000 64 1128 500 500 = 596
    ∧ HintInterp.interpCore 0 1000 0 1000 64 1128 (-10) (-10) = some 54
    ∧ HintInterp.interpCore 0 1000 0 1000 64 1128 1000 1000 = some 1128 := by decide

/-- **IUP, one shifted point**: `point += delta` with `delta = cur[p] - org[p]` of the single touched point. -/
theorem iup_shift_coord_eq (c rc ro : Int) (hc : Dist29 c) (hrc : Dist29 rc) (hro : Dist29 ro) :
    HintMove.wsub rc ro = FtCalc.subLong rc ro ∧
    HintMove.wadd c (HintMove.wsub rc ro) = FtCalc.addLong c (FtCalc.subLong rc ro) := by
  unfold Dist29 at *
  unfold HintMove.wsub HintMove.wadd FtCalc.subLong FtCalc.addLong
  rw [wI32 (show -2147483648 ≤ rc - ro by omega) (by omega), wI64 (show -9223372036854775808 ≤ rc - ro by omega) (by omega),
    wI32 (by omega) (by omega), wI64 (by omega) (by omega)]
  exact ⟨rfl, rfl⟩

/-- **IUP, one `iup_interpolate` call on a zone**: same resulting zone, for a zone whose positions are all
within ±2^29 and whose interpolation terms (`iupTerm`) are within ±2^30. -/
theorem iup_interpolate_eq (ax : Bool) (pts : List ZPt) (p1 p2 ref1 ref2 : Nat)
    (hall : ∀ p ∈ pts, ZPos29 p)
    (hterm : ∀ r1 r2 p : ZPt, r1 ∈ pts → r2 ∈ pts → p ∈ pts →
      -1073741824 ≤ iupTerm ax r1 r2 (FtInterp.co ax p.orus) ∧ iupTerm ax r1 r2 (FtInterp.co ax p.orus) ≤ 1073741824) :
    HintInterp.iupInterpolate ax pts p1 p2 ref1 ref2 = some (FtInterp.iupInterpolate ax pts p1 p2 ref1 ref2) := by
  unfold HintInterp.iupInterpolate FtInterp.iupInterpolate
  by_cases h1 : p1 > p2
  · simp only [h1, if_true]
  · simp only [h1, if_false]
    by_cases h2 : ref1 ≥ pts.length ∨ ref2 ≥ pts.length
    · simp only [h2, if_true]
    · simp only [h2, if_false]
      cases hr1 : pts[ref1]? with
      | none => simp only []
      | some r1 =>
        cases hr2 : pts[ref2]? with
        | none => simp only []
        | some r2 =>
          simp only [orderRefs_eq]
          have m1 : r1 ∈ pts := List.mem_of_getElem? hr1
          have m2 : r2 ∈ pts := List.mem_of_getElem? hr2
          -- the ordered references are two members of the zone
          have hmem : (FtInterp.orderRefs ax r1 r2).1 ∈ pts ∧ (FtInterp.orderRefs ax r1 r2).2 ∈ pts := by
            unfold FtInterp.orderRefs; split <;> exact ⟨by assumption, by assumption⟩
          generalize FtInterp.orderRefs ax r1 r2 = rr at hmem
          obtain ⟨ra, rb⟩ := rr
          simp only [] at hmem ⊢
          unfold HintInterp.mapRange FtInterp.mapRange
          apply mapM_some_of_forall
          intro ⟨q, i⟩ hq
          have hqm : q ∈ pts := (List.mem_zipIdx hq).2.2 ▸ List.getElem_mem _
          simp only []
          split
          · have hz := hall q hqm
            have c29 : ∀ v : Vec, Pos29 v → Dist29 (FtInterp.co ax v) := by
              intro v hv; unfold FtInterp.co; split; exact hv.1; exact hv.2
            rw [iup_interp_coord_eq ax ra rb _ _ (hall _ hmem.1) (hall _ hmem.2)
              (by rw [co_eq]; exact c29 _ hz.1) (by rw [co_eq]; exact c29 _ hz.2.2)
              (by rw [co_eq]; exact hterm ra rb q hmem.1 hmem.2 hqm)]
            simp only [Option.map_some, co_eq, setCo_eq]
          · rfl

/-- **IUP, one `iup_shift` call on a zone** (the only call site passes `p1 ≤ p ≤ p2`: first point of the
contour, its only touched point, end point): same resulting zone. -/
theorem iup_shift_eq (ax : Bool) (pts : List ZPt) (p1 p2 p : Nat) (hall : ∀ q ∈ pts, ZPos29 q)
    (hord : p1 ≤ p ∧ p ≤ p2) :
    HintInterp.iupShift ax pts p1 p2 p = some (FtInterp.iupShift ax pts p1 p2 p) := by
  unfold HintInterp.iupShift FtInterp.iupShift
  have hg : ¬ (p1 > p2 ∨ p1 > p ∨ p > p2) := by omega
  simp only [hg, if_false]
  cases hr : pts[p]? with
  | none => simp only []
  | some r =>
    simp only [co_eq]
    have mr : r ∈ pts := List.mem_of_getElem? hr
    have c29 : ∀ v : Vec, Pos29 v → Dist29 (FtInterp.co ax v) := by
      intro v hv; unfold FtInterp.co; split; exact hv.1; exact hv.2
    have hrz := hall r mr
    have e0 := (iup_shift_coord_eq 0 _ _ (by unfold Dist29; omega) (c29 _ hrz.2.1) (c29 _ hrz.1)).1
    simp only [e0]
    by_cases hd : FtCalc.subLong (FtInterp.co ax r.cur) (FtInterp.co ax r.org) = 0
    · simp only [hd, if_true]
    · simp only [hd, if_false]
      apply mapM_some_of_forall
      intro ⟨q, i⟩ hq
      have hqm : q ∈ pts := (List.mem_zipIdx hq).2.2 ▸ List.getElem_mem _
      have hqz := hall q hqm
      simp only []
      have hc : (p1 ≤ i ∧ i ≤ p2 ∧ i ≠ p) ↔ ((p1 ≤ i ∧ i < p) ∨ (p + 1 ≤ i ∧ i ≤ p2)) := by omega
      by_cases hin : p1 ≤ i ∧ i ≤ p2 ∧ i ≠ p
      · have hin' := hc.mp hin
        have e1 := (iup_shift_coord_eq (FtInterp.co ax q.cur) (FtInterp.co ax r.cur) (FtInterp.co ax r.org)
          (c29 _ hqz.2.1) (c29 _ hrz.2.1) (c29 _ hrz.1))
        have e2 := e1.2
        rw [e1.1] at e2
        rw [if_pos hin, if_pos hin']
        simp only [Option.some.injEq, setCo_eq, co_eq, e2]
      · have hin' : ¬ ((p1 ≤ i ∧ i < p) ∨ (p + 1 ≤ i ∧ i ≤ p2)) := fun h => hin (hc.mpr h)
        simp only [hin, hin', if_false]

/-! ### UTP, FLIPPT, FLIPRGON / FLIPRGOFF (flag-only instructions) -/

/-- **UTP**: the same flags are cleared (along the non-zero components of the freedom vector). -/
theorem utp_eq (fv : Vec) (p : ZPt) : HintInterp.utp fv p = FtInterp.utp fv p := rfl

/-- **FLIPPT** (one point) and **FLIPRGON / FLIPRGOFF** (inclusive range): same on-curve flags.  What
happens to the arguments of a FLIPPT that backward compatibility blocks is part of the step functions
(fix 2e3eaf9). -/
theorem flip_eq (p : ZPt) (pts : List ZPt) (lo hi : Nat) (on : Bool) :
    HintInterp.flipPt p = FtInterp.flipPt p ∧ HintInterp.flipRange pts lo hi on = FtInterp.flipRange pts lo hi on :=
  ⟨rfl, rfl⟩

end FontVerif.C03
