/-
C17 — klippa's cmap subsetter (klippa/src/cmap.rs): the format 4 and format 12 subtables it writes
answer exactly the (code point, new glyph id) list they were given.
Property theorems only; model: Model/SubsetCmap.lean (writer) + Model/Cmap.lean (C08's reader model of
read-fonts `Cmap4::map_codepoint` / `Cmap12::map_codepoint`); lemmas: Lemmas/SubsetCmap4.lean,
SubsetCmap4Top.lean, SubsetCmap12.lean and C08's Lemmas/Cmap*.lean.
-/
import FontVerif.Model.SubsetCmap
import FontVerif.Lemmas.SubsetCmap12
import FontVerif.Lemmas.SubsetCmap4
import FontVerif.Lemmas.SubsetCmap4Top
import FontVerif.Lemmas.SubsetCmap4Total
import FontVerif.Lemmas.SubsetCmapTable
import FontVerif.Lemmas.SubsetCmapUvs
set_option linter.unusedVariables false
namespace FontVerif.C17Cmap
open FontVerif FontVerif.Cmap FontVerif.SubsetCmap

/-! ### format 4: `to_ranges` -/

/-- VALID SEGMENTATION, for every outcome of the cost heuristic.  For every list of BMP pairs with
16-bit glyph ids (no sortedness needed) and ANY pair of decision functions `h` (when to commit a run,
when to split a range in front of its last run — including decisions that "panic"): if `to_ranges`
finishes, what it wrote is `body ++ terminator` where `body` tiles the list (`BodyOk`: every range is a
block of consecutive listed code points starting where the previous one stopped; a range with a
non-zero idDelta has constant `gid − cp` equal to that delta mod 65536) and the terminator
(0xFFFF, 0xFFFF, 1) is present exactly when the last listed code point is not U+FFFF. -/
theorem fmt4_ranges_valid_any_heuristic (h : Heur) (l : Mapping)
    (hb : ∀ p ∈ l, p.1 ≤ 0xFFFF ∧ p.2 ≤ 0xFFFF) (hne : l ≠ [])
    (rs : List Range) (hr : toRangesWith h l = some rs) :
    ∃ body, rs = body ++ sentinel (cpAt l.toArray (l.length - 1)) ∧
      BodyOk (cpAt l.toArray) (gidAt l.toArray) 0 l.length body :=
  toRangesWith_spec h l hb hne rs hr

/-- … in particular for the heuristic klippa implements (split costs 8 / 16, `run_length * 2`) -/
theorem fmt4_ranges_valid (l : Mapping) (hb : ∀ p ∈ l, p.1 ≤ 0xFFFF ∧ p.2 ≤ 0xFFFF) (hne : l ≠ [])
    (rs : List Range) (hr : toRanges l = some rs) :
    ∃ body, rs = body ++ sentinel (cpAt l.toArray (l.length - 1)) ∧
      BodyOk (cpAt l.toArray) (gidAt l.toArray) 0 l.length body :=
  toRangesWith_spec implHeur l hb hne rs hr

/-- the array-level reading of "valid segmentation": in C08's index form the ranges are a tiling
(`SegsTile`) of the list -/
theorem fmt4_ranges_tile (h : Heur) (l : Mapping) (hb : ∀ p ∈ l, p.1 ≤ 0xFFFF ∧ p.2 ≤ 0xFFFF) (hne : l ≠ [])
    (rs : List Range) (hr : toRangesWith h l = some rs) :
    ∃ body, rs = body ++ sentinel (cpAt l.toArray (l.length - 1)) ∧
      SegsTile (cpAt l.toArray) (gidAt l.toArray) 0 l.length
        (segsOf (cpAt l.toArray) (gidAt l.toArray) 0 body) := by
  obtain ⟨body, h1, h2⟩ := toRangesWith_spec h l hb hne rs hr
  exact ⟨body, h1, segsTile_of_bodyOk _ _ body 0 l.length h2⟩

/-- non-vacuity + the shape the seeded defect C17-1 broke: two short runs then a long one in one
block are written as a glyphIdArray range (idDelta 0) followed by a delta range -/
example : toRanges [(336, 15), (337, 16), (338, 7), (339, 8), (340, 17), (341, 18), (342, 9), (343, 10),
    (344, 11), (345, 12), (346, 13)] = some [(336, 341, 0), (342, 346, -333), (0xFFFF, 0xFFFF, 1)] := by decide
/-- a prefix that is a single run keeps its own delta -/
example : toRanges [(48, 9), (49, 10), (50, 20), (51, 21), (52, 22), (53, 23)] =
    some [(48, 49, -39), (50, 53, -30), (0xFFFF, 0xFFFF, 1)] := by decide
/-- no terminator after U+FFFF -/
example : toRanges [(0xFFFE, 3), (0xFFFF, 4)] = some [(0xFFFE, 0xFFFF, 5)] := by decide

/-! ### format 4: lookup -/

/-- LOOKUP, for every outcome of the cost heuristic.  For every strictly ascending list of BMP pairs
(no U+FFFF, glyph ids 1..=0xFFFF: C08's `InDomain`) and ANY heuristic `h`: if `Cmap4::serialize`
returns a table, read-fonts' `Cmap4::map_codepoint` on it answers `some v` for `c` exactly when
`(c, v)` is a listed pair — or `c` is U+FFFF, which the terminating segment maps to glyph 0.  So every
listed code point gets its new glyph id and every unlisted code point (any `c`, also above the BMP)
gets nothing. -/
theorem fmt4_lookup_any_heuristic (h : Heur) (l : Mapping) (hd : InDomain l) (hb : ∀ p ∈ l, p.1 ≤ 0xFFFF)
    (hne : l ≠ []) (t : Cmap4) (ht : build4With h l = .ok t) (c v : Nat) :
    map4 t c = some v ↔ (c, v) ∈ l ∨ (c = 0xFFFF ∧ v = 0) := by
  obtain ⟨body, rows, g, _, hbody, rfl, hrm⟩ := build4With_spec h l hd hb hne t ht
  have hm := mapOk_of_bmp l hd hb
  have hv := segsTile_of_bodyOk _ _ body 0 l.length hbody
  rw [mem_iff_index' l c v]
  constructor
  · intro hq
    by_cases hc : c = 0xFFFF
    · subst hc
      rw [map4_sentinel hm hv hrm] at hq
      exact Or.inr ⟨rfl, (Option.some.inj hq).symm⟩
    · by_cases hex : ∃ k, k < l.length ∧ cpAt l.toArray k = c
      · obtain ⟨k, hk, hck⟩ := hex
        rw [← hck, map4_mapped hm hv hrm k hk] at hq
        exact Or.inl ⟨k, hk, hck, Option.some.inj hq⟩
      · rw [map4_unmapped hm hv hrm c hc (fun k hk hck => hex ⟨k, hk, hck⟩)] at hq
        cases hq
  · rintro (⟨k, hk, hck, hgk⟩ | ⟨rfl, rfl⟩)
    · rw [← hck, ← hgk]
      exact map4_mapped hm hv hrm k hk
    · exact map4_sentinel hm hv hrm

/-- LOOKUP for the implemented heuristic -/
theorem fmt4_lookup (l : Mapping) (hd : InDomain l) (hb : ∀ p ∈ l, p.1 ≤ 0xFFFF) (hne : l ≠ [])
    (t : Cmap4) (ht : build4 l = .ok t) (c v : Nat) :
    map4 t c = some v ↔ (c, v) ∈ l ∨ (c = 0xFFFF ∧ v = 0) :=
  fmt4_lookup_any_heuristic implHeur l hd hb hne t ht c v

/-- every listed character maps to its new glyph id -/
theorem fmt4_lookup_listed (l : Mapping) (hd : InDomain l) (hb : ∀ p ∈ l, p.1 ≤ 0xFFFF)
    (t : Cmap4) (ht : build4 l = .ok t) (c g : Nat) (hmem : (c, g) ∈ l) : map4 t c = some g :=
  (fmt4_lookup l hd hb (List.ne_nil_of_mem hmem) t ht c g).2 (Or.inl hmem)

/-- every unlisted code point (U+FFFF excepted: glyph 0) maps to nothing -/
theorem fmt4_lookup_unlisted (l : Mapping) (hd : InDomain l) (hb : ∀ p ∈ l, p.1 ≤ 0xFFFF) (hne : l ≠ [])
    (t : Cmap4) (ht : build4 l = .ok t) (c : Nat) (hc : c ≠ 0xFFFF) (hno : ∀ v, (c, v) ∉ l) :
    map4 t c = none := by
  cases hq : map4 t c with
  | none => rfl
  | some v =>
    rcases (fmt4_lookup l hd hb hne t ht c v).1 hq with h1 | ⟨h1, _⟩
    · exact absurd h1 (hno v)
    · exact absurd h1 hc

/-- SUCCESS + LOOKUP together, for the implemented writer: for every strictly ascending list of at most
6551 BMP pairs (10·n + 24 ≤ 65535: what a 16-bit subtable length always holds) without U+FFFF and with
glyph ids in 1..=0xFFFE, `Cmap4::serialize` neither panics (no `u16` overflow in `to_ranges`) nor
fails, and the subtable answers exactly the list (plus glyph 0 for U+FFFF). -/
theorem fmt4_roundtrip (l : Mapping) (hd : InDomain l) (hb : ∀ p ∈ l, p.1 ≤ 0xFFFF) (hg : ∀ p ∈ l, p.2 < 0xFFFF)
    (hne : l ≠ []) (hlen : l.length ≤ 6551) :
    ∃ t, build4 l = .ok t ∧ ∀ c v, map4 t c = some v ↔ (c, v) ∈ l ∨ (c = 0xFFFF ∧ v = 0) := by
  obtain ⟨t, ht⟩ := build4_total l hd hb hg hne hlen
  exact ⟨t, ht, fmt4_lookup l hd hb hne t ht⟩

example : InDomain [(336, 15), (337, 16), (338, 7), (339, 8), (340, 17), (341, 18), (342, 9), (343, 10),
    (344, 11), (345, 12), (346, 13)] := ⟨by unfold Ascending; decide, by decide, by decide⟩
example : build4 [(336, 15), (337, 16), (338, 7), (339, 8), (340, 17), (341, 18), (342, 9), (343, 10),
    (344, 11), (345, 12), (346, 13)] =
    .ok { endCode := #[341, 346, 0xFFFF], startCode := #[336, 342, 0xFFFF], idDelta := #[0, -333, 1],
          idRangeOffsets := #[6, 0, 0], glyphIdArray := #[15, 16, 7, 8, 17, 18] } := by decide

/-! ### format 4: the binary search header -/

/-- `entrySelector = ⌊log2 segCount⌋`, `searchRange = 2·2^entrySelector ≤ 2·segCount`,
`rangeShift = 2·segCount − searchRange` for every segment count ≥ 1 -/
theorem fmt4_search_fields (n : Nat) (hn : 1 ≤ n) :
    2 ^ entrySelector n ≤ n ∧ n < 2 ^ (entrySelector n + 1) ∧
    searchRange n = 2 * 2 ^ entrySelector n ∧ rangeShift n = 2 * n - searchRange n := by
  have hne : n ≠ 0 := by omega
  have hes : entrySelector n = Nat.log2 n := by
    unfold entrySelector
    simp only [hne, if_false]
    omega
  have h1 : 2 ^ Nat.log2 n ≤ n := Nat.log2_self_le hne
  have h2 : n < 2 ^ (Nat.log2 n + 1) := Nat.lt_log2_self
  refine ⟨by rw [hes]; exact h1, by rw [hes]; exact h2, rfl, ?_⟩
  unfold rangeShift searchRange
  rw [hes]
  split <;> omega

example : (entrySelector 39, searchRange 39, rangeShift 39) = (5, 64, 14) := by decide

/-! ### format 12 -/

/-- For EVERY strictly ascending list of pairs with code points up to U+10FFFF and 16-bit glyph ids
(`Listed`; U+FFFF, glyph 0 and an empty list allowed) `Cmap12::serialize`'s group merging never traps,
and `Cmap12::map_codepoint` on the groups it writes answers `some v` for `c` exactly when `(c, v)` is
listed — for every 32-bit `c`, so also for every code point above U+FFFF. -/
theorem fmt12_lookup (l : Mapping) (hl : Listed l) :
    ∃ gs, groups12 l = some gs ∧
      ∀ c v, c < 4294967296 → (map12 gs.toArray c = some v ↔ (c, v) ∈ l) := by
  obtain ⟨gs, h1, h2, h3⟩ := groups12_spec l hl
  refine ⟨gs, h1, fun c v hc => ?_⟩
  have hb : GroupsBounded gs := groupsBounded_of_expand gs 0 h2 (h3 ▸ listed_small hl)
  rw [map12_iff gs 0 h2 hb c v hc, h3]

/-- the groups are ascending, disjoint and well formed (`start ≤ end`), and expand to exactly the list -/
theorem fmt12_groups_valid (l : Mapping) (hl : Listed l) :
    ∃ gs, groups12 l = some gs ∧ GroupsOk 0 gs ∧ expandGroups gs = l :=
  groups12_spec l hl

/-- unlisted code points get nothing -/
theorem fmt12_lookup_unlisted (l : Mapping) (hl : Listed l) (gs : List Group) (h : groups12 l = some gs)
    (c : Nat) (hc : c < 4294967296) (hno : ∀ v, (c, v) ∉ l) : map12 gs.toArray c = none := by
  obtain ⟨gs', h1, h2⟩ := fmt12_lookup l hl
  rw [h] at h1
  cases h1
  cases hq : map12 gs.toArray c with
  | none => rfl
  | some v => exact absurd ((h2 c v hc).1 hq) (hno v)

example : Listed [(65, 5), (66, 6), (67, 9), (0xFFFF, 2), (0x1F600, 10), (0x1F601, 11), (0x10FFFF, 12)] :=
  ⟨by unfold Ascending; decide, by decide⟩
example : groups12 [(65, 5), (66, 6), (67, 9), (0xFFFF, 2), (0x1F600, 10), (0x1F601, 11), (0x10FFFF, 12)] =
    some [(65, 66, 5), (67, 67, 9), (0xFFFF, 0xFFFF, 2), (0x1F600, 0x1F601, 10), (0x10FFFF, 0x10FFFF, 12)] := by
  decide

/-! ### the table: which encoding records survive, and what they point at -/

/-- `retain_encoding_record_for_subset`: a record is considered at all iff it is one of the four
Unicode / Windows Unicode records (0,3) (0,4) (3,1) (3,10) or points at a format 14 subtable -/
theorem encoding_record_rule (r : RecIn) :
    retainRecord r = true ↔
      (r.platform = 0 ∧ r.encoding = 3) ∨ (r.platform = 0 ∧ r.encoding = 4) ∨
      (r.platform = 3 ∧ r.encoding = 1) ∨ (r.platform = 3 ∧ r.encoding = 10) ∨ r.sub.format? = some 14 := by
  simp [retainRecord, or_assoc]

/-- `Cmap::subset` + `serialize_cmap`, for EVERY list of source records and every plan: if a table is
produced (`d` = the format 4 subtables were dropped after overflowing 64 KiB), its encoding records are —
in source order — exactly the retained source records that `survive`:
a format 4 record survives iff `d` is false and its writer wrote something (its list is non-empty);
a format 12 record survives unless (`d` false and) `can_drop_format12` holds; a format 14 record
survives iff some default / non-default table of a requested selector is non-empty; records of other
formats and unreadable subtables never survive.  And every written record points at the object its
writer produced from the plan's list restricted to that subtable's own code points (`ObjFor`:
`Cmap4::serialize` on `list4`, `Cmap12::serialize` on `list12`, `Cmap14::serialize`). -/
theorem cmap_records_are_survivors (recs : List RecIn) (p : PlanIn) (st : CmapSer) (d : Bool)
    (h : subsetCmapSt recs p = .ok (st, d)) :
    st.records.map recKey =
      ((recs.filter retainRecord).filter (survives p (recs.filter retainRecord) d)).map
        (fun r => (r.platform, r.encoding)) ∧
    ∀ x ∈ st.records, ∃ r ∈ recs, retainRecord r = true ∧ (r.platform, r.encoding) = recKey x ∧
      ∃ o, st.packed[x.2.2]? = some o ∧ ObjFor p r o := by
  have key : ∀ dd st', serializeCmapGo p (recs.filter retainRecord) dd (recs.filter retainRecord) emptySer = .ok st' →
      st'.records.map recKey =
        ((recs.filter retainRecord).filter (survives p (recs.filter retainRecord) dd)).map
          (fun r => (r.platform, r.encoding)) ∧
      ∀ x ∈ st'.records, ∃ r ∈ recs, retainRecord r = true ∧ (r.platform, r.encoding) = recKey x ∧
        ∃ o, st'.packed[x.2.2]? = some o ∧ ObjFor p r o := by
    intro dd st' hgo
    obtain ⟨h1, h2⟩ := serializeCmapGo_spec p _ dd _ emptySer st' (fun r hr => hr)
      (fun x hx => by simp [emptySer] at hx) hgo
    refine ⟨by simpa [emptySer] using h1, fun x hx => ?_⟩
    obtain ⟨r, hr, hk, o, ho1, ho2⟩ := h2 x hx
    have hr' := List.mem_filter.1 hr
    exact ⟨r, hr'.1, hr'.2, hk, o, ho1, ho2⟩
  unfold subsetCmapSt at h
  simp only [] at h
  split at h
  · cases h
  · split at h
    · cases h
    · unfold serializeCmapSt at h
      simp only [] at h
      split at h
      · cases h
      · rename_i st0 hgo
        split at h
        · cases h
        · split at h
          · cases h
          · cases h
            exact key false st hgo
      · split at h
        · cases h
        · cases h
        · rename_i st1 hgo1
          split at h
          · cases h
          · split at h
            · cases h
            · cases h
              exact key true st hgo1
      · cases h

/-- when a table is produced the source has a BMP Unicode record or a format 12 subtable, and a
format 12 subtable only together with a full-repertoire record ((0,4) or (3,10)) — the refusal rules -/
theorem cmap_produced_only_with_unicode_records (recs : List RecIn) (p : PlanIn) (res : CmapSer × Bool)
    (h : subsetCmapSt recs p = .ok res) :
    ((recs.filter retainRecord).any (fun r => r.sub.format? == some 12) ∨
      (recs.filter retainRecord).any (fun r => r.platform == 0 && r.encoding == 3) ∨
      (recs.filter retainRecord).any (fun r => r.platform == 3 && r.encoding == 1)) ∧
    ((recs.filter retainRecord).any (fun r => r.sub.format? == some 12) = true →
      (recs.filter retainRecord).any (fun r => r.platform == 0 && r.encoding == 4) ∨
      (recs.filter retainRecord).any (fun r => r.platform == 3 && r.encoding == 10)) := by
  unfold subsetCmapSt at h
  simp only [] at h
  split at h
  · cases h
  · rename_i h1
    split at h
    · cases h
    · rename_i h2
      constructor
      · by_cases a : (recs.filter retainRecord).any (fun r => r.sub.format? == some 12) = true
        · exact Or.inl a
        · by_cases b : (recs.filter retainRecord).any (fun r => r.platform == 0 && r.encoding == 3) = true
          · exact Or.inr (Or.inl b)
          · by_cases c : (recs.filter retainRecord).any (fun r => r.platform == 3 && r.encoding == 1) = true
            · exact Or.inr (Or.inr c)
            · simp_all
      · intro a
        by_cases b : (recs.filter retainRecord).any (fun r => r.platform == 0 && r.encoding == 4) = true
        · exact Or.inl b
        · by_cases c : (recs.filter retainRecord).any (fun r => r.platform == 3 && r.encoding == 10) = true
          · exact Or.inr c
          · simp_all

/-! ### format 14: non-default UVS -/

/-- `copy_non_default_uvs`, for every source table and plan: if it does not hit its `unwrap`, the
mappings it writes are exactly the source mappings whose character is in the plan's unicodes or whose
glyph was requested (`keepNonDefault`), in source order, each glyph id replaced by its image under the
plan's glyph map (as a `u16`) -/
theorem uvs_non_default_retained (p : PlanIn) (maps : List (Nat × Nat)) (b : List Nat) (n : Nat)
    (h : copyNonDefault p maps = some (b, n)) :
    n = (maps.filter (keepNonDefault p)).length ∧
    ∃ news : List Nat, news.length = n ∧
      (∀ k (hk : k < n), ∃ hk' : k < (maps.filter (keepNonDefault p)).length,
        lookupMap p.glyphMap ((maps.filter (keepNonDefault p))[k]).2 = news[k]?) ∧
      b = (List.zip (maps.filter (keepNonDefault p)) news).flatMap
            (fun x => be24 x.1.1 ++ be16 (x.2 % 65536)) :=
  copyNonDefault_spec p maps b n h

/-- non-vacuity: one mapping kept through its character, one dropped, one kept through its glyph -/
def examplePlan : PlanIn :=
  { unicodes := [0x4E00, 0xFE00], u2g := [], glyphsRequested := [9], glyphMap := [(7, 1), (9, 2)], numGlyphs := 10 }

example : copyNonDefault examplePlan [(0x4E00, 7), (0x4E01, 8), (0x4E02, 9)] =
    some ([0, 0x4E, 0, 0, 1, 0, 0x4E, 2, 0, 2], 2) := by decide

example : survives examplePlan [] false ⟨1, 0, .other 6 0⟩ = false := by decide
example : retainRecord ⟨3, 10, .unreadable⟩ = true ∧ retainRecord ⟨1, 0, .other 6 0⟩ = false ∧
    retainRecord ⟨0, 5, .f14 []⟩ = true := by decide

/-! ### format 14: default UVS -/

/-- `copy_default_uvs` (both of its branches, after fix 2e8ae31), for every well-formed source table
(ranges ascending and disjoint, none starting at U+0000) and every plan (unicodes strictly ascending):
the ranges it writes stand for exactly the plan's unicodes that lie in a source range — the default
variation sequences of the source restricted to the kept characters — and no written count exceeds
255 (one byte). -/
theorem uvs_default_retained (p : PlanIn) (ranges rs : List (Nat × Nat))
    (hw : ranges.Pairwise (fun a b => a.1 + a.2 < b.1)) (hpos : ∀ r ∈ ranges, 1 ≤ r.1)
    (hasc : p.unicodes.Pairwise (· < ·)) (hlt : ∀ u ∈ p.unicodes, u < INVALID)
    (h : copyDefault p ranges = some rs) :
    (∀ c, c ∈ expandUvs rs ↔ c ∈ p.unicodes ∧ ∃ r ∈ ranges, r.1 ≤ c ∧ c ≤ r.1 + r.2) ∧
    ∀ r ∈ rs, r.2 ≤ 255 := by
  unfold copyDefault at h
  split at h
  · cases Option.some.inj h
    obtain ⟨e1, e2⟩ := defaultFew_spec ranges p.unicodes hasc hlt
    refine ⟨fun c => ?_, e2⟩
    rw [e1, List.mem_filter, foundIn_iff ranges hw c]
  · obtain ⟨e1, e2⟩ := defaultMany_spec p.unicodes hasc hlt ranges INVALID rs hw hpos (Or.inl rfl) h
    refine ⟨fun c => ?_, fun r hr => by rw [e2 r hr]; omega⟩
    rw [expandUvs_singletons rs e2, e1]
    simp only [pend, if_true, List.nil_append, List.mem_flatMap, visited, List.mem_filter,
      decide_eq_true_eq]
    constructor
    · rintro ⟨r, hr, hc, h1, h2⟩
      exact ⟨hc, r, hr, by omega, by omega⟩
    · rintro ⟨hc, r, hr, h1, h2⟩
      have := hpos r hr
      exact ⟨r, hr, hc, by omega, by omega⟩

/-- non-vacuity (the "many unicodes" branch; the binary search of the other branch is defined by
well-founded recursion and does not reduce by `decide` — it is exercised by the correspondence runs) -/
example : copyDefault { examplePlan with unicodes := [0x4E00, 0x4E01, 0x4E02, 0x4E10] } [(0x4E00, 2), (0x4E10, 0)] =
    some [(0x4E00, 0), (0x4E01, 0), (0x4E02, 0), (0x4E10, 0)] := by decide

end FontVerif.C17Cmap
