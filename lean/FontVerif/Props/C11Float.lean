/-
C11 (continued) — the floating point variation path and avar version 2.
Models: Model/FloatDelta.lean (compute_scalar_f32, compute_float_delta, apply_float_delta, avar 2 step of
        Fvar::user_to_normalized) over the exact IEEE model Model/Ieee.lean + Model/IeeeArith.lean.
Sections: 1 avar 2: shape, range, identities · 2 compute_float_delta walks the table like compute_delta
-/
import FontVerif.Model.FloatDelta
import FontVerif.Lemmas.FixedConv
set_option linter.unusedVariables false
namespace FontVerif.C11
open FontVerif FontVerif.Ieee FontVerif.FloatDelta

/-! ## 1. avar version 2 -/

theorem clampUnit_range (v : Int) : -16384 ≤ clampUnit v ∧ clampUnit v ≤ 16384 := by
  unfold clampUnit; split <;> (try split) <;> omega

theorem clampUnit_id (v : Int) (h : -16384 ≤ v ∧ v ≤ 16384) : clampUnit v = v := by
  unfold clampUnit; split <;> (try split) <;> omega

/-- **avar2_coord_range**: a coordinate either keeps its version-1 value (no index, no store,
unreadable row) or is replaced by a value in `[-1, 1]`: `from_f32` of ANY float — NaN, infinities,
huge sums — is clamped (after `fix:` f904e32; the code clamped to `[-2, 2)` before). -/
theorem avar2_coord_range (t : Avar2) (coords : List Int) (i : Nat) (v : Int) :
    avar2Coord t coords i v = v ∨
    (-16384 ≤ avar2Coord t coords i v ∧ avar2Coord t coords i v ≤ 16384) := by
  unfold avar2Coord
  simp only []
  split
  · split
    · right; exact clampUnit_range _
    · left; rfl
  · left; rfl

/-- **avar2_range**: when the version-1 coordinates are in `[-1, 1]` (they are for every valid
segment map: `user_to_normalized_avar_laws`), so is every coordinate after the avar-2 step. -/
theorem avar2_range (t : Avar2) (axisCount : Nat) (out : List Int)
    (hout : ∀ x ∈ out, -16384 ≤ x ∧ x ≤ 16384) :
    ∀ x ∈ applyAvar2 t axisCount out, -16384 ≤ x ∧ x ≤ 16384 := by
  intro x hx
  unfold applyAvar2 at hx
  simp only [] at hx
  split at hx
  · exact hout x hx
  · rw [List.mem_append] at hx
    rcases hx with hx | hx
    · rw [List.mem_map] at hx
      obtain ⟨vi, hvi, rfl⟩ := hx
      rcases avar2_coord_range t (out.take (min axisCount out.length)) vi.2 vi.1 with h | h
      · rw [h]
        have hm : vi.1 ∈ out.take (min axisCount out.length) := by
          have := List.mem_zipIdx hvi
          rcases vi with ⟨a, b⟩
          simp only at this ⊢
          rw [this.2.2]
          exact List.getElem_mem _
        exact hout _ (List.mem_of_mem_take hm)
      · exact h
    · exact hout x (List.mem_of_mem_drop hx)

/-- **avar2_length**: the step never resizes the slice. -/
theorem avar2_length (t : Avar2) (axisCount : Nat) (out : List Int) :
    (applyAvar2 t axisCount out).length = out.length := by
  unfold applyAvar2
  simp only []
  split
  · rfl
  · simp only [List.length_append, List.length_map, List.length_zipIdx, List.length_take,
      List.length_drop]
    omega

/-- **avar2_without_store**: a NULL / unreadable variation store leaves every coordinate at its
version-1 value (whatever the axis index map says). -/
theorem avar2_without_store (m : Option (Nat × Nat × List Nat)) (axisCount : Nat) (out : List Int) :
    applyAvar2 ⟨m, none⟩ axisCount out = out := by
  unfold applyAvar2
  simp only []
  split
  · rfl
  · have : ∀ (l : List Int) (k : Nat),
        (l.zipIdx k).map (fun vi => avar2Coord ⟨m, none⟩ (out.take (min axisCount out.length)) vi.2 vi.1) = l := by
      intro l
      induction l with
      | nil => intro k; rfl
      | cons a rest ih =>
        intro k
        simp only [List.zipIdx_cons, List.map_cons, ih]
        congr 1
        unfold avar2Coord
        rcases m with _ | ⟨fmt, cnt, data⟩
        · rfl
        · simp only []
          cases Tent.dsimGet fmt cnt data k <;> rfl
    rw [this]
    exact List.take_append_drop _ _

/-- **avar2_beyond_64_axes**: with more than 64 active axes the step is skipped
("No avar2 for monster fonts"). -/
theorem avar2_beyond_64_axes (t : Avar2) (axisCount : Nat) (out : List Int)
    (h : 64 < min axisCount out.length) : applyAvar2 t axisCount out = out := by
  unfold applyAvar2; simp [h]

/-- **avar2_slot**: what the step computes, spelled out — slot `i` (below the active length, at most
64) is `clamp(from_f32(v₁ᵢ.to_f32() + (Δ · 2⁻¹⁴) as f32))` where `Δ` is `compute_float_delta` of the
delta set chosen by the axis index map (or `(0, i)` without a map) evaluated at the WHOLE version-1
location; slots beyond the active length are untouched. -/
theorem avar2_slot (t : Avar2) (axisCount : Nat) (out : List Int)
    (h64 : min axisCount out.length ≤ 64) (i : Nat) (hi : i < out.length) :
    (applyAvar2 t axisCount out)[i]? =
      if i < min axisCount out.length then
        some (avar2Coord t (out.take (min axisCount out.length)) i out[i])
      else some out[i] := by
  unfold applyAvar2
  simp only []
  have : ¬ (min axisCount out.length > 64) := by omega
  simp only [this, if_false]
  by_cases hlt : i < min axisCount out.length
  · simp only [hlt, if_true]
    rw [List.getElem?_append_left (by simp; omega)]
    simp only [List.getElem?_map, List.getElem?_zipIdx, List.getElem?_take, hlt, if_true,
      Nat.zero_add]
    simp [List.getElem?_eq_getElem hi]
  · simp only [hlt, if_false]
    rw [List.getElem?_append_right (by simp; omega)]
    simp only [List.length_map, List.length_zipIdx, List.length_take, List.getElem?_drop]
    have : min axisCount out.length + (i - min (min axisCount out.length) out.length) = i := by
      omega
    rw [this, List.getElem?_eq_getElem hi]

/-- the whole of `Fvar::user_to_normalized`: version 1 (or no avar) is the settings loop alone. -/
theorem user_to_normalized_full_v1 (axes : List Normalize.AxisRec)
    (maps : Option (List (List (Int × Int)))) (settings : List (Nat × Int)) (outLen : Nat) :
    userToNormalizedFull axes maps none settings outLen =
      Normalize.userToNormalizedAll axes maps settings outLen := rfl

/-! ## 2. `compute_float_delta` walks the table exactly like `compute_delta` -/

theorem floatLoop_some_iff (regions : List (List (Int × Int × Int))) (coords : List Int) :
    ∀ (ds : List Int) (ris : List Nat) (accF : FVal) (accI : Int),
      (floatLoop regions coords ds ris accF).isSome =
      (Tent.deltaLoop regions coords ds ris accI).isSome := by
  intro ds
  induction ds with
  | nil => intro ris accF accI; simp [floatLoop, Tent.deltaLoop]
  | cons d rest ih =>
    intro ris accF accI
    cases ris with
    | nil => simp [floatLoop, Tent.deltaLoop]
    | cons ri ris =>
      simp only [floatLoop, Tent.deltaLoop]
      cases regions[ri]? with
      | none => rfl
      | some axes => exact ih ris _ _

/-- **float_delta_ok_iff**: `compute_float_delta` returns `Ok` on exactly the inputs on which
`compute_delta` does (same subtable / row / region-index checks; `compute_delta_ok_iff` of
Props/C11.lean says when that is). -/
theorem float_delta_ok_iff (regions : List (List (Int × Int × Int)))
    (subtables : List (Option Tent.SubTable)) (outer inner : Nat) (coords : List Int) :
    (computeFloatDelta regions subtables outer inner coords).isSome =
      (match Tent.computeDelta regions subtables outer inner coords with
       | .ok _ => true
       | .err => false) := by
  unfold computeFloatDelta Tent.computeDelta
  by_cases hc : coords.isEmpty
  · simp [hc]
  · simp only [hc, Bool.false_eq_true, if_false]
    cases subtables[outer]? with
    | none => rfl
    | some st =>
      cases st with
      | none => rfl
      | some st =>
        simp only []
        split
        · rfl
        · have := floatLoop_some_iff regions coords
            (Tent.deltaSet st.wordDeltaCount st.regionIndexes.length
              (st.data.take (Tent.deltaRowLen st.wordDeltaCount st.regionIndexes.length * st.itemCount)) inner)
            st.regionIndexes zero 0
          revert this
          cases floatLoop regions coords _ st.regionIndexes zero <;>
            cases Tent.deltaLoop regions coords _ st.regionIndexes 0 <;> simp

-- non-vacuity: one axis, identity map, store with one region (0, 1, 1) and delta 8192 (0.5):
-- at the maximum 1.0 + 0.5 is clamped to 1.0; at 0.5 the result is 0.5 + 0.25
example : applyAvar2 ⟨none, some ([[(0, 16384, 16384)]],
    [some ⟨1, 1, [0], [32, 0]⟩])⟩ 1 [16384] = [16384] := by decide +kernel
example : applyAvar2 ⟨none, some ([[(0, 16384, 16384)]],
    [some ⟨1, 1, [0], [32, 0]⟩])⟩ 1 [8192] = [12288] := by decide +kernel

end FontVerif.C11
