/-
C11 (continued) — the floating point variation path and avar version 2.
Models: Model/FloatDelta.lean (compute_scalar_f32, compute_float_delta, apply_float_delta, avar 2 step of
        Fvar::user_to_normalized) over the exact IEEE model Model/Ieee.lean + Model/IeeeArith.lean.
(accuracy for any axis count: Props/C11FloatAcc.lean)
Sections: 1 avar 2: shape, range, identities · 2 compute_float_delta walks the table like compute_delta ·
          3 the f32 tent scalar: range, support, peaks · 4 float deltas that are exact; avar 2 = clamp(v1 + Σδ)
-/
import FontVerif.Model.FloatDelta
import FontVerif.Lemmas.FixedConv
import FontVerif.Lemmas.IeeeArith
import FontVerif.Lemmas.FloatDelta
set_option linter.unusedVariables false
namespace FontVerif.C11
open FontVerif FontVerif.Ieee FontVerif.FloatDelta

/-! ## 1. avar version 2 -/

theorem clampUnit_range (v : Int) : -16384 ≤ clampUnit v ∧ clampUnit v ≤ 16384 := by
  unfold clampUnit; split <;> (try split) <;> omega

theorem clampUnit_id (v : Int) (h : -16384 ≤ v ∧ v ≤ 16384) : clampUnit v = v := by
  unfold clampUnit; split <;> (try split) <;> omega

/-- **avar2_coord_range**: a coordinate either keeps its version-1 value (no index, no store,
unreadable row) or is replaced by a value in `[-1, 1]`: `from_f32` of ANY float — NaN, infinities,
huge sums — is clamped (after `fix:` f904e32; the code clamped to `[-2, 2)` before). -/
theorem avar2_coord_range (t : Avar2) (coords : List Int) (i : Nat) (v : Int) :
    avar2Coord t coords i v = v ∨
    (-16384 ≤ avar2Coord t coords i v ∧ avar2Coord t coords i v ≤ 16384) := by
  unfold avar2Coord
  split
  · split
    · right; exact clampUnit_range _
    · left; rfl
  · left; rfl

/-- **avar2_range**: when the version-1 coordinates are in `[-1, 1]` (they are for every valid
segment map: `user_to_normalized_avar_laws`), so is every coordinate after the avar-2 step. -/
theorem avar2_range (t : Avar2) (axisCount : Nat) (out : List Int)
    (hout : ∀ x ∈ out, -16384 ≤ x ∧ x ≤ 16384) :
    ∀ x ∈ applyAvar2 t axisCount out, -16384 ≤ x ∧ x ≤ 16384 := by
  intro x hx
  unfold applyAvar2 at hx
  simp only [] at hx
  split at hx
  · exact hout x hx
  · rw [List.mem_append] at hx
    rcases hx with hx | hx
    · rw [List.mem_map] at hx
      obtain ⟨vi, hvi, rfl⟩ := hx
      rcases avar2_coord_range t (out.take (min axisCount out.length)) vi.2 vi.1 with h | h
      · rw [h]
        have hm : vi.1 ∈ out.take (min axisCount out.length) := by
          have := List.mem_zipIdx hvi
          rcases vi with ⟨a, b⟩
          simp only at this ⊢
          rw [this.2.2]
          exact List.getElem_mem _
        exact hout _ (List.mem_of_mem_take hm)
      · exact h
    · exact hout x (List.mem_of_mem_drop hx)

/-- **avar2_length**: the step never resizes the slice. -/
theorem avar2_length (t : Avar2) (axisCount : Nat) (out : List Int) :
    (applyAvar2 t axisCount out).length = out.length := by
  unfold applyAvar2
  simp only []
  split
  · rfl
  · simp only [List.length_append, List.length_map, List.length_zipIdx, List.length_take,
      List.length_drop]
    omega

/-- **avar2_without_store**: a NULL / unreadable variation store leaves every coordinate at its
version-1 value (whatever the axis index map says). -/
theorem avar2_without_store (m : Option (Nat × Nat × List Nat)) (axisCount : Nat) (out : List Int) :
    applyAvar2 ⟨m, none⟩ axisCount out = out := by
  unfold applyAvar2
  simp only []
  split
  · rfl
  · have : ∀ (l : List Int) (k : Nat),
        (l.zipIdx k).map (fun vi => avar2Coord ⟨m, none⟩ (out.take (min axisCount out.length)) vi.2 vi.1) = l := by
      intro l
      induction l with
      | nil => intro k; rfl
      | cons a rest ih =>
        intro k
        simp only [List.zipIdx_cons, List.map_cons, ih]
        congr 1
        unfold avar2Coord
        cases avar2Index ⟨m, none⟩ k <;> rfl
    rw [this]
    exact List.take_append_drop _ _

/-- **avar2_beyond_64_axes**: with more than 64 active axes the step is skipped
("No avar2 for monster fonts"). -/
theorem avar2_beyond_64_axes (t : Avar2) (axisCount : Nat) (out : List Int)
    (h : 64 < min axisCount out.length) : applyAvar2 t axisCount out = out := by
  unfold applyAvar2; simp [h]

/-- **avar2_slot**: what the step computes, spelled out — slot `i` (below the active length, at most
64) is `clamp(from_f32(v₁ᵢ.to_f32() + (Δ · 2⁻¹⁴) as f32))` where `Δ` is `compute_float_delta` of the
delta set chosen by the axis index map (or `(0, i)` without a map) evaluated at the WHOLE version-1
location; slots beyond the active length are untouched. -/
theorem avar2_slot (t : Avar2) (axisCount : Nat) (out : List Int)
    (h64 : min axisCount out.length ≤ 64) (i : Nat) (hi : i < out.length) :
    (applyAvar2 t axisCount out)[i]? =
      if i < min axisCount out.length then
        some (avar2Coord t (out.take (min axisCount out.length)) i out[i])
      else some out[i] := by
  unfold applyAvar2
  simp only []
  have : ¬ (min axisCount out.length > 64) := by omega
  simp only [this, if_false]
  by_cases hlt : i < min axisCount out.length
  · simp only [hlt, if_true]
    rw [List.getElem?_append_left (by simp; omega)]
    simp only [List.getElem?_map, List.getElem?_zipIdx, List.getElem?_take, hlt, if_true,
      Nat.zero_add]
    simp [List.getElem?_eq_getElem hi]
  · simp only [hlt, if_false]
    rw [List.getElem?_append_right (by simp; omega)]
    simp only [List.length_map, List.length_zipIdx, List.length_take, List.getElem?_drop]
    have : min axisCount out.length + (i - min (min axisCount out.length) out.length) = i := by
      omega
    rw [this, List.getElem?_eq_getElem hi]

/-- the whole of `Fvar::user_to_normalized`: version 1 (or no avar) is the settings loop alone. -/
theorem user_to_normalized_full_v1 (axes : List Normalize.AxisRec)
    (maps : Option (List (List (Int × Int)))) (settings : List (Nat × Int)) (outLen : Nat) :
    userToNormalizedFull axes maps none settings outLen =
      Normalize.userToNormalizedAll axes maps settings outLen := rfl

/-! ## 2. `compute_float_delta` walks the table exactly like `compute_delta` -/

theorem floatLoop_some_iff (regions : List (List (Int × Int × Int))) (coords : List Int) :
    ∀ (ds : List Int) (ris : List Nat) (accF : FVal) (accI : Int),
      (floatLoop regions coords ds ris accF).isSome =
      (Tent.deltaLoop regions coords ds ris accI).isSome := by
  intro ds
  induction ds with
  | nil => intro ris accF accI; simp [floatLoop, Tent.deltaLoop]
  | cons d rest ih =>
    intro ris accF accI
    cases ris with
    | nil => simp [floatLoop, Tent.deltaLoop]
    | cons ri ris =>
      simp only [floatLoop, Tent.deltaLoop]
      cases regions[ri]? with
      | none => rfl
      | some axes => exact ih ris _ _

/-- **float_delta_ok_iff**: `compute_float_delta` returns `Ok` on exactly the inputs on which
`compute_delta` does (same subtable / row / region-index checks; `compute_delta_ok_iff` of
Props/C11.lean says when that is). -/
theorem float_delta_ok_iff (regions : List (List (Int × Int × Int)))
    (subtables : List (Option Tent.SubTable)) (outer inner : Nat) (coords : List Int) :
    (computeFloatDelta regions subtables outer inner coords).isSome =
      (match Tent.computeDelta regions subtables outer inner coords with
       | .ok _ => true
       | .err => false) := by
  unfold computeFloatDelta Tent.computeDelta
  by_cases hc : coords.isEmpty
  · simp [hc]
  · simp only [hc, Bool.false_eq_true, if_false]
    cases subtables[outer]? with
    | none => rfl
    | some st =>
      cases st with
      | none => rfl
      | some st =>
        simp only []
        split
        · rfl
        · have := floatLoop_some_iff regions coords
            (Tent.deltaSet st.wordDeltaCount st.regionIndexes.length
              (st.data.take (Tent.deltaRowLen st.wordDeltaCount st.regionIndexes.length * st.itemCount)) inner)
            st.regionIndexes zero 0
          revert this
          cases floatLoop regions coords _ st.regionIndexes zero <;>
            cases Tent.deltaLoop regions coords _ st.regionIndexes 0 <;> simp

/-! ## 3. the f32 tent scalar (`VariationRegion::compute_scalar_f32`)

Region records and coordinates are F2Dot14 bit patterns (`AxesI16`, `CoordsI16`); `dle m e n g` is
the exact comparison `m·2^e ≤ n·2^g`. -/

/-- **scalar_f32_range**: for every region and location the f32 scalar is a finite, non-negative
float that is at most `1.0` — never NaN / infinite / above one, for any number of axes (each
`(scalar · a) / b` step rounds twice; rounding never crosses the representable bounds). -/
theorem scalar_f32_range (axes : List (Int × Int × Int)) (coords : List Int)
    (ha : AxesI16 axes) (hc : CoordsI16 coords) :
    ∃ n q, computeScalarF32 axes coords = .fin false n q ∧ dle n q 1 0 :=
  scalarGoF_inUnit axes coords one ha hc (inUnit_one f32)

/-- **scalar_f32_outside_zero**: outside `[start, end]` on an axis the region uses, the scalar is
`0.0` (same support as the 16.16 scalar: `scalar_outside_zero`). -/
theorem scalar_f32_outside_zero (axes : List (Int × Int × Int)) (coords : List Int)
    (ha : AxesI16 axes) (hc : CoordsI16 coords) (i : Nat) (a : Int × Int × Int)
    (h : axes[i]? = some a) (hi : ¬ Tent.Ignored a.1 a.2.1 a.2.2)
    (ho : coords.getD i 0 < a.1 ∨ coords.getD i 0 > a.2.2) : computeScalarF32 axes coords = zero :=
  scalarGoF_outside axes coords one i a ha hc h hi ho

/-- **scalar_f32_at_peak**: on the peak of every axis the region uses the scalar is exactly `1.0`. -/
theorem scalar_f32_at_peak (axes : List (Int × Int × Int)) (coords : List Int)
    (ha : AxesI16 axes) (hc : CoordsI16 coords)
    (h : ∀ i a, axes[i]? = some a → Tent.Ignored a.1 a.2.1 a.2.2 ∨ coords.getD i 0 = a.2.1) :
    computeScalarF32 axes coords = one :=
  scalarGoF_peaks axes coords one ha hc h

/-- **scalar_f32_one_axis**: with one contributing axis on its rising leg the scalar is the single
f32 quotient `(coord − start) / (peak − start)` of two exactly represented differences
(`1.0 · x` is exact), i.e. the exact rational tent value rounded ONCE. -/
theorem scalar_f32_one_axis (s p e c : Int) (hs : inI16 s) (hp : inI16 p) (he : inI16 e)
    (hc : inI16 c) (hi : ¬ Tent.Ignored s p e) (h1 : s < c) (h2 : c < p) :
    ∃ mA eA mB eB, computeScalarF32 [(s, p, e)] [c] = div f32 (.fin false mA eA) (.fin false mB eB) ∧
      -14 ≤ eA ∧ -14 ≤ eB ∧
      (mA : Int) * 2 ^ (eA + 14).toNat = c - s ∧ (mB : Int) * 2 ^ (eB + 14).toNat = p - s := by
  have hco : CoordsI16 [c] := fun x hx => by simp at hx; subst hx; exact hc
  unfold computeScalarF32
  simp only [scalarGoF]
  have hC : Val14 (coordF [c]) c := val14_f2 c hc
  rcases axisStepF_cases one (coordF [c]) (f2ToF32 s) (f2ToF32 p) (f2ToF32 e) c s p e hC
    (val14_f2 s hs) (val14_f2 p hp) (val14_f2 e he) with g | g | g | g | g
  · exact absurd g.1 hi
  · have := g.2.1; unfold Tent.Ignored at hi; omega
  · have := g.2.1; omega
  · rw [g.2.2.2]
    have hA := val14_sub hC (val14_f2 s hs) (natAbs_i16_diff hc hs)
    have hB := val14_sub (val14_f2 p hp) (val14_f2 s hs) (natAbs_i16_diff hp hs)
    obtain ⟨mA, eA, hAe, hmA, heA1, heA2, hvA⟩ := val14_nonneg hA (by omega)
    obtain ⟨mB, eB, hBe, hmB, heB1, heB2, hvB⟩ := val14_nonneg hB (by omega)
    refine ⟨mA, eA, mB, eB, ?_, heA1, heB1, hvA, hvB⟩
    rw [hAe, hBe]
    -- 1.0 · A = A
    have hbl : bitLen mA ≤ 24 := bitLen_le_of_lt hmA
    have : mul f32 one (.fin false mA eA) = .fin false mA eA := by
      simp only [mul, one, Bool.bne_false, Nat.one_mul, Int.zero_add]
      rw [roundNE_exact f32 _ mA eA hmA (by show (-149 : Int) ≤ eA; omega)
        (by show eA + (bitLen mA : Int) ≤ 128; omega)]
      have hne : mA ≠ 0 := by
        intro h; rw [h, Int.natCast_zero, Int.zero_mul] at hvA; omega
      simp [hne]
    rw [this]
  · have := g.2.1; omega

/-- **scalar_f32_one_axis_half_ulp** (accuracy of the f32 tent, sharp constant for one axis): on
the rising leg of a one-axis region the result `n · 2^q` satisfies
`2 · |n · (peak − start) − (coord − start) · 2^(−q)| ≤ peak − start`, i.e. it is within HALF a unit in
the last place (`2^q`) of the exact tent value `(coord − start) / (peak − start)`: one correctly
rounded operation; that last place is `≤ 2⁻²³` relative (`n ≥ 2²³`) unless the result is subnormal.
For any number of axes see `scalar_f32_product_spec` (Props/C11FloatAcc.lean):
`|scalar − Π tents| ≤ k · (2⁻²³ + 2⁻¹³⁵)`. -/
theorem scalar_f32_one_axis_half_ulp (s p e c : Int) (hs : inI16 s) (hp : inI16 p) (he : inI16 e)
    (hc : inI16 c) (hi : ¬ Tent.Ignored s p e) (h1 : s < c) (h2 : c < p) :
    ∃ n q, computeScalarF32 [(s, p, e)] [c] = .fin false n q ∧ q ≤ 0 ∧
      2 * ((n : Int) * (p - s)) ≤ 2 * ((c - s) * 2 ^ (-q).toNat) + (p - s) ∧
      2 * ((c - s) * 2 ^ (-q).toNat) ≤ 2 * ((n : Int) * (p - s)) + (p - s) ∧
      (2 ^ 23 ≤ n ∨ q = -149) := by
  have hax : AxesI16 [(s, p, e)] := fun a ha => by simp at ha; subst ha; exact ⟨hs, hp, he⟩
  have hco : CoordsI16 [c] := fun x hx => by simp at hx; subst hx; exact hc
  obtain ⟨n, q, hres, hle1⟩ := scalar_f32_range [(s, p, e)] [c] hax hco
  obtain ⟨mA, eA, mB, eB, hdiv, heA, heB, hvA, hvB⟩ := scalar_f32_one_axis s p e c hs hp he hc hi h1 h2
  -- bounds on the exponents come from the `Val14` facts; recover them
  have hC : Val14 (coordF [c]) c := val14_f2 c hc
  rw [hres] at hdiv
  have hmA0 : mA ≠ 0 := by intro h; rw [h, Int.natCast_zero, Int.zero_mul] at hvA; omega
  have hmB0 : mB ≠ 0 := by intro h; rw [h, Int.natCast_zero, Int.zero_mul] at hvB; omega
  obtain ⟨hE, hlo, hhi, hnorm⟩ := div_half_ulp f32 (by decide) mA eA mB eB n q hmA0 hmB0 hdiv.symm
  have hq0 : q ≤ 0 := by
    rcases hnorm with hn | hq
    · apply Classical.byContradiction; intro hpos
      have hd := hle1
      rw [dle_common 0 (by omega) (by omega)] at hd
      simp only [Int.sub_zero, Int.toNat_zero, Nat.pow_zero, Nat.mul_one] at hd
      have h2q : 1 ≤ 2 ^ q.toNat := two_pow_pos _
      have : n ≤ n * 2 ^ q.toNat := Nat.le_mul_of_pos_right _ h2q
      have hn' : (2 : Nat) ^ (24 - 1) ≤ n := hn
      have : (2 : Nat) ^ 23 = 8388608 := by decide
      omega
    · rw [hq]; decide
  have hr := half_ulp_rescale n mA mB (f32.p + 2 + bitLen mB) q eA eB hq0 heA heB hE hlo hhi
  have hvA' : c - s = ((mA * 2 ^ (eA + 14).toNat : Nat) : Int) := by
    rw [← hvA, Int.natCast_mul, Int.natCast_pow]; rfl
  have hvB' : p - s = ((mB * 2 ^ (eB + 14).toNat : Nat) : Int) := by
    rw [← hvB, Int.natCast_mul, Int.natCast_pow]; rfl
  have hpw : (2 : Int) ^ (-q).toNat = ((2 ^ (-q).toNat : Nat) : Int) := by
    rw [Int.natCast_pow]; rfl
  refine ⟨n, q, hres, hq0, ?_, ?_, ?_⟩
  · rw [hvA', hvB', hpw]; exact_mod_cast hr.1
  · rw [hvA', hvB', hpw]; exact_mod_cast hr.2
  · rcases hnorm with hn | hq
    · left; exact hn
    · right; exact hq

-- non-vacuity: (1 − 0) / (3 − 0) in f32 is 0x3EAAAAAB = 11184811 · 2⁻²⁵ (within half an ulp of 1/3)
example : computeScalarF32 [(0, 3, 16384)] [1] = .fin false 11184811 (-25) := by decide +kernel
example : encode f32 (computeScalarF32 [(0, 8192, 16384), (-16384, -16384, 0)] [4096, -16384]) =
    0x3F000000 := by decide +kernel
example : AxesI16 [(0, 3, 16384)] ∧ CoordsI16 [1] ∧ ¬ Tent.Ignored 0 3 16384 := by
  refine ⟨fun a ha => ?_, fun c hc => ?_, by decide⟩
  · simp at ha; subst ha; decide
  · simp at hc; subst hc; decide

/-! ## 4. float deltas that are exact -/

/-- sum of the deltas whose region scalar is exactly `1.0`. -/
def peakSum (regions : List (List (Int × Int × Int))) (coords : List Int) : List Int → List Nat → Int
  | d :: ds, ri :: ris =>
    (match regions[ri]? with
     | some axes => if computeScalarF32 axes coords = one then d else 0
     | none => 0) + peakSum regions coords ds ris
  | _, _ => 0

theorem floatLoop_at_peaks (regions : List (List (Int × Int × Int))) (coords : List Int) :
    ∀ (ds : List Int) (ris : List Nat) (S : Int), ds.length ≤ ris.length →
      (∀ p ∈ ds.zip ris, p.1.natAbs < 2 ^ 31 ∧ ∃ axes, regions[p.2]? = some axes ∧
        (computeScalarF32 axes coords = one ∨ computeScalarF32 axes coords = zero)) →
      S.natAbs + 2 ^ 31 * ds.length < 2 ^ 52 →
      floatLoop regions coords ds ris (ofInt f64 S) =
        some (ofInt f64 (S + peakSum regions coords ds ris)) := by
  intro ds
  induction ds with
  | nil => intro ris S _ _ _; cases ris <;> simp [floatLoop, peakSum]
  | cons d rest ih =>
    intro ris S hlen hall hb
    cases ris with
    | nil => simp at hlen
    | cons ri ris =>
      obtain ⟨hd, axes, hax, hsc⟩ := hall (d, ri) (by simp)
      simp only [floatLoop, peakSum, hax]
      simp only [List.length_cons] at hb hlen
      have hrest : ∀ p ∈ rest.zip ris, p.1.natAbs < 2 ^ 31 ∧ ∃ axes, regions[p.2]? = some axes ∧
          (computeScalarF32 axes coords = one ∨ computeScalarF32 axes coords = zero) :=
        fun p hp => hall p (by simp [List.zip_cons_cons, hp])
      have h31 : (2 : Nat) ^ 31 * (rest.length + 1) = 2 ^ 31 * rest.length + 2 ^ 31 := by
        rw [Nat.mul_add, Nat.mul_one]
      rcases hsc with h1 | h0
      · rw [h1, acc_int_step S d (by omega) (by omega)]
        simp only [if_true]
        rw [ih ris (S + d) (by omega) hrest (by omega)]
        congr 2; omega
      · have hne : ¬ (zero = one) := by decide
        rw [h0, acc_zero_step S d (by omega) (by omega)]
        simp only [hne, if_false]
        rw [ih ris S (by omega) hrest (by omega)]
        congr 2; omega

/-- **float_delta_at_peaks**: when every region of the row is at its peak (scalar `1.0`) or does
not apply (`0.0`) — e.g. at the masters of the font — `compute_float_delta` is EXACTLY the integer
sum of the applicable deltas (no rounding anywhere: products and `f64` sums of integers below
`2⁵²`). -/
theorem float_delta_at_peaks (regions : List (List (Int × Int × Int)))
    (subtables : List (Option Tent.SubTable)) (outer inner : Nat) (coords : List Int)
    (st : Tent.SubTable) (hc : coords ≠ []) (hst : subtables[outer]? = some (some st))
    (hlen : Tent.deltaRowLen st.wordDeltaCount st.regionIndexes.length * st.itemCount ≤ st.data.length)
    (hri : st.regionIndexes.length ≤ 65535)
    (hall : ∀ p ∈ (Tent.deltaSet st.wordDeltaCount st.regionIndexes.length
        (st.data.take (Tent.deltaRowLen st.wordDeltaCount st.regionIndexes.length * st.itemCount)) inner).zip
        st.regionIndexes,
      p.1.natAbs < 2 ^ 31 ∧ ∃ axes, regions[p.2]? = some axes ∧
        (computeScalarF32 axes coords = one ∨ computeScalarF32 axes coords = zero))
    (hrow : (Tent.deltaSet st.wordDeltaCount st.regionIndexes.length
        (st.data.take (Tent.deltaRowLen st.wordDeltaCount st.regionIndexes.length * st.itemCount)) inner).length
        ≤ st.regionIndexes.length) :
    computeFloatDelta regions subtables outer inner coords =
      some (ofInt f64 (peakSum regions coords
        (Tent.deltaSet st.wordDeltaCount st.regionIndexes.length
          (st.data.take (Tent.deltaRowLen st.wordDeltaCount st.regionIndexes.length * st.itemCount)) inner)
        st.regionIndexes)) := by
  unfold computeFloatDelta
  have hce : coords.isEmpty = false := by cases coords <;> simp_all
  simp only [hce, Bool.false_eq_true, if_false, hst]
  have : ¬ st.data.length < Tent.deltaRowLen st.wordDeltaCount st.regionIndexes.length * st.itemCount := by omega
  simp only [this, if_false]
  have hz : zero = ofInt f64 0 := by decide
  rw [hz, floatLoop_at_peaks regions coords _ _ 0 hrow hall (by
    have : (2 : Nat) ^ 31 * 65535 < 2 ^ 52 := by decide
    have h2 := Nat.mul_le_mul_left (2 ^ 31) (Nat.le_trans hrow hri)
    simp only [Int.natAbs_zero, Nat.zero_add]
    omega)]
  simp

theorem floatLoop_zero_deltas (regions : List (List (Int × Int × Int))) (coords : List Int)
    (hr : ∀ r ∈ regions, AxesI16 r) (hc : CoordsI16 coords) :
    ∀ (ds : List Int) (ris : List Nat), (∀ d ∈ ds, d = 0) →
      floatLoop regions coords ds ris zero = some zero ∨ floatLoop regions coords ds ris zero = none := by
  intro ds
  induction ds with
  | nil => intro ris _; left; cases ris <;> rfl
  | cons d rest ih =>
    intro ris hz
    cases ris with
    | nil => right; rfl
    | cons ri ris =>
      simp only [floatLoop]
      cases hax : regions[ri]? with
      | none => right; rfl
      | some axes =>
        simp only []
        have hd : d = 0 := hz d (by simp)
        subst hd
        have hu := scalarGoF_inUnit axes coords one (hr axes (List.mem_of_getElem? hax)) hc (inUnit_one f32)
        have := zero_term (computeScalarF32 axes coords) hu
        rw [this]
        exact ih ris (fun d hd => hz d (by simp [hd]))

/-- **float_delta_zero_rows**: a row of zero deltas evaluates to `+0.0` (or the lookup fails) —
`0 · scalar` never produces NaN because the scalar is always finite (`scalar_f32_range`). -/
theorem float_delta_zero_rows (regions : List (List (Int × Int × Int)))
    (subtables : List (Option Tent.SubTable)) (outer inner : Nat) (coords : List Int)
    (hr : ∀ r ∈ regions, AxesI16 r) (hc : CoordsI16 coords)
    (hz : ∀ st, subtables[outer]? = some (some st) →
      ∀ d ∈ Tent.deltaSet st.wordDeltaCount st.regionIndexes.length
        (st.data.take (Tent.deltaRowLen st.wordDeltaCount st.regionIndexes.length * st.itemCount)) inner, d = 0) :
    computeFloatDelta regions subtables outer inner coords = some zero ∨
    computeFloatDelta regions subtables outer inner coords = none := by
  unfold computeFloatDelta
  by_cases hce : coords.isEmpty
  · simp [hce]
  · simp only [hce, Bool.false_eq_true, if_false]
    cases hst : subtables[outer]? with
    | none => right; rfl
    | some o =>
      cases o with
      | none => left; rfl
      | some st =>
        simp only []
        split
        · right; rfl
        · exact floatLoop_zero_deltas regions coords hr hc _ _ (hz st hst)

theorem clampUnit_clampI (x : Int) : clampUnit (FixedConv.clampI (-32768) 32767 x) = clampUnit x := by
  unfold clampUnit FixedConv.clampI
  split <;> split <;> (try split) <;> (try split) <;> omega

/-- **avar2_coord_value_partial**.
FULL statement wanted: for every float delta `Δ` the new coordinate is
`clamp(round(v₁ + Δ), −1, 1)` (round half away from zero).  That is NOT literally true of the code:
`Δ · 2⁻¹⁴` is narrowed to f32 and added in f32 before `from_f32` rounds, so within ~2⁻⁷ units of a
rounding tie the result may be the other neighbour (the harness oracle
`avar2=clamp(round(v1+sum(delta*tent)))` allows exactly that slack).  PROVED here: when the float
delta is an integer `D` (in F2Dot14 units; `float_delta_at_peaks` says when — e.g. at the masters)
the new coordinate is EXACTLY `clamp(v₁ + D, −1, 1)`: every float step (`to_f32`, `· 2⁻¹⁴`,
`as f32`, `+`, `from_f32`) is exact on these values. -/
theorem avar2_coord_value_partial (t : Avar2) (coords : List Int) (i : Nat) (v : Int)
    (regions : List (List (Int × Int × Int))) (subs : List (Option Tent.SubTable))
    (o inner : Nat) (D : Int) (hstore : t.store = some (regions, subs))
    (hidx : avar2Index t i = some (o, inner))
    (hdelta : computeFloatDelta regions subs o inner coords = some (ofInt f64 D))
    (hv : inI16 v) (hD : D.natAbs < 2 ^ 23) :
    avar2Coord t coords i v = clampUnit (v + D) := by
  unfold avar2Coord
  simp only [hidx, hstore, hdelta]
  unfold applyF2Dot14
  have hsum : (v + D).natAbs < 2 ^ 24 := by unfold inI16 at hv; omega
  have h := val14_add (val14_f2 v hv) (delta_term_val14 D (by omega)) hsum
  rw [fromFloat_val14 h, clampUnit_clampI]

/-- **avar2_coord_zero_delta**: a zero float delta (all-zero row: `float_delta_zero_rows`) leaves the
version-1 coordinate unchanged, up to the clamp. -/
theorem avar2_coord_zero_delta (t : Avar2) (coords : List Int) (i : Nat) (v : Int)
    (regions : List (List (Int × Int × Int))) (subs : List (Option Tent.SubTable))
    (o inner : Nat) (hstore : t.store = some (regions, subs))
    (hidx : avar2Index t i = some (o, inner))
    (hdelta : computeFloatDelta regions subs o inner coords = some zero)
    (hv : inI16 v) : avar2Coord t coords i v = clampUnit v := by
  have hz : zero = ofInt f64 0 := by decide
  rw [hz] at hdelta
  have := avar2_coord_value_partial t coords i v regions subs o inner 0 hstore hidx hdelta hv (by decide)
  simpa using this

-- non-vacuity: one axis, identity map, store with one region (0, 1, 1) and delta 8192 (0.5):
-- at the maximum 1.0 + 0.5 is clamped to 1.0; at 0.5 the result is 0.5 + 0.25
example : applyAvar2 ⟨none, some ([[(0, 16384, 16384)]],
    [some ⟨1, 1, [0], [32, 0]⟩])⟩ 1 [16384] = [16384] := by decide +kernel
example : applyAvar2 ⟨none, some ([[(0, 16384, 16384)]],
    [some ⟨1, 1, [0], [32, 0]⟩])⟩ 1 [8192] = [12288] := by decide +kernel

end FontVerif.C11
