/-
C01 (hand-written code) — termination, iteration bounds, in-range indices / slices and absence of arithmetic
traps for the models of Model/HandBitmap.lean ⇄ read-fonts/src/tables/bitmap.rs / cblc.rs / ebdt.rs / sbix.rs (BitmapSize::location, index subtable formats 1-5, bitmap_data, glyph_data).
Tied to the real functions by harness group `bitmap.model` (`hb.*` driver commands).
-/
import FontVerif.Model.HandBitmap
import FontVerif.Lemmas.ReadIter
set_option linter.unusedVariables false
set_option linter.unusedSimpArgs false
namespace FontVerif.C01HandBitmap
open FontVerif FontVerif.HandRead FontVerif.HandBitmap

end FontVerif.C01HandBitmap
