/-
C01 (hand-written code) — termination, iteration bounds, in-range indices / slices and absence of arithmetic
traps for the models of Model/HandBitmap.lean ⇄ read-fonts/src/tables/bitmap.rs / cblc.rs / ebdt.rs / sbix.rs (BitmapSize::location, index subtable formats 1-5, bitmap_data, glyph_data).
Tied to the real functions by harness group `bitmap.model` (`hb.*` driver commands).

Standing hypotheses: the data is a list of bytes (`Bytes d`: every element `< 256`) that is shorter than
`usize::MAX` (`d.length < MAXU`; a slice is at most `isize::MAX` bytes).  Nothing is assumed about the CONTENT:
counts, offsets, glyph ranges, formats, array order are arbitrary.
-/
import FontVerif.Model.HandBitmap
import FontVerif.Lemmas.HandBitmap
set_option linter.unusedVariables false
set_option linter.unusedSimpArgs false
namespace FontVerif.C01HandBitmap
open FontVerif FontVerif.HandRead FontVerif.HandBitmap

/-! ## the readers that size the arrays -/

/-- **`BitmapSize::index_subtable_list` hands out a list inside the data**: `Ok` means
`offset + size ≤ len`, the list data is exactly that slice, and its `n` 8-byte records fit into it. -/
theorem indexSubtableList_inside (d : List Nat) (off size n : Nat) (ld : List Nat) (hlen : d.length < MAXU)
    (h : indexSubtableList d off size n = .ok ld) :
    off + size ≤ d.length ∧ ld = (d.drop off).take size ∧ ld.length = size ∧ n * 8 ≤ size ∧
    (records ld n).length = n := by
  obtain ⟨a, b, c, e⟩ := indexSubtableList_facts hlen h
  exact ⟨b, a, c, e, records_length ld n⟩

/-- **`IndexSubtable::read_with_args` sizes every array inside the data**: after `Ok` the header and the
whole `sbit_offsets` / `glyph_array` (`count` elements of 4 / 2 / 4 / 2 bytes behind 8 / 8 / 12 / 24 header bytes;
format 2: the 20 fixed bytes) end at or before the end of the subtable's data, and the counts are the ones the
generated readers compute (`last − first + 2` saturating, `num_glyphs + 1`, `num_glyphs`). -/
theorem readSubtable_arrays_inside (sd : List Nat) (last first : Nat) (sub : Sub) (hlen : sd.length < MAXU)
    (h : readSubtable sd last first = .ok sub) :
    subMinEnd sub ≤ sd.length ∧
    (match sub with
     | .f1 c => c = satAdd (last - first) 2
     | .f2 => True
     | .f3 c => c = satAdd (last - first) 2
     | .f4 c => c = satAdd (beAt sd 8 4) 1
     | .f5 c => c = beAt sd 20 4) :=
  readSubtable_facts hlen h

/-! ## `BitmapSize::location` -/

/-- **`location` never panics**: for every byte string, every `BitmapSize` record (16-bit glyph range — the
fields are `GlyphId16`s; the other fields are arbitrary) and every glyph id, none of the unchecked `usize`
operations (`glyph_id − first`, `image_data_offset + offset`, `glyph_ix + 1`, `glyph_ix * image_size`,
`end − start`) overflows and none of the two plain indexings (`array[array_ix]`, `big_metrics()[0]`) is out of
range: the result is `Ok` or a `ReadError`. -/
theorem location_no_trap (d : List Nat) (hb : Bytes d) (hlen : d.length < MAXU) (sz : Size) (gid : Nat) :
    location d sz gid ≠ .trap := by
  unfold location locationT
  split
  · split
    · simp
    · rename_i ld hl
      obtain ⟨hld, _, hsz, _⟩ := indexSubtableList_facts hlen hl
      have hbl : Bytes ld := by rw [hld]; exact bytes_take (bytes_drop hb _) _
      have hll : ld.length < MAXU := by
        rw [hld]; simp only [List.length_take, List.length_drop]; omega
      exact locLoop_ne_trap hbl hll gid _ _ (fun r hr => by
        obtain ⟨a, b, _⟩ := records_mem hbl hr
        exact ⟨a, b⟩)
  · simp

/-- **`location` terminates within `number_of_index_subtables` trips, which the data length bounds**: the
record loop makes at most `n = number_of_index_subtables` trips, and it only runs when the `n` records
(8 bytes each) lie inside the list, i.e. `8 · trips ≤ 8 · n ≤ index_subtable_list_size ≤ len`. -/
theorem location_trips_bounded (d : List Nat) (hlen : d.length < MAXU) (sz : Size) (gid : Nat) :
    (locationT d sz gid).2 ≤ sz.numSubtables ∧ 8 * (locationT d sz gid).2 ≤ d.length := by
  unfold locationT
  split
  · split
    · simp
    · rename_i ld hl
      obtain ⟨_, h1, _, h2⟩ := indexSubtableList_facts hlen hl
      have := locLoop_trips ld gid
        { format := 0, dataOffset := 0, dataSize := 0, bitDepth := sz.bitDepth, metrics := none }
        (records ld sz.numSubtables)
      rw [records_length] at this
      constructor
      · exact this
      · omega
  · simp

/-- **what `Ok(location)` means** — every value handed out comes from in-range entries:
the glyph id is inside the size's range; the FIRST record `k < n` whose range holds it decided (all earlier
records' ranges do not hold it); that record's offset is non-null and inside the list; its subtable read
(`readSubtable … = Ok`, so its array lies inside the data by `readSubtable_arrays_inside`); the loop made
`k + 1` trips; and the location satisfies `SubLocSpec`: formats 1 / 3 read entries `ix`, `ix + 1 < count` of
`sbit_offsets` with `8 + elem·(ix + 2) ≤ len`, format 4 found an entry `i` with `i + 1 < count` whose glyph id IS
the requested one and read the offsets of entries `i`, `i + 1` (inside the data), format 5 found an entry
`i < count` holding the glyph id, format 2 needs the 20 fixed bytes; offset and size are the stated functions of
those entries; `bit_depth` is the size's. -/
theorem location_ok_spec (d : List Nat) (hlen : d.length < MAXU) (sz : Size) (gid : Nat) (loc : Loc)
    (h : location d sz gid = .ok loc) :
    sz.startGlyph ≤ gid ∧ gid ≤ sz.endGlyph ∧ loc.bitDepth = sz.bitDepth ∧
    ∃ ld k first last off sd sub,
      indexSubtableList d sz.listOffset sz.listSize sz.numSubtables = .ok ld ∧
      k < sz.numSubtables ∧ (records ld sz.numSubtables)[k]? = some (first, last, off) ∧
      (∀ j, j < k → ∀ r, (records ld sz.numSubtables)[j]? = some r → rangeContains r.1 r.2.1 gid = false) ∧
      first ≤ gid ∧ gid ≤ last ∧
      off ≠ 0 ∧ off ≤ ld.length ∧ sd = ld.drop off ∧ readSubtable sd last first = .ok sub ∧
      subMinEnd sub ≤ sd.length ∧
      SubLocSpec sd sub gid (gid - first)
        { format := 0, dataOffset := 0, dataSize := 0, bitDepth := sz.bitDepth, metrics := none } loc ∧
      (locationT d sz gid).2 = k + 1 := by
  unfold location at h
  unfold locationT at h ⊢
  split at h
  · rename_i hc
    simp only [rangeContains, decide_eq_true_eq] at hc
    split at h
    · cases h
    · rename_i ld hl
      obtain ⟨hld, _, hsz, _⟩ := indexSubtableList_facts hlen hl
      have hll : ld.length < MAXU := by
        rw [hld]; simp only [List.length_take, List.length_drop]; omega
      obtain ⟨k, first, last, off, sd, sub, hk, hbefore, hcont, hres, hloc, htr⟩ := locLoop_ok _ h
      obtain ⟨ho0, hole, hsd, hsub⟩ := resolveSubtable_facts hres
      have hls : sd.length < MAXU := by rw [hsd]; simp; omega
      have hspec := subLocation_ok hsub hls hloc
      have hklt : k < sz.numSubtables := by
        have := (List.getElem?_eq_some_iff.1 hk).1
        rwa [records_length] at this
      simp only [rangeContains, decide_eq_true_eq] at hcont
      refine ⟨hc.1, hc.2, hspec.2.1, ld, k, first, last, off, sd, sub, hl, hklt, hk, hbefore, hcont.1, hcont.2,
        ho0, hole, hsd, hsub, (readSubtable_facts hls hsub).1, hspec, ?_⟩
      simp only [rangeContains, hc, and_self, decide_true, if_true, hl]
      exact htr
  · cases h

/-- **formats 1 and 3: the `sbit_offsets.get(glyph_ix)` / `.get(glyph_ix + 1)` never fail** for a glyph
inside the record's range — `index < len` follows from the range test and the generated reader's array sizing
(`last − first + 2` entries): the two `ok_or(OutOfBounds)?` of these arms are dead code, and so would be a
plain `[ix]`. -/
theorem location_offsets_index_in_range (sd : List Nat) (first last gid elem : Nat) (hl : last < 65536)
    (hr : rangeContains first last gid = true) :
    (arrGet sd 8 elem elem (satAdd (last - first) 2) (gid - first)).isSome = true ∧
    (arrGet sd 8 elem elem (satAdd (last - first) 2) (gid - first + 1)).isSome = true :=
  twoOffsets_get_some hl hr

/-- whatever order the format 4 / 5 glyph array has (the search closure is then not monotone),
`binary_search_by` answers `Ok(i)` only with an index inside the array whose element compares `Equal`:
`array[array_ix]` cannot panic and the entry belongs to the requested glyph -/
theorem search_result_in_range (n : Nat) (key : Nat → Nat) (gid i : Nat)
    (h : Layout.binarySearchBy n (fun j => Layout.natCmp (key j) gid) = .ok i) : i < n ∧ key i = gid := by
  obtain ⟨a, b⟩ := binarySearchBy_ok h
  exact ⟨a, natCmp_eq b⟩

/-! ## `bitmap_data` -/

/-- **the size arithmetic of `bitmap_data` cannot overflow**: width, height (metrics bytes) and bit depth are
`u8`s, so `width · bit_depth ≤ 65025`, `pitch · height` and `width · bit_depth · height` are at most
`255³ = 16 581 375 < 2²⁴`. -/
theorem bitmap_size_arithmetic_bounded (w h bd : Nat) (hw : w < 256) (hh : h < 256) (hbd : bd < 256) :
    w * bd ≤ 65025 ∧ divCeil8 (w * bd) * h ≤ 16581375 ∧ divCeil8 (w * bd * h) ≤ 16581375 ∧ 16581375 < 2 ^ 24 := by
  obtain ⟨a, b, c⟩ := size_products_bound hw hh hbd
  have := divCeil8_le (w * bd * h)
  exact ⟨a, b, by omega, by decide⟩

/-- **`bitmap_data` never panics**, for every table, every location (offset and size are ANY `usize`s — the
end is `checked_add`ed; `bit_depth` is a `u8`; the optional metrics are 8 bytes) and both `is_color` values:
the `usize` multiplications are in range and `read_array::<M>(1)?[0]` always has its element. -/
theorem bitmapData_no_trap (d : List Nat) (hb : Bytes d) (loc : Loc) (isColor : Bool)
    (hbd : loc.bitDepth < 256) (hm : ∀ m, loc.metrics = some m → Bytes m) :
    bitmapData d loc isColor ≠ .trap := by
  unfold bitmapData
  split
  · simp
  · split
    · simp
    · have hbi : Bytes ((d.drop loc.dataOffset).take loc.dataSize) := bytes_take (bytes_drop hb _) _
      have hmet : ∀ {sz c m c1}, readMetrics ((d.drop loc.dataOffset).take loc.dataSize) c sz = .ok (m, c1) → Bytes m := by
        intro sz c m c1 h
        rw [(readMetrics_ok h).1]
        exact bytes_take (bytes_drop hbi _) _
      simp only []
      split
      · apply bind_ne_trap (readMetrics_ne_trap _ _ _)
        intro ⟨m, c1⟩ hr
        exact byteAligned_ne_trap _ _ _ _ (hmet hr) hbd
      split
      · apply bind_ne_trap (readMetrics_ne_trap _ _ _)
        intro ⟨m, c1⟩ hr
        exact bitAligned_ne_trap _ _ _ _ (hmet hr) hbd
      split
      · apply bind_ne_trap (okOr_ne_trap _ _)
        intro m hr
        exact bitAligned_ne_trap _ _ _ _ (hm m (okOr_eq_ok hr)) hbd
      split
      · apply bind_ne_trap (readMetrics_ne_trap _ _ _)
        intro ⟨m, c1⟩ hr
        exact byteAligned_ne_trap _ _ _ _ (hmet hr) hbd
      split
      · apply bind_ne_trap (readMetrics_ne_trap _ _ _)
        intro ⟨m, c1⟩ hr
        exact bitAligned_ne_trap _ _ _ _ (hmet hr) hbd
      split
      · apply bind_ne_trap (readMetrics_ne_trap _ _ _)
        intro ⟨m, c1⟩ hr
        apply bind_ne_trap (readR_ne_trap _ _ _)
        intro ⟨p, c2⟩ _
        exact composite_ne_trap _ _ _ _ _
      split
      · apply bind_ne_trap (readMetrics_ne_trap _ _ _)
        intro ⟨m, c1⟩ hr
        exact composite_ne_trap _ _ _ _ _
      split
      · apply bind_ne_trap (readMetrics_ne_trap _ _ _)
        intro ⟨m, c1⟩ hr
        exact png_ne_trap _ _ _ _ _
      split
      · apply bind_ne_trap (readMetrics_ne_trap _ _ _)
        intro ⟨m, c1⟩ hr
        exact png_ne_trap _ _ _ _ _
      split
      · apply bind_ne_trap (okOr_ne_trap _ _)
        intro m hr
        exact png_ne_trap _ _ _ _ _
      · simp

/-- **the slice `bitmap_data` hands out is inside the located image, which is inside the table**:
`Ok` means `data_offset + data_size ≤ len` and the content (`count` bytes, or `count` 4-byte components)
starts at or after `data_offset` and ends at or before `data_offset + data_size`. -/
theorem bitmapData_content_inside (d : List Nat) (loc : Loc) (isColor : Bool) (b : BData)
    (h : bitmapData d loc isColor = .ok b) :
    loc.dataOffset + loc.dataSize ≤ d.length ∧ loc.dataOffset ≤ b.start ∧
    b.start + b.count * b.kind.elemSize ≤ loc.dataOffset + loc.dataSize := by
  unfold bitmapData at h
  split at h
  · cases h
  · rename_i e he
    obtain ⟨hee, _⟩ := checkedAdd_some he
    subst hee
    split at h
    · cases h
    · rename_i x hs
      have hr : loc.dataOffset + loc.dataSize ≤ d.length := (sliceExcl_some hs).2
      have hl : ((d.drop loc.dataOffset).take loc.dataSize).length = loc.dataSize := length_take_drop hr
      suffices hc : ContentIn ((d.drop loc.dataOffset).take loc.dataSize) loc.dataOffset b by
        obtain ⟨p, hp1, hp2⟩ := hc
        rw [hl] at hp2
        exact ⟨hr, by omega, by omega⟩
      simp only [] at h
      split at h
      · obtain ⟨⟨m, c1⟩, _, h2⟩ := bind_eq_ok h
        exact (byteAligned_ok h2).1
      split at h
      · obtain ⟨⟨m, c1⟩, _, h2⟩ := bind_eq_ok h
        exact (bitAligned_ok h2).1
      split at h
      · obtain ⟨m, _, h2⟩ := bind_eq_ok h
        exact (bitAligned_ok h2).1
      split at h
      · obtain ⟨⟨m, c1⟩, _, h2⟩ := bind_eq_ok h
        exact (byteAligned_ok h2).1
      split at h
      · obtain ⟨⟨m, c1⟩, _, h2⟩ := bind_eq_ok h
        exact (bitAligned_ok h2).1
      split at h
      · obtain ⟨⟨m, c1⟩, _, h2⟩ := bind_eq_ok h
        simp only [] at h2
        obtain ⟨⟨p, c2⟩, _, h3⟩ := bind_eq_ok h2
        exact (composite_ok h3).1
      split at h
      · obtain ⟨⟨m, c1⟩, _, h2⟩ := bind_eq_ok h
        exact (composite_ok h2).1
      split at h
      · obtain ⟨⟨m, c1⟩, _, h2⟩ := bind_eq_ok h
        exact (png_ok h2).1
      split at h
      · obtain ⟨⟨m, c1⟩, _, h2⟩ := bind_eq_ok h
        exact (png_ok h2).1
      split at h
      · obtain ⟨m, _, h2⟩ := bind_eq_ok h
        exact (png_ok h2).1
      · cases h

/-! ## sbix -/

/-- **`Strike::read` sizes the offset array inside the strike**: `num_glyphs + 1` offsets of 4 bytes behind
the 4 header bytes -/
theorem strikeRead_sized (sd : List Nat) (ng count : Nat) (hlen : sd.length < MAXU)
    (h : strikeRead sd ng = .ok count) : count = satAdd ng 1 ∧ 4 + count * 4 ≤ sd.length :=
  strikeRead_facts hlen h

/-- **`Strike::glyph_data` never panics** (for any glyph id: `glyph_id + 1` is only computed after
`offsets.get(glyph_id)` succeeded, so it is at most the array length) … -/
theorem glyphData_no_trap (sd : List Nat) (count gid : Nat) (hc : count ≤ MAXU) :
    glyphData sd count gid ≠ .trap := by
  unfold glyphData
  apply bind_ne_trap (okOr_ne_trap _ _)
  intro start hs
  obtain ⟨hlt, _⟩ := arrGet_some (okOr_eq_ok hs)
  apply bind_ne_trap (usizeAdd_ne_trap (by omega))
  intro ix1 _
  apply bind_ne_trap (okOr_ne_trap _ _)
  intro end_ _
  split
  · simp
  · split
    · simp
    · split <;> simp

/-- … **and the range it hands out satisfies `start < end ≤ len`** with the 8 header bytes of `GlyphData`
inside, both offsets read from entries `gid`, `gid + 1 < count` of the offset array. -/
theorem glyphData_range_inside (sd : List Nat) (count gid s e : Nat)
    (h : glyphData sd count gid = .ok (some (s, e))) :
    gid + 1 < count ∧ s = beAt sd (4 + 4 * gid) 4 ∧ e = beAt sd (4 + 4 * (gid + 1)) 4 ∧
    s < e ∧ e ≤ sd.length ∧ s + 8 ≤ e := by
  unfold glyphData at h
  obtain ⟨start, hs, h2⟩ := bind_eq_ok h
  obtain ⟨_, hs⟩ := arrGet_some (okOr_eq_ok hs)
  obtain ⟨ix1, h1, h3⟩ := bind_eq_ok h2
  obtain ⟨h1, _⟩ := usizeAdd_eq_ok h1
  obtain ⟨end_, he, h4⟩ := bind_eq_ok h3
  obtain ⟨hlt, he⟩ := arrGet_some (okOr_eq_ok he)
  rw [h1] at hlt he
  split at h4
  · cases h4
  · rename_i hne
    split at h4
    · cases h4
    · rename_i x hsl
      have hr := sliceExcl_some hsl
      split at h4
      · cases h4
      · rename_i hg
        have h8 := glyphDataRead_ok hg
        simp only [List.length_take, List.length_drop] at h8
        injection h4 with h4; injection h4 with h4; injection h4 with ha hb
        subst ha; subst hb
        exact ⟨hlt, hs, he, by omega, hr.2, by omega⟩

/-! ## non-vacuity -/

/-- an index subtable list with one format 1 record for glyphs 3..4 (offsets 0, 5, 9 behind image data
offset 16): the hypotheses hold and `location(4)` is `Ok` with values from entries 1 and 2 -/
def sampleList : List Nat :=
  [0, 3, 0, 4, 0, 0, 0, 8,  0, 1, 0, 17, 0, 0, 0, 16,  0, 0, 0, 0, 0, 0, 0, 5, 0, 0, 0, 9]

def sampleSize : Size :=
  { listOffset := 0, listSize := 28, numSubtables := 1, startGlyph := 3, endGlyph := 4, bitDepth := 32 }

example : Bytes sampleList := by unfold Bytes sampleList; decide
example : sampleList.length < MAXU := by decide
example : location sampleList sampleSize 4 =
    .ok { format := 17, dataOffset := 21, dataSize := 4, bitDepth := 32, metrics := none } := by decide
example : (locationT sampleList sampleSize 4).2 = 1 := by decide
example : location sampleList sampleSize 5 = .err .oob := by decide
/-- a representable trap: the same record with a `usize` that is only 5 bits wide would overflow -/
example : usizeAdd MAXU 1 = .trap ∧ usizeSub 3 4 = .trap ∧ (index0 ([] : List Nat)) = .trap := by decide

/-- a format 17 image (small metrics, 2 bytes of PNG data) at offset 4 of a 15 byte CBDT -/
def sampleCbdt : List Nat := [0, 3, 0, 0, 1, 2, 0, 0, 3, 0, 0, 0, 2, 0xAA, 0xBB]

example : bitmapData sampleCbdt { format := 17, dataOffset := 4, dataSize := 11, bitDepth := 32, metrics := none } true =
    .ok { small := true, metrics := [1, 2, 0, 0, 3], kind := .png, start := 13, count := 2 } := by decide
example : bitmapData sampleCbdt { format := 17, dataOffset := 4, dataSize := 11, bitDepth := 32, metrics := none } false =
    .err .badFormat := by decide

/-- a strike with one glyph (offsets 12, 21): 8 header bytes + 1 byte of data -/
def sampleStrike : List Nat := [0, 20, 0, 72, 0, 0, 0, 12, 0, 0, 0, 21, 0, 1, 0, 2, 112, 110, 103, 32, 7]

example : strikeRead sampleStrike 1 = .ok 2 := by rfl
example : glyphData sampleStrike 2 0 = .ok (some (12, 21)) := by decide
example : glyphData sampleStrike 2 1 = .err .oob := by decide

end FontVerif.C01HandBitmap
