/-
C12 (continued) — whole-draw independence of the scratch buffer by WRITE-BEFORE-READ.

The per-function access data (Gen/C12Wbr.lean) is regenerated from skrifa/src/outline/glyf/{mod.rs,
deltas.rs, hint/instance.rs} by translate/c12_wbr.py on every run; the obligations below are decided
by the kernel on that data.
-/
import FontVerif.Lemmas.ScratchFlow
import FontVerif.Lemmas.HintState
import FontVerif.Lemmas.ScratchModels
import FontVerif.Lemmas.LazySlot
import FontVerif.Props.C12
import FontVerif.Gen.C12Wbr
set_option linter.unusedVariables false
namespace FontVerif.C12
open FontVerif FontVerif.ScratchFlow FontVerif.Gen.C12Wbr

/-! ## 6. scratch memory is written before it is read -/

/-- the FreeType-style scaler: `scaled` (2) / `flags` (5) / `contours` (4) / `composite_deltas` (8) of
`FreeTypeOutlineMemory` -/
def ftPipeline : Pipeline :=
  ⟨fns, ftSimple, ftCompPre, ftCompIter, ftCompPost, ftFinal, haveDeltasFt, 2, 5, 4, 8⟩

/-- the HarfBuzz-style scaler: `points` (1) / `flags` (3) / `contours` (2) / `composite_deltas` (6) of
`HarfBuzzOutlineMemory` -/
def hbPipeline : Pipeline :=
  ⟨fns, hbSimple, hbCompPre, hbCompIter, hbCompPost, hbFinal, haveDeltasHb, 1, 3, 2, 6⟩

/-- the field numbers used above are the positions in the memory structs, the bound symbols of each
segment are the ones the skeleton (`ScratchFlow.Trace`) instantiates, `load_simple` advances the two
counters by the point / contour count, and the flag is `have_deltas` of `load_composite` -/
theorem wbr_data_is_wired :
    (ftFields[1]?, ftFields[4]?, ftFields[3]?, ftFields[7]?) =
      (some "scaled", some "flags", some "contours", some "composite_deltas") ∧
    (hbFields[0]?, hbFields[2]?, hbFields[1]?, hbFields[5]?) =
      (some "points", some "flags", some "contours", some "composite_deltas") ∧
    ftSimple.syms.take 4 = ["self.point_count", "glyph.num_points()", "self.contour_count", "contour_end_pts.len()"] ∧
    hbSimple.syms.take 4 = ftSimple.syms.take 4 ∧
    ftCompPre.syms.take 2 = ["self.component_delta_count", "glyph.components().count()"] ∧
    hbCompPre.syms.take 2 = ftCompPre.syms.take 2 ∧
    ftCompIter.syms.take 5 = ["point_base", "@points_before", "@points_loaded", "delta_base", "glyph.components().count()"] ∧
    hbCompIter.syms.take 5 = ftCompIter.syms.take 5 ∧
    ftCompPost.syms.take 4 = ["point_base", "@points_loaded", "contour_base", "@contours_loaded"] ∧
    ftFinal.syms.take 2 = ["self.point_count", "self.contour_count"] ∧
    hbFinal.syms.take 2 = ftFinal.syms.take 2 ∧
    ftSimpleCounters = [lin [1, 1], lin [0, 0, 1, 1]] ∧ hbSimpleCounters = ftSimpleCounters ∧
    flagNames.lookup haveDeltasFt = some "FreeTypeScaler::load_composite have_deltas" ∧
    flagNames.lookup haveDeltasHb = some "HarfBuzzScaler::load_composite have_deltas" ∧
    fns.map (·.name) = ["compute_deltas_for_glyph", "composite_glyph", "simple_glyph", "hint"] := by
  decide +kernel

/-! ### per-function obligations (FreeType-style scaler) -/

/-- `FreeTypeScaler::load_simple` (with `deltas::simple_glyph`, `compute_deltas_for_glyph` and
`HintInstance::hint` inlined): along each of its paths no element of any scratch slice is read before
this call has written it, and the points / flags / contour ends of the glyph are written on return -/
theorem ft_load_simple_wbr :
    segOK fns ftSimple [] [] (fun _ => true) (simplePost ftPipeline) = true := by decide +kernel

/-- `FreeTypeScaler::load_composite` before the component loop (with `deltas::composite_glyph`): the
component delta accumulator is zeroed before tuples are added to it and before it is read -/
theorem ft_load_composite_pre_wbr :
    segOK fns ftCompPre [] [] (fun p => getFlag p.flags haveDeltasFt == some true) (compPrePost ftPipeline) = true := by
  decide +kernel

/-- … per component (transform, anchor by offset / by points, translation), with and without deltas -/
theorem ft_load_composite_component_wbr :
    segOK fns ftCompIter [(haveDeltasFt, true)] (compIterPre ftPipeline true) (fun _ => true) [] = true ∧
    segOK fns ftCompIter [(haveDeltasFt, false)] (compIterPre ftPipeline false) (fun _ => true) [] = true := by
  decide +kernel

/-- … after the loop (hinting of the composite with `HintInstance::hint`) -/
theorem ft_load_composite_post_wbr :
    segOK fns ftCompPost [] (compPostPre ftPipeline) (fun _ => true) [] = true := by decide +kernel

/-- `FreeTypeScaler::scale`: what is handed to `to_path` has been written -/
theorem ft_scale_wbr : segOK fns ftFinal [] (finalPre ftPipeline) (fun _ => true) [] = true := by decide +kernel

theorem ft_pipeline_wbr : pipelineOK ftPipeline = true := by decide +kernel

/-! ### per-function obligations (HarfBuzz-style scaler) -/

theorem hb_load_simple_wbr :
    segOK fns hbSimple [] [] (fun _ => true) (simplePost hbPipeline) = true := by decide +kernel

theorem hb_load_composite_pre_wbr :
    segOK fns hbCompPre [] [] (fun p => getFlag p.flags haveDeltasHb == some true) (compPrePost hbPipeline) = true := by
  decide +kernel

theorem hb_load_composite_component_wbr :
    segOK fns hbCompIter [(haveDeltasHb, true)] (compIterPre hbPipeline true) (fun _ => true) [] = true ∧
    segOK fns hbCompIter [(haveDeltasHb, false)] (compIterPre hbPipeline false) (fun _ => true) [] = true := by
  decide +kernel

theorem hb_load_composite_post_wbr :
    segOK fns hbCompPost [] (compPostPre hbPipeline) (fun _ => true) [] = true := by decide +kernel

theorem hb_scale_wbr : segOK fns hbFinal [] (finalPre hbPipeline) (fun _ => true) [] = true := by decide +kernel

theorem hb_pipeline_wbr : pipelineOK hbPipeline = true := by decide +kernel

/-! ### the callees on their own

Each analysed callee, called on parameter slices of a common arbitrary length in distinct fields,
with exactly the parameters its callers have written marked as initialised. -/

/-- the i-th parameter slice: field i + 1, `n + 4` elements (`n` the only symbol) -/
def paramRng (i : Nat) : SRng := ⟨i + 1, lin [], ⟨[1], 4⟩⟩
def calleeSeg (f nparams : Nat) : Seg :=
  ⟨"callee", [], [.call f ((List.range nparams).map fun i => .abs (paramRng i)) [] none]⟩

/-- `deltas::composite_glyph(…, deltas)`: `deltas` arrives uninitialised (it is a window of the
component delta stack of the scratch buffer) -/
theorem composite_glyph_wbr : segOK fns (calleeSeg 1 1) [] [] (fun _ => true) [paramRng 0] = true := by
  decide +kernel

/-- `deltas::simple_glyph(…, glyph, iup_buffer, deltas)`: points / flags / contours are written by the
caller; `iup_buffer` and `deltas` arrive uninitialised; `deltas` is written on return -/
theorem simple_glyph_wbr :
    segOK fns (calleeSeg 2 5) [] [paramRng 0, paramRng 1, paramRng 2] (fun _ => true) [paramRng 4] = true := by
  decide +kernel

/-- `compute_deltas_for_glyph(…, deltas, closure)` with a closure that accumulates into `deltas` -/
theorem compute_deltas_for_glyph_wbr :
    segOK fns ⟨"callee", [], [.call 0 [.abs (paramRng 0)] [.opaque "+=" [⟨.rw, .cpar 0 .all⟩]] none]⟩ [] []
      (fun _ => true) [paramRng 0] = true := by
  decide +kernel

/-- `HintInstance::hint(outline)`: unscaled / scaled / original_scaled / flags / contours (and the
phantom array, which is not scratch memory) are written by the caller; the value stack, the CVT and
storage copies and the three twilight arrays arrive uninitialised -/
theorem hint_wbr :
    segOK fns (calleeSeg 3 12) [] [paramRng 0, paramRng 1, paramRng 2, paramRng 3, paramRng 4, paramRng 5]
      (fun _ => true) [paramRng 9, paramRng 10, paramRng 11] = true := by
  decide +kernel

/-- the zeroing is needed: the same closure over a callee that does not clear its accumulator first
is rejected (this is seeded change C12-4) -/
example :
    segOK [⟨"compute_deltas_for_glyph", ["deltas"], [.loop "tuples" [.callback [.par 0 .all]]]⟩]
      ⟨"callee", [], [.call 0 [.abs (paramRng 0)] [.opaque "+=" [⟨.rw, .cpar 0 .all⟩]] none]⟩ [] []
      (fun _ => true) [] = false := by decide +kernel

/-- an index bounded only by the length of the whole point buffer is rejected (the defect fixed by
1b759a9: `scaled.get(point_base + base_offset)`) -/
example :
    segOK [] ⟨"component", ["point_base", "@before", "@loaded", "delta_base", "count", "base_offset"],
      [.acc "scaled.get(point_base + base_offset)" [⟨.rd, .abs ⟨2, ⟨[1, 0, 0, 0, 0, 1], 0⟩, ⟨[1, 0, 0, 0, 0, 1], 1⟩⟩⟩]]⟩
      [] (compIterPre ftPipeline false) (fun _ => true) [] = false := by decide +kernel

/-! ### whole draw -/

/-- **Independence of the buffer's prior contents.** Let the scaler be any machine that touches the
scratch buffer only through range accesses, whose next step, written values and result may depend on
the font, the glyph, the size, the location, the hinting configuration and on every value it has read
(`Proc`).  If its access sequence on a buffer with contents `m1` is one that the load skeleton
(`DrawTrace`: `load` → `load_simple` / `load_composite` → … → `scale`, instantiating the access lists
extracted from the source) can produce for some glyph tree, then on a buffer with ANY other contents
`m2` it makes the same accesses and returns the same result.  Stated for every pipeline whose
per-function obligations hold; instantiated below for both scalers. -/
theorem draw_independent_of_buffer_contents_of (P : Pipeline) (hP : pipelineOK P = true)
    (g : Option Carve.Glyph) {R : Type} (p : Proc R) (m1 m2 : Mem) (h : DrawTrace P g (p.trace m1)) :
    p.run m1 = p.run m2 ∧ p.trace m1 = p.trace m2 :=
  proc_independent p m1 m2 (fun _ _ => False) (fun _ _ h => h.elim)
    (draw_trace_wbr P (pipelineOK_facts P hP) g _ h)

/-- the FreeType-style scaler (unhinted and hinted draws) -/
theorem draw_independent_of_buffer_contents (g : Option Carve.Glyph) {R : Type} (p : Proc R) (m1 m2 : Mem)
    (h : DrawTrace ftPipeline g (p.trace m1)) : p.run m1 = p.run m2 ∧ p.trace m1 = p.trace m2 :=
  draw_independent_of_buffer_contents_of ftPipeline ft_pipeline_wbr g p m1 m2 h

/-- the HarfBuzz-style scaler -/
theorem draw_independent_of_buffer_contents_hb (g : Option Carve.Glyph) {R : Type} (p : Proc R) (m1 m2 : Mem)
    (h : DrawTrace hbPipeline g (p.trace m1)) : p.run m1 = p.run m2 ∧ p.trace m1 = p.trace m2 :=
  draw_independent_of_buffer_contents_of hbPipeline hb_pipeline_wbr g p m1 m2 h

/-- every access sequence of the skeleton is write-before-read from a buffer of unknown contents -/
theorem draw_trace_write_before_read (g : Option Carve.Glyph) (cs : List CAcc) :
    (DrawTrace ftPipeline g cs → wbrOK cs (fun _ _ => False)) ∧
    (DrawTrace hbPipeline g cs → wbrOK cs (fun _ _ => False)) :=
  ⟨draw_trace_wbr _ (pipelineOK_facts _ ft_pipeline_wbr) g cs, draw_trace_wbr _ (pipelineOK_facts _ hb_pipeline_wbr) g cs⟩

/-- the address of the buffer does not enter either: `Proc` sees element indices of the carved
slices only, and the carve theorems (`ft_carve_sufficient`, `ft_carve_base_shift`) show that the slices
exist, are disjoint and keep their lengths at every base address -/
theorem proc_result_is_function_of_read_values {R : Type} (p : Proc R) (m1 m2 : Mem) (w : Written)
    (hag : ∀ f i, w f i → m1 f i = m2 f i) (hok : wbrOK (p.trace m1) w) : p.run m1 = p.run m2 :=
  (proc_independent p m1 m2 w hag hok).1

-- non-vacuity: the skeleton has traces (an empty glyph: only `scale` reads, nothing),
-- and the hypothesis matters: a machine that reads before writing does depend on the contents
example : DrawTrace ftPipeline none [⟨[⟨2, 0, 0⟩, ⟨5, 0, 0⟩, ⟨4, 0, 0⟩], []⟩] := by
  have hp : (paths fns ftFinal [])[0]? = some ⟨[.one ⟨"ScaledOutline::new(..) handed to the caller",
      [⟨2, lin [], lin [1]⟩, ⟨5, lin [], lin [1]⟩, ⟨4, lin [], lin [0, 1]⟩], []⟩], [], false, false⟩ := by
    decide +kernel
  have := DrawTrace.done (P := ftPipeline) (g := none) ⟨0, 0⟩ _ [0, 0] [] _ (Trace.empty ⟨0, 0⟩)
    (List.mem_of_getElem? hp) rfl (Conc.one _ _ _ Conc.nil)
  simpa [SAcc.inst, SRng.inst, Lin.eval, lin, dot] using this

def readsFirst : Proc Int := .step ⟨[⟨2, 0, 1⟩], []⟩ (fun _ => fun _ _ => 0) (fun m => .done (m 2 0))
example : readsFirst.run (fun _ _ => 7) = 7 ∧ readsFirst.run (fun _ _ => 9) = 9 := by decide
def writesFirst : Proc Int :=
  .step ⟨[], [⟨2, 0, 1⟩]⟩ (fun _ => fun _ _ => 5) (fun _ => .step ⟨[⟨2, 0, 1⟩], []⟩ (fun m => m) (fun m => .done (m 2 0)))
example : writesFirst.run (fun _ _ => 7) = 5 ∧ writesFirst.run (fun _ _ => 9) = 5 := by decide
example : wbrOK (writesFirst.trace (fun _ _ => 7)) (fun _ _ => False) := by
  simp [writesFirst, Proc.trace, wbrOK, stepW, inAny, CRng.has]

/-- the `modelled` events of the extracted data rely on exactly these theorems (Props/C12.lean,
Props/C12Wbr.lean) -/
theorem modelled_events_are_proved :
    modelledThms.all (fun t => ["cow_buffer_independent", "read_points_writes_all", "value_stack_buffer_independent"].contains t) = true := by
  decide

/-! ## 7. instance history: every field on the reconfigure / draw path -/

open FontVerif.HintState in
/-- the state table re-extracted from the source is the reviewed one, and it is complete: every field
of `HintingInstance` and `glyf::HintInstance` is overwritten by `reconfigure` (or only resized *and*
wiped by `Engine::reset(Program::Font)`: the instruction definitions), every field of the per-draw
objects (`Engine`, `GraphicsState`, `RetainedGraphicsState`, `ValueStack`, `ProgramState`, `LoopBudget`,
`CowSlice`, `Zone`) is named in its constructor or defaulted, `is_pedantic` and the backward
compatibility flag are assigned for every program run -/
theorem state_table_matches_model : persistSrc = persistModel ∧ persistComplete persistSrc = true := by
  decide +kernel

open FontVerif.HintState in
/-- dropping the reset of the instruction definitions (seeded change C12-5) makes the table incomplete -/
example : persistComplete (persistModel.filter (fun r => r.2.1 != "definitions.instructions")) = false := by
  decide +kernel

open FontVerif.HintState in
/-- **Reconfiguring the public instance is history independent**: for every interpreter, whatever
the instance was configured for before (`o`, `o'`: any size, location, target, any state of a previous
`glyf` instance or none), `HintingInstance::reconfigure` produces the same instance and the same
error.  Draws take `&self` (no interior mutability in outline/glyf: `interior_mutability_reviewed`), so
the instance a draw sees is this function of (font, size, location, mode). -/
theorem outer_reconfigure_history_independent {G E : Type} (run : EngineState G → Except E (EngineState G))
    (fresh : Inst G) (o o' : Outer G) (size : Int) (coords : List Int) (target : Nat) (c : Cfg G) :
    outerReconfigure run fresh o size coords target c = outerReconfigure run fresh o' size coords target c := by
  have h : ∀ (a b : Inst G), reconfigure run a c = reconfigure run b c :=
    fun a b => reconfigure_history_independent run a b c
  unfold outerReconfigure
  rw [h (o.inst fresh) (o'.inst fresh)]

open FontVerif.HintState in
example : (outerReconfigure exRun ⟨[], [], [], [], 0, [], [], [], 0, 0⟩ ⟨7, [1], 2, some exDirty⟩ 16 [] 0 exCfg).1.kind.map
      (fun i => (i.instructions, i.storage))
    = some ([some (1, 2, 165, 0), none], [0, 640, 0]) := by rfl

/-! ## 8. threads: the only shared mutable state is the lazy metrics slot -/

/-- every interior-mutability site under skrifa/src/outline/** and skrifa/src/color/** is reviewed
(translate/c12_sites_review.json; a new or changed site breaks the translator), and the only ones that
are shared mutable state are the `RwLock` accesses of `UnscaledStyleMetricsSet::get` -/
theorem interior_mutability_reviewed :
    interiorSitesSrc.all (fun s => ["import_or_type", "construct_all_none", "compute_once_publish_complete",
      "plain_mut_method"].contains s.2) = true ∧
    (interiorSitesSrc.filter (fun s => s.2 == "compute_once_publish_complete")).map (·.1) =
      ["skrifa/src/outline/autohint/metrics/mod.rs::get::.read().unwrap()",
       "skrifa/src/outline/autohint/metrics/mod.rs::get::.write().unwrap()"] ∧
    (interiorSitesSrc.filter (fun s => "skrifa/src/outline/glyf/".toList.isPrefixOf s.1.toList)) = [] := by
  decide +kernel

open FontVerif.LazySlot in
/-- the lock protocol extracted from `get` is the modelled one -/
theorem lazy_get_is_model : lazyGetSrc.mapM Act.ofString = some lazyGetModel := by decide


open FontVerif.LazySlot in
/-- **Readers see `None` or the final value.** For any number of threads calling `get` on one shared
slot and every interleaving of their lock-protected actions: the slot only ever holds `None` or the
final value, every thread that looked at the slot saw one of these two, and every call that has
returned returned the final value — no placeholder is ever visible. -/
theorem lazy_slot_readers_see_none_or_final (n final other : Nat) (sched : List Nat) :
    let s := run lazyGetModel final other (Sys.start n) sched
    (s.slot = none ∨ s.slot = some final) ∧
    ∀ t ∈ s.threads, (t.seen = none ∨ t.seen = some none ∨ t.seen = some (some final)) ∧
      (t.ret = none ∨ t.ret = some (some final)) := by
  have h0 : LazySlot.Good final (Sys.start n) := by
    refine ⟨Or.inl rfl, ?_⟩
    intro t ht
    simp only [Sys.start, List.mem_replicate] at ht
    rw [ht.2]
    exact ⟨Or.inl rfl, by simp [Thread.start], Or.inl rfl⟩
  have := LazySlot.run_good final other sched _ h0
  exact ⟨this.1, fun t ht => ⟨(this.2 t ht).1, (this.2 t ht).2.2⟩⟩

open FontVerif.LazySlot in
-- non-vacuity: two threads race, both compute, both return the final value 42, the slot holds it
example : (run lazyGetModel 42 0 (Sys.start 2) [0, 0, 1, 1, 0, 1, 0, 1, 0, 0, 1, 0, 0, 1, 1, 1, 1]).threads.map (·.ret)
    = [some (some 42), some (some 42)] := by decide
open FontVerif.LazySlot in
example : (run lazyGetModel 42 0 (Sys.start 2) [0, 0, 1, 1, 0, 1, 0, 1, 0, 0, 1, 0, 0, 1, 1, 1, 1]).slot = some 42 := by decide
open FontVerif.LazySlot in
/-- a protocol that claims the slot with a placeholder before computing (seeded change C12-6) lets a
second thread return the placeholder (here 0 instead of 42) -/
example : (run [.readLock, .readSlot, .returnIfSome, .unlock, .writeLock, .storeOther, .unlock, .compute, .writeLock,
      .storeFinal, .returnComputed] 42 0 (Sys.start 2) [0, 0, 0, 0, 0, 0, 0, 1, 1, 1]).threads.map (·.ret)
    = [none, some (some 0)] := by decide

/-! ## 9. the data-dependent accesses (`modelled` events) -/

open FontVerif.ScratchModels in
/-- **The interpreter's value stack does not depend on the scratch buffer.** `ValueStack::new` sets
`len = 0` on whatever the backing slice (carved from the caller's buffer, never cleared) contains; every
operation reads below `len` only, and everything below `len` has been pushed since.  So for every
sequence of operations (incl. the non-pedantic "pop of an empty stack yields 0", `CINDEX` / `MINDEX`
with arbitrary — also negative or too large — indices, overflow) the outcomes on two buffers of the
same length with arbitrary contents are identical. -/
theorem value_stack_buffer_independent (g g' : List Int) (h : g.length = g'.length) (pedantic : Bool)
    (ops : List VOp) : (VS.new g pedantic).run ops = (VS.new g' pedantic).run ops :=
  run_sim ops _ _ ⟨h, rfl, rfl, Nat.zero_le _, fun j hj => absurd hj (Nat.not_lt_zero _)⟩

open FontVerif.ScratchModels in
example : ((VS.new [7, 7, 7, 7] false).run [.pop, .push 5, .push 1, .copyIndex, .values, .push 9, .push 3, .moveIndex,
      .values, .roll, .values, .push 1, .push 2, .push 3]).map renderObs
    = ["ok 0", "ok", "ok", "ok", "ok 5 5", "ok", "ok", "ok", "ok 5 9 5", "ok", "ok 9 5 5",
       "ok", "ValueStackOverflow", "ValueStackOverflow"] := by decide
open FontVerif.ScratchModels in
example : ((VS.new [7, 7, 7, 7] true).run [.pop, .dup, .push 4, .push 6, .push 2, .moveIndex, .values]).map renderObs
    = ["ValueStackUnderflow", "ValueStackUnderflow", "ok", "ok", "ok", "ok", "ok 6 4"] := by decide

open FontVerif.ScratchModels in
/-- **`read_points_fast` writes every point and flag before reading any**: on two pairs of caller
buffers (unscaled points, flags — scratch slices with arbitrary contents) the outcome (error or the
complete buffers afterwards) is the same: the flag loop only ends successfully when `i == n_points`,
and the coordinate passes run after it. -/
theorem read_points_writes_all (gd : List Nat) (n : Nat) (p1 p2 : List (Int × Int)) (f1 f2 : List Nat)
    (hp1 : p1.length = n) (hp2 : p2.length = n) (hf1 : f1.length = n) (hf2 : f2.length = n) :
    readPointsBuf gd n p1 f1 = readPointsBuf gd n p2 f2 :=
  readPointsBuf_indep gd n p1 p2 f1 f2 hp1 hp2 hf1 hf2

open FontVerif.ScratchModels in
-- three points: flags 0x33 (x short +, y same), 0x09 repeat ×1 (on curve, i16 deltas); garbage buffers
example : readPointsBuf [0x33, 0x09, 0x01, 10, 0, 5, 0xFF, 0xFE, 0, 7, 0, 1] 3 [(9, 9), (8, 8), (7, 7)] [255, 255, 255]
    = some ([(10, 0), (15, 7), (13, 8)], [1, 1, 1]) := by decide
open FontVerif.ScratchModels in
-- flags that end before every point has one: an error, not stale flags
example : readPointsBuf [0x33] 3 [(9, 9), (8, 8), (7, 7)] [255, 255, 255] = none := by decide

end FontVerif.C12
