/-
C12 (continued) — whole-draw independence of the scratch buffer by WRITE-BEFORE-READ.

The per-function access data (Gen/C12Wbr.lean) is regenerated from skrifa/src/outline/glyf/{mod.rs,
deltas.rs, hint/instance.rs} by translate/c12_wbr.py on every run; the obligations below are decided
by the kernel on that data.
-/
import FontVerif.Lemmas.ScratchFlow
import FontVerif.Gen.C12Wbr
set_option linter.unusedVariables false
namespace FontVerif.C12
open FontVerif FontVerif.ScratchFlow FontVerif.Gen.C12Wbr

/-! ## 6. scratch memory is written before it is read -/

/-- the FreeType-style scaler: `scaled` (2) / `flags` (5) / `contours` (4) / `composite_deltas` (8) of
`FreeTypeOutlineMemory` -/
def ftPipeline : Pipeline :=
  ⟨fns, ftSimple, ftCompPre, ftCompIter, ftCompPost, ftFinal, haveDeltasFt, 2, 5, 4, 8⟩

/-- the HarfBuzz-style scaler: `points` (1) / `flags` (3) / `contours` (2) / `composite_deltas` (6) of
`HarfBuzzOutlineMemory` -/
def hbPipeline : Pipeline :=
  ⟨fns, hbSimple, hbCompPre, hbCompIter, hbCompPost, hbFinal, haveDeltasHb, 1, 3, 2, 6⟩

/-- the field numbers used above are the positions in the memory structs, the bound symbols of each
segment are the ones the skeleton (`ScratchFlow.Trace`) instantiates, `load_simple` advances the two
counters by the point / contour count, and the flag is `have_deltas` of `load_composite` -/
theorem wbr_data_is_wired :
    (ftFields[1]?, ftFields[4]?, ftFields[3]?, ftFields[7]?) =
      (some "scaled", some "flags", some "contours", some "composite_deltas") ∧
    (hbFields[0]?, hbFields[2]?, hbFields[1]?, hbFields[5]?) =
      (some "points", some "flags", some "contours", some "composite_deltas") ∧
    ftSimple.syms.take 4 = ["self.point_count", "glyph.num_points()", "self.contour_count", "contour_end_pts.len()"] ∧
    hbSimple.syms.take 4 = ftSimple.syms.take 4 ∧
    ftCompPre.syms.take 2 = ["self.component_delta_count", "glyph.components().count()"] ∧
    hbCompPre.syms.take 2 = ftCompPre.syms.take 2 ∧
    ftCompIter.syms.take 5 = ["point_base", "@points_before", "@points_loaded", "delta_base", "glyph.components().count()"] ∧
    hbCompIter.syms.take 5 = ftCompIter.syms.take 5 ∧
    ftCompPost.syms.take 4 = ["point_base", "@points_loaded", "contour_base", "@contours_loaded"] ∧
    ftFinal.syms.take 2 = ["self.point_count", "self.contour_count"] ∧
    hbFinal.syms.take 2 = ftFinal.syms.take 2 ∧
    ftSimpleCounters = [lin [1, 1], lin [0, 0, 1, 1]] ∧ hbSimpleCounters = ftSimpleCounters ∧
    flagNames.lookup haveDeltasFt = some "FreeTypeScaler::load_composite have_deltas" ∧
    flagNames.lookup haveDeltasHb = some "HarfBuzzScaler::load_composite have_deltas" ∧
    fns.map (·.name) = ["compute_deltas_for_glyph", "composite_glyph", "simple_glyph", "hint"] := by
  decide +kernel

/-! ### per-function obligations (FreeType-style scaler) -/

/-- `FreeTypeScaler::load_simple` (with `deltas::simple_glyph`, `compute_deltas_for_glyph` and
`HintInstance::hint` inlined): along each of its paths no element of any scratch slice is read before
this call has written it, and the points / flags / contour ends of the glyph are written on return -/
theorem ft_load_simple_wbr :
    segOK fns ftSimple [] [] (fun _ => true) (simplePost ftPipeline) = true := by decide +kernel

/-- `FreeTypeScaler::load_composite` before the component loop (with `deltas::composite_glyph`): the
component delta accumulator is zeroed before tuples are added to it and before it is read -/
theorem ft_load_composite_pre_wbr :
    segOK fns ftCompPre [] [] (fun p => getFlag p.flags haveDeltasFt == some true) (compPrePost ftPipeline) = true := by
  decide +kernel

/-- … per component (transform, anchor by offset / by points, translation), with and without deltas -/
theorem ft_load_composite_component_wbr :
    segOK fns ftCompIter [(haveDeltasFt, true)] (compIterPre ftPipeline true) (fun _ => true) [] = true ∧
    segOK fns ftCompIter [(haveDeltasFt, false)] (compIterPre ftPipeline false) (fun _ => true) [] = true := by
  decide +kernel

/-- … after the loop (hinting of the composite with `HintInstance::hint`) -/
theorem ft_load_composite_post_wbr :
    segOK fns ftCompPost [] (compPostPre ftPipeline) (fun _ => true) [] = true := by decide +kernel

/-- `FreeTypeScaler::scale`: what is handed to `to_path` has been written -/
theorem ft_scale_wbr : segOK fns ftFinal [] (finalPre ftPipeline) (fun _ => true) [] = true := by decide +kernel

theorem ft_pipeline_wbr : pipelineOK ftPipeline = true := by decide +kernel

/-! ### per-function obligations (HarfBuzz-style scaler) -/

theorem hb_load_simple_wbr :
    segOK fns hbSimple [] [] (fun _ => true) (simplePost hbPipeline) = true := by decide +kernel

theorem hb_load_composite_pre_wbr :
    segOK fns hbCompPre [] [] (fun p => getFlag p.flags haveDeltasHb == some true) (compPrePost hbPipeline) = true := by
  decide +kernel

theorem hb_load_composite_component_wbr :
    segOK fns hbCompIter [(haveDeltasHb, true)] (compIterPre hbPipeline true) (fun _ => true) [] = true ∧
    segOK fns hbCompIter [(haveDeltasHb, false)] (compIterPre hbPipeline false) (fun _ => true) [] = true := by
  decide +kernel

theorem hb_load_composite_post_wbr :
    segOK fns hbCompPost [] (compPostPre hbPipeline) (fun _ => true) [] = true := by decide +kernel

theorem hb_scale_wbr : segOK fns hbFinal [] (finalPre hbPipeline) (fun _ => true) [] = true := by decide +kernel

theorem hb_pipeline_wbr : pipelineOK hbPipeline = true := by decide +kernel

/-! ### the callees on their own

Each analysed callee, called on parameter slices of a common arbitrary length in distinct fields,
with exactly the parameters its callers have written marked as initialised. -/

/-- the i-th parameter slice: field i + 1, `n + 4` elements (`n` the only symbol) -/
def paramRng (i : Nat) : SRng := ⟨i + 1, lin [], ⟨[1], 4⟩⟩
def calleeSeg (f nparams : Nat) : Seg :=
  ⟨"callee", [], [.call f ((List.range nparams).map fun i => .abs (paramRng i)) [] none]⟩

/-- `deltas::composite_glyph(…, deltas)`: `deltas` arrives uninitialised (it is a window of the
component delta stack of the scratch buffer) -/
theorem composite_glyph_wbr : segOK fns (calleeSeg 1 1) [] [] (fun _ => true) [paramRng 0] = true := by
  decide +kernel

/-- `deltas::simple_glyph(…, glyph, iup_buffer, deltas)`: points / flags / contours are written by the
caller; `iup_buffer` and `deltas` arrive uninitialised; `deltas` is written on return -/
theorem simple_glyph_wbr :
    segOK fns (calleeSeg 2 5) [] [paramRng 0, paramRng 1, paramRng 2] (fun _ => true) [paramRng 4] = true := by
  decide +kernel

/-- `compute_deltas_for_glyph(…, deltas, closure)` with a closure that accumulates into `deltas` -/
theorem compute_deltas_for_glyph_wbr :
    segOK fns ⟨"callee", [], [.call 0 [.abs (paramRng 0)] [.opaque "+=" [⟨.rw, .cpar 0 .all⟩]] none]⟩ [] []
      (fun _ => true) [paramRng 0] = true := by
  decide +kernel

/-- `HintInstance::hint(outline)`: unscaled / scaled / original_scaled / flags / contours (and the
phantom array, which is not scratch memory) are written by the caller; the value stack, the CVT and
storage copies and the three twilight arrays arrive uninitialised -/
theorem hint_wbr :
    segOK fns (calleeSeg 3 12) [] [paramRng 0, paramRng 1, paramRng 2, paramRng 3, paramRng 4, paramRng 5]
      (fun _ => true) [paramRng 9, paramRng 10, paramRng 11] = true := by
  decide +kernel

/-- the zeroing is needed: the same closure over a callee that does not clear its accumulator first
is rejected (this is seeded change C12-4) -/
example :
    segOK [⟨"compute_deltas_for_glyph", ["deltas"], [.loop "tuples" [.callback [.par 0 .all]]]⟩]
      ⟨"callee", [], [.call 0 [.abs (paramRng 0)] [.opaque "+=" [⟨.rw, .cpar 0 .all⟩]] none]⟩ [] []
      (fun _ => true) [] = false := by decide +kernel

/-- an index bounded only by the length of the whole point buffer is rejected (the defect fixed by
1b759a9: `scaled.get(point_base + base_offset)`) -/
example :
    segOK [] ⟨"component", ["point_base", "@before", "@loaded", "delta_base", "count", "base_offset"],
      [.acc "scaled.get(point_base + base_offset)" [⟨.rd, .abs ⟨2, ⟨[1, 0, 0, 0, 0, 1], 0⟩, ⟨[1, 0, 0, 0, 0, 1], 1⟩⟩⟩]]⟩
      [] (compIterPre ftPipeline false) (fun _ => true) [] = false := by decide +kernel

/-! ### whole draw -/

/-- **Independence of the buffer's prior contents.** Let the scaler be any machine that touches the
scratch buffer only through range accesses, whose next step, written values and result may depend on
the font, the glyph, the size, the location, the hinting configuration and on every value it has read
(`Proc`).  If its access sequence on a buffer with contents `m1` is one that the load skeleton
(`DrawTrace`: `load` → `load_simple` / `load_composite` → … → `scale`, instantiating the access lists
extracted from the source) can produce for some glyph tree, then on a buffer with ANY other contents
`m2` it makes the same accesses and returns the same result.  Stated for every pipeline whose
per-function obligations hold; instantiated below for both scalers. -/
theorem draw_independent_of_buffer_contents_of (P : Pipeline) (hP : pipelineOK P = true)
    (g : Option Carve.Glyph) {R : Type} (p : Proc R) (m1 m2 : Mem) (h : DrawTrace P g (p.trace m1)) :
    p.run m1 = p.run m2 ∧ p.trace m1 = p.trace m2 :=
  proc_independent p m1 m2 (fun _ _ => False) (fun _ _ h => h.elim)
    (draw_trace_wbr P (pipelineOK_facts P hP) g _ h)

/-- the FreeType-style scaler (unhinted and hinted draws) -/
theorem draw_independent_of_buffer_contents (g : Option Carve.Glyph) {R : Type} (p : Proc R) (m1 m2 : Mem)
    (h : DrawTrace ftPipeline g (p.trace m1)) : p.run m1 = p.run m2 ∧ p.trace m1 = p.trace m2 :=
  draw_independent_of_buffer_contents_of ftPipeline ft_pipeline_wbr g p m1 m2 h

/-- the HarfBuzz-style scaler -/
theorem draw_independent_of_buffer_contents_hb (g : Option Carve.Glyph) {R : Type} (p : Proc R) (m1 m2 : Mem)
    (h : DrawTrace hbPipeline g (p.trace m1)) : p.run m1 = p.run m2 ∧ p.trace m1 = p.trace m2 :=
  draw_independent_of_buffer_contents_of hbPipeline hb_pipeline_wbr g p m1 m2 h

/-- every access sequence of the skeleton is write-before-read from a buffer of unknown contents -/
theorem draw_trace_write_before_read (g : Option Carve.Glyph) (cs : List CAcc) :
    (DrawTrace ftPipeline g cs → wbrOK cs (fun _ _ => False)) ∧
    (DrawTrace hbPipeline g cs → wbrOK cs (fun _ _ => False)) :=
  ⟨draw_trace_wbr _ (pipelineOK_facts _ ft_pipeline_wbr) g cs, draw_trace_wbr _ (pipelineOK_facts _ hb_pipeline_wbr) g cs⟩

/-- the address of the buffer does not enter either: `Proc` sees element indices of the carved
slices only, and the carve theorems (`ft_carve_sufficient`, `ft_carve_base_shift`) show that the slices
exist, are disjoint and keep their lengths at every base address -/
theorem proc_result_is_function_of_read_values {R : Type} (p : Proc R) (m1 m2 : Mem) (w : Written)
    (hag : ∀ f i, w f i → m1 f i = m2 f i) (hok : wbrOK (p.trace m1) w) : p.run m1 = p.run m2 :=
  (proc_independent p m1 m2 w hag hok).1

-- non-vacuity: the skeleton has traces (an empty glyph: only `scale` reads, nothing),
-- and the hypothesis matters: a machine that reads before writing does depend on the contents
example : DrawTrace ftPipeline none [⟨[⟨2, 0, 0⟩, ⟨5, 0, 0⟩, ⟨4, 0, 0⟩], []⟩] := by
  have hp : (paths fns ftFinal [])[0]? = some ⟨[.one ⟨"ScaledOutline::new(..) handed to the caller",
      [⟨2, lin [], lin [1]⟩, ⟨5, lin [], lin [1]⟩, ⟨4, lin [], lin [0, 1]⟩], []⟩], [], false, false⟩ := by
    decide +kernel
  have := DrawTrace.done (P := ftPipeline) (g := none) ⟨0, 0⟩ _ [0, 0] [] _ (Trace.empty ⟨0, 0⟩)
    (List.mem_of_getElem? hp) rfl (Conc.one _ _ _ Conc.nil)
  simpa [SAcc.inst, SRng.inst, Lin.eval, lin, dot] using this

def readsFirst : Proc Int := .step ⟨[⟨2, 0, 1⟩], []⟩ (fun _ => fun _ _ => 0) (fun m => .done (m 2 0))
example : readsFirst.run (fun _ _ => 7) = 7 ∧ readsFirst.run (fun _ _ => 9) = 9 := by decide
def writesFirst : Proc Int :=
  .step ⟨[], [⟨2, 0, 1⟩]⟩ (fun _ => fun _ _ => 5) (fun _ => .step ⟨[⟨2, 0, 1⟩], []⟩ (fun m => m) (fun m => .done (m 2 0)))
example : writesFirst.run (fun _ _ => 7) = 5 ∧ writesFirst.run (fun _ _ => 9) = 5 := by decide
example : wbrOK (writesFirst.trace (fun _ _ => 7)) (fun _ _ => False) := by
  simp [writesFirst, Proc.trace, wbrOK, stepW, inAny, CRng.has]

/-- the `modelled` events of the extracted data rely on exactly these theorems (Props/C12.lean,
Props/C12Wbr.lean) -/
theorem modelled_events_are_proved :
    modelledThms.all (fun t => ["cow_buffer_independent", "read_points_writes_all", "value_stack_buffer_independent"].contains t) = true := by
  decide

end FontVerif.C12
