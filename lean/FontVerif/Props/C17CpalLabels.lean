/-
C17 — CPAL version 1 arrays (klippa/src/cpal.rs `subset_v1`, `&[BigEndian<NameId>]::subset`): palette types, palette labels
and palette entry labels of the subset.  Object level (like the COLR v1 theorems): the statements are about the serializer
objects `Cpal::subset` builds (`SubsetCpal.cpalObjects`) and the links of the root object; the laid-out bytes are tied by the
byte-exact `cpal` correspondence and the `cpal-reader` group of harness/src/bin/c17/colrx.rs (oracle: types / labels / entry
labels preserved), not by proof.
-/
import FontVerif.Lemmas.SubsetCpalLabels
set_option linter.unusedVariables false
namespace FontVerif.C17CpalLabels
open FontVerif FontVerif.ColrSer FontVerif.SubsetCpal

/-- **cpal_v1_arrays_subset.**  A successful `Cpal::subset` of a version 1 table, for every `colr_palettes`: behind each of
the three offsets of the header extension (at `typesPos`, `+4`, `+8` of the root object)
* a NULL source offset stays NULL (no link is added at that position);
* a non-null paletteTypesArrayOffset / paletteLabelsArrayOffset links an object holding the source array UNCHANGED
  (`4 * numPalettes` / `2 * numPalettes` bytes: palettes are never pruned or renumbered);
* a non-null paletteEntryLabelsArrayOffset links an object holding `keptLabels`: the labels of exactly the source entries
  that are keys of `colr_palettes`, in ascending entry order (`cpal_entry_labels_renumbered`). -/
theorem cpal_v1_arrays_subset (b : List Nat) (palettes : List (Nat × Nat)) (packed : List Obj) (root : Obj)
    (h : cpalObjects b palettes = .ok (packed, root)) (hd : Header) (hhd : readHeader b = some hd)
    (hv : hd.version = 1) :
    ∃ typesPos links0, V1Leaves b hd palettes typesPos links0 packed root.links :=
  cpalObjects_v1_leaves b palettes packed root h hd hhd hv

/-- **cpal_entry_labels_renumbered.**  The pruned entry-label array, for every source array of `numPaletteEntries` labels:
its j-th label is the source label of the j-th kept entry `e` (the j-th smallest source entry index that is a key of
`colr_palettes`), and it has exactly one label per kept entry — labels are renumbered along the retained entries, none is
dropped, duplicated or reordered. -/
theorem cpal_entry_labels_renumbered (n : Nat) (palettes : List (Nat × Nat)) (src : List Nat)
    (hlen : src.length = 2 * n) (j e : Nat) (hj : (keptEntries n palettes)[j]? = some e) :
    rdN 2 (keptLabels n palettes src) (2 * j) = rdN 2 src (2 * e) ∧
    (keptLabels n palettes src).length = 2 * (keptEntries n palettes).length :=
  keptLabels_get n palettes src hlen j e hj

/-- kept entries = the keys of `colr_palettes` inside the source's entry range -/
theorem kept_entries_are_keys (n : Nat) (palettes : List (Nat × Nat)) (e : Nat) :
    e ∈ keptEntries n palettes ↔ e < n ∧ (palettes.lookup e).isSome := by
  unfold keptEntries
  simp [List.mem_filter]

/-! ## non-vacuity -/

/-- 5 source entries with labels 300..304, colr_palettes keeps entries 1, 3, 4 (and the foreground marker) -/
example : keptEntries 5 [(1, 0), (3, 1), (4, 2), (0xFFFF, 0xFFFF)] = [1, 3, 4] := by decide
example : keptLabels 5 [(1, 0), (3, 1), (4, 2), (0xFFFF, 0xFFFF)] [1, 44, 1, 45, 1, 46, 1, 47, 1, 48] =
    [1, 45, 1, 47, 1, 48] := by decide

end FontVerif.C17CpalLabels
