/- C14 / the iterator state machines of bitpage.rs / bitset.rs over the concrete representation
(Model/IntSetIterConc.lean) yield exactly what the abstract model (Model/IntSet.lean) says. -/
import FontVerif.Lemmas.IntSetIterConc
set_option linter.unusedVariables false
namespace FontVerif.C14IterConc
open FontVerif.IntSet

/-- (A) bitpage.rs `RangeIter` (`next_range_in_element` + the merging loop of `next`), run to
exhaustion on a well-formed page, yields exactly the maximal runs of consecutive members of the
page, ascending, merged across the eight `u64` element boundaries. -/
theorem page_range_iter_yields_runs (p : CPage) (hp : CPageOk p) :
    p.ranges = runsOfList (pageMembers p.abs.bits) :=
  page_range_iter_yields_runs' p hp

-- non-vacuity / transcription checks: a run across the element 0 / element 1 boundary, a full page
example : (CPage.mk [2 ^ 63, 1, 0, 0, 0, 0, 0, 0] 2).ranges = [(63, 64)] := by decide
example : (CPage.mk (List.replicate 8 (2 ^ 64 - 1)) 512).ranges = [(0, 511)] := by decide
example : CPage.zero.ranges = [] := by decide

/-- (B) bitset.rs `BitSetRangeIter` (`new`, `page_iter`, `move_to_next_page`, `reset_page_iter`,
`next_range`, the merging loop of `next`), run to exhaustion on a set satisfying the
representation invariant (pages stored in ARBITRARY order and reached through the sorted map,
zero pages allowed), yields exactly the abstract ranges `runsOfList s.abs.membersAll`: a run is
continued across a page end exactly when the next map entry has the adjacent major AND its bit 0
is set; zero pages and missing majors end it. -/
theorem range_iter_yields_abstract_ranges (s : CBitSet) (hs : CInv s) :
    s.iterRanges = s.abs.ranges :=
  range_iter_yields_abstract_ranges' s hs

/-- the same, spelled out: the ranges are the maximal runs of all members of all mapped pages -/
theorem range_iter_yields_runs_of_members (s : CBitSet) (hs : CInv s) :
    s.iterRanges = runsOfList s.abs.membersAll :=
  range_iter_yields_abstract_ranges' s hs

-- the merge condition (`continuation.start() == range.end() + 1`; seeded bug C14-5 compared with
-- the start of the next page IN THE MAP instead): majors 0 and 2, bit 511 of page 0 and bit 0 of
-- page 2 — two separate ranges, the gap of the missing major 1 is not bridged.  The pages are
-- stored in reverse order (`pages[1]` is major 0).
example :
    (CBitSet.mk [⟨[1, 0, 0, 0, 0, 0, 0, 0], 1⟩, ⟨[0, 0, 0, 0, 0, 0, 0, 2 ^ 63], 1⟩]
      [(0, 1), (2, 0)] 2).iterRanges = [(511, 511), (1024, 1024)] := by decide
-- adjacent majors 0 and 1: one range across the page end; a zero page at major 2 ends it
example :
    (CBitSet.mk [⟨[1, 0, 0, 0, 0, 0, 0, 0], 1⟩, ⟨[0, 0, 0, 0, 0, 0, 0, 2 ^ 63], 1⟩, CPage.zero]
      [(0, 1), (1, 0), (2, 2)] 2).iterRanges = [(511, 512)] := by decide
-- the invariant is satisfiable by such a set
example : CInv (CBitSet.mk [⟨[1, 0, 0, 0, 0, 0, 0, 0], 1⟩, ⟨[0, 0, 0, 0, 0, 0, 0, 2 ^ 63], 1⟩]
    [(0, 1), (2, 0)] 2) := by
  refine ⟨rfl, by decide, by decide, by decide, ?_, by decide⟩
  intro p hp
  simp only [List.mem_cons, List.not_mem_nil, or_false] at hp
  rcases hp with rfl | rfl <;> refine ⟨rfl, ?_, by decide⟩ <;> intro e he <;>
    simp only [List.mem_cons, List.not_mem_nil, or_false] at he <;> omega

end FontVerif.C14IterConc
