/- C14 / the iterator state machines of bitpage.rs / bitset.rs over the concrete representation
(Model/IntSetIterConc.lean) yield exactly what the abstract model (Model/IntSet.lean) says. -/
import FontVerif.Lemmas.IntSetIterConc
set_option linter.unusedVariables false
namespace FontVerif.C14IterConc
open FontVerif.IntSet

/-- (A) bitpage.rs `RangeIter` (`next_range_in_element` + the merging loop of `next`), run to
exhaustion on a well-formed page, yields exactly the maximal runs of consecutive members of the
page, ascending, merged across the eight `u64` element boundaries. -/
theorem page_range_iter_yields_runs (p : CPage) (hp : CPageOk p) :
    p.ranges = runsOfList (pageMembers p.abs.bits) :=
  page_range_iter_yields_runs' p hp

-- non-vacuity / transcription checks: a run across the element 0 / element 1 boundary, a full page
example : (CPage.mk [2 ^ 63, 1, 0, 0, 0, 0, 0, 0] 2).ranges = [(63, 64)] := by decide
example : (CPage.mk (List.replicate 8 (2 ^ 64 - 1)) 512).ranges = [(0, 511)] := by decide
example : CPage.zero.ranges = [] := by decide

end FontVerif.C14IterConc
