/- C14 / the iterator state machines of bitpage.rs / bitset.rs over the concrete representation
(Model/IntSetIterConc.lean) yield exactly what the abstract model (Model/IntSet.lean) says. -/
import FontVerif.Lemmas.IntSetIterConc
set_option linter.unusedVariables false
namespace FontVerif.C14IterConc
open FontVerif.IntSet

/-- (A) bitpage.rs `RangeIter` (`next_range_in_element` + the merging loop of `next`), run to
exhaustion on a well-formed page, yields exactly the maximal runs of consecutive members of the
page, ascending, merged across the eight `u64` element boundaries. -/
theorem page_range_iter_yields_runs (p : CPage) (hp : CPageOk p) :
    p.ranges = runsOfList (pageMembers p.abs.bits) :=
  page_range_iter_yields_runs' p hp

/-- the fuel of the page-level `collect` suffices: any larger fuel yields the same list (the inner
`loop` fuel 9 of `next` is shown sufficient inside the proof: `pnextLoop_some` / `pnextLoop_none`) -/
theorem page_range_iter_fuel_suffices (p : CPage) (hp : CPageOk p) (fuel : Nat) (h : 513 ≤ fuel) :
    PRangeIter.collect fuel p.iterRanges = p.ranges := by
  rw [pcollect_fuel p hp fuel h, page_range_iter_yields_runs' p hp]

-- non-vacuity / transcription checks: a run across the element 0 / element 1 boundary, a full page
example : (CPage.mk [2 ^ 63, 1, 0, 0, 0, 0, 0, 0] 2).ranges = [(63, 64)] := by decide
example : (CPage.mk (List.replicate 8 (2 ^ 64 - 1)) 512).ranges = [(0, 511)] := by decide
example : CPage.zero.ranges = [] := by decide

/-- (B) bitset.rs `BitSetRangeIter` (`new`, `page_iter`, `move_to_next_page`, `reset_page_iter`,
`next_range`, the merging loop of `next`), run to exhaustion on a set satisfying the
representation invariant (pages stored in ARBITRARY order and reached through the sorted map,
zero pages allowed), yields exactly the abstract ranges `runsOfList s.abs.membersAll`: a run is
continued across a page end exactly when the next map entry has the adjacent major AND its bit 0
is set; zero pages and missing majors end it. -/
theorem range_iter_yields_abstract_ranges (s : CBitSet) (hs : CInv s) :
    s.iterRanges = s.abs.ranges :=
  range_iter_yields_abstract_ranges' s hs

/-- the fuel of the set-level `collect` suffices (the inner `loop` fuel `page_map.len() + 1` of
`next` is shown sufficient inside the proof: `snextLoop_some` / `snextLoop_none`) -/
theorem range_iter_fuel_suffices (s : CBitSet) (hs : CInv s) (fuel : Nat)
    (h : 512 * s.pageMap.length + 1 ≤ fuel) :
    SRangeIter.collect fuel (SRangeIter.new s) = s.iterRanges := by
  rw [scollect_fuel s hs fuel h, range_iter_yields_abstract_ranges' s hs]

/-- the same, spelled out: the ranges are the maximal runs of all members of all mapped pages -/
theorem range_iter_yields_runs_of_members (s : CBitSet) (hs : CInv s) :
    s.iterRanges = runsOfList s.abs.membersAll :=
  range_iter_yields_abstract_ranges' s hs

-- the merge condition (`continuation.start() == range.end() + 1`; seeded bug C14-5 compared with
-- the start of the next page IN THE MAP instead): majors 0 and 2, bit 511 of page 0 and bit 0 of
-- page 2 — two separate ranges, the gap of the missing major 1 is not bridged.  The pages are
-- stored in reverse order (`pages[1]` is major 0).
example :
    (CBitSet.mk [⟨[1, 0, 0, 0, 0, 0, 0, 0], 1⟩, ⟨[0, 0, 0, 0, 0, 0, 0, 2 ^ 63], 1⟩]
      [(0, 1), (2, 0)] 2).iterRanges = [(511, 511), (1024, 1024)] := by decide
-- adjacent majors 0 and 1: one range across the page end; a zero page at major 2 ends it
example :
    (CBitSet.mk [⟨[1, 0, 0, 0, 0, 0, 0, 0], 1⟩, ⟨[0, 0, 0, 0, 0, 0, 0, 2 ^ 63], 1⟩, CPage.zero]
      [(0, 1), (1, 0), (2, 2)] 2).iterRanges = [(511, 512)] := by decide
-- the invariant is satisfiable by such a set
example : CInv (CBitSet.mk [⟨[1, 0, 0, 0, 0, 0, 0, 0], 1⟩, ⟨[0, 0, 0, 0, 0, 0, 0, 2 ^ 63], 1⟩]
    [(0, 1), (2, 0)] 2) := by
  refine ⟨rfl, by decide, by decide, by decide, ?_, by decide⟩
  intro p hp
  simp only [List.mem_cons, List.not_mem_nil, or_false] at hp
  rcases hp with rfl | rfl <;> refine ⟨rfl, ?_, by decide⟩ <;> intro e he <;>
    simp only [List.mem_cons, List.not_mem_nil, or_false] at he <;> omega

/-- (C) `BitSet::iter` (`iter_pages` through the map, `iter_non_empty_pages` filtering on the
CACHED page length, `BitPage::iter` skipping zero elements) yields exactly the abstract members
front to back, and their reverse when driven from the back only.  (The per-`u64` `Iter` is the
ascending list of set bits; `DoubleEndedIterator` is the deque `DEIter` over the item sequence —
see Model/IntSetIterConc.lean.) -/
theorem iter_forward_backward (s : CBitSet) (hs : CInv s) :
    s.iter = s.abs.members ∧ s.iterRev = s.abs.members.reverse := by
  refine ⟨iter_eq_members hs, ?_⟩
  unfold CBitSet.iterRev CBitSet.deIter
  rw [deIter_rev _ _ (Nat.le_succ _), iter_eq_members hs]

/-- double-ended consistency: after ANY interleaving of `next` (`false`) / `next_back` (`true`)
calls, the items handed out at the front (in call order), the items not yet handed out, and the
items handed out at the back (in reverse call order) concatenate to the abstract members — every
member is yielded at most once, from exactly one end, fronts ascending and backs descending. -/
theorem iter_double_ended_consistent (s : CBitSet) (hs : CInv s) (sched : List Bool) :
    (DEIter.run sched s.deIter).1 ++ (DEIter.run sched s.deIter).2.2.rest ++
      (DEIter.run sched s.deIter).2.1.reverse = s.abs.members := by
  unfold CBitSet.deIter
  rw [deIter_run_spec, iter_eq_members hs]

/-- (C) `BitSet::iter_after(value)` (binary search `Ok` → partial first page through
`BitPage::iter_after`, NOT filtered by `is_empty`; `Err` → no partial page; follow-on pages
filtered by the cached `is_empty`) yields exactly the abstract members above `value`. -/
theorem iter_after_yields_members_above (s : CBitSet) (hs : CInv s) (v : Nat) :
    s.iterAfter v = s.abs.members.filter (· > v) := by
  rw [iterAfter_eq hs v]

/-- (C), all of it: forward, backward, `iter_after`, and any `next` / `next_back` schedule. -/
theorem iter_yields_members (s : CBitSet) (hs : CInv s) :
    s.iter = s.abs.members ∧ s.iterRev = s.abs.members.reverse ∧
      (∀ v, s.iterAfter v = s.abs.members.filter (· > v)) ∧
      ∀ sched : List Bool,
        (DEIter.run sched s.deIter).1 ++ (DEIter.run sched s.deIter).2.2.rest ++
          (DEIter.run sched s.deIter).2.1.reverse = s.abs.members :=
  ⟨(iter_forward_backward s hs).1, (iter_forward_backward s hs).2,
    iter_after_yields_members_above s hs, iter_double_ended_consistent s hs⟩

/-- the page-level pieces: `BitPage::iter` / `BitPage::iter_after(value)` on a well-formed page -/
theorem page_iter_yields_members (p : CPage) (hp : CPageOk p) (v : Nat) :
    p.iterL = pageMembers p.abs.bits ∧
      p.iterAfterL v = (pageMembers p.abs.bits).filter (fun x => decide (v % 512 < x)) :=
  ⟨iterL_eq hp, iterAfterL_eq hp v⟩

example :
    let s := CBitSet.mk [⟨[1, 0, 0, 0, 0, 0, 0, 0], 1⟩, ⟨[6, 0, 0, 0, 0, 0, 0, 2 ^ 63], 3⟩]
      [(0, 1), (2, 0)] 4
    s.iterAfter 1 = [2, 511, 1024] ∧ s.iterAfter 511 = [1024] ∧ s.iterAfter 700 = [1024] ∧
      s.iterAfter 1024 = [] := by
  decide

example :
    let s := CBitSet.mk [⟨[1, 0, 0, 0, 0, 0, 0, 0], 1⟩, ⟨[6, 0, 0, 0, 0, 0, 0, 2 ^ 63], 3⟩]
      [(0, 1), (2, 0)] 4
    s.iter = [1, 2, 511, 1024] ∧ s.iterRev = [1024, 511, 2, 1] ∧
      (DEIter.run [false, true, true, false, false, true] s.deIter) = ([1, 2], [1024, 511], ⟨[]⟩) := by
  decide

end FontVerif.C14IterConc
