/-
C16 (split size estimates) — the Coverage / ClassDef size estimates of `split_pair_pos_format_2`
(`ClassDefSizeEstimator::{increment_coverage_size, increment_class_def_size}`) against the tables the
builders actually emit for a piece (`CoverageTableBuilder::build`, `ClassDefBuilderImpl::build`:
format 1 vs 2 as the code chooses), composed with `ppf2_piece_estimates_exact`.
Model: Model/LayoutLookup.lean (`Coverage.byteSize`, `ClassDef.byteSize`, `ppf2CovEstimate`,
`ppf2Cd1Estimate`); helper lemmas: Lemmas/LayoutSizes.lean.
-/
import FontVerif.Props.C16Ppf2Dev
import FontVerif.Lemmas.LayoutSizes
import FontVerif.Lemmas.LayoutRanges
set_option linter.unusedVariables false
namespace FontVerif.C16
open FontVerif FontVerif.Layout

/-- **coverage_emitted_size_le.**  For EVERY glyph list the coverage table the builder emits (format
2 exactly when it is smaller) takes at most 4 + 2·(distinct glyphs) bytes. -/
theorem coverage_emitted_size_le (gs : List Nat) :
    (buildCoverage gs).byteSize ≤ 4 + 2 * (sortDedup gs).length :=
  buildCoverage_byteSize_le gs

/-- **classdef_emitted_size_le.**  For EVERY glyph → class list the class definition the builder
emits (format 1 exactly when it is smaller) takes at most 4 + 6·(class ranges) bytes. -/
theorem classdef_emitted_size_le (ps : List (Nat × Nat)) :
    (buildClassDef ps).byteSize ≤ 4 + 6 * (iterClassRanges (collectItems ps)).length :=
  buildClassDefItems_byteSize_le _

/-- **ppf2_coverage_estimate_sound.**  For EVERY coverage table, class definition 1 and class range
`s..t`: the coverage table `split_off_ppf2` builds for the piece is never larger than the loop's
running `coverage_size` for that piece (4 + 2 bytes per glyph of every class in the range). -/
theorem ppf2_coverage_estimate_sound (cov : Coverage) (cd : ClassDef) (s t : Nat) :
    (buildCoverage (pieceGlyphs cov cd s t)).byteSize ≤ ppf2CovEstimate ⟨gcOf cov cd⟩ s t := by
  refine Nat.le_trans (buildCoverage_byteSize_le _) ?_
  unfold ppf2CovEstimate
  have hinc : (fun c => (⟨gcOf cov cd⟩ : Ppf2Est).incCov c) =
      fun c => 2 * ((⟨gcOf cov cd⟩ : Ppf2Est).glyphsOf c).length := rfl
  rw [show (List.range' s (t - s)).map (⟨gcOf cov cd⟩ : Ppf2Est).incCov =
      (List.range' s (t - s)).map (fun c => 2 * ((⟨gcOf cov cd⟩ : Ppf2Est).glyphsOf c).length) from rfl,
    sum_two_len]
  have hnd : (sortDedup (pieceGlyphs cov cd s t)).Nodup :=
    List.nodup_iff_pairwise_ne.mpr ((sortDedup_pairwise _).imp (fun h => Nat.ne_of_lt h))
  have := nodup_subset_length_le _ ((List.range' s (t - s)).flatMap (⟨gcOf cov cd⟩ : Ppf2Est).glyphsOf) hnd
    (by
      intro x hx
      have hx' : x ∈ pieceGlyphs cov cd s t := mem_sortDedup.mp hx
      unfold pieceGlyphs at hx'
      obtain ⟨p, hp, rfl⟩ := List.mem_map.mp hx'
      obtain ⟨g, hg, hgp⟩ := List.mem_filterMap.mp hp
      simp only at hgp
      split at hgp
      · rename_i hc
        cases hgp
        simp only
        refine List.mem_flatMap.mpr ⟨cd.get g, ?_, ?_⟩
        · rw [List.mem_range'_1]; omega
        · unfold Ppf2Est.glyphsOf
          rw [mem_sortDedup]
          refine List.mem_map.mpr ⟨(g, cd.get g), List.mem_filter.mpr ⟨?_, by simp⟩, rfl⟩
          exact List.mem_map.mpr ⟨g, hg, rfl⟩
      · cases hgp)
  omega

/-- **ppf2_classdef_estimate_sound.**  For EVERY coverage table, class definition 1 and class range
`s..t`: the class definition 1 `split_off_ppf2` builds for the piece (classes shifted down, the first
class of the range dropped as the new class 0, format 1 or 2 as the builder chooses) is never larger
than the loop's running `class_def_1_size` (4 + 6 bytes per run of consecutive glyphs of every class
in the range, original class 0 skipped): a class definition has at most as many ranges as its classes
have runs (`iterClassRanges_le`). -/
theorem ppf2_classdef_estimate_sound (cov : Coverage) (cd : ClassDef) (s t : Nat) :
    (buildClassDef (pieceClassMap cov cd s t)).byteSize ≤ ppf2Cd1Estimate ⟨gcOf cov cd⟩ s t :=
  Nat.le_trans (classdef_emitted_size_le _) (ppf2_cd1_ranges_le cov cd s t)

/-- the piece `split_off_ppf2` builds: exactly these coverage and class-definition tables -/
theorem splitOffPpf2_tables {V : Type} (tbl : PairPos2 V) (s t : Nat) (p : PairPos2 V)
    (h : splitOffPpf2 tbl s t = some p) :
    p.cov = buildCoverage (pieceGlyphs tbl.cov tbl.classDef1 s t) ∧
    p.classDef1 = buildClassDef (pieceClassMap tbl.cov tbl.classDef1 s t) ∧ p.classDef2 = tbl.classDef2 := by
  unfold splitOffPpf2 at h
  split at h
  · cases h
  · cases h; exact ⟨rfl, rfl, rfl⟩

/-- **ppf2_accepted_piece_fits.**  The composition C05 needs.  Take a piece `(s, t)` of the repaired
loop (`ppf2DPieces true`) on ANY coverage / class definitions / record size / device-offset pattern.
If the loop's acceptance test holds for the piece — estimated records + device tables + coverage +
class definitions − the largest of the three tables ≤ 65535 — then the same bound holds for the TRUE
sizes of what `split_off_ppf2` builds: the subtable, its device tables (each distinct object once) and
all but the largest of its coverage / class-definition tables end within 64 KiB of the subtable's
start, i.e. every 16-bit offset of the piece can be resolved.  (Records / device part exact:
`ppf2_piece_estimates_exact`; coverage: `ppf2_coverage_estimate_sound`; class definition 1:
`ppf2_classdef_estimate_sound`; class definition 2 is reused unchanged.) -/
theorem ppf2_accepted_piece_fits (cov : Coverage) (cd cd2 : ClassDef) (recSize : Nat)
    (rows : List (List (Nat × Nat))) (ps : List (Nat × Nat × Nat))
    (h : ppf2DPieces true (gcOf cov cd) recSize cd2.byteSize rows = some ps)
    (p : Nat × Nat × Nat) (hp : p ∈ ps)
    (haccept : p.2.2 + ppf2CovEstimate ⟨gcOf cov cd⟩ p.1 p.2.1 + ppf2Cd1Estimate ⟨gcOf cov cd⟩ p.1 p.2.1 +
      cd2.byteSize - max (max (ppf2CovEstimate ⟨gcOf cov cd⟩ p.1 p.2.1)
        (ppf2Cd1Estimate ⟨gcOf cov cd⟩ p.1 p.2.1)) cd2.byteSize ≤ 65535) :
    ppf2PieceSize recSize rows p.1 p.2.1 + (buildCoverage (pieceGlyphs cov cd p.1 p.2.1)).byteSize +
      (buildClassDef (pieceClassMap cov cd p.1 p.2.1)).byteSize + cd2.byteSize -
      max (max (buildCoverage (pieceGlyphs cov cd p.1 p.2.1)).byteSize
        (buildClassDef (pieceClassMap cov cd p.1 p.2.1)).byteSize) cd2.byteSize ≤ 65535 := by
  have h1 := (ppf2_piece_estimates_exact _ recSize _ rows ps h p hp).2
  have h2 := ppf2_coverage_estimate_sound cov cd p.1 p.2.1
  have h3 := ppf2_classdef_estimate_sound cov cd p.1 p.2.1
  rw [← h1]
  omega

/-! ## non-vacuity -/

example : (buildCoverage [1, 2, 3, 4, 5, 6, 7, 9]).byteSize = 16 ∧ (buildCoverage [5, 3, 9]).byteSize = 10 := by
  decide
example : (buildClassDef [(3, 4), (4, 6), (5, 1), (9, 5), (10, 2), (11, 3)]).byteSize = 24 ∧
    (iterClassRanges (collectItems [(3, 4), (4, 6), (5, 1), (9, 5), (10, 2), (11, 3)])).length = 6 := by decide
/-- glyphs 1..4 with classes 0, 1, 1, 2: the piece of classes 1..3 covers 2, 3, 4 (format 1: 10 bytes),
the loop's estimate is 4 + 2·2 + 2·1 = 10 -/
example : (buildCoverage (pieceGlyphs (.fmt1 [1, 2, 3, 4]) (.fmt2 [⟨2, 3, 1⟩, ⟨4, 4, 2⟩]) 1 3)).byteSize = 10 ∧
    ppf2CovEstimate ⟨gcOf (.fmt1 [1, 2, 3, 4]) (.fmt2 [⟨2, 3, 1⟩, ⟨4, 4, 2⟩])⟩ 1 3 = 10 := by decide +kernel

end FontVerif.C16
