/-
C13 at the BYTE level — the ten theorems of Props/C13.lean restated for every COLR table byte string:
the paint graph is no longer a parameter but `PaintBytes.instOfBytes`, i.e. the composition of
Model/Paint.lean (skrifa traversal) with C01's byte-level models of the read-fonts COLR readers
(Model/HandColr.lean).  Plus what only exists at the byte level: paint ids are byte offsets inside the
table, unguarded edges go strictly forward in the table (so every cycle passes a decycler-guarded edge),
the `u8` layer count discharges the visit bound's hypothesis, the readers never panic.
Property theorems only (helpers: Lemmas/PaintBytes.lean).
-/
import FontVerif.Model.PaintBytes
import FontVerif.Lemmas.PaintBytes
import FontVerif.Lemmas.Paint
import FontVerif.Props.C13
set_option linter.unusedVariables false
namespace FontVerif.C13Bytes
open FontVerif FontVerif.Paint FontVerif.PaintBytes FontVerif.HandColr FontVerif.HandRead

/-! ### termination, no panic in the readers -/

/-- `paintBytes` / `paintV0Bytes` are total functions of the table bytes, the client and the glyph id:
painting terminates for every byte string.  The recursion is cut by the depth counter … -/
theorem bytes_traverse_terminates (d : List Nat) (t : Colr) (c : Client) (n : Node) (dec : List PaintId)
    (st : St) : trav (instOfBytes t) c 0 n dec st = (some .depth, st) := rfl

/-- … and none of the byte-level lookups the traversal performs can panic (index out of range after
the binary searches), for every table: the `trap ↦ error` clause of `instOfBytes` is never used. -/
theorem bytes_lookups_never_panic (t : Colr) (i g : Nat) :
    v1Layer t i ≠ .trap ∧ v1BaseGlyph t g ≠ .trap ∧ v1ClipBox t g ≠ .trap ∧ v0Layer t i ≠ .trap :=
  ⟨(C01HandColr.v1Layer_safe t i).1, (C01HandColr.v1BaseGlyph_safe t g).1,
   (C01HandColr.v1ClipBox_safe t g).1, C01HandColr.v0Layer_no_trap t i⟩

/-! ### balanced callbacks -/

/-- **For every COLR byte string, glyph id and client: if `ColorGlyph::paint` reports success, the
callback stream is LIFO well nested.** -/
theorem bytes_ok_implies_balanced (d : List Nat) (c : Client) (gid : Gid) (st : St)
    (h : paintBytes d c gid = some (none, st)) : WellNested st.evs := by
  unfold paintBytes at h
  split at h
  · cases h
  · exact C13.ok_implies_balanced _ c gid st h

/-- the same for a COLRv0 glyph of any byte string (layer ranges in or out of bounds) -/
theorem bytes_v0_ok_implies_balanced (d : List Nat) (c : Client) (gid : Gid) (st : St)
    (h : paintV0Bytes d c gid = some (none, st)) : WellNested st.evs := by
  unfold paintV0Bytes at h
  split at h
  · cases h
  · split at h
    · injection h with h
      exact C13.v0_ok_implies_balanced c _ _ _ st h
    · cases h

/-- **COLRv0, out-of-bounds layer range**: if some index of the base glyph's range `first..first+num`
has no layer record, painting answers `Err(ParseError)` — an error value, never a panic. -/
theorem bytes_v0_out_of_bounds_is_error (d : List Nat) (t : Colr) (c : Client) (gid s e i : Nat)
    (ht : colrRead d = some t) (hb : v0BaseGlyph t gid = .ok (some (s, e)))
    (hi : s ≤ i ∧ i < e) (hbad : ∀ l, v0Layer t i ≠ .ok l) :
    ∃ st, paintV0Bytes d c gid = some (some .parse, st) := by
  unfold paintV0Bytes
  simp only [ht, hb]
  unfold paintV0
  have key : ∀ (l : List Nat) (st : St), i ∈ l → ∃ st', travV0 c (v0LayerGid t) l st = (some .parse, st') := by
    intro l
    induction l with
    | nil => intro st hm; cases hm
    | cons j js ih =>
      intro st hm
      simp only [travV0]
      cases hj : v0LayerGid t j with
      | none => exact ⟨st, rfl⟩
      | some g =>
        simp only []
        have : i ≠ j := by
          intro hij; subst hij
          unfold v0LayerGid at hj
          split at hj
          · rename_i l hl; exact hbad l hl
          · cases hj
        have hm' : i ∈ js := by
          cases hm with
          | head => exact absurd rfl this
          | tail _ h => exact h
        exact ih _ hm'
  obtain ⟨st', hs⟩ := key (List.range' s (e - s)) St.init (List.mem_range'_1.mpr ⟨hi.1, by omega⟩)
  exact ⟨st', by rw [hs]⟩

/-! ### cyclic and too-deep graphs are errors -/

/-- **Success means the paint graph in the bytes is shallow below the glyph**: every descending path
from the root paint has fewer than 64 edges. -/
theorem bytes_ok_implies_depth_bounded (d : List Nat) (t : Colr) (ht : colrRead d = some t)
    (c : Client) (hc : ∀ g, c.cached g = .unimplemented) (gid : Gid) (st : St)
    (h : paintBytes d c gid = some (none, st))
    (fmt pid : Nat) (hb : v1BaseGlyph t gid = .ok (some (fmt, pid)))
    (n : Node) (hres : nodeOfBytes d pid = some n) (k : Nat) (hp : Path (instOfBytes t) n k) :
    k < MAX_TRAVERSAL_DEPTH := by
  unfold paintBytes at h
  simp only [ht] at h
  have hd := colrRead_d ht
  refine C13.ok_implies_depth_bounded (instOfBytes t) c hc gid st h pid n ?_ ?_ k hp
  · simp only [instOfBytes, hb]
  · simp only [instOfBytes, hd]; exact hres

/-- **A too-deep paint graph in the bytes is an error.** -/
theorem bytes_too_deep_is_error (d : List Nat) (t : Colr) (ht : colrRead d = some t)
    (c : Client) (hc : ∀ g, c.cached g = .unimplemented) (gid : Gid)
    (fmt pid : Nat) (hb : v1BaseGlyph t gid = .ok (some (fmt, pid)))
    (n : Node) (hres : nodeOfBytes d pid = some n) (hp : Path (instOfBytes t) n MAX_TRAVERSAL_DEPTH) :
    ∃ e st, paintBytes d c gid = some (some e, st) := by
  have hd := colrRead_d ht
  unfold paintBytes
  simp only [ht]
  refine C13.too_deep_is_error (instOfBytes t) c hc gid pid n ?_ ?_ hp
  · simp only [instOfBytes, hb]
  · simp only [instOfBytes, hd]; exact hres

/-- **A cyclic paint graph in the bytes is an error.** -/
theorem bytes_cycle_is_error (d : List Nat) (t : Colr) (ht : colrRead d = some t)
    (c : Client) (hc : ∀ g, c.cached g = .unimplemented) (gid : Gid)
    (fmt pid : Nat) (hb : v1BaseGlyph t gid = .ok (some (fmt, pid)))
    (n a : Node) (hres : nodeOfBytes d pid = some n) (j k : Nat)
    (hreach : Walk (instOfBytes t) n a j) (hcyc : Walk (instOfBytes t) a a (k + 1)) :
    ∃ e st, paintBytes d c gid = some (some e, st) := by
  have hd := colrRead_d ht
  unfold paintBytes
  simp only [ht]
  refine C13.cycle_is_error (instOfBytes t) c hc gid pid n a j k ?_ ?_ hreach hcyc
  · simp only [instOfBytes, hb]
  · simp only [instOfBytes, hd]; exact hres

/-! ### paint ids are byte offsets; which edges can close a cycle -/

/-- **Every paint id the decycler ever sees is a byte offset inside the table** (`enter` is called
with the id of a layer paint or of a base-glyph paint): the decycler's id set is bounded by the table
length, and `resolve_paint` succeeds only on offsets inside the table. -/
theorem bytes_paint_ids_in_table (t : Colr) :
    (∀ i pid, (instOfBytes t).layer i = some pid → pid < t.d.length) ∧
    (∀ g pid, (instOfBytes t).base g = .found pid → pid < t.d.length) ∧
    (∀ p n, (instOfBytes t).resolve p = some n → p < t.d.length) :=
  ⟨fun i pid h => (inst_layer_lt h).1, fun g pid h => (inst_base_lt h).1, fun p n h => nodeOfBytes_lt h⟩

/-- **Unguarded edges go strictly forward in the table**: the child of a `PaintGlyph`, of any of the 22
transform paints and both children of a `PaintComposite` are `Offset24`s relative to the parent, non-null,
so the child's byte offset is strictly larger.  Hence a chain of such edges is shorter than the table and
every cycle passes a `PaintColrLayers` or `PaintColrGlyph` edge — exactly the edges on which
`traverse_with_callbacks` calls `decycler.enter`. -/
theorem bytes_unguarded_edges_go_forward (d : List Nat) (p : Nat) :
    (∀ g ch, nodeOfBytes d p = some (.glyph g ch) → p < ch ∧ ch < d.length) ∧
    (∀ tag ch, nodeOfBytes d p = some (.transform tag ch) → p < ch ∧ ch < d.length ∧ tag = p) ∧
    (∀ s m b, nodeOfBytes d p = some (.composite s m b) →
      (p < s ∧ s < d.length) ∧ (p < b ∧ b < d.length) ∧ m ≤ 28) :=
  ⟨fun g ch h => nodeOfBytes_glyph h, fun tag ch h => nodeOfBytes_transform h,
   fun s m b h => nodeOfBytes_composite h⟩

/-- **A chain of unguarded edges is shorter than the table**: `k` consecutive `PaintGlyph` / transform /
`PaintComposite` edges from the paint at offset `p` end at an offset `≥ p + k` inside the table.  (Each paint
is at least 3 bytes long, so in fact `3·k < len`; the depth limit 64 is what bounds guarded edges.) -/
theorem bytes_unguarded_chain_shorter_than_table (d : List Nat) (p k : Nat) (hp : p < d.length)
    (h : UChain d p k) : p + k < d.length := by
  induction h with
  | here p => omega
  | step he _ ih =>
    have := he.forward
    have := ih this.2
    omega

/-! ### bounded number of visited paint nodes -/

/-- **Visit bound for every byte string** (`Bytes d`: the data consists of bytes): at most
`1 + 255 + … + 255^63` paint nodes, with no hypothesis on the graph — `num_layers` is read as a `u8`. -/
theorem bytes_visit_bound (d : List Nat) (hbytes : Bytes d) (c : Client) (gid : Gid) (r : Option PErr) (st : St)
    (h : paintBytes d c gid = some (r, st)) : st.visits ≤ geom 255 MAX_TRAVERSAL_DEPTH := by
  unfold paintBytes at h
  split at h
  · cases h
  · rename_i t ht
    have hd := colrRead_d ht
    exact C13.visit_bound (instOfBytes t) c 255 (by omega)
      (instOfBytes_layersBounded t (by rw [hd]; exact hbytes)) gid r st h

/-! ### clip boxes and `bounding_box()` -/

/-- **The root clip box brackets the whole stream, with the values of the `ClipBox` record**: if the glyph
has a clip box (`ClipBoxFormat1`, or `ClipBoxFormat2` at the default location; any values — inverted and
empty boxes are pushed as they are) and painting succeeds, the client's stream is
`push_clip_box(x_min, y_min, x_max, y_max) … pop_clip` with the four `FWord`s of the table. -/
theorem bytes_root_clip_box_brackets (d : List Nat) (t : Colr) (ht : colrRead d = some t) (c : Client)
    (gid : Gid) (st : St) (h : paintBytes d c gid = some (none, st))
    (b : ClipBoxV) (hb : clipOfBytes t gid = some b) :
    ∃ mid, st.evs = [.pushClipBox b] ++ mid ++ [.popClip] := by
  unfold paintBytes at h
  simp only [ht] at h
  unfold paintV1 at h
  have hclip : (instOfBytes t).clip gid = some b := hb
  cases hbase : (instOfBytes t).base gid with
  | err => simp only [hbase] at h; cases h
  | notFound => simp only [hbase] at h; cases h
  | found pid =>
    have enter_nil : enter [] pid = .ok [pid] := rfl
    simp only [hbase, hclip, pushClip, popClipIf, enter_nil] at h
    cases hres : (instOfBytes t).resolve pid with
    | none => simp only [hres] at h; cases h
    | some n =>
      simp only [hres] at h
      obtain ⟨na, sa, ha⟩ := emit_step c (.pushClipBox b) St.init
      have hi := trav_inv (instOfBytes t) c MAX_TRAVERSAL_DEPTH n [pid] (emit c (.pushClipBox b) St.init)
      generalize trav (instOfBytes t) c MAX_TRAVERSAL_DEPTH n [pid] (emit c (.pushClipBox b) St.init) = r at h hi
      obtain ⟨new, s, _⟩ := hi
      cases hr : r.1 with
      | some e => simp only [hr] at h; cases h
      | none =>
        simp only [hr] at h
        cases h
        obtain ⟨nb, sb, hb'⟩ := emit_step c .popClip r.2
        have e0 : St.init.opts = [] := rfl
        have e1 := (Step.nil_iff sa).mpr e0
        have e2 := (Step.nil_iff s).mpr e1
        have hev := ((sa.trans s).trans sb).evs
        rw [ha e0, hb' e2] at hev
        simp only [St.init, List.nil_append, rootRecord] at hev
        exact ⟨new, hev⟩

/-- **`ColorGlyph::bounding_box` is total and never panics**: `None` for every COLRv0 glyph, the clip box
(the same value `paint` pushes) for a COLRv1 glyph, `None` when it has none. -/
theorem bytes_bounding_box (d : List Nat) (gid : Gid) :
    (∀ x, boundingBoxBytes d gid true = some x → x = none) ∧
    (∀ t, colrRead d = some t → ∀ x, boundingBoxBytes d gid false = some x → x = clipOfBytes t gid) := by
  constructor
  · intro x h
    unfold boundingBoxBytes at h
    split at h
    · cases h
    · simp only [if_true] at h
      split at h
      · injection h with h; exact h.symm
      · cases h
  · intro t ht x h
    unfold boundingBoxBytes at h
    simp only [ht, Bool.false_eq_true, if_false] at h
    split at h
    · injection h with h; exact h.symm
    · cases h

/-! ### gradients: when does the arm reach its single `fill()` -/

/-- **Zero colour-stop range with an extend mode other than Pad draws nothing** — Repeat, Reflect and every
unknown extend byte (`Extend::Unknown`; the condition of seeded change C20-7): the radial and sweep arms, and
the linear arm on non-degenerate geometry, return without calling `fill`. -/
theorem zero_range_not_pad_draws_nothing (cl : CLine) (lo : Int)
    (hmin : listMin cl.offs = some lo) (hmax : listMax cl.offs = some lo) (hext : cl.ext ≠ 0) :
    radialCase cl = .zeroRangeNotPad ∧ (∀ sa ea, sweepCase sa ea cl = .zeroRangeNotPad) ∧
    (∀ fmt, gradientBrush fmt cl .zeroRangeNotPad = none) ∧ GCase.zeroRangeNotPad.fills = false := by
  refine ⟨?_, ?_, fun _ => rfl, rfl⟩
  · simp [radialCase, hmin, hmax, hext]
  · intro sa ea; simp [sweepCase, hmin, hmax, hext]

/-- **… and in Pad mode it is filled, with one extra stop appended** (`extra_stop.offset += 1.0`) -/
theorem zero_range_pad_appends_a_stop (cl : CLine) (lo : Int)
    (hmin : listMin cl.offs = some lo) (hmax : listMax cl.offs = some lo) (hext : cl.ext = 0) :
    radialCase cl = .zeroRangePad ∧
    gradientBrush 6 cl .zeroRangePad = some [2, 0, ((cl.stops.length + 1 : Nat) : Int)] := by
  refine ⟨by simp [radialCase, hmin, hmax, hext], ?_⟩
  simp [gradientBrush, extOf, hext]

/-- **A colour line without stops is never filled**, whatever the geometry and extend mode -/
theorem no_stops_never_fills (cl : CLine) (h : cl.stops = []) (fmt : Nat) (x0 y0 x1 y1 x2 y2 sa ea : Int) :
    (linearCase x0 y0 x1 y1 x2 y2 cl).fills = false ∧ (radialCase cl).fills = false ∧
    (sweepCase sa ea cl).fills = false := by
  have ho : cl.offs = [] := by simp [CLine.offs, h]
  refine ⟨?_, by simp [radialCase, ho, listMin, listMax, GCase.fills], by simp [sweepCase, ho, listMin, listMax, GCase.fills]⟩
  unfold linearCase
  split
  · simp [h, GCase.fills]
  · simp [radialCase, ho, listMin, listMax, GCase.fills]

/-- **Degenerate linear gradient** (`p1 == p0` or `p2 == p0`): a solid fill with the first sorted stop, or
nothing when there is no stop — never the gradient, whatever the extend mode -/
theorem linear_degenerate_points (x0 y0 x1 y1 x2 y2 : Int) (cl : CLine)
    (h : (x1 = x0 ∧ y1 = y0) ∨ (x2 = x0 ∧ y2 = y0)) :
    linearCase x0 y0 x1 y1 x2 y2 cl = (if cl.stops.isEmpty then .degenerateEmpty else .degenerateSolid) := by
  unfold linearCase
  rcases h with h | h
  · simp [h]
  · simp [h]

/-! ### non-vacuity: concrete byte strings -/

private def unimpl : Client := Client.ofModes 1 0

/-- glyph 1 = `PaintColrLayers` (1 layer) whose only layer is that paint itself: header (34 bytes), base
glyph list at 34 (gid 1 → paint at 52), layer list at 44 (layer 0 → paint at 52) -/
private def selfLayer : List Nat :=
  [0,1, 0,0, 0,0,0,0, 0,0,0,0, 0,0,            -- version 1, no v0 records
   0,0,0,34, 0,0,0,44, 0,0,0,0, 0,0,0,0, 0,0,0,0,   -- base glyph list @34, layer list @44
   0,0,0,1, 0,1, 0,0,0,18,                    -- @34: 1 record: gid 1, paint @34+18 = 52
   0,0,0,1, 0,0,0,8,                          -- @44: 1 layer: paint @44+8 = 52
   1, 1, 0,0,0,0]                             -- @52: PaintColrLayers num=1 first=0

example : Bytes selfLayer := by unfold Bytes selfLayer; decide

/-- the self-referential layer is reported as a cycle, from the bytes alone -/
example : (paintBytes selfLayer unimpl 1).map (fun r => (r.1, r.2.evs)) = some (some .cycle, []) := by
  decide +kernel

/-- and the hypotheses of `bytes_cycle_is_error` hold for it -/
example : nodeOfBytes selfLayer 52 = some (.colrLayers 0 1) := by decide +kernel

/-- glyph 1 = `PaintGlyph(gid 7, PaintSolid)` with a format-1 clip box -/
private def glyphSolid : List Nat :=
  [0,1, 0,0, 0,0,0,0, 0,0,0,0, 0,0,
   0,0,0,34, 0,0,0,0, 0,0,0,55, 0,0,0,0, 0,0,0,0,   -- base glyph list @34, clip list @55
   0,0,0,1, 0,1, 0,0,0,10,                    -- @34: gid 1 → paint @44
   10, 0,0,6, 0,7,                            -- @44: PaintGlyph child @50 gid 7
   2, 0,3, 0x40,0,                            -- @50: PaintSolid palette 3 alpha 1.0
   1, 0,0,0,1, 0,1, 0,1, 0,0,12,              -- @55: ClipList fmt 1, 1 clip: gids 1..1 box @55+12 = 67
   1, 0,0, 0,0, 0,100, 0,100]                 -- @67: ClipBoxFormat1 (0,0,100,100)

example : (paintBytes glyphSolid unimpl 1).map (fun r => (r.1, r.2.evs, r.2.visits))
    = some (none, [.pushClipBox [0, 0, 100, 100], .fillGlyph 7 none [0, 3, 16384], .popClip], 2) := by decide +kernel

/-- the `PaintGlyph → PaintSolid` edge of that table is an unguarded edge (hypothesis of
`bytes_unguarded_chain_shorter_than_table`) -/
example : UChain glyphSolid 44 1 :=
  .step (.glyph (g := 7) (q := 50) (by decide +kernel)) (.here _)

/-- the same table with an INVERTED clip box (x_min 100 > x_max 0): pushed as is, popped once -/
private def glyphSolidInverted : List Nat := glyphSolid.take 68 ++ [0,100, 0,0, 0,0, 0,100]

example : (paintBytes glyphSolidInverted unimpl 1).map (fun r => (r.1, r.2.evs))
    = some (none, [.pushClipBox [100, 0, 0, 100], .fillGlyph 7 none [0, 3, 16384], .popClip]) := by decide +kernel

example : boundingBoxBytes glyphSolidInverted 1 false = some (some [100, 0, 0, 100]) := by decide +kernel

/-- glyph 1 = `PaintRadialGradient` with two coincident stops; extend byte 7 (`Extend::Unknown`): nothing
drawn; extend 0 (Pad): a radial gradient brush with 3 stops -/
private def radialCoincident (ext : Nat) : List Nat :=
  [0,1, 0,0, 0,0,0,0, 0,0,0,0, 0,0,
   0,0,0,34, 0,0,0,0, 0,0,0,0, 0,0,0,0, 0,0,0,0,
   0,0,0,1, 0,1, 0,0,0,10,
   6, 0,0,16, 0,0, 0,0, 0,10, 0,50, 0,50, 0,100,     -- @44 PaintRadialGradient, colour line @60
   ext, 0,2, 0x20,0, 0,2, 0x40,0,  0x20,0, 0,3, 0x40,0]

example : (paintBytes (radialCoincident 7) unimpl 1).map (fun r => (r.1, r.2.evs)) = some (none, []) := by
  decide +kernel
example : (paintBytes (radialCoincident 0) unimpl 1).map (fun r => (r.1, r.2.evs))
    = some (none, [.fill [2, 0, 3]]) := by decide +kernel
example : gradientCase (radialCoincident 7) 44 6 = some .zeroRangeNotPad := by decide +kernel

/-- a COLRv0 table: glyph 1 has layers 0..3 but only 2 layer records exist -/
private def v0Short : List Nat :=
  [0,0, 0,1, 0,0,0,14, 0,0,0,20, 0,2,
   0,1, 0,0, 0,3,             -- @14 base glyph: gid 1 first 0 num 3
   0,5, 0,0,  0,6, 0xFF,0xFF] -- @20 layers: (5, palette 0), (6, palette 0xFFFF = foreground)

example : (paintV0Bytes v0Short unimpl 1).map (fun r => (r.1, r.2.evs))
    = some (some .parse, [.fillGlyph 5 none [0, 0, 16384], .fillGlyph 6 none [0, 65535, 16384]]) := by decide +kernel

end FontVerif.C13Bytes
