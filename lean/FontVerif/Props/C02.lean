/-
C02 — skrifa and IFT client APIs are total on hostile fonts and arguments.

Core 1: the control logic of the TrueType bytecode interpreter (Model/Interp.lean) terminates and keeps its
bounded resources bounded FOR EVERY PROGRAM AND EVERY SEMANTICS OF THE NON-CONTROL OPCODES (`Cfg.sem` is
universally quantified), and the failure cases named in the property are error values.
-/
import FontVerif.Lemmas.Interp
import FontVerif.Lemmas.Composite
namespace FontVerif.C02
open FontVerif FontVerif.Interp FontVerif.InterpLemmas
open FontVerif.CompositeLemmas
open FontVerif.Composite (GlyphInfo Out recF RECURSION_LIMIT)
set_option linter.unusedVariables false

/-- a state as produced by `Engine::reset` (any program, definitions, value stack, data state) is Good -/
theorem initSt_good {D} (c : Cfg D) (p : Nat) (fs ids : List Def) (vs : List Int) (d : D) :
    Good c (initSt p fs ids vs d) := by
  unfold Good CtlInv initSt MAX_DEPTH MAX_RUN_INSTRUCTIONS
  simp

/-! ### termination -/

/-- **`run` halts**: from any start state (counter 0), after at most 1 000 001 loop iterations the machine
    is not running any more — whatever the three programs contain and whatever the data opcodes do. -/
theorem run_halts {D} (c : Cfg D) (s : St D) (h0 : s.count = 0) (hg : Good c s) :
    (iter c (MAX_RUN_INSTRUCTIONS + 1) s).status ≠ .running := by
  intro hr
  have ⟨h1, _⟩ := iter_running_count c _ s hr
  have := (iter_good c (MAX_RUN_INSTRUCTIONS + 1) s hg).2.2.1 hr
  omega

/-- the number of dispatched instructions never exceeds `MAX_RUN_INSTRUCTIONS + 1`, at any time -/
theorem run_dispatches_le {D} (c : Cfg D) (s : St D) (hg : Good c s) (n : Nat) :
    (iter c n s).count ≤ MAX_RUN_INSTRUCTIONS + 1 :=
  (iter_good c n s hg).2.2.2

/-- each iteration dispatches at most one instruction -/
theorem count_le_iterations {D} (c : Cfg D) (s : St D) (n : Nat) : (iter c n s).count ≤ s.count + n := by
  induction n generalizing s with
  | zero => exact Nat.le_refl _
  | succ n ih =>
    have := ih (step c s)
    by_cases hr : s.status = .running
    · have := (step_running c s hr).2.2.2.2.1
      simp only [iter]; omega
    · rw [step_halted c s hr] at this; simp only [iter, step_halted c s hr]; omega

/-- **every single dispatch terminates**: the `IF`/`ELSE` skip loops and the `FDEF`/`IDEF` scan are bounded by the
    remaining bytecode (the fuel `code.size + 1` the model gives them is never exhausted) -/
theorem never_stuck {D} (c : Cfg D) (s : St D) (hg : Good c s) (n : Nat) : (iter c n s).status ≠ .stuck :=
  (iter_good c n s hg).2.1

theorem dispatch_total {D} (c : Cfg D) (s : St D) (op : Nat) (ops : List Nat) :
    ∃ r, dispatch c s op ops = some r :=
  match h : dispatch c s op ops with
  | some r => ⟨r, rfl⟩
  | none => absurd h (dispatch_ne_none c s op ops)

/-- the executable run loop is the iterated step function -/
theorem runLoop_eq_iter {D} (c : Cfg D) (n : Nat) (s : St D) : runLoop c n s = iter c n s := by
  induction n generalizing s with
  | zero => rfl
  | succ n ih =>
    unfold runLoop
    split
    · exact ih _
    · rename_i hr
      have hh : ∀ m, iter c m s = s := by
        intro m; induction m with
        | zero => rfl
        | succ m ihm => simp only [iter]; rw [step_halted c s (by intro h; exact hr h)]; exact ihm
      exact (hh _).symm

/-- **`Engine::run` returns**: `Ok(())` or an error value; never "still running", never stuck. -/
theorem run_returns {D} (c : Cfg D) (p : Nat) (fs ids : List Def) (vs : List Int) (d : D) :
    (run c (initSt p fs ids vs d)).status = .done ∨ ∃ e, (run c (initSt p fs ids vs d)).status = .failed e := by
  have hg := initSt_good c p fs ids vs d
  unfold run
  rw [runLoop_eq_iter]
  have h1 : (iter c (MAX_RUN_INSTRUCTIONS + 2) (initSt p fs ids vs d)).status ≠ .running := by
    intro hr
    have ⟨h1, _⟩ := iter_running_count c _ _ hr
    have := (iter_good c (MAX_RUN_INSTRUCTIONS + 2) _ hg).2.2.1 hr
    have hc0 : (initSt p fs ids vs d).count = 0 := rfl
    omega
  have h2 := never_stuck c _ hg (MAX_RUN_INSTRUCTIONS + 2)
  cases hs : (iter c (MAX_RUN_INSTRUCTIONS + 2) (initSt p fs ids vs d)).status with
  | running => exact absurd hs h1
  | done => exact Or.inl rfl
  | failed e => exact Or.inr ⟨e, rfl⟩
  | stuck => exact absurd hs h2

/-! ### bounded resources -/

/-- the call stack never holds more than 32 records -/
theorem callstack_depth_le {D} (c : Cfg D) (s : St D) (hg : Good c s) (n : Nat) :
    (iter c n s).calls.length ≤ 32 :=
  (iter_good c n s hg).1.1

/-- backward jumps taken and LOOPCALL iterations granted never exceed `LoopBudget::limit` -/
theorem loop_budgets_le {D} (c : Cfg D) (s : St D) (hg : Good c s) (n : Nat) :
    (iter c n s).backJumps ≤ c.limit ∧ (iter c n s).loopCalls ≤ c.limit :=
  (iter_good c n s hg).1.2

/-! ### failures are error values -/

/-- CALL / LOOPCALL / user-defined opcode at depth 32: `CallStackOverflow` -/
theorem call_at_depth_limit_is_error {D} (s : St D) (d : Def) (n : Nat) (h : s.calls.length = 32) :
    enter s d n = .error .csOverflow := by
  unfold enter MAX_DEPTH; rw [if_neg (by omega)]

/-- ENDF with no active call: `CallStackUnderflow` -/
theorem endf_without_call_is_error {D} (s : St D) (h : s.calls = []) : leave s = .error .csUnderflow := by
  unfold leave; rw [h]

/-- a taken jump whose popped offset is 0 (it would re-execute the jump forever): `InvalidJump` -/
theorem jump_in_place_is_error {D} (c : Cfg D) (s : St D) (rest : List Int) (h : s.vs = 0 :: rest) :
    doJump c s true = .error .invalidJump := by
  unfold doJump pop; rw [h]; simp [wrapI32]

/-- a taken backward jump when the budget is used up: `ExceededExecutionBudget` -/
theorem backward_jump_over_budget_is_error {D} (c : Cfg D) (s : St D) (v : Int) (rest : List Int)
    (h : s.vs = v :: rest) (hv : -2147483647 ≤ v ∧ v < 0) (hb : s.backJumps = c.limit) :
    doJump c s true = .error .budget := by
  unfold doJump pop; rw [h]
  have : wrapI32 (v - 1) = v - 1 := by unfold wrapI32; simp only []; split <;> omega
  simp only [this]
  simp
  rw [if_pos (by omega), if_neg (by omega), if_pos (by omega)]

/-- a LOOPCALL asking for more iterations than the budget has left: `ExceededExecutionBudget` -/
theorem loopcall_over_budget_is_error {D} (c : Cfg D) (s : St D) (f n : Int) (rest : List Int)
    (h : s.vs = f :: n :: rest) (hn : 0 < n) (hb : s.loopCalls + n.toNat > c.limit) :
    opLoopcall c s = .error .budget := by
  unfold opLoopcall pop; rw [h]; simp only []
  rw [if_pos hn, if_pos hb]

/-- popping an empty value stack in pedantic mode: `ValueStackUnderflow`; otherwise the value 0 -/
theorem pop_empty (ped : Bool) :
    pop ped [] = if ped then .error .vsUnderflow else .ok (0, []) := rfl

/-- IF (false) in a program with no ELSE/EIF opcode after it: `UnexpectedEndOfBytecode` -/
theorem scanIf_error_kind (code : Array Nat) (fuel pc d : Nat) (e : Err)
    (h : scanIf code fuel pc d = some (.error e)) : e = .unexpectedEnd := by
  induction fuel generalizing pc d with
  | zero => simp [scanIf] at h
  | succ n ih =>
    unfold scanIf at h
    split at h
    · simpa using h.symm
    · simpa using h.symm
    · iterate 6 (all_goals try split at h)
      all_goals first | exact ih _ _ h | simp at h

/-- the skip loop of IF lands strictly ahead, inside the bytecode -/
theorem scanIf_lands_ahead (code : Array Nat) (fuel pc d next : Nat)
    (h : scanIf code fuel pc d = some (.ok next)) : pc < next ∧ next ≤ code.size := by
  induction fuel generalizing pc d with
  | zero => simp [scanIf] at h
  | succ n ih =>
    unfold scanIf at h
    split at h
    · simp at h
    · simp at h
    · rename_i op ops ipc nx hd
      have ⟨_, h1, h2⟩ := decode_advances hd
      iterate 6 (all_goals try split at h)
      all_goals first
        | (have := ih _ _ h; omega)
        | (simp at h; omega)

/-- FDEF/IDEF whose body is not closed by ENDF: an error (`UnexpectedEndOfBytecode` or `NestedDefinition`) -/
theorem scanDef_error_kind (code : Array Nat) (fuel pc : Nat) (e : Err)
    (h : scanDef code fuel pc = some (.error e)) : e = .unexpectedEnd ∨ e = .nestedDef := by
  induction fuel generalizing pc with
  | zero => simp [scanDef] at h
  | succ n ih =>
    unfold scanDef at h
    split at h
    · left; simpa using h.symm
    · left; simpa using h.symm
    · iterate 3 (all_goals try split at h)
      all_goals first | exact ih _ h | (right; simpa using h.symm) | simp at h

/-- a program counter outside the bytecode (e.g. after a jump to an arbitrary offset) ends the program: `Ok` -/
theorem pc_out_of_range_ends {D} (c : Cfg D) (s : St D) (hr : s.status = .running)
    (h : (c.code s.current).size ≤ s.pc) : (step c s).status = .done := by
  unfold step; simp only [hr]
  have : decode (c.code s.current) s.pc = .eof := by
    unfold decode
    have : (c.code s.current)[s.pc]? = none := by simp; omega
    rw [this]
  rw [this]

/-! ### non-vacuity -/

/-- PUSHW -3; JMPR  — an endless backward loop -/
def loopCfg : Cfg Nat :=
  { font := #[0xB8, 0xFF, 0xFD, 0x1C], cv := #[], glyph := #[], limit := 3, pedantic := false,
    sem := semSubset false }

example : (iter loopCfg 20 (initSt 0 [] [] [] 8)).status = .failed .budget := by decide +kernel
example : (iter loopCfg 20 (initSt 0 [] [] [] 8)).backJumps = 3 := by decide +kernel
example : Good loopCfg (initSt 0 [] [] [] 8) := initSt_good _ _ _ _ _ _

/-- PUSHB 0; FDEF; PUSHB 0; CALL; ENDF; PUSHB 0; CALL — unbounded recursion -/
def recCfg : Cfg Nat :=
  { font := #[0xB0, 0, 0x2C, 0xB0, 0, 0x2B, 0x2D, 0xB0, 0, 0x2B], cv := #[], glyph := #[], limit := 300,
    pedantic := false, sem := semSubset false }

example : (iter recCfg 200 (initSt 0 [{}] [] [] 8)).status = .failed .csOverflow := by decide +kernel
example : (iter recCfg 60 (initSt 0 [{}] [] [] 8)).calls.length = 29 := by decide +kernel

/-- PUSHB 0; IF; (no EIF) -/
example : (iter { recCfg with font := #[0xB0, 0, 0x58, 0x7F] } 5 (initSt 0 [] [] [] 8)).status
    = .failed .unexpectedEnd := by decide +kernel
/-- a well-formed program ends `done`: PUSHB 1; IF; PUSHB 7; ELSE; PUSHB 9; EIF -/
example : (iter { recCfg with font := #[0xB0, 1, 0x58, 0xB0, 7, 0x1B, 0xB0, 9, 0x59] } 9 (initSt 0 [] [] [] 8)).status
    = .done := by decide +kernel
example : (iter { recCfg with font := #[0xB0, 1, 0x58, 0xB0, 7, 0x1B, 0xB0, 9, 0x59] } 9 (initSt 0 [] [] [] 8)).vs
    = [7] := by decide +kernel


/-! ## Core 2: composite glyph nesting (Model/Composite.lean) -/

/-- `Outlines::outline` is a total function of the glyph table: the recursion is on `33 - recurse_depth`
    (`recF` is structurally recursive on that number) and each level is a loop over a finite component list.
    A chain of 33 component edges below the glyph is reported as an error, never followed further. -/
theorem composite_depth_exceeded_is_error (G : Nat → GlyphInfo) (g : Nat) (hd : Deep G 33 g) :
    isErr (Composite.outline G g) := by
  have hp : (G g).present = true := by
    cases hd with
    | succ _ _ _ _ _ hg _ _ => rw [hg]; rfl
  have := deep_is_error G 33 g hd 33 (Nat.le_refl _) {} 0
  unfold Composite.outline RECURSION_LIMIT
  cases hg : G g with
  | readErr => simp [isErr]
  | empty => rw [hg] at hp; simp [GlyphInfo.present] at hp
  | simple p c h => simp only []; rw [hg] at this; exact this
  | composite cs h => simp only []; rw [hg] at this; exact this

/-- a glyph on a cycle of component references (of any length) is an error -/
theorem composite_cycle_is_error (G : Nat → GlyphInfo) (k g : Nat) (hw : Walk G (k + 1) g g) :
    isErr (Composite.outline G g) := by
  apply composite_depth_exceeded_is_error
  -- a chain of length 33 * (k+1) ≥ 33, cut down to 33
  have h := cycle_deep G k g hw 33
  have cut : ∀ m n, Deep G (n + m) g → Deep G n g := by
    intro m; induction m with
    | zero => intro n h; exact h
    | succ m ih => intro n h; exact ih n (deep_mono G (n + m) g h)
  have he : 33 * (k + 1) = 33 + 33 * k := by omega
  rw [he] at h
  exact cut _ _ h

/-- a glyph that lists itself as a component is an error -/
theorem self_reference_is_error (G : Nat → GlyphInfo) (g : Nat) (cs : List Nat) (h : Bool)
    (hg : G g = .composite cs h) (hm : g ∈ cs) : isErr (Composite.outline G g) :=
  composite_cycle_is_error G 0 g (Walk.cons g g g cs h 0 hg hm (Walk.nil g))

/-- non-vacuity: a chain of exactly 32 component edges loads; 33 is the error; a 3-cycle is an error -/
def chainG (d : Nat) : Nat → GlyphInfo := fun i =>
  if i < d then .composite [i + 1] false else if i = d then .simple 3 1 false else .empty

example : (Composite.outline (chainG 32) 0).toOption.map (·.points) = some 3 := by decide +kernel
example : (match Composite.outline (chainG 33) 0 with | .error .recursionLimit => true | _ => false) = true := by
  decide +kernel
example : (match Composite.outline (fun i => .composite [(i + 1) % 3] false) 0 with
    | .error .recursionLimit => true | _ => false) = true := by decide +kernel
/-- the components before the failing one have been visited: a fan-out-2 DAG of depth d costs 2^(d+1)-1 visits -/
def dagG (d : Nat) : Nat → GlyphInfo := fun i =>
  if i < d then .composite [i + 1, i + 1] false else if i = d then .simple 1 1 false else .empty
example : (Composite.outline (dagG 10) 0).toOption.map (·.visits) = some 2047 := by decide +kernel
example : (Composite.outline (dagG 10) 0).toOption.map (·.points) = some 1024 := by decide +kernel

end FontVerif.C02
