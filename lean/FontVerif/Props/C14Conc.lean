/-
C14 — the CONCRETE `BitSet` of bitset.rs refines the abstract one.
Property theorems only (lemmas: Lemmas/IntSetConc*.lean, IntSetCompact.lean, IntSetPageConc.lean).

Concrete model: Model/BitSetConc.lean ⇄ read-fonts/src/collections/int_set/bitset.rs
  `CBitSet = ⟨pages : List CPage /- Vec<BitPage>, CREATION order -/,
              pageMap : List (major × index) /- Vec<PageInfo>, sorted by major -/, len⟩`
  with `process` transcribed as the in-place algorithm (Step 1 estimate + move kept map entries to
  the front, Step 2 `compact` / `compact_pages` / `resize`, Step 3 backward merge writing
  `page_map[count]`, pages present on both sides overwritten in place, right-hand pages cloned to
  `pages[next_page]`, Step 4 tails).  Pages are `[u64; 8]` (Model/BitPageConc.lean).

Vocabulary
* `CPageOk p` : 8 words, each `< 2^64`, cached length = Σ count_ones
* `CInv s`    : `page_map.len() == pages.len()`, map strictly sorted by major, map indices pairwise
                distinct and in bounds (a bijection onto `pages`: none unreferenced, none shared),
                all pages `CPageOk`, `length` = Σ page lengths over the `pages` vector
* `s.abs`     : the abstract `BitSet` (`Model/IntSet.lean`): pages read through the map in map
                order, each packed into one 512-bit natural
* `cview pm pages` : `(major, page)` read through the map;  `cmerge` : the page-wise merge
* `PageOpRefines cop op` : the concrete page operator refines the 512-bit operator `op`
* `Hist.runC`  : a history run on the concrete representation; `Hist.Fits` : machine-size side
                conditions (iterator arguments are u32 values; fewer than `usize::MAX` pages)
-/
import FontVerif.Lemmas.IntSetConcHist
set_option linter.unusedVariables false
namespace FontVerif.C14Conc
open FontVerif FontVerif.IntSet

/-! ## 1. The representation invariant is preserved by every operation -/

/-- `CInv` holds for `BitSet::empty()` and is preserved by `insert`, `remove`, `insert_range`,
`remove_range`, `extend` (BitSetBuilder), `extend_unsorted`, `remove_all`, `clear` -/
theorem cinv_preserved (s : CBitSet) (h : CInv s) :
    CInv CBitSet.empty ∧
    (∀ v, CInv (s.insert v).1 ∧ CInv (s.remove v).1) ∧
    (∀ a b, CInv (s.insertRange a b) ∧ CInv (s.removeRange a b)) ∧
    (∀ vs, (∀ v ∈ vs, v < 2 ^ 32) → CInv (s.extend vs) ∧ CInv (s.extendUnsorted vs) ∧ CInv (s.removeAll vs)) ∧
    CInv s.clear :=
  ⟨cInv_empty, fun v => ⟨CBitSet.insert_inv s v h, CBitSet.remove_inv s v h⟩,
   fun a b => ⟨CBitSet.insertRange_inv s a b h, CBitSet.removeRange_inv s a b h⟩,
   fun vs hv => ⟨CBitSet.extend_inv s vs h hv, CBitSet.extendUnsorted_inv s vs h,
     CBitSet.removeAll_inv s vs h hv⟩,
   CBitSet.clear_inv s⟩

/-- … and by `process` with any page operator that refines a bitwise one — in particular by
`union`, `intersect`, `subtract`, `reversed_subtract` -/
theorem cinv_preserved_process {cop op f} (hr : PageOpRefines cop op) (hop : BitwiseOp op f)
    (s o : CBitSet) (hs : CInv s) (ho : CInv o) (hsz : s.pages.length < USIZE_MAX) :
    CInv (s.process cop o) :=
  (CBitSet.process_refines hr hop s o hs ho hsz).1

/-- the invariant of the concrete set gives the invariant of the abstract one, so every theorem
of `Props/C14IntSet.lean` applies to `s.abs` -/
theorem abs_invariant (s : CBitSet) (h : CInv s) : BInv s.abs := CBitSet.abs_inv s h

/-! ## 2. Refinement squares: `abs (cop s args) = aop (abs s) args` -/

theorem empty_refines : CBitSet.empty.abs = BitSet.empty := CBitSet.abs_empty

/-- `ensure_page_index_for_major`: a missing page is pushed at the END of `pages` and its
`PageInfo` inserted at the search position of the map; the abstract view gets a zero page at
the sorted position -/
theorem ensure_page_refines (s : CBitSet) (m : Nat) (h : CInv s) :
    CInv (s.ensurePageIndexForMajor m).1 ∧
    (s.ensurePageIndexForMajor m).1.abs = ⟨ensurePage s.abs.pages m, s.abs.len⟩ ∧
    (s.ensurePageIndexForMajor m).2 < (s.ensurePageIndexForMajor m).1.pages.length ∧
    (m, (s.ensurePageIndexForMajor m).2) ∈ (s.ensurePageIndexForMajor m).1.pageMap :=
  CBitSet.ensure_spec s m h

theorem insert_refines (s : CBitSet) (v : Nat) (h : CInv s) :
    (s.insert v).1.abs = (s.abs.insert v).1 ∧ (s.insert v).2 = (s.abs.insert v).2 :=
  CBitSet.insert_abs s v h

theorem remove_refines (s : CBitSet) (v : Nat) (h : CInv s) :
    (s.remove v).1.abs = (s.abs.remove v).1 ∧ (s.remove v).2 = (s.abs.remove v).2 :=
  CBitSet.remove_abs s v h

theorem contains_refines (s : CBitSet) (v : Nat) (h : CInv s) : s.contains v = s.abs.contains v :=
  CBitSet.contains_abs s v h

theorem insert_range_refines (s : CBitSet) (a b : Nat) (h : CInv s) :
    (s.insertRange a b).abs = s.abs.insertRange a b := CBitSet.insertRange_abs s a b h

/-- `remove_range` incl. the clearing of inner pages and `recompute_length` over the vector -/
theorem remove_range_refines (s : CBitSet) (a b : Nat) (h : CInv s) :
    (s.removeRange a b).abs = s.abs.removeRange a b := CBitSet.removeRange_abs s a b h

theorem extend_refines (s : CBitSet) (vs : List Nat) (h : CInv s) (hv : ∀ v ∈ vs, v < 2 ^ 32) :
    (s.extend vs).abs = s.abs.extend vs ∧ (s.extendUnsorted vs).abs = s.abs.extend vs ∧
    (s.removeAll vs).abs = s.abs.removeAll vs :=
  ⟨CBitSet.extend_abs s vs h hv, CBitSet.extendUnsorted_abs s vs h, CBitSet.removeAll_abs s vs h hv⟩

theorem clear_refines (s : CBitSet) : s.clear.abs = BitSet.empty := CBitSet.clear_abs s

/-- the page-index caches of `BitSetBuilder` and `remove_all` never change a result -/
theorem page_index_cache_transparent :
    (∀ (s : CBitSet) (vs : List Nat), CInv s → (∀ v ∈ vs, v < 2 ^ 32) →
      (vs.foldl CBuilder.insert (CBuilder.start s)).CacheOk ∧
      s.extend vs = vs.foldl (fun acc v => (acc.insert v).1) s) ∧
    (∀ (s : CBitSet) (vs : List Nat), (∀ v ∈ vs, v < 2 ^ 32) →
      (vs.foldl CRemoveAll.step ⟨s, none, U32_MAX, 0⟩).CacheOk ∧
      s.removeAll vs = vs.foldl (fun acc v => (acc.remove v).1) s) :=
  IntSet.page_index_cache_transparent

/-! ## 3. `process` -/

/-- `passthrough_behavior` evaluated on concrete pages is the abstract one -/
theorem passthrough_refines {cop op} (hr : PageOpRefines cop op) : cPassthrough cop = passthrough op :=
  cPassthrough_eq hr

/-- **The in-place `process` on the concrete layout.**  For any page operator, with the pages of
either operand stored in ANY order: the result's map read through its pages is exactly the
page-wise merge of the two input views (passthrough rule included), the map is sorted, its indices
are a bijection onto the (resized) pages vector, and all pages are well formed. -/
theorem process_layout {cop op} (hr : PageOpRefines cop op) (s o : CBitSet) (hs : CInv s) (ho : CInv o)
    (hsz : s.pages.length < USIZE_MAX) :
    CInvS (s.process cop o).pageMap (s.process cop o).pages ∧
    cview (s.process cop o).pageMap (s.process cop o).pages =
      cmerge cop (cPassthrough cop).1 (cPassthrough cop).2 (cview s.pageMap s.pages)
        (cview o.pageMap o.pages) ∧
    (s.process cop o).len = cSumLens (s.process cop o).pages :=
  CBitSet.process_spec hr s o hs ho hsz

/-- **`process_refines`**: for any bitwise page operator the concrete `process` commutes with
the abstraction function -/
theorem process_refines {cop op f} (hr : PageOpRefines cop op) (hop : BitwiseOp op f)
    (s o : CBitSet) (hs : CInv s) (ho : CInv o) (hsz : s.pages.length < USIZE_MAX) :
    CInv (s.process cop o) ∧ (s.process cop o).abs = BitSet.process op s.abs o.abs :=
  CBitSet.process_refines hr hop s o hs ho hsz

/-- `union` / `intersect` / `subtract` / `reversed_subtract` -/
theorem set_ops_refine (s o : CBitSet) (hs : CInv s) (ho : CInv o) (hsz : s.pages.length < USIZE_MAX) :
    (CInv (s.union o) ∧ (s.union o).abs = s.abs.union o.abs) ∧
    (CInv (s.intersect o) ∧ (s.intersect o).abs = s.abs.intersect o.abs) ∧
    (CInv (s.subtract o) ∧ (s.subtract o).abs = s.abs.subtract o.abs) ∧
    (CInv (s.reversedSubtract o) ∧ (s.reversedSubtract o).abs = s.abs.reversedSubtract o.abs) :=
  ⟨CBitSet.union_refines s o hs ho hsz, CBitSet.intersect_refines s o hs ho hsz,
   CBitSet.subtract_refines s o hs ho hsz, CBitSet.reversedSubtract_refines s o hs ho hsz⟩

/-- membership after a concrete set operation is the Boolean combination of the memberships -/
theorem set_ops_contains (s o : CBitSet) (hs : CInv s) (ho : CInv o) (hsz : s.pages.length < USIZE_MAX)
    (x : Nat) :
    (s.union o).contains x = (s.contains x || o.contains x) ∧
    (s.intersect o).contains x = (s.contains x && o.contains x) ∧
    (s.subtract o).contains x = (s.contains x && !o.contains x) ∧
    (s.reversedSubtract o).contains x = (!s.contains x && o.contains x) := by
  have hu := CBitSet.union_refines s o hs ho hsz
  have hi := CBitSet.intersect_refines s o hs ho hsz
  have hd := CBitSet.subtract_refines s o hs ho hsz
  have hr := CBitSet.reversedSubtract_refines s o hs ho hsz
  have ha := CBitSet.abs_inv s hs
  have hb := CBitSet.abs_inv o ho
  rw [CBitSet.contains_abs _ x hu.1, CBitSet.contains_abs _ x hi.1, CBitSet.contains_abs _ x hd.1,
    CBitSet.contains_abs _ x hr.1, hu.2, hi.2, hd.2, hr.2, CBitSet.contains_abs s x hs,
    CBitSet.contains_abs o x ho]
  exact ⟨BitSet.process_contains bitwise_union _ _ ha hb x,
    BitSet.process_contains bitwise_intersect _ _ ha hb x,
    BitSet.process_contains bitwise_subtract _ _ ha hb x,
    BitSet.process_contains bitwise_revSubtract _ _ ha hb x⟩

/-! ## 4. `compact` -/

/-- `compact(w)` keeps every kept entry's major and page CONTENT for map entries whose page
indices are pairwise distinct and in bounds — in ANY order —, re-points them to `0..w` (pairwise
distinct) and leaves lengths and the entries `≥ w` alone -/
theorem compact_preserves_contents (pm : PMap) (pages : List CPage) (w : Nat) (hw : w ≤ pm.length)
    (hmax : pm.length < USIZE_MAX)
    (hnd : ((pm.take w).map (·.2)).Nodup) (hlt : ∀ e ∈ pm.take w, e.2 < pages.length) :
    (compact pm pages w).1.length = pages.length ∧ (compact pm pages w).2.length = pm.length ∧
    (∀ i, i < w → ((compact pm pages w).2.getD i (0, 0)).1 = (pm.getD i (0, 0)).1 ∧
        (compact pm pages w).1.getD ((compact pm pages w).2.getD i (0, 0)).2 CPage.zero =
          pages.getD (pm.getD i (0, 0)).2 CPage.zero) ∧
    (((compact pm pages w).2.take w).map (·.2)).Nodup ∧ (∀ e ∈ (compact pm pages w).2.take w, e.2 < w) ∧
    (compact pm pages w).2.drop w = pm.drop w :=
  compact_spec pm pages w hw hmax hnd hlt

/-- **the compaction never reads a page after it was overwritten** (the property seeded change
C14-2 violated): whenever `compact_pages` reaches old page index `i = pre.length`, its
`write_index ≤ i` and every position `≥ i` of `pages` — in particular the one it reads — still
holds the ORIGINAL page; a referenced page is therefore copied with its original content. -/
theorem compact_reads_before_overwrite (pm : PMap) (pages : List CPage) (w : Nat)
    (hw : w ≤ pm.length) (hmax : pm.length < USIZE_MAX)
    (hnd : ((pm.take w).map (·.2)).Nodup) (hlt : ∀ e ∈ pm.take w, e.2 < pages.length)
    (pre rest : List Nat) (pmi : Nat)
    (hsplit : compactTable pm pages.length w = pre ++ pmi :: rest) :
    ∃ wi P M,
      compactPagesLoop (compactTable pm pages.length w) 0 0 pages pm
        = compactPagesLoop (pmi :: rest) pre.length wi P M ∧
      wi ≤ pre.length ∧
      P.length = pages.length ∧
      (∀ j, pre.length ≤ j → P.getD j CPage.zero = pages.getD j CPage.zero) ∧
      (pmi ≠ USIZE_MAX → pmi < w ∧ (pm.getD pmi (0, 0)).2 = pre.length ∧
        P.getD pre.length CPage.zero = pages.getD (pm.getD pmi (0, 0)).2 CPage.zero) :=
  IntSet.compact_reads_before_overwrite pm pages w hw hmax hnd hlt pre rest pmi hsplit

/-! ## 5. Histories on the concrete representation -/

/-- the `IntSet` mode tables over the concrete `BitSet` commute with the abstraction -/
theorem intset_ops_refine (d : Domain) (s t : CIntSet) (hs : CIInv s) (ht : CIInv t)
    (hsz : s.set.pages.length < USIZE_MAX) :
    (∀ v, (s.insert v).1.abs = (s.abs.insert v).1 ∧ (s.insert v).2 = (s.abs.insert v).2 ∧
          (s.remove v).1.abs = (s.abs.remove v).1 ∧ (s.remove v).2 = (s.abs.remove v).2 ∧
          s.contains v = s.abs.contains v) ∧
    (∀ a b, (∀ v ∈ expand (d.rangeValues a b), v < 2 ^ 32) →
          (s.insertRange d a b).abs = s.abs.insertRange d a b ∧
          (s.removeRange d a b).abs = s.abs.removeRange d a b) ∧
    (∀ vs, (∀ v ∈ vs, v < 2 ^ 32) → (s.extend vs).abs = s.abs.extend vs ∧
          (s.extendUnsorted vs).abs = s.abs.extend vs ∧ (s.removeAll vs).abs = s.abs.removeAll vs) ∧
    (s.union t).abs = s.abs.union t.abs ∧ (s.intersect t).abs = s.abs.intersect t.abs ∧
    (s.subtract t).abs = s.abs.subtract t.abs :=
  ⟨fun v => ⟨(CIntSet.insert_refines s v hs).2.1, (CIntSet.insert_refines s v hs).2.2,
      (CIntSet.remove_refines s v hs).2.1, (CIntSet.remove_refines s v hs).2.2,
      CIntSet.contains_refines s v hs⟩,
   fun a b hv => ⟨(CIntSet.insertRange_refines d s a b hs hv).2, (CIntSet.removeRange_refines d s a b hs hv).2⟩,
   fun vs hv => ⟨(CIntSet.extend_refines s vs hs hv).2, (CIntSet.extendUnsorted_refines s vs hs hv).2,
      (CIntSet.removeAll_refines s vs hs hv).2⟩,
   (CIntSet.union_refines s t hs ht hsz).2, (CIntSet.intersect_refines s t hs ht hsz).2,
   (CIntSet.subtract_refines s t hs ht hsz).2⟩

/-- **`conc_history_refines`**: any operation history (a tree: the operands of union / intersect /
subtract are themselves arbitrary histories; pages get created in any order, removals leave empty
pages, `process` is interleaved with inserts) run on the CONCRETE representation keeps `CInv`,
abstracts to the run on the abstract model, and therefore denotes the same mathematical set:
`contains` on the concrete structure is the characteristic function `spec` of the history. -/
theorem conc_history_refines (d : Domain) (h : Hist) (hf : h.Fits d) :
    CIInv (h.runC d) ∧ (h.runC d).abs = h.run d ∧ IInv (h.runC d).abs ∧
    ∀ x, (h.runC d).contains x = h.spec d x := by
  obtain ⟨h1, h2⟩ := Hist.runC_refines d h hf
  have h3 := Hist.run_spec d h
  refine ⟨h1, h2, by rw [h2]; exact h3.1, fun x => ?_⟩
  rw [CIntSet.contains_refines _ x h1, h2]
  exact h3.2 x

/-! ## Non-vacuity -/

/-- pages created out of major order: values 2000, 5, 1000 -/
example : CInv (((CBitSet.empty.insert 2000).1.insert 5).1.insert 1000).1 :=
  CBitSet.insert_inv _ _ (CBitSet.insert_inv _ _ (CBitSet.insert_inv _ _ cInv_empty))
example : (((CBitSet.empty.insert 2000).1.insert 5).1.insert 1000).1.pageMap = [(0, 1), (1, 2), (3, 0)] := by
  decide
/-- the C14-2 shape: left pages created out of order, intersect keeps a proper subset (the
hypotheses of `set_ops_refine` are satisfiable; the driver evaluates this case to
`page_map = [(0,0),(1,1)]`) -/
example : CInv ((((CBitSet.empty.insert 2000).1.insert 5).1.insert 1000).1.intersect
    ((CBitSet.empty.insert 1001).1.insert 7).1) :=
  (set_ops_refine _ _
    (CBitSet.insert_inv _ _ (CBitSet.insert_inv _ _ (CBitSet.insert_inv _ _ cInv_empty)))
    (CBitSet.insert_inv _ _ (CBitSet.insert_inv _ _ cInv_empty)) (by decide)).2.1.1
example : Hist.Fits Domain.u32 (Hist.union (Hist.insert (Hist.insert Hist.empty 2000) 5)
    (Hist.invert (Hist.extend Hist.empty [1000, 3]))) := by
  refine ⟨trivial, ⟨trivial, ?_⟩, ?_⟩
  · intro v hv; simp at hv; rcases hv with rfl | rfl <;> decide
  · decide
example : PageOpRefines CPage.revSubtract opRevSubtract := refines_revSubtract

end FontVerif.C14Conc
