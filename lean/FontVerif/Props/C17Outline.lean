/-
C17 — drawn-outline preservation of the per-glyph rewrite (klippa/src/glyf_loca.rs `subset_glyph`,
`subset_simple_glyph`, `subset_composite_glyph`; model `FontVerif.Subset.subsetGlyphBytes`, Model/Subset.lean) stated
THROUGH C09's model of the read-fonts glyph reader (Model/Glyf.lean: `SimpleGlyph::read`, `points()` = `PointIter`,
`read_points_fast`, `CompositeGlyph::read`, `components()` = `ComponentIter`).

What the rewritten record decodes to is what the original record decodes to, with component glyph ids renamed by the
plan's glyph map: the outline of a kept glyph is preserved by construction, not only on the sampled fonts.
(Proofs: Lemmas/SubsetOutline.lean … SubsetOutline7.lean.)
-/
import FontVerif.Lemmas.SubsetOutline12
import FontVerif.Lemmas.SubsetOutline13
set_option linter.unusedVariables false
namespace FontVerif.C17Outline
open FontVerif FontVerif.Subset FontVerif.SubsetOutline

/-- **subset_simple_glyph_decodes_equal.**  For every glyph record `d` (bytes < 256) with a non-negative contour count,
every flag combination (NO_HINTING, SET_OVERLAPS_FLAG, …) and every glyph map: if `subset_glyph` writes the glyph
non-empty, then read-fonts parses both records (`SimpleGlyph::read`), and the subset has the same contour count, bounding
box and contour end points, the same points — coordinates and on-curve flags, as yielded by `points()` (`PointIter` over
`resolve_coords_len`) —, its instructions are the original's (none under NO_HINTING), and `read_points_fast` (what skrifa
draws from; read-fonts after `fix:` d12a1b2, which widened its flag window to two bytes per point — found by this
theorem's first version, see reports/C17.md) answers the same on both.  Padding after the
coordinate data is the only thing removed; OVERLAP_SIMPLE on the first flag does not change any decoded value.  `pad` =
whatever follows the rewritten record inside its loca range (klippa's own alignment byte in the short loca format): it
is never read. -/
theorem subset_simple_glyph_decodes_equal (flags : Nat) (gmap : Nat → Option Nat) (d out pad : Bytes)
    (hb : ∀ b ∈ d, b < 256) (hs : u16At d 0 < 32768)
    (h : subsetGlyphBytes flags gmap d = .bytes out) (hne : out ≠ []) :
    ∃ v v', Glyf.readSimple d = some v ∧ Glyf.readSimple (out ++ pad) = some v' ∧
      v'.nContours = v.nContours ∧ v'.xMin = v.xMin ∧ v'.yMin = v.yMin ∧ v'.xMax = v.xMax ∧ v'.yMax = v.yMax ∧
      v'.endPts = v.endPts ∧
      v'.instructions = (if hasFlag flags F_NO_HINTING then [] else v.instructions) ∧
      v'.points = v.points ∧
      v'.readPointsFast = v.readPointsFast := by
  obtain ⟨v, v', h1, h2, e1, e2, e3, e4, e5, e6, e7, e8, e9, _⟩ := simple_decodes_equal flags gmap d out pad hb hs h hne
  exact ⟨v, v', h1, h2, e1, e2, e3, e4, e5, e6, e7, e8, e9⟩

/-- **subset_composite_glyph_decodes_equal.**  For every composite record, flag combination and glyph map: if
`subset_glyph` writes the glyph non-empty then read-fonts parses both records, the bounding box is unchanged, and the
component list of the subset (`components()`, i.e. `ComponentIter` — flags, glyph id, anchor = offsets or point numbers,
2x2 transform) is the original's component list with every glyph id replaced by its image under the glyph map (`as u16`)
— every component HAS an image —, anchors and transforms untouched, and flag words changed only by
`compFlags`: WE_HAVE_INSTRUCTIONS removed under NO_HINTING, OVERLAP_COMPOUND set on the first component under
SET_OVERLAPS_FLAG (see `component_flag_bits_kept`). -/
theorem subset_composite_glyph_decodes_equal (flags : Nat) (gmap : Nat → Option Nat) (d out : Bytes)
    (hs : ¬ u16At d 0 < 32768) (h : subsetGlyphBytes flags gmap d = .bytes out) (hne : out ≠ []) :
    ∃ v v', Glyf.readComposite d = some v ∧ Glyf.readComposite out = some v' ∧
      v'.xMin = v.xMin ∧ v'.yMin = v.yMin ∧ v'.xMax = v.xMax ∧ v'.yMax = v.yMax ∧
      mapComps flags gmap true v.components = some v'.components := by
  obtain ⟨v, v', h1, h2, e1, e2, e3, e4, e5, _⟩ := composite_decodes_equal flags gmap d out hs h hne
  exact ⟨v, v', h1, h2, e1, e2, e3, e4, e5⟩

/-- **composite_alignment_byte_never_read.**  A composite record whose component list is complete (read-fonts read every
record: the last one it yields has no MORE_COMPONENTS — preserved by the rewrite, `component_flag_bits_kept`) decodes to
the same bounding box and components when anything is appended to it: the alignment byte `write_glyf_loca` adds after an
odd-length glyph in the short loca format is never read.  (For simple glyphs this is the `pad` parameter of
`subset_simple_glyph_decodes_equal`.)  With `loca_resolves_to_glyph_bytes` (Props/C17): what the subset's loca cuts out
for a kept glyph decodes to the renaming of what the original's record decodes to. -/
theorem composite_alignment_byte_never_read (out pad : Bytes) (h10 : 10 ≤ out.length)
    (hc : complete (Glyf.readComponents ((out.drop 10).length + 1) (out.drop 10))) :
    ∃ v v', Glyf.readComposite out = some v ∧ Glyf.readComposite (out ++ pad) = some v' ∧
      v'.xMin = v.xMin ∧ v'.yMin = v.yMin ∧ v'.xMax = v.xMax ∧ v'.yMax = v.yMax ∧ v'.components = v.components :=
  composite_padded out pad h10 hc

/-- **components_renamed_pointwise.**  What `mapComps` means, component by component: same number of components; the
k-th component of the subset is the k-th of the original with its glyph id mapped and its flag word passed through
`compFlags` (position 10 = first component). -/
theorem components_renamed_pointwise (flags : Nat) (gmap : Nat → Option Nat) (first : Bool)
    (cs cs' : List Glyf.RComponent) (h : mapComps flags gmap first cs = some cs') :
    cs'.length = cs.length ∧
    ∀ k, k < cs.length → ∃ c n, cs[k]? = some c ∧ gmap c.glyph = some n ∧
      cs'[k]? = some { c with flags := compFlags flags (if first && k == 0 then 10 else 0) c.flags, glyph := n % 65536 } :=
  mapComps_spec flags gmap first cs cs' h

/-- **component_flag_bits_kept.**  The flag rewrite keeps every bit that positions or draws a component:
ARG_1_AND_2_ARE_WORDS, ARGS_ARE_XY_VALUES, ROUND_XY_TO_GRID, the three scale bits, MORE_COMPONENTS, USE_MY_METRICS,
SCALED_COMPONENT_OFFSET, UNSCALED_COMPONENT_OFFSET (any mask inside 0x1EEF without 0x0400), for every flag word as
read-fonts yields it (`from_bits_truncate`). -/
theorem component_flag_bits_kept (flags i x m : Nat) (hm : 0x1EEF &&& m = m ∧ 0x0400 &&& m = 0) :
    Glyf.hasBit (compFlags flags i (x &&& COMPOSITE_KNOWN_BITS)) m = Glyf.hasBit (x &&& COMPOSITE_KNOWN_BITS) m :=
  hasBit_compFlags flags i x m hm

/-- **subset_glyph_decodes_equal.**  Both cases in one statement: whenever `subset_glyph` writes a glyph non-empty, the
written record decodes (contours, end points, points with on-curve flags, bounding box / components with anchors and
transforms) to the glyph-id renaming of what the original record decodes to. -/
theorem subset_glyph_decodes_equal (flags : Nat) (gmap : Nat → Option Nat) (d out : Bytes)
    (hb : ∀ b ∈ d, b < 256) (h : subsetGlyphBytes flags gmap d = .bytes out) (hne : out ≠ []) :
    ∃ g g', decodeGlyph d = some g ∧ decodeGlyph out = some g' ∧ renameDecoded flags gmap g = some g' :=
  glyph_decodes_equal flags gmap d out hb h hne

/-- **simple_glyph_emptied_only_if_undecodable.**  The other direction for simple glyphs: a record with at least one
contour that read-fonts parses is written EMPTY by `subset_glyph` only if read-fonts' checked point reader
(`points()`: `resolve_coords_len` + the length check) yields no points for it — the flag runs do not cover exactly the
point count (too few flags, a repeat run that overshoots, a repeat flag without its count) or the coordinate bytes are
cut short.  (The lenient `read_points_fast` clamps an overshooting repeat run and still draws such a record: known
finding `C17-repeat-overshoot-glyph-emptied`, behaviour copied from HarfBuzz's `trim_padding`.) -/
theorem simple_glyph_emptied_only_if_undecodable (flags : Nat) (gmap : Nat → Option Nat) (d : Bytes)
    (hs : u16At d 0 < 32768) (hnc : u16At d 0 ≠ 0) (h : subsetGlyphBytes flags gmap d = .bytes []) :
    ∃ v, Glyf.readSimple d = some v ∧ v.points = [] :=
  simple_emptied_undecodable flags gmap d hs hnc h

/-- **composite_glyph_not_emptied_when_components_mapped.**  The other direction for composites (klippa after fix
0b24b65): if read-fonts reads the component list completely (`complete`: the last component it yields has no
MORE_COMPONENTS, i.e. no record was cut off) and every component glyph has an image under the glyph map — which the
closure theorems of Props/C17 guarantee whenever no limit fired — then `subset_glyph` writes the glyph NON-empty, for
every flag combination, whatever follows the last component (instructions, missing instructions, padding).  Together
with `subset_composite_glyph_decodes_equal`: such a glyph keeps its component list up to the renaming. -/
theorem composite_glyph_not_emptied_when_components_mapped (flags : Nat) (gmap : Nat → Option Nat) (d : Bytes)
    (hlen : 10 ≤ d.length) (hs : ¬ u16At d 0 < 32768)
    (hc : complete (Glyf.readComponents ((d.drop 10).length + 1) (d.drop 10)))
    (hm : ∀ c ∈ Glyf.readComponents ((d.drop 10).length + 1) (d.drop 10), (gmap c.glyph).isSome) :
    ∃ out, subsetGlyphBytes flags gmap d = .bytes out ∧ out ≠ [] :=
  composite_not_emptied flags gmap d hlen hs hc hm

/-- **resubset_simple_glyph_unchanged.**  Re-subsetting idempotence of the per-glyph rewrite, simple glyphs: a record
that `subset_glyph` wrote non-empty is a fixed point of `subset_glyph` under the same flags (and any glyph map — simple
glyphs do not consult it): nothing is left to trim, the instruction length is already 0 under NO_HINTING, the overlap bit
is already set under SET_OVERLAPS_FLAG. -/
theorem resubset_simple_glyph_unchanged (flags : Nat) (gmap gmap' : Nat → Option Nat) (d out : Bytes)
    (hs : u16At d 0 < 32768) (h : subsetGlyphBytes flags gmap d = .bytes out) (hne : out ≠ []) :
    subsetGlyphBytes flags gmap' out = .bytes out :=
  simple_resubset_idempotent flags gmap gmap' d out hs h hne

/-- **resubset_composite_glyph_unchanged.**  Re-subsetting idempotence of the per-glyph rewrite, composites: a composite
that `subset_glyph` wrote non-empty is a fixed point of `subset_glyph` under the same flags and every second glyph map
that fixes the new glyph ids the first run wrote (the identity plan of a re-subset, see `plan_everything_identity`):
the flag rewrite is idempotent, the component ids map to themselves, the record is cut at the same place.
Together with `resubset_simple_glyph_unchanged`: the glyf bytes of a kept glyph do not change when a subset is subset
again with the same request. -/
theorem resubset_composite_glyph_unchanged (flags : Nat) (gmap gmap' : Nat → Option Nat) (d out : Bytes)
    (hs : ¬ u16At d 0 < 32768) (h : subsetGlyphBytes flags gmap d = .bytes out) (hne : out ≠ [])
    (hid : ∀ o n, gmap o = some n → gmap' (n % 65536) = some (n % 65536)) :
    subsetGlyphBytes flags gmap' out = .bytes out :=
  composite_resubset_idempotent flags gmap gmap' d out hs h hne hid

/-- **composite_instruction_tail_preserved.**  The instruction handling of `subset_composite_glyph`, byte level, for every
composite the subsetter keeps (written non-empty), every flag combination and glyph map.  Let `i` be where the component walk
ends (the first byte after the last component record: 4 bytes + 2 / 4 argument bytes + 0 / 2 / 4 / 8 transform bytes per
component, by its flag word) and `whi` = some component carried WE_HAVE_INSTRUCTIONS.  The walk writes only flag words and
glyph ids inside the component records (`components_remapped`, `subset_composite_glyph_decodes_equal`): every byte from `i`
on is the source's.  Then
* under NO_HINTING, or when no component has WE_HAVE_INSTRUCTIONS: the record is cut at `i` — the instructions are dropped
  exactly then;
* otherwise, when the instruction length word fits (`i + 1 < len`): everything before `i` is the rewritten component list
  and the tail is EXACTLY the source's `2 + instructionLength` bytes at `i` (length word + instructions; fewer only if the
  record is shorter) — the instructions are preserved byte for byte;
* otherwise (no room for the length word, fix 0b24b65): the record is kept up to `i`. -/
theorem composite_instruction_tail_preserved (flags : Nat) (gmap : Nat → Option Nat) (d out : Bytes)
    (h : subsetComposite flags gmap d = out) (hne : out ≠ []) :
    ∃ full i whi, compLoop flags gmap d.length (d.length + 1) d 10 false = some (full, i, whi) ∧
      full.length = d.length ∧ (∀ j, i ≤ j → full.getD j 0 = d.getD j 0) ∧
      (hasFlag flags F_NO_HINTING = true → out = full.take i) ∧
      (whi = false → out = full.take i) ∧
      (hasFlag flags F_NO_HINTING = false → whi = true → i + 1 < d.length →
        out.take i = full.take i ∧ out.drop i = (d.drop i).take (2 + u16At d i)) ∧
      (hasFlag flags F_NO_HINTING = false → whi = true → ¬ (i + 1 < d.length) → out = full.take i) :=
  composite_tail flags gmap d out h hne

/-! ## non-vacuity -/

/-- a 1-contour glyph with 3 points (flag 0x37 repeated twice: short positive x and y deltas), one instruction byte
and two bytes of padding; NO_HINTING + SET_OVERLAPS_FLAG: instructions dropped, padding trimmed, bit 0x40 set -/
def exSimple : Bytes := [0, 1, 0, 0, 0, 0, 0, 9, 0, 9, 0, 2, 0, 1, 0xB0, 0x3F, 2, 1, 2, 3, 4, 5, 6, 0, 0]

example : subsetGlyphBytes 0x11 (fun _ => none) exSimple =
    .bytes [0, 1, 0, 0, 0, 0, 0, 9, 0, 9, 0, 2, 0, 0, 0x7F, 2, 1, 2, 3, 4, 5, 6] := by decide

example : decodeGlyph exSimple =
    some (.simple 1 0 0 9 9 [2] [⟨1, 4, true⟩, ⟨3, 9, true⟩, ⟨6, 15, true⟩]) := by decide

example : decodeGlyph [0, 1, 0, 0, 0, 0, 0, 9, 0, 9, 0, 2, 0, 0, 0x7F, 2, 1, 2, 3, 4, 5, 6] =
    some (.simple 1 0 0 9 9 [2] [⟨1, 4, true⟩, ⟨3, 9, true⟩, ⟨6, 15, true⟩]) := by decide

/-- two components (5 with byte offsets + USE_MY_METRICS + MORE_COMPONENTS, 7 with word offsets and a scale +
WE_HAVE_INSTRUCTIONS), two instruction bytes, padding; glyph map 5 ↦ 2, 7 ↦ 3 -/
def exComposite : Bytes :=
  [0xFF, 0xFF, 0, 0, 0, 0, 0, 9, 0, 9, 0x02, 0x22, 0, 5, 1, 0xFF, 0x01, 0x0B, 0, 7, 0, 100, 0xFF, 0xFE, 0x20, 0x00, 0, 2, 0xB0, 0xB1, 0, 0]

def exMap : Nat → Option Nat := fun g => if g = 5 then some 2 else if g = 7 then some 3 else none

example : subsetGlyphBytes 0 exMap exComposite = .bytes (exComposite.take 30 |>.set 13 2 |>.set 19 3) := by decide

example : (decodeGlyph exComposite).bind (renameDecoded 0 exMap) =
    decodeGlyph (exComposite.take 30 |>.set 13 2 |>.set 19 3) := by decide

example : decodeGlyph exComposite = some (.composite 0 0 9 9
    [⟨0x0222, 5, .offset 1 (-1), ⟨16384, 0, 0, 16384⟩⟩, ⟨0x010B, 7, .offset 100 (-2), ⟨8192, 0, 0, 8192⟩⟩]) := by decide

/-- the hypotheses of `composite_glyph_not_emptied_when_components_mapped` hold for `exComposite` / `exMap`, also when
the record is cut right after its last component although that component says WE_HAVE_INSTRUCTIONS -/
example : (Glyf.readComponents 23 (exComposite.drop 10)).getLast?.map (fun c => Glyf.hasBit c.flags Glyf.MORE_COMPONENTS) =
    some false := by decide

example : (Glyf.readComponents 23 (exComposite.drop 10)).all (fun c => (exMap c.glyph).isSome) = true := by decide

example : subsetGlyphBytes 0 exMap (exComposite.take 26) = .bytes ((exComposite.take 26).set 13 2 |>.set 19 3) := by decide

/-- `resubset_composite_glyph_unchanged` has instances (identity second map) -/
example : subsetGlyphBytes 0 (fun g => some g) (exComposite.take 30 |>.set 13 2 |>.set 19 3) =
    .bytes (exComposite.take 30 |>.set 13 2 |>.set 19 3) := by decide

/-- flag arrays longer than the point count (repeat runs of count 0) are decoded by both readers -/
example : (Glyf.readSimple [0, 1, 0, 0, 0, 0, 1, 244, 1, 244, 0, 2, 0, 0, 0x3F, 0, 0x3F, 0, 0x3F, 0, 1, 2, 3, 4, 5, 6]).map
    (fun v => (v.points, v.readPointsFast)) =
    some ([⟨1, 4, true⟩, ⟨3, 9, true⟩, ⟨6, 15, true⟩], some [(1, 4, 1), (3, 9, 1), (6, 15, 1)]) := by decide

/-- `simple_glyph_emptied_only_if_undecodable` has instances: 4 points, one repeat run of 5 -/
example : subsetGlyphBytes 0 (fun _ => none) [0, 1, 0, 0, 0, 0, 0, 9, 0, 9, 0, 3, 0, 0, 0x3F, 4, 1, 2, 3, 4, 5, 6, 7, 8, 0, 0] =
    .bytes [] := by decide

/-- `composite_instruction_tail_preserved` on `exComposite` (walk ends at 26, 2 instruction bytes B0 B1, 2 padding bytes):
kept without NO_HINTING, dropped with it -/
example : (subsetComposite 0 exMap exComposite).drop 26 = [0, 2, 0xB0, 0xB1] := by decide
example : (subsetComposite 1 exMap exComposite).length = 26 := by decide

end FontVerif.C17Outline
