/-
C17 — Outline part (theorems). See reports/C17.md.
-/
import FontVerif.Model.Base
namespace FontVerif.C17Outline
open FontVerif

end FontVerif.C17Outline
