/-
C17 — COLR ClipList subsetting (klippa/src/colr.rs `impl SubsetTable for ClipList`, `serialize_clips`), theorems over the
model `SubsetColr.clipMap` / `clipRuns` (Model/SubsetColr.lean; tied to klippa by the byte-exact COLR correspondence of
harness/src/bin/c17/colrx.rs, whose ClipList object is built from exactly these two functions).
Reader: `clipLookup` = the Clip record whose [start, end] contains the glyph id (read-fonts / skrifa binary-search the
records; they are sorted and disjoint by `cliplist_records_sorted_disjoint`, so the first match is the only one).
-/
import FontVerif.Lemmas.SubsetColrClip
set_option linter.unusedVariables false
namespace FontVerif.C17ColrClip
open FontVerif FontVerif.SubsetColr

/-- **cliplist_records_sorted_disjoint.**  Whenever `ClipList::subset` writes records (the map of new gids is non-empty),
the Clip records it writes have start ≤ end, ascend, and never overlap or touch out of order: each record starts after
the previous one ended. -/
theorem cliplist_records_sorted_disjoint (p : PlanIn) (clips : List (Nat × Nat × Nat)) (g0 o0 : Nat)
    (rest : List (Nat × Nat)) (hm : clipMap p clips = (g0, o0) :: rest) :
    RunsSorted g0 (clipRuns rest g0 g0 o0) :=
  (clipList_lookup p clips g0 o0 rest hm).1

/-- **cliplist_lookup_is_last_write.**  For EVERY plan and source Clip list (also overlapping / unsorted source records
and non-injective glyph maps): the box a new glyph id gets from the written records is the box of the LAST write
`new_gids_offset_map.insert(new_gid as u16, offset)` of the first loop for that id, and ids that were never written get
no box — merging consecutive ids never pulls a foreign id into a range and never changes a box. -/
theorem cliplist_lookup_is_last_write (p : PlanIn) (clips : List (Nat × Nat × Nat)) (g0 o0 : Nat)
    (rest : List (Nat × Nat)) (hm : clipMap p clips = (g0, o0) :: rest) (ng : Nat) :
    clipLookup ng (clipRuns rest g0 g0 o0) = amLookup ng (clipWrites p clips).reverse :=
  (clipList_lookup p clips g0 o0 rest hm).2 ng

/-- **cliplist_boxes_kept_exactly.**  `glyphset_colred` ascending.  If the boxes are unambiguous for the new id `ng` (any two
kept glyphs with that new id — as u16 — that lie in source Clip records have the same box offset: true for a
well-formed ClipList with disjoint records and an injective glyph map), then the written records give `ng` the box
offset `o` exactly when `ng` is the image of a kept colour glyph lying in a source record with box `o`: clip boxes are
kept for the retained glyphs and only for them. -/
theorem cliplist_boxes_kept_exactly (p : PlanIn) (clips : List (Nat × Nat × Nat)) (hs : p.colred.Pairwise (· < ·))
    (g0 o0 : Nat) (rest : List (Nat × Nat)) (hm : clipMap p clips = (g0, o0) :: rest) (ng o : Nat)
    (hu : ∀ o1 o2, ClipOf p clips ng o1 → ClipOf p clips ng o2 → o1 = o2) :
    clipLookup ng (clipRuns rest g0 g0 o0) = some o ↔ ClipOf p clips ng o := by
  rw [cliplist_lookup_is_last_write p clips g0 o0 rest hm ng]
  constructor
  · intro h
    have := amLookup_mem _ _ _ h
    rw [List.mem_reverse] at this
    exact (mem_clipWrites p clips hs ng o).1 this
  · intro h
    apply amLookup_of_mem_unique
    · rw [List.mem_reverse]; exact (mem_clipWrites p clips hs ng o).2 h
    · intro v' hv'
      rw [List.mem_reverse] at hv'
      exact hu v' o ((mem_clipWrites p clips hs ng v').1 hv') h

/-- **cliplist_dropped_iff_no_kept_glyph_clipped.**  The ClipList is dropped (`SERIALIZE_ERROR_EMPTY`, offset stays null)
exactly when no kept colour glyph with an image lies in any source Clip record. -/
theorem cliplist_dropped_iff_no_kept_glyph_clipped (p : PlanIn) (clips : List (Nat × Nat × Nat))
    (hs : p.colred.Pairwise (· < ·)) :
    clipMap p clips = [] ↔ ∀ ng o, ¬ ClipOf p clips ng o := by
  rw [clipMap_nil_iff]
  constructor
  · intro h ng o hc
    have := (mem_clipWrites p clips hs ng o).2 hc
    rw [h] at this; simp at this
  · intro h
    cases hw : clipWrites p clips with
    | nil => rfl
    | cons w ws =>
      exfalso
      exact h w.1 w.2 ((mem_clipWrites p clips hs w.1 w.2).1 (by rw [hw]; exact List.mem_cons_self ..))

/-! ## non-vacuity -/

/-- glyphs 3..9 kept and renumbered 1..7; source records [2,4]→box 100, [5,5]→100, [6,7]→200, [9,12]→100:
new ids 1..3 share box 100 and merge, 4..5 get 200, 7 (old 9) gets 100 in its own record (6 = old 8 has no box) -/
def exPlan : PlanIn :=
  { colred := [3, 4, 5, 6, 7, 8, 9], glyphMap := [(3, 1), (4, 2), (5, 3), (6, 4), (7, 5), (8, 6), (9, 7)],
    palettes := [], layers := [], varIdx := [], innerMaps := [], newDs := [] }
def exClips : List (Nat × Nat × Nat) := [(2, 4, 100), (5, 5, 100), (6, 7, 200), (9, 12, 100)]

example : clipMap exPlan exClips = [(1, 100), (2, 100), (3, 100), (4, 200), (5, 200), (7, 100)] := by decide
example : clipRuns [(2, 100), (3, 100), (4, 200), (5, 200), (7, 100)] 1 1 100 =
    [(1, 3, 100), (4, 5, 200), (7, 7, 100)] := by decide
example : [1, 2, 3, 4, 5, 6, 7, 8].map (fun g => clipLookup g [(1, 3, 100), (4, 5, 200), (7, 7, 100)]) =
    [some 100, some 100, some 100, some 200, some 200, none, some 100, none] := by decide
example : exPlan.colred.Pairwise (· < ·) := by decide

end FontVerif.C17ColrClip
