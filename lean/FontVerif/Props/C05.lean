/-
C05 — Offset packing is sound: every offset resolves to its target or packing fails.
Property theorems only (vocabulary `ObjWF`, `CopyAt`, `readOffset`, `placements`, `unfold`, `readBack` and helper
lemmas live in Lemmas/GraphSer.lean; sorts in Lemmas/GraphSort*.lean and GraphTopo*.lean (counting argument,
termination); gate/control flow in Lemmas/GraphPack.lean; the simulation maintained by the graph surgery in
Lemmas/GraphIso*.lean; transport of the reader's view in Lemmas/GraphEnd.lean).
Model: Model/Graph.lean ⇄ write-fonts/src/graph.rs (Graph::serialize, pack_objects, basic_sort,
has_overflows, find_overflows, sort_kahn, sort_shortest_distance, assign_spaces_hb,
isolate_subgraph_hb, duplicate_subgraph, try_isolating_subgraphs), write-fonts/src/write.rs
(dump_table's gate).
-/
import FontVerif.Model.Graph
import FontVerif.Lemmas.GraphSer
import FontVerif.Lemmas.GraphPack
import FontVerif.Lemmas.GraphSort
import FontVerif.Lemmas.GraphSort2
import FontVerif.Lemmas.GraphIso3
import FontVerif.Lemmas.GraphTopo4
import FontVerif.Lemmas.GraphEnd
import FontVerif.Lemmas.GraphPromo3
set_option linter.unusedVariables false
namespace FontVerif.C05
open FontVerif FontVerif.Graph

/-! ### (1) serialize is sound for every graph and every order it accepts -/

/-- **Soundness of `Graph::serialize`, all graphs, all orders.**  Whenever `serialize` returns
(i.e. none of its `expect`s / checked subtractions / slice bounds fires) on a graph whose objects
are well formed, then for *every* object `id` laid out at position `hd`:
* the output holds at `hd` a byte-for-byte copy of the object (outside its own link fields), and
* every link of it, read big-endian with its width at `hd + pos` and interpreted relative to its
  base `hd + adjustment`, is exactly the position `tpos` at which its target object is laid out
  (where, by the first bullet, a copy of the target sits), the stored value does not exceed the
  link's width, and the subtraction did not wrap.
No assumption on the order: not sorted, not duplicate free, not topological. -/
theorem serialize_sound (g : Graph) (out : List Nat)
    (hwf : ∀ id o, g.objects.find? id = some o → ObjWF o)
    (h : serialize g = some out) :
    out.length = (flat g g.order).length ∧
    ∀ id hd, (id, hd) ∈ placements g g.order 0 →
      ∃ o, g.objects.find? id = some o ∧ CopyAt out hd o ∧
        ∀ l ∈ o.links, ∃ tpos t, (l.target, tpos) ∈ placements g g.order 0 ∧
          g.objects.find? l.target = some t ∧ CopyAt out tpos t ∧
          readOffset out hd l ≤ maxValue l.width ∧
          hd + l.adj + readOffset out hd l = tpos := by
  unfold serialize at h
  split at h
  · simp at h
  · split at h
    · simp at h
    · rename_i offs out0 hlay
      obtain ⟨hout0, hfound, hoffs⟩ := layout_spec g g.order [] [] 0 offs out0 hlay
      simp only [List.nil_append] at hout0
      have hwf' : ∀ id ∈ g.order, (g.obj id).links.Pairwise Disjoint ∧
          ∀ l ∈ (g.obj id).links, l.pos + l.width ≤ (g.obj id).bytes.length := by
        intro id hid
        obtain ⟨o, ho⟩ := hfound id hid
        rw [obj_of_find ho]
        exact ⟨(hwf id o ho).2, fun l hl => ((hwf id o ho).1 l hl).2⟩
      obtain ⟨hlen, hframe, hres⟩ := patchAll_spec g offs g.order 0 out0 out h hwf'
      have hlen' : out.length = (flat g g.order).length := by rw [hlen, hout0]
      -- copies
      have hcopy : ∀ id hd, (id, hd) ∈ placements g g.order 0 → ∀ o, g.objects.find? id = some o →
          CopyAt out hd o := by
        intro id hd hm o ho
        have hobj := obj_of_find ho
        have hge := placements_ge g g.order 0 id hd hm
        rw [hobj] at hge
        refine ⟨by omega, ?_⟩
        intro k hk hplain
        rw [hframe (hd + k)]
        · rw [hout0]
          have := flat_getElem? g g.order 0 id hd k hm (by rw [hobj]; exact hk)
          rw [hobj] at this
          simpa using this
        · intro id2 hd2 hm2 l2 hl2
          obtain ⟨o2, ho2⟩ := hfound id2 (placements_mem_order g g.order 0 id2 hd2 hm2)
          have hobj2 := obj_of_find ho2
          rw [hobj2] at hl2
          have hin := ((hwf id2 o2 ho2).1 l2 hl2).2
          unfold inField
          rcases placements_disjoint g g.order 0 (id, hd) (id2, hd2) hm hm2 with heq | hd1 | hd1
          · simp only [Prod.mk.injEq] at heq
            obtain ⟨rfl, rfl⟩ := heq
            rw [ho] at ho2
            simp only [Option.some.injEq] at ho2
            subst ho2
            have := hplain l2 hl2
            omega
          · simp only [hobj] at hd1; omega
          · simp only [hobj2] at hd1; omega
      refine ⟨hlen', ?_⟩
      intro id hd hm
      obtain ⟨o, ho⟩ := hfound id (placements_mem_order g g.order 0 id hd hm)
      have hobj := obj_of_find ho
      refine ⟨o, ho, hcopy id hd hm o ho, ?_⟩
      intro l hl
      obtain ⟨abs, ha1, ha2, ha3, ha4⟩ := hres id hd hm l (by rw [hobj]; exact hl)
      have hplace : (l.target, abs) ∈ placements g g.order 0 := by
        rcases hoffs l.target abs ha1 with hc | hc
        · simp [Map.find?] at hc
        · exact hc
      obtain ⟨t, ht⟩ := hfound l.target (placements_mem_order g g.order 0 _ _ hplace)
      have hw := ((hwf id o ho).1 l hl).1
      have hfield : (out.drop (hd + l.pos)).take l.width = beBytes l.width (abs - (hd + l.adj)) :=
        field_eq out (hd + l.pos) l.width _ (beBytes_length _ _) ha4
      have hval : readOffset out hd l = abs - (hd + l.adj) := by
        unfold readOffset
        rw [hfield, beValue_beBytes _ _ hw ha3]
      refine ⟨abs, t, hplace, ht, hcopy _ _ hplace t ht, ?_, ?_⟩
      · rw [hval]; exact ha3
      · rw [hval]; omega

/-- non-vacuity: a root with a 16-bit link at byte 2 to a 3-byte leaf; the layout is root@0, leaf@4
and the field holds 0x0004. -/
example :
    let g : Graph := { Graph.fromObjects [(7, ⟨4, [1, 1, 0, 0], [⟨2, 2, 9, 0⟩]⟩), (9, ⟨3, [5, 6, 7], []⟩)] 7 with
                       order := [7, 9] }
    serialize g = some [1, 1, 0, 4, 5, 6, 7] ∧ placements g g.order 0 = [(7, 0), (9, 4)] ∧
      readOffset [1, 1, 0, 4, 5, 6, 7] 0 ⟨2, 2, 9, 0⟩ = 4 := by
  decide

/-- non-vacuity of the failure side: the same graph with a 65 536-byte gap cannot be serialized
(`u16::try_from(..).expect(..)` fires): the model returns `none`, not bytes. -/
example :
    let g : Graph := { Graph.fromObjects [(7, ⟨4, [1, 1, 0, 0], [⟨2, 2, 9, 65532⟩]⟩), (9, ⟨0, [], []⟩)] 7 with
                       order := [9, 7] }
    serialize g = none := by
  decide

/-! ### (4) success only through the gate; failure returns no bytes -/

/-- **`pack_objects` reports success only if its overflow gate passed on the graph it leaves
behind** — on every path (Kahn, shortest distance, after space assignment, after any number of
isolation rounds): every link of every object of the final graph has
`position(child) ≥ position(parent)` and `position(child) − position(parent) ≤ max(width)`. -/
theorem pack_success_passes_gate (g g' : Graph) (fresh fresh' : List Nat)
    (h : packObjects g fresh = some (true, g', fresh')) : NoOverflow g' := by
  rcases packObjects_gate g g' fresh fresh' h with h1 | h1
  · exact (hasOverflows_false_iff g').mp h1
  · exact findOverflows_nil g' h1

/-- The gate is exactly the stated predicate (both directions), for every graph and positions. -/
theorem gate_iff (g : Graph) : hasOverflows g = some false ↔ NoOverflow g := hasOverflows_false_iff g

/-- **Failure returns no bytes; bytes come only from a gated graph** (`dump_table`): if `dump`
yields bytes then `pack_objects` returned `true` on some final graph that passes the gate and the
bytes are `serialize` of that graph; if `pack_objects` returns `false` the result is the error. -/
theorem dump_bytes_only_if_gate (g : Graph) (fresh : List Nat) (out : List Nat)
    (h : dump g fresh = some (some out)) :
    ∃ g' fresh', packObjects g fresh = some (true, g', fresh') ∧ NoOverflow g' ∧ serialize g' = some out := by
  unfold dump at h
  split at h
  · simp at h
  · simp at h
  · rename_i g' fresh' hp
    split at h
    · simp at h
    · rename_i out' hs
      simp only [Option.some.injEq] at h
      subst h
      exact ⟨g', fresh', hp, pack_success_passes_gate g g' fresh fresh' hp, hs⟩

theorem dump_fail_no_bytes (g g' : Graph) (fresh fresh' : List Nat)
    (h : packObjects g fresh = some (false, g', fresh')) : dump g fresh = some none := by
  unfold dump; rw [h]

/-- **End to end**: bytes returned by `dump` satisfy the soundness conclusions of
`serialize_sound` for the final graph `g'` the packer arrived at. -/
theorem dump_sound (g : Graph) (fresh : List Nat) (out : List Nat)
    (h : dump g fresh = some (some out)) :
    ∃ g' fresh', packObjects g fresh = some (true, g', fresh') ∧
      ((∀ id o, g'.objects.find? id = some o → ObjWF o) →
        ∀ id hd, (id, hd) ∈ placements g' g'.order 0 →
          ∃ o, g'.objects.find? id = some o ∧ CopyAt out hd o ∧
            ∀ l ∈ o.links, ∃ tpos t, (l.target, tpos) ∈ placements g' g'.order 0 ∧
              g'.objects.find? l.target = some t ∧ CopyAt out tpos t ∧
              readOffset out hd l ≤ maxValue l.width ∧
              hd + l.adj + readOffset out hd l = tpos) := by
  obtain ⟨g', fresh', hp, _, hs⟩ := dump_bytes_only_if_gate g fresh out h
  exact ⟨g', fresh', hp, fun hwf => (serialize_sound g' out hwf hs).2⟩

/-- non-vacuity: a graph that packs (Kahn order works) -/
example :
    dump (Graph.fromObjects [(0, ⟨2, [0, 0], [⟨0, 2, 1, 0⟩]⟩), (1, ⟨1, [9], []⟩)] 0) [] = some (some [0, 2, 9]) := by
  decide

/-- non-vacuity: a graph that cannot be packed (a 16-bit link from a 70 000-byte object to its only
child; sizes only, the packer never looks at bytes) yields the error, not bytes -/
example :
    dump (Graph.fromObjects [(0, ⟨2, [], [⟨0, 2, 1, 0⟩]⟩), (1, ⟨70000, [], [⟨0, 2, 2, 0⟩]⟩), (2, ⟨1, [], []⟩)] 0) []
      = some none := by
  decide

/-! ### (1') reading the output back = unfolding the graph -/

/-- **Read-back theorem.**  Whenever `serialize` returns, a reader that starts at the position of
any laid-out object and follows every offset (big-endian, with its width, relative to its base)
sees exactly the tree obtained by unfolding the object graph from that object: same bytes outside
link fields, same children, recursively — to every depth, for every graph and order. -/
theorem readBack_eq_unfold (g : Graph) (out : List Nat)
    (hwf : ∀ id o, g.objects.find? id = some o → ObjWF o)
    (h : serialize g = some out) (fuel : Nat) :
    ∀ id hd, (id, hd) ∈ placements g g.order 0 → readBack out g fuel hd id = unfold g fuel id := by
  have hs := (serialize_sound g out hwf h).2
  induction fuel with
  | zero => intro id hd _; rfl
  | succ n ih =>
    intro id hd hm
    obtain ⟨o, ho, hcopy, hlinks⟩ := hs id hd hm
    simp only [readBack, unfold, obj_of_find ho]
    rw [masked_copy out hd o hcopy]
    congr 1
    apply List.map_congr_left
    intro l hl
    obtain ⟨tpos, t, hpl, _, _, _, heq⟩ := hlinks l hl
    rw [heq]
    exact ih l.target tpos hpl

/-! ### (2) every object reachable from the root is present; the root is first -/

/-- **The order a successful `pack_objects` leaves behind starts with the root and contains every
object reachable from the root** (graphs with at least two objects; the one-object graph takes the
trivial branch `order = keys`).  Proved through the loop invariants of `sort_kahn` /
`sort_shortest_distance`: the order is closed under links whenever the sort's final cycle check
passes. -/
theorem pack_reachable_present (g g' : Graph) (fresh fresh' : List Nat) (hn : 1 < g.nodes.length)
    (h : packObjects g fresh = some (true, g', fresh')) :
    (∃ tail, g'.order = g'.root :: tail) ∧ ∀ x, Reach g' g'.root x → x ∈ g'.order := by
  obtain ⟨⟨tail, ht⟩, hclosed⟩ := packObjects_sortedOut g g' fresh fresh' hn h
  refine ⟨⟨tail, ht⟩, fun x hx => reach_mem g' g'.order g'.root (by rw [ht]; exact List.mem_cons_self) hclosed x hx⟩

/-- **End to end on the final graph**: if `dump` returns bytes, then reading them from position 0
as the root, following all offsets, yields the unfolding of the final graph from its root (all
depths); every reachable object of the final graph is in the layout; the gate held. -/
theorem dump_reads_back (g : Graph) (fresh : List Nat) (out : List Nat) (hn : 1 < g.nodes.length)
    (h : dump g fresh = some (some out)) :
    ∃ g' fresh', packObjects g fresh = some (true, g', fresh') ∧ NoOverflow g' ∧
      (∀ x, Reach g' g'.root x → x ∈ g'.order) ∧
      ((∀ id o, g'.objects.find? id = some o → ObjWF o) →
        ∀ fuel, readBack out g' fuel 0 g'.root = unfold g' fuel g'.root) := by
  obtain ⟨g', fresh', hp, hgate, hs⟩ := dump_bytes_only_if_gate g fresh out h
  obtain ⟨⟨tail, ht⟩, hreach⟩ := pack_reachable_present g g' fresh fresh' hn hp
  refine ⟨g', fresh', hp, hgate, hreach, ?_⟩
  intro hwf fuel
  apply readBack_eq_unfold g' out hwf hs fuel
  rw [ht]
  simp [placements]

/-! ### (3) sort orders -/

/-- `sort_kahn`, when it returns (cycle check passed): objects untouched, root first, order closed
under links — hence contains everything reachable from the root. -/
theorem kahn_order_contains_reachable (g g' : Graph) (hn : 1 < g.nodes.length) (h : sortKahn g = some g') :
    g'.objects = g.objects ∧ (∃ tail, g'.order = g.root :: tail) ∧ ∀ x, Reach g g.root x → x ∈ g'.order := by
  obtain ⟨ho, hr, ⟨tail, ht⟩, hc⟩ := sortKahn_spec g g' hn h
  exact ⟨ho, ⟨tail, ht⟩, fun x hx => reach_mem g g'.order g.root (by rw [ht]; exact List.mem_cons_self) hc x hx⟩

/-- `sort_shortest_distance`, when it returns: the same. -/
theorem shortest_order_contains_reachable (g g' : Graph) (h : sortShortest g = some g') :
    g'.objects = g.objects ∧ (∃ tail, g'.order = g.root :: tail) ∧ ∀ x, Reach g g.root x → x ∈ g'.order := by
  obtain ⟨ho, hr, ⟨tail, ht⟩, hc⟩ := sortShortest_spec g g' h
  exact ⟨ho, ⟨tail, ht⟩, fun x hx => reach_mem g g'.order g.root (by rw [ht]; exact List.mem_cons_self) hc x hx⟩

/-- non-vacuity: diamond 0→{1,2}→3, Kahn order is 0,1,2,3 -/
example :
    (sortKahn (Graph.fromObjects [(0, ⟨4, [], [⟨0, 2, 1, 0⟩, ⟨2, 2, 2, 0⟩]⟩), (1, ⟨2, [], [⟨0, 2, 3, 0⟩]⟩),
      (2, ⟨2, [], [⟨0, 2, 3, 0⟩]⟩), (3, ⟨1, [], []⟩)] 0)).map (·.order) = some [0, 1, 2, 3] := by
  decide

/-- **`sort_kahn` enumerates exactly the reachable objects, each once**: on a freshly built graph
(`from_objects`: parent cache stale) in which no link targets the root (true of every acyclic graph
all of whose objects are reachable from the root), whenever the sort returns, its order has no
duplicates and `x ∈ order ↔ x reachable from the root`. -/
theorem kahn_order_enumerates_reachable (g g' : Graph) (hn : 1 < g.nodes.length)
    (hstale : g.parentsInvalid = true)
    (hroot : ∀ kv ∈ g.objects, ∀ l ∈ kv.2.links, l.target ≠ g.root)
    (h : sortKahn g = some g') :
    g'.order.Nodup ∧ ∀ x, x ∈ g'.order ↔ Reach g g.root x := by
  obtain ⟨hnd, hsub⟩ := sortKahn_enum g g' hn (updateParents_indeg_zero g g.root hstale hroot) h
  exact ⟨hnd, fun x => ⟨hsub x, (kahn_order_contains_reachable g g' hn h).2.2 x⟩⟩

/-- **`sort_shortest_distance` enumerates exactly the reachable objects, each once** (same
hypotheses; no size restriction). -/
theorem shortest_order_enumerates_reachable (g g' : Graph)
    (hstale : g.parentsInvalid = true)
    (hroot : ∀ kv ∈ g.objects, ∀ l ∈ kv.2.links, l.target ≠ g.root)
    (h : sortShortest g = some g') :
    g'.order.Nodup ∧ ∀ x, x ∈ g'.order ↔ Reach g g.root x := by
  obtain ⟨hnd, hsub⟩ := sortShortest_enum g g' (updateParents_indeg_zero g g.root hstale hroot) h
  exact ⟨hnd, fun x => ⟨hsub x, (shortest_order_contains_reachable g g' h).2.2 x⟩⟩

/-- The same for any state of the parent cache, stated on the cache: if the cached in-degree of the
root is 0 the order is duplicate free and contains only reachable objects. -/
theorem shortest_order_nodup_of_root_indeg (g g' : Graph) (hroot : (updateParents g).indeg g.root = 0)
    (h : sortShortest g = some g') : g'.order.Nodup ∧ ∀ x ∈ g'.order, Reach g g.root x :=
  sortShortest_enum g g' hroot h

/-- split form ⇒ index form: if all parents of every entry of a duplicate-free order stand before
it, then every link goes strictly forward in the order -/
theorem forward_of_split (g : Graph) (order : List Nat) (hnd : order.Nodup)
    (h : ∀ pre c post, order = pre ++ c :: post → ∀ p, IsParent g p c → p ∈ pre) :
    ∀ id ∈ order, ∀ l ∈ (g.obj id).links, l.target ∈ order →
      order.idxOf id < order.idxOf l.target := by
  intro id hid l hl ht
  obtain ⟨pre, post, hsplit⟩ := List.append_of_mem ht
  have hp := h pre l.target post hsplit id ⟨l, hl, rfl⟩
  have hnot : l.target ∉ pre := by
    rw [hsplit] at hnd
    have := (List.nodup_append.mp hnd).2.2 l.target
    intro hm
    exact this hm l.target List.mem_cons_self rfl
  rw [hsplit, List.idxOf_append, List.idxOf_append, if_pos hp, if_neg hnot]
  simp only [List.idxOf_cons_self, Nat.zero_add]
  exact List.idxOf_lt_length_of_mem hp

/-- **`sort_kahn` is topological** (index form): on a freshly built graph (`from_objects`: stale parent
cache, distinct object ids) whose root is nobody's target, whenever the sort returns, the order is
duplicate free, is exactly the set of objects reachable from the root, and every link of every
object of the order goes strictly forward: `index(target) > index(source)`.  Proof: the counting
argument — `update_parents` caches exactly one parent per link, `removed_edges[c]` counts the links
into `c` from processed objects, so `removed_edges[c] = parents(c).len()` forces every parent of `c`
to have been processed (Lemmas/GraphTopo.lean). -/
theorem kahn_topological (g g' : Graph) (hn : 1 < g.nodes.length)
    (hstale : g.parentsInvalid = true) (hK : g.objects.keys.Nodup)
    (hroot : ∀ kv ∈ g.objects, ∀ l ∈ kv.2.links, l.target ≠ g.root)
    (h : sortKahn g = some g') :
    g'.order.Nodup ∧ (∀ x, x ∈ g'.order ↔ Reach g g.root x) ∧
    ∀ id ∈ g'.order, ∀ l ∈ (g.obj id).links,
      l.target ∈ g'.order ∧ g'.order.idxOf id < g'.order.idxOf l.target := by
  obtain ⟨hnd, hiff⟩ := kahn_order_enumerates_reachable g g' hn hstale hroot h
  refine ⟨hnd, hiff, ?_⟩
  intro id hid l hl
  have ht : l.target ∈ g'.order := (hiff _).mpr (Reach.step l ((hiff id).mp hid) hl)
  exact ⟨ht, forward_of_split g g'.order hnd (sortKahn_topo g g' hn hstale hK hroot h) id hid l hl ht⟩

/-- **`sort_shortest_distance` is topological** (index form; same hypotheses, any number of nodes). -/
theorem shortest_topological (g g' : Graph)
    (hstale : g.parentsInvalid = true) (hK : g.objects.keys.Nodup)
    (hroot : ∀ kv ∈ g.objects, ∀ l ∈ kv.2.links, l.target ≠ g.root)
    (h : sortShortest g = some g') :
    g'.order.Nodup ∧ (∀ x, x ∈ g'.order ↔ Reach g g.root x) ∧
    ∀ id ∈ g'.order, ∀ l ∈ (g.obj id).links,
      l.target ∈ g'.order ∧ g'.order.idxOf id < g'.order.idxOf l.target := by
  obtain ⟨hnd, hiff⟩ := shortest_order_enumerates_reachable g g' hstale hroot h
  refine ⟨hnd, hiff, ?_⟩
  intro id hid l hl
  have ht : l.target ∈ g'.order := (hiff _).mpr (Reach.step l ((hiff id).mp hid) hl)
  exact ⟨ht, forward_of_split g g'.order hnd (sortShortest_topo g g' hstale hK hroot h) id hid l hl ht⟩

/-- **On an acyclic input both sorts return** (no "cycle or something?" panic, loops within their
budgets): for every object map with distinct ids, closed under its links, acyclic (some rank strictly
increases along every link) and with every object reachable from the root (`GoodInput`, what
`TableWriter` produces), `sort_kahn` and `sort_shortest_distance` on `from_objects` return. -/
theorem sorts_return_on_acyclic (objs : Map Obj) (root : Nat)
    (hkeys : objs.keys.Nodup)
    (hclosed : ∀ kv ∈ objs, ∀ l ∈ kv.2.links, l.target ∈ objs.keys)
    (hreach : ∀ k ∈ objs.keys, Reach (Graph.fromObjects objs root) root k)
    (hacyclic : ∃ rank : Nat → Nat, ∀ kv ∈ objs, ∀ l ∈ kv.2.links, rank kv.1 < rank l.target) :
    (∃ g', sortKahn (Graph.fromObjects objs root) = some g') ∧
    (∃ g', sortShortest (Graph.fromObjects objs root) = some g') :=
  ⟨sortKahn_returns objs root ⟨hkeys, hclosed, hreach, hacyclic⟩,
   sortShortest_returns objs root ⟨hkeys, hclosed, hreach, hacyclic⟩⟩

/-- non-vacuity: the diamond 0→{1,2}→3 satisfies every hypothesis of `sorts_return_on_acyclic` (rank = id) -/
example :
    let objs : Map Obj := [(0, ⟨4, [], [⟨0, 2, 1, 0⟩, ⟨2, 2, 2, 0⟩]⟩), (1, ⟨2, [], [⟨0, 2, 3, 0⟩]⟩),
      (2, ⟨2, [], [⟨0, 2, 3, 0⟩]⟩), (3, ⟨1, [], []⟩)]
    (∃ g', sortKahn (Graph.fromObjects objs 0) = some g') ∧ (∃ g', sortShortest (Graph.fromObjects objs 0) = some g') := by
  intro objs
  have r0 : Reach (Graph.fromObjects objs 0) 0 0 := Reach.refl 0
  have r1 : Reach (Graph.fromObjects objs 0) 0 1 := Reach.step ⟨0, 2, 1, 0⟩ r0 (by decide)
  have r2 : Reach (Graph.fromObjects objs 0) 0 2 := Reach.step ⟨2, 2, 2, 0⟩ r0 (by decide)
  have r3 : Reach (Graph.fromObjects objs 0) 0 3 := Reach.step ⟨0, 2, 3, 0⟩ r1 (by decide)
  refine sorts_return_on_acyclic objs 0 (by decide) (by decide) ?_ ⟨fun x => x, by decide⟩
  intro k hk
  have : k = 0 ∨ k = 1 ∨ k = 2 ∨ k = 3 := by simpa [objs, Map.keys] using hk
  rcases this with rfl | rfl | rfl | rfl
  · exact r0
  · exact r1
  · exact r2
  · exact r3

/-- non-vacuity of `sorts_return_on_acyclic` / failure side: a 2-cycle behind the root is *not*
acyclic and `sort_kahn` panics ("cycle or something?" = `none`). -/
example :
    sortKahn (Graph.fromObjects [(0, ⟨2, [], [⟨0, 2, 1, 0⟩]⟩), (1, ⟨2, [], [⟨0, 2, 2, 0⟩]⟩),
      (2, ⟨2, [], [⟨0, 2, 1, 0⟩]⟩)] 0) = none := by
  decide

/-- position form, for every graph `pack_objects` accepts: no link goes backwards in the layout
(the gate re-checks it; `serialize` re-checks `position(child) ≥ position(parent) + adjustment`). -/
theorem pack_positions_forward (g g' : Graph) (fresh fresh' : List Nat)
    (h : packObjects g fresh = some (true, g', fresh')) :
    ∀ kv ∈ g'.objects, ∀ l ∈ kv.2.links, (g'.node kv.1).position ≤ (g'.node l.target).position :=
  fun kv hkv l hl => (pack_success_passes_gate g g' fresh fresh' h kv hkv l hl).1

/-! ### duplication / re-pointing is invisible to a reader -/

/-- The abstract half: any re-arrangement that admits a renaming `φ` of the new objects onto old
objects with equal bytes and equal link shapes up to `φ` leaves every unfolding unchanged. -/
theorem renaming_preserves_unfold (g' g : Graph) (φ : Nat → Nat) (hsim : Simulates g' g φ)
    (hroot : φ g'.root = g.root) (fuel : Nat) : unfold g' fuel g'.root = unfold g fuel g.root := by
  rw [unfold_simulation g' g φ hsim fuel g'.root, hroot]

/-- **`pack_objects` never changes what a reader sees from the root** — whatever it returns
(success or failure), through Kahn / shortest-distance sorting, `assign_spaces_hb`, any number of
`isolate_subgraph_hb` / `duplicate_subgraph` rounds with their id re-mapping and link re-pointing,
`try_isolating_subgraphs`, `remove_orphans` and the retry loop: the unfolding of the final graph from
its root equals the unfolding of the input graph from its root, to every depth.  Hypothesis: the ids
`ObjectId::next()` will hand out are distinct and not in use in the input graph (not the root, not
an object id, not a link target, not a cached parent).  Proof: the surgery maintains a renaming
`φ` (copy ↦ original) that is a simulation (Lemmas/GraphIso*.lean). -/
theorem pack_preserves_unfold (g g' : Graph) (fresh fresh' : List Nat) (ok : Bool)
    (hnd : fresh.Nodup) (hroot : g.root ∉ fresh)
    (hun : ∀ n ∈ fresh, g.objects.find? n = none ∧ (∀ x, ∀ l ∈ (g.obj x).links, l.target ≠ n) ∧
      (∀ x, ∀ p ∈ (g.node x).parents, p.1 ≠ n))
    (h : packObjects g fresh = some (ok, g', fresh')) (fuel : Nat) :
    unfold g' fuel g'.root = unfold g fuel g.root := by
  obtain ⟨φ, hsim, hr⟩ := packObjects_simulates g fresh ok g' fresh' ⟨hnd, hroot, hun⟩ h
  exact renaming_preserves_unfold g' g φ hsim hr fuel

/-- the same for a graph as `Graph::from_objects` builds it (no cached parents yet): the fresh ids
only have to avoid the root, the object ids and the link targets. -/
theorem pack_preserves_unfold_fromObjects (objs : Map Obj) (root : Nat) (g' : Graph) (fresh fresh' : List Nat)
    (ok : Bool) (hnd : fresh.Nodup) (hroot : root ∉ fresh)
    (hk : ∀ kv ∈ objs, kv.1 ∉ fresh ∧ ∀ l ∈ kv.2.links, l.target ∉ fresh)
    (h : packObjects (Graph.fromObjects objs root) fresh = some (ok, g', fresh')) (fuel : Nat) :
    unfold g' fuel g'.root = unfold (Graph.fromObjects objs root) fuel root := by
  obtain ⟨φ, hsim, hr⟩ := packObjects_simulates _ fresh ok g' fresh'
    (freshFor_fromObjects objs root fresh hnd hroot hk) h
  exact renaming_preserves_unfold g' _ φ hsim hr fuel

/-- non-vacuity: 0 ═32⇒ 1 (65 535 bytes) → 2 ← 0 (16-bit): `pack_objects` succeeds only by duplicating
object 2 (copy 3, drawn from the supply `[3, 4]`) for the 32-bit sub-space, and re-points the link of 1. -/
example :
    let g := Graph.fromObjects [(0, ⟨10, [], [⟨0, 4, 1, 0⟩, ⟨4, 2, 2, 0⟩]⟩), (1, ⟨65535, [], [⟨0, 2, 2, 0⟩]⟩),
      (2, ⟨10, [], []⟩)] 0
    (packObjects g [3, 4]).map (fun r => (r.1, r.2.1.objects.keys, (r.2.1.obj 1).links.map (·.target), r.2.2))
      = some (true, [0, 1, 2, 3], [3], [4]) := by
  decide

/-- non-vacuity: 0→{1,2}, 1→2 with 2 duplicated as 3 for the link from 1 (the shape of graph.rs's
`duplicate_shared_root_subgraph`); `φ 3 = 2` is a simulation and the unfoldings agree. -/
example :
    let g : Graph := Graph.fromObjects [(0, ⟨4, [0, 0, 0, 0], [⟨0, 2, 1, 0⟩, ⟨2, 2, 2, 0⟩]⟩),
      (1, ⟨2, [0, 0], [⟨0, 2, 2, 0⟩]⟩), (2, ⟨1, [7], []⟩)] 0
    let g' : Graph := Graph.fromObjects [(0, ⟨4, [0, 0, 0, 0], [⟨0, 2, 1, 0⟩, ⟨2, 2, 2, 0⟩]⟩),
      (1, ⟨2, [0, 0], [⟨0, 2, 3, 0⟩]⟩), (2, ⟨1, [7], []⟩), (3, ⟨1, [7], []⟩)] 0
    unfold g' 3 0 = unfold g 3 0 := by
  rfl

/-! ### end to end, at full strength: the bytes are the INPUT graph -/

/-- **Serializing any graph that simulates `g` yields bytes that read as `g`.**  If `g'` simulates `g`
under a renaming `φ` that maps root to root, its order starts with its root and is closed under
links, and `serialize g'` returns `out`, then a reader guided by the shapes of `g`'s objects sees at
offset 0 the unfolding of `g` from its root, and every object reachable in `g` is represented
somewhere in `out` (byte-for-byte copy outside its link fields, every stored offset fits its width,
and a reader starting there sees the unfolding of `g` from that object). -/
theorem serialized_simulation_reads_as_input (g g' : Graph) (φ : Nat → Nat) (out : List Nat)
    (hsim : Simulates g' g φ) (hr : φ g'.root = g.root)
    (hwf : ∀ id o, g.objects.find? id = some o → ObjWF o)
    (hsorted : SortedOut g') (hs : serialize g' = some out) :
    (∀ fuel, readBack out g fuel 0 g.root = unfold g fuel g.root) ∧
    (∀ x, Reach g g.root x → ∃ hd, CopyAt out hd (g.obj x) ∧
      (∀ l ∈ (g.obj x).links, readOffset out hd l ≤ maxValue l.width) ∧
      ∀ fuel, readBack out g fuel hd x = unfold g fuel x) := by
  have hshape : ∀ x', (g'.obj x').bytes = (g.obj (φ x')).bytes ∧ fieldsOf (g'.obj x') = fieldsOf (g.obj (φ x')) :=
    fun x' => ⟨(hsim x').1, fields_of_shape _ _ φ (hsim x').2⟩
  have hwf' : ∀ id o, g'.objects.find? id = some o → ObjWF o := by
    intro id o ho
    rw [← obj_of_find ho]
    exact objWF_shape _ _ (hshape id).1 (hshape id).2 (objWF_obj g hwf _)
  have hsound := (serialize_sound g' out hwf' hs).2
  have hread := readBack_eq_unfold g' out hwf' hs
  obtain ⟨⟨tail, ht⟩, hclosed⟩ := hsorted
  have hreach : ∀ x, Reach g' g'.root x → x ∈ g'.order :=
    fun x hx => reach_mem g' g'.order g'.root (by rw [ht]; exact List.mem_cons_self) hclosed x hx
  have hview : ∀ x' hd, (x', hd) ∈ placements g' g'.order 0 → ∀ fuel,
      readBack out g fuel hd (φ x') = unfold g fuel (φ x') := by
    intro x' hd hm fuel
    rw [← readBack_simulation out g' g φ hsim fuel hd x', hread fuel x' hd hm, unfold_simulation g' g φ hsim fuel x']
  refine ⟨?_, ?_⟩
  · intro fuel
    rw [← hr]
    exact hview g'.root 0 (by rw [ht]; simp [placements]) fuel
  · intro x hx
    rw [← hr] at hx
    obtain ⟨x', hx', hφ⟩ := reach_lift g' g φ hsim g'.root x hx
    obtain ⟨hd, hm⟩ := order_mem_placements g' g'.order 0 x' (hreach x' hx')
    obtain ⟨o, ho, hcopy, hlinks⟩ := hsound x' hd hm
    have hobj := obj_of_find ho
    subst hφ
    refine ⟨hd, ?_, ?_, hview x' hd hm⟩
    · rw [← hobj] at hcopy
      exact copyAt_shape out hd _ _ (hshape x').1 (hshape x').2 hcopy
    · intro l hl
      obtain ⟨l', hl', h1, h2, _⟩ := mem_fields _ _ (hshape x').2.symm l hl
      rw [hobj] at hl'
      obtain ⟨_, _, _, _, _, hfit, _⟩ := hlinks l' hl'
      have : readOffset out hd l = readOffset out hd l' := by unfold readOffset; rw [h1, h2]
      rw [this, ← h2]
      exact hfit

/-- **End to end.**  If `dump` (= `dump_table` after `make_graph`: `pack_objects`, then `serialize`
only on success) returns bytes `out` for an input graph `g` whose objects are as `TableData` builds
them, then — whatever reordering, space assignment, subgraph duplication, id re-mapping, link
re-pointing and orphan removal the packer went through —
* a reader that starts at offset 0 with the root and follows every offset (big-endian, with its width,
  relative to its base `position + adjustment`), guided by the shapes of the *input* objects, sees
  exactly the unfolding of the *input* graph from its root, to every depth;
* every object reachable from the root in the input graph is represented: there is a position holding
  a byte-for-byte copy of it (outside its link fields), every offset stored there fits its width, and
  a reader starting there sees exactly the unfolding of the input graph from that object.
Duplication is invisible, nothing reachable is lost, no stored offset exceeds its width. -/
theorem dump_end_to_end (g : Graph) (fresh : List Nat) (out : List Nat) (hn : 1 < g.nodes.length)
    (hnd : fresh.Nodup) (hroot : g.root ∉ fresh)
    (hun : ∀ n ∈ fresh, g.objects.find? n = none ∧ (∀ x, ∀ l ∈ (g.obj x).links, l.target ≠ n) ∧
      (∀ x, ∀ p ∈ (g.node x).parents, p.1 ≠ n))
    (hwf : ∀ id o, g.objects.find? id = some o → ObjWF o)
    (h : dump g fresh = some (some out)) :
    (∀ fuel, readBack out g fuel 0 g.root = unfold g fuel g.root) ∧
    (∀ x, Reach g g.root x → ∃ hd, CopyAt out hd (g.obj x) ∧
      (∀ l ∈ (g.obj x).links, readOffset out hd l ≤ maxValue l.width) ∧
      ∀ fuel, readBack out g fuel hd x = unfold g fuel x) := by
  obtain ⟨g', fresh', hp, _, hs⟩ := dump_bytes_only_if_gate g fresh out h
  obtain ⟨φ, hsim, hr⟩ := packObjects_simulates g fresh true g' fresh' ⟨hnd, hroot, hun⟩ hp
  exact serialized_simulation_reads_as_input g g' φ out hsim hr hwf (packObjects_sortedOut g g' fresh fresh' hn hp) hs

/-- non-vacuity of `dump_end_to_end`: all hypotheses hold for the two-object graph above -/
example :
    let g := Graph.fromObjects [(0, ⟨2, [0, 0], [⟨0, 2, 1, 0⟩]⟩), (1, ⟨1, [9], []⟩)] 0
    ∀ fuel, readBack [0, 2, 9] g fuel 0 0 = unfold g fuel 0 := by
  intro g
  refine (dump_end_to_end g [] [0, 2, 9] (by decide) (by simp) (by simp) (by simp) ?_ (by decide)).1
  intro id o ho
  have hm := Map.find?_mem _ _ _ ho
  have : (id, o) = (0, ⟨2, [0, 0], [⟨0, 2, 1, 0⟩]⟩) ∨ (id, o) = (1, ⟨1, [9], []⟩) := by
    simpa [g, Graph.fromObjects] using hm
  rcases this with h | h <;> (simp only [Prod.mk.injEq] at h; obtain ⟨_, rfl⟩ := h; constructor <;> simp)

/-! ### extension promotion (typed layer) -/

/-- **Typed `pack_objects` (with `try_promoting_subtables`) reports success only through the gate**,
whatever lookups the selection heuristic picks. -/
theorem packWith_success_passes_gate (sel : TGraph → List Nat → Nat → Option (List Nat)) (tg tg' : TGraph)
    (fresh fresh' : List Nat) (h : packObjectsWith sel tg fresh = some (true, tg', fresh')) : NoOverflow tg'.g := by
  unfold packObjectsWith at h
  simp only [Option.bind_eq_bind, Option.bind_eq_some_iff] at h
  obtain ⟨⟨ok, g1⟩, hb, h⟩ := h
  cases ok with
  | true =>
    simp only [↓reduceIte, Option.some.injEq, Prod.mk.injEq, true_and] at h
    obtain ⟨rfl, rfl⟩ := h
    exact (hasOverflows_false_iff _).mp (basicSort_gate tg.g g1 hb)
  | false =>
    simp only [Bool.false_eq_true, ↓reduceIte, Option.bind_eq_some_iff] at h
    obtain ⟨⟨tg2, fr2⟩, hpro, ⟨ok3, g3, fr3⟩, htail, h⟩ := h
    simp only [Option.some.injEq, Prod.mk.injEq] at h
    obtain ⟨rfl, rfl, rfl⟩ := h
    rcases packTail_gate tg2.g g3 fr2 fr3 htail with h1 | h1
    · exact (hasOverflows_false_iff _).mp h1
    · exact findOverflows_nil _ h1

/-- **Extension promotion preserves every lookup as a reader sees it, for ANY selection.**
`actually_promote_subtables` applied to an arbitrary list `sel` of lookups (the result of
`select_promotions_hb` or anything else): whenever it returns (no panic), for every GPOS/GSUB lookup
`id` of the input — promoted or not — the reader's view `lookupView` is unchanged: same table
(extension type 9 / 7), same bytes after the lookup-type field, and per subtable offset the same
(position, width, adjustment), the same *effective* lookup type and the same subtable unfolding,
where a lookup of the extension type is looked through: each of its offsets leads to an 8-byte
`{format 1, extensionLookupType, Offset32}` object whose type and 32-bit offset are followed.  Objects
that are not lookups are untouched; the root is unchanged.  Hypotheses: fresh ids distinct and unused;
typed ids are objects; lookup types fit `u16`; nothing below a lookup's subtable offsets is itself a
lookup (true of every GPOS/GSUB: lookups are only referenced from the LookupList). -/
theorem promotion_preserves_lookups (tg tg' : TGraph) (sel fresh fresh' : List Nat)
    (hnd : fresh.Nodup)
    (hun : ∀ n ∈ fresh, tg.g.objects.find? n = none ∧ (∀ x, ∀ l ∈ (tg.g.obj x).links, l.target ≠ n) ∧
      (∀ x, ∀ p ∈ (tg.g.node x).parents, p.1 ≠ n))
    (htyped : ∀ x, tg.typeOf x ≠ TType.other → tg.g.objects.find? x ≠ none)
    (hu16 : ∀ x r, (tg.typeOf x).raw? = some r → r < 65536)
    (hsub : ∀ id, tg.typeOf id ≠ TType.other → ∀ l ∈ (tg.g.obj id).links, ∀ y, Reach tg.g l.target y →
      tg.typeOf y = TType.other)
    (h : actuallyPromote tg sel fresh = some (tg', fresh')) :
    (∀ id fuel, tg.typeOf id ≠ TType.other → lookupView tg' fuel id = lookupView tg fuel id) ∧
    (∀ x, tg.typeOf x = TType.other → x ∉ fresh → tg'.g.obj x = tg.g.obj x) ∧
    tg'.g.root = tg.g.root :=
  let r := promote_preserves_views tg tg' sel fresh fresh' ⟨hnd, hun, htyped⟩ hu16 hsub h
  ⟨r.1, r.2.1, r.2.2.1⟩

/-- **End to end with promotion, for ANY selection heuristic `sel`.**  If the typed `dump`
(`basic_sort`, on failure `try_promoting_subtables` with the lookups `sel` picks, then space
assignment / isolation / duplication as before, `serialize` only on success) returns bytes `out`, then
there is a graph `tgP` — the input after promotion — such that every lookup of the input has in `tgP`
the same reader's view through extension indirection, every non-lookup object is unchanged, the root
is the same, and `out` reads back (offset 0 = root, every offset followed with its width and base)
as the unfolding of `tgP`; every object reachable in `tgP` is represented and every stored offset
fits its width. -/
theorem dumpWith_end_to_end (sel : TGraph → List Nat → Nat → Option (List Nat)) (tg : TGraph)
    (fresh : List Nat) (out : List Nat) (hn : 1 < tg.g.nodes.length)
    (hnd : fresh.Nodup) (hroot : tg.g.root ∉ fresh)
    (hun : ∀ n ∈ fresh, tg.g.objects.find? n = none ∧ (∀ x, ∀ l ∈ (tg.g.obj x).links, l.target ≠ n) ∧
      (∀ x, ∀ p ∈ (tg.g.node x).parents, p.1 ≠ n))
    (htyped : ∀ x, tg.typeOf x ≠ TType.other → tg.g.objects.find? x ≠ none)
    (hu16 : ∀ x r, (tg.typeOf x).raw? = some r → r < 65536)
    (hsub : ∀ id, tg.typeOf id ≠ TType.other → ∀ l ∈ (tg.g.obj id).links, ∀ y, Reach tg.g l.target y →
      tg.typeOf y = TType.other)
    (hwf : ∀ id o, tg.g.objects.find? id = some o → ObjWF o)
    (h : dumpWith sel tg fresh = some (some out)) :
    ∃ tgP : TGraph,
      (∀ id fuel, tg.typeOf id ≠ TType.other → lookupView tgP fuel id = lookupView tg fuel id) ∧
      (∀ x, tg.typeOf x = TType.other → x ∉ fresh → tgP.g.obj x = tg.g.obj x) ∧
      tgP.g.root = tg.g.root ∧
      (∀ fuel, readBack out tgP.g fuel 0 tgP.g.root = unfold tgP.g fuel tgP.g.root) ∧
      (∀ x, Reach tgP.g tgP.g.root x → ∃ hd, CopyAt out hd (tgP.g.obj x) ∧
        (∀ l ∈ (tgP.g.obj x).links, readOffset out hd l ≤ maxValue l.width) ∧
        ∀ fuel, readBack out tgP.g fuel hd x = unfold tgP.g fuel x) := by
  unfold dumpWith at h
  split at h
  · simp at h
  · simp at h
  · rename_i tgF frF hp
    split at h
    · simp at h
    · rename_i out' hs
      simp only [Option.some.injEq] at h
      subst h
      unfold packObjectsWith at hp
      simp only [Option.bind_eq_bind, Option.bind_eq_some_iff] at hp
      obtain ⟨⟨ok, g1⟩, hb, hp⟩ := hp
      obtain ⟨ho1, hr1⟩ := basicSort_objects tg.g g1 ok hb
      have hwf1 : ∀ id o, g1.objects.find? id = some o → ObjWF o := by rw [ho1]; exact hwf
      have hview1 : ∀ fuel id, lookupView ({ tg with g := g1 } : TGraph) fuel id = lookupView tg fuel id :=
        fun fuel id => lookupView_congr ({ tg with g := g1 } : TGraph) tg ho1 rfl fuel id
      cases ok with
      | true =>
        simp only [↓reduceIte, Option.some.injEq, Prod.mk.injEq, true_and] at hp
        obtain ⟨rfl, rfl⟩ := hp
        have hsim : Simulates g1 g1 id := fun x => ⟨rfl, rfl⟩
        obtain ⟨e1, e2⟩ := serialized_simulation_reads_as_input g1 g1 id out' hsim rfl hwf1
          (basicSort_sortedOut tg.g g1 true hn hb) hs
        exact ⟨{ tg with g := g1 }, fun id fuel _ => hview1 fuel id,
          fun x _ _ => obj_congr tg.g g1 ho1 x, hr1, e1, e2⟩
      | false =>
        simp only [Bool.false_eq_true, ↓reduceIte, Option.bind_eq_some_iff] at hp
        obtain ⟨⟨tg2, fr2⟩, hpro, ⟨ok3, g3, fr3⟩, htail, hp⟩ := hp
        simp only [Option.some.injEq, Prod.mk.injEq] at hp
        obtain ⟨rfl, rfl, rfl⟩ := hp
        -- the graph after sorting satisfies the hypotheses of the promotion theorem
        have hun1 : ∀ n ∈ fresh, Unused g1 n := fun n hn' => basicSort_unused tg.g g1 false hb n (hun n hn')
        have hh1 : PromoHyp ({ tg with g := g1 } : TGraph) fresh :=
          ⟨hnd, hun1, fun x hx => by show g1.objects.find? x ≠ none; rw [ho1]; exact htyped x hx⟩
        have hsub1 : ∀ id, ({ tg with g := g1 } : TGraph).typeOf id ≠ TType.other →
            ∀ l ∈ (({ tg with g := g1 } : TGraph).g.obj id).links, ∀ y,
              Reach ({ tg with g := g1 } : TGraph).g l.target y → ({ tg with g := g1 } : TGraph).typeOf y = TType.other := by
          intro id hty l hl y hy
          have hl' : l ∈ (tg.g.obj id).links := by rw [← obj_congr tg.g g1 ho1 id]; exact hl
          exact hsub id hty l hl' y (reach_congr tg.g g1 ho1 _ _ hy)
        -- promotion (or nothing promotable)
        have key : (∀ id fuel, tg.typeOf id ≠ TType.other → lookupView tg2 fuel id = lookupView tg fuel id) ∧
            (∀ x, tg.typeOf x = TType.other → x ∉ fresh → tg2.g.obj x = tg.g.obj x) ∧
            tg2.g.root = tg.g.root ∧ FreshFor tg2.g fr2 ∧
            (∀ id o, tg2.g.objects.find? id = some o → ObjWF o) := by
          unfold tryPromotingWith at hpro
          split at hpro
          · simp at hpro
          · simp only [Option.some.injEq, Prod.mk.injEq] at hpro
            obtain ⟨rfl, rfl⟩ := hpro
            exact ⟨fun id fuel _ => hview1 fuel id, fun x _ _ => obj_congr tg.g g1 ho1 x, hr1,
              ⟨hnd, by show g1.root ∉ fresh; rw [hr1]; exact hroot, hun1⟩, hwf1⟩
          · rename_i can parent hget
            split at hpro
            · simp at hpro
            · rename_i toPromote hsel
              obtain ⟨v1, v2, v3, _⟩ := promote_preserves_views _ tg2 toPromote fresh fr2 hh1 hu16 hsub1 hpro
              refine ⟨fun id fuel hty => (v1 id fuel hty).trans (hview1 fuel id),
                fun x hx hxf => (v2 x hx hxf).trans (obj_congr tg.g g1 ho1 x), v3.trans hr1, ?_, ?_⟩
              · exact promote_freshFor _ tg2 toPromote fresh fr2 hh1 (by show g1.root ∉ fresh; rw [hr1]; exact hroot) hpro
              · exact promote_wf _ tg2 toPromote fresh fr2 hh1 hwf1 hpro
        obtain ⟨k1, k2, k3, k4, k5⟩ := key
        obtain ⟨φ, hinv, hφ, _⟩ := pinv_packTail tg2.g tg2.g fr2 true g3 fr3 (pinv_init tg2.g fr2 k4) htail
        obtain ⟨e1, e2⟩ := serialized_simulation_reads_as_input tg2.g g3 φ out' hinv.sim hφ k5
          (packTail_sortedOut tg2.g g3 fr2 fr3 htail) hs
        exact ⟨tg2, k1, k2, k3, e1, e2⟩

/-- non-vacuity: GPOS-shaped graph 0 → LookupList 1 → lookup 2 (GPOS type 5, three subtables 3,4,5 with
40 000-byte coverage tables 6,7,8).  `basic_sort` overflows; the lookup is promoted (extension objects
9,10,11 from the supply, lookup type 5 → 9) and the typed `pack_objects` succeeds. -/
example :
    (packObjectsT ⟨Graph.fromObjects [(0, ⟨10, [], [⟨8, 2, 1, 0⟩]⟩), (1, ⟨4, [], [⟨0, 2, 2, 0⟩]⟩),
      (2, ⟨12, [], [⟨6, 2, 3, 0⟩, ⟨8, 2, 4, 0⟩, ⟨10, 2, 5, 0⟩]⟩),
      (3, ⟨10, [], [⟨0, 2, 6, 0⟩]⟩), (4, ⟨10, [], [⟨0, 2, 7, 0⟩]⟩), (5, ⟨10, [], [⟨0, 2, 8, 0⟩]⟩),
      (6, ⟨40000, [], []⟩), (7, ⟨40000, [], []⟩), (8, ⟨40000, [], []⟩)] 0, [(2, TType.gpos 5)]⟩
      [9, 10, 11, 12]).map (fun r => (r.1, decide (r.2.1.typeOf 2 = TType.gpos 9), (r.2.1.g.obj 2).links.map (·.target),
      decide (extView (r.2.1.g.obj 9) = some (5, 3)), r.2.2)) = some (true, true, [9, 10, 11], true, [12]) := by
  decide

/-! ### the gate ignores `adjustment`: conservative, never unsound -/

/-- `has_overflows` / `find_overflows` compare `position(child) − position(parent)` with the width
and ignore the link's `adjustment` (graph.rs "TODO: account for 'whence'"), whereas `serialize`
stores `position(child) − (position(parent) + adjustment)`.  For every link the gate accepts, the
stored value fits its width whatever the adjustment (adjustments are unsigned): the gate can only
refuse layouts that would fit, never accept one that does not. -/
theorem gate_ignoring_adjustment_is_conservative (g : Graph) (parent : Nat) (l : Link)
    (h : LinkFits g parent l) :
    (g.node l.target).position - ((g.node parent).position + l.adj) ≤ maxValue l.width := by
  unfold LinkFits at h
  omega

/-- …and it is strictly conservative: a 65 540-byte parent with a 16-bit link of adjustment 5 to the
object right behind it is refused although the stored offset 65 535 fits (sizes only). -/
example :
    let g := Graph.fromObjects [(0, ⟨65540, [], [⟨2, 2, 1, 5⟩]⟩), (1, ⟨3, [], []⟩)] 0
    (packObjects g []).map (·.1) = some false ∧ 65540 - (0 + 5) ≤ maxValue 2 := by
  decide

end FontVerif.C05
