/-
C05 — Offset packing is sound: every offset resolves to its target or packing fails.
Property theorems only (helper lemmas live in Lemmas/GraphSer.lean, Lemmas/GraphSort.lean).
Model: Model/Graph.lean ⇄ write-fonts/src/graph.rs (Graph::serialize, pack_objects, basic_sort,
has_overflows, find_overflows, sort_kahn, sort_shortest_distance, assign_spaces_hb,
isolate_subgraph_hb, duplicate_subgraph, try_isolating_subgraphs), write-fonts/src/write.rs
(dump_table's gate).
-/
import FontVerif.Model.Graph
import FontVerif.Lemmas.GraphSer
import FontVerif.Lemmas.GraphPack
set_option linter.unusedVariables false
namespace FontVerif.C05
open FontVerif FontVerif.Graph

/-- What `TableData` guarantees for one object by construction (`add_offset` appends `len`
placeholder bytes at the current end of the buffer and records their position): link widths are
2, 3 or 4, each link field lies inside the object's bytes, and fields do not overlap. -/
def ObjWF (o : Obj) : Prop :=
  (∀ l ∈ o.links, (l.width = 2 ∨ l.width = 3 ∨ l.width = 4) ∧ l.pos + l.width ≤ o.bytes.length) ∧
  o.links.Pairwise Disjoint

/-- byte `k` of object `o` belongs to none of its link fields -/
def PlainByte (o : Obj) (k : Nat) : Prop := ∀ l ∈ o.links, ¬ (l.pos ≤ k ∧ k < l.pos + l.width)

/-- the offset a reader finds in the field of link `l` of an object placed at `hd` -/
def readOffset (out : List Nat) (hd : Nat) (l : Link) : Nat :=
  beValue ((out.drop (hd + l.pos)).take l.width)

/-- `out` holds at `hd` a copy of `o`: all bytes outside `o`'s own link fields are `o`'s -/
def CopyAt (out : List Nat) (hd : Nat) (o : Obj) : Prop :=
  hd + o.bytes.length ≤ out.length ∧
  ∀ k, k < o.bytes.length → PlainByte o k → out[hd + k]? = o.bytes[k]?

/-! ### (1) serialize is sound for every graph and every order it accepts -/

/-- **Soundness of `Graph::serialize`, all graphs, all orders.**  Whenever `serialize` returns
(i.e. none of its `expect`s / checked subtractions / slice bounds fires) on a graph whose objects
are well formed, then for *every* object `id` laid out at position `hd`:
* the output holds at `hd` a byte-for-byte copy of the object (outside its own link fields), and
* every link of it, read big-endian with its width at `hd + pos` and interpreted relative to its
  base `hd + adjustment`, is exactly the position `tpos` at which its target object is laid out
  (where, by the first bullet, a copy of the target sits), the stored value does not exceed the
  link's width, and the subtraction did not wrap.
No assumption on the order: not sorted, not duplicate free, not topological. -/
theorem serialize_sound (g : Graph) (out : List Nat)
    (hwf : ∀ id o, g.objects.find? id = some o → ObjWF o)
    (h : serialize g = some out) :
    out.length = (flat g g.order).length ∧
    ∀ id hd, (id, hd) ∈ placements g g.order 0 →
      ∃ o, g.objects.find? id = some o ∧ CopyAt out hd o ∧
        ∀ l ∈ o.links, ∃ tpos t, (l.target, tpos) ∈ placements g g.order 0 ∧
          g.objects.find? l.target = some t ∧ CopyAt out tpos t ∧
          readOffset out hd l ≤ maxValue l.width ∧
          hd + l.adj + readOffset out hd l = tpos := by
  unfold serialize at h
  split at h
  · simp at h
  · split at h
    · simp at h
    · rename_i offs out0 hlay
      obtain ⟨hout0, hfound, hoffs⟩ := layout_spec g g.order [] [] 0 offs out0 hlay
      simp only [List.nil_append] at hout0
      have hwf' : ∀ id ∈ g.order, (g.obj id).links.Pairwise Disjoint ∧
          ∀ l ∈ (g.obj id).links, l.pos + l.width ≤ (g.obj id).bytes.length := by
        intro id hid
        obtain ⟨o, ho⟩ := hfound id hid
        rw [obj_of_find ho]
        exact ⟨(hwf id o ho).2, fun l hl => ((hwf id o ho).1 l hl).2⟩
      obtain ⟨hlen, hframe, hres⟩ := patchAll_spec g offs g.order 0 out0 out h hwf'
      have hlen' : out.length = (flat g g.order).length := by rw [hlen, hout0]
      -- copies
      have hcopy : ∀ id hd, (id, hd) ∈ placements g g.order 0 → ∀ o, g.objects.find? id = some o →
          CopyAt out hd o := by
        intro id hd hm o ho
        have hobj := obj_of_find ho
        have hge := placements_ge g g.order 0 id hd hm
        rw [hobj] at hge
        refine ⟨by omega, ?_⟩
        intro k hk hplain
        rw [hframe (hd + k)]
        · rw [hout0]
          have := flat_getElem? g g.order 0 id hd k hm (by rw [hobj]; exact hk)
          rw [hobj] at this
          simpa using this
        · intro id2 hd2 hm2 l2 hl2
          obtain ⟨o2, ho2⟩ := hfound id2 (placements_mem_order g g.order 0 id2 hd2 hm2)
          have hobj2 := obj_of_find ho2
          rw [hobj2] at hl2
          have hin := ((hwf id2 o2 ho2).1 l2 hl2).2
          unfold inField
          rcases placements_disjoint g g.order 0 (id, hd) (id2, hd2) hm hm2 with heq | hd1 | hd1
          · simp only [Prod.mk.injEq] at heq
            obtain ⟨rfl, rfl⟩ := heq
            rw [ho] at ho2
            simp only [Option.some.injEq] at ho2
            subst ho2
            have := hplain l2 hl2
            omega
          · simp only [hobj] at hd1; omega
          · simp only [hobj2] at hd1; omega
      refine ⟨hlen', ?_⟩
      intro id hd hm
      obtain ⟨o, ho⟩ := hfound id (placements_mem_order g g.order 0 id hd hm)
      have hobj := obj_of_find ho
      refine ⟨o, ho, hcopy id hd hm o ho, ?_⟩
      intro l hl
      obtain ⟨abs, ha1, ha2, ha3, ha4⟩ := hres id hd hm l (by rw [hobj]; exact hl)
      have hplace : (l.target, abs) ∈ placements g g.order 0 := by
        rcases hoffs l.target abs ha1 with hc | hc
        · simp [Map.find?] at hc
        · exact hc
      obtain ⟨t, ht⟩ := hfound l.target (placements_mem_order g g.order 0 _ _ hplace)
      have hw := ((hwf id o ho).1 l hl).1
      have hfield : (out.drop (hd + l.pos)).take l.width = beBytes l.width (abs - (hd + l.adj)) :=
        field_eq out (hd + l.pos) l.width _ (beBytes_length _ _) ha4
      have hval : readOffset out hd l = abs - (hd + l.adj) := by
        unfold readOffset
        rw [hfield, beValue_beBytes _ _ hw ha3]
      refine ⟨abs, t, hplace, ht, hcopy _ _ hplace t ht, ?_, ?_⟩
      · rw [hval]; exact ha3
      · rw [hval]; omega

/-- non-vacuity: a root with a 16-bit link at byte 2 to a 3-byte leaf; the layout is root@0, leaf@4
and the field holds 0x0004. -/
example :
    let g : Graph := { Graph.fromObjects [(7, ⟨4, [1, 1, 0, 0], [⟨2, 2, 9, 0⟩]⟩), (9, ⟨3, [5, 6, 7], []⟩)] 7 with
                       order := [7, 9] }
    serialize g = some [1, 1, 0, 4, 5, 6, 7] ∧ placements g g.order 0 = [(7, 0), (9, 4)] ∧
      readOffset [1, 1, 0, 4, 5, 6, 7] 0 ⟨2, 2, 9, 0⟩ = 4 := by
  decide

/-- non-vacuity of the failure side: the same graph with a 65 536-byte gap cannot be serialized
(`u16::try_from(..).expect(..)` fires): the model returns `none`, not bytes. -/
example :
    let g : Graph := { Graph.fromObjects [(7, ⟨4, [1, 1, 0, 0], [⟨2, 2, 9, 65532⟩]⟩), (9, ⟨0, [], []⟩)] 7 with
                       order := [9, 7] }
    serialize g = none := by
  decide

/-! ### (4) success only through the gate; failure returns no bytes -/

/-- **`pack_objects` reports success only if its overflow gate passed on the graph it leaves
behind** — on every path (Kahn, shortest distance, after space assignment, after any number of
isolation rounds): every link of every object of the final graph has
`position(child) ≥ position(parent)` and `position(child) − position(parent) ≤ max(width)`. -/
theorem pack_success_passes_gate (g g' : Graph) (fresh fresh' : List Nat)
    (h : packObjects g fresh = some (true, g', fresh')) : NoOverflow g' := by
  rcases packObjects_gate g g' fresh fresh' h with h1 | h1
  · exact (hasOverflows_false_iff g').mp h1
  · exact findOverflows_nil g' h1

/-- The gate is exactly the stated predicate (both directions), for every graph and positions. -/
theorem gate_iff (g : Graph) : hasOverflows g = some false ↔ NoOverflow g := hasOverflows_false_iff g

/-- **Failure returns no bytes; bytes come only from a gated graph** (`dump_table`): if `dump`
yields bytes then `pack_objects` returned `true` on some final graph that passes the gate and the
bytes are `serialize` of that graph; if `pack_objects` returns `false` the result is the error. -/
theorem dump_bytes_only_if_gate (g : Graph) (fresh : List Nat) (out : List Nat)
    (h : dump g fresh = some (some out)) :
    ∃ g' fresh', packObjects g fresh = some (true, g', fresh') ∧ NoOverflow g' ∧ serialize g' = some out := by
  unfold dump at h
  split at h
  · simp at h
  · simp at h
  · rename_i g' fresh' hp
    split at h
    · simp at h
    · rename_i out' hs
      simp only [Option.some.injEq] at h
      subst h
      exact ⟨g', fresh', hp, pack_success_passes_gate g g' fresh fresh' hp, hs⟩

theorem dump_fail_no_bytes (g g' : Graph) (fresh fresh' : List Nat)
    (h : packObjects g fresh = some (false, g', fresh')) : dump g fresh = some none := by
  unfold dump; rw [h]

/-- **End to end**: bytes returned by `dump` satisfy the soundness conclusions of
`serialize_sound` for the final graph `g'` the packer arrived at. -/
theorem dump_sound (g : Graph) (fresh : List Nat) (out : List Nat)
    (h : dump g fresh = some (some out)) :
    ∃ g' fresh', packObjects g fresh = some (true, g', fresh') ∧
      ((∀ id o, g'.objects.find? id = some o → ObjWF o) →
        ∀ id hd, (id, hd) ∈ placements g' g'.order 0 →
          ∃ o, g'.objects.find? id = some o ∧ CopyAt out hd o ∧
            ∀ l ∈ o.links, ∃ tpos t, (l.target, tpos) ∈ placements g' g'.order 0 ∧
              g'.objects.find? l.target = some t ∧ CopyAt out tpos t ∧
              readOffset out hd l ≤ maxValue l.width ∧
              hd + l.adj + readOffset out hd l = tpos) := by
  obtain ⟨g', fresh', hp, _, hs⟩ := dump_bytes_only_if_gate g fresh out h
  exact ⟨g', fresh', hp, fun hwf => (serialize_sound g' out hwf hs).2⟩

/-- non-vacuity: a graph that packs (Kahn order works) -/
example :
    dump (Graph.fromObjects [(0, ⟨2, [0, 0], [⟨0, 2, 1, 0⟩]⟩), (1, ⟨1, [9], []⟩)] 0) [] = some (some [0, 2, 9]) := by
  decide

/-- non-vacuity: a graph that cannot be packed (a 16-bit link from a 70 000-byte object to its only
child; sizes only, the packer never looks at bytes) yields the error, not bytes -/
example :
    dump (Graph.fromObjects [(0, ⟨2, [], [⟨0, 2, 1, 0⟩]⟩), (1, ⟨70000, [], [⟨0, 2, 2, 0⟩]⟩), (2, ⟨1, [], []⟩)] 0) []
      = some none := by
  decide

end FontVerif.C05
