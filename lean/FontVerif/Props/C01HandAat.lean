/-
C01 (hand-written code) — termination, iteration bounds, in-range indices / slices and absence of arithmetic
traps for the models of Model/HandAat.lean ⇄ read-fonts/src/tables/aat.rs state tables (StateTable / ExtendedStateTable class / entry), kern.rs, ankr.rs / feat.rs / ltag.rs / trak.rs accessors, ift.rs patch-map header helpers.
Tied to the real functions by harness group `aats.model` (`ha.*` driver commands).

Hypotheses used throughout: `hb` — the table data is a byte string; `hl` — its length is a `usize`
(`MAXU` = 2^64 − 1); `…Read d = true / some n` — the generated `read` of the table succeeded (the
functions are methods of the successfully read table).  A result `R.trap` stands for a panic of the
overflow-checked profile (`unwrap` on `None`, index / slice out of range, unchecked `+` `*` overflow,
division by zero).
-/
import FontVerif.Model.HandAat
import FontVerif.Lemmas.ReadIter
import FontVerif.Lemmas.HandAat
set_option linter.unusedVariables false
set_option linter.unusedSimpArgs false
namespace FontVerif.C01HandAat
open FontVerif FontVerif.HandRead FontVerif.HandAat
open FontVerif.ReadIter (Out run items trapped)

/-! ## AAT lookups at byte level -/

/-- **the index both arms of the binary search produce is in range, whatever the keys**:
`match segments.binary_search_by(..) { Ok(ix) => ix, Err(ix) => ix.saturating_sub(1) }` on a non-empty
slice of ANY (unsorted, duplicated, hostile) keys is a valid index — `core::slice::binary_search_by`
(transcribed in Model/Layout.lean) never leaves `0..len`. -/
theorem bsearch_index_in_range (n : Nat) (cmpAt : Nat → Ordering) (hn : 0 < n) : bsIx n cmpAt < n :=
  bsIx_lt cmpAt hn

/-- a successful binary search returns an in-range index of an element that compares `Equal` -/
theorem bsearch_ok_in_range (n : Nat) (cmpAt : Nat → Ordering) (i : Nat)
    (h : Layout.binarySearchBy n cmpAt = .ok i) : i < n ∧ cmpAt i = .eq := bs_ok_lt h

/-- **`Lookup::read` + `Lookup::value::<T>` (= `TypedLookup`) never panic, and a value they return was
read from inside the table**: for every byte string, every lookup format (0, 2, 4, 6, 8, 10 — anything
else is `InvalidFormat`), `T` of 2 or 4 bytes and every glyph id: the result is `Ok` or an
`Err(ReadError)`; `Ok(v)` is a big-endian number of some `w` bytes at some `p` with
`p + w ≤ data.len()` (truncated to 16 bits by `T::from_u32` for a format 10 table read as `u16`).
The segment / entry index produced by the binary searches of formats 2 / 4 / 6 is in range for
unsorted keys, too; `&entries[ix]`, `&data[..n * size]`, `offset + (index - first) * size` and
`ix * unit_size` cannot trap. -/
theorem lookupValue_safe (d : List Nat) (size g : Nat) (hl : d.length ≤ MAXU) (hb : ∀ b ∈ d, b < 256)
    (hs : size = 2 ∨ size = 4) (hg : g < 65536) :
    lookupValue d size g ≠ .trap ∧ ∀ v, lookupValue d size g = .ok v → ReadsInside d v :=
  lookupValue_facts d size g hl hb hs hg

/-! ## legacy `StateTable` -/

/-- **`StateTable::class` is total and only indexes inside the class array**: for every glyph id the
result is `Ok` / `Err`, never a panic (`glyph_id - first_glyph` is `checked_sub`); `Ok(c)` for a glyph
other than `0xFFFF` means `first_glyph ≤ g`, `g - first_glyph < n_glyphs`, and `c` is the byte at
`class_table_offset + 4 + (g - first_glyph)`, an index below `data.len()`. -/
theorem stClass_total (d : List Nat) (g : Nat) (hr : stRead d = true) (hl : d.length ≤ MAXU) :
    stClass d g ≠ .trap ∧ ∀ c, stClass d g = .ok c →
      (g = 0xFFFF ∧ c = 2) ∨
      (beAt d (beAt d 2 2) 2 ≤ g ∧ g - beAt d (beAt d 2 2) 2 < beAt d (beAt d 2 2 + 2) 2 ∧
        beAt d 2 2 + 4 + (g - beAt d (beAt d 2 2) 2) < d.length ∧
        d[beAt d 2 2 + 4 + (g - beAt d (beAt d 2 2) 2)]? = some c) :=
  stClass_facts d g hr hl

/-- **`StateTable::entry` never traps and `Ok` means every array access was in range**: for every
`state: u16`, `class: u8`: `state * n_classes + class` (the `+` is unchecked), `entry_ix * 4`, the
`i32` subtraction / division of the `new_state` conversion cannot overflow or divide by zero
(`n_classes == 0` is answered with `MalformedData` first); when the result is `Ok((new_state, flags))`
the state-array byte was read at `state_array_offset + state * n_classes + class' < data.len()`
(`class'` = the class clamped to `OUT_OF_BOUNDS`), the 4-byte entry lies at
`entry_table_offset + entry_ix * 4 .. + 4 ≤ data.len()`, and `new_state ≤ 65535`. -/
theorem stEntry_safe (d : List Nat) (state cls : Nat) (hr : stRead d = true) (hl : d.length ≤ MAXU)
    (hb : ∀ b ∈ d, b < 256) (hs : state < 65536) (hc : cls < 256) :
    stEntry d state cls ≠ .trap ∧ ∀ ns fl, stEntry d state cls = .ok (ns, fl) →
      ns ≤ 65535 ∧ beAt d 0 2 ≠ 0 ∧
      ∃ eix, d[beAt d 4 2 + (state * beAt d 0 2 + (if cls ≥ beAt d 0 2 then 1 else cls))]? = some eix ∧
        beAt d 6 2 + eix * 4 + 4 ≤ d.length ∧ fl = beAt d (beAt d 6 2 + eix * 4 + 2) 2 :=
  stEntry_facts d state cls hr hl hb hs hc

/-- `StateEntry::<T>::read` succeeds only when the 4 header bytes and the whole payload fit, and
returns exactly those bytes (no alignment requirement: the payload is copied, /repo 4e41891) -/
theorem stateEntryRead_in_bounds (e : List Nat) (psize ns fl pl : Nat)
    (h : stateEntryRead e psize = .ok (ns, fl, pl)) :
    4 + psize ≤ e.length ∧ ns = beAt e 0 2 ∧ fl = beAt e 2 2 ∧ pl = beAt e 4 psize :=
  stateEntryRead_ok h

/-! ## `ExtendedStateTable` -/

/-- **`ExtendedStateTable::class` is total**: `Ok` / `Err` for every glyph id, and an `Ok` class other
than the `DELETED_GLYPH` answer for `0xFFFF` was read from inside the table (through the class lookup
table of any format). -/
theorem stxClass_total (d : List Nat) (g : Nat) (hr : stxRead d = true) (hl : d.length ≤ MAXU)
    (hb : ∀ b ∈ d, b < 256) (hg : g < 65536) :
    stxClass d g ≠ .trap ∧ ∀ c, stxClass d g = .ok c → (g = 0xFFFF ∧ c = 2) ∨ ReadsInside d c :=
  stxClass_facts d g hr hl hb hg

/-- **`ExtendedStateTable::<T>::entry` never traps and `Ok` means every access was in range**: the
unchecked `state as usize * n_classes + class` and `entry_ix * size_of::<StateEntry<T>>()` stay below
`usize::MAX` on 64-bit targets (`state`, `class`, `entry_ix` are `u16`, `n_classes` is `u32`, payload
types of at most 64 KiB); `Ok((new_state, flags, payload))` means the 16-bit state-array word lies at
`state_array_offset + 2·(state · n_classes + class') .. + 2 ≤ data.len()` and the entry — header and
payload — at `entry_table_offset + entry_ix · (4 + psize) .. + 4 + psize ≤ data.len()`; the three
results are exactly those bytes. -/
theorem stxEntry_safe (d : List Nat) (psize state cls : Nat) (hr : stxRead d = true) (hl : d.length ≤ MAXU)
    (hb : ∀ b ∈ d, b < 256) (hp : psize ≤ 65536) (hs : state < 65536) (hc : cls < 65536) :
    stxEntry d psize state cls ≠ .trap ∧ ∀ ns fl pl, stxEntry d psize state cls = .ok (ns, fl, pl) →
      ∃ eix, beAt d 8 4 + 2 * (state * beAt d 0 4 + (if cls ≥ beAt d 0 4 then 1 else cls)) + 2 ≤ d.length ∧
        eix = beAt d (beAt d 8 4 + 2 * (state * beAt d 0 4 + (if cls ≥ beAt d 0 4 then 1 else cls))) 2 ∧
        beAt d 12 4 + eix * (4 + psize) + 4 + psize ≤ d.length ∧
        ns = beAt d (beAt d 12 4 + eix * (4 + psize)) 2 ∧
        fl = beAt d (beAt d 12 4 + eix * (4 + psize) + 2) 2 ∧
        pl = beAt d (beAt d 12 4 + eix * (4 + psize) + 4) psize :=
  stxEntry_facts d psize state cls hr hl hb hp hs hc

/-! ## ankr / feat / ltag -/

/-- **`Ankr::anchor_points` never panics and the slice it returns lies inside the table**: for every
`GlyphId` (u32) the result is `Ok` / `Err`; `Ok` = `n` points starting at byte `p`, with
`p + 4·n ≤ data.len()`, `n` being the `num_points` word right in front of them. -/
theorem ankrPoints_safe (d : List Nat) (gid : Nat) (hr : ankrRead d = true) (hl : d.length ≤ MAXU)
    (hb : ∀ b ∈ d, b < 256) :
    ankrPoints d gid ≠ .trap ∧ ∀ p n, ankrPoints d gid = .ok (p, n) →
      gid ≤ 0xFFFF ∧ 4 ≤ p ∧ p + 4 * n ≤ d.length ∧ n = beAt d (p - 4) 4 :=
  ankrPoints_facts d gid hr hl hb

/-- **`Feat::find` only returns a record of the table with the requested feature code** — also for
unsorted / duplicated records: `Some(name)` is record `ix < feature_name_count`, lying inside the
data, whose `feature` field equals the argument. -/
theorem featFind_sound (d : List Nat) (n feature ix : Nat) (hr : featRead d = some n)
    (h : featFind d n feature = some ix) :
    ix < n ∧ 12 + (ix + 1) * 12 ≤ d.length ∧ beAt d (12 + ix * 12) 2 = feature :=
  featFind_facts d n feature ix hr h

/-- `FeatureName::default_setting_index` is a byte (the flag helpers are plain bit tests) -/
theorem featDefaultIndex_lt (flags : Nat) : featDefaultIndex flags < 256 := by
  unfold featDefaultIndex; split <;> omega

/-- **`Ltag::tag_indices` yields at most one item per range record, each a valid UTF-8 string inside
the table, and never traps** (`start + length` are two `u16`s): the iteration is bounded by
`num_tags ≤ (data.len() − 12) / 4`; every yielded `(index, start, length)` has `index < num_tags` and
`start + length ≤ data.len()`. -/
theorem ltagTags_bounded (d : List Nat) (n : Nat) (hr : ltagRead d = some n) (hl : d.length ≤ MAXU)
    (hb : ∀ b ∈ d, b < 256) :
    ∃ xs, ltagTags d n = .ok xs ∧ xs.length ≤ n ∧ 12 + n * 4 ≤ d.length ∧
      ∀ t ∈ xs, t.1 < n ∧ t.2.1 + t.2.2 ≤ d.length ∧ utf8Valid ((d.drop t.2.1).take t.2.2) = true :=
  ltagTags_facts d n hr hl hb

/-- `Ltag::index_for_tag` is total (`Some` index below `num_tags`, or `None`) -/
theorem ltagIndexFor_total (d : List Nat) (n : Nat) (tag : List Nat) (hr : ltagRead d = some n)
    (hl : d.length ≤ MAXU) (hb : ∀ b ∈ d, b < 256) :
    ∃ o, ltagIndexFor d n tag = .ok o ∧ ∀ i, o = some i → i < n := by
  obtain ⟨xs, h1, _, _, h4⟩ := ltagTags_facts d n hr hl hb
  unfold ltagIndexFor
  simp only [h1]
  refine ⟨_, rfl, fun i hi => ?_⟩
  cases hf : xs.find? (fun t => (d.drop t.2.1).take t.2.2 == tag) with
  | none => simp [hf] at hi
  | some t =>
    simp only [hf, Option.map_some, Option.some.injEq] at hi
    subst hi
    exact (h4 t (List.mem_of_find?_eq_some hf)).1

/-! ## IFT -/

/-- **`CompatibilityId::from_u32s` never indexes outside its arrays**: the nested `for i in 0..4`,
`for j in 0..4` loops write `data[i * 4 + j]` for exactly the 16 indices and produce the four words in
big-endian order. -/
theorem compatFromU32s_total (a b c e : Nat) :
    compatFromU32s [a, b, c, e] = some (beBytes 4 a ++ beBytes 4 b ++ beBytes 4 c ++ beBytes 4 e) :=
  compatFromU32s_eq a b c e

/-- `U8Or16::read_with_args` reads exactly `compute_size` (1 or 2) bytes from the front of the data -/
theorem u8or16Read_in_bounds (d : List Nat) (mei v : Nat) (h : u8or16Read d mei = some v) :
    (u8or16Size mei = 1 ∨ u8or16Size mei = 2) ∧ u8or16Size mei ≤ d.length ∧ v = beAt d 0 (u8or16Size mei) := by
  unfold u8or16Read at h
  obtain ⟨h1, h2⟩ := readAt_some h
  refine ⟨?_, by omega, h2⟩
  unfold u8or16Size; split <;> simp

/-- `PatchMapFormat1::entry_count` cannot overflow its `u32`, and `is_entry_applied` only answers `true`
from a byte inside the bitmap (which lies inside the table) -/
theorem f1_entry_helpers (d : List Nat) (h : F1Hdr) (hr : f1Read d = some h) (hb : ∀ b ∈ d, b < 256) :
    f1EntryCount h = some (h.maxEntry + 1) ∧
    ∀ i, f1IsEntryApplied d h i = true → i / 8 < h.bitmapLen ∧ 36 + i / 8 < d.length := by
  obtain ⟨hm, _, _, hfit⟩ := f1Read_some hr
  have hmb : h.maxEntry < 65536 := by rw [hm]; exact beAt_lt d hb 21 2
  refine ⟨?_, fun i hi => ?_⟩
  · unfold f1EntryCount
    have : h.maxEntry + 1 ≤ 4294967295 := by omega
    simp [this]
  · unfold f1IsEntryApplied PatchMap.isEntryApplied at hi
    cases hg : ((d.drop 36).take h.bitmapLen)[i / 8]? with
    | none => simp [hg] at hi
    | some b =>
      have := (List.getElem?_eq_some_iff.mp hg).1
      simp only [List.length_take, List.length_drop] at this
      omega

/-- **`gid_to_entry_iter` terminates within `glyph_count − first_mapped_glyph` trips, never traps, and
every item is in range**: when the glyph map cannot be read the iterator is empty; otherwise the
model's fuel `glyph_count + 2` suffices, the number of trips (items + skipped zero entries) is at most
`glyph_count − first_mapped_glyph`, which — one or two bytes per mapped glyph — is below the table
length; `self.gid += 1` stays far from `u32::MAX` and `cur_gid − first_mapped_glyph` never underflows;
each yielded `(gid, entry)` has `first_mapped_glyph ≤ gid < glyph_count`, `entry > 0`, read from inside
the `entry_index` array. -/
theorem gidToEntryIter_bounded (d : List Nat) (h : F1Hdr) (hr : f1Read d = some h) (hb : ∀ b ∈ d, b < 256) :
    (∀ e, f1GlyphMap d h = .error e → gidTrace d h = some []) ∧
    (∀ g, f1GlyphMap d h = .ok g →
      ∃ evs, gidTrace d h = some evs ∧ evs.length ≤ h.glyphCount - g.first ∧
        (h.glyphCount - g.first) * g.size + 2 ≤ d.length ∧ 1 ≤ g.size ∧
        trapped evs = false ∧ ∀ a ∈ items evs, GidItemOk g h.glyphCount a) :=
  gidTrace_facts d h hr hb

/-- **`FeatureMap::entry_records_size` is total**: the loop over the feature records makes
`feature_count` trips (six or eight bytes each, all inside the table), no `record?` fails, the
unchecked `num_bytes += count · field_width · 2` stays below 2^34, and the result is the sum over the
records' `entry_map_count`s. -/
theorem entryRecordsSize_total (sub : List Nat) (meiOwn meiArg n rs : Nat)
    (hr : featureMapRead sub meiOwn = .ok (n, rs)) (hl : sub.length ≤ MAXU) (hb : ∀ b ∈ sub, b < 256) :
    ∃ v, entryRecordsSize sub meiOwn meiArg = .ok v ∧ v ≤ n * (65535 * 4) ∧ n * rs + 2 ≤ sub.length ∧
      v = (List.range n).foldl (fun a i => a + recCount ((sub.drop 2).take (n * rs)) rs (u8or16Size meiOwn) i *
        (if meiArg < 256 then 1 else 2) * 2) 0 :=
  entryRecordsSize_facts sub meiOwn meiArg n rs hr hl hb

/-- … and it is the value the C19 decoder model (`PatchMap.entryRecordsSize`, Model/PatchMapDecode.lean)
computes on any parsed view `t` of the table whose feature records carry the `entry_map_count`s found in
the bytes. -/
theorem entryRecordsSize_matches_C19 (sub : List Nat) (meiOwn n rs : Nat) (t : PatchMap.F1Table)
    (hr : featureMapRead sub meiOwn = .ok (n, rs)) (hl : sub.length ≤ MAXU) (hb : ∀ b ∈ sub, b < 256)
    (hc : t.featRecs.map (·.count) =
      (List.range n).map (recCount ((sub.drop 2).take (n * rs)) rs (u8or16Size meiOwn))) :
    entryRecordsSize sub meiOwn t.maxEntry = .ok (PatchMap.entryRecordsSize t) := by
  obtain ⟨v, h1, _, _, h4⟩ := entryRecordsSize_facts sub meiOwn t.maxEntry n rs hr hl hb
  rw [h1, h4, entryRecordsSize_eq_C19 t _ hc, List.foldl_map]

/-- **`glyph_data_for_table` terminates within `glyph_count` items, never traps, and every glyph's
data lies inside the table** — for every `table_index: usize` (the start index is a saturating
product): the model's fuel `glyph_count + 2` suffices, at most `glyph_count ≤ (len − 5) / 2` items are
produced, and an `Ok((gid, data))` item is `data = table[start .. start + len]` with
`0 < start`, `start + len ≤ table.len()`. -/
theorem glyphDataForTable_bounded (d : List Nat) (wide : Bool) (h : GpHdr) (ti : Nat)
    (hr : gpRead d wide = some h) (hl : d.length ≤ MAXU) :
    ∃ evs, gdTrace d h ti = some evs ∧ evs.length ≤ h.gc ∧ 5 + h.gc * 2 ≤ d.length ∧
      trapped evs = false ∧ ∀ a ∈ items evs, GdItemOk d a :=
  gdTrace_facts d wide h ti hr hl

/-- **the first `Err` item ends the iteration**: a call of `GlyphDataIterator::next` that yields an
`Err` sets `failed`, and a failed iterator returns `None`. -/
theorem glyphData_error_is_last (d : List Nat) (wide : Bool) (h : GpHdr) (si : Nat) (s : GdSt)
    (hr : gpRead d wide = some h) (hl : d.length ≤ MAXU) :
    (∀ e, (gdStep d h si s).1 = .yield (.error e) → (gdStep d h si s).2.failed = true) ∧
    (s.failed = true → (gdStep d h si s).1 = .done) := by
  obtain ⟨_, _, _, h2⟩ := gpRead_some hr
  refine ⟨fun e he => ((gdStep_facts d h si s hl h2).2.2 _ he).2 ⟨e, rfl⟩, fun hf => ?_⟩
  unfold gdStep
  simp [hf]

/-! ## non-vacuity -/


example : stRead exState = true ∧ stClass exState 5 = .ok 3 ∧ stClass exState 7 = .err .oob ∧
    stClass exState 0xFFFF = .ok 2 ∧ stEntry exState 2 1 = .ok (2, 0x8114) ∧
    stEntry exState 3 0 = .ok (0, 0x8112) ∧ stEntry exState 9 0 = .err .oob := by decide +kernel

example : lookupValue exLookup6 2 2 = .ok 7 := by decide +kernel
example : lookupValue exLookup6 2 5 = .ok 3 := by decide +kernel
/-- key 9 is present (first record) but not found: the records are not sorted -/
example : lookupValue exLookup6 2 9 = .err .oob := by decide +kernel

/-- an extended table: n_classes 1, state array at 16, entries (2-byte payload) at 18 -/
example : stxEntry [0,0,0,1, 0,0,0,0, 0,0,0,16, 0,0,0,18, 0,0, 0,1,0,2,0,3] 2 0 0 = .ok (1, 2, 3) ∧
    stxEntry [0,0,0,1, 0,0,0,0, 0,0,0,16, 0,0,0,18, 0,0, 0,1,0,2,0,3] 2 1 0 = .err .oob ∧
    stxClass [0,0,0,1, 0,0,0,0, 0,0,0,16, 0,0,0,18, 0,0, 0,1,0,2,0,3] 7 = .err .null := by decide +kernel

/-- ltag with three tags, the middle one not UTF-8 (`C3` alone) -/
example : ltagRead [0,0,0,1, 0,0,0,0, 0,0,0,3, 0,24,0,2, 0,26,0,1, 0,27,0,2, 101,110, 0xC3, 115,114] = some 3 ∧
    ltagTags [0,0,0,1, 0,0,0,0, 0,0,0,3, 0,24,0,2, 0,26,0,1, 0,27,0,2, 101,110, 0xC3, 115,114] 3 =
      .ok [(0, 24, 2), (2, 27, 2)] := by decide +kernel

example : utf8Valid [0xE2, 0x82, 0xAC] = true ∧ utf8Valid [0xED, 0xA0, 0x80] = false ∧
    utf8Valid [0xC0, 0x80] = false ∧ utf8Valid [0xF4, 0x90, 0x80, 0x80] = false := by decide +kernel


example : (f1Read exF1).map (·.glyphCount) = some 5 ∧
    ((f1Read exF1).bind (gidTrace exF1)).map items = some [(2, 2), (4, 1)] ∧
    (f1Read exF1).map (fun h => [0, 1, 2, 3, 8].map (f1IsEntryApplied exF1 h)) =
      some [true, false, true, false, false] := by decide +kernel

/-- a feature map with two records (`max_entry_index` < 256: 6-byte records), counts 2 and 1 -/
example : entryRecordsSize [0,2, 108,105,103,97, 1, 2, 108,105,103,98, 3, 1, 9,9,9,9,9,9] 3 3 = .ok 6 ∧
    entryRecordsSize [0,2, 108,105,103,97, 1, 2, 108,105,103,98, 3, 1, 9,9,9,9,9,9] 3 256 = .ok 12 := by
  decide +kernel


example : ((gpRead exGp false).bind (fun h => gdTrace exGp h 0)).map (fun evs => (items evs).map Except.toOption) =
      some [some (5, 25, 2), some (9, 27, 1)] ∧
    ((gpRead exGp false).bind (fun h => gdTrace exGp h 1)).map (fun evs => (items evs).length) = some 0 ∧
    ((gpRead exGp false).bind (fun h => gdTrace exGp h MAXU)).map (fun evs => (items evs).length) = some 0 := by
  decide +kernel

example : compatFromU32s [1, 2, 3, 0x01020304] = some [0,0,0,1, 0,0,0,2, 0,0,0,3, 1,2,3,4] := by decide

end FontVerif.C01HandAat
