/-
C01 (hand-written code) — termination, iteration bounds, in-range indices / slices and absence of arithmetic
traps for the models of Model/HandAat.lean ⇄ read-fonts/src/tables/aat.rs state tables (StateTable / ExtendedStateTable class / entry), kern.rs, ankr.rs / feat.rs / ltag.rs / trak.rs accessors, ift.rs patch-map header helpers.
Tied to the real functions by harness group `aats.model` (`ha.*` driver commands).
-/
import FontVerif.Model.HandAat
import FontVerif.Lemmas.ReadIter
set_option linter.unusedVariables false
set_option linter.unusedSimpArgs false
namespace FontVerif.C01HandAat
open FontVerif FontVerif.HandRead FontVerif.HandAat
open FontVerif.ReadIter (Out run items trapped)

end FontVerif.C01HandAat
