/-
C02 — skrifa is total on hostile fonts: the autohinter's "long blue" scan terminates.

`compute_default_blues` (skrifa/src/outline/autohint/metrics/blues.rs) searches, for each blue-zone character, the
segment next to the extremum of the best contour with

    let mut hit = false;
    loop { …; advance last cyclically; … if last == segment_first { break; } continue; …
           if … { loop { advance last cyclically; … if last == segment_first { break; } } …; break; }
           if last == segment_first { break; } }

a port of FreeType's `do { … } while ( last != segment_first );` (aflatin.c).  In C `continue` jumps to the loop
test; in Rust it skips it, so EVERY `continue` must be preceded by its own `if last == segment_first { break; }`.
One was missing (fixed by /repo 1255bcd): a font whose best contour keeps the first point "too distant" made
the loop spin forever.

The model is NOT hand-written: `translate/c02_blues.py` re-extracts the block from blues.rs on every `./check C02`
and regenerates Gen/BluesScan.lean (`innerStep`, `outerStep`: one body execution of each loop; all data conditions
are oracle calls `o k tick`, data written to a control variable is a havoc `h k tick`; conditions and assignments
on `last` / `segment_first` / `best_contour.len()` are translated exactly).  The theorems below hold for EVERY
oracle and havoc, i.e. for every contour geometry, every threshold, every on/off-curve flag.  They go through the
generated definitions by `unfold` / `split` / `omega`, so renaming or re-arranging data expressions does not
disturb them, while dropping one of the exit tests, or changing how `last` advances, breaks them.
-/
import FontVerif.Gen.BluesScan
import FontVerif.Lemmas.LoopIter
namespace FontVerif.C02
open FontVerif.LoopIter FontVerif.LoopIterLemmas FontVerif.Gen.BluesScan FontVerif.FindLastContour
set_option linter.unusedVariables false

/-- every `continue` / end of body of the INNER loop is reached with `last` advanced cyclically and
`last ≠ segment_first`; one body execution is one tick -/
theorem blues_inner_step_advances (o : Nat → Nat → Bool) (h : Nat → Nat → Nat) (N : Nat) :
    Advances N 1 (innerStep o h) := by
  intro s hN hl hf
  unfold innerStep next
  simp only []
  repeat' split
  all_goals first
    | (left; refine ⟨_, rfl, ?_⟩; dsimp only; omega)
    | (right; refine ⟨_, rfl, ?_⟩; dsimp only; omega)
    | (exfalso; omega)  -- a `.trap` path: its underflow condition contradicts the guards in force
    | fail "inner loop of the long-blue scan (blues.rs): a `continue` / end-of-body path is reached without `last` advanced by one cyclically and tested by `if last == segment_first { break; }`, or a control subtraction (`len - 1`, `last -= 1`) can underflow"

/-- **The inner loop exits**: for every oracle / havoc and every state with both indices inside a non-empty contour,
the generated inner loop breaks within `n + 1` body executions (it never runs out of that fuel), with `last` still in
range, after at least one and at most `n` loop-body entries. -/
theorem blues_long_inner_loop_terminates (o : Nat → Nat → Bool) (h : Nat → Nat → Nat) (s : St)
    (hn : 0 < s.n) (hl : s.last < s.n) (hf : s.segFirst < s.n) :
    ∃ s', iter (innerStep o h) (s.n + 1) s = some s' ∧ s'.n = s.n ∧ s'.last < s.n ∧
      s.tick < s'.tick ∧ s'.tick ≤ s.tick + s.n := by
  have hd := dist_le s hf
  obtain ⟨s', h1, h2, h3, h4, h5⟩ :=
    iter_advances s.n 1 (innerStep o h) (blues_inner_step_advances o h s.n) (s.n + 1) s rfl hl hf (by omega)
  exact ⟨s', h1, h2, h3, h4, by omega⟩

/-- side conditions `index < n` on a state literal whose `last` may still be the un-split cyclic advance -/
local macro "ctl_arith" : tactic =>
  `(tactic| (dsimp only; first | omega | (split <;> omega) | (split <;> split <;> omega)))

/-- every `continue` / end of body of the OUTER loop is reached with `last` advanced cyclically and
`last ≠ segment_first`, and the nested loop never leaves the body stuck; one body execution is at most
`1 + n` ticks (itself plus the nested loop) -/
theorem blues_outer_step_advances (o : Nat → Nat → Bool) (h : Nat → Nat → Nat) (N : Nat) :
    Advances N (N + 1) (outerStep o h) := by
  intro s hN hl hf
  unfold outerStep next
  simp only []
  repeat' split
  all_goals first
    | (left; refine ⟨_, rfl, ?_⟩; dsimp only; omega)
    | (right; refine ⟨_, rfl, ?_⟩; dsimp only; omega)
    | (exfalso; omega)
    | (exfalso
       exact iter_none_absurd 1 _ (blues_inner_step_advances o h) _ _ ‹iter _ _ _ = none› rfl (by ctl_arith) (by ctl_arith))
    | (have hr := iter_some_result 1 _ (blues_inner_step_advances o h) _ _ _ ‹iter _ _ _ = some _› rfl (by ctl_arith) (by ctl_arith)
       left; refine ⟨_, rfl, ?_⟩; dsimp only at hr ⊢; omega)
    | fail "outer loop of the long-blue scan (blues.rs): a `continue` / end-of-body path is reached without `last` advanced by one cyclically and tested by `if last == segment_first { break; }`, or a control subtraction (`len - 1`, `last -= 1`) can underflow"

/-- the outer body never reports a stuck nested loop -/
theorem blues_long_outer_step_not_stuck (o : Nat → Nat → Bool) (h : Nat → Nat → Nat) (s : St)
    (hn : 0 < s.n) (hl : s.last < s.n) (hf : s.segFirst < s.n) : outerStep o h s ≠ .stuck := by
  rcases blues_outer_step_advances o h s.n s rfl hl hf with ⟨s', hs, _⟩ | ⟨s', hs, _⟩ <;> simp [hs]

/-- **No control subtraction underflows**: every `usize` subtraction of the scan's index arithmetic
(`best_contour.len() - 1`, `last -= 1`) is modelled as checked (`.trap` when it would underflow); with a non-empty
contour and both indices inside it neither loop body traps — `last -= 1` is reached only under `last > 0`. -/
theorem blues_long_scan_no_underflow (o : Nat → Nat → Bool) (h : Nat → Nat → Nat) (s : St)
    (hn : 0 < s.n) (hl : s.last < s.n) (hf : s.segFirst < s.n) :
    innerStep o h s ≠ .trap ∧ outerStep o h s ≠ .trap := by
  constructor
  · rcases blues_inner_step_advances o h s.n s rfl hl hf with ⟨s', hs, _⟩ | ⟨s', hs, _⟩ <;> simp [hs]
  · rcases blues_outer_step_advances o h s.n s rfl hl hf with ⟨s', hs, _⟩ | ⟨s', hs, _⟩ <;> simp [hs]

/-- **The long-blue scan exits**: for every oracle / havoc (= every contour geometry) and every start state with
`last`, `segment_first` inside a non-empty contour of `n` points, the generated outer loop breaks within `n + 1`
executions of its body — it never runs out of that fuel and no execution leaves the nested loop stuck — and the
whole scan, nested loop included, enters a loop body at least once and at most `(n + 1) * (n + 2)` times. -/
theorem blues_long_scan_terminates (o : Nat → Nat → Bool) (h : Nat → Nat → Nat) (s : St)
    (hn : 0 < s.n) (hl : s.last < s.n) (hf : s.segFirst < s.n) :
    ∃ s', iter (outerStep o h) (s.n + 1) s = some s' ∧ s.tick < s'.tick ∧
      s'.tick ≤ s.tick + (s.n + 1) * (s.n + 2) := by
  have hd := dist_le s hf
  obtain ⟨s', h1, _, _, h4, h5⟩ :=
    iter_advances s.n (s.n + 1) (outerStep o h) (blues_outer_step_advances o h s.n) (s.n + 1) s rfl hl hf (by omega)
  refine ⟨s', h1, h4, ?_⟩
  have : dist s * (s.n + 1) ≤ (s.n + 1) * (s.n + 2) := Nat.mul_le_mul (by omega) (by omega)
  omega

/-- **The long-blue scan exits from every state the Rust enters it with.**  `compute_default_blues` starts the scan at
`last = segment_last`, and `segment_first` / `segment_last` are `best_point_ix` or an index yielded by
`cycle_backward(best_contour, best_point_ix)` / `cycle_forward(best_contour, best_point_ix)` (`(ix + start) % len`;
translate/c02_blues.py checks these producers and that nothing else writes the two variables before the scan).  So the
index hypotheses of `blues_long_scan_terminates` are discharged: only `best_point_ix < best_contour.len()`
(the postcondition of `UnscaledOutlineBuf::find_last_contour`) remains. -/
theorem blues_long_scan_terminates_from_entry (o : Nat → Nat → Bool) (h : Nat → Nat → Nat)
    (n bestPointIx segmentFirst segmentLast tick : Nat) (hbp : bestPointIx < n)
    (hsf : segmentFirst = bestPointIx ∨ ∃ ix, segmentFirst = cycleIx n bestPointIx ix)
    (hsl : segmentLast = bestPointIx ∨ ∃ ix, segmentLast = cycleIx n (bestPointIx + 1) ix) :
    ∃ s', iter (outerStep o h) (n + 1) ⟨segmentLast, segmentFirst, n, tick⟩ = some s' ∧
      s'.tick ≤ tick + (n + 1) * (n + 2) ∧
      (∀ s : St, s.n = n → s.last < n → s.segFirst < n → innerStep o h s ≠ .trap ∧ outerStep o h s ≠ .trap) := by
  have hn : 0 < n := by omega
  have h1 : segmentFirst < n := by
    rcases hsf with h | ⟨ix, h⟩
    · omega
    · rw [h]; exact cycleIx_lt _ _ _ hn
  have h2 : segmentLast < n := by
    rcases hsl with h | ⟨ix, h⟩
    · omega
    · rw [h]; exact cycleIx_lt _ _ _ hn
  obtain ⟨s', e1, _, e3⟩ := blues_long_scan_terminates o h ⟨segmentLast, segmentFirst, n, tick⟩ hn h2 h1
  exact ⟨s', e1, e3, fun s hs hl hf => blues_long_scan_no_underflow o h s (by omega) (by omega) (by omega)⟩

/-! ### `find_last_contour`: where `best_contour` and `best_point_ix` come from -/

/-- one iteration of `find_last_contour` keeps its invariant (in particular `point_ix - cur_contour.start` does not
underflow and the new `best_point` is inside `cur_contour`), for ARBITRARY `is_contour_start` flags and predicate -/
theorem find_last_contour_step_inv (isStart f : Nat → Bool) (len p : Nat) (st : FS) (hp : p < len)
    (hI : FlcInv isStart len p st) : FlcInv isStart len (p + 1) (step isStart f len st p) := by
  obtain ⟨h1, h2, h3, h4, h5, h6⟩ := hI
  unfold FlcInv step
  cases hs : isStart p <;> cases hfd : st.found <;> cases hf : f p <;>
    by_cases hk : (p + 1 < len → isStart (p + 1) = true) <;>
    simp_all <;> omega

theorem find_last_contour_loop_inv (isStart f : Nat → Bool) (len : Nat) :
    ∀ (k p : Nat) (st : FS), p + k = len → FlcInv isStart len p st →
      FlcInv isStart len len (FontVerif.FindLastContour.loop isStart f len p k st) := by
  intro k
  induction k with
  | zero => intro p st hp hI; simp at hp; subst hp; exact hI
  | succ k ih =>
    intro p st hp hI
    exact ih (p + 1) _ (by omega) (find_last_contour_step_inv isStart f len p st (by omega) hI)

/-- **Postcondition of `find_last_contour`**: for every outline (any number of points, ANY `is_contour_start`
flags — no well-formedness is needed) and every predicate, a returned `(best_contour, best_point)` has
`best_contour` a non-empty range inside `0..points.len()` and `best_point < best_contour.len()`. -/
theorem find_last_contour_post (isStart f : Nat → Bool) (len bS bE bP : Nat)
    (h : findLastContour isStart f len = some (bS, bE, bP)) : bS < bE ∧ bE ≤ len ∧ bP < bE - bS := by
  have hI := find_last_contour_loop_inv isStart f len len 0 ⟨0, 0, 0, 0, 0, false⟩ (by omega)
    (by unfold FlcInv; simp)
  unfold findLastContour at h
  obtain ⟨h1, h2, h3, h4, h5, h6⟩ := hI
  generalize FontVerif.FindLastContour.loop isStart f len 0 len ⟨0, 0, 0, 0, 0, false⟩ = st at *
  cases hfd : st.found <;> simp [hfd] at h h5 h6 <;>
    (obtain ⟨hlt, e1, e2, e3⟩ := h; subst e1 e2 e3; omega)

/-- **The long-blue scan exits, with NO index hypothesis left**: `best_contour` / `best_point_ix` are what
`find_last_contour` returned (`n = best_contour.len()`), `segment_first` / `segment_last` are `best_point_ix` or
indices yielded by `cycle_backward` / `cycle_forward` over `best_contour`; then the scan, started at
`last = segment_last`, exits within `n + 1` outer body executions, `(n+1)(n+2)` loop-body entries, and no control
subtraction underflows on the way.  (Both branches of `best_contour_and_point` in `compute_default_blues` call `outline.find_last_contour`;
translate/c02_blues.py checks that and the body of `find_last_contour` on every run.) -/
theorem blues_long_scan_terminates_from_find_last_contour (o : Nat → Nat → Bool) (h : Nat → Nat → Nat)
    (isStart f : Nat → Bool) (len bS bE bestPointIx segmentFirst segmentLast tick : Nat)
    (hflc : findLastContour isStart f len = some (bS, bE, bestPointIx))
    (hsf : segmentFirst = bestPointIx ∨ ∃ ix, segmentFirst = cycleIx (bE - bS) bestPointIx ix)
    (hsl : segmentLast = bestPointIx ∨ ∃ ix, segmentLast = cycleIx (bE - bS) (bestPointIx + 1) ix) :
    bE ≤ len ∧ 0 < bE - bS ∧
    ∃ s', iter (outerStep o h) (bE - bS + 1) ⟨segmentLast, segmentFirst, bE - bS, tick⟩ = some s' ∧
      s'.tick ≤ tick + (bE - bS + 1) * (bE - bS + 2) := by
  obtain ⟨h1, h2, h3⟩ := find_last_contour_post isStart f len bS bE bestPointIx hflc
  obtain ⟨s', e1, e2, _⟩ := blues_long_scan_terminates_from_entry o h (bE - bS) bestPointIx segmentFirst segmentLast tick
    h3 hsf hsl
  exact ⟨h2, by omega, s', e1, e2⟩

/-- find_last_contour on 2 contours (points 0-2 and 3-6), predicate true at points 1 and 5: contour 3..7, point 2 -/
example : findLastContour (fun i => i == 0 || i == 3) (fun i => i == 1 || i == 5) 7 = some (3, 7, 2) := by decide
/-- a single-point contour (4) is ignored; nothing found → None -/
example : findLastContour (fun i => i == 0 || i == 4) (fun _ => false) 5 = none := by decide
/-- flags need not be well formed: no contour start at point 0 -/
example : findLastContour (fun i => i == 2) (fun i => i == 1) 4 = some (0, 2, 1) := by decide

/-! ### Non-vacuity (the generated definitions, evaluated) -/

/-- no data condition ever holds: the outer loop walks once around a 5-point contour, 0 → 1 → 2 → 3, and
exits at `last = segment_first = 3` after 3 body executions -/
example : iterCount (outerStep (fun _ _ => false) (fun _ _ => 0)) 6 ⟨0, 3, 5, 0⟩ = some (⟨3, 3, 5, 3⟩, 3) := by decide

/-- the wrap-around: from `last = 3` to `segment_first = 1` in a 5-point contour, 3 → 4 → 0 → 1 -/
example : iterCount (outerStep (fun _ _ => false) (fun _ _ => 0)) 6 ⟨3, 1, 5, 0⟩ = some (⟨1, 1, 5, 3⟩, 3) := by decide

/-- the longest scan: `last = segment_first` at entry takes exactly `n` body executions (fuel `n` is enough,
fuel `n - 1` is not) -/
example : iterCount (outerStep (fun _ _ => true) (fun _ _ => 0)) 5 ⟨2, 2, 5, 0⟩ = some (⟨2, 2, 5, 5⟩, 5) := by decide
example : iter (outerStep (fun _ _ => true) (fun _ _ => 0)) 4 ⟨2, 2, 5, 0⟩ = none := by decide

/-- every data condition holds (the branch that lost its exit test before /repo 1255bcd: "vertical distance too
large" on every point): the scan still exits after one turn -/
example : iter (outerStep (fun _ _ => true) (fun _ _ => 0)) 6 ⟨0, 3, 5, 0⟩ = some ⟨3, 3, 5, 3⟩ := by decide

/-- the nested loop is entered: for some condition id `k` (the `is_cur_ltr == is_ltr && dx >= length_threshold`
test; found by search so that renumbering does not matter), the oracle "only condition `k` holds" makes ONE outer
body execution break after more than one tick, here after running the inner loop 3 times (ticks 2, 3, 4) up to
`last = segment_first`, and then writing the havoc value 7 to `segment_first` -/
example : ∃ k, k < numConds ∧
    outerStep (fun c _ => c == k) (fun _ _ => 7) ⟨0, 4, 5, 0⟩ = .brk ⟨4, 7, 5, 4⟩ := by decide

/-- the inner loop on its own: walks 1 → 2 → 3 → 4, four body executions -/
example : iterCount (innerStep (fun _ _ => false) (fun _ _ => 0)) 6 ⟨0, 4, 5, 0⟩ = some (⟨4, 4, 5, 4⟩, 4) := by decide

/-- the inner loop's data exit steps `last` back by one (cyclically: from 0 back to n - 1) -/
example : iter (innerStep (fun _ t => t == 2) (fun _ _ => 0)) 6 ⟨3, 2, 5, 0⟩ = some ⟨4, 2, 5, 2⟩ := by decide

/-- the trap is reachable in the model: an empty contour makes `best_contour.len() - 1` underflow -/
example : outerStep (fun _ _ => false) (fun _ _ => 0) ⟨0, 0, 0, 0⟩ = .trap := by decide

/-- the hypotheses matter: with `segment_first` outside the contour the scan never meets it
(the model reports out-of-fuel) -/
example : iter (outerStep (fun _ _ => false) (fun _ _ => 0)) 6 ⟨0, 9, 5, 0⟩ = none := by decide

end FontVerif.C02
