/-
C18 — IFT patches change exactly what they say, atomically and order-independently.
Property theorems only (helper lemmas live in Lemmas/Ift.lean).
Models: Model/TableKeyed.lean ⇄ table_keyed.rs + font_patch.rs,
        Model/GlyphKeyed.lean ⇄ glyph_keyed.rs (glyf/loca wired; gvar/CFF re-assembly NOT modelled),
        Model/PatchRound.lean ⇄ patch_group.rs `apply_next_patches_with_decoder`.
Every theorem quantifies over the decoder `dec`, which covers "a decoder that fails on its k-th call
with each error kind, for every k".
-/
import FontVerif.Model.PatchRound
import FontVerif.Lemmas.Ift
import FontVerif.Lemmas.IftGlyph
import FontVerif.Lemmas.IftOrder
import FontVerif.Lemmas.IftErrors
import FontVerif.Lemmas.IftPipeline
import FontVerif.Lemmas.IftGvar
set_option linter.unusedVariables false
namespace FontVerif.C18
open FontVerif FontVerif.Ift

/-! ## table keyed patches -/

/-- **table_keyed_spec.**  If `apply_table_keyed_patch` succeeds on ANY decoder, then every one of
the `count` entries of the container resolved (`es`), and for every tag `t` the FIRST entry naming
`t` decides: no entry ⇒ the table is the base font's, byte for byte (or still absent); DROP ⇒ absent;
REPLACE ⇒ it is `dec k stream none maxLen` for a decoder call `k` that was made; otherwise the base
table exists and it is `dec k stream (some base) maxLen`.  In particular success implies that every
decoder call needed returned `ok`: any decoder error ⇒ `Err`. -/
theorem table_keyed_spec (p : Bytes) (count : Nat) (font : Font) (dec : Decoder) (out : Font)
    (calls : Nat) (hu : UniqueTags font)
    (h : applyTableKeyedCore p count font dec = .ok (out, calls)) :
    ∃ es : List TKEntry, es.length = count ∧
      (∀ j (hj : j < es.length), tkEntryAt p j = .ok es[j]) ∧
      ∀ t, match es.find? (fun e => e.tag == t) with
        | none => out.get t = font.get t
        | some e =>
          if e.drop then out.get t = none
          else ∃ k r, k < calls ∧
            dec k e.stream (if e.replace then none else font.get t) e.maxLen = .ok r ∧
            out.get t = some r ∧ (e.replace = false → (font.get t).isSome) := by
  unfold applyTableKeyedCore at h
  split at h
  · cases h
  · split at h
    · cases h
    · rename_i acc hloop
      simp only [Except.ok.injEq, Prod.mk.injEq] at h
      obtain ⟨hout, hcalls⟩ := h
      obtain ⟨es, hlen, hent, hrun⟩ := tkLoop_ok p font dec count 0 _ acc hloop
      obtain ⟨_, hp, _, hspec⟩ := tkRun_spec font dec es _ acc hrun
      refine ⟨es, hlen, ?_, ?_⟩
      · intro j hj; simpa using hent j hj
      · intro t
        have hs := hspec t (by simp)
        have hpt := hp t
        simp only [List.not_mem_nil, false_or] at hpt
        have hcopy := copyUnprocessed_lookup font acc.processed acc.builder t hu
        subst hout hcalls
        unfold Font.get
        cases hfind : es.find? (fun e => e.tag == t) with
        | none =>
          -- no entry names t
          simp only [hfind] at hs ⊢
          have hnp : ¬ t ∈ acc.processed := by
            rw [hpt]
            intro hm
            simp only [List.mem_map] at hm
            obtain ⟨e, he, het⟩ := hm
            have := List.find?_eq_none.mp hfind e he
            simp [het] at this
          have hc : acc.processed.contains t = false := by simpa using hnp
          rw [hcopy, hc]
          simp only [Bool.false_eq_true, if_false]
          rw [hs]
          cases font.lookup t <;> simp [List.lookup]
        | some e =>
          simp only [hfind] at hs ⊢
          have hmem : e ∈ es := List.mem_of_find?_eq_some hfind
          have het : e.tag = t := by
            have := List.find?_some hfind
            simpa using this
          have hpin : t ∈ acc.processed := by
            rw [hpt]; simp only [List.mem_map]; exact ⟨e, hmem, het⟩
          have hc : acc.processed.contains t = true := by simpa using hpin
          rw [hcopy, hc]
          simp only [if_true]
          by_cases hd : e.drop = true
          · simp only [hd, if_true] at hs ⊢
            rw [hs]; rfl
          · simp only [hd, if_false, Bool.false_eq_true] at hs ⊢
            obtain ⟨k, r, _, h2, h3, h4, h5⟩ := hs
            exact ⟨k, r, h2, h3, h4, h5⟩

/-- non-vacuity: a two-entry patch (replace `tab1`, drop `tab2`) applied with an identity decoder -/
example :
    let p : Bytes := [0x69,0x66,0x74,0x6b, 0,0,0,0, 1,1,1,1,1,1,1,1,1,1,1,1,1,1,1,1, 0,2,
                      0,0,0,38, 0,0,0,49, 0,0,0,58,
                      0x74,0x61,0x62,0x31, 1, 0,0,0,9, 7,7,
                      0x74,0x61,0x62,0x32, 2, 0,0,0,0]
    let font : Font := [(0x74616231, [1]), (0x74616232, [2]), (0x74616233, [3])]
    applyTableKeyedCore p 2 font (fun _ s _ _ => .ok s)
      = .ok ([(0x74616231, [7,7]), (0x74616233, [3])], 1) := by rfl

/-- **compat_mismatch_is_error_before_decode.**  If the id of the mapping table named by the
`PatchInfo` differs from the id recorded in the info, or from the id in the patch header, the result
is `IncompatiblePatch` for EVERY decoder — the decoder is never consulted. -/
theorem compat_mismatch_is_error_before_decode (info : PatchInfo) (p : Bytes) (font : Font)
    (id : Bytes) (hid : fontCompatId font info.tag = .ok id)
    (hm : id ≠ info.compat ∨ ∃ c, tkRead p = .ok c ∧ sliceLen p 8 16 ≠ id) :
    ∀ dec : Decoder, applyTableKeyed info p font dec = .error .incompatiblePatch := by
  intro dec
  unfold applyTableKeyed
  rw [hid]
  simp only
  by_cases h1 : id = info.compat
  · rcases hm with hm | ⟨c, hc, hne⟩
    · exact absurd h1 hm
    · simp [hc, hne, ← h1]
  · simp [h1]

/-- a missing mapping table is an error before anything is parsed or decoded -/
theorem missing_mapping_table_is_error (info : PatchInfo) (p : Bytes) (font : Font)
    (h : font.get info.tag = none) :
    ∀ dec : Decoder, applyTableKeyed info p font dec
      = .error (.fontParsingFailed (.tableIsMissing info.tag)) := by
  intro dec
  unfold applyTableKeyed fontCompatId
  simp [h]

example : fontCompatId [(TAG_IFT, [2,0,0,0,0, 1,1,1,1,1,1,1,1,1,1,1,1,1,1,1,1, 3])] TAG_IFT
    = .ok [1,1,1,1,1,1,1,1,1,1,1,1,1,1,1,1] := by rfl

/-! ## one application round -/

/-- **round_atomic.**  Whatever the decoder does (any error kind at any call), if the round fails
the caller's status map is returned exactly as it was passed in. -/
theorem round_atomic (font : Font) (inv noninv : List PatchInfo) (st : StatusMap) (dec : Decoder)
    (e : PErr) (h : (applyRound font inv noninv st dec).1 = .error e) :
    (applyRound font inv noninv st dec).2 = st := by
  have hnon : ∀ e, (applyNonInvalidating font noninv st dec).1 = .error e →
      (applyNonInvalidating font noninv st dec).2 = st := by
    intro e he
    unfold applyNonInvalidating at he ⊢
    cases hacc : accumulate st noninv with
    | error x => rfl
    | ok acc =>
      simp only [hacc] at he ⊢
      by_cases hemp : acc.isEmpty = true
      · simp only [hemp, if_true]
      · simp only [hemp, if_false, Bool.false_eq_true] at he ⊢
        cases hap : applyGlyphKeyed acc font dec with
        | error x => rfl
        | ok nf => simp only [hap] at he; cases he
  unfold applyRound at h ⊢
  cases inv with
  | nil => exact hnon e h
  | cons patch rest =>
    simp only at h ⊢
    cases hl : st.lookup patch.uri with
    | none => rfl
    | some status =>
      cases status with
      | applied =>
        simp only [hl] at h ⊢
        exact hnon e h
      | pending data =>
        simp only [hl] at h ⊢
        cases hap : applyTableKeyed patch data font dec with
        | error x => rfl
        | ok r => simp only [hap] at h; cases h

/-- on success only statuses change, never the set of URIs the caller tracks -/
theorem round_keeps_keys (font : Font) (inv noninv : List PatchInfo) (st : StatusMap) (dec : Decoder) :
    (applyRound font inv noninv st dec).2.map (·.1) = st.map (·.1) := by
  have hset : ∀ (m : StatusMap) u, (m.setApplied u).map (·.1) = m.map (·.1) := by
    intro m u
    unfold StatusMap.setApplied
    rw [List.map_map]
    apply List.map_congr_left
    intro kv _
    simp only [Function.comp]
    split <;> rfl
  have hfold : ∀ (l : List PatchInfo) (m : StatusMap),
      (l.foldl (fun m info => m.setApplied info.uri) m).map (·.1) = m.map (·.1) := by
    intro l
    induction l with
    | nil => intro m; rfl
    | cons x xs ih => intro m; simp only [List.foldl_cons]; rw [ih, hset]
  have hnon : (applyNonInvalidating font noninv st dec).2.map (·.1) = st.map (·.1) := by
    unfold applyNonInvalidating
    split
    · rfl
    · split
      · rfl
      · split
        · rfl
        · exact hfold _ _
  unfold applyRound
  split
  · split
    · rfl
    · split
      · rfl
      · exact hset _ _
    · exact hnon
  · exact hnon

/-! ## glyph keyed patches (after decoding and parsing: `applyGlyphPatches`)

Vocabulary (Lemmas/IftSplice.lean, IftDedup.lean, IftGlyph.lean):
  `glyfAndLoca font`        the font's glyf bytes + loca offsets (short offsets already ×2), as the code reads them
  `glyphAt offsets data g`  the bytes between offsets g and g+1
  `firstWins tag gps g`     data of the FIRST patch of the list that lists gid g for table `tag`
  `padTo t d`               d followed by (len % divisor) zero bytes — the padding the code adds (short loca: to even)
  `numGlyphs font`          maxp.numGlyphs
  `bitAt d k`               bit k of a mapping table (byte k/8, LSB first), `bitsFor iftx infos` the patches' bit indices
-/

/-- **glyph_keyed_splice_spec.**  If `apply_glyph_keyed_patches` succeeds and some patch names `glyf`:
the base font had a readable glyf/loca, the new font's glyf/loca read back with the same offset
width, `numGlyphs + 1` offsets, first offset 0, last offset = glyf length, offsets ascending; every
gid listed by any patch is below `numGlyphs`; and for EVERY gid the new glyph bytes are the padded
data of the FIRST patch listing it, or — if no patch lists it — the old bytes unchanged. -/
theorem glyph_keyed_splice_spec (infos : List PatchInfo) (gps : List GlyphPatches) (font out : Font)
    (hu : UniqueTags font) (h : applyGlyphPatches infos gps font = .ok out)
    (hglyf : ∃ gp ∈ gps, TAG_glyf ∈ gp.tables) :
    ∃ a a', glyfAndLoca font = some a ∧ glyfAndLoca out = some a' ∧
      a'.offsetType = a.offsetType ∧
      a'.offsets.length = numGlyphs font + 1 ∧
      a'.offsets.getD 0 0 = 0 ∧ a'.offsets.getD (numGlyphs font) 0 = a'.data.length ∧
      a'.offsets.Pairwise (· ≤ ·) ∧
      (∀ g d, firstWins TAG_glyf gps g = some d → g < numGlyphs font) ∧
      ∀ g, g < numGlyphs font →
        glyphAt a'.offsets a'.data g =
          match firstWins TAG_glyf gps g with
          | some d => padTo a.offsetType d
          | none => glyphAt a.offsets a.data g := by
  obtain ⟨tags, ift, iftx, hn, htags, _, _, _, _, hother, _, hin, _⟩ :=
    applyGlyphPatches_char infos gps font out hu h
  have hmem : TAG_glyf ∈ tags := ((tableTagList_ok gps tags htags).2 _).mpr hglyf
  obtain ⟨a, repl, data, offs, ha, hd, hp, hg, hl⟩ := hin hmem
  obtain ⟨hsort, _, hlk⟩ := dedup_spec TAG_glyf gps repl hd
  have hhead := hother TAG_head (by decide) (by decide) (by decide) (by decide)
  have hrb := glyf_splice_readback font out a repl _ data offs ha hsort hp hg hl hhead
  obtain ⟨_, _, _, hle⟩ := patchOffsetArray_facts a repl _ hsort _ data offs hp
  have hlen : (chunks a a.offsetType repl (numGlyphs font - 1)).length = numGlyphs font := by
    rw [chunks_length]; omega
  refine ⟨a, _, ha, hrb, rfl, ?_, ?_, ?_, ?_, ?_, ?_⟩
  · simp only [newOffsets_length, hlen]
  · exact newOffsets_first _
  · have := newOffsets_last (chunks a a.offsetType repl (numGlyphs font - 1))
    rw [hlen] at this; exact this
  · exact newOffsets_pairwise _
  · intro g d hfw
    rw [← hlk g] at hfw
    have := hle _ (lookup_some_mem repl g d hfw)
    simp only at this; omega
  · intro g hg'
    simp only
    rw [newOffsets_glyphAt _ g (by rw [hlen]; exact hg'), chunks_getElem]
    unfold chunkFor
    rw [hlk g]
    cases firstWins TAG_glyf gps g <;> rfl

/-- non-vacuity: a 2-glyph short-loca font; two patches that DISAGREE on gid 1 — the first one wins,
its odd-length data is padded to even, glyph 0 comes from the second patch, bits 170 and 3 are set -/
example :
    let font : Font := [(TAG_IFT, [2,0,0,0,0, 1,1,1,1,1,1,1,1,1,1,1,1,1,1,1,1, 0]), (TAG_glyf, [1,2,3,4]),
      (TAG_head, List.replicate 54 0), (TAG_loca, [0,0, 0,1, 0,2]), (TAG_maxp, [0,0,0x50,0, 0,2])]
    let gp0 : GlyphPatches := { glyphCount := 1, tables := [TAG_glyf], gids := [1], offsets := [3, 6], raw := [9,9,9,7,7,7] }
    let gp1 : GlyphPatches := { glyphCount := 2, tables := [TAG_glyf], gids := [0, 1], offsets := [1, 2, 5], raw := [9,5,8,8,8] }
    let i0 : PatchInfo := { uri := "a", iftx := false, compat := [], bit := 170 }
    let i1 : PatchInfo := { uri := "b", iftx := false, compat := [], bit := 3 }
    applyGlyphPatches [i0, i1] [gp0, gp1] font =
      .ok [(TAG_IFT, [10,0,0,0,0, 1,1,1,1,1,1,1,1,1,1,1,1,1,1,1,1, 4]), (TAG_glyf, [5,0,7,7,7,0]),
        (TAG_head, List.replicate 54 0), (TAG_loca, [0,0, 0,1, 0,3]), (TAG_maxp, [0,0,0x50,0, 0,2])] := by rfl

/-- **glyph_keyed_other_tables_unchanged.**  On success every table other than the two mapping tables
and glyf/loca is the base font's, byte for byte (or still absent); glyf and loca too when no patch
names `glyf`.  (A patch naming gvar / CFF / CFF2 never succeeds in this model — those are listed as
not modelled.) -/
theorem glyph_keyed_other_tables_unchanged (infos : List PatchInfo) (gps : List GlyphPatches)
    (font out : Font) (hu : UniqueTags font) (h : applyGlyphPatches infos gps font = .ok out) :
    (∀ t, t ≠ TAG_IFT → t ≠ TAG_IFTX → t ≠ TAG_glyf → t ≠ TAG_loca → out.get t = font.get t) ∧
    ((¬ ∃ gp ∈ gps, TAG_glyf ∈ gp.tables) →
      out.get TAG_glyf = font.get TAG_glyf ∧ out.get TAG_loca = font.get TAG_loca) := by
  obtain ⟨tags, ift, iftx, hn, htags, _, _, _, _, hother, _, _, hout⟩ :=
    applyGlyphPatches_char infos gps font out hu h
  refine ⟨hother, ?_⟩
  intro hno
  exact hout (fun hm => hno (((tableTagList_ok gps tags htags).2 _).mp hm))

/-- **applied_bits_exact.**  On success, in each mapping table (IFT for `iftx = false`, IFTX for
`true`): the length is unchanged, every patch bit index is inside the table, and bit `k` is set
afterwards iff it was set before or it is the applied bit of one of the patches of this call —
exactly the patches' bits.  A mapping table the font lacks stays absent (and then no patch may refer
to it).  On error there is no output at all (`Except`), so no bit is set. -/
theorem applied_bits_exact (infos : List PatchInfo) (gps : List GlyphPatches) (font out : Font)
    (hu : UniqueTags font) (h : applyGlyphPatches infos gps font = .ok out) (iftx : Bool) :
    let tag := if iftx then TAG_IFTX else TAG_IFT
    match font.get tag with
    | none => bitsFor iftx infos = [] ∧ out.get tag = none
    | some d => ∃ d', out.get tag = some d' ∧ d'.length = d.length ∧
        (∀ b ∈ bitsFor iftx infos, b < 8 * d.length) ∧
        ∀ k, bitAt d' k = (bitAt d k || (bitsFor iftx infos).contains k) := by
  obtain ⟨tags, ift, iftx', _, _, hma, _, h1, h2, _⟩ := applyGlyphPatches_char infos gps font out hu h
  obtain ⟨m1, m2⟩ := markApplied_spec infos _ _ _ _ hma
  have key : ∀ (orig res : Option Bytes) (bits : List Nat), markedTable orig bits = some res →
      match orig with
      | none => bits = [] ∧ res = none
      | some d => ∃ d', res = some d' ∧ d'.length = d.length ∧ (∀ b ∈ bits, b < 8 * d.length) ∧
          ∀ k, bitAt d' k = (bitAt d k || bits.contains k) := by
    intro orig res bits hm
    cases orig with
    | none =>
      simp only [markedTable] at hm
      split at hm
      · rename_i hb; simp only [Option.some.injEq] at hm; exact ⟨hb, hm.symm⟩
      · cases hm
    | some d =>
      simp only [markedTable, Option.map_eq_some_iff] at hm
      obtain ⟨d', hs, hr⟩ := hm
      obtain ⟨s1, s2, s3⟩ := setBits_spec d d' bits hs
      exact ⟨d', hr.symm, s1, s2, s3⟩
  cases iftx with
  | false =>
    simp only [Bool.false_eq_true, if_false]
    have := key _ _ _ m1
    rw [h1]; exact this
  | true =>
    simp only [if_true]
    have := key _ _ _ m2
    rw [h2]; exact this

/-! ## order and grouping independence

`Agree tag gps` (Lemmas/IftOrder.lean): any two patches of the list that both carry data for a gid
(for table `tag`) carry the SAME data for it.  A patch = (its `PatchInfo`, its decoded `GlyphPatches`). -/

/-- **glyph_keyed_order_independent.**  For patches that agree on shared gids, applying ANY
permutation of the patch list succeeds iff the original order does, with identical tables (the whole
table directory, mapping tables with their applied bits included). -/
theorem glyph_keyed_order_independent (ps ps' : List (PatchInfo × GlyphPatches)) (font out : Font)
    (hperm : ps.Perm ps') (hagree : Agree TAG_glyf (ps.map (·.2)))
    (h : applyGlyphPatches (ps.map (·.1)) (ps.map (·.2)) font = .ok out) :
    applyGlyphPatches (ps'.map (·.1)) (ps'.map (·.2)) font = .ok out :=
  applyGlyphPatches_perm ps ps' font out hperm hagree h

/-- **glyph_keyed_grouping_independent.**  Sequential partition: applying the patches `ps1`, then
applying `ps2` to the resulting font, gives exactly the tables that applying `ps1 ++ ps2` in one call
gives (whenever the three applications succeed; patches agree on shared gids).  Together with
`glyph_keyed_order_independent` this covers every permutation and every two-way grouping; longer
groupings follow by iterating. -/
theorem glyph_keyed_grouping_independent (ps1 ps2 : List (PatchInfo × GlyphPatches))
    (font font1 out2 out12 : Font) (hu : UniqueTags font)
    (hagree : Agree TAG_glyf ((ps1 ++ ps2).map (·.2)))
    (h1 : applyGlyphPatches (ps1.map (·.1)) (ps1.map (·.2)) font = .ok font1)
    (h2 : applyGlyphPatches (ps2.map (·.1)) (ps2.map (·.2)) font1 = .ok out2)
    (h12 : applyGlyphPatches ((ps1 ++ ps2).map (·.1)) ((ps1 ++ ps2).map (·.2)) font = .ok out12) :
    out2 = out12 :=
  applyGlyphPatches_split ps1 ps2 font font1 out2 out12 hu hagree h1 h2 h12

/-- non-vacuity (and necessity of `Agree`): two AGREEING patches in both orders and split give the
same font -/
example :
    let font : Font := [(TAG_IFT, [2,0,0,0,0, 1,1,1,1,1,1,1,1,1,1,1,1,1,1,1,1, 0]), (TAG_glyf, [1,2,3,4]),
      (TAG_head, List.replicate 54 0), (TAG_loca, [0,0, 0,1, 0,2]), (TAG_maxp, [0,0,0x50,0, 0,2])]
    let gp0 : GlyphPatches := { glyphCount := 1, tables := [TAG_glyf], gids := [1], offsets := [3, 6], raw := [9,9,9,7,7,7] }
    let gp1 : GlyphPatches := { glyphCount := 2, tables := [TAG_glyf], gids := [0, 1], offsets := [1, 2, 5], raw := [9,5,7,7,7] }
    let i0 : PatchInfo := { uri := "a", iftx := false, compat := [], bit := 170 }
    let i1 : PatchInfo := { uri := "b", iftx := false, compat := [], bit := 3 }
    applyGlyphPatches [i0, i1] [gp0, gp1] font = applyGlyphPatches [i1, i0] [gp1, gp0] font ∧
    (match applyGlyphPatches [i1] [gp1] font with
     | .ok f1 => applyGlyphPatches [i0] [gp0] f1
     | .error e => .error e) = applyGlyphPatches [i0, i1] [gp0, gp1] font ∧
    (applyGlyphPatches [i0, i1] [gp0, gp1] font).toBool = true := by
  refine ⟨by rfl, by rfl, by rfl⟩

/-! ## error paths (an error carries no output: `Except`, so "not partial output" holds by type) -/

/-- **gid_beyond_maxp_is_error.**  If any patch carries glyf data for a gid ≥ maxp.numGlyphs, the
application fails, whatever else the patches contain. -/
theorem gid_beyond_maxp_is_error (infos : List PatchInfo) (gps : List GlyphPatches) (font : Font)
    (hu : UniqueTags font) (g : Nat) (d : Bytes)
    (hl : firstWins TAG_glyf gps g = some d) (hg : numGlyphs font ≤ g) :
    ∃ e, applyGlyphPatches infos gps font = .error e := by
  cases h : applyGlyphPatches infos gps font with
  | error e => exact ⟨e, rfl⟩
  | ok out =>
    exfalso
    have hglyf : ∃ gp ∈ gps, TAG_glyf ∈ gp.tables := by
      apply Classical.byContradiction
      intro hno
      rw [firstWins_none_of_no_tag TAG_glyf gps hno g] at hl
      cases hl
    obtain ⟨_, _, _, _, _, _, _, _, _, hlt, _⟩ := glyph_keyed_splice_spec infos gps font out hu h hglyf
    have := hlt g d hl
    omega

/-- **unsorted_gids_is_error.**  If a patch (as parsed by `GlyphPatches::read`) that names `glyf`
has glyph ids that are not strictly ascending (unsorted or duplicated), the application fails. -/
theorem unsorted_gids_is_error (infos : List PatchInfo) (gps : List GlyphPatches) (font : Font)
    (raw : Bytes) (wide : Bool) (gp : GlyphPatches) (hr : gpRead raw wide = .ok gp)
    (hmem : gp ∈ gps) (hglyf : TAG_glyf ∈ gp.tables) (hbad : ¬ gp.gids.Pairwise (· < ·)) :
    ∃ e, applyGlyphPatches infos gps font = .error e := by
  cases h : applyGlyphPatches infos gps font with
  | error e => exact ⟨e, rfl⟩
  | ok out =>
    exfalso
    obtain ⟨repl, hd⟩ := apply_ok_dedup infos gps font out h gp hmem hglyf
    obtain ⟨ti, hti⟩ := indexOfTag_some_of_mem TAG_glyf gp.tables 0 hglyf
    obtain ⟨hpw, _⟩ := dedup_items_ok TAG_glyf gps repl hd gp hmem ti hti
    obtain ⟨_, hm, _⟩ := tableItems_spec raw wide gp hr ti (by have := indexOfTag_lt _ _ _ _ hti; omega)
    apply hbad
    rw [← hm, List.pairwise_map]
    exact hpw

/-- **glyph_offset_out_of_bounds_is_error.**  If for some glyph `j` of a patch naming `glyf` (table
index `ti`) the data offsets `(s, e)` are null, descending or beyond the decoded payload, the
application fails. -/
theorem glyph_offset_out_of_bounds_is_error (infos : List PatchInfo) (gps : List GlyphPatches)
    (font : Font) (raw : Bytes) (wide : Bool) (gp : GlyphPatches) (hr : gpRead raw wide = .ok gp)
    (hmem : gp ∈ gps) (ti : Nat) (hti : indexOfTag TAG_glyf gp.tables 0 = some ti)
    (j : Nat) (hj : j < gp.glyphCount)
    (hbad : gp.offsets.getD (ti * gp.glyphCount + j) 0 = 0 ∨
            gp.offsets.getD (ti * gp.glyphCount + j + 1) 0 < gp.offsets.getD (ti * gp.glyphCount + j) 0 ∨
            raw.length < gp.offsets.getD (ti * gp.glyphCount + j + 1) 0) :
    ∃ e, applyGlyphPatches infos gps font = .error e := by
  cases h : applyGlyphPatches infos gps font with
  | error e => exact ⟨e, rfl⟩
  | ok out =>
    exfalso
    have hlt := indexOfTag_lt _ _ _ _ hti
    have hglyf : TAG_glyf ∈ gp.tables := by
      apply Classical.byContradiction
      intro hn; rw [indexOfTag_none _ _ _ hn] at hti; cases hti
    obtain ⟨repl, hd⟩ := apply_ok_dedup infos gps font out h gp hmem hglyf
    obtain ⟨_, hb⟩ := dedup_items_ok TAG_glyf gps repl hd gp hmem ti hti
    obtain ⟨hlen, _, hidx⟩ := tableItems_spec raw wide gp hr ti (by omega)
    obtain ⟨_, _, hraw⟩ := gpRead_lengths raw wide gp hr
    have hj' : j < (tableItems gp ti).length := by rw [hlen]; exact hj
    obtain ⟨e1, e2⟩ := hidx j hj'
    have := hb _ (List.getElem_mem hj')
    rw [e1, e2, hraw] at this
    omega

/-- **every_patch_compat_checked.**  `apply_glyph_keyed_patches` checks the compatibility id of
EVERY patch of the group, not only the first one under a mapping table: if ANY patch in the list (at
any position) was selected under a mapping-table id that differs from the font's current id for
that table, or carries a different id in its own header, the result is an error, and the SAME error
for every decoder — the decoder is never consulted. -/
theorem every_patch_compat_checked (patches : List (PatchInfo × Bytes)) (font : Font)
    (info : PatchInfo) (p : Bytes) (hmem : (info, p) ∈ patches) (id : Bytes)
    (hid : fontCompatId font info.tag = .ok id)
    (hm : id ≠ info.compat ∨ ∃ hd, gkRead p = .ok hd ∧ hd.compat ≠ id) :
    ∃ e, ∀ dec : Decoder, applyGlyphKeyed patches font dec = .error e := by
  cases hc : checkGlyphKeyed font patches with
  | error e => exact ⟨e, fun dec => by simp [applyGlyphKeyed, hc]⟩
  | ok hs =>
    exfalso
    obtain ⟨_, hall⟩ := checkGlyphKeyed_all font patches hs hc
    obtain ⟨c1, hd, c2, c3, _⟩ := hall (info, p) hmem
    simp only at c1 c2 c3
    rw [hid] at c1
    simp only [Except.ok.injEq] at c1
    rcases hm with hm | ⟨hd', g1, g2⟩
    · exact hm c1
    · rw [c2] at g1
      simp only [Except.ok.injEq] at g1
      subst g1
      exact g2 (by rw [c3, c1])

/-- a missing mapping table for ANY patch of the group is an error before anything is decoded -/
theorem glyph_keyed_missing_mapping_table_is_error (patches : List (PatchInfo × Bytes)) (font : Font)
    (info : PatchInfo) (p : Bytes) (hmem : (info, p) ∈ patches) (h : font.get info.tag = none) :
    ∃ e, ∀ dec : Decoder, applyGlyphKeyed patches font dec = .error e := by
  cases hc : checkGlyphKeyed font patches with
  | error e => exact ⟨e, fun dec => by simp [applyGlyphKeyed, hc]⟩
  | ok hs =>
    exfalso
    obtain ⟨_, hall⟩ := checkGlyphKeyed_all font patches hs hc
    obtain ⟨c1, _⟩ := hall (info, p) hmem
    simp only [fontCompatId, h] at c1
    cases c1

/-- non-vacuity of `every_patch_compat_checked`: the SECOND patch of a group carries a foreign id -/
example :
    let font : Font := [(TAG_IFT, [2,0,0,0,0, 1,1,1,1,1,1,1,1,1,1,1,1,1,1,1,1, 0])]
    let good : Bytes := [0x69,0x66,0x67,0x6b, 0,0,0,0, 0, 1,1,1,1,1,1,1,1,1,1,1,1,1,1,1,1, 0,0,0,9]
    let bad : Bytes := [0x69,0x66,0x67,0x6b, 0,0,0,0, 0, 1,1,1,1,1,1,1,1,1,1,1,1,1,1,1,2, 0,0,0,9]
    let i : PatchInfo := { uri := "a", iftx := false, compat := [1,1,1,1,1,1,1,1,1,1,1,1,1,1,1,1], bit := 0 }
    checkGlyphKeyed font [(i, good), (i, bad)] = .error .incompatiblePatch ∧
    checkGlyphKeyed font [(i, bad), (i, good)] = .error .incompatiblePatch ∧
    (checkGlyphKeyed font [(i, good), (i, good)]).toBool = true := by
  refine ⟨by rfl, by rfl, by rfl⟩

/-- **glyph_keyed_decoder_failure_is_error.**  For ANY decoder: if the decoder fails (any error kind)
on the call made for the k-th patch of the group (calls are made in patch order, `dec k …`), or a
patch does not carry the 'ifgk' tag, `apply_glyph_keyed_patches` returns an error — success implies
that every one of the `n` decoder calls returned `ok`.  (The caller's status map is then untouched:
`round_atomic`.) -/
theorem glyph_keyed_decoder_failure_is_error (hs : List (PatchInfo × GKHeader)) (font : Font)
    (dec : Decoder) (k : Nat) (hk : k < hs.length) (e : DErr)
    (hfail : dec k hs[k].2.stream none hs[k].2.maxLen = .error e) :
    ∃ e', applyGlyphKeyedCore hs font dec = .error e' := by
  cases h : applyGlyphKeyedCore hs font dec with
  | error e' => exact ⟨e', rfl⟩
  | ok out =>
    exfalso
    unfold applyGlyphKeyedCore at h
    cases hd : decodeAll dec (hs.map (·.2)) 0 with
    | error x => rw [hd] at h; cases h
    | ok raws =>
      obtain ⟨_, hall⟩ := decodeAll_ok dec _ 0 raws hd
      obtain ⟨_, raw, hr, _⟩ := hall k (by simpa using hk)
      simp only [List.getElem_map, Nat.zero_add] at hr
      rw [hfail] at hr
      cases hr

/-- **offset_width_widened_iff_needed** (generic `patch_offset_array`, any offset type family —
glyf/loca, gvar, CFF/CFF2 charstrings): on success the chosen offset type can represent the new
total data size; it is the table's current type whenever that fits; otherwise it is the FIRST
available type (ascending order) that fits.  With `patchOffsetArray_eq` (Lemmas/IftSplice.lean) the
data / offset array are the concatenation / running starts of the per-glyph chunks for that type. -/
theorem offset_width_widened_iff_needed (a : OffsetArray) (repl : List (Nat × Bytes)) (maxGid : Nat)
    (t : OffsetType) (data offs : Bytes) (h : patchOffsetArray a repl maxGid = .ok (t, data, offs)) :
    ∃ total, totalDataSize a repl maxGid = .ok total ∧ total ≤ t.maxRepresentable ∧
      (total ≤ a.offsetType.maxRepresentable → t = a.offsetType) ∧
      (a.offsetType.maxRepresentable < total →
        ∃ pre post, a.available = pre ++ t :: post ∧ ∀ c ∈ pre, c.maxRepresentable < total) := by
  obtain ⟨total, h1, h2, _, _⟩ := patchOffsetArray_ok a repl maxGid t data offs h
  obtain ⟨c1, c2, c3⟩ := chooseOffsetType_spec a total t h2
  exact ⟨total, h1, c1, c2, fun hlt => (c3 hlt).2⟩

/-- **glyf_loca_never_widens.**  glyf/loca offers no other offset type: when the patched glyf would
exceed what the font's loca format can address (short loca: 0x1FFFE bytes) the result is the
offset-overflow error, never a widened or truncated table. -/
theorem glyf_loca_never_widens (font : Font) (a : OffsetArray) (ha : glyfAndLoca font = some a)
    (repl : List (Nat × Bytes)) (maxGid total : Nat) (ht : totalDataSize a repl maxGid = .ok total)
    (hbig : a.offsetType.maxRepresentable < total) :
    patchOffsetArray a repl maxGid = .error (.serializationError SER_OFFSET_OVERFLOW) := by
  obtain ⟨_, _, _, _, _, _, _, _, hav, _⟩ := glyfAndLoca_some font a ha
  unfold patchOffsetArray
  rw [ht]
  simp only
  have : chooseOffsetType a total = .error (.serializationError SER_OFFSET_OVERFLOW) := by
    unfold chooseOffsetType
    rw [if_pos hbig, hav]
    have : decide (a.offsetType.maxRepresentable ≥ total) = false := by
      simp only [decide_eq_false_iff_not]; omega
    simp [List.find?, this]
  rw [this]

example : OffsetType.shortDivByTwo.maxRepresentable = 0x1FFFE := by decide

/-! ## order / grouping independence at the entry point `apply_glyph_keyed_patches` (patch BYTES + decoder)

`Stateless dec`: the decoder is a function of (stream, dictionary, max length) — like the real brotli
decoders; the fault-injecting decoders (fail on the k-th call) are deliberately excluded here, for
them the outcome depends on the order by construction.  `prepAll font dec patches` (Lemmas/
IftPipeline.lean) = the list of (info, decoded + parsed payload) the front half of the function
computes, `none` if any patch fails a compat check, the header read, the tag check, decoding or
parsing (`applyGlyphKeyed_ok_iff`). -/

/-- **glyph_keyed_order_independent_entry.**  Whole entry point, any stateless decoder: if the
decoded patches agree on shared gids, every permutation of the (info, patch bytes) list yields
the same font. -/
theorem glyph_keyed_order_independent_entry (patches patches' : List (PatchInfo × Bytes)) (font out : Font)
    (dec : Decoder) (hst : Stateless dec) (hperm : patches.Perm patches')
    (hagree : ∀ ps, prepAll font dec patches = some ps → Agree TAG_glyf (ps.map (·.2)))
    (h : applyGlyphKeyed patches font dec = .ok out) :
    applyGlyphKeyed patches' font dec = .ok out := by
  obtain ⟨ps, hp, ha⟩ := (applyGlyphKeyed_ok_iff font dec hst patches out).mp h
  obtain ⟨ps', hp', hperm'⟩ := prepAll_perm font dec patches patches' hperm ps hp
  exact (applyGlyphKeyed_ok_iff font dec hst patches' out).mpr
    ⟨ps', hp', applyGlyphPatches_perm ps ps' font out hperm' (hagree ps hp) ha⟩

/-- **glyph_keyed_grouping_independent_entry.**  Whole entry point, any stateless decoder: applying
the patches `p1`, then `p2` to the result, gives the tables of applying `p1 ++ p2` in one call. -/
theorem glyph_keyed_grouping_independent_entry (p1 p2 : List (PatchInfo × Bytes))
    (font font1 out2 out12 : Font) (dec : Decoder) (hst : Stateless dec) (hu : UniqueTags font)
    (hagree : ∀ ps, prepAll font dec (p1 ++ p2) = some ps → Agree TAG_glyf (ps.map (·.2)))
    (h1 : applyGlyphKeyed p1 font dec = .ok font1)
    (h2 : applyGlyphKeyed p2 font1 dec = .ok out2)
    (h12 : applyGlyphKeyed (p1 ++ p2) font dec = .ok out12) :
    out2 = out12 := by
  obtain ⟨ps1, hp1, ha1⟩ := (applyGlyphKeyed_ok_iff font dec hst p1 font1).mp h1
  obtain ⟨ps2', hp2', ha2⟩ := (applyGlyphKeyed_ok_iff font1 dec hst p2 out2).mp h2
  obtain ⟨ps12, hp12, ha12⟩ := (applyGlyphKeyed_ok_iff font dec hst (p1 ++ p2) out12).mp h12
  obtain ⟨q1, q2, e1, e2, e3⟩ := prepAll_append font dec p1 p2 ps12 hp12
  rw [hp1] at e1
  simp only [Option.some.injEq] at e1
  subst e1
  have : ps2' = q2 := prepAll_font_indep font1 font dec p2 ps2' q2 hp2' e2
  subst this e3
  exact applyGlyphPatches_split ps1 ps2' font font1 out2 out12 hu (hagree _ hp12) ha1 ha2 ha12

/-- **glyph_keyed_entry_reduces.**  For ANY decoder (fault-injecting ones included): a successful
`apply_glyph_keyed_patches` on patch bytes is compat checks ✓ for every patch, `n` successful decoder
calls `dec 0 … dec (n-1)` in patch order, `n` successful payload parses, and then `applyGlyphPatches`
on the patches' infos and the parsed payloads — so `glyph_keyed_splice_spec`,
`glyph_keyed_other_tables_unchanged`, `applied_bits_exact` and the error-path theorems speak about
the output of the entry point. -/
theorem glyph_keyed_entry_reduces (patches : List (PatchInfo × Bytes)) (font out : Font) (dec : Decoder)
    (h : applyGlyphKeyed patches font dec = .ok out) :
    ∃ hs raws gps, checkGlyphKeyed font patches = .ok hs ∧ hs.map (·.1) = patches.map (·.1) ∧
      decodeAll dec (hs.map (·.2)) 0 = .ok raws ∧
      parseAll (List.zip raws (hs.map (·.2))) = .ok gps ∧
      applyGlyphPatches (patches.map (·.1)) gps font = .ok out := by
  unfold applyGlyphKeyed at h
  cases hc : checkGlyphKeyed font patches with
  | error e => rw [hc] at h; cases h
  | ok hs =>
    rw [hc] at h
    simp only at h
    unfold applyGlyphKeyedCore at h
    cases hd : decodeAll dec (hs.map (·.2)) 0 with
    | error e => rw [hd] at h; cases h
    | ok raws =>
      rw [hd] at h
      simp only at h
      cases hp : parseAll (List.zip raws (hs.map (·.2))) with
      | error e => rw [hp] at h; cases h
      | ok gps =>
        rw [hp] at h
        simp only at h
        have hm := (checkGlyphKeyed_all font patches hs hc).1
        exact ⟨hs, raws, gps, rfl, hm, hd, hp, by rw [← hm]; exact h⟩

/-- non-vacuity: `prepAll` on a real (info, patch bytes) pair with the identity decoder -/
example :
    let font : Font := [(TAG_IFT, [2,0,0,0,0, 1,1,1,1,1,1,1,1,1,1,1,1,1,1,1,1, 0])]
    let p : Bytes := [0x69,0x66,0x67,0x6b, 0,0,0,0, 0, 1,1,1,1,1,1,1,1,1,1,1,1,1,1,1,1, 0,0,0,21,
                      0,0,0,1, 1, 0,1, 0x67,0x6c,0x79,0x66, 0,0,0,19, 0,0,0,21, 7,7]
    let i : PatchInfo := { uri := "a", iftx := false, compat := [1,1,1,1,1,1,1,1,1,1,1,1,1,1,1,1], bit := 0 }
    (prepAll font (fun _ s _ _ => .ok s) [(i, p)]).map (fun ps => ps.map (fun x => (x.2.gids, x.2.tables, patchData TAG_glyf x.2)))
      = some [([1], [TAG_glyf], [(1, [7,7])])] := by rfl

/-! ## gvar (Model/GvarKeyed.lean: the `Gvar::TAG` arm — `font.gvar()`, `patch_offset_array`,
`Gvar::add_to_font` — as a function `gvarPatch gvarTable patches maxGid` of the one table; tied to the
real `apply_glyph_keyed_patches` by the `gvar_patch` correspondence group) -/

/-- **gvar_patch_spec.**  If the gvar arm succeeds (emitted table below 4 GiB): the offset type `t` of
the new table is short or long, it can address the new total, and it is the old type whenever that
still fits (widening only when needed).  When gvar's glyph count matches maxp, the new table reads
back (`gvarRead`, the reader used on the input) with the same axis count, shared tuple count and
glyph count, the long-offsets flag set iff `t` is long, the SAME shared tuples, `maxGid+2` ascending
offsets from 0 to the length of the data area, every listed gid ≤ maxGid, and for EVERY gid the
glyph variation data is the first-wins patch data (padded to even under short offsets), else the
old data. -/
theorem gvar_patch_spec (b : Bytes) (gps : List GlyphPatches) (m : Nat) (out : Bytes)
    (h : gvarPatch (some b) gps m = .ok out) (hsz : out.length < 2 ^ 32) :
    ∃ v t, gvarRead b = some v ∧ (t = .long ∨ t = .shortDivByTwo) ∧
      (∃ repl total, dedup TAG_gvar gps = .ok repl ∧ totalDataSize (gvarArray b v) repl m = .ok total ∧
          total ≤ t.maxRepresentable ∧ (total ≤ (gvarCurType v).maxRepresentable → t = gvarCurType v)) ∧
      (v.glyphCount = m + 1 →
        ∃ v', gvarRead out = some v' ∧ v'.axisCount = v.axisCount ∧ v'.sharedTupleCount = v.sharedTupleCount ∧
          v'.glyphCount = v.glyphCount ∧ v'.long = decide (t = .long) ∧
          gvarSharedTuples out v' = gvarSharedTuples b v ∧
          v'.offsets.length = m + 2 ∧ v'.offsets.getD 0 0 = 0 ∧
          v'.offsets.getD (m + 1) 0 = (out.drop v'.arrayOffset).length ∧
          v'.offsets.Pairwise (· ≤ ·) ∧
          (∀ g d, firstWins TAG_gvar gps g = some d → g ≤ m) ∧
          ∀ g, g ≤ m → glyphAt v'.offsets (out.drop v'.arrayOffset) g =
            match firstWins TAG_gvar gps g with
            | some d => padTo t d
            | none => glyphAt v.offsets (b.drop v.arrayOffset) g) :=
  gvarPatch_spec b gps m out h hsz

/-- **gvar_patch_order_independent.**  The new gvar table does not depend on the order of patches
that agree on shared gids (one call; across calls the offset width may differ — known finding
C18-offset-width-history-dependent). -/
theorem gvar_patch_order_independent (g : Option Bytes) (gps gps' : List GlyphPatches) (m : Nat)
    (out : Bytes) (hp : gps.Perm gps') (ha : Agree TAG_gvar gps) (h : gvarPatch g gps m = .ok out) :
    gvarPatch g gps' m = .ok out :=
  gvarPatch_perm g gps gps' m out hp ha h

/-- **gvar_without_glyph_data_is_error** (records known finding C18-gvar-all-glyph-data-empty in the
model): when the patched gvar would carry no glyph variation data at all the arm answers
`SerializationError(NONE)` instead of emitting the table. -/
theorem gvar_without_glyph_data_is_error (b : Bytes) (v : GvarView) (t : OffsetType) (offs : Bytes)
    (hlen : ¬ (t = gvarCurType v ∧ offs.length ≠ (v.glyphCount + 1) * v.width)) :
    gvarAssemble b v t [] offs = .error (.serializationError 0) := by
  unfold gvarAssemble
  rw [if_neg hlen]
  simp

/-- non-vacuity: a 2-glyph short gvar (1 axis, 1 shared tuple), gid 0 := 3 bytes (padded to 4) -/
example :
    let gv : Bytes := [0,1,0,0, 0,1, 0,1, 0,0,0,26, 0,2, 0,0, 0,0,0,28, 0,0, 0,1, 0,2, 0xAA,0xBB, 1,2,3,4]
    let gp : GlyphPatches := { glyphCount := 1, tables := [TAG_gvar], gids := [0], offsets := [1, 4], raw := [9,7,7,7] }
    gvarPatch (some gv) [gp] 1 =
      .ok [0,1,0,0, 0,1, 0,1, 0,0,0,26, 0,2, 0,0, 0,0,0,28, 0,0, 0,2, 0,3, 0xAA,0xBB, 7,7,7,0, 3,4] := by rfl

end FontVerif.C18
