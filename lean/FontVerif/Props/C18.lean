/-
C18 — IFT patches change exactly what they say, atomically and order-independently.
Property theorems only (helper lemmas live in Lemmas/Ift.lean).
Models: Model/TableKeyed.lean ⇄ table_keyed.rs + font_patch.rs,
        Model/GlyphSplice.lean ⇄ glyph_keyed.rs (containers, dedup, the shared offset-array builder, glyf/loca),
        Model/GvarKeyed.lean, Model/CffKeyed.lean ⇄ the gvar and CFF / CFF2 implementations of `GlyphDataOffsetArray`,
        Model/GlyphKeyed.lean ⇄ `apply_glyph_keyed_patches` (all four arms wired into the font-level loop),
        Model/PatchRound.lean ⇄ patch_group.rs `apply_next_patches_with_decoder`.
Every theorem quantifies over the decoder `dec`, which covers "a decoder that fails on its k-th call
with each error kind, for every k".
-/
import FontVerif.Model.PatchRound
import FontVerif.Lemmas.Ift
import FontVerif.Lemmas.IftGlyph
import FontVerif.Lemmas.IftOrder
import FontVerif.Lemmas.IftErrors
import FontVerif.Lemmas.IftPipeline
import FontVerif.Lemmas.IftGvar
import FontVerif.Lemmas.IftCff
import FontVerif.Lemmas.IftFont
set_option linter.unusedVariables false
namespace FontVerif.C18
open FontVerif FontVerif.Ift

/-! ## table keyed patches -/

/-- **table_keyed_spec.**  If `apply_table_keyed_patch` succeeds on ANY decoder, then every one of
the `count` entries of the container resolved (`es`), and for every tag `t` the FIRST entry naming
`t` decides: no entry ⇒ the table is the base font's, byte for byte (or still absent); DROP ⇒ absent;
REPLACE ⇒ it is `dec k stream none maxLen` for a decoder call `k` that was made; otherwise the base
table exists and it is `dec k stream (some base) maxLen`.  In particular success implies that every
decoder call needed returned `ok`: any decoder error ⇒ `Err`. -/
theorem table_keyed_spec (p : Bytes) (count : Nat) (font : Font) (dec : Decoder) (out : Font)
    (calls : Nat) (hu : UniqueTags font)
    (h : applyTableKeyedCore p count font dec = .ok (out, calls)) :
    ∃ es : List TKEntry, es.length = count ∧
      (∀ j (hj : j < es.length), tkEntryAt p j = .ok es[j]) ∧
      ∀ t, match es.find? (fun e => e.tag == t) with
        | none => out.get t = font.get t
        | some e =>
          if e.drop then out.get t = none
          else ∃ k r, k < calls ∧
            dec k e.stream (if e.replace then none else font.get t) e.maxLen = .ok r ∧
            out.get t = some r ∧ (e.replace = false → (font.get t).isSome) := by
  unfold applyTableKeyedCore at h
  split at h
  · cases h
  · split at h
    · cases h
    · rename_i acc hloop
      simp only [Except.ok.injEq, Prod.mk.injEq] at h
      obtain ⟨hout, hcalls⟩ := h
      obtain ⟨es, hlen, hent, hrun⟩ := tkLoop_ok p font dec count 0 _ acc hloop
      obtain ⟨_, hp, _, hspec⟩ := tkRun_spec font dec es _ acc hrun
      refine ⟨es, hlen, ?_, ?_⟩
      · intro j hj; simpa using hent j hj
      · intro t
        have hs := hspec t (by simp)
        have hpt := hp t
        simp only [List.not_mem_nil, false_or] at hpt
        have hcopy := copyUnprocessed_lookup font acc.processed acc.builder t hu
        subst hout hcalls
        unfold Font.get
        cases hfind : es.find? (fun e => e.tag == t) with
        | none =>
          -- no entry names t
          simp only [hfind] at hs ⊢
          have hnp : ¬ t ∈ acc.processed := by
            rw [hpt]
            intro hm
            simp only [List.mem_map] at hm
            obtain ⟨e, he, het⟩ := hm
            have := List.find?_eq_none.mp hfind e he
            simp [het] at this
          have hc : acc.processed.contains t = false := by simpa using hnp
          rw [hcopy, hc]
          simp only [Bool.false_eq_true, if_false]
          rw [hs]
          cases font.lookup t <;> simp [List.lookup]
        | some e =>
          simp only [hfind] at hs ⊢
          have hmem : e ∈ es := List.mem_of_find?_eq_some hfind
          have het : e.tag = t := by
            have := List.find?_some hfind
            simpa using this
          have hpin : t ∈ acc.processed := by
            rw [hpt]; simp only [List.mem_map]; exact ⟨e, hmem, het⟩
          have hc : acc.processed.contains t = true := by simpa using hpin
          rw [hcopy, hc]
          simp only [if_true]
          by_cases hd : e.drop = true
          · simp only [hd, if_true] at hs ⊢
            rw [hs]; rfl
          · simp only [hd, if_false, Bool.false_eq_true] at hs ⊢
            obtain ⟨k, r, _, h2, h3, h4, h5⟩ := hs
            exact ⟨k, r, h2, h3, h4, h5⟩

/-- non-vacuity: a two-entry patch (replace `tab1`, drop `tab2`) applied with an identity decoder -/
example :
    let p : Bytes := [0x69,0x66,0x74,0x6b, 0,0,0,0, 1,1,1,1,1,1,1,1,1,1,1,1,1,1,1,1, 0,2,
                      0,0,0,38, 0,0,0,49, 0,0,0,58,
                      0x74,0x61,0x62,0x31, 1, 0,0,0,9, 7,7,
                      0x74,0x61,0x62,0x32, 2, 0,0,0,0]
    let font : Font := [(0x74616231, [1]), (0x74616232, [2]), (0x74616233, [3])]
    applyTableKeyedCore p 2 font (fun _ s _ _ => .ok s)
      = .ok ([(0x74616231, [7,7]), (0x74616233, [3])], 1) := by rfl

/-- **decoder_receives_base_iff_not_replacement.**  Which dictionary `apply_table_keyed_patch` hands to
the decoder: `dictFor font e` = none for an entry with REPLACE_TABLE set, the base font's table of that
tag otherwise.  Formally: two decoders that agree on every call `(k, stream, dictFor font e, maxLen)`
give the same result (tables, call count or error) on every patch — so the function never consults
the decoder with any other dictionary (a replacement never sees the base table, a diff never runs
without it).  For a non-replacement entry whose base table is missing no call is made at all: the
result is the same error for every decoder. -/
theorem decoder_receives_base_iff_not_replacement (p : Bytes) (count : Nat) (font : Font) (dec dec' : Decoder)
    (h : ∀ k (e : TKEntry), dec k e.stream (dictFor font e) e.maxLen = dec' k e.stream (dictFor font e) e.maxLen) :
    applyTableKeyedCore p count font dec = applyTableKeyedCore p count font dec' ∧
    (∀ e : TKEntry, (dictFor font e = none ↔ (e.replace = true ∨ font.get e.tag = none))) ∧
    (∀ (acc : TKAcc) (e : TKEntry), acc.processed.contains e.tag = false → e.drop = false →
      e.replace = false → font.get e.tag = none →
      tkStep font dec acc e = .error (.invalidPatch "Trying to patch a base table that doesn't exist.")) := by
  refine ⟨?_, ?_, ?_⟩
  · unfold applyTableKeyedCore
    rw [tkLoop_congr_dec p font dec dec' h]
  · intro e
    unfold dictFor
    cases e.replace <;> simp
  · intro acc e h1 h2 h3 h4
    unfold tkStep
    rw [h4]
    have : ¬ e.tag ∈ acc.processed := by simpa using h1
    simp [this, h2, h3]

/-- non-vacuity: a decoder that answers differently when a REPLACE entry is given a dictionary is
indistinguishable from the identity decoder -/
example :
    let p : Bytes := [0x69,0x66,0x74,0x6b, 0,0,0,0, 1,1,1,1,1,1,1,1,1,1,1,1,1,1,1,1, 0,2,
                      0,0,0,38, 0,0,0,49, 0,0,0,58,
                      0x74,0x61,0x62,0x31, 1, 0,0,0,9, 7,7,
                      0x74,0x61,0x62,0x32, 0, 0,0,0,9]
    let font : Font := [(0x74616231, [1]), (0x74616232, [2]), (0x74616233, [3])]
    let spy : Decoder := fun _ s b _ => match b with | none => .ok s | some base => .ok (base ++ s)
    applyTableKeyedCore p 2 font spy
      = .ok ([(0x74616231, [7,7]), (0x74616232, [2]), (0x74616233, [3])], 2) := by rfl

/-- **compat_mismatch_is_error_before_decode.**  If the id of the mapping table named by the
`PatchInfo` differs from the id recorded in the info, or from the id in the patch header, the result
is `IncompatiblePatch` for EVERY decoder — the decoder is never consulted. -/
theorem compat_mismatch_is_error_before_decode (info : PatchInfo) (p : Bytes) (font : Font)
    (id : Bytes) (hid : fontCompatId font info.tag = .ok id)
    (hm : id ≠ info.compat ∨ ∃ c, tkRead p = .ok c ∧ sliceLen p 8 16 ≠ id) :
    ∀ dec : Decoder, applyTableKeyed info p font dec = .error .incompatiblePatch := by
  intro dec
  unfold applyTableKeyed
  rw [hid]
  simp only
  by_cases h1 : id = info.compat
  · rcases hm with hm | ⟨c, hc, hne⟩
    · exact absurd h1 hm
    · simp [hc, hne, ← h1]
  · simp [h1]

/-- a missing mapping table is an error before anything is parsed or decoded -/
theorem missing_mapping_table_is_error (info : PatchInfo) (p : Bytes) (font : Font)
    (h : font.get info.tag = none) :
    ∀ dec : Decoder, applyTableKeyed info p font dec
      = .error (.fontParsingFailed (.tableIsMissing info.tag)) := by
  intro dec
  unfold applyTableKeyed fontCompatId
  simp [h]

example : fontCompatId [(TAG_IFT, [2,0,0,0,0, 1,1,1,1,1,1,1,1,1,1,1,1,1,1,1,1, 3])] TAG_IFT
    = .ok [1,1,1,1,1,1,1,1,1,1,1,1,1,1,1,1] := by rfl

/-! ## one application round -/

/-- **round_atomic.**  Whatever the decoder does (any error kind at any call), if the round fails
the caller's status map is returned exactly as it was passed in. -/
theorem round_atomic (font : Font) (inv noninv : List PatchInfo) (st : StatusMap) (dec : Decoder)
    (e : PErr) (h : (applyRound font inv noninv st dec).1 = .error e) :
    (applyRound font inv noninv st dec).2 = st := by
  have hnon : ∀ e, (applyNonInvalidating font noninv st dec).1 = .error e →
      (applyNonInvalidating font noninv st dec).2 = st := by
    intro e he
    unfold applyNonInvalidating at he ⊢
    cases hacc : accumulate st noninv with
    | error x => rfl
    | ok acc =>
      simp only [hacc] at he ⊢
      by_cases hemp : acc.isEmpty = true
      · simp only [hemp, if_true]
      · simp only [hemp, if_false, Bool.false_eq_true] at he ⊢
        cases hap : applyGlyphKeyed acc font dec with
        | error x => rfl
        | ok nf => simp only [hap] at he; cases he
  unfold applyRound at h ⊢
  cases inv with
  | nil => exact hnon e h
  | cons patch rest =>
    simp only at h ⊢
    cases hl : st.lookup patch.uri with
    | none => rfl
    | some status =>
      cases status with
      | applied =>
        simp only [hl] at h ⊢
        exact hnon e h
      | pending data =>
        simp only [hl] at h ⊢
        cases hap : applyTableKeyed patch data font dec with
        | error x => rfl
        | ok r => simp only [hap] at h; cases h

/-- on success only statuses change, never the set of URIs the caller tracks -/
theorem round_keeps_keys (font : Font) (inv noninv : List PatchInfo) (st : StatusMap) (dec : Decoder) :
    (applyRound font inv noninv st dec).2.map (·.1) = st.map (·.1) := by
  have hset : ∀ (m : StatusMap) u, (m.setApplied u).map (·.1) = m.map (·.1) := by
    intro m u
    unfold StatusMap.setApplied
    rw [List.map_map]
    apply List.map_congr_left
    intro kv _
    simp only [Function.comp]
    split <;> rfl
  have hfold : ∀ (l : List PatchInfo) (m : StatusMap),
      (l.foldl (fun m info => m.setApplied info.uri) m).map (·.1) = m.map (·.1) := by
    intro l
    induction l with
    | nil => intro m; rfl
    | cons x xs ih => intro m; simp only [List.foldl_cons]; rw [ih, hset]
  have hnon : (applyNonInvalidating font noninv st dec).2.map (·.1) = st.map (·.1) := by
    unfold applyNonInvalidating
    split
    · rfl
    · split
      · rfl
      · split
        · rfl
        · exact hfold _ _
  unfold applyRound
  split
  · split
    · rfl
    · split
      · rfl
      · exact hset _ _
    · exact hnon
  · exact hnon

/-! ## glyph keyed patches (after decoding and parsing: `applyGlyphPatches`)

Vocabulary (Lemmas/IftSplice.lean, IftDedup.lean, IftGlyph.lean):
  `glyfAndLoca font`        the font's glyf bytes + loca offsets (short offsets already ×2), as the code reads them
  `glyphAt offsets data g`  the bytes between offsets g and g+1
  `firstWins tag gps g`     data of the FIRST patch of the list that lists gid g for table `tag`
  `padTo t d`               d followed by (len % divisor) zero bytes — the padding the code adds (short loca: to even)
  `numGlyphs font`          maxp.numGlyphs
  `bitAt d k`               bit k of a mapping table (byte k/8, LSB first), `bitsFor iftx infos` the patches' bit indices
  `armOf font gps m tag`    the arm of the per-tag loop a tag selects (glyf / gvar / CFF / CFF2; `none` = ignored tag)
                            and the tables it adds: `glyfArm`, `gvarPatch (font.get gvar)`, `cffPatch v2 (font.get IFT) (font.get CFF|CFF2)`
  `ownerOf t`               the arm that writes table t: glyf ↦ glyf, loca ↦ glyf, gvar ↦ gvar, CFF ↦ CFF, CFF2 ↦ CFF2, else none
  `IsArmTag tag`            tag ∈ {glyf, gvar, CFF, CFF2}
-/

/-- **glyph_keyed_splice_spec.**  If `apply_glyph_keyed_patches` succeeds and some patch names `glyf`:
the base font had a readable glyf/loca, the new font's glyf/loca read back with the same offset
width, `numGlyphs + 1` offsets, first offset 0, last offset = glyf length, offsets ascending; every
gid listed by any patch is below `numGlyphs`; and for EVERY gid the new glyph bytes are the padded
data of the FIRST patch listing it, or — if no patch lists it — the old bytes unchanged. -/
theorem glyph_keyed_splice_spec (infos : List PatchInfo) (gps : List GlyphPatches) (font out : Font)
    (hu : UniqueTags font) (h : applyGlyphPatches infos gps font = .ok out)
    (hglyf : ∃ gp ∈ gps, TAG_glyf ∈ gp.tables) :
    ∃ a a', glyfAndLoca font = some a ∧ glyfAndLoca out = some a' ∧
      a'.offsetType = a.offsetType ∧
      a'.offsets.length = numGlyphs font + 1 ∧
      a'.offsets.getD 0 0 = 0 ∧ a'.offsets.getD (numGlyphs font) 0 = a'.data.length ∧
      a'.offsets.Pairwise (· ≤ ·) ∧
      (∀ g d, firstWins TAG_glyf gps g = some d → g < numGlyphs font) ∧
      ∀ g, g < numGlyphs font →
        glyphAt a'.offsets a'.data g =
          match firstWins TAG_glyf gps g with
          | some d => padTo a.offsetType d
          | none => glyphAt a.offsets a.data g := by
  obtain ⟨tags, ift, iftx, hn, htags, _, _, _, _, harm, hout⟩ :=
    applyGlyphPatches_char infos gps font out hu h
  have hmem : TAG_glyf ∈ tags := ((tableTagList_ok gps tags htags).2 _).mpr hglyf
  obtain ⟨outs, hr, hin⟩ := char_arm font out gps tags harm hout TAG_glyf hmem
    (glyfArm font gps (numGlyphs font - 1)) (by unfold armOf; simp)
  obtain ⟨a, repl, data, offs, ha, hd, hp, eo⟩ := glyfArm_ok font gps _ outs hr
  subst eo
  have hg : out.get TAG_glyf = some data := hin (TAG_glyf, data) (by simp)
  have hl : out.get TAG_loca = some offs := hin (TAG_loca, offs) (by simp)
  obtain ⟨hsort, _, hlk⟩ := dedup_spec TAG_glyf gps repl hd
  have hhead := char_untouched font out gps tags hout TAG_head (by decide) (by decide)
    (fun tag ho => by rw [show ownerOf TAG_head = none by decide] at ho; cases ho)
  have hrb := glyf_splice_readback font out a repl _ data offs ha hsort hp hg hl hhead
  have hA := glyfAndLoca_ascSound font a ha
  obtain ⟨_, _, _, hle⟩ := patchOffsetArray_facts a repl _ hA hsort _ data offs hp
  have hlen : (chunks a a.offsetType repl (numGlyphs font - 1)).length = numGlyphs font := by
    rw [chunks_length]; omega
  refine ⟨a, _, ha, hrb, rfl, ?_, ?_, ?_, ?_, ?_, ?_⟩
  · show (newOffsets _).length = _
    simp only [newOffsets_length, hlen]
  · exact newOffsets_first _
  · have := newOffsets_last (chunks a a.offsetType repl (numGlyphs font - 1))
    rw [hlen] at this; exact this
  · exact newOffsets_pairwise _
  · intro g d hfw
    rw [← hlk g] at hfw
    have := hle _ (lookup_some_mem repl g d hfw)
    simp only at this; omega
  · intro g hg'
    show glyphAt (newOffsets _) (List.flatten _) g = _
    rw [newOffsets_glyphAt _ g (by rw [hlen]; exact hg'), chunks_getElem]
    unfold chunkFor
    rw [hlk g]
    cases firstWins TAG_glyf gps g <;> rfl

/-- non-vacuity: a 2-glyph short-loca font; two patches that DISAGREE on gid 1 — the first one wins,
its odd-length data is padded to even, glyph 0 comes from the second patch, bits 170 and 3 are set -/
example :
    let font : Font := [(TAG_IFT, [2,0,0,0,0, 1,1,1,1,1,1,1,1,1,1,1,1,1,1,1,1, 0]), (TAG_glyf, [1,2,3,4]),
      (TAG_head, List.replicate 54 0), (TAG_loca, [0,0, 0,1, 0,2]), (TAG_maxp, [0,0,0x50,0, 0,2])]
    let gp0 : GlyphPatches := { glyphCount := 1, tables := [TAG_glyf], gids := [1], offsets := [3, 6], raw := [9,9,9,7,7,7] }
    let gp1 : GlyphPatches := { glyphCount := 2, tables := [TAG_glyf], gids := [0, 1], offsets := [1, 2, 5], raw := [9,5,8,8,8] }
    let i0 : PatchInfo := { uri := "a", iftx := false, compat := [], bit := 170 }
    let i1 : PatchInfo := { uri := "b", iftx := false, compat := [], bit := 3 }
    applyGlyphPatches [i0, i1] [gp0, gp1] font =
      .ok [(TAG_IFT, [10,0,0,0,0, 1,1,1,1,1,1,1,1,1,1,1,1,1,1,1,1, 4]), (TAG_glyf, [5,0,7,7,7,0]),
        (TAG_head, List.replicate 54 0), (TAG_loca, [0,0, 0,1, 0,3]), (TAG_maxp, [0,0,0x50,0, 0,2])] := by rfl

/-- **glyph_keyed_other_tables_unchanged.**  On success, for patches naming ANY mix of tables: a table
other than the two mapping tables is the base font's, byte for byte (or still absent), unless it
belongs to an arm some patch names — i.e. every table outside {IFT, IFTX, glyf, loca, gvar, CFF, CFF2}
is unchanged; glyf and loca are unchanged when no patch names glyf; gvar when none names gvar; `CFF `
when none names `CFF `; CFF2 when none names CFF2.  (Tags other than these four are ignored: a patch
naming only `aaaa` changes nothing but the applied bits.) -/
theorem glyph_keyed_other_tables_unchanged (infos : List PatchInfo) (gps : List GlyphPatches)
    (font out : Font) (hu : UniqueTags font) (h : applyGlyphPatches infos gps font = .ok out) :
    (∀ t, t ≠ TAG_IFT → t ≠ TAG_IFTX →
      (∀ tag, ownerOf t = some tag → ¬ ∃ gp ∈ gps, tag ∈ gp.tables) → out.get t = font.get t) ∧
    (∀ t, t ≠ TAG_IFT → t ≠ TAG_IFTX → t ≠ TAG_glyf → t ≠ TAG_loca → t ≠ TAG_gvar → t ≠ TAG_CFF →
      t ≠ TAG_CFF2 → out.get t = font.get t) ∧
    ((¬ ∃ gp ∈ gps, TAG_glyf ∈ gp.tables) →
      out.get TAG_glyf = font.get TAG_glyf ∧ out.get TAG_loca = font.get TAG_loca) ∧
    ((¬ ∃ gp ∈ gps, TAG_gvar ∈ gp.tables) → out.get TAG_gvar = font.get TAG_gvar) ∧
    ((¬ ∃ gp ∈ gps, TAG_CFF ∈ gp.tables) → out.get TAG_CFF = font.get TAG_CFF) ∧
    ((¬ ∃ gp ∈ gps, TAG_CFF2 ∈ gp.tables) → out.get TAG_CFF2 = font.get TAG_CFF2) := by
  obtain ⟨tags, ift, iftx, hn, htags, _, _, _, _, _, hout⟩ :=
    applyGlyphPatches_char infos gps font out hu h
  have main : ∀ t, t ≠ TAG_IFT → t ≠ TAG_IFTX →
      (∀ tag, ownerOf t = some tag → ¬ ∃ gp ∈ gps, tag ∈ gp.tables) → out.get t = font.get t := by
    intro t h1 h2 hno
    exact char_untouched font out gps tags hout t h1 h2
      (fun tag ho hm => hno tag ho (((tableTagList_ok gps tags htags).2 _).mp hm))
  refine ⟨main, ?_, ?_, ?_, ?_, ?_⟩
  · intro t h1 h2 h3 h4 h5 h6 h7
    apply main t h1 h2
    intro tag ho
    exfalso
    rcases (ownerOf_eq_iff t tag).mp ho with ⟨_, e | e⟩ | ⟨_, e⟩ | ⟨_, e⟩ | ⟨_, e⟩
    · exact h3 e
    · exact h4 e
    · exact h5 e
    · exact h6 e
    · exact h7 e
  · intro hno
    have k : ∀ t, (t = TAG_glyf ∨ t = TAG_loca) → out.get t = font.get t := by
      intro t ht
      apply main t (by rcases ht with e | e <;> subst e <;> decide) (by rcases ht with e | e <;> subst e <;> decide)
      intro tag ho
      have : tag = TAG_glyf := by
        have := (ownerOf_glyf_iff t).mpr ht
        rw [this] at ho; cases ho; rfl
      subst this; exact hno
    exact ⟨k _ (Or.inl rfl), k _ (Or.inr rfl)⟩
  · intro hno
    apply main _ (by decide) (by decide)
    intro tag ho
    rw [show ownerOf TAG_gvar = some TAG_gvar by decide] at ho; cases ho; exact hno
  · intro hno
    apply main _ (by decide) (by decide)
    intro tag ho
    rw [show ownerOf TAG_CFF = some TAG_CFF by decide] at ho; cases ho; exact hno
  · intro hno
    apply main _ (by decide) (by decide)
    intro tag ho
    rw [show ownerOf TAG_CFF2 = some TAG_CFF2 by decide] at ho; cases ho; exact hno

/-- **glyph_keyed_arm_tables.**  On success, for each of gvar / `CFF ` / CFF2 that some patch names: the
base font has the table, and the output's table is exactly what the one-table arm function computes
from it (`gvarPatch`, `cffPatch` — characterised by `gvar_patch_spec`, `cff_patch_spec`; CFF / CFF2
take the charstrings offset from the base font's `IFT ` table).  So a patch naming a table the font
lacks — or CFF without a charstrings offset in `IFT ` — is an error (`patch_names_missing_table_is_error`). -/
theorem glyph_keyed_arm_tables (infos : List PatchInfo) (gps : List GlyphPatches) (font out : Font)
    (hu : UniqueTags font) (h : applyGlyphPatches infos gps font = .ok out) :
    ((∃ gp ∈ gps, TAG_gvar ∈ gp.tables) → ∃ b o, font.get TAG_gvar = some b ∧ out.get TAG_gvar = some o ∧
      gvarPatch (some b) gps (numGlyphs font - 1) = .ok o) ∧
    (∀ v2, (∃ gp ∈ gps, cffTag v2 ∈ gp.tables) → ∃ b o, font.get (cffTag v2) = some b ∧
      out.get (cffTag v2) = some o ∧
      cffPatch v2 (font.get TAG_IFT) (some b) gps (numGlyphs font - 1) = .ok o) := by
  obtain ⟨tags, ift, iftx, hn, htags, _, _, _, _, harm, hout⟩ :=
    applyGlyphPatches_char infos gps font out hu h
  refine ⟨?_, ?_⟩
  · intro hg
    have hmem : TAG_gvar ∈ tags := ((tableTagList_ok gps tags htags).2 _).mpr hg
    obtain ⟨outs, hr, hin⟩ := char_arm font out gps tags harm hout TAG_gvar hmem
      (oneTable TAG_gvar (gvarPatch (font.get TAG_gvar) gps (numGlyphs font - 1)))
      (by unfold armOf; simp [show TAG_gvar ≠ TAG_glyf by decide])
    obtain ⟨o, po, eo⟩ := oneTable_ok _ _ _ hr
    obtain ⟨b, hb⟩ := gvarPatch_some _ _ _ _ po
    subst eo
    exact ⟨b, o, hb, hin (TAG_gvar, o) (by simp), by rw [← hb]; exact po⟩
  · intro v2 hg
    have hmem : cffTag v2 ∈ tags := ((tableTagList_ok gps tags htags).2 _).mpr hg
    cases v2 with
    | false =>
      obtain ⟨outs, hr, hin⟩ := char_arm font out gps tags harm hout TAG_CFF hmem
        (oneTable TAG_CFF (cffPatch false (font.get TAG_IFT) (font.get TAG_CFF) gps (numGlyphs font - 1)))
        (by unfold armOf; simp [show TAG_CFF ≠ TAG_glyf by decide, show TAG_CFF ≠ TAG_gvar by decide])
      obtain ⟨o, po, eo⟩ := oneTable_ok _ _ _ hr
      obtain ⟨b, hb⟩ := cffPatch_some _ _ _ _ _ _ po
      subst eo
      exact ⟨b, o, hb, hin (TAG_CFF, o) (by simp), by rw [← hb]; exact po⟩
    | true =>
      obtain ⟨outs, hr, hin⟩ := char_arm font out gps tags harm hout TAG_CFF2 hmem
        (oneTable TAG_CFF2 (cffPatch true (font.get TAG_IFT) (font.get TAG_CFF2) gps (numGlyphs font - 1)))
        (by unfold armOf; simp [show TAG_CFF2 ≠ TAG_glyf by decide, show TAG_CFF2 ≠ TAG_gvar by decide,
          show TAG_CFF2 ≠ TAG_CFF by decide])
      obtain ⟨o, po, eo⟩ := oneTable_ok _ _ _ hr
      obtain ⟨b, hb⟩ := cffPatch_some _ _ _ _ _ _ po
      subst eo
      exact ⟨b, o, hb, hin (TAG_CFF2, o) (by simp), by rw [← hb]; exact po⟩

/-- **applied_bits_exact.**  On success, in each mapping table (IFT for `iftx = false`, IFTX for
`true`): the length is unchanged, every patch bit index is inside the table, and bit `k` is set
afterwards iff it was set before or it is the applied bit of one of the patches of this call —
exactly the patches' bits.  A mapping table the font lacks stays absent (and then no patch may refer
to it).  On error there is no output at all (`Except`), so no bit is set. -/
theorem applied_bits_exact (infos : List PatchInfo) (gps : List GlyphPatches) (font out : Font)
    (hu : UniqueTags font) (h : applyGlyphPatches infos gps font = .ok out) (iftx : Bool) :
    let tag := if iftx then TAG_IFTX else TAG_IFT
    match font.get tag with
    | none => bitsFor iftx infos = [] ∧ out.get tag = none
    | some d => ∃ d', out.get tag = some d' ∧ d'.length = d.length ∧
        (∀ b ∈ bitsFor iftx infos, b < 8 * d.length) ∧
        ∀ k, bitAt d' k = (bitAt d k || (bitsFor iftx infos).contains k) := by
  obtain ⟨tags, ift, iftx', _, _, hma, _, h1, h2, _, _⟩ := applyGlyphPatches_char infos gps font out hu h
  obtain ⟨m1, m2⟩ := markApplied_spec infos _ _ _ _ hma
  have key : ∀ (orig res : Option Bytes) (bits : List Nat), markedTable orig bits = some res →
      match orig with
      | none => bits = [] ∧ res = none
      | some d => ∃ d', res = some d' ∧ d'.length = d.length ∧ (∀ b ∈ bits, b < 8 * d.length) ∧
          ∀ k, bitAt d' k = (bitAt d k || bits.contains k) := by
    intro orig res bits hm
    cases orig with
    | none =>
      simp only [markedTable] at hm
      split at hm
      · rename_i hb; simp only [Option.some.injEq] at hm; exact ⟨hb, hm.symm⟩
      · cases hm
    | some d =>
      simp only [markedTable, Option.map_eq_some_iff] at hm
      obtain ⟨d', hs, hr⟩ := hm
      obtain ⟨s1, s2, s3⟩ := setBits_spec d d' bits hs
      exact ⟨d', hr.symm, s1, s2, s3⟩
  cases iftx with
  | false =>
    simp only [Bool.false_eq_true, if_false]
    have := key _ _ _ m1
    rw [h1]; exact this
  | true =>
    simp only [if_true]
    have := key _ _ _ m2
    rw [h2]; exact this

/-! ## order and grouping independence

`Agree tag gps` (Lemmas/IftOrder.lean): any two patches of the list that both carry data for a gid
(for table `tag`) carry the SAME data for it.  `AgreeAll gps`: `Agree tag gps` for each of the four
patchable tables glyf, gvar, `CFF `, CFF2.  A patch = (its `PatchInfo`, its decoded `GlyphPatches`). -/

/-- **glyph_keyed_order_independent.**  For patches — naming ANY mix of glyf / gvar / CFF / CFF2 /
ignored tags — that agree on shared gids, applying ANY permutation of the patch list succeeds iff the
original order does, with identical tables (the whole table directory, mapping tables with their
applied bits included). -/
theorem glyph_keyed_order_independent (ps ps' : List (PatchInfo × GlyphPatches)) (font out : Font)
    (hperm : ps.Perm ps') (hagree : AgreeAll (ps.map (·.2)))
    (h : applyGlyphPatches (ps.map (·.1)) (ps.map (·.2)) font = .ok out) :
    applyGlyphPatches (ps'.map (·.1)) (ps'.map (·.2)) font = .ok out :=
  applyGlyphPatches_perm ps ps' font out hperm hagree h

/-- **glyph_keyed_grouping_independent.**  Sequential partition, patches naming ANY mix of tables:
applying the patches `ps1`, then applying `ps2` to the resulting font, against applying `ps1 ++ ps2` in
one call (whenever the three applications succeed; patches agree on shared gids).  `TableAgree … t`
says for every tag `t`:
  * t ∉ {gvar, `CFF `, CFF2} (the mapping tables, glyf, loca, every other table): the two routes give the
    SAME bytes (or both no table);
  * `CFF ` / CFF2: the same bytes, or — `CffAgree` — two tables `cffEmit v2 pre count t (encodeOffs t os) data`
    with the same prefix before the charstrings INDEX (of the length recorded in `IFT `), the same count,
    the same decoded offsets `os`, the same charstring data, and offset types `t`, `t'` that may differ;
  * gvar: the same bytes provided the intermediate font's gvar and the two final gvar tables carry the
    same long-offsets flag (`GvarWidthsAgree`).
This is exactly known finding C18-offset-width-history-dependent: the offset width is only ever
widened, so a grouping with a larger intermediate table can leave wider offsets behind.
Hypotheses on the base font (`BaseOk`): maxp.numGlyphs < 65536 (a u16), gvar.glyphCount = maxp.numGlyphs,
the charstrings INDEX at the recorded offset has ascending offsets including the last one (the
code's own check skips the last entry).  `hift`: the applied bits of `ps1` do not disturb the
charstrings-offset fields of `IFT ` (genuine bit indices point into the applied-entries bitmap /
entry records, never into the header).  `hsz`: the intermediate gvar is below 4 GiB. -/
theorem glyph_keyed_grouping_independent (ps1 ps2 : List (PatchInfo × GlyphPatches))
    (font font1 out2 out12 : Font) (hu : UniqueTags font)
    (hagree : AgreeAll ((ps1 ++ ps2).map (·.2)))
    (h1 : applyGlyphPatches (ps1.map (·.1)) (ps1.map (·.2)) font = .ok font1)
    (h2 : applyGlyphPatches (ps2.map (·.1)) (ps2.map (·.2)) font1 = .ok out2)
    (h12 : applyGlyphPatches ((ps1 ++ ps2).map (·.1)) ((ps1 ++ ps2).map (·.2)) font = .ok out12)
    (hbase : BaseOk font)
    (hift : ∀ v2, iftCharstringsOffset (font1.get TAG_IFT) v2 = iftCharstringsOffset (font.get TAG_IFT) v2)
    (hsz : ∀ b, font1.get TAG_gvar = some b → b.length < 2 ^ 32) :
    ∀ t, TableAgree font font1 out2 out12 t :=
  (applyGlyphPatches_split ps1 ps2 font font1 out2 out12 hu hagree h1 h2 h12 hbase hift hsz).2.2

/-- **glyph_keyed_grouping_independent_same_widths.**  … and when the offset widths agree — the three
gvar long-offsets flags, and the offSize bytes of the two final CFF / CFF2 charstrings INDEXes — the two
routes give the identical font (every table, the directory included).  For patches naming only glyf
and ignored tags both conditions hold trivially (`glyph_keyed_grouping_independent_glyf`). -/
theorem glyph_keyed_grouping_independent_same_widths (ps1 ps2 : List (PatchInfo × GlyphPatches))
    (font font1 out2 out12 : Font) (hu : UniqueTags font)
    (hagree : AgreeAll ((ps1 ++ ps2).map (·.2)))
    (h1 : applyGlyphPatches (ps1.map (·.1)) (ps1.map (·.2)) font = .ok font1)
    (h2 : applyGlyphPatches (ps2.map (·.1)) (ps2.map (·.2)) font1 = .ok out2)
    (h12 : applyGlyphPatches ((ps1 ++ ps2).map (·.1)) ((ps1 ++ ps2).map (·.2)) font = .ok out12)
    (hbase : BaseOk font)
    (hift : ∀ v2, iftCharstringsOffset (font1.get TAG_IFT) v2 = iftCharstringsOffset (font.get TAG_IFT) v2)
    (hsz : ∀ b, font1.get TAG_gvar = some b → b.length < 2 ^ 32)
    (hgw : GvarWidthsAgree font1 out2 out12)
    (hcw : ∀ v2, cffOffSizeAt v2 (iftCharstringsOffset (font.get TAG_IFT) v2) (out2.get (cffTag v2))
                = cffOffSizeAt v2 (iftCharstringsOffset (font.get TAG_IFT) v2) (out12.get (cffTag v2))) :
    out2 = out12 := by
  obtain ⟨s2, s12, hall⟩ :=
    applyGlyphPatches_split ps1 ps2 font font1 out2 out12 hu hagree h1 h2 h12 hbase hift hsz
  apply sorted_lookup_ext _ _ s2 s12
  intro t
  show out2.get t = out12.get t
  have := hall t
  unfold TableAgree at this
  by_cases c1 : t = TAG_gvar
  · rw [if_pos c1] at this; exact this hgw
  · rw [if_neg c1] at this
    by_cases c2 : t = TAG_CFF
    · rw [if_pos c2] at this
      subst c2
      exact CffAgree.eq_of_offSize false _ _ _ this (hcw false)
    · rw [if_neg c2] at this
      by_cases c3 : t = TAG_CFF2
      · rw [if_pos c3] at this
        subst c3
        exact CffAgree.eq_of_offSize true _ _ _ this (hcw true)
      · rw [if_neg c3] at this; exact this

/-- **glyph_keyed_grouping_independent_glyf.**  Patches naming neither gvar nor `CFF ` nor CFF2 (glyf
and ignored tags only): ps1 then ps2 on the result = ps1 ++ ps2 in one call — the whole font is equal,
with no condition on the base font. -/
theorem glyph_keyed_grouping_independent_glyf (ps1 ps2 : List (PatchInfo × GlyphPatches))
    (font font1 out2 out12 : Font) (hu : UniqueTags font)
    (hagree : Agree TAG_glyf ((ps1 ++ ps2).map (·.2)))
    (hnone : ∀ x ∈ ps1 ++ ps2, TAG_gvar ∉ x.2.tables ∧ TAG_CFF ∉ x.2.tables ∧ TAG_CFF2 ∉ x.2.tables)
    (h1 : applyGlyphPatches (ps1.map (·.1)) (ps1.map (·.2)) font = .ok font1)
    (h2 : applyGlyphPatches (ps2.map (·.1)) (ps2.map (·.2)) font1 = .ok out2)
    (h12 : applyGlyphPatches ((ps1 ++ ps2).map (·.1)) ((ps1 ++ ps2).map (·.2)) font = .ok out12) :
    out2 = out12 :=
  applyGlyphPatches_split_glyf ps1 ps2 font font1 out2 out12 hu hagree hnone h1 h2 h12

/-- non-vacuity (and necessity of `Agree`): two AGREEING patches in both orders and split give the
same font -/
example :
    let font : Font := [(TAG_IFT, [2,0,0,0,0, 1,1,1,1,1,1,1,1,1,1,1,1,1,1,1,1, 0]), (TAG_glyf, [1,2,3,4]),
      (TAG_head, List.replicate 54 0), (TAG_loca, [0,0, 0,1, 0,2]), (TAG_maxp, [0,0,0x50,0, 0,2])]
    let gp0 : GlyphPatches := { glyphCount := 1, tables := [TAG_glyf], gids := [1], offsets := [3, 6], raw := [9,9,9,7,7,7] }
    let gp1 : GlyphPatches := { glyphCount := 2, tables := [TAG_glyf], gids := [0, 1], offsets := [1, 2, 5], raw := [9,5,7,7,7] }
    let i0 : PatchInfo := { uri := "a", iftx := false, compat := [], bit := 170 }
    let i1 : PatchInfo := { uri := "b", iftx := false, compat := [], bit := 3 }
    applyGlyphPatches [i0, i1] [gp0, gp1] font = applyGlyphPatches [i1, i0] [gp1, gp0] font ∧
    (match applyGlyphPatches [i1] [gp1] font with
     | .ok f1 => applyGlyphPatches [i0] [gp0] f1
     | .error e => .error e) = applyGlyphPatches [i0, i1] [gp0, gp1] font ∧
    (applyGlyphPatches [i0, i1] [gp0, gp1] font).toBool = true := by
  refine ⟨by rfl, by rfl, by rfl⟩

/-! ## error paths (an error carries no output: `Except`, so "not partial output" holds by type) -/

/-- **gid_beyond_maxp_is_error.**  If any patch carries data — for glyf, gvar, `CFF ` or CFF2 — for a
gid ≥ maxp.numGlyphs, the application fails, whatever else the patches contain. -/
theorem gid_beyond_maxp_is_error (infos : List PatchInfo) (gps : List GlyphPatches) (font : Font)
    (hu : UniqueTags font) (tag : Tag) (harm : IsArmTag tag) (g : Nat) (d : Bytes)
    (hl : firstWins tag gps g = some d) (hg : numGlyphs font ≤ g) :
    ∃ e, applyGlyphPatches infos gps font = .error e := by
  cases h : applyGlyphPatches infos gps font with
  | error e => exact ⟨e, rfl⟩
  | ok out =>
    exfalso
    have hnamed : ∃ gp ∈ gps, tag ∈ gp.tables := by
      apply Classical.byContradiction
      intro hno
      rw [firstWins_none_of_no_tag tag gps hno g] at hl
      cases hl
    obtain ⟨tags, _, _, hn, htags, _, _, _, _, harms, _⟩ := applyGlyphPatches_char infos gps font out hu h
    have hmem : tag ∈ tags := ((tableTagList_ok gps tags htags).2 _).mpr hnamed
    cases ha : armOf font gps (numGlyphs font - 1) tag with
    | none => exact ((armOf_none_iff _ _ _ _).mp ha) harm
    | some r =>
      obtain ⟨outs, e⟩ := harms tag hmem r ha
      subst e
      have := arm_ok_gids_le font gps _ tag outs ha g d hl
      omega

/-- **unsorted_gids_is_error.**  If a patch (as parsed by `GlyphPatches::read`) that names glyf, gvar,
`CFF ` or CFF2 has glyph ids that are not strictly ascending (unsorted or duplicated), the application
fails. -/
theorem unsorted_gids_is_error (infos : List PatchInfo) (gps : List GlyphPatches) (font : Font)
    (raw : Bytes) (wide : Bool) (gp : GlyphPatches) (hr : gpRead raw wide = .ok gp)
    (hmem : gp ∈ gps) (tag : Tag) (harm : IsArmTag tag) (hnamed : tag ∈ gp.tables)
    (hbad : ¬ gp.gids.Pairwise (· < ·)) :
    ∃ e, applyGlyphPatches infos gps font = .error e := by
  cases h : applyGlyphPatches infos gps font with
  | error e => exact ⟨e, rfl⟩
  | ok out =>
    exfalso
    obtain ⟨repl, hd⟩ := apply_ok_dedup infos gps font out h gp hmem tag harm hnamed
    obtain ⟨ti, hti⟩ := indexOfTag_some_of_mem tag gp.tables 0 hnamed
    obtain ⟨hpw, _⟩ := dedup_items_ok tag gps repl hd gp hmem ti hti
    obtain ⟨_, hm, _⟩ := tableItems_spec raw wide gp hr ti (by have := indexOfTag_lt _ _ _ _ hti; omega)
    apply hbad
    rw [← hm, List.pairwise_map]
    exact hpw

/-- **glyph_offset_out_of_bounds_is_error.**  If for some glyph `j` of a patch naming glyf / gvar / `CFF ` /
CFF2 (table index `ti`) the data offsets `(s, e)` are null, descending or beyond the decoded payload,
the application fails. -/
theorem glyph_offset_out_of_bounds_is_error (infos : List PatchInfo) (gps : List GlyphPatches)
    (font : Font) (raw : Bytes) (wide : Bool) (gp : GlyphPatches) (hr : gpRead raw wide = .ok gp)
    (hmem : gp ∈ gps) (tag : Tag) (harm : IsArmTag tag) (ti : Nat)
    (hti : indexOfTag tag gp.tables 0 = some ti)
    (j : Nat) (hj : j < gp.glyphCount)
    (hbad : gp.offsets.getD (ti * gp.glyphCount + j) 0 = 0 ∨
            gp.offsets.getD (ti * gp.glyphCount + j + 1) 0 < gp.offsets.getD (ti * gp.glyphCount + j) 0 ∨
            raw.length < gp.offsets.getD (ti * gp.glyphCount + j + 1) 0) :
    ∃ e, applyGlyphPatches infos gps font = .error e := by
  cases h : applyGlyphPatches infos gps font with
  | error e => exact ⟨e, rfl⟩
  | ok out =>
    exfalso
    have hlt := indexOfTag_lt _ _ _ _ hti
    have hnamed : tag ∈ gp.tables := by
      apply Classical.byContradiction
      intro hn; rw [indexOfTag_none _ _ _ hn] at hti; cases hti
    obtain ⟨repl, hd⟩ := apply_ok_dedup infos gps font out h gp hmem tag harm hnamed
    obtain ⟨_, hb⟩ := dedup_items_ok tag gps repl hd gp hmem ti hti
    obtain ⟨hlen, _, hidx⟩ := tableItems_spec raw wide gp hr ti (by omega)
    obtain ⟨_, _, hraw⟩ := gpRead_lengths raw wide gp hr
    have hj' : j < (tableItems gp ti).length := by rw [hlen]; exact hj
    obtain ⟨e1, e2⟩ := hidx j hj'
    have := hb _ (List.getElem_mem hj')
    rw [e1, e2, hraw] at this
    omega

/-- **patch_names_missing_table_is_error.**  A patch listing a table the font cannot offer is an
error, never a silently skipped table: glyf without glyf / loca / head in the font; gvar without gvar;
`CFF ` / CFF2 without that table or without a charstrings offset for it in the font's `IFT ` table
(the offset is never looked for in `IFTX` or in the Top DICT). -/
theorem patch_names_missing_table_is_error (infos : List PatchInfo) (gps : List GlyphPatches) (font : Font)
    (hu : UniqueTags font) (gp : GlyphPatches) (hmem : gp ∈ gps)
    (hbad : (TAG_glyf ∈ gp.tables ∧
              (font.get TAG_glyf = none ∨ font.get TAG_loca = none ∨ font.get TAG_head = none)) ∨
            (TAG_gvar ∈ gp.tables ∧ font.get TAG_gvar = none) ∨
            (∃ v2, cffTag v2 ∈ gp.tables ∧
              (font.get (cffTag v2) = none ∨ iftCharstringsOffset (font.get TAG_IFT) v2 = none))) :
    ∃ e, applyGlyphPatches infos gps font = .error e := by
  cases h : applyGlyphPatches infos gps font with
  | error e => exact ⟨e, rfl⟩
  | ok out =>
    exfalso
    obtain ⟨a1, a2⟩ := glyph_keyed_arm_tables infos gps font out hu h
    rcases hbad with ⟨hn, hmiss⟩ | ⟨hn, hmiss⟩ | ⟨v2, hn, hmiss⟩
    · obtain ⟨a, _, ha, _⟩ := glyph_keyed_splice_spec infos gps font out hu h ⟨gp, hmem, hn⟩
      obtain ⟨_, _, _, g1, g2, g3, _⟩ := glyfAndLoca_some font a ha
      rcases hmiss with e | e | e
      · rw [e] at g1; cases g1
      · rw [e] at g3; cases g3
      · rw [e] at g2; cases g2
    · obtain ⟨b, _, hb, _⟩ := a1 ⟨gp, hmem, hn⟩
      rw [hmiss] at hb; cases hb
    · obtain ⟨b, o, hb, _, hp⟩ := a2 v2 ⟨gp, hmem, hn⟩
      rcases hmiss with e | e
      · rw [e] at hb; cases hb
      · unfold cffPatch at hp
        rw [e] at hp; cases hp

/-- **every_patch_compat_checked.**  `apply_glyph_keyed_patches` checks the compatibility id of
EVERY patch of the group, not only the first one under a mapping table: if ANY patch in the list (at
any position) was selected under a mapping-table id that differs from the font's current id for
that table, or carries a different id in its own header, the result is an error, and the SAME error
for every decoder — the decoder is never consulted. -/
theorem every_patch_compat_checked (patches : List (PatchInfo × Bytes)) (font : Font)
    (info : PatchInfo) (p : Bytes) (hmem : (info, p) ∈ patches) (id : Bytes)
    (hid : fontCompatId font info.tag = .ok id)
    (hm : id ≠ info.compat ∨ ∃ hd, gkRead p = .ok hd ∧ hd.compat ≠ id) :
    ∃ e, ∀ dec : Decoder, applyGlyphKeyed patches font dec = .error e := by
  cases hc : checkGlyphKeyed font patches with
  | error e => exact ⟨e, fun dec => by simp [applyGlyphKeyed, hc]⟩
  | ok hs =>
    exfalso
    obtain ⟨_, hall⟩ := checkGlyphKeyed_all font patches hs hc
    obtain ⟨c1, hd, c2, c3, _⟩ := hall (info, p) hmem
    simp only at c1 c2 c3
    rw [hid] at c1
    simp only [Except.ok.injEq] at c1
    rcases hm with hm | ⟨hd', g1, g2⟩
    · exact hm c1
    · rw [c2] at g1
      simp only [Except.ok.injEq] at g1
      subst g1
      exact g2 (by rw [c3, c1])

/-- a missing mapping table for ANY patch of the group is an error before anything is decoded -/
theorem glyph_keyed_missing_mapping_table_is_error (patches : List (PatchInfo × Bytes)) (font : Font)
    (info : PatchInfo) (p : Bytes) (hmem : (info, p) ∈ patches) (h : font.get info.tag = none) :
    ∃ e, ∀ dec : Decoder, applyGlyphKeyed patches font dec = .error e := by
  cases hc : checkGlyphKeyed font patches with
  | error e => exact ⟨e, fun dec => by simp [applyGlyphKeyed, hc]⟩
  | ok hs =>
    exfalso
    obtain ⟨_, hall⟩ := checkGlyphKeyed_all font patches hs hc
    obtain ⟨c1, _⟩ := hall (info, p) hmem
    simp only [fontCompatId, h] at c1
    cases c1

/-- non-vacuity of `every_patch_compat_checked`: the SECOND patch of a group carries a foreign id -/
example :
    let font : Font := [(TAG_IFT, [2,0,0,0,0, 1,1,1,1,1,1,1,1,1,1,1,1,1,1,1,1, 0])]
    let good : Bytes := [0x69,0x66,0x67,0x6b, 0,0,0,0, 0, 1,1,1,1,1,1,1,1,1,1,1,1,1,1,1,1, 0,0,0,9]
    let bad : Bytes := [0x69,0x66,0x67,0x6b, 0,0,0,0, 0, 1,1,1,1,1,1,1,1,1,1,1,1,1,1,1,2, 0,0,0,9]
    let i : PatchInfo := { uri := "a", iftx := false, compat := [1,1,1,1,1,1,1,1,1,1,1,1,1,1,1,1], bit := 0 }
    checkGlyphKeyed font [(i, good), (i, bad)] = .error .incompatiblePatch ∧
    checkGlyphKeyed font [(i, bad), (i, good)] = .error .incompatiblePatch ∧
    (checkGlyphKeyed font [(i, good), (i, good)]).toBool = true := by
  refine ⟨by rfl, by rfl, by rfl⟩

/-- **glyph_keyed_decoder_failure_is_error.**  For ANY decoder: if the decoder fails (any error kind)
on the call made for the k-th patch of the group (calls are made in patch order, `dec k …`), or a
patch does not carry the 'ifgk' tag, `apply_glyph_keyed_patches` returns an error — success implies
that every one of the `n` decoder calls returned `ok`.  (The caller's status map is then untouched:
`round_atomic`.) -/
theorem glyph_keyed_decoder_failure_is_error (hs : List (PatchInfo × GKHeader)) (font : Font)
    (dec : Decoder) (k : Nat) (hk : k < hs.length) (e : DErr)
    (hfail : dec k hs[k].2.stream none hs[k].2.maxLen = .error e) :
    ∃ e', applyGlyphKeyedCore hs font dec = .error e' := by
  cases h : applyGlyphKeyedCore hs font dec with
  | error e' => exact ⟨e', rfl⟩
  | ok out =>
    exfalso
    unfold applyGlyphKeyedCore at h
    cases hd : decodeAll dec (hs.map (·.2)) 0 with
    | error x => rw [hd] at h; cases h
    | ok raws =>
      obtain ⟨_, hall⟩ := decodeAll_ok dec _ 0 raws hd
      obtain ⟨_, raw, hr, _⟩ := hall k (by simpa using hk)
      simp only [List.getElem_map, Nat.zero_add] at hr
      rw [hfail] at hr
      cases hr

/-- **offset_width_widened_iff_needed** (generic `patch_offset_array`, any offset type family —
glyf/loca, gvar, CFF/CFF2 charstrings): on success the chosen offset type can represent the new
total data size; it is the table's current type whenever that fits; otherwise it is the FIRST
available type (ascending order) that fits.  With `patchOffsetArray_eq` (Lemmas/IftSplice.lean) the
data / offset array are the concatenation / running starts of the per-glyph chunks for that type. -/
theorem offset_width_widened_iff_needed (a : OffsetArray) (repl : List (Nat × Bytes)) (maxGid : Nat)
    (t : OffsetType) (data offs : Bytes) (h : patchOffsetArray a repl maxGid = .ok (t, data, offs)) :
    ∃ total, totalDataSize a repl maxGid = .ok total ∧ total ≤ t.maxRepresentable ∧
      (total ≤ a.offsetType.maxRepresentable → t = a.offsetType) ∧
      (a.offsetType.maxRepresentable < total →
        ∃ pre post, a.available = pre ++ t :: post ∧ ∀ c ∈ pre, c.maxRepresentable < total) := by
  obtain ⟨total, h1, h2, _, _⟩ := patchOffsetArray_ok a repl maxGid t data offs h
  obtain ⟨c1, c2, c3⟩ := chooseOffsetType_spec a total t h2
  exact ⟨total, h1, c1, c2, fun hlt => (c3 hlt).2⟩

/-- **glyf_loca_never_widens.**  glyf/loca offers no other offset type: when the patched glyf would
exceed what the font's loca format can address (short loca: 0x1FFFE bytes) the result is the
offset-overflow error, never a widened or truncated table. -/
theorem glyf_loca_never_widens (font : Font) (a : OffsetArray) (ha : glyfAndLoca font = some a)
    (repl : List (Nat × Bytes)) (maxGid total : Nat) (ht : totalDataSize a repl maxGid = .ok total)
    (hbig : a.offsetType.maxRepresentable < total) :
    patchOffsetArray a repl maxGid = .error (.serializationError SER_OFFSET_OVERFLOW) := by
  obtain ⟨_, _, _, _, _, _, _, _, hav, _⟩ := glyfAndLoca_some font a ha
  unfold patchOffsetArray
  rw [ht]
  simp only
  have : chooseOffsetType a total = .error (.serializationError SER_OFFSET_OVERFLOW) := by
    unfold chooseOffsetType
    rw [if_pos hbig, hav]
    have : decide (a.offsetType.maxRepresentable ≥ total) = false := by
      simp only [decide_eq_false_iff_not]; omega
    simp [List.find?, this]
  rw [this]

example : OffsetType.shortDivByTwo.maxRepresentable = 0x1FFFE := by decide

/-! ## order / grouping independence at the entry point `apply_glyph_keyed_patches` (patch BYTES + decoder)

`Stateless dec`: the decoder is a function of (stream, dictionary, max length) — like the real brotli
decoders; the fault-injecting decoders (fail on the k-th call) are deliberately excluded here, for
them the outcome depends on the order by construction.  `prepAll font dec patches` (Lemmas/
IftPipeline.lean) = the list of (info, decoded + parsed payload) the front half of the function
computes, `none` if any patch fails a compat check, the header read, the tag check, decoding or
parsing (`applyGlyphKeyed_ok_iff`). -/

/-- **glyph_keyed_order_independent_entry.**  Whole entry point, any stateless decoder, patches naming
any mix of tables: if the decoded patches agree on shared gids, every permutation of the
(info, patch bytes) list yields the same font. -/
theorem glyph_keyed_order_independent_entry (patches patches' : List (PatchInfo × Bytes)) (font out : Font)
    (dec : Decoder) (hst : Stateless dec) (hperm : patches.Perm patches')
    (hagree : ∀ ps, prepAll font dec patches = some ps → AgreeAll (ps.map (·.2)))
    (h : applyGlyphKeyed patches font dec = .ok out) :
    applyGlyphKeyed patches' font dec = .ok out := by
  obtain ⟨ps, hp, ha⟩ := (applyGlyphKeyed_ok_iff font dec hst patches out).mp h
  obtain ⟨ps', hp', hperm'⟩ := prepAll_perm font dec patches patches' hperm ps hp
  exact (applyGlyphKeyed_ok_iff font dec hst patches' out).mpr
    ⟨ps', hp', applyGlyphPatches_perm ps ps' font out hperm' (hagree ps hp) ha⟩

/-- **glyph_keyed_grouping_independent_entry.**  Whole entry point, any stateless decoder, any mix of
tables: applying the patch bytes `p1`, then `p2` to the result, against applying `p1 ++ p2` in one call:
every table agrees in the sense of `glyph_keyed_grouping_independent` (`TableAgree`: identical bytes,
except gvar under the long-flag condition and CFF / CFF2 up to offSize). -/
theorem glyph_keyed_grouping_independent_entry (p1 p2 : List (PatchInfo × Bytes))
    (font font1 out2 out12 : Font) (dec : Decoder) (hst : Stateless dec) (hu : UniqueTags font)
    (hagree : ∀ ps, prepAll font dec (p1 ++ p2) = some ps → AgreeAll (ps.map (·.2)))
    (h1 : applyGlyphKeyed p1 font dec = .ok font1)
    (h2 : applyGlyphKeyed p2 font1 dec = .ok out2)
    (h12 : applyGlyphKeyed (p1 ++ p2) font dec = .ok out12)
    (hbase : BaseOk font)
    (hift : ∀ v2, iftCharstringsOffset (font1.get TAG_IFT) v2 = iftCharstringsOffset (font.get TAG_IFT) v2)
    (hsz : ∀ b, font1.get TAG_gvar = some b → b.length < 2 ^ 32) :
    ∀ t, TableAgree font font1 out2 out12 t := by
  obtain ⟨ps1, hp1, ha1⟩ := (applyGlyphKeyed_ok_iff font dec hst p1 font1).mp h1
  obtain ⟨ps2', hp2', ha2⟩ := (applyGlyphKeyed_ok_iff font1 dec hst p2 out2).mp h2
  obtain ⟨ps12, hp12, ha12⟩ := (applyGlyphKeyed_ok_iff font dec hst (p1 ++ p2) out12).mp h12
  obtain ⟨q1, q2, e1, e2, e3⟩ := prepAll_append font dec p1 p2 ps12 hp12
  rw [hp1] at e1
  simp only [Option.some.injEq] at e1
  subst e1
  have : ps2' = q2 := prepAll_font_indep font1 font dec p2 ps2' q2 hp2' e2
  subst this e3
  exact (applyGlyphPatches_split ps1 ps2' font font1 out2 out12 hu (hagree _ hp12) ha1 ha2 ha12
    hbase hift hsz).2.2

/-- **glyph_keyed_grouping_independent_entry_glyf.**  … and for patches naming neither gvar nor `CFF ` nor
CFF2 the two routes give the identical font, with no condition on the base font. -/
theorem glyph_keyed_grouping_independent_entry_glyf (p1 p2 : List (PatchInfo × Bytes))
    (font font1 out2 out12 : Font) (dec : Decoder) (hst : Stateless dec) (hu : UniqueTags font)
    (hagree : ∀ ps, prepAll font dec (p1 ++ p2) = some ps →
      Agree TAG_glyf (ps.map (·.2)) ∧
      ∀ x ∈ ps, TAG_gvar ∉ x.2.tables ∧ TAG_CFF ∉ x.2.tables ∧ TAG_CFF2 ∉ x.2.tables)
    (h1 : applyGlyphKeyed p1 font dec = .ok font1)
    (h2 : applyGlyphKeyed p2 font1 dec = .ok out2)
    (h12 : applyGlyphKeyed (p1 ++ p2) font dec = .ok out12) :
    out2 = out12 := by
  obtain ⟨ps1, hp1, ha1⟩ := (applyGlyphKeyed_ok_iff font dec hst p1 font1).mp h1
  obtain ⟨ps2', hp2', ha2⟩ := (applyGlyphKeyed_ok_iff font1 dec hst p2 out2).mp h2
  obtain ⟨ps12, hp12, ha12⟩ := (applyGlyphKeyed_ok_iff font dec hst (p1 ++ p2) out12).mp h12
  obtain ⟨q1, q2, e1, e2, e3⟩ := prepAll_append font dec p1 p2 ps12 hp12
  rw [hp1] at e1
  simp only [Option.some.injEq] at e1
  subst e1
  have : ps2' = q2 := prepAll_font_indep font1 font dec p2 ps2' q2 hp2' e2
  subst this e3
  obtain ⟨g1, g2⟩ := hagree _ hp12
  exact applyGlyphPatches_split_glyf ps1 ps2' font font1 out2 out12 hu g1 g2 ha1 ha2 ha12

/-! ### the same for a pure decoder function (no `Stateless` hypothesis left)

ASSUMPTION about the real code, not proved: the brotli decoders behind `SharedBrotliDecoder` (c_brotli.rs,
rust_brotli.rs) compute a pure function of (encoded stream, optional dictionary, max length) — they keep no
state between calls.  `pureDecoder f` is the model's decoder for such a function `f`. -/

/-- **glyph_keyed_order_independent_pure.**  For ANY pure decoding function `f`: if the decoded patches
agree on shared gids, every permutation of the (info, patch bytes) list yields the same font. -/
theorem glyph_keyed_order_independent_pure (f : Bytes → Option Bytes → Nat → Except DErr Bytes)
    (patches patches' : List (PatchInfo × Bytes)) (font out : Font) (hperm : patches.Perm patches')
    (hagree : ∀ ps, prepAll font (pureDecoder f) patches = some ps → AgreeAll (ps.map (·.2)))
    (h : applyGlyphKeyed patches font (pureDecoder f) = .ok out) :
    applyGlyphKeyed patches' font (pureDecoder f) = .ok out :=
  glyph_keyed_order_independent_entry patches patches' font out (pureDecoder f) (pureDecoder_stateless f)
    hperm hagree h

/-- **glyph_keyed_grouping_independent_pure.**  For ANY pure decoding function `f`, any mix of tables:
`p1` then `p2` on the result against `p1 ++ p2` in one call — every table agrees (`TableAgree`, see
`glyph_keyed_grouping_independent`). -/
theorem glyph_keyed_grouping_independent_pure (f : Bytes → Option Bytes → Nat → Except DErr Bytes)
    (p1 p2 : List (PatchInfo × Bytes)) (font font1 out2 out12 : Font) (hu : UniqueTags font)
    (hagree : ∀ ps, prepAll font (pureDecoder f) (p1 ++ p2) = some ps → AgreeAll (ps.map (·.2)))
    (h1 : applyGlyphKeyed p1 font (pureDecoder f) = .ok font1)
    (h2 : applyGlyphKeyed p2 font1 (pureDecoder f) = .ok out2)
    (h12 : applyGlyphKeyed (p1 ++ p2) font (pureDecoder f) = .ok out12)
    (hbase : BaseOk font)
    (hift : ∀ v2, iftCharstringsOffset (font1.get TAG_IFT) v2 = iftCharstringsOffset (font.get TAG_IFT) v2)
    (hsz : ∀ b, font1.get TAG_gvar = some b → b.length < 2 ^ 32) :
    ∀ t, TableAgree font font1 out2 out12 t :=
  glyph_keyed_grouping_independent_entry p1 p2 font font1 out2 out12 (pureDecoder f)
    (pureDecoder_stateless f) hu hagree h1 h2 h12 hbase hift hsz

/-- **glyph_keyed_grouping_independent_pure_glyf.**  … and for patches naming neither gvar nor `CFF ` nor
CFF2 the two routes give the identical font. -/
theorem glyph_keyed_grouping_independent_pure_glyf (f : Bytes → Option Bytes → Nat → Except DErr Bytes)
    (p1 p2 : List (PatchInfo × Bytes)) (font font1 out2 out12 : Font) (hu : UniqueTags font)
    (hagree : ∀ ps, prepAll font (pureDecoder f) (p1 ++ p2) = some ps →
      Agree TAG_glyf (ps.map (·.2)) ∧
      ∀ x ∈ ps, TAG_gvar ∉ x.2.tables ∧ TAG_CFF ∉ x.2.tables ∧ TAG_CFF2 ∉ x.2.tables)
    (h1 : applyGlyphKeyed p1 font (pureDecoder f) = .ok font1)
    (h2 : applyGlyphKeyed p2 font1 (pureDecoder f) = .ok out2)
    (h12 : applyGlyphKeyed (p1 ++ p2) font (pureDecoder f) = .ok out12) :
    out2 = out12 :=
  glyph_keyed_grouping_independent_entry_glyf p1 p2 font font1 out2 out12 (pureDecoder f)
    (pureDecoder_stateless f) hu hagree h1 h2 h12

/-- non-vacuity: the harness's identity decoder is `pureDecoder` of a function, and applies a real patch -/
example :
    let f : Bytes → Option Bytes → Nat → Except DErr Bytes := fun s _ _ => .ok s
    let font : Font := [(TAG_IFT, [2,0,0,0,0, 1,1,1,1,1,1,1,1,1,1,1,1,1,1,1,1, 0])]
    let p : Bytes := [0x69,0x66,0x67,0x6b, 0,0,0,0, 0, 1,1,1,1,1,1,1,1,1,1,1,1,1,1,1,1, 0,0,0,21,
                      0,0,0,1, 1, 0,1, 0x67,0x6c,0x79,0x66, 0,0,0,19, 0,0,0,21, 7,7]
    let i : PatchInfo := { uri := "a", iftx := false, compat := [1,1,1,1,1,1,1,1,1,1,1,1,1,1,1,1], bit := 0 }
    (prepAll font (pureDecoder f) [(i, p)]).isSome = true := by rfl

/-- **glyph_keyed_entry_reduces.**  For ANY decoder (fault-injecting ones included): a successful
`apply_glyph_keyed_patches` on patch bytes is compat checks ✓ for every patch, `n` successful decoder
calls `dec 0 … dec (n-1)` in patch order, `n` successful payload parses, and then `applyGlyphPatches`
on the patches' infos and the parsed payloads — so `glyph_keyed_splice_spec`,
`glyph_keyed_other_tables_unchanged`, `applied_bits_exact` and the error-path theorems speak about
the output of the entry point. -/
theorem glyph_keyed_entry_reduces (patches : List (PatchInfo × Bytes)) (font out : Font) (dec : Decoder)
    (h : applyGlyphKeyed patches font dec = .ok out) :
    ∃ hs raws gps, checkGlyphKeyed font patches = .ok hs ∧ hs.map (·.1) = patches.map (·.1) ∧
      decodeAll dec (hs.map (·.2)) 0 = .ok raws ∧
      parseAll (List.zip raws (hs.map (·.2))) = .ok gps ∧
      applyGlyphPatches (patches.map (·.1)) gps font = .ok out := by
  unfold applyGlyphKeyed at h
  cases hc : checkGlyphKeyed font patches with
  | error e => rw [hc] at h; cases h
  | ok hs =>
    rw [hc] at h
    simp only at h
    unfold applyGlyphKeyedCore at h
    cases hd : decodeAll dec (hs.map (·.2)) 0 with
    | error e => rw [hd] at h; cases h
    | ok raws =>
      rw [hd] at h
      simp only at h
      cases hp : parseAll (List.zip raws (hs.map (·.2))) with
      | error e => rw [hp] at h; cases h
      | ok gps =>
        rw [hp] at h
        simp only at h
        have hm := (checkGlyphKeyed_all font patches hs hc).1
        exact ⟨hs, raws, gps, rfl, hm, hd, hp, by rw [← hm]; exact h⟩

/-- non-vacuity: `prepAll` on a real (info, patch bytes) pair with the identity decoder -/
example :
    let font : Font := [(TAG_IFT, [2,0,0,0,0, 1,1,1,1,1,1,1,1,1,1,1,1,1,1,1,1, 0])]
    let p : Bytes := [0x69,0x66,0x67,0x6b, 0,0,0,0, 0, 1,1,1,1,1,1,1,1,1,1,1,1,1,1,1,1, 0,0,0,21,
                      0,0,0,1, 1, 0,1, 0x67,0x6c,0x79,0x66, 0,0,0,19, 0,0,0,21, 7,7]
    let i : PatchInfo := { uri := "a", iftx := false, compat := [1,1,1,1,1,1,1,1,1,1,1,1,1,1,1,1], bit := 0 }
    (prepAll font (fun _ s _ _ => .ok s) [(i, p)]).map (fun ps => ps.map (fun x => (x.2.gids, x.2.tables, patchData TAG_glyf x.2)))
      = some [([1], [TAG_glyf], [(1, [7,7])])] := by rfl

/-! ## gvar (Model/GvarKeyed.lean: the `Gvar::TAG` arm — `font.gvar()`, `patch_offset_array`,
`Gvar::add_to_font` — as a function `gvarPatch gvarTable patches maxGid` of the one table; tied to the
real `apply_glyph_keyed_patches` by the `gvar_patch` correspondence group) -/

/-- **gvar_patch_spec.**  If the gvar arm succeeds (emitted table below 4 GiB): the offset type `t` of
the new table is short or long, it can address the new total, and it is the old type whenever that
still fits (widening only when needed).  When gvar's glyph count matches maxp, the new table reads
back (`gvarRead`, the reader used on the input) with the same axis count, shared tuple count and
glyph count, the long-offsets flag set iff `t` is long, the SAME shared tuples, `maxGid+2` ascending
offsets from 0 to the length of the data area, every listed gid ≤ maxGid, and for EVERY gid the
glyph variation data is the first-wins patch data (padded to even under short offsets), else the
old data. -/
theorem gvar_patch_spec (b : Bytes) (gps : List GlyphPatches) (m : Nat) (out : Bytes)
    (h : gvarPatch (some b) gps m = .ok out) (hsz : out.length < 2 ^ 32) :
    ∃ v t, gvarRead b = some v ∧ (t = .long ∨ t = .shortDivByTwo) ∧
      (∃ repl total, dedup TAG_gvar gps = .ok repl ∧ totalDataSize (gvarArray b v) repl m = .ok total ∧
          total ≤ t.maxRepresentable ∧ (total ≤ (gvarCurType v).maxRepresentable → t = gvarCurType v)) ∧
      (v.glyphCount = m + 1 →
        ∃ v', gvarRead out = some v' ∧ v'.axisCount = v.axisCount ∧ v'.sharedTupleCount = v.sharedTupleCount ∧
          v'.glyphCount = v.glyphCount ∧ v'.long = decide (t = .long) ∧
          gvarSharedTuples out v' = gvarSharedTuples b v ∧
          v'.offsets.length = m + 2 ∧ v'.offsets.getD 0 0 = 0 ∧
          v'.offsets.getD (m + 1) 0 = (out.drop v'.arrayOffset).length ∧
          v'.offsets.Pairwise (· ≤ ·) ∧
          (∀ g d, firstWins TAG_gvar gps g = some d → g ≤ m) ∧
          ∀ g, g ≤ m → glyphAt v'.offsets (out.drop v'.arrayOffset) g =
            match firstWins TAG_gvar gps g with
            | some d => padTo t d
            | none => glyphAt v.offsets (b.drop v.arrayOffset) g) :=
  gvarPatch_spec b gps m out h hsz

/-- **gvar_patch_order_independent.**  The new gvar table does not depend on the order of patches
that agree on shared gids (one call; across calls the offset width may differ — known finding
C18-offset-width-history-dependent). -/
theorem gvar_patch_order_independent (g : Option Bytes) (gps gps' : List GlyphPatches) (m : Nat)
    (out : Bytes) (hp : gps.Perm gps') (ha : Agree TAG_gvar gps) (h : gvarPatch g gps m = .ok out) :
    gvarPatch g gps' m = .ok out :=
  gvarPatch_perm g gps gps' m out hp ha h

/-- **gvar_patch_grouping_independent.**  The gvar arm in two steps: when the intermediate table and the
two final tables carry the same long-offsets flag, `gps1` then `gps2` on the result gives byte for byte
the table of `gps1 ++ gps2` in one go (base gvar with glyphCount = maxGid + 1, intermediate table below
4 GiB).  Without the flag condition the tables may differ in the flag, the offset encoding and the zero
pad byte short offsets force — known finding C18-offset-width-history-dependent.  The condition on the
INTERMEDIATE table is needed too: odd-length data written while the table still had short offsets keeps
its pad byte when a later patch widens the table, whereas the one-call result (long from the start)
has none (harness: `boundary#gvar-pad-history`, both final tables long, 1 byte apart). -/
theorem gvar_patch_grouping_independent (b : Bytes) (gps1 gps2 : List GlyphPatches) (m : Nat)
    (out1 out2 out12 : Bytes)
    (hgc : ∀ v, gvarRead b = some v → v.glyphCount = m + 1) (hsz : out1.length < 2 ^ 32)
    (hagree : Agree TAG_gvar (gps1 ++ gps2))
    (h1 : gvarPatch (some b) gps1 m = .ok out1)
    (h2 : gvarPatch (some out1) gps2 m = .ok out2)
    (h12 : gvarPatch (some b) (gps1 ++ gps2) m = .ok out12)
    (hw1 : gvarLongBit out1 = gvarLongBit out12) (hw2 : gvarLongBit out2 = gvarLongBit out12) :
    out2 = out12 :=
  gvarPatch_two_step b gps1 gps2 m out1 out2 out12 hgc hsz hagree h1 h2 h12 hw1 hw2

/-- **gvar_without_glyph_data_is_error** (records known finding C18-gvar-all-glyph-data-empty in the
model): when the patched gvar would carry no glyph variation data at all the arm answers
`SerializationError(NONE)` instead of emitting the table. -/
theorem gvar_without_glyph_data_is_error (b : Bytes) (v : GvarView) (t : OffsetType) (offs : Bytes)
    (hlen : ¬ (t = gvarCurType v ∧ offs.length ≠ (v.glyphCount + 1) * v.width)) :
    gvarAssemble b v t [] offs = .error (.serializationError 0) := by
  unfold gvarAssemble
  rw [if_neg hlen]
  simp

/-- non-vacuity: a 2-glyph short gvar (1 axis, 1 shared tuple), gid 0 := 3 bytes (padded to 4) -/
example :
    let gv : Bytes := [0,1,0,0, 0,1, 0,1, 0,0,0,26, 0,2, 0,0, 0,0,0,28, 0,0, 0,1, 0,2, 0xAA,0xBB, 1,2,3,4]
    let gp : GlyphPatches := { glyphCount := 1, tables := [TAG_gvar], gids := [0], offsets := [1, 4], raw := [9,7,7,7] }
    gvarPatch (some gv) [gp] 1 =
      .ok [0,1,0,0, 0,1, 0,1, 0,0,0,26, 0,2, 0,0, 0,0,0,28, 0,0, 0,2, 0,3, 0xAA,0xBB, 7,7,7,0, 3,4] := by rfl

/-! ## CFF / CFF2 (Model/CffKeyed.lean: the `Cff::TAG` / `Cff2::TAG` arms — charstrings offset from the font's
`IFT ` table, `Cff::read` / `Cff2::read`, `Index1::read` / `Index2::read` at that offset, `patch_offset_array`,
`CFFAndCharStrings::add_to_font` — as a function `cffPatch v2 ift table patches maxGid` of the two tables;
tied to the real `apply_glyph_keyed_patches` by the `cff_patch` and `gk` correspondence groups)

Vocabulary: `cffView v2 b at m` = the charstrings INDEX the code finds (`IndexView`: count, offSize, offset
bytes, data) and its offset type; `cffOffsets ix` = the decoded offsets (bias 1 removed); `cffTag v2` =
`CFF ` / CFF2; `cffCountWidth v2` = 2 / 4; `IsCffType t` = t is one of the four CFF offset types
(width 1..4, divisor 1, bias 1, max representable 2^(8w) - 2). -/

/-- **cff_patch_spec.**  If the CFF / CFF2 arm succeeds (maxGid + 1 < 65536: maxp.numGlyphs is a u16): the
charstrings offset `at` comes from the `IFT ` table, the base table passed `cffView`; the new offset type
`t` is a CFF type that can address the new total, it is the old one whenever that still fits, otherwise
the FIRST of offSize 1, 2, 3, 4 that fits (`offset_width_widened_iff_needed` instantiated); every
listed gid is ≤ maxGid.  When the base INDEX's decoded offsets ascend (the last one included — the
code's own check skips it): the new table keeps the bytes before `at` unchanged, an INDEX reads back
at `at` with count = maxGid + 1, offSize = the width of `t`, all `maxGid + 2` offsets readable, ascending
from 0 to the length of the data area — which ends the table — and for EVERY gid the charstring is the
data of the FIRST patch listing it, else the old charstring. -/
theorem cff_patch_spec (v2 : Bool) (ift : Option Bytes) (b : Bytes) (gps : List GlyphPatches) (m : Nat)
    (out : Bytes) (h : cffPatch v2 ift (some b) gps m = .ok out) (hm : m + 1 < 65536) :
    ∃ at_ ix t0 t, iftCharstringsOffset ift v2 = some at_ ∧ cffView v2 b at_ m = .ok (ix, t0) ∧
      IsCffType t0 ∧ IsCffType t ∧
      (∃ repl total, dedup (cffTag v2) gps = .ok repl ∧
        totalDataSize (cffArray ix t0) repl m = .ok total ∧ total ≤ t.maxRepresentable ∧
        (total ≤ t0.maxRepresentable → t = t0) ∧
        (t0.maxRepresentable < total →
          ∃ pre post, [OffsetType.cffOne, .cffTwo, .cffThree, .cffFour] = pre ++ t :: post ∧
            ∀ c ∈ pre, c.maxRepresentable < total)) ∧
      (∀ g d, firstWins (cffTag v2) gps g = some d → g ≤ m) ∧
      (ascending (cffOffsets ix) = true →
        at_ ≤ out.length ∧ out.take at_ = b.take at_ ∧
        ∃ ix', indexRead (cffCountWidth v2) (out.drop at_) = .ok ix' ∧
          ix'.count = m + 1 ∧ ix'.offSize = t.width ∧
          cffOffsetOpts ix' = (cffOffsets ix').map some ∧
          (cffOffsets ix').length = m + 2 ∧ (cffOffsets ix').getD 0 0 = 0 ∧
          (cffOffsets ix').getD (m + 1) 0 = ix'.data.length ∧
          (cffOffsets ix').Pairwise (· ≤ ·) ∧
          ∀ g, g ≤ m → glyphAt (cffOffsets ix') ix'.data g =
            match firstWins (cffTag v2) gps g with
            | some d => d
            | none => glyphAt (cffOffsets ix) ix.data g) :=
  cffPatch_spec v2 ift b gps m out h hm

/-- **cff_order_independent.**  The new CFF / CFF2 table does not depend on the order of patches that
agree on shared gids (one call: same bytes, offSize included). -/
theorem cff_order_independent (v2 : Bool) (ift table : Option Bytes) (gps gps' : List GlyphPatches) (m : Nat)
    (out : Bytes) (hp : gps.Perm gps') (ha : Agree (cffTag v2) gps)
    (h : cffPatch v2 ift table gps m = .ok out) : cffPatch v2 ift table gps' m = .ok out :=
  cffPatch_perm v2 ift table gps gps' m out hp ha h

/-- **cff_grouping_independent.**  The arm in two steps (`gps1`, then `gps2` on the result) against
`gps1 ++ gps2` in one go: both results are `cffEmit v2 (b.take at) (maxGid+1) t (encodeOffs t os) data`
— the same bytes before the charstrings INDEX, the same count, the same decoded offsets `os`, the same
charstring data — with CFF offset types `t2`, `t12` that may differ only in the way known finding
C18-offset-width-history-dependent says: the two-step offSize is never narrower than the one-call
offSize (`t12.width ≤ t2.width`), and when the intermediate table keeps the base table's offSize (no
widening in the first step) the two results are byte-identical.  Equal offSize ⇒ equal bytes. -/
theorem cff_grouping_independent (v2 : Bool) (ift : Option Bytes) (b : Bytes) (gps1 gps2 : List GlyphPatches)
    (m : Nat) (out1 out2 out12 : Bytes) (hm : m + 1 < 65536)
    (hasc : ∀ at_ ix t0, iftCharstringsOffset ift v2 = some at_ → cffView v2 b at_ m = .ok (ix, t0) →
      ascending (cffOffsets ix) = true)
    (hagree : Agree (cffTag v2) (gps1 ++ gps2))
    (h1 : cffPatch v2 ift (some b) gps1 m = .ok out1)
    (h2 : cffPatch v2 ift (some out1) gps2 m = .ok out2)
    (h12 : cffPatch v2 ift (some b) (gps1 ++ gps2) m = .ok out12) :
    ∃ at_ os data t2 t12, iftCharstringsOffset ift v2 = some at_ ∧ at_ ≤ b.length ∧
      IsCffType t2 ∧ IsCffType t12 ∧
      out2 = cffEmit v2 (b.take at_) (m + 1) t2 (encodeOffs t2 os) data ∧
      out12 = cffEmit v2 (b.take at_) (m + 1) t12 (encodeOffs t12 os) data ∧
      t12.width ≤ t2.width ∧
      (t2.width = t12.width → out2 = out12) ∧
      (∀ ix t0, cffView v2 b at_ m = .ok (ix, t0) →
        (out1.drop (at_ + cffCountWidth v2)).headD 0 = t0.width → out2 = out12) := by
  obtain ⟨at_, os, data, t2, t12, a1, a2, a3, a4, a5, a6, a7, a8⟩ :=
    cffPatch_two_step v2 ift b gps1 gps2 m out1 out2 out12 hm hasc hagree h1 h2 h12
  refine ⟨at_, os, data, t2, t12, a1, a2, a3, a4, a5, a6, a7, ?_, a8⟩
  intro hw
  have := IsCffType.eq_of_width a3 a4 hw
  subst this
  rw [a5, a6]

/-- **cff_missing_charstrings_offset_is_error.**  Without a charstrings offset for the table in the
font's `IFT ` mapping table (no `IFT ` table, one `Ift::read` rejects, or the field-presence bit
clear) the arm fails before it looks at the CFF / CFF2 table or at any patch. -/
theorem cff_missing_charstrings_offset_is_error (v2 : Bool) (ift table : Option Bytes)
    (gps : List GlyphPatches) (m : Nat) (h : iftCharstringsOffset ift v2 = none) :
    cffPatch v2 ift table gps m = .error (.invalidPatch (cffMissingMsg v2)) := by
  unfold cffPatch; rw [h]

/-- **cff_charstrings_offset_out_of_bounds_is_error.**  A recorded charstrings offset beyond the end of
the table, or one that leaves fewer bytes than count + offSize + `(count+1)·offSize` offset bytes, is
`FontParsingFailed(OutOfBounds)` — whatever the patches contain. -/
theorem cff_charstrings_offset_out_of_bounds_is_error (v2 : Bool) (ift : Option Bytes) (b : Bytes)
    (gps : List GlyphPatches) (m at_ : Nat) (ha : iftCharstringsOffset ift v2 = some at_)
    (hr : (if v2 then cff2TableRead b else cffTableRead b) = .ok ())
    (hbad : b.length < at_ ∨ indexRead (cffCountWidth v2) (b.drop at_) = .error .outOfBounds) :
    cffPatch v2 ift (some b) gps m = .error (.fontParsingFailed .outOfBounds) := by
  unfold cffPatch
  rw [ha]
  simp only
  have : cffView v2 b at_ m = .error .outOfBounds := by
    unfold cffView
    rw [hr]
    simp only
    rcases hbad with e | e
    · rw [if_pos e]
    · by_cases c : b.length < at_
      · rw [if_pos c]
      · rw [if_neg c, e]
  rw [this]

/-- **cff_malformed_index_is_error.**  An INDEX at the recorded offset whose offSize is not 1..=4, or
whose count differs from maxp.numGlyphs (= maxGid + 1), is `FontParsingFailed(MalformedData(…))`. -/
theorem cff_malformed_index_is_error (v2 : Bool) (ift : Option Bytes) (b : Bytes)
    (gps : List GlyphPatches) (m at_ : Nat) (ix : IndexView) (ha : iftCharstringsOffset ift v2 = some at_)
    (hr : (if v2 then cff2TableRead b else cffTableRead b) = .ok ()) (hle : at_ ≤ b.length)
    (hix : indexRead (cffCountWidth v2) (b.drop at_) = .ok ix)
    (hbad : (ix.offSize < 1 ∨ 4 < ix.offSize) ∨ ix.count ≠ m + 1) :
    ∃ msg, cffPatch v2 ift (some b) gps m = .error (.fontParsingFailed (.malformedData msg)) := by
  unfold cffPatch
  rw [ha]
  simp only
  have : ∃ msg, cffView v2 b at_ m = .error (.malformedData msg) := by
    unfold cffView
    rw [hr]
    simp only
    rw [if_neg (by omega), hix]
    simp only
    cases ht : cffOffsetType ix.offSize with
    | error e =>
      unfold cffOffsetType at ht
      split at ht
      · cases ht
      · split at ht
        · cases ht
        · split at ht
          · cases ht
          · split at ht
            · cases ht
            · cases ht; exact ⟨_, rfl⟩
    | ok t =>
      simp only
      obtain ⟨_, hw⟩ := cffOffsetType_ok _ _ ht
      rcases hbad with hb | hb
      · exfalso
        have := (cffOffsetType_ok _ _ ht).1.width_pos
        omega
      · rw [if_pos hb]; exact ⟨_, rfl⟩
  obtain ⟨msg, hm⟩ := this
  rw [hm]
  exact ⟨msg, rfl⟩

/-- non-vacuity: a 2-glyph CFF2 table (header, empty global subrs, charstrings INDEX at 11 as recorded in
a format-2 `IFT ` table with field flag bit 1), patch gid 1 := one byte -/
example :
    let cff2 : Bytes := [2,0,5,0,0, 0,0,0,0,1,1, 0,0,0,2,1, 1,2,4, 0xA,0xB,0xC]
    let ift : Bytes := [2,0,0,0, 2, 1,1,1,1,1,1,1,1,1,1,1,1,1,1,1,1, 3, 0,0,0, 0,0,0,0, 0,0,0,0, 0,0, 0,0,0,11, 0]
    let gp : GlyphPatches := { glyphCount := 1, tables := [TAG_CFF2], gids := [1], offsets := [1, 2], raw := [9,0xD] }
    cffPatch true (some ift) (some cff2) [gp] 1 =
      .ok [2,0,5,0,0, 0,0,0,0,1,1, 0,0,0,2,1, 1,2,3, 0xA,0xD] := by rfl

/-- the known finding C18-offset-width-history-dependent in the model: base CFF charstrings g0 = 200 B,
g1 = 10 B (offSize 1); A: g1 := 100 B; B: g0 := 5 B.  [A, B] in one call → total 105, offSize stays 1
(table of 139 bytes); A then B → offSize 2 after A (total 300 > 254) and B keeps it (142 bytes).  Both
tables decode to the same INDEX: offsets 0, 5, 105 and the same 105 bytes of charstring data. -/
example :
    let cff : Bytes := [1,0,4,1, 0,1,1,1,2,7, 0,1,1,1,2,7, 0,1,1,1,2,7, 0,1,1,1,2,7, 0,2, 1, 1,201,211]
      ++ List.replicate 200 3 ++ List.replicate 10 4
    let ift : Bytes := [2,0,0,0, 1, 1,1,1,1,1,1,1,1,1,1,1,1,1,1,1,1, 3, 0,0,0, 0,0,0,0, 0,0,0,0, 0,0, 0,0,0,28, 0]
    let gA : GlyphPatches := { glyphCount := 1, tables := [TAG_CFF], gids := [1], offsets := [1, 101], raw := 9 :: List.replicate 100 5 }
    let gB : GlyphPatches := { glyphCount := 1, tables := [TAG_CFF], gids := [0], offsets := [1, 6], raw := [9,6,6,6,6,6] }
    let one := cffPatch false (some ift) (some cff) [gA, gB] 1
    let two := match cffPatch false (some ift) (some cff) [gA] 1 with
      | .ok o => cffPatch false (some ift) (some o) [gB] 1
      | .error e => .error e
    let view := fun (r : Except PErr Bytes) => r.toOption.bind (fun o =>
      (indexRead 2 (o.drop 28)).toOption.map (fun ix => (o.take 28 == cff.take 28, ix.count, ix.offSize, cffOffsets ix, ix.data)))
    view one = some (true, 2, 1, [0, 5, 105], List.replicate 5 6 ++ List.replicate 100 5) ∧
    view two = some (true, 2, 2, [0, 5, 105], List.replicate 5 6 ++ List.replicate 100 5) := by
  refine ⟨by decide +kernel, by decide +kernel⟩

/-! ## patches naming SEVERAL tables at once (font level) -/

/-- non-vacuity: ONE patch naming glyf + gvar on a 2-glyph short-loca font with a short gvar: glyph 0 :=
[5,5], gvar data of glyph 0 := [7,7,7] (padded to 4 under short offsets); head, loca (same lengths), maxp
untouched; applied bit 170 set -/
example :
    let gv : Bytes := [0,1,0,0, 0,1, 0,1, 0,0,0,26, 0,2, 0,0, 0,0,0,28, 0,0, 0,1, 0,2, 0xAA,0xBB, 1,2,3,4]
    let font : Font := [(TAG_IFT, [2,0,0,0,0, 1,1,1,1,1,1,1,1,1,1,1,1,1,1,1,1, 0]), (TAG_glyf, [1,2,3,4]),
      (TAG_gvar, gv), (TAG_head, List.replicate 54 0), (TAG_loca, [0,0, 0,1, 0,2]), (TAG_maxp, [0,0,0x50,0, 0,2])]
    let gp : GlyphPatches := { glyphCount := 1, tables := [TAG_glyf, TAG_gvar], gids := [0], offsets := [1, 3, 6], raw := [9,5,5,7,7,7] }
    let i : PatchInfo := { uri := "a", iftx := false, compat := [], bit := 170 }
    applyGlyphPatches [i] [gp] font =
      .ok [(TAG_IFT, [2,0,0,0,0, 1,1,1,1,1,1,1,1,1,1,1,1,1,1,1,1, 4]), (TAG_glyf, [5,5,3,4]),
        (TAG_gvar, [0,1,0,0, 0,1, 0,1, 0,0,0,26, 0,2, 0,0, 0,0,0,28, 0,0, 0,2, 0,3, 0xAA,0xBB, 7,7,7,0, 3,4]),
        (TAG_head, List.replicate 54 0), (TAG_loca, [0,0, 0,1, 0,2]), (TAG_maxp, [0,0,0x50,0, 0,2])] := by rfl

/-- non-vacuity: a patch naming CFF2 + gvar and one naming CFF2 only, on a font with CFF2, `IFT ` (cff2
charstrings offset 11), gvar and maxp: both orders and the two-step application give the same font;
CFF2 gid 0 := [6,6,6], gid 1 := [0xD]; gvar gid 1 := [8,8]; applied bits 312 and 313 set -/
example :
    let gv : Bytes := [0,1,0,0, 0,1, 0,1, 0,0,0,26, 0,2, 0,0, 0,0,0,28, 0,0, 0,1, 0,2, 0xAA,0xBB, 1,2,3,4]
    let cff2 : Bytes := [2,0,5,0,0, 0,0,0,0,1,1, 0,0,0,2,1, 1,2,4, 0xA,0xB,0xC]
    let ift : Bytes := [2,0,0,0, 2, 1,1,1,1,1,1,1,1,1,1,1,1,1,1,1,1, 3, 0,0,0, 0,0,0,0, 0,0,0,0, 0,0, 0,0,0,11, 0]
    let font : Font := [(TAG_CFF2, cff2), (TAG_IFT, ift), (TAG_gvar, gv), (TAG_maxp, [0,0,0x50,0, 0,2])]
    let gp1 : GlyphPatches := { glyphCount := 1, tables := [TAG_CFF2, TAG_gvar], gids := [1], offsets := [1, 2, 4], raw := [9,0xD,8,8] }
    let gp2 : GlyphPatches := { glyphCount := 1, tables := [TAG_CFF2], gids := [0], offsets := [1, 4], raw := [9,6,6,6] }
    let i1 : PatchInfo := { uri := "a", iftx := false, compat := [], bit := 312 }
    let i2 : PatchInfo := { uri := "b", iftx := false, compat := [], bit := 313 }
    let want : Font := [(TAG_CFF2, [2,0,5,0,0, 0,0,0,0,1,1, 0,0,0,2,1, 1,4,5, 6,6,6,0xD]),
      (TAG_IFT, [2,0,0,0, 2, 1,1,1,1,1,1,1,1,1,1,1,1,1,1,1,1, 3, 0,0,0, 0,0,0,0, 0,0,0,0, 0,0, 0,0,0,11, 3]),
      (TAG_gvar, [0,1,0,0, 0,1, 0,1, 0,0,0,26, 0,2, 0,0, 0,0,0,28, 0,0, 0,1, 0,2, 0xAA,0xBB, 1,2,8,8]),
      (TAG_maxp, [0,0,0x50,0, 0,2])]
    applyGlyphPatches [i1, i2] [gp1, gp2] font = .ok want ∧
    applyGlyphPatches [i2, i1] [gp2, gp1] font = .ok want ∧
    (match applyGlyphPatches [i1] [gp1] font with
     | .ok f1 => applyGlyphPatches [i2] [gp2] f1
     | .error e => .error e) = .ok want := by
  refine ⟨by rfl, by rfl, by rfl⟩

/-- non-vacuity of `BaseOk` and of the `hift` hypothesis for that font: its CFF2 INDEX ascends, gvar's
glyph count is maxp's, and setting bits 312 / 313 (byte 39) leaves the recorded offset alone -/
example :
    let ift : Bytes := [2,0,0,0, 2, 1,1,1,1,1,1,1,1,1,1,1,1,1,1,1,1, 3, 0,0,0, 0,0,0,0, 0,0,0,0, 0,0, 0,0,0,11, 0]
    let ift' : Bytes := [2,0,0,0, 2, 1,1,1,1,1,1,1,1,1,1,1,1,1,1,1,1, 3, 0,0,0, 0,0,0,0, 0,0,0,0, 0,0, 0,0,0,11, 3]
    let cff2 : Bytes := [2,0,5,0,0, 0,0,0,0,1,1, 0,0,0,2,1, 1,2,4, 0xA,0xB,0xC]
    (∀ v2, iftCharstringsOffset (some ift') v2 = iftCharstringsOffset (some ift) v2) ∧
    (cffView true cff2 11 1).toOption.map (fun r => ascending (cffOffsets r.1)) = some true := by
  refine ⟨by intro v2; cases v2 <;> rfl, by rfl⟩

end FontVerif.C18
