/-
C01 (hand-written code) — termination, iteration bounds, in-range indices / slices and absence of arithmetic
traps for the models of Model/HandText.lean ⇄ read-fonts/src/tables/name.rs / post.rs / cmap.rs (NameString / CharIter / MacRoman, Post::glyph_name / PString, cmap formats 0/2/6/10/13/14 lookups and iterators).
Tied to the real functions by harness group `text.model` (`ht.*` driver commands).

All theorems are about ALL inputs: arbitrary (unsorted, overlapping, truncated) tables.  Hypotheses only say that a
field holds what its width allows (`u16` / `Uint24` / `u8` / bytes below 256) or that a slice is no longer than
`usize::MAX / 2` (every Rust slice is at most `isize::MAX` bytes).
-/
import FontVerif.Model.HandText
import FontVerif.Lemmas.ReadIter
import FontVerif.Lemmas.HandText
set_option linter.unusedVariables false
set_option linter.unusedSimpArgs false
namespace FontVerif.C01HandText
open FontVerif FontVerif.ReadIter FontVerif.HandRead FontVerif.HandText

/-! ## cmap: `Cmap4::map_codepoint`, `Cmap12::map_codepoint`, `Cmap::map_codepoint` -/

/-- the `while lo < hi` loop of `map_codepoint` makes at most `fuel` trips whenever `hi - lo < 2 ^ fuel`: the interval
halves every trip, for every table content -/
theorem seek_terminates (sA eA : Nat → Option Nat) (c fuel lo hi : Nat) (h : hi - lo < 2 ^ fuel) :
    seek sA eA c fuel lo hi ≠ .fuel := seek_total sA eA c fuel lo hi h

/-- the fuel the models use is logarithmic: at most 15 trips for a format 4 subtable (`segCountX2` is a `u16`), at
most 32 for a format 12 subtable with fewer than 2^32 groups -/
theorem seekFuel_le (n k : Nat) (h : n < 2 ^ k) (hk : 1 ≤ k) : seekFuel n ≤ k := by
  unfold seekFuel
  by_cases hn : n = 0
  · subst hn; simp [Nat.log2]; omega
  · have := (Nat.log2_lt hn).mpr h; omega

/-- a segment the search returns is inside `lo .. hi`, both `get`s succeeded there and the code point lies in
`start ..= end` — so `codepoint - start_code` in `lookup_glyph_id` cannot underflow -/
theorem seek_found_in_range (sA eA : Nat → Option Nat) (c fuel lo hi i sc : Nat)
    (h : seek sA eA c fuel lo hi = .found i sc) :
    lo ≤ i ∧ i < hi ∧ sA i = some sc ∧ sc ≤ c ∧ ∃ ec, eA i = some ec ∧ c ≤ ec :=
  seek_found sA eA c fuel lo hi i sc h

/-- `(lo + hi) / 2` never overflows for slices of at most `usize::MAX / 2` elements, and no `.get(i)?` fails when
both arrays have `hi` elements (as the generated `Cmap4::read` / `Cmap12::read` guarantee) -/
theorem seek_no_trap_no_getFail (sA eA : Nat → Option Nat) (c fuel hi : Nat) (hm : 2 * hi ≤ MAXU) :
    seek sA eA c fuel 0 hi ≠ .trap ∧
    ((∀ i, i < hi → (sA i).isSome ∧ (eA i).isSome) → seek sA eA c fuel 0 hi ≠ .getFail) :=
  ⟨seek_no_trap sA eA c fuel 0 hi (by omega) hm, seek_no_getFail sA eA c fuel 0 hi⟩

/-- `Cmap4::map_codepoint` terminates (≤ `log2(segCount) + 1` trips) and never traps — for ANY arrays: the `u16`
subtraction of `lookup_glyph_id` is only reached with `start_code ≤ codepoint` -/
theorem map4_safe (t : Cmap4) (x2 cp : Nat) (hx : x2 ≤ MAXU) :
    map4 t x2 cp ≠ .fuel ∧ map4 t x2 cp ≠ .trap := by
  unfold map4
  split
  · simp
  · have hf := seek_total (fun i => t.startCode[i]?) (fun i => t.endCode[i]?) cp _ 0 (x2 / 2) (seekFuel_ok _)
    have ht := seek_no_trap (fun i => t.startCode[i]?) (fun i => t.endCode[i]?) cp (seekFuel (x2 / 2)) 0 (x2 / 2)
      (by omega) (by omega)
    split
    · rename_i i sc hs
      have := seek_found _ _ _ _ _ _ _ _ hs
      have h4 := lookup4_no_trap t cp i sc (by omega)
      cases hl : t.lookupGlyphId cp i sc <;> simp_all [MapRes.ofLook]
    · simp
    · simp
    · rename_i hs; exact absurd hs ht
    · rename_i hs; exact absurd hs hf


/-- a glyph id `Cmap4::map_codepoint` returns is a `u16` -/
theorem map4_gid_u16 (t : Cmap4) (x2 cp g : Nat) (h : map4 t x2 cp = .gid g) : g < 65536 := by
  unfold map4 at h
  split at h
  · simp at h
  · split at h
    · rename_i i sc _
      unfold Cmap4.lookupGlyphId at h
      have hm : ∀ x dl, addDeltaU16 x dl < 65536 := by intro x dl; unfold addDeltaU16; omega
      split at h
      · simp [MapRes.ofLook] at h
      · split at h
        · simp [MapRes.ofLook] at h
        · split at h
          · simp [MapRes.ofLook] at h; rw [← h]; exact hm _ _
          · split at h
            · simp [MapRes.ofLook] at h
            · simp only [] at h
              split at h
              · simp [MapRes.ofLook] at h
              · split at h
                · simp [MapRes.ofLook] at h
                · simp [MapRes.ofLook] at h; rw [← h]; exact hm _ _
    all_goals simp at h

/-- `Cmap12::map_codepoint` terminates (≤ `log2(groups) + 1` trips), never traps, and answers a `u32` -/
theorem map12_safe (gs : List Group) (cp : Nat) (hl : 2 * gs.length ≤ MAXU) :
    map12 gs cp ≠ .fuel ∧ map12 gs cp ≠ .trap ∧ (∀ g, map12 gs cp = .gid g → g < 4294967296) := by
  unfold map12
  have hf := seek_total (fun i => gs[i]?.map (·.startChar)) (fun i => gs[i]?.map (·.endChar)) cp _ 0 gs.length
    (seekFuel_ok _)
  have ht := seek_no_trap (fun i => gs[i]?.map (·.startChar)) (fun i => gs[i]?.map (·.endChar)) cp
    (seekFuel gs.length) 0 gs.length (by omega) hl
  split
  · split
    · refine ⟨by simp, by simp, ?_⟩
      intro g hg; simp at hg; rw [← hg]; unfold lookup12; omega
    · simp
  · simp
  · simp
  · rename_i hs; exact absurd hs ht
  · rename_i hs; exact absurd hs hf

/-- `Cmap::map_codepoint`: the record loop never traps / hangs, whatever the subtables hold -/
theorem cmapMap_safe (subs : List Sub) (cp : Nat)
    (h : ∀ s ∈ subs, match s with | .f4 _ x => x < 65536 | .f12 gs => gs.length < 4294967296 | _ => True) :
    cmapMap subs cp ≠ .fuel ∧ cmapMap subs cp ≠ .trap := by
  have hM : MAXU = 18446744073709551615 := rfl
  induction subs with
  | nil => simp [cmapMap]
  | cons s rest ih =>
    have ih := ih (fun x hx => h x (by simp [hx]))
    have hs := h s (by simp)
    unfold cmapMap
    have key : s.map cp ≠ .fuel ∧ s.map cp ≠ .trap := by
      cases s with
      | f4 t x => simp only [] at hs; exact map4_safe t x cp (by omega)
      | f12 gs => simp only [] at hs; exact ⟨(map12_safe gs cp (by omega)).1, (map12_safe gs cp (by omega)).2.1⟩
      | other => simp [Sub.map]
      | err => simp [Sub.map]
    cases hr : s.map cp with
    | none => simpa using ih
    | gid g => simp
    | trap => exact absurd hr key.2
    | fuel => exact absurd hr key.1

/-! ## cmap format 14 -/

/-- core's `binary_search_by` (as transcribed in Model/Layout.lean) answers `Ok(i)` only with `i < len` and an
element that compares `Equal` — for EVERY comparison function, sorted data or not.  Hence in
`Cmap14::map_variant` the `.and_then(|idx| selector_records.get(idx))` and `mapping.get(ix)?` after a
successful search never fail, and in `MacRomanMapping::encode` `MAC_ROMAN_ENCODE[idx]` is in range. -/
theorem binary_search_ok_in_range (n : Nat) (cmpAt : Nat → Ordering) (i : Nat)
    (h : Layout.binarySearchBy n cmpAt = .ok i) : i < n ∧ cmpAt i = .eq := bs_ok_lt h

/-- `start + range.additional_count() as u32 (+ 1)` of `map_variant` / `DefaultUvsIter` cannot overflow `u32`:
`start` is a `Uint24`, the count a `u8` -/
theorem uvs_range_add_no_overflow (start cnt : Nat) (h1 : start < 16777216) (h2 : cnt < 256) :
    start + cnt < 4294967296 ∧ uvsEnd (start, cnt) = some (start + cnt + 1) := by
  unfold uvsEnd; simp; omega

/-- `Σ (additional_count + 1) ≤ 256 · #ranges` for `u8` counts -/
theorem duTotal_le (ranges : List (Nat × Nat)) (h : ∀ r ∈ ranges, r.2 < 256) :
    duTotal ranges ≤ 256 * ranges.length := by
  induction ranges with
  | nil => simp [duTotal]
  | cons r rs ih =>
    have h1 := h r (by simp)
    have h2 := ih (fun x hx => h x (by simp [hx]))
    simp only [duTotal, List.map_cons, List.sum_cons, List.length_cons] at h2 ⊢
    omega


/-- `DefaultUvsIter`: at most `Σ (additional_count + 1)` code points, then `None`; no trap on decoded ranges -/
theorem du_iter_bounded (ranges : List (Nat × Nat)) :
    ∃ evs, duTrace ranges = some evs ∧ (items evs).length ≤ duTotal ranges ∧
      (RestOk ranges → trapped evs = false) := by
  unfold duTrace
  cases hn : duNew ranges with
  | none =>
    refine ⟨[.trap], rfl, by simp [items], ?_⟩
    intro h; obtain ⟨d, h1, _⟩ := duNew_ok ranges h; rw [hn] at h1; simp at h1
  | some d =>
    simp only []
    have hr := duNew_rem ranges d hn
    obtain ⟨evs, he, hlen⟩ := run_complete duNext duRem (fun _ => True) (fun _ _ => trivial)
      (fun s _ hd => (duNext_rem s).2 hd) (duTotal ranges + 1) d trivial (by omega)
    refine ⟨evs, he, ?_, ?_⟩
    · have := items_length_le evs; omega
    · intro h
      obtain ⟨d', h1, hok⟩ := duNew_ok ranges h
      rw [hn] at h1; simp at h1; subst h1
      exact not_trapped duNext (fun s => RestOk s.rest) (fun s hi => (duNext_ok s hi).2)
        (fun s hi => (duNext_ok s hi).1) _ d evs hok he


/-- `Cmap14Iter`: terminates within `Σ (default code points + mappings + 1)` trips, yields at most
`Σ (default code points + mappings)` items, and never traps on decoded records -/
theorem cmap14_iter_bounded (t : List Cmap.VarSel) :
    ∃ evs, c14Trace t = some evs ∧ evs.length ≤ (t.map c14Weight).sum ∧
      (items evs).length ≤ (t.map c14Items).sum ∧ (C14Wf t → trapped evs = false) := by
  unfold c14Trace
  cases hl : c14Load t 0 with
  | none =>
    refine ⟨[.trap], rfl, ?_, by simp [items], ?_⟩
    · have : t ≠ [] := by intro h; subst h; simp [c14Load] at hl
      simpa using c14Weight_pos t this
    · intro hw; obtain ⟨s', h1, _⟩ := c14Load_ok t hw 0; rw [hl] at h1; simp at h1
  | some s0 =>
    simp only []
    have hm := c14Load_mu t 0 s0 hl
    simp only [List.drop_zero] at hm
    obtain ⟨evs, he, hlen⟩ := run_complete (c14Step t) (c14Mu t) (fun _ => True) (fun _ _ => trivial)
      (fun s _ hd => (c14Step_measures t s).1 hd) (c14Fuel t) s0 trivial (by unfold c14Fuel; omega)
    refine ⟨evs, he, by omega, ?_, ?_⟩
    · have := yields_le (c14Step t) (c14Nu t) (fun _ => True) (fun _ _ => trivial)
        (fun s a _ h => (c14Step_measures t s).2.1 a h) (fun s _ h => (c14Step_measures t s).2.2 h)
        (c14Fuel t) s0 evs trivial he
      omega
    · intro hw
      obtain ⟨s', h1, hinv⟩ := c14Load_ok t hw 0
      rw [hl] at h1; simp at h1; subst h1
      exact not_trapped (c14Step t) C14Inv (fun s hi => (c14Step_ok t hw s hi).2)
        (fun s hi => (c14Step_ok t hw s hi).1) (c14Fuel t) s0 evs hinv he


/-- in terms of the table size: at most `256 · #ranges + #mappings` items per selector record -/
theorem c14Items_le (r : Cmap.VarSel)
    (h : ∀ ranges, r.defaults = some ranges → ∀ x ∈ ranges, x.2 < 256) :
    c14Items r ≤ 256 * (match r.defaults with | some rs => rs.length | none => 0) +
      (match r.nonDefaults with | some ms => ms.length | none => 0) := by
  unfold c14Items
  cases hn : r.nonDefaults <;> cases hd : r.defaults with
  | none => simp
  | some rs => have := duTotal_le rs (h rs hd); simp only []; omega

/-- `Cmap14::closure_glyphs` adds at most one glyph per non-default mapping -/
theorem closure14_bounded (t : List Cmap.VarSel) (has : Nat → Bool) :
    (closure14 t has).length ≤ (t.map (fun r => match r.nonDefaults with | some ms => ms.length | none => 0)).sum := by
  induction t with
  | nil => simp [closure14]
  | cons r rs ih =>
    simp only [closure14, List.flatMap_cons, List.length_append, List.map_cons, List.sum_cons] at ih ⊢
    cases hn : r.nonDefaults with
    | none => simp only []; split <;> simpa using ih
    | some ms =>
      simp only []
      have : (List.map (fun x => x.snd) (List.filter (fun m => has m.fst) ms)).length ≤ ms.length := by
        simp only [List.length_map]; exact List.length_filter_le _ _
      split
      · omega
      · simp only [List.length_nil]; omega

/-! ## name: Mac Roman tables, `CharIter`, storage slices -/

/-- `MacRomanMapping::decode`: for every byte the table index `raw - 128` is in range and `char::from_u32(..).unwrap()`
succeeds (no table entry is a surrogate); the result is the C18 model's -/
theorem macDecode_total : ∀ b, b < 256 →
    macDecodeT b = some (NameStr.macDecode b) ∧ NameStr.isChar (NameStr.macDecode b) = true :=
  macDecodeT_total

/-- `MacRomanMapping::encode`: `MAC_ROMAN_ENCODE[idx]` never panics, the result is a byte, and decoding it gives the
char back -/
theorem macEncodeT_spec (c : Nat) :
    macEncodeT c ≠ none ∧ (∀ b, macEncodeT c = some (some b) → b < 256 ∧ macDecodeT b = some c) := by
  unfold macEncodeT
  split
  · simp
  · split
    · rename_i h; simp [macDecodeT, h]; omega
    · split
      · simp
      · rename_i idx hr
        have hlen : NameStr.macEncodeTable.length = 128 := by decide +kernel
        have hb := bs_ok_lt hr
        rw [hlen] at hb
        have hget : NameStr.macEncodeTable[idx]? = some (NameStr.macEncodeTable.getD idx (0, 0)) := by
          rw [List.getD_eq_getElem?_getD, List.getElem?_eq_getElem (by omega)]; simp
        rw [hget]
        simp only []
        refine ⟨by simp, ?_⟩
        intro b hbb
        have hbb : (NameStr.macEncodeTable.getD idx (0, 0)).2 = b := by
          exact Option.some.inj (Option.some.inj hbb)
        have hc := natCmp_eq hb.2
        have := macEncode_table_roundtrip idx hb.1
        rw [hbb, hc] at this
        refine ⟨?_, this⟩
        have hall : ∀ i, i < 128 → (NameStr.macEncodeTable.getD i (0, 0)).2 < 256 := by decide +kernel
        have := hall idx hb.1
        rw [hbb] at this; exact this


/-- `CharIter`: terminates within `len` calls; yields at most `len / 2` chars (UTF-16BE), `len` (Mac Roman), none
(unknown encoding); every item is a Unicode scalar value; no trap (`pos + 2`, `try_into().unwrap()`, the surrogate
arithmetic, the Mac Roman table index) for byte data of at most `usize::MAX - 2` bytes -/
theorem charIter_bounded (enc : NameStr.Encoding) (d : List Nat) :
    ∃ evs, charTrace enc d = some evs ∧ evs.length ≤ d.length ∧
      (items evs).length ≤ charNu enc d.length 0 ∧
      (∀ c ∈ items evs, NameStr.isChar c = true) ∧
      (d.length + 2 ≤ MAXU → (∀ b ∈ d, b < 256) → trapped evs = false) := by
  unfold charTrace
  obtain ⟨evs, he, hlen⟩ := run_complete (charStep enc d) (fun pos => d.length - pos) (fun pos => pos ≤ d.length)
    (fun s hs => (charStep_spec enc d s hs).1)
    (fun s hs hd => by have := charStep_spec enc d s hs; have := this.2.1 hd; omega)
    (d.length + 1) 0 (by omega) (by omega)
  refine ⟨evs, he, by omega, ?_, ?_, ?_⟩
  · exact yields_le (charStep enc d) (charNu enc d.length) (fun pos => pos ≤ d.length)
      (fun s hs => (charStep_spec enc d s hs).1)
      (fun s a hs h => ((charStep_spec enc d s hs).2.2.2 a h).2)
      (fun s hs h => absurd h (charStep_spec enc d s hs).2.2.1)
      (d.length + 1) 0 evs (by omega) he
  · exact items_all (charStep enc d) (fun pos => pos ≤ d.length) (fun c => NameStr.isChar c = true)
      (fun s hs => (charStep_spec enc d s hs).1)
      (fun s a hs h => ((charStep_spec enc d s hs).2.2.2 a h).1)
      (d.length + 1) 0 evs (by omega) he
  · intro hm hb
    exact not_trapped (charStep enc d) (fun pos => pos ≤ d.length)
      (fun s hs => (charStep_spec enc d s hs).1)
      (fun s hs => charStep_no_trap enc d s hs hm hb)
      (d.length + 1) 0 evs (by omega) he



/-- the step model of `CharIter` and the list model of check C18 (`NameStr.decodeString`, whose round-trip theorems
are in Props/C18.lean) describe the same function -/
theorem charIter_agrees_with_C18 (enc : NameStr.Encoding) (d : List Nat) (hm : d.length + 2 ≤ MAXU)
    (hb : ∀ b ∈ d, b < 256) :
    ∃ evs, charTrace enc d = some evs ∧ items evs = NameStr.decodeString enc d := by
  obtain ⟨evs, he, _, _, _, ht⟩ := charIter_bounded enc d
  refine ⟨evs, he, ?_⟩
  have ht := ht hm hb
  unfold charTrace at he
  cases enc with
  | utf16be => simpa [NameStr.decodeString] using charRun_utf16 d _ 0 evs (by omega) he ht
  | macRoman => simpa [NameStr.decodeString] using charRun_mac d hb _ 0 evs (by omega) he ht
  | unknown =>
    have h0 := (charIter_bounded .unknown d)
    obtain ⟨evs', he', _, hn, _⟩ := h0
    unfold charTrace at he'
    rw [he] at he'; injection he' with he'; subst he'
    simp only [charNu] at hn
    simp [NameStr.decodeString]
    exact List.eq_nil_of_length_eq_zero (by omega)

/-- `NameRecord::string` / `LangTagRecord::lang_tag`: a slice handed out lies inside the storage data and has the
record's length; `start + length` cannot overflow for `u16` fields -/
theorem nameSlice_spec (dataLen off len : Nat) :
    (∀ a b, nameSlice dataLen off len = .ok a b → a ≤ b ∧ b ≤ dataLen ∧ b - a = len) ∧
    (off < 65536 → len < 65536 → nameSlice dataLen off len ≠ .trap) := by
  have hs : (if off = 0 then 0 else off) = off := by split <;> omega
  unfold nameSlice
  simp only [hs]
  constructor
  · intro a b h
    split at h
    · simp at h
    · split at h
      · simp at h; omega
      · simp at h
  · intro h1 h2
    have : MAXU = 18446744073709551615 := rfl
    split
    · omega
    · split <;> simp



/-- `Name::string_data` never hands out more than the table -/
theorem stringData_le (d : List Nat) (off : Nat) :
    stringDataLen d off ≤ d.length ∧ (off ≤ d.length → stringDataLen d off = d.length - off) := by
  unfold stringDataLen splitOff
  split <;> simp <;> omega

/-! ## post: `PString::read`, `Post::{num_names, glyph_name}` -/

/-- `PString::read`: the string lies inside the data behind its length byte and is ASCII; for byte data neither
`len as usize + 1` nor `from_utf8(..).unwrap()` can panic -/
theorem pstring_spec (d : List Nat) :
    (∀ s, pstringRead d = .ok s → s.length + 1 ≤ d.length ∧ s = (d.drop 1).take s.length ∧ ∀ b ∈ s, b < 128) ∧
    ((∀ b ∈ d, b < 256) → pstringRead d ≠ .trap) := by
  unfold pstringRead
  cases hr : readAt d 0 1 with
  | none => simp
  | some len =>
    simp only []
    have h0 := readAt_byte d len hr
    constructor
    · intro s h
      split at h
      · simp at h
      · split at h
        · rename_i hle
          split at h
          · rename_i hall
            split at h
            · injection h with h; subst h
              have hl : ((d.drop 1).take len).length = len := by simp; omega
              refine ⟨by rw [hl]; omega, by rw [hl], ?_⟩
              intro b hb
              simp only [List.all_eq_true, decide_eq_true_eq] at hall
              exact hall b hb
            · simp at h
          · simp at h
        · simp at h
    · intro hb
      have hlen : len < 256 := hb len (List.mem_of_getElem? h0)
      have : MAXU = 18446744073709551615 := rfl
      split
      · omega
      · split
        · split
          · rename_i hall
            rw [validUtf8_ascii _ hall]; simp
          · simp
        · simp



/-- after a successful `Post::read` of a version 2.0 table `num_glyphs()` is `Some`: `num_names` cannot panic -/
theorem numNames_no_trap (d : List Nat) (t : PostT) (h : postRead d = some t) : numNames t ≠ .trap := by
  unfold numNames
  split
  · simp
  · split
    · rename_i hv
      have := (postRead_v2 d t h (by rw [hv])).1
      cases hn : t.numGlyphs with
      | none => simp [hn] at this
      | some n => simp
    · simp


theorem pstringGet_no_trap (sd : List Nat) (idx : Nat) (hb : ∀ b ∈ sd, b < 256) : pstringGet sd idx ≠ some .trap := by
  unfold pstringGet
  split
  · simp
  · rename_i pos _
    split
    · have := (pstring_spec (sd.drop pos)).2 (fun b hbm => hb b (List.mem_of_mem_drop hbm))
      simpa using this
    · simp


/-- `Post::glyph_name`: `string_data().unwrap()` cannot panic after a successful read, a standard-name index is below
258 (`DEFAULT_GLYPH_NAMES.get(idx)` is `Some`), a custom name is ASCII -/
theorem glyphName_spec (d : List Nat) (t : PostT) (h : postRead d = some t) (gid : Nat) :
    ((∀ b ∈ d, b < 256) → glyphName t gid ≠ .trap) ∧ (∀ i, glyphName t gid = .std i → i < 258) ∧
    (∀ s, glyphName t gid = .str s → ∀ b ∈ s, b < 128) := by
  unfold glyphName
  split
  · split <;> simp; omega
  · split
    · rename_i hv
      obtain ⟨_, _, k, hk⟩ := postRead_v2 d t h (by rw [hv])
      split
      · simp
      · split
        · simp
        · split
          · simp; omega
          · rw [hk]
            simp only []
            cases hg : pstringGet (d.drop k) _ with
            | none => simp
            | some r =>
              cases r with
              | ok s =>
                simp only []
                refine ⟨by simp, by simp, ?_⟩
                intro s' hs'; injection hs' with hs'; subst hs'
                unfold pstringGet at hg
                split at hg
                · simp at hg
                · split at hg
                  · injection hg with hg
                    exact ((pstring_spec _).1 s hg).2.2
                  · simp at hg
              | oob => simp
              | malformed => simp
              | trap =>
                refine ⟨?_, by simp, by simp⟩
                intro hb
                exact absurd hg (pstringGet_no_trap _ _ (fun b hbm => hb b (List.mem_of_mem_drop hbm)))
    · simp


/-! ## non-vacuity -/

example : C14Wf [⟨0xFE00, some [(0x30, 2), (0xFFFFFF, 255)], some [(0x50, 7)]⟩, ⟨0xFE01, none, none⟩] := by
  intro rec hrec ranges hr r hm
  simp at hrec
  rcases hrec with rfl | rfl
  · simp at hr; subst hr; simp at hm; rcases hm with rfl | rfl <;> simp
  · simp at hr
example : (c14Trace [⟨0xFE00, some [(0x30, 1)], some [(0x50, 7)]⟩, ⟨0xFE01, none, some []⟩]).map items =
    some [(0x30, 0xFE00, .useDefault), (0x31, 0xFE00, .useDefault), (0x50, 0xFE00, .variant 7)] := by decide
example : (duTrace [(0xFFFFFF, 255)]).map (fun e => (items e).length) = some 256 := by decide +kernel
example : map4 { endCode := [20, 65535], startCode := [10, 65535], idDelta := [5, 1], idRangeOffset := [0, 0],
                 glyphIdArray := [] } 4 15 = .gid 20 := by decide
example : map12 [⟨10, 20, 5⟩, ⟨30, 40, 7⟩] 35 = .gid 12 := by decide
example : (charTrace .utf16be [0xD8, 0x00, 0xDC, 0x00, 0xD8, 0x00, 0x00]).map items = some [0x10000, 0xFFFD] := by decide
example : (charTrace .macRoman [0x41, 0xFF]).map items = some [0x41, 711] := by decide
example : macEncodeT 8364 = some (some 219) := by decide +kernel
example : pstringRead [2, 104, 105, 7] = .ok [104, 105] := by decide
example : nameSlice 10 4 6 = .ok 4 10 ∧ nameSlice 10 4 7 = .oob := by decide

end FontVerif.C01HandText
