/-
C01 (hand-written code) — termination, iteration bounds, in-range indices / slices and absence of arithmetic
traps for the models of Model/HandText.lean ⇄ read-fonts/src/tables/name.rs / post.rs / cmap.rs (NameString / CharIter / MacRoman, Post::glyph_name / PString, cmap formats 0/2/6/10/13/14 lookups and iterators).
Tied to the real functions by harness group `text.model` (`ht.*` driver commands).
-/
import FontVerif.Model.HandText
import FontVerif.Lemmas.ReadIter
set_option linter.unusedVariables false
set_option linter.unusedSimpArgs false
namespace FontVerif.C01HandText
open FontVerif FontVerif.ReadIter FontVerif.HandRead FontVerif.HandText

end FontVerif.C01HandText
