/-
C14 — the iterator state machines of `IntSet<T>` refine the sequence-level model.
Property theorems only (helper lemmas live in Lemmas/IntSetIterMod.lean).
Model: Model/IntSetIterMod.lean ⇄ read-fonts/src/collections/int_set/mod.rs
  (`struct Iter` + `new` / `new_bidirectional` / `next` / `next_back`; `enum RangeIter` + `next`,
  `next_exclusive`, `next_discontinuous`, `are_values_adjacent`; the constructor sites `iter`,
  `iter_after`, `iter_ranges_invertible`).

The underlying generic iterators are modelled as the list of items not yet produced
(`next` pops the head, `next_back` pops the last): the contract of a std `DoubleEndedIterator`
over a finite sequence.

Vocabulary (Lemmas/IntSetIterMod.lean, Lemmas/IntSet*.lean)
* `RangeIter.collect d it` : run `next` until `None`; `none` = strict-profile trap (`start - 1`
                             underflow in `next_exclusive`), `some items` otherwise
* `ExclOk lo R`            : `R` sorted/disjoint (`p.2 < q.1`) and no range with `start = 0` lies
                             entirely below `lo` — exactly what keeps `start - 1` from underflowing
* `RangeIter.denote d it`  : the items a state still owes, as an abstract-model expression
* `RangeIter.Ok it`        : `ExclOk min ranges` for a not-yet-`done` `Exclusive`, `True` otherwise
* `Iter.take k it` / `Iter.takeBack k it` : the first `k` items of `it` / of `it.rev()` (stop at
                             the first `None`); `Iter.afterNexts k it` : the state after `k` `next`s
* `Iter.runSchedule sched it` : an arbitrary interleaving (`true` = `next`, `false` = `next_back`);
                             per call, which end was asked and what came back
* `fronts o` / `backs o`   : the values returned by the `next` / `next_back` calls, in call order
* `dequeRun sched L`, `dequeRest sched L` : the reference deque on `L` (pop head / pop last) and what
                             it still holds afterwards
* `Iter.SimF it L` / `Iter.Sim it L` : the machine state `it` still owes exactly `L` (forward-only /
                             two-sided invariant)
* `DomWF d`, `IInvD d s`, `RSorted`, `NRInv`, `Asc`, `s.elems d` : as in Props/C14IntSet.lean
-/
import FontVerif.Lemmas.IntSetIterMod
set_option linter.unusedVariables false
namespace FontVerif.C14IterMod
open FontVerif.IntSet

/-! ## range_iter_yields_abstract_ranges -/

/-- every single `RangeIter::next` call, in every reachable state: no trap, the item is the head
of what the state denotes in the abstract model (`None` iff nothing is owed), the successor state
denotes the tail, and the iterator is fused (`None` is followed by `None` forever) -/
theorem range_iter_next_refines (d : Domain) (it : RangeIter) (h : it.Ok) :
    ∃ item it', it.next d = some (item, it') ∧ it'.Ok ∧
      it.denote d = (match item with
        | none => []
        | some x => x :: it'.denote d) ∧
      (item.isSome → it'.size < it.size) ∧ (item = none → it'.denote d = []) :=
  RangeIter.next_spec d it h

/-- `RangeIter::Inclusive` run to exhaustion: the underlying ranges, unchanged -/
theorem range_iter_inclusive (d : Domain) (R : List (Nat × Nat)) :
    (RangeIter.inclusive R).collect d = some R :=
  RangeIter.collect_eq d _ trivial

/-- `RangeIter::InclusiveDiscontinuous` (fresh: `current_range = None`) run to exhaustion:
`mergeDomainAdjacent d R` -/
theorem range_iter_inclusive_discontinuous (d : Domain) (R : List (Nat × Nat)) :
    (RangeIter.inclusiveDiscontinuous R none).collect d = some (mergeDomainAdjacent d R) :=
  RangeIter.collect_eq d _ trivial

/-- `RangeIter::Exclusive { min: lo, max: hi, done: false }` run to exhaustion:
`complementRanges lo hi R`, and no `u32` underflow, whenever the ranges are sorted and disjoint
and none with `start = 0` lies entirely below `lo` -/
theorem range_iter_exclusive (d : Domain) (R : List (Nat × Nat)) (lo hi : Nat)
    (h : ExclOk lo R) :
    (RangeIter.exclusive R lo hi false).collect d = some (complementRanges lo hi R) :=
  RangeIter.collect_eq d _ (fun _ => h)

/-- in particular for RangeSet-normal-form ranges that start inside the domain -/
theorem range_iter_exclusive_nrinv (d : Domain) (R : List (Nat × Nat)) (lo hi : Nat)
    (h : NRInv R) (hlo : ∀ r ∈ R, lo ≤ r.1) :
    (RangeIter.exclusive R lo hi false).collect d = some (complementRanges lo hi R) :=
  range_iter_exclusive d R lo hi (exclOk_of_rsorted h.rsorted hlo)

/-- `RangeIter::ExclusiveDiscontinuous` over the domain values `D` run to exhaustion:
`discontinuousRuns contains D` -/
theorem range_iter_exclusive_discontinuous (d : Domain) (D : List Nat) (contains : Nat → Bool) :
    (RangeIter.exclusiveDiscontinuous D contains none).collect d =
      some (discontinuousRuns contains D) :=
  RangeIter.collect_eq d _ trivial

/-- `iter_ranges_invertible(inv)`: the `RangeIter` it builds exists (the two `unwrap`s of the
`Exclusive` arm do not panic), never traps, and run to exhaustion yields exactly
`IntSet.rangesInvertible d s inv` — for every well-formed domain, both membership modes, both
values of `inv` -/
theorem range_iter_yields_abstract_ranges {d : Domain} (hd : DomWF d) {s : IntSet}
    (h : IInvD d s) (inv : Bool) :
    ∃ it, s.rangeIterMachine d inv = some it ∧
      it.collect d = some (s.rangesInvertible d inv) := by
  obtain ⟨it, h1, _, _, h4⟩ := IntSet.rangeIterMachine_collect hd h inv
  exact ⟨it, h1, h4⟩

/-! non-vacuity / the trap is real in the model -/

/-- a range lying entirely below `min` and starting at `0` makes `next_range.start() - 1`
underflow (strict profile: trap). Unreachable from `IntSet<T>`: stored values are domain values
(`InDom`), and `min` is the least domain value. -/
example : (RangeIter.exclusive [(0, 1)] 2 20 false).collect Domain.u32 = none := by decide

example : (RangeIter.exclusive [(0, 3), (5, 6), (10, 20)] 0 20 false).collect Domain.u32
    = some [(4, 4), (7, 9)] := by decide

example : ExclOk 0 [(0, 3), (5, 6), (10, 20)] := by
  refine ⟨by simp, ?_⟩
  intro r hr; simp at hr; rcases hr with rfl | rfl | rfl <;> simp


/-! ## iter_yields_members -/

/-- inclusive set (`all_values = None`): forward = the stored values, backward = their reverse -/
theorem iter_inclusive_yields_members (S : List Nat) (k : Nat) :
    Iter.take k (Iter.newBidirectional S none) = S.take k ∧
    Iter.takeBack k (Iter.newBidirectional S none) = S.reverse.take k :=
  ⟨Iter.take_simF k (Iter.newBidirectional_sim_none S).1,
   Iter.takeBack_sim k (Iter.newBidirectional_sim_none S)⟩

/-- exclusive set: `Iter::new_bidirectional(S, Some(D))` (both ascending; `S ⊆ D` is NOT needed)
yields forward the values of `D` not in `S`, backward their reverse — item by item for every `k`;
and once they are all delivered `next` returns `None` -/
theorem iter_exclusive_yields_members {S D : List Nat} (hS : Asc S) (hD : Asc D) (k : Nat) :
    Iter.take k (Iter.newBidirectional S (some D)) =
      (D.filter (fun x => decide (x ∉ S))).take k ∧
    Iter.takeBack k (Iter.newBidirectional S (some D)) =
      (D.filter (fun x => decide (x ∉ S))).reverse.take k ∧
    ((D.filter (fun x => decide (x ∉ S))).length ≤ k →
      (Iter.afterNexts k (Iter.newBidirectional S (some D))).next.1 = none) :=
  ⟨Iter.take_simF k (Iter.newBidirectional_sim hS hD).1,
   Iter.takeBack_sim k (Iter.newBidirectional_sim hS hD),
   Iter.next_exhausted k (Iter.newBidirectional_sim hS hD).1⟩

/-- the `iter_after(v)` construction at list level: `Iter::new` over the stored values `> v` and
the domain values `> v` yields the values of `D` that are `> v` and not in `S` -/
theorem iter_after_yields_members {S D : List Nat} (hS : Asc S) (hD : Asc D) (v k : Nat) :
    Iter.take k (Iter.new (S.filter (fun x => decide (x > v)))
        (some (D.filter (fun x => decide (x > v))))) =
      (D.filter (fun x => decide (x > v) && decide (x ∉ S))).take k :=
  Iter.take_simF k (Iter.new_after_simF hS hD v)

/-- connection with the sequence-level model: the machines built by `IntSet::iter()`,
`.iter().rev()` and `iter_after(v)` (for a domain value `v`, which `value: T` always is) yield
exactly `iterTake` / `iterBackTake` / `iterAfterTake`, for every `k`, in both membership modes;
and `iter()` returns `None` once `|members|` items were delivered -/
theorem iter_yields_members {d : Domain} (hd : DomWF d) {s : IntSet} (h : IInvD d s) (k : Nat) :
    Iter.take k (s.iterMachine d) = s.iterTake d k ∧
    Iter.takeBack k (s.iterMachine d) = s.iterBackTake d k ∧
    (∀ v, d.contains v = true → Iter.take k (s.iterAfterMachine d v) = s.iterAfterTake d v k) ∧
    ((s.elems d).length ≤ k → (Iter.afterNexts k (s.iterMachine d)).next.1 = none) :=
  ⟨IntSet.iterMachine_take hd h k, IntSet.iterMachine_takeBack hd h k,
   fun v hv => IntSet.iterAfterMachine_take hd h hv k,
   Iter.next_exhausted k (IntSet.iterMachine_sim hd h).1⟩

/-! ## iter_double_ended_consistent -/

/-- every interleaving `sched` of `next` (`true`) / `next_back` (`false`) calls on
`Iter::new_bidirectional(S, Some(D))`, with `M` = the values of `D` not in `S`:
* the machine answers exactly like the reference deque on `M`;
* the `next` results, what is still owed, and the reversed `next_back` results partition `M` in
  order — so forward results are a prefix of `M`, backward results a prefix of `M.reverse`, no
  value is returned twice, and front and back never cross;
* call number `i` returns `Some` iff `i < |M|`: the first `min |sched| |M|` calls deliver, and once
  front and back have met every further call (from either end) returns `None`. -/
theorem iter_double_ended_consistent {S D : List Nat} (hS : Asc S) (hD : Asc D)
    (sched : List Bool) :
    let M := D.filter (fun x => decide (x ∉ S))
    let o := (Iter.newBidirectional S (some D)).runSchedule sched
    o = dequeRun sched M ∧ o.map (·.1) = sched ∧
    fronts o ++ dequeRest sched M ++ (backs o).reverse = M ∧
    fronts o <+: M ∧ backs o <+: M.reverse ∧ (fronts o ++ backs o).Nodup ∧
    (fronts o).length + (backs o).length ≤ M.length ∧
    o.map (fun p => p.2.isSome) =
      List.replicate (min sched.length M.length) true ++
        List.replicate (sched.length - M.length) false := by
  intro M o
  have hsim := Iter.newBidirectional_sim hS hD
  obtain ⟨c1, c2, c3, c4⟩ := Iter.schedule_consistent hsim sched
  obtain ⟨p1, p2, p3, p4⟩ := Iter.schedule_prefixes hsim (hD.filter _) sched
  exact ⟨c1, c2, c3, p1, p2, p3, p4, c4⟩

/-- the same for the inclusive machine (`all_values = None`) over ascending stored values `S` -/
theorem iter_double_ended_consistent_inclusive {S : List Nat} (hS : Asc S) (sched : List Bool) :
    let o := (Iter.newBidirectional S none).runSchedule sched
    o = dequeRun sched S ∧ o.map (·.1) = sched ∧
    fronts o ++ dequeRest sched S ++ (backs o).reverse = S ∧
    fronts o <+: S ∧ backs o <+: S.reverse ∧ (fronts o ++ backs o).Nodup ∧
    (fronts o).length + (backs o).length ≤ S.length ∧
    o.map (fun p => p.2.isSome) =
      List.replicate (min sched.length S.length) true ++
        List.replicate (sched.length - S.length) false := by
  intro o
  have hsim := Iter.newBidirectional_sim_none S
  obtain ⟨c1, c2, c3, c4⟩ := Iter.schedule_consistent hsim sched
  obtain ⟨p1, p2, p3, p4⟩ := Iter.schedule_prefixes hsim hS sched
  exact ⟨c1, c2, c3, p1, p2, p3, p4, c4⟩

/-- and for `IntSet::iter()` itself, in both modes, against the mathematical member sequence -/
theorem iter_double_ended_consistent_intset {d : Domain} (hd : DomWF d) {s : IntSet}
    (h : IInvD d s) (sched : List Bool) :
    let o := (s.iterMachine d).runSchedule sched
    o = dequeRun sched (s.elems d) ∧
    fronts o ++ dequeRest sched (s.elems d) ++ (backs o).reverse = s.elems d ∧
    (fronts o ++ backs o).Nodup ∧
    o.map (fun p => p.2.isSome) =
      List.replicate (min sched.length (s.elems d).length) true ++
        List.replicate (sched.length - (s.elems d).length) false := by
  intro o
  have hsim := IntSet.iterMachine_sim hd h
  obtain ⟨c1, _, c3, c4⟩ := Iter.schedule_consistent hsim sched
  obtain ⟨_, _, p3, _⟩ := Iter.schedule_prefixes hsim (elems_asc hd s) sched
  exact ⟨c1, c3, p3, c4⟩

/-! non-vacuity (the skip loops are defined by well-founded recursion, so the concrete runs are
obtained through the theorems; `#eval` gives the same values) -/

example : Asc [2, 5, 9] ∧ Asc [1, 2, 3, 5, 7] := by simp [Asc]

example : Iter.take 10 (Iter.newBidirectional [2, 5, 9] (some [1, 2, 3, 5, 7])) = [1, 3, 7] := by
  rw [(iter_exclusive_yields_members (S := [2, 5, 9]) (D := [1, 2, 3, 5, 7]) (by simp [Asc])
    (by simp [Asc]) 10).1]; decide

example : Iter.takeBack 10 (Iter.newBidirectional [2, 5, 9] (some [1, 2, 3, 5, 7])) = [7, 3, 1] := by
  rw [(iter_exclusive_yields_members (S := [2, 5, 9]) (D := [1, 2, 3, 5, 7]) (by simp [Asc])
    (by simp [Asc]) 10).2.1]; decide

example : (Iter.newBidirectional [2, 5] (some [1, 2, 3, 5, 7])).runSchedule
    [true, false, false, true, false] =
    [(true, some 1), (false, some 7), (false, some 3), (true, none), (false, none)] := by
  rw [(iter_double_ended_consistent (S := [2, 5]) (D := [1, 2, 3, 5, 7]) (by simp [Asc])
    (by simp [Asc]) _).1]; decide

end FontVerif.C14IterMod
