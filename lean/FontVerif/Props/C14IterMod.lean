/-
C14 — the iterator state machines of `IntSet<T>` refine the sequence-level model.
Property theorems only (helper lemmas live in Lemmas/IntSetIterMod.lean).
Model: Model/IntSetIterMod.lean ⇄ read-fonts/src/collections/int_set/mod.rs
  (`struct Iter` + `new` / `new_bidirectional` / `next` / `next_back`; `enum RangeIter` + `next`,
  `next_exclusive`, `next_discontinuous`, `are_values_adjacent`; the constructor sites `iter`,
  `iter_after`, `iter_ranges_invertible`).

The underlying generic iterators are modelled as the list of items not yet produced
(`next` pops the head, `next_back` pops the last): the contract of a std `DoubleEndedIterator`
over a finite sequence.

Vocabulary (Lemmas/IntSetIterMod.lean, Lemmas/IntSet*.lean)
* `RangeIter.collect d it` : run `next` until `None`; `none` = strict-profile trap (`start - 1`
                             underflow in `next_exclusive`), `some items` otherwise
* `ExclOk lo R`            : `R` sorted/disjoint (`p.2 < q.1`) and no range with `start = 0` lies
                             entirely below `lo` — exactly what keeps `start - 1` from underflowing
* `RangeIter.denote d it`  : the items a state still owes, as an abstract-model expression
* `RangeIter.Ok it`        : `ExclOk min ranges` for a not-yet-`done` `Exclusive`, `True` otherwise
* `DomWF d`, `IInvD d s`, `RSorted`, `NRInv`, `Asc`, `s.elems d` : as in Props/C14IntSet.lean
-/
import FontVerif.Lemmas.IntSetIterMod
set_option linter.unusedVariables false
namespace FontVerif.C14IterMod
open FontVerif.IntSet

/-! ## range_iter_yields_abstract_ranges -/

/-- every single `RangeIter::next` call, in every reachable state: no trap, the item is the head
of what the state denotes in the abstract model (`None` iff nothing is owed), the successor state
denotes the tail, and the iterator is fused (`None` is followed by `None` forever) -/
theorem range_iter_next_refines (d : Domain) (it : RangeIter) (h : it.Ok) :
    ∃ item it', it.next d = some (item, it') ∧ it'.Ok ∧
      it.denote d = (match item with
        | none => []
        | some x => x :: it'.denote d) ∧
      (item.isSome → it'.size < it.size) ∧ (item = none → it'.denote d = []) :=
  RangeIter.next_spec d it h

/-- `RangeIter::Inclusive` run to exhaustion: the underlying ranges, unchanged -/
theorem range_iter_inclusive (d : Domain) (R : List (Nat × Nat)) :
    (RangeIter.inclusive R).collect d = some R :=
  RangeIter.collect_eq d _ trivial

/-- `RangeIter::InclusiveDiscontinuous` (fresh: `current_range = None`) run to exhaustion:
`mergeDomainAdjacent d R` -/
theorem range_iter_inclusive_discontinuous (d : Domain) (R : List (Nat × Nat)) :
    (RangeIter.inclusiveDiscontinuous R none).collect d = some (mergeDomainAdjacent d R) :=
  RangeIter.collect_eq d _ trivial

/-- `RangeIter::Exclusive { min: lo, max: hi, done: false }` run to exhaustion:
`complementRanges lo hi R`, and no `u32` underflow, whenever the ranges are sorted and disjoint
and none with `start = 0` lies entirely below `lo` -/
theorem range_iter_exclusive (d : Domain) (R : List (Nat × Nat)) (lo hi : Nat)
    (h : ExclOk lo R) :
    (RangeIter.exclusive R lo hi false).collect d = some (complementRanges lo hi R) :=
  RangeIter.collect_eq d _ (fun _ => h)

/-- in particular for RangeSet-normal-form ranges that start inside the domain -/
theorem range_iter_exclusive_nrinv (d : Domain) (R : List (Nat × Nat)) (lo hi : Nat)
    (h : NRInv R) (hlo : ∀ r ∈ R, lo ≤ r.1) :
    (RangeIter.exclusive R lo hi false).collect d = some (complementRanges lo hi R) :=
  range_iter_exclusive d R lo hi (exclOk_of_rsorted h.rsorted hlo)

/-- `RangeIter::ExclusiveDiscontinuous` over the domain values `D` run to exhaustion:
`discontinuousRuns contains D` -/
theorem range_iter_exclusive_discontinuous (d : Domain) (D : List Nat) (contains : Nat → Bool) :
    (RangeIter.exclusiveDiscontinuous D contains none).collect d =
      some (discontinuousRuns contains D) :=
  RangeIter.collect_eq d _ trivial

/-- `iter_ranges_invertible(inv)`: the `RangeIter` it builds exists (the two `unwrap`s of the
`Exclusive` arm do not panic), never traps, and run to exhaustion yields exactly
`IntSet.rangesInvertible d s inv` — for every well-formed domain, both membership modes, both
values of `inv` -/
theorem range_iter_yields_abstract_ranges {d : Domain} (hd : DomWF d) {s : IntSet}
    (h : IInvD d s) (inv : Bool) :
    ∃ it, s.rangeIterMachine d inv = some it ∧
      it.collect d = some (s.rangesInvertible d inv) := by
  obtain ⟨it, h1, _, _, h4⟩ := IntSet.rangeIterMachine_collect hd h inv
  exact ⟨it, h1, h4⟩

/-! non-vacuity / the trap is real in the model -/

/-- a range lying entirely below `min` and starting at `0` makes `next_range.start() - 1`
underflow (strict profile: trap). Unreachable from `IntSet<T>`: stored values are domain values
(`InDom`), and `min` is the least domain value. -/
example : (RangeIter.exclusive [(0, 1)] 2 20 false).collect Domain.u32 = none := by decide

example : (RangeIter.exclusive [(0, 3), (5, 6), (10, 20)] 0 20 false).collect Domain.u32
    = some [(4, 4), (7, 9)] := by decide

example : ExclOk 0 [(0, 3), (5, 6), (10, 20)] := by
  refine ⟨by simp, ?_⟩
  intro r hr; simp at hr; rcases hr with rfl | rfl | rfl <;> simp

end FontVerif.C14IterMod
