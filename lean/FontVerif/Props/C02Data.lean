/-
C02 — skrifa and IFT client APIs are total on hostile fonts and arguments.

Core 1d: EVERY data opcode of the TrueType interpreter (Model/InterpData.lean `semAll`: storage, cvt, zone pointers,
reference points, point getters / movers, stack manipulation, pushes, arithmetic, rounding, GETINFO / GETVARIATION /
GETDATA, delta exceptions, IUP, and the loop-carrying opcodes of Model/InterpLoops.lean) with checked indices.

* `data_opcode_total`: for every opcode byte, every value stack within capacity and every data state satisfying the
  invariant `FInv`, `semAll` returns `Ok(stack', state')` with the invariant kept, the stack within capacity, the zone
  sizes / stack capacity / storage / cvt lengths unchanged and at most `work` loop iterations — or an error VALUE that
  is a `HintErrorKind` (never the panic marker `E_PANIC` that models an out-of-bounds index, a `copy_from_slice` length
  mismatch, a shift overflow or a `usize` underflow).
* `dispatch_total_concrete` / `run_returns_concrete` / `run_total_work_le_concrete`: the control machine of
  Model/Interp.lean instantiated with `semAll`: no hypothesis about the data opcodes is left.  The only parameter is
  `Arith` (rounding and the values read from point coordinates): total functions, see Props/C20.lean
  (`roundStateRound_no_trap`, `hMul_no_trap`, `hMulDiv_no_trap`, `hMulDivNoRound_no_trap`, `hMul14_no_trap`) and
  Props/C15.lean for the arithmetic behind them.
-/
import FontVerif.Lemmas.InterpData
import FontVerif.Props.C02Run
namespace FontVerif.C02
open FontVerif FontVerif.Interp FontVerif.InterpLemmas FontVerif.InterpLoops FontVerif.InterpCost FontVerif.InterpData
open FontVerif.InterpRunLemmas FontVerif.InterpDataLemmas FontVerif.InterpLoopsLemmas
set_option linter.unusedVariables false

/-! ### one successful data opcode -/

/-- the conclusion of `semAll_ok` for a state that differs from `f` only in `g` -/
theorem with_g_ok (f : F) (vs vs' : List Int) (g' : G) (hinv : FInv f) (hst : Step f.g vs g')
    (hlen : vs'.length ≤ g'.cap) :
    Step f.g vs ({ f with g := g' } : F).g ∧ vs'.length ≤ ({ f with g := g' } : F).g.cap ∧ FInv { f with g := g' } ∧
    Keep f { f with g := g' } := by
  obtain ⟨h1, h2, h3, h4, h5⟩ := hinv
  refine ⟨hst, hlen, ⟨hst.1, h2, h3, h4, ?_⟩, Keep.refl _⟩
  obtain ⟨_, _, e1, _, e3, _⟩ := hst
  simp only []
  rw [e1, e3]; exact h5

/-- a loop-carrying opcode run on the loop part of the state -/
theorem loop_branch (ped : Bool) (op : Nat) (f : F) (vs vs' : List Int) (g' : G) (hinv : FInv f)
    (hstk : vs.length ≤ f.g.cap) (h : semLoopOp ped op vs f.g = some (.ok (vs', g'))) :
    Step f.g vs ({ f with g := g' } : F).g ∧ vs'.length ≤ ({ f with g := g' } : F).g.cap ∧ FInv { f with g := g' } ∧
    Keep f { f with g := g' } := by
  have hst := loop_opcode_bounded ped op vs vs' f.g g' hinv.1 h
  have hl := semLoopOp_len ped op vs vs' f.g g' h
  refine with_g_ok f vs vs' g' hinv hst ?_
  rw [hst.2.2.2.2.2]; omega

/-- **a successful data opcode**: `Step` on the loop state (well-formedness, zone sizes, contour list and stack
    capacity unchanged, at most `work` iterations), the stack within capacity, the invariant kept, and the storage /
    cvt lengths, the program and the axis count unchanged -/
theorem semCore_ok (A : Arith) (ped : Bool) (op : Nat) (bytes : List Nat) (vs vs' : List Int) (f0 f' : F)
    (hinv0 : FInv f0) (hstk0 : vs.length ≤ f0.g.cap) (h : semCore A ped op bytes vs f0 = .ok (vs', f')) :
    Step f0.g vs f'.g ∧ vs'.length ≤ f'.g.cap ∧ FInv f' ∧ Keep f0 f' := by
  unfold semCore at h
  simp only [] at h
  -- pushes, DUP POP CLEAR SWAP DEPTH
  by_cases c1 : op = 0x40 ∨ op = 0x41 ∨ (0xB0 ≤ op ∧ op ≤ 0xBF) ∨ (0x20 ≤ op ∧ op ≤ 0x24)
  · rw [if_pos c1] at h
    cases hs : semSubset ped op bytes (vs, f0.g.cap) with
    | error e => rw [hs] at h; cases h
    | ok r =>
      rw [hs] at h
      obtain ⟨vs1, cap1⟩ := r
      simp only [] at h
      have hl := semSubset_len ped op bytes vs vs1 f0.g.cap cap1 hstk0 hs
      have h0 := Prod.mk.inj (Except.ok.inj h)
      obtain ⟨e1, e2⟩ := h0
      subst e1
      by_cases c2 : 0x20 ≤ op ∧ op ≤ 0x24
      · rw [if_pos c2] at e2; subst e2
        exact ⟨step_refl _ _ hinv0.1, hl.1, hinv0, Keep.refl _⟩
      · rw [if_neg c2] at e2; subst e2
        have hpl := semSubset_push_len ped op bytes vs vs1 f0.g.cap cap1 (by omega) hs
        refine with_g_ok f0 vs vs1 _ hinv0 ⟨⟨hinv0.1.1, hinv0.1.2⟩, ?_, rfl, rfl, rfl, rfl⟩ hl.1
        have := hl.1
        simp only [work]; omega
  rw [if_neg c1] at h
  -- ROLL
  by_cases c2 : op = 0x8A
  · rw [if_pos c2] at h
    cases hr : opRoll ped f0.g.cap vs with
    | error e => rw [hr] at h; cases h
    | ok r =>
      rw [hr] at h
      have h0 := Prod.mk.inj (Except.ok.inj h)
      obtain ⟨e1, e2⟩ := h0
      subst e1; subst e2
      refine ⟨step_refl _ _ hinv0.1, ?_, hinv0, Keep.refl _⟩
      unfold opRoll at hr
      split at hr
      · cases hr
      · split at hr
        · exact (pushAll_len hr).1
        · cases hr
  rw [if_neg c2] at h
  -- CINDEX / MINDEX
  by_cases c3 : op = 0x25 ∨ op = 0x26
  · rw [if_pos c3] at h
    split at h
    · cases h
    · split at h
      · rename_i vs1 g1 hl
        have h0 := Prod.mk.inj (Except.ok.inj h)
        obtain ⟨e1, e2⟩ := h0
        subst e1; subst e2
        exact loop_branch ped op f0 vs _ g1 hinv0 hstk0 hl
      · cases h
      · cases h
  rw [if_neg c3] at h
  -- DELTAP
  by_cases c4 : op = 0x5D ∨ op = 0x71 ∨ op = 0x72
  · rw [if_pos c4] at h
    split at h
    · cases h
    · split at h
      · rename_i vs1 g1 hl
        have h0 := Prod.mk.inj (Except.ok.inj h)
        obtain ⟨e1, e2⟩ := h0
        subst e1; subst e2
        exact loop_branch ped op f0 vs _ g1 hinv0 hstk0 hl
      · cases h
      · cases h
  rw [if_neg c4] at h
  -- DELTAC
  by_cases c5 : op = 0x73 ∨ op = 0x74 ∨ op = 0x75
  · rw [if_pos c5] at h
    split at h
    · cases h
    · unfold opDeltaC at h
      split at h
      · cases h
      · rename_i n vs1 hp
        have hl1 := pop_length_le' hp
        split at h
        · cases h
        · simp only [] at h
          split at h
          · cases h
          · rename_i vs2 c2 k hd
            have ⟨k1, k2, k3, k4⟩ := deltaCLoop_ok ped _ _ _ _ _ _ _ _ _ _ hd
            have h0 := Prod.mk.inj (Except.ok.inj h)
            obtain ⟨e1, e2⟩ := h0
            subst e1; subst e2
            obtain ⟨i1, i2, i3, i4, i5⟩ := hinv0
            refine ⟨⟨⟨i1.1, i1.2⟩, ?_, rfl, rfl, rfl, rfl⟩, ?_, ⟨⟨i1.1, i1.2⟩, i2, k4 i3, i4, i5⟩, ⟨rfl, k3, rfl, rfl⟩⟩
            · simp only [work]
              have : min (if n < 0 then 0 else n.toNat) (vs1.length / 2) ≤ vs1.length / 2 := Nat.min_le_right _ _
              omega
            · simp only []; omega
  rw [if_neg c5] at h
  -- IUP
  by_cases c6 : op = 0x30 ∨ op = 0x31
  · rw [if_pos c6] at h
    split at h
    · cases h
    · rename_i hguard
      obtain ⟨g1, hl, q1, q2, q3, q4, q5, q6⟩ := semLoopOp_iup ped op c6 vs f0.g
      rw [hl] at h
      simp only [] at h
      have h0 := Prod.mk.inj (Except.ok.inj h)
      obtain ⟨e1, e2⟩ := h0
      subst e1; subst e2
      obtain ⟨i1, i2, i3, i4, i5⟩ := hinv0
      -- the scan work: nothing when IUP is skipped or there is no contour, else at most 4 × points
      have hw : (if (!(f0.g.bc && f0.g.didX && f0.g.didY)) = true then
                   InterpLoops.iup (A.touched f0.nAbs) f0.g.glyphPts f0.g.glyphContours 0 0 else 0) ≤ 4 * f0.g.glyphPts := by
        split
        · by_cases hc : f0.g.glyphContours = []
          · rw [hc]; simp [InterpLoops.iup]
          · have := iup_work_le (A.touched f0.nAbs) f0.g.glyphPts (i5 hc) f0.g.glyphContours
            exact this
        · omega
      refine ⟨⟨⟨by simp only []; rw [q2]; exact i1.1, by simp only []; rw [q5]; exact i1.2⟩, ?_, q3, q4, q5, q6⟩, ?_,
        ⟨⟨by simp only []; rw [q2]; exact i1.1, by simp only []; rw [q5]; exact i1.2⟩, i2, i3, i4, ?_⟩, ⟨rfl, rfl, rfl, rfl⟩⟩
      · simp only [work]; rw [q1]; omega
      · simp only []; rw [q6]; exact hstk0
      · simp only []; rw [q5, q3]; exact i5
  rw [if_neg c6] at h
  -- the fixed-arity opcodes
  by_cases c7 : isEffectOp op = true
  · rw [if_pos c7] at h
    split at h
    · cases h
    · rename_i args vs1 hp
      have hl1 := popN_len ped _ _ _ _ hp
      split at h
      · cases h
      · split at h
        · cases h
        · rename_i outs u he
          split at h
          · cases h
          · rename_i vs2 hpu
            have ⟨p1, p2⟩ := pushAll_len hpu
            have h0 := Prod.mk.inj (Except.ok.inj h)
            obtain ⟨e1, e2⟩ := h0
            subst e1; subst e2
            have ⟨a1, a2, a3, a4, a5, a6⟩ := apply_g f0 u
            have ai := apply_inv f0 u hinv0
            have ak := apply_keep f0 u
            obtain ⟨i1, i2, i3, i4, i5⟩ := ai
            refine ⟨⟨⟨i1.1, i1.2⟩, ?_, a1, a2, a3, a4⟩, ?_, ⟨⟨i1.1, i1.2⟩, i2, i3, i4, i5⟩, ak⟩
            · simp only [work]; rw [a5]; omega
            · simp only []; rw [a4]; exact p1
  rw [if_neg c7] at h
  -- the remaining loop-carrying opcodes
  split at h
  · rename_i vs1 g1 hl
    have h0 := Prod.mk.inj (Except.ok.inj h)
    obtain ⟨e1, e2⟩ := h0
    subst e1; subst e2
    exact loop_branch ped op f0 vs _ g1 hinv0 hstk0 hl
  · cases h
  · cases h

theorem semAll_ok (A : Arith) (ped : Bool) (op : Nat) (bytes : List Nat) (vs vs' : List Int) (f f' : F)
    (hinv : FInv f) (hstk : vs.length ≤ f.g.cap) (h : semAll A ped op bytes (vs, f) = .ok (vs', f')) :
    Step f.g vs f'.g ∧ vs'.length ≤ f'.g.cap ∧ FInv f' ∧ Keep f f' :=
  semCore_ok A ped op bytes vs vs' { f with pend := false } f' hinv hstk h

/-! ### errors are `HintErrorKind` values, never the panic marker -/

/-- **no data opcode panics**: on a state satisfying the invariant, with the stack within capacity, every error of
    every opcode byte is a `HintErrorKind` value — never the marker of an out-of-bounds index, a `copy_from_slice`
    length mismatch, a shift overflow or a `usize` underflow -/
theorem semCore_kind (A : Arith) (ped : Bool) (op : Nat) (hop : op < 256) (bytes : List Nat) (vs : List Int) (f0 : F)
    (hinv0 : FInv f0) (hstk0 : vs.length ≤ f0.g.cap) : EP (semCore A ped op bytes vs f0) := by
  unfold semCore
  simp only []
  by_cases c1 : op = 0x40 ∨ op = 0x41 ∨ (0xB0 ≤ op ∧ op ≤ 0xBF) ∨ (0x20 ≤ op ∧ op ≤ 0x24)
  · rw [if_pos c1]
    split
    · rename_i e he; exact EP_err (semSubset_kind ped op hop bytes vs _ e he)
    · exact EP_ok _
  rw [if_neg c1]
  by_cases c2 : op = 0x8A
  · rw [if_pos c2]
    split
    · rename_i e he
      refine EP_err ?_
      unfold opRoll at he
      split at he
      · rename_i e1 hp; rw [← Except.error.inj he]; exact EP_popN _ _ _ _ hp
      · rename_i args vs1 hp
        have hl := popN_args_len ped _ _ _ _ hp
        split at he
        · exact EP_pushAll _ _ _ _ he
        · rename_i hne
          -- three popped values: the pattern `[a, b, c]` matches
          match args, hl, hne with
          | [a, b, c], _, hne => exact absurd rfl (hne a b c)
    · exact EP_ok _
  rw [if_neg c2]
  by_cases c3 : op = 0x25 ∨ op = 0x26
  · rw [if_pos c3]
    rw [if_neg (by omega)]
    obtain ⟨r, hr⟩ := semLoopOp_some ped op (by omega) vs f0.g
    have := EP_loop_wrap ped op hop vs f0
    rw [hr] at this ⊢
    cases r with
    | error e => exact this
    | ok x => exact EP_ok _
  rw [if_neg c3]
  by_cases c4 : op = 0x5D ∨ op = 0x71 ∨ op = 0x72
  · rw [if_pos c4]
    rw [if_neg (by have := hinv0.2.2.2.1; omega)]
    obtain ⟨r, hr⟩ := semLoopOp_some ped op (by omega) vs f0.g
    have := EP_loop_wrap ped op hop vs f0
    rw [hr] at this ⊢
    cases r with
    | error e => exact this
    | ok x => exact EP_ok _
  rw [if_neg c4]
  by_cases c5 : op = 0x73 ∨ op = 0x74 ∨ op = 0x75
  · rw [if_pos c5]
    rw [if_neg (by have := hinv0.2.2.2.1; omega)]
    unfold opDeltaC
    split
    · rename_i e he; exact EP_err (EP_pop _ _ _ he)
    · split
      · exact EP_err (by unfold Kind; decide)
      · simp only []
        split
        · rename_i e he
          refine EP_err ?_
          intro hk
          rw [hk] at he
          exact deltaCLoop_np ped _ _ _ _ _ _ _ hinv0.2.2.1 he
        · exact EP_ok _
  rw [if_neg c5]
  by_cases c6 : op = 0x30 ∨ op = 0x31
  · rw [if_pos c6]
    have hng : ¬ ((!(f0.g.bc && f0.g.didX && f0.g.didY)) = true ∧ f0.g.glyphContours ≠ [] ∧ f0.g.glyphPts = 0) := by
      intro ⟨_, h2, h3⟩
      have := hinv0.2.2.2.2 h2
      omega
    rw [if_neg hng]
    obtain ⟨g1, hl, _⟩ := semLoopOp_iup ped op c6 vs f0.g
    rw [hl]
    exact EP_ok _
  rw [if_neg c6]
  by_cases c7 : isEffectOp op = true
  · rw [if_pos c7]
    split
    · rename_i e he; exact EP_err (EP_popN _ _ _ _ he)
    · have hs : f0.storage.okb = true := (cow_okb_iff _).2 hinv0.2.1
      have hc : f0.cvt.okb = true := (cow_okb_iff _).2 hinv0.2.2.1
      rw [if_neg (by simp [hs, hc])]
      split
      · rename_i e he; exact EP_err (derr_kind e)
      · split
        · rename_i e he; exact EP_err (EP_pushAll _ _ _ _ he)
        · exact EP_ok _
  rw [if_neg c7]
  exact EP_loop_wrap ped op hop vs f0

/-- **every data opcode is total with checked indices** (`Cfg.sem = semAll`): for every opcode byte 0..=255, every
    value stack within capacity and every data state satisfying `FInv`, the result is `Ok(stack', state')` with the
    invariant kept, the stack within capacity, zone sizes / capacities / storage and cvt lengths unchanged and at most
    `work` loop iterations — or `Err(kind)` with `kind` a `HintErrorKind` (not a panic) -/
theorem data_opcode_total (A : Arith) (ped : Bool) (op : Nat) (hop : op < 256) (bytes : List Nat) (vs : List Int) (f : F)
    (hinv : FInv f) (hstk : vs.length ≤ f.g.cap) :
    (∃ vs' f', semAll A ped op bytes (vs, f) = .ok (vs', f') ∧
        Step f.g vs f'.g ∧ vs'.length ≤ f'.g.cap ∧ FInv f' ∧ Keep f f') ∨
    (∃ e, semAll A ped op bytes (vs, f) = .error e ∧ e ≠ E_PANIC) := by
  cases h : semAll A ped op bytes (vs, f) with
  | ok r =>
    left
    obtain ⟨vs', f'⟩ := r
    exact ⟨vs', f', rfl, semAll_ok A ped op bytes vs vs' f f' hinv hstk h⟩
  | error e =>
    right
    exact ⟨e, rfl, semCore_kind A ped op hop bytes vs { f with pend := false } hinv hstk e h⟩

/-! ### the control machine with the complete data semantics: no assumption about data opcodes left -/

/-- the machine of Model/Interp.lean instantiated with `semAll` -/
def fullCfg (A : Arith) (font cv glyph : Array Nat) (limit : Nat) (ped : Bool) (axes : Nat) : Cfg F :=
  { font := font, cv := cv, glyph := glyph, limit := limit, pedantic := ped, sem := semAll A ped, axisCount := axes }

/-- a program is a byte string -/
def Bytes (a : Array Nat) : Prop := ∀ i (h : i < a.size), a[i] < 256

/-- `semAll` honours the per-dispatch contract of Props/C02Run.lean, with `FInv` as the invariant of the data state -/
theorem semAll_semOk (A : Arith) (ped : Bool) : SemOk (semAll A ped) (fun f => f.g) FInv := by
  intro op bytes vs f vs' f' hI hw hstk h
  have := semAll_ok A ped op bytes vs vs' f f' hI hstk h
  exact ⟨this.1, this.2.1, this.2.2.1⟩

/-- **`dispatch` is total for every opcode byte, with no assumption**: on a state whose data part satisfies the
    invariant and whose stack is within capacity, the dispatch of ANY opcode byte returns `Ok(next state)` — invariant
    kept, stack within capacity, zone sizes / stack capacity / storage and cvt lengths / definition-table lengths
    unchanged — or `Err(kind)`, `kind` a `HintErrorKind` value: never an index panic -/
theorem dispatch_total_concrete (A : Arith) (font cv glyph : Array Nat) (limit : Nat) (ped : Bool) (axes : Nat)
    (s : St F) (op : Nat) (hop : op < 256) (ops : List Nat) (hinv : FInv s.data) (hstk : s.vs.length ≤ s.data.g.cap) :
    let c := fullCfg A font cv glyph limit ped axes
    (∃ s2, dispatch c s op ops = some (.ok s2) ∧ FInv s2.data ∧ s2.vs.length ≤ s2.data.g.cap ∧
        s2.data.g.glyphPts = s.data.g.glyphPts ∧ s2.data.g.twiPts = s.data.g.twiPts ∧
        s2.data.g.cap = s.data.g.cap ∧ Keep s.data s2.data ∧
        s2.funcs.length = s.funcs.length ∧ s2.idefs.length = s.idefs.length) ∨
    (∃ e, dispatch c s op ops = some (.error e) ∧ e ≠ E_PANIC) := by
  intro c
  obtain ⟨r, hr⟩ := dispatch_total c s op ops
  cases r with
  | ok s2 =>
    left
    refine ⟨s2, hr, ?_⟩
    rcases dispatch_shape hr with ⟨c1, c2, c3, c4⟩ | ⟨hs, hf, hi, _⟩
    · rw [c1]
      exact ⟨hinv, Nat.le_trans c2 hstk, rfl, rfl, rfl, Keep.refl _, c3, c4⟩
    · have := semAll_ok A ped op ops s.vs s2.vs s.data s2.data hinv hstk hs
      obtain ⟨⟨_, _, e1, e2, _, e4⟩, h2, h3, h4⟩ := this
      exact ⟨h3, h2, e1, e2, e4, h4, by rw [hf], by rw [hi]⟩
  | error e =>
    right
    refine ⟨e, hr, ?_⟩
    rcases dispatch_err hr with hc | hs
    · exact hc 1999
    · exact semCore_kind A ped op hop ops s.vs { s.data with pend := false } hinv hstk e hs

/-- one iteration of the run loop never produces the panic marker -/
theorem step_failed_kind (A : Arith) (font cv glyph : Array Nat) (hb : Bytes font ∧ Bytes cv ∧ Bytes glyph)
    (limit : Nat) (ped : Bool) (axes : Nat) (s : St F) (hr : s.status = .running)
    (hinv : FInv s.data) (hstk : s.vs.length ≤ s.data.g.cap) (e : Err)
    (h : (step (fullCfg A font cv glyph limit ped axes) s).status = .failed e) : e ≠ E_PANIC := by
  generalize hc : fullCfg A font cv glyph limit ped axes = c at h
  have hbytes : Bytes (c.code s.current) := by
    rw [← hc]; unfold Cfg.code fullCfg; simp only []
    split
    · exact hb.1
    · split
      · exact hb.2.1
      · exact hb.2.2
  cases hd : decode (c.code s.current) s.pc with
  | eof =>
    have hs : step c s = { s with status := .done } := by unfold step; simp only [hr, hd]
    rw [hs] at h; cases h
  | bad =>
    have hs : step c s = { s with status := .failed .unexpectedEnd } := by unfold step; simp only [hr, hd]
    rw [hs] at h
    have := Status.failed.inj h
    rw [← this]; decide
  | ins op operands ipc next =>
    have hop := decode_op_lt hbytes hd
    have hstep := step_ins c s hr hd
    cases hdis : dispatch c { s with pc := next } op operands with
    | none => exact absurd hdis (dispatch_ne_none _ _ _ _)
    | some r =>
      cases r with
      | error e1 =>
        rw [hdis] at hstep
        simp only [] at hstep
        rw [hstep] at h
        have he := Status.failed.inj h
        subst he
        rcases dispatch_err hdis with hce | hs
        · exact hce 1999
        · rw [← hc] at hs
          exact semCore_kind A ped op hop operands s.vs { s.data with pend := false } hinv hstk e1 hs
      | ok s2 =>
        rw [hdis] at hstep
        simp only [] at hstep
        rw [hstep] at h
        have hst := (dispatch_rel hdis).2.1
        simp only [] at hst
        split at h
        · have := Status.failed.inj h
          rw [← this]; decide
        · simp only [] at h
          rw [hst, hr] at h; cases h

/-- **`Engine::run` returns, with NO assumption about the data opcodes**: for every three byte-string programs, every
    budget, pedantic or not, any axis count, any definition tables, any value stack within capacity and any data state
    satisfying the invariant (any zone sizes, storage / cvt contents, graphics state), and any arithmetic oracle, the
    run ends `Ok(())` or with an error that is a `HintErrorKind` value — it never gets stuck, never runs on, and no data
    opcode indexes out of range -/
theorem run_returns_concrete (A : Arith) (font cv glyph : Array Nat) (hb : Bytes font ∧ Bytes cv ∧ Bytes glyph)
    (limit : Nat) (ped : Bool) (axes : Nat) (p : Nat) (fs ids : List Def) (vs : List Int) (f : F)
    (hinv : FInv f) (hstk : vs.length ≤ f.g.cap) :
    let c := fullCfg A font cv glyph limit ped axes
    (run c (initSt p fs ids vs f)).status = .done ∨
    ∃ e, (run c (initSt p fs ids vs f)).status = .failed e ∧ e ≠ E_PANIC := by
  intro c
  rcases run_returns c p fs ids vs f with hd | ⟨e, he⟩
  · exact Or.inl hd
  · right
    refine ⟨e, he, ?_⟩
    -- along the run: the invariant holds, and a failed status never carries the panic marker
    have hri : RunInv c (fun f => f.g) FInv f.g fs.length ids.length (initSt p fs ids vs f) := by
      refine ⟨initSt_good c p fs ids vs f, hinv, hinv.1, rfl, rfl, rfl, rfl, hstk, ?_, ?_⟩
      · unfold initSt; simp only []; split <;> simp
      · unfold initSt; simp only []; split <;> simp
    have key : ∀ (n : Nat) (s : St F), RunInv c (fun f => f.g) FInv f.g fs.length ids.length s →
        (∀ e, s.status = .failed e → e ≠ E_PANIC) → ∀ e, (iter c n s).status = .failed e → e ≠ E_PANIC := by
      intro n
      induction n with
      | zero => intro s _ hp e he; exact hp e he
      | succ n ih =>
        intro s hi hp e he
        refine ih (step c s) (step_inv c (fun f => f.g) (semAll_semOk A ped) f.g _ _ s hi).1 ?_ e he
        intro e1 he1
        by_cases hr : s.status = .running
        · have hcap : s.vs.length ≤ s.data.g.cap := by rw [hi.cap]; exact hi.stack
          exact step_failed_kind A font cv glyph hb limit ped axes s hr hi.inv hcap e1 he1
        · rw [step_halted c s hr] at he1; exact hp e1 he1
    unfold run at he
    rw [runLoop_eq_iter] at he
    refine key _ _ hri ?_ e he
    intro e1 he1
    unfold initSt at he1; cases he1

/-- **whole-run work bound with NO assumption about the data opcodes** (`run_total_work_le` for `semAll`) -/
theorem run_total_work_le_concrete (A : Arith) (font cv glyph : Array Nat) (limit : Nat) (ped : Bool) (axes : Nat)
    (p : Nat) (fs ids : List Def) (vs : List Int) (f : F) (hinv : FInv f) (hstk : vs.length ≤ f.g.cap) (n : Nat) :
    let c := fullCfg A font cv glyph limit ped axes
    runCost c (fun f => f.g) n (initSt p fs ids vs f)
      ≤ (MAX_RUN_INSTRUCTIONS + 1) * perStep c (fs.length + ids.length) f.g :=
  run_total_work_le _ (fun f => f.g) (semAll_semOk A ped) p fs ids vs f hinv hinv.1 hstk n

/-- **everything the per-dispatch bounds depend on is invariant over the whole run** of the complete machine: zone
    sizes, contour list, stack capacity, definition-table lengths; the value stack stays within capacity, the loop
    counter ≤ 0xFFFF and the data-state invariant (copy-on-write slices consistent, `delta_shift ≤ 6`) holds at every
    dispatch; the storage-area and cvt lengths never change (`Keep`) -/
theorem run_sizes_invariant_concrete (A : Arith) (font cv glyph : Array Nat) (limit : Nat) (ped : Bool) (axes : Nat)
    (p : Nat) (fs ids : List Def) (vs : List Int) (f : F) (hinv : FInv f) (hstk : vs.length ≤ f.g.cap) (n : Nat) :
    let s := iter (fullCfg A font cv glyph limit ped axes) n (initSt p fs ids vs f)
    s.data.g.glyphPts = f.g.glyphPts ∧ s.data.g.twiPts = f.g.twiPts ∧ s.data.g.glyphContours = f.g.glyphContours ∧
    s.data.g.cap = f.g.cap ∧ s.vs.length ≤ f.g.cap ∧ s.funcs.length = fs.length ∧ s.idefs.length = ids.length ∧
    s.data.g.loop ≤ 65535 ∧ FInv s.data :=
  run_sizes_invariant _ (fun f => f.g) (semAll_semOk A ped) p fs ids vs f hinv hinv.1 hstk n

/-- the storage-area and cvt lengths are those of the start after any number of loop iterations -/
theorem run_table_lengths_invariant (A : Arith) (font cv glyph : Array Nat) (limit : Nat) (ped : Bool) (axes : Nat)
    (p : Nat) (fs ids : List Def) (vs : List Int) (f : F) (hinv : FInv f) (hstk : vs.length ≤ f.g.cap) (n : Nat) :
    Keep f (iter (fullCfg A font cv glyph limit ped axes) n (initSt p fs ids vs f)).data := by
  generalize hc : fullCfg A font cv glyph limit ped axes = c
  have hri : RunInv c (fun f => f.g) FInv f.g fs.length ids.length (initSt p fs ids vs f) := by
    refine ⟨initSt_good c p fs ids vs f, hinv, hinv.1, rfl, rfl, rfl, rfl, hstk, ?_, ?_⟩
    · unfold initSt; simp only []; split <;> simp
    · unfold initSt; simp only []; split <;> simp
  have hsem : SemOk c.sem (fun f => f.g) FInv := by rw [← hc]; exact semAll_semOk A ped
  have key : ∀ (n : Nat) (s : St F), RunInv c (fun f => f.g) FInv f.g fs.length ids.length s → Keep f s.data →
      Keep f (iter c n s).data := by
    intro n
    induction n with
    | zero => intro s _ hk; exact hk
    | succ n ih =>
      intro s hi hk
      refine ih (step c s) (step_inv c (fun f => f.g) hsem f.g _ _ s hi).1 ?_
      by_cases hr : s.status = .running
      rotate_left
      · rw [step_halted c s hr]; exact hk
      -- the data state after a step is the old one or the result of `semAll`
      cases hd : decode (c.code s.current) s.pc with
      | eof => have hs : step c s = { s with status := .done } := by unfold step; simp only [hr, hd]
               rw [hs]; exact hk
      | bad => have hs : step c s = { s with status := .failed .unexpectedEnd } := by unfold step; simp only [hr, hd]
               rw [hs]; exact hk
      | ins op operands ipc next =>
        have hstep := step_ins c s hr hd
        cases hdis : dispatch c { s with pc := next } op operands with
        | none => exact absurd hdis (dispatch_ne_none _ _ _ _)
        | some r =>
          cases r with
          | error e1 => rw [hdis] at hstep; simp only [] at hstep; rw [hstep]; exact hk
          | ok s2 =>
            rw [hdis] at hstep
            simp only [] at hstep
            have hsd : (step c s).data = s2.data := by rw [hstep]; split <;> rfl
            rw [hsd]
            rcases dispatch_shape hdis with ⟨c1, _, _, _⟩ | ⟨hs, _, _, _⟩
            · rw [c1]; exact hk
            · simp only [] at hs
              rw [← hc] at hs
              have hcap : s.vs.length ≤ s.data.g.cap := by rw [hi.cap]; exact hi.stack
              have hk2 := (semAll_ok A ped op operands s.vs s2.vs s.data s2.data hi.inv hcap hs).2.2.2
              exact ⟨hk2.1.trans hk.1, hk2.2.1.trans hk.2.1, hk2.2.2.1.trans hk.2.2.1, hk2.2.2.2.trans hk.2.2.2⟩
  exact key n _ hri (Keep.refl f)

/-! ### non-vacuity -/

def exA : Arith := { round := fun _ _ _ _ d => d, coord := fun _ => 0, vec := fun _ => (0x4000, 0), touched := fun _ _ => false }
/-- glyph zone of 7 points in one contour, twilight zone of 4, storage of 2 slots, cvt of 3 entries (copy-on-write, as
    in a glyph program), stack capacity 8 -/
def fEx : F :=
  { g := { cap := 8, glyphPts := 7, glyphContours := [2], twiPts := 4, ppem := 16 }, prog := 2,
    storage := ⟨[10, 20], [0, 0], false⟩, cvt := ⟨[64, 128, 192], [0, 0, 0], false⟩ }
example : FInv fEx := ⟨⟨by decide, by decide⟩, Or.inr rfl, Or.inr rfl, by decide, by decide⟩
def stackOf (r : ER) : Option (List Int) := r.toOption.map (·.1)
def errIs (r : ER) (e : Err) : Bool := match r with | .error e' => e' == e | _ => false
/-- RS 1 reads the instance's storage through the copy-on-write slice; RS 2 is InvalidStorageIndex in pedantic mode and
    pushes 0 otherwise -/
example : stackOf (semAll exA true 0x43 [] ([1], fEx)) = some [20] := by decide +kernel
example : errIs (semAll exA true 0x43 [] ([2], fEx)) E_STORAGE = true := by decide +kernel
example : stackOf (semAll exA false 0x43 [] ([2], fEx)) = some [0] := by decide +kernel
/-- WS 0 := 7 copies the slice on first write: slot 1 keeps the instance's value -/
example : (match semAll exA true 0x42 [] ([7, 0], fEx) with
    | .ok (_, f) => f.storage.dataMut == [7, 20] && f.storage.useMut | _ => false) = true := by decide +kernel
/-- RCVT 3 / WCVTP 3: InvalidCvtIndex (pedantic), ignored otherwise; MIRP with cvt entry 3: InvalidCvtIndex -/
example : errIs (semAll exA true 0x45 [] ([3], fEx)) E_CVT = true := by decide +kernel
example : errIs (semAll exA true 0x44 [] ([5, 3], fEx)) E_CVT = true := by decide +kernel
example : stackOf (semAll exA false 0x44 [] ([5, 3], fEx)) = some [] := by decide +kernel
example : errIs (semAll exA true 0xE0 [] ([3, 1], fEx)) E_CVT = true := by decide +kernel
/-- SZP0 2: InvalidZoneIndex; GC on point 7 of the 7-point glyph zone: InvalidPointIndex (even when not pedantic:
    `in_bounds` accepts index = len, `Zone::point` does not) -/
example : errIs (semAll exA true 0x13 [] ([2], fEx)) E_ZONE = true := by decide +kernel
example : errIs (semAll exA false 0x46 [] ([7], fEx)) E_POINT = true := by decide +kernel
example : stackOf (semAll exA false 0x46 [] ([8], fEx)) = some [0] := by decide +kernel
/-- DIV by zero: DivideByZero; 128 / 64 (26.6) = 128; MUL 128 * 32 (26.6) = 64 -/
example : errIs (semAll exA true 0x62 [] ([0, 5], fEx)) E_DIVZERO = true := by decide +kernel
example : stackOf (semAll exA true 0x62 [] ([64, 128], fEx)) = some [128] := by decide +kernel
example : stackOf (semAll exA true 0x63 [] ([32, 128], fEx)) = some [64] := by decide +kernel
/-- SDS 7: InvalidStackValue (so `1 << (6 - delta_shift)` never sees a shift > 6) -/
example : errIs (semAll exA true 0x5F [] ([7], fEx)) E_STACKVAL = true := by decide +kernel
/-- ROLL on [a, b, c] (top first) gives [c, a, b]; on a full stack of two in non-pedantic mode it overflows -/
example : stackOf (semAll exA true 0x8A [] ([1, 2, 3], fEx)) = some [3, 1, 2] := by decide +kernel
example : errIs (semAll exA false 0x8A [] ([1, 2], { fEx with g := { fEx.g with cap := 2 } })) .vsOverflow = true := by
  decide +kernel
/-- the panic marker is reachable in the MODEL when the invariant is violated (mismatched copy-on-write buffers,
    `delta_shift` 7, a contour without points): the invariant is what excludes it -/
example : errIs (semAll exA true 0x42 [] ([7, 0], { fEx with storage := ⟨[1, 2], [0], false⟩ })) E_PANIC = true := by
  decide +kernel
example : errIs (semAll exA true 0x5D [] ([0], { fEx with deltaShift := 7 })) E_PANIC = true := by decide +kernel
example : errIs (semAll exA true 0x30 [] ([], { fEx with g := { fEx.g with glyphPts := 0 } })) E_PANIC = true := by
  decide +kernel
/-- a whole run: `PUSHB 1; RS; PUSHB 20; EQ; IF; PUSHB 9; RCVT; EIF` — storage[1] = 20, so RCVT 9 runs: InvalidCvtIndex -/
example : (run (fullCfg exA #[] #[] #[0xB0, 1, 0x43, 0xB0, 20, 0x54, 0x58, 0xB0, 9, 0x45, 0x59] 50 true 0)
    (initSt 2 [] [] [] fEx)).status = .failed E_CVT := by decide +kernel

end FontVerif.C02
