/-
C17 — subsetting preserves everything about the glyphs and characters it keeps.
Property theorems only (helper lemmas live in Lemmas/Subset.lean).
Model: Model/Subset.lean ⇄ klippa/src/{lib.rs (Plan::new: populate_unicodes_to_retain,
populate_gids_to_retain, glyf_closure_glyphs, create_old_gid_to_new_gid_map), glyf_loca.rs, hmtx.rs, maxp.rs}.
-/
import FontVerif.Model.Subset
import FontVerif.Lemmas.Subset
set_option linter.unusedVariables false
namespace FontVerif.C17
open FontVerif FontVerif.Subset

/-! ## glyph closure -/

/-- **closure_contains_root.** One call of `glyf_closure_glyphs` retains its root glyph and never
removes a glyph, for every component graph (cyclic ones included), every remaining depth and every
operation budget (exhausted ones included). -/
theorem closure_contains_root (comps : List (List Nat)) (rem gid : Nat) (set : List Nat) (ops : Int) :
    gid ∈ (closureGo comps rem gid (set, ops)).1 ∧
    ∀ x ∈ set, x ∈ (closureGo comps rem gid (set, ops)).1 :=
  ⟨closureGo_root comps rem gid (set, ops), fun x hx => closureGo_mono comps rem gid (set, ops) x hx⟩

/-- **closure_nothing_unreachable.** Whatever `glyf_closure_glyphs` adds is the root or a transitive
component of the root. -/
theorem closure_nothing_unreachable (comps : List (List Nat)) (rem gid : Nat) (set : List Nat) (ops : Int)
    (x : Nat) (hx : x ∈ (closureGo comps rem gid (set, ops)).1) : x ∈ set ∨ Reach comps gid x :=
  closureGo_sound comps rem gid (set, ops) x hx

/-- **plan_glyphset_contains_requested.** The plan's glyph set contains `.notdef`, every requested
glyph id that exists in the font, and the glyph of every requested character (for a character map
with one entry per codepoint). -/
theorem plan_glyphset_contains_requested (p : PlanIn) (pl : Plan) (h : makePlan p = some pl)
    (hc : (p.cmap.map (·.1)).Pairwise (· ≠ ·)) :
    (0 < p.num → 0 ∈ pl.glyphset) ∧
    (∀ g ∈ p.gids, g < p.num → g ∈ pl.glyphset) ∧
    (∀ cp g, (cp, g) ∈ p.cmap → cp ∈ p.unicodes → g < p.num → g ∈ pl.glyphset) := by
  unfold makePlan at h
  simp only at h
  split at h
  · cases h
  · rename_i u2g hu
    simp only [Option.some.injEq] at h
    subst h
    simp only
    -- anything in the raw gsub set below num reaches the final glyph set
    have key : ∀ g, g < p.num →
        g ∈ (0 :: ((unicodesToRetain p).2 ++ (unicodesToRetain p).1.map (·.2) ++ p.extraGsub)) →
        g ∈ sortedBelow p.num (closureAll p.comps
          ((sortedBelow p.num (0 :: ((unicodesToRetain p).2 ++ (unicodesToRetain p).1.map (·.2) ++ p.extraGsub))).length
            * MAX_COMPOSITE_OPERATIONS_PER_GLYPH : Nat)
          (sortedBelow p.num (sortedBelow p.num (0 :: ((unicodesToRetain p).2 ++ (unicodesToRetain p).1.map (·.2) ++ p.extraGsub)) ++ p.extraColred)) []) := by
      intro g hg hm
      rw [mem_sortedBelow]
      refine ⟨hg, closureAll_roots _ _ _ _ g ?_⟩
      rw [mem_sortedBelow]
      refine ⟨hg, ?_⟩
      rw [List.mem_append]
      left
      rw [mem_sortedBelow]
      exact ⟨hg, hm⟩
    refine ⟨fun h0 => key 0 h0 (by simp), ?_, ?_⟩
    · intro g hg hlt
      apply key g hlt
      have := unicodesToRetain_gids p g hg hlt
      simp [this]
    · intro cp g hm hcp hlt
      apply key g hlt
      have := unicodesToRetain_cmap p hc cp g hm hcp
      simp only [List.mem_cons, List.mem_append, List.mem_map]
      exact Or.inr (Or.inl (Or.inr ⟨(cp, g), this, rfl⟩))

/-- **plan_glyphset_only_reachable.** Every glyph of the plan's glyph set is below the font's glyph
count and is a root of the composite closure (a member of `glyphset_colred`) or a transitive component of one;
every root is `.notdef`, a requested glyph, the glyph of a character map entry whose codepoint or
glyph was requested, or was added by the cmap-14 / COLR closures (inputs of the model). -/
theorem plan_glyphset_only_reachable (p : PlanIn) (pl : Plan) (h : makePlan p = some pl) :
    (∀ x ∈ pl.glyphset, x < p.num ∧ ∃ r ∈ pl.colred, Reach p.comps r x) ∧
    (∀ r ∈ pl.colred, r = 0 ∨ r ∈ p.gids ∨ (∃ cp, (cp, r) ∈ p.cmap ∧ (cp ∈ p.unicodes ∨ r ∈ p.gids)) ∨
        r ∈ p.extraGsub ∨ r ∈ p.extraColred) := by
  unfold makePlan at h
  simp only at h
  split at h
  · cases h
  · rename_i u2g hu
    simp only [Option.some.injEq] at h
    subst h
    simp only
    constructor
    · intro x hx
      rw [mem_sortedBelow] at hx
      refine ⟨hx.1, ?_⟩
      rcases closureAll_sound _ _ _ _ x hx.2 with h1 | h2
      · simp at h1
      · exact h2
    · intro r hr
      rw [mem_sortedBelow, List.mem_append, mem_sortedBelow] at hr
      rcases hr.2 with ⟨_, hg⟩ | hy
      · simp only [List.mem_cons, List.mem_append, List.mem_map] at hg
        rcases hg with rfl | (hreq | ⟨cg, hcg, rfl⟩) | hx
        · exact Or.inl rfl
        · exact Or.inr (Or.inl (unicodesToRetain_snd_origin p r hreq).1)
        · obtain ⟨hm, hsel⟩ := unicodesToRetain_fst_origin p cg hcg
          exact Or.inr (Or.inr (Or.inl ⟨cg.1, hm, hsel⟩))
        · exact Or.inr (Or.inr (Or.inr (Or.inl hx)))
      · exact Or.inr (Or.inr (Or.inr (Or.inr hy)))

/-! ## renumbering -/

/-- **glyph_map_monotone_bijection.** Without retain-gids the new→old list pairs the new ids
`0, 1, …, n-1` (in this order) with the kept glyphs in strictly ascending order: a strictly monotone
bijection from the kept set onto `0..n`, and `num_output_glyphs = n`.  With retain-gids every kept
glyph keeps its id and `num_output_glyphs` exceeds every kept id. (At most 65536 kept glyphs: the
Rust zips with `0u16..`.) -/
theorem glyph_map_monotone_bijection (p : PlanIn) (pl : Plan) (h : makePlan p = some pl)
    (hn : p.num ≤ 65536) :
    pl.glyphset.Pairwise (· < ·) ∧
    (hasFlag p.flags F_RETAIN_GIDS = false →
      pl.n2o.map (·.1) = List.range pl.glyphset.length ∧ pl.n2o.map (·.2) = pl.glyphset ∧
      pl.nout = pl.glyphset.length) ∧
    (hasFlag p.flags F_RETAIN_GIDS = true →
      pl.n2o = pl.glyphset.map (fun g => (g, g)) ∧ ∀ g ∈ pl.glyphset, g < pl.nout) := by
  unfold makePlan at h
  simp only at h
  split at h
  · cases h
  · rename_i u2g hu
    simp only [Option.some.injEq] at h
    subst h
    simp only
    refine ⟨sortedBelow_pairwise _ _, ?_, ?_⟩
    · intro hf
      have hlen : ∀ s, (sortedBelow p.num s).take 65536 = sortedBelow p.num s := by
        intro s
        apply List.take_of_length_le
        have : (sortedBelow p.num s).length ≤ (List.range p.num).length := by
          unfold sortedBelow; exact List.length_filter_le _ _
        simp at this; omega
      refine ⟨?_, ?_, ?_⟩
      · rw [gidMap_renumber_fst _ _ hf, hlen]
      · rw [gidMap_renumber_snd _ _ hf, hlen]
      · rw [gidMap_renumber_nout _ _ hf, hlen]
    · intro hf
      obtain ⟨h1, h2⟩ := gidMap_retain p.flags
        (sortedBelow p.num (closureAll p.comps _ _ [])) hf
      refine ⟨h1, ?_⟩
      intro g hg
      rw [h2]
      obtain ⟨m, hm, hle⟩ := pairwise_lt_le_getLast (sortedBelow_pairwise _ _) hg
      rw [hm]; simp only; omega

/-! ## hmtx -/

/-- **hmtx_preserved.** Whenever `Hmtx::subset` succeeds, reading the rewritten table (with its new
numberOfHMetrics) at a kept glyph's new id gives the advance and the side bearing the original
table gives at its old id — for every outcome of the trailing-advance trimming, with and without
retain-gids gaps. (`num_output_glyphs ≤ 0xFFFF`: beyond that the code caps the long metrics.) -/
theorem hmtx_preserved (longs : List (Nat × Nat)) (lsbs : List Nat) (n2o : List (Nat × Nat)) (nout : Nat)
    (o : HmtxOut) (h : subsetHmtx longs lsbs n2o nout = .ok o) (hn : nout ≤ 0xFFFF)
    (new old : Nat) (hno : newToOld n2o new = some old) (hlt : new < nout) :
    o.numH = o.longs.length ∧ o.longs.length + o.lsbs.length = nout ∧ 1 ≤ o.numH ∧
    hmtxAdvance o.longs new = hmtxAdvance longs old ∧
    hmtxLsb o.longs o.lsbs new = hmtxLsb longs lsbs old := by
  unfold subsetHmtx at h
  split at h
  · cases h
  split at h
  · cases h
  simp only at h
  split at h
  · cases h
  rename_i hnz _ hany
  simp only [Except.ok.injEq] at h
  -- the kept glyph has both metrics in the source
  have hmem : (new, old) ∈ n2o := lookupNat_mem hno
  have hsome : (hmtxAdvance longs old).isSome ∧ (hmtxLsb longs lsbs old).isSome := by
    simp only [List.any_eq_true, not_exists, not_and, Bool.or_eq_true, not_or] at hany
    have := hany (new, old) hmem
    simp only [Option.isNone_iff_eq_none] at this
    constructor
    · cases ha : hmtxAdvance longs old with
      | none => exact absurd ha this.1
      | some _ => rfl
    · cases hb : hmtxLsb longs lsbs old with
      | none => exact absurd hb this.2
      | some _ => rfl
  obtain ⟨a, ha⟩ := Option.isSome_iff_exists.mp hsome.1
  obtain ⟨b, hb⟩ := Option.isSome_iff_exists.mp hsome.2
  have hmin : min nout 0xFFFF = nout := by omega
  have hnh_le : newNumHMetrics longs n2o nout ≤ nout := by
    unfold newNumHMetrics; simp only [hmin]; exact trimMetrics_le _ _ _
  have hnh_pos : 1 ≤ newNumHMetrics longs n2o nout := by
    unfold newNumHMetrics; simp only [hmin]; exact trimMetrics_pos _ _ _ (by omega)
  subst h
  simp only [List.length_map, List.length_range]
  refine ⟨trivial, by omega, hnh_pos, ?_, ?_⟩
  · -- advance
    rw [hmtxAdvance_map_range _ _ _ hnh_pos, ha]
    simp only [Option.some.injEq]
    have e3 : newGidAdvance longs n2o new = a := by
      unfold newGidAdvance; simp [hno, ha]
    by_cases hc : new < newNumHMetrics longs n2o nout
    · simp [hc, hno, ha]
    · simp only [hc, if_false]
      -- the last long metric carries `last_advance`, and so does every trimmed glyph
      have htail := trimMetrics_tail (newGidAdvance longs n2o) (newGidAdvance longs n2o (nout - 1)) nout
      have hnh : trimMetrics (newGidAdvance longs n2o) (newGidAdvance longs n2o (nout - 1)) nout
          = newNumHMetrics longs n2o nout := by
        unfold newNumHMetrics; simp only [hmin]
      have e1 : newGidAdvance longs n2o (newNumHMetrics longs n2o nout - 1) = newGidAdvance longs n2o (nout - 1) := by
        by_cases hq : newNumHMetrics longs n2o nout - 1 + 1 < nout
        · exact htail _ (by omega) hq
        · have : newNumHMetrics longs n2o nout - 1 = nout - 1 := by omega
          rw [this]
      have e2 : newGidAdvance longs n2o new = newGidAdvance longs n2o (nout - 1) := by
        by_cases hq : new + 1 < nout
        · exact htail _ (by omega) hq
        · have : new = nout - 1 := by omega
          rw [this]
      have : newGidAdvance longs n2o (newNumHMetrics longs n2o nout - 1) = a := by rw [e1, ← e2, e3]
      simpa [newGidAdvance] using this
  · -- side bearing
    rw [hmtxLsb_map_range _ _ _ _ _ (by omega), hb]
    by_cases hc : new < newNumHMetrics longs n2o nout
    · simp [hc, hno, hb]
    · have hadd : newNumHMetrics longs n2o nout + (new - newNumHMetrics longs n2o nout) = new := by omega
      simp [hc, hadd, hno, hb]

/-! ## non-vacuity -/

/-- 'A' → glyph 3 = composite of glyph 4 = composite of glyph 1 -/
def exIn1 : PlanIn :=
  { flags := 0, num := 5, cmap := [(65, 3)], comps := [[], [], [], [4], [1]],
    gids := [], unicodes := [65], extraGsub := [], extraColred := [] }

/-- retain-gids and a cyclic component graph 3 → 4 → 3 -/
def exIn2 : PlanIn :=
  { flags := 2, num := 5, cmap := [(65, 3)], comps := [[], [], [], [4], [3, 2]],
    gids := [4], unicodes := [], extraGsub := [], extraColred := [] }

example : (makePlan exIn1).map (fun pl => (pl.n2o, pl.u2g, pl.nout)) =
    some ([(0, 0), (1, 1), (2, 3), (3, 4)], [(65, 2)], 4) := by decide

example : (makePlan exIn2).map (fun pl => (pl.n2o, pl.u2g, pl.nout)) =
    some ([(0, 0), (2, 2), (3, 3), (4, 4)], [], 5) := by decide

/-- `hmtx_preserved` has instances: trailing equal advances are trimmed to 2 long metrics -/
example : (subsetHmtx [(500, 1), (600, 2), (600, 3), (700, 4)] [5] [(0, 0), (1, 1), (2, 2)] 3).toOption.map
    (fun o => (o.numH, o.longs, o.lsbs)) = some (2, [(500, 1), (600, 2)], [3]) := by decide

end FontVerif.C17
